/-
  GenAgreeC01Tab — agreement between the table-driven calendars GENERATED from pyoda_time's Python source
  (`PyodaGen/C01Tab.lean`: Badi, Um Al Qura, the Persian astronomical leap rule) and the hand-written model
  (`Badi.*`, `UAQ.*`, `Pers.leapAstronomical` of PyodaModel/Calendar/Systems.lean with the tables of Tables.lean).

  The tables of the generated file are evaluated from the SOURCE on every run: the base64 literals of the Badi and Persian
  calculators, and the three dicts that the class body of `_UmAlQuraYearMonthDayCalculator` fills when the module is
  imported (`_ctor(...)` at class level; the translator runs that class body with its small interpreter).  They are
  compared here, entry by entry and by kernel evaluation, with the committed tables of the model and with the model's own
  recomputation of year lengths and year starts (`badi_tbl`, `uaq_bits`, `uaq_len_tbl`, `uaq_start_tbl`, `pers_tbl`).
  Year-indexed lookups agree with the model's range-checked wrappers (`Calc.startR`, `Calc.lenR`) for EVERY year:
  the same exception outside the table (`KeyError`, `ValueError`).
-/
import PyodaGen.C01Tab
import PyodaModel.Calendar.Systems
import PyodaProofs.Basic
import PyodaProofs.GenAgreeC01

namespace Pyoda.GenAgree.C01Tab
open Pyoda Pyoda.Calendar
open Pyoda.GenAgree.C01 (pyIndex_eq_tableAt pyAnd_shl_one)

/-! ## the tables -/

theorem badi_tbl : Gen.C01Tab.Badi.daysInAyyamiHa.tbl1 = Tables.badiYearInfo.toList.map Int.ofNat := by decide +kernel
theorem badi_tbl' : Gen.C01Tab.Badi.nawRuzDayInMarch.tbl1 = Tables.badiYearInfo.toList.map Int.ofNat := by decide +kernel
theorem uaq_bits : Gen.C01Tab.UAQ.toMonth.tbl1 = Tables.umAlQuraMonthBits.toList.map Int.ofNat := by decide +kernel
theorem uaq_bits_dim : Gen.C01Tab.UAQ.dim.tbl1 = Gen.C01Tab.UAQ.toMonth.tbl1 := by decide +kernel
theorem uaq_bits_split : Gen.C01Tab.UAQ.split.tbl1 = Gen.C01Tab.UAQ.toMonth.tbl1 := by decide +kernel
/-- the `__YEAR_LENGTHS` dict the class body computes is the model's recomputation from the month bits -/
theorem uaq_len_tbl : Gen.C01Tab.UAQ.len.tbl1 = (List.range 185).map (fun (i : Nat) => UAQ.len (1317 + (i : Int))) := by
  decide +kernel
theorem uaq_len_tbl' : Gen.C01Tab.UAQ.isLeap.tbl1 = Gen.C01Tab.UAQ.len.tbl1 := by decide +kernel
/-- the `__YEAR_START_DAYS` dict is the model's running sum of those lengths -/
theorem uaq_start_tbl : Gen.C01Tab.UAQ.start.tbl1 = (UAQ.startOfMinYear - 354) :: UAQ.startList := by decide +kernel
theorem pers_tbl : Gen.C01Tab.Pers.leapAstronomical.tbl1 = Tables.persianAstroLeapBits.toList.map Int.ofNat := by decide +kernel

theorem tableAt_natTable (t : Array Nat) (i : Int) : tableAt (t.toList.map Int.ofNat) i = natTableAt t i := by
  unfold tableAt natTableAt
  by_cases h : i < 0
  · simp only [h, if_true]
  · simp only [h, if_false, List.getElem?_map, Array.getElem?_toList]
    cases t[i.toNat]? <;> rfl

theorem pyIndex_natTable (l : List Int) (t : Array Nat) (h : l = t.toList.map Int.ofNat) (i : Int) (h0 : 0 ≤ i)
    (h1 : i < t.size) : Gen.pyIndex l i = .ok (natTableAt t i) := by
  subst h
  rw [pyIndex_eq_tableAt _ _ h0 (by simpa using h1), tableAt_natTable]

theorem pyDictIndex_in (l : List Int) (i : Int) (h0 : 0 ≤ i) (h1 : i < l.length) :
    Gen.pyDictIndex l i = .ok (l.getD i.toNat 0) := by
  unfold Gen.pyDictIndex
  rw [if_pos ⟨h0, h1⟩]

theorem pyDictIndex_out (l : List Int) (i : Int) (h : i < 0 ∨ (l.length : Int) ≤ i) :
    Gen.pyDictIndex l i = .error .keyError := by
  unfold Gen.pyDictIndex
  rw [if_neg (by omega)]

theorem getD_natTable (t : Array Nat) (i : Int) (h0 : 0 ≤ i) :
    (t.toList.map Int.ofNat).getD i.toNat 0 = natTableAt t i := by
  unfold natTableAt
  rw [if_neg (by omega), List.getD_eq_getElem?_getD, List.getElem?_map, Array.getElem?_toList]
  cases t[i.toNat]? <;> rfl

theorem getD_range_map (f : Nat → Int) (n k : Nat) (h : k < n) : ((List.range n).map f).getD k 0 = f k := by
  rw [List.getD_eq_getElem?_getD, List.getElem?_map, List.getElem?_range h]
  rfl

/-! ## Badi (`isoLeap` = the Gregorian leap rule, `isoDate` = the ISO `LocalDate` constructor) -/

theorem gen_Calc_minYear_eq (n : Int) : Gen.C01Tab.Calc.minYear n = n := rfl
theorem gen_Calc_maxYear_eq (n : Int) : Gen.C01Tab.Calc.maxYear n = n := rfl

theorem badi_size : (Tables.badiYearInfo.size : Int) = 829 := by decide +kernel

theorem badi_yearOk (y : Int) : Badi.cal.yearOk y = if y < 0 ∨ y > 1000 then .error .valueError else .ok () := rfl

theorem badi_info_index (y : Int) (h0 : 172 ≤ y) (h1 : y ≤ 1000) :
    Gen.pyIndex Gen.C01Tab.Badi.daysInAyyamiHa.tbl1 (y - 172) = .ok (Badi.info y) :=
  pyIndex_natTable _ _ badi_tbl _ (by omega) (by rw [badi_size]; omega)

/-- `_get_days_in_ayyami_ha`: ValueError outside years 0 … 1000, as the model's range-checked lookups -/
theorem gen_Badi_daysInAyyamiHa_eq (y : Int) :
    Gen.C01Tab.Badi.daysInAyyamiHa Greg.isLeap y = (do Badi.cal.yearOk y; pure (Badi.ayyamiHa y)) := by
  unfold Gen.C01Tab.Badi.daysInAyyamiHa Badi.ayyamiHa checkRange
  rw [badi_yearOk]
  by_cases h : y < 0 ∨ y > 1000
  · rw [if_pos (by omega), if_pos h]; rfl
  · rw [if_neg (by omega), if_neg h]
    simp only [bind, Except.bind, pure, Except.pure]
    by_cases h2 : y < 172
    · simp only [h2, if_true]
    · simp only [h2, if_false]
      rw [badi_info_index y (by omega) (by omega)]

theorem badi_ayy (y : Int) (h0 : 0 ≤ y) (h1 : y ≤ 1000) :
    Gen.C01Tab.Badi.daysInAyyamiHa Greg.isLeap y = .ok (Badi.ayyamiHa y) := by
  rw [gen_Badi_daysInAyyamiHa_eq, badi_yearOk, if_neg (by omega)]; rfl

theorem gen_Badi_nawRuzDayInMarch_eq (y : Int) :
    Gen.C01Tab.Badi.nawRuzDayInMarch y = (do Badi.cal.yearOk y; pure (Badi.nawRuz y)) := by
  unfold Gen.C01Tab.Badi.nawRuzDayInMarch Badi.nawRuz checkRange
  rw [badi_yearOk]
  by_cases h : y < 0 ∨ y > 1000
  · rw [if_pos (by omega), if_pos h]; rfl
  · rw [if_neg (by omega), if_neg h]
    simp only [bind, Except.bind, pure, Except.pure]
    by_cases h2 : y < 172
    · simp only [h2, if_true]
    · simp only [h2, if_false]
      have hi := pyIndex_natTable _ _ badi_tbl' (y - 172) (by omega) (by rw [badi_size]; omega)
      rw [hi]
      rfl

/-- `_calculate_start_of_year_days`: the ISO date 21 (or 19 + table) March of Gregorian year y + 1843; `isoDate` is the
    `LocalDate(year=, month=, day=)` constructor, whose day number for March of that year is given by `hiso` (C01/C02 for
    the Gregorian calendar) -/
theorem gen_Badi_start_eq (isoDate : Int → Int → Int → R Gen.IsoDate) (y : Int)
    (hiso : ∀ d, isoDate (y + 1843) 3 d = .ok ⟨Greg.start (y + 1843) + GJ.totalDays (Greg.isLeap (y + 1843)) 3 + d - 1⟩) :
    Gen.C01Tab.Badi.start isoDate y = Badi.cal.startR y := by
  unfold Gen.C01Tab.Badi.start Calc.startR checkRange
  rw [gen_Badi_nawRuzDayInMarch_eq, badi_yearOk]
  by_cases h : y < 0 ∨ y > 1000
  · rw [if_pos (by omega), if_pos h]; rfl
  · rw [if_neg (by omega), if_neg h]
    have e : y + 1844 - 1 = y + 1843 := by omega
    simp only [bind, Except.bind, pure, Except.pure, e, hiso]
    rfl

theorem gen_Badi_len_eq (y : Int) : Gen.C01Tab.Badi.len Greg.isLeap y = Badi.cal.lenR y := by
  unfold Gen.C01Tab.Badi.len Calc.lenR
  rw [gen_Badi_daysInAyyamiHa_eq]
  cases Badi.cal.yearOk y <;> rfl

theorem gen_Badi_months_eq (y : Int) : Gen.C01Tab.Badi.months y = Badi.cal.months y := rfl

theorem gen_Badi_isLeap_eq (y : Int) :
    Gen.C01Tab.Badi.isLeap Greg.isLeap y = (do Badi.cal.yearOk y; pure (Badi.cal.leap y)) := by
  unfold Gen.C01Tab.Badi.isLeap
  rw [gen_Badi_daysInAyyamiHa_eq]
  cases Badi.cal.yearOk y <;> rfl

theorem gen_Badi_toMonth_eq (y m : Int) (h0 : 0 ≤ y) (h1 : y ≤ 1000) :
    Gen.C01Tab.Badi.toMonth Greg.isLeap y m = .ok (Badi.toMonth y m) := by
  unfold Gen.C01Tab.Badi.toMonth Badi.toMonth
  rw [badi_ayy y h0 h1]
  by_cases h : m = 19
  · simp only [h, if_true, bind, Except.bind]
  · simp only [h, if_false, Int.add_zero]

theorem gen_Badi_dim_eq (y m : Int) (h0 : 1 ≤ y) (h1 : y ≤ 1000) :
    Gen.C01Tab.Badi.dim Greg.isLeap y m = .ok (Badi.dim y m) := by
  unfold Gen.C01Tab.Badi.dim Badi.dim checkRange
  rw [badi_ayy y (by omega) h1, if_neg (by omega)]
  by_cases h : m = 18
  · simp only [h, if_true, bind, Except.bind]
  · simp only [h, if_false, bind, Except.bind]

theorem gen_Badi_dim_rejects (y m : Int) (h : y < 1 ∨ y > 1000) :
    Gen.C01Tab.Badi.dim Greg.isLeap y m = .error .valueError := by
  unfold Gen.C01Tab.Badi.dim checkRange
  rw [if_pos h]; rfl

theorem gen_Badi_isInAyyamiHa_eq (ymd : Gen.YMD) :
    Gen.C01Tab.Badi.isInAyyamiHa ymd = decide (ymd.month = 18 ∧ ymd.day > 19) := rfl

/-- the Badi override of `_get_days_since_epoch` is the generic formula start + month offset + day − 1 -/
theorem gen_Badi_daysSinceEpoch_eq (isoDate : Int → Int → Int → R Gen.IsoDate) (ymd : Gen.YMD)
    (hiso : ∀ d, isoDate (ymd.year + 1843) 3 d =
      .ok ⟨Greg.start (ymd.year + 1843) + GJ.totalDays (Greg.isLeap (ymd.year + 1843)) 3 + d - 1⟩) :
    Gen.C01Tab.Badi.daysSinceEpoch Greg.isLeap isoDate ymd = daysOfYmdRaw Badi.cal ymd.year ymd.month ymd.day := by
  unfold Gen.C01Tab.Badi.daysSinceEpoch daysOfYmdRaw
  simp only [gen_Badi_start_eq isoDate ymd.year hiso]
  unfold Calc.startR
  rw [badi_yearOk]
  by_cases hy : ymd.year < 0 ∨ ymd.year > 1000
  · rw [if_pos hy]; rfl
  · rw [if_neg hy]
    simp only [bind, Except.bind, pure, Except.pure, badi_ayy ymd.year (by omega) (by omega)]
    show _ = Except.ok (Badi.start ymd.year + Badi.toMonth ymd.year ymd.month + ymd.day - 1)
    unfold Badi.toMonth
    by_cases h : ymd.month = 19
    · simp only [h, if_true]
      show Except.ok _ = Except.ok _
      congr 1; show Badi.start ymd.year - 1 + (19 - 1) * 19 + ymd.day + Badi.ayyamiHa ymd.year = _; omega
    · simp only [h, if_false]
      show Except.ok _ = Except.ok _
      congr 1; show Badi.start ymd.year - 1 + (ymd.month - 1) * 19 + ymd.day = _; omega

theorem gen_Badi_validate_eq (y m d : Int) :
    Gen.C01Tab.Badi.validate Greg.isLeap 1 999 y m d = validate Badi.cal y m d := by
  unfold Gen.C01Tab.Badi.validate validate checkRange
  simp only [gen_Calc_minYear_eq, gen_Calc_maxYear_eq]
  show (if y < 1 ∨ y > 999 then _ else _) >>= _ = (if y < 1 ∨ y > 999 then _ else _) >>= _
  by_cases hy : y < 1 ∨ y > 999
  · rw [if_pos hy]; rfl
  · rw [if_neg hy]
    simp only [bind, Except.bind, badi_ayy y (by omega) (by omega)]
    by_cases hm : m < 1 ∨ m > 19
    · have hm' : m < 1 ∨ m > Badi.cal.months y := hm
      simp only [hm, hm', if_true]
    · have hm' : ¬ (m < 1 ∨ m > Badi.cal.months y) := hm
      simp only [hm, hm', if_false]
      show _ = (if d < 1 ∨ d > Badi.dim y m then _ else _)
      unfold Badi.dim
      by_cases h18 : m = 18
      · simp only [h18, if_true]
        by_cases hd : d < 1 ∨ d > 19 + Badi.ayyamiHa y <;> simp only [hd, if_true, if_false]
      · simp only [h18, if_false]
        by_cases hd : d < 1 ∨ d > 19 <;> simp only [hd, if_true, if_false]

/-! ## Um Al Qura -/

theorem uaq_bits_len : (Gen.C01Tab.UAQ.toMonth.tbl1.length : Int) = 185 := by decide +kernel
theorem uaq_len_len : (Gen.C01Tab.UAQ.len.tbl1.length : Int) = 185 := by decide +kernel
theorem uaq_start_len : (Gen.C01Tab.UAQ.start.tbl1.length : Int) = 185 := by decide +kernel

theorem uaq_yearOk (y : Int) : UAQ.cal.yearOk y = if y < 1317 ∨ y > 1501 then .error .keyError else .ok () := rfl

/-- `__MONTH_LENGTHS[year - 1318 + 1]`: the month bits of the model for the 185 rows, KeyError outside -/
theorem uaq_bits_index (y : Int) :
    Gen.pyDictIndex Gen.C01Tab.UAQ.toMonth.tbl1 (y - 1318 + 1) = (do UAQ.cal.yearOk y; pure ((UAQ.bitsOf y : Nat) : Int)) := by
  rw [uaq_yearOk]
  by_cases h : y < 1317 ∨ y > 1501
  · rw [if_pos h, pyDictIndex_out _ _ (by rw [uaq_bits_len]; omega)]; rfl
  · rw [if_neg h, pyDictIndex_in _ _ (by omega) (by rw [uaq_bits_len]; omega)]
    show Except.ok _ = Except.ok _
    congr 1
    rw [uaq_bits, getD_natTable _ _ (by omega)]
    unfold UAQ.bitsOf
    have e : y - 1318 + 1 = y - 1317 := by omega
    rw [e]
    have hnn : 0 ≤ natTableAt Tables.umAlQuraMonthBits (y - 1317) := by
      unfold natTableAt; split
      · omega
      · split <;> omega
    omega

theorem gen_UAQ_len_eq (y : Int) : Gen.C01Tab.UAQ.len y = UAQ.cal.lenR y := by
  unfold Gen.C01Tab.UAQ.len Calc.lenR
  rw [uaq_yearOk]
  by_cases h : y < 1317 ∨ y > 1501
  · rw [if_pos h, pyDictIndex_out _ _ (by rw [uaq_len_len]; omega)]; rfl
  · rw [if_neg h, pyDictIndex_in _ _ (by omega) (by rw [uaq_len_len]; omega)]
    show Except.ok _ = Except.ok _
    congr 1
    rw [uaq_len_tbl, getD_range_map _ _ _ (by omega)]
    show UAQ.len (1317 + ((y - 1318 + 1).toNat : Int)) = UAQ.len y
    congr 1; omega

theorem gen_UAQ_isLeap_eq (y : Int) :
    Gen.C01Tab.UAQ.isLeap y = (do UAQ.cal.yearOk y; pure (UAQ.cal.leap y)) := by
  have h := gen_UAQ_len_eq y
  unfold Gen.C01Tab.UAQ.len Calc.lenR at h
  unfold Gen.C01Tab.UAQ.isLeap
  rw [uaq_len_tbl', h]
  cases UAQ.cal.yearOk y with
  | error e => rfl
  | ok _ =>
    show Except.ok (decide (UAQ.len y = 355)) = Except.ok (UAQ.len y == 355)
    by_cases h355 : UAQ.len y = 355 <;> simp [h355]

theorem startList_length : UAQ.startList.length = 184 := by decide +kernel

theorem gen_UAQ_start_eq (y : Int) : Gen.C01Tab.UAQ.start y = UAQ.cal.startR y := by
  unfold Gen.C01Tab.UAQ.start Calc.startR
  rw [uaq_yearOk]
  by_cases h : y < 1317 ∨ y > 1501
  · rw [if_pos h, pyDictIndex_out _ _ (by rw [uaq_start_len]; omega)]; rfl
  · rw [if_neg h, pyDictIndex_in _ _ (by omega) (by rw [uaq_start_len]; omega)]
    show Except.ok _ = Except.ok (UAQ.start y)
    congr 1
    rw [uaq_start_tbl]
    unfold UAQ.start UAQ.minYear
    by_cases h17 : y < 1318
    · have e : y = 1317 := by omega
      subst e
      rfl
    · rw [if_neg h17]
      have e : (y - 1318 + 1).toNat = (y - 1318).toNat + 1 := by omega
      rw [e, List.getD_cons_succ, List.getD_eq_getElem?_getD]
      have hlt : (y - 1318).toNat < UAQ.startList.length := by rw [startList_length]; omega
      unfold UAQ.starts
      rw [List.getElem?_toArray, List.getElem?_eq_getElem hlt]
      rfl

/-- bit `k` of a non-negative integer, as the code reads it (`bits >> k & 1`) and as the model does (`testBit`) -/
theorem shr_and_one (n k : Nat) : Int.fmod ((n : Int) >>> k) 2 = if n.testBit k then 1 else 0 := by
  rw [fmod_pos _ _ (by decide), Nat.testBit_eq_decide_div_mod_eq, ← Nat.shiftRight_eq_div_pow]
  show (((n >>> k : Nat) : Int)) % 2 = _
  generalize n >>> k = x
  by_cases h : x % 2 = 1
  · simp only [h, decide_true, if_true]; omega
  · simp only [h, decide_false, if_false, Bool.false_eq_true]; omega

theorem pyShr_nat (n : Nat) (k : Int) (hk : 0 ≤ k) : Gen.pyShr (n : Int) k = .ok ((n : Int) >>> k.toNat) := by
  unfold Gen.pyShr
  rw [if_neg (by omega)]

theorem gen_UAQ_dim_eq (y m : Int) (hm : 0 ≤ m) :
    Gen.C01Tab.UAQ.dim y m = (do UAQ.cal.yearOk y; pure (UAQ.dim y m)) := by
  unfold Gen.C01Tab.UAQ.dim
  rw [uaq_bits_dim, uaq_bits_index]
  cases UAQ.cal.yearOk y with
  | error e => rfl
  | ok _ =>
    simp only [bind, Except.bind, pure, Except.pure, pyShr_nat _ _ hm, shr_and_one]
    rfl

/-- the `for i in range(1, month)` loop adds up the month bits -/
theorem gen_UAQ_toMonth_loop1_eq (y : Int) (hi : Int) (fuel : Nat) (i extra : Int) (h0 : 1 ≤ i) (h1 : i ≤ hi)
    (h2 : (hi - i).toNat < fuel) :
    Gen.C01Tab.UAQ.toMonth.loop1 hi ((UAQ.bitsOf y : Nat) : Int) fuel i extra =
      .ok (hi, extra + sumFrom (UAQ.bit y) (hi - i).toNat i) := by
  induction fuel generalizing i extra with
  | zero => omega
  | succ n ih =>
    unfold Gen.C01Tab.UAQ.toMonth.loop1
    by_cases h : i < hi
    · simp only [h, if_true, pyShr_nat _ _ (by omega : 0 ≤ i), bind, Except.bind, shr_and_one]
      rw [ih (i + 1) _ (by omega) (by omega) (by omega)]
      have e : (hi - i).toNat = (hi - (i + 1)).toNat + 1 := by omega
      rw [e, sumFrom, Int.add_assoc]
      rfl
    · have e' : i = hi := by omega
      subst e'
      simp only [Int.lt_irrefl, if_false, Int.sub_self, Int.toNat_zero, sumFrom, Int.add_zero]

theorem gen_UAQ_toMonth_eq (y m : Int) (h1 : 1 ≤ m) (h2 : m ≤ 13) :
    Gen.C01Tab.UAQ.toMonth y m = (do UAQ.cal.yearOk y; pure (UAQ.toMonth y m)) := by
  unfold Gen.C01Tab.UAQ.toMonth
  rw [uaq_bits_index]
  cases UAQ.cal.yearOk y with
  | error e => rfl
  | ok _ =>
    simp only [bind, Except.bind, pure, Except.pure]
    rw [gen_UAQ_toMonth_loop1_eq y m 16 1 0 (by omega) h1 (by omega)]
    show Except.ok ((m - 1) * 29 + (0 + sumFrom (UAQ.bit y) (m - 1).toNat 1)) = Except.ok (UAQ.toMonth y m)
    unfold UAQ.toMonth
    rw [Int.zero_add]

/-- days from month `m` to the end of the year -/
def restOfYear (y : Int) : Nat → Int → Int
  | 0, _ => 0
  | n+1, m => 29 + UAQ.bit y m + restOfYear y n (m + 1)

theorem restOfYear_eq (y : Int) (n : Nat) (m : Int) : restOfYear y n m = 29 * n + sumFrom (UAQ.bit y) n m := by
  induction n generalizing m with
  | zero => simp [restOfYear, sumFrom]
  | succ k ih => rw [restOfYear, sumFrom, ih]; omega

/-- the `for month in range(1, 13)` loop with its early `return`: while the day still lies within the months left,
    it returns what the model's `splitLoop` computes -/
theorem gen_UAQ_split_loop1_eq (y : Int) (f : Nat) :
    ∀ (fuel : Nat) (m left : Int), 1 ≤ m → m + ((f + 1 : Nat) : Int) = 13 → f + 1 < fuel → left ≤ restOfYear y (f + 1) m →
    ∃ c, Gen.C01Tab.UAQ.split.loop1 13 ((UAQ.bitsOf y : Nat) : Int) y fuel m left =
      .ok (some ⟨y, (UAQ.splitLoop y (f + 1) m left).1, (UAQ.splitLoop y (f + 1) m left).2⟩, c) := by
  induction f with
  | zero =>
    intro fuel m left hm hf hfuel hleft
    cases fuel with
    | zero => omega
    | succ n =>
      unfold Gen.C01Tab.UAQ.split.loop1 UAQ.splitLoop
      have hlt : m < 13 := by omega
      have hle : left ≤ 29 + UAQ.bit y m := by simpa [restOfYear] using hleft
      unfold UAQ.bit at hle
      simp only [hlt, if_true, pyShr_nat _ _ (by omega : 0 ≤ m), bind, Except.bind, shr_and_one, UAQ.bit, hle]
      exact ⟨_, rfl⟩
  | succ k ih =>
    intro fuel m left hm hf hfuel hleft
    cases fuel with
    | zero => omega
    | succ n =>
      unfold Gen.C01Tab.UAQ.split.loop1 UAQ.splitLoop
      have hlt : m < 13 := by omega
      simp only [hlt, if_true, pyShr_nat _ _ (by omega : 0 ≤ m), bind, Except.bind, shr_and_one]
      by_cases hle : left ≤ 29 + UAQ.bit y m
      · have hle' := hle
        unfold UAQ.bit at hle'
        simp only [UAQ.bit, hle', if_true]
        exact ⟨_, rfl⟩
      · have hle' := hle
        unfold UAQ.bit at hle'
        simp only [UAQ.bit, hle', if_false]
        have hrest : left - (29 + UAQ.bit y m) ≤ restOfYear y (k + 1) (m + 1) := by
          rw [restOfYear] at hleft; omega
        unfold UAQ.bit at hrest
        obtain ⟨c, hc⟩ := ih n (m + 1) (left - (29 + if (UAQ.bitsOf y).testBit m.toNat then 1 else 0)) (by omega)
          (by push_cast at hf ⊢; omega) (by omega) hrest
        exact ⟨c, hc⟩

theorem uaq_restOfYear_len (y : Int) (h1 : 1318 ≤ y) (h2 : y ≤ 1500) : restOfYear y 12 1 = UAQ.len y := by
  rw [restOfYear_eq]
  unfold UAQ.len UAQ.minYear UAQ.maxYear
  rw [if_neg (by omega)]
  omega

/-- `_get_year_month_day_from_year_and_day_of_year` for a day of a real year of the table (1318 … 1500) -/
theorem gen_UAQ_split_eq (y doy : Int) (h1 : 1318 ≤ y) (h2 : y ≤ 1500) (hd : doy ≤ UAQ.len y) :
    Gen.C01Tab.UAQ.split y doy = .ok ⟨y, (UAQ.split y doy).1, (UAQ.split y doy).2⟩ := by
  unfold Gen.C01Tab.UAQ.split UAQ.split
  rw [uaq_bits_split, uaq_bits_index, uaq_yearOk, if_neg (by omega)]
  simp only [bind, Except.bind, pure, Except.pure]
  obtain ⟨c, hc⟩ := gen_UAQ_split_loop1_eq y 11 16 1 doy (by omega) (by decide) (by omega)
    (by rw [uaq_restOfYear_len y h1 h2]; exact hd)
  rw [hc]

/-! ## Persian astronomical leap years (`bits[year >> 3] & 1 << (year & 7) != 0`) -/

theorem pyAnd_nat_ne_zero (a k : Nat) : decide (Gen.pyAnd (a : Int) ((1 : Int) * 2 ^ k) ≠ 0) = a.testBit k := by
  rw [← pyAnd_shl_one a k]
  have e : ((1 : Int) * 2 ^ k) = Int.ofNat (2 ^ k) := by
    rw [Int.one_mul]; exact (Int.natCast_pow 2 k).symm
  rw [e]
  show decide (((a &&& 2 ^ k : Nat) : Int) ≠ 0) = decide (((a &&& 2 ^ k : Nat) : Int) > 0)
  apply decide_eq_decide.mpr
  omega

theorem pers_size : (Tables.persianAstroLeapBits.size : Int) = 1173 := by decide +kernel

theorem gen_Pers_leapAstronomical_eq (y : Int) (h0 : 0 ≤ y) (h1 : y < 9384) :
    Gen.C01Tab.Pers.leapAstronomical y = .ok (Pers.leapAstronomical y) := by
  unfold Gen.C01Tab.Pers.leapAstronomical Pers.leapAstronomical Gen.pyShl
  have hs : y >>> 3 = y / 8 := by rw [Int.shiftRight_eq_div_pow]; rfl
  rw [pyIndex_natTable _ _ pers_tbl _ (by rw [hs]; omega) (by rw [hs, pers_size]; omega)]
  have hm := fmod_pos y 8 (by decide)
  have hm0 := Int.emod_nonneg y (by decide : (8 : Int) ≠ 0)
  rw [if_neg (by rw [hm]; omega)]
  simp only [bind, Except.bind]
  have hnn : 0 ≤ natTableAt Tables.persianAstroLeapBits (y >>> 3) := by
    unfold natTableAt; split
    · omega
    · split <;> omega
  obtain ⟨a, ha⟩ := Int.eq_ofNat_of_zero_le hnn
  rw [ha]
  show Except.ok (decide (Gen.pyAnd (a : Int) (1 * 2 ^ (Int.fmod y 8).toNat) ≠ 0)) = Except.ok ((a : Int).toNat.testBit (Int.fmod y 8).toNat)
  rw [pyAnd_nat_ne_zero]
  rfl

/-! ## kernel evaluation on concrete years -/

example : Gen.C01Tab.UAQ.split 1445 60 = .ok ⟨1445, 3, 1⟩ := by decide +kernel
example : Gen.C01Tab.UAQ.start 1502 = .error .keyError := by decide +kernel
example : Gen.C01Tab.Badi.len Greg.isLeap 100 = .ok 366 := by decide +kernel
example : Gen.C01Tab.Pers.leapAstronomical 1403 = .ok true := by decide +kernel

end Pyoda.GenAgree.C01Tab
