/-
  Helper definitions and lemmas for C10 (LocalTime factories, accessors, _TimePeriodField steps).
  No property statements here; see PyodaProofs.C10.
-/
import PyodaModel.TimeOfDay
import PyodaProofs.Basic

namespace Pyoda.C10
open Pyoda Pyoda.LocalTime Pyoda.TimeUnit

/-- the LocalTime invariant -/
def Valid (t : LocalTime) : Prop := 0 ≤ t.nod ∧ t.nod < NPD
/-- hour, minute, second arguments inside their documented ranges -/
def HMS (h m s : Int) : Prop := 0 ≤ h ∧ h ≤ 23 ∧ 0 ≤ m ∧ m ≤ 59 ∧ 0 ≤ s ∧ s ≤ 59

macro "c10_consts" : tactic =>
  `(tactic| simp only [NPD, NPH, NPMin, NPS, NPMs, NPUs, NPT, TPD, TPS, TPH, SPD, MsPD, UsPD, MinPD, HPD,
      LocalTime.TPMs, decBound, Int.reduceSub, Int.reduceNeg] at *)

theorem guarded_bind {α} (c : Prop) [Decidable c] (chk : R Unit) (f : Unit → R α) (hc : ¬c → chk = .ok ()) :
    (guarded c chk >>= f) = (chk >>= f) := by
  unfold guarded
  by_cases h : c
  · simp only [h, if_true]
  · simp only [h, if_false, hc h]

theorem checkRange_ok (v lo hi : Int) (h : lo ≤ v ∧ v ≤ hi) : checkRange v lo hi = .ok () := by
  unfold checkRange
  rw [if_neg (by omega)]

theorem checkRange_step {α} (v lo hi : Int) (f : Unit → R α) :
    (checkRange v lo hi >>= f) = if v < lo ∨ v > hi then .error .valueError else f () := by
  unfold checkRange
  split <;> rfl

theorem ite_err_ok {α} {c : Prop} [Decidable c] {e : PyExc} {x : R α} {r : α}
    (h : (if c then .error e else x) = .ok r) : ¬c ∧ x = .ok r := by
  by_cases hc : c
  · rw [if_pos hc] at h; cases h
  · rw [if_neg hc] at h; exact ⟨hc, h⟩

theorem ite_err_err {α} {c : Prop} [Decidable c] {e e' : PyExc} {x : R α}
    (h : (if c then .error e else x) = .error e') : (c ∧ e' = e) ∨ (¬c ∧ x = .error e') := by
  by_cases hc : c
  · rw [if_pos hc] at h; left; exact ⟨hc, by cases h; rfl⟩
  · rw [if_neg hc] at h; right; exact ⟨hc, h⟩

/-- peel the chain of range tests off a successful factory call -/
macro "peel_ok" h:ident : tactic =>
  `(tactic| (repeat (have hpeel := ite_err_ok $h; clear $h; have $h := hpeel.2; have := hpeel.1; clear hpeel)))

/-! ### the factories without the outer all-at-once test -/

theorem new_eq (h m s ms : Int) : LocalTime.new h m s ms =
    if h < 0 ∨ h > 23 then .error .valueError else if m < 0 ∨ m > 59 then .error .valueError
    else if s < 0 ∨ s > 59 then .error .valueError else if ms < 0 ∨ ms > 999 then .error .valueError
    else .ok ⟨h * NPH + m * NPMin + s * NPS + ms * NPMs⟩ := by
  unfold LocalTime.new
  rw [guarded_bind]
  · simp only [bind_assoc]; simp only [checkRange_step, HPD, Int.reduceSub]
  · intro hc
    rw [checkRange_ok _ _ _ (by omega), checkRange_ok _ _ _ (by omega), checkRange_ok _ _ _ (by omega),
      checkRange_ok _ _ _ (by omega)]
    rfl

theorem fromHMSMsT_eq (h m s ms t : Int) : fromHMSMsT h m s ms t =
    if h < 0 ∨ h > 23 then .error .valueError else if m < 0 ∨ m > 59 then .error .valueError
    else if s < 0 ∨ s > 59 then .error .valueError else if ms < 0 ∨ ms > 999 then .error .valueError
    else if t < 0 ∨ t > 9999 then .error .valueError
    else .ok ⟨h * NPH + m * NPMin + s * NPS + ms * NPMs + t * NPT⟩ := by
  unfold fromHMSMsT
  rw [guarded_bind]
  · simp only [bind_assoc]; simp only [checkRange_step, HPD, LocalTime.TPMs, Int.reduceSub]
  · intro hc
    rw [checkRange_ok _ _ _ (by omega), checkRange_ok _ _ _ (by omega), checkRange_ok _ _ _ (by omega),
      checkRange_ok _ _ _ (by omega), checkRange_ok _ _ _ (by omega)]
    rfl

theorem fromHMST_eq (h m s t : Int) : fromHMST h m s t =
    if h < 0 ∨ h > 23 then .error .valueError else if m < 0 ∨ m > 59 then .error .valueError
    else if s < 0 ∨ s > 59 then .error .valueError else if t < 0 ∨ t > 9999999 then .error .valueError
    else .ok ⟨h * NPH + m * NPMin + s * NPS + t * NPT⟩ := by
  unfold fromHMST
  rw [guarded_bind]
  · simp only [bind_assoc]; simp only [checkRange_step, HPD, TPS, Int.reduceSub]
  · intro hc
    rw [checkRange_ok _ _ _ (by omega), checkRange_ok _ _ _ (by omega), checkRange_ok _ _ _ (by omega),
      checkRange_ok _ _ _ (by omega)]
    rfl

theorem fromHMSN_eq (h m s n : Int) : fromHMSN h m s n =
    if h < 0 ∨ h > 23 then .error .valueError else if m < 0 ∨ m > 59 then .error .valueError
    else if s < 0 ∨ s > 59 then .error .valueError else if n < 0 ∨ n > 999999999 then .error .valueError
    else .ok ⟨h * NPH + m * NPMin + s * NPS + n⟩ := by
  unfold fromHMSN
  rw [guarded_bind]
  · simp only [bind_assoc]; simp only [checkRange_step, HPD, NPS, Int.reduceSub]
  · intro hc
    rw [checkRange_ok _ _ _ (by omega), checkRange_ok _ _ _ (by omega), checkRange_ok _ _ _ (by omega),
      checkRange_ok _ _ _ (by omega)]
    rfl

theorem fromNanos_eq (n : Int) : fromNanosSinceMidnight n =
    if n < 0 ∨ n > NPD - 1 then .error .valueError else .ok ⟨n⟩ := by
  unfold fromNanosSinceMidnight
  rw [guarded_bind]
  · simp only [checkRange_step]
  · intro hc; exact checkRange_ok _ _ _ (by omega)

theorem since_eq (v perDay npu : Int) : fromUnitsSinceMidnight v perDay npu =
    if v < 0 ∨ v > perDay - 1 then .error .valueError else .ok ⟨int64Overflow (v * npu)⟩ := by
  unfold fromUnitsSinceMidnight
  rw [guarded_bind]
  · simp only [checkRange_step]
  · intro hc; exact checkRange_ok _ _ _ (by omega)

theorem new_exact (h m s ms : Int) (t : LocalTime) (hk : LocalTime.new h m s ms = .ok t) :
    Valid t ∧ t.nod = ((h * 60 + m) * 60 + s) * NPS + ms * NPMs ∧ HMS h m s ∧ 0 ≤ ms ∧ ms ≤ 999 := by
  rw [new_eq] at hk
  peel_ok hk
  simp only [Except.ok.injEq] at hk; subst hk
  simp only [Valid, HMS]; c10_consts; omega

theorem fromHMSMsT_exact (h m s ms tk : Int) (t : LocalTime) (hk : fromHMSMsT h m s ms tk = .ok t) :
    Valid t ∧ t.nod = ((h * 60 + m) * 60 + s) * NPS + ms * NPMs + tk * NPT ∧ HMS h m s ∧ 0 ≤ ms ∧ ms ≤ 999
      ∧ 0 ≤ tk ∧ tk ≤ 9999 := by
  rw [fromHMSMsT_eq] at hk
  peel_ok hk
  simp only [Except.ok.injEq] at hk; subst hk
  simp only [Valid, HMS]; c10_consts; omega

theorem fromHMST_exact (h m s tk : Int) (t : LocalTime) (hk : fromHMST h m s tk = .ok t) :
    Valid t ∧ t.nod = ((h * 60 + m) * 60 + s) * NPS + tk * NPT ∧ HMS h m s ∧ 0 ≤ tk ∧ tk < TPS := by
  rw [fromHMST_eq] at hk
  peel_ok hk
  simp only [Except.ok.injEq] at hk; subst hk
  simp only [Valid, HMS]; c10_consts; omega

theorem fromHMSN_exact (h m s n : Int) (t : LocalTime) (hk : fromHMSN h m s n = .ok t) :
    Valid t ∧ t.nod = ((h * 60 + m) * 60 + s) * NPS + n ∧ HMS h m s ∧ 0 ≤ n ∧ n < NPS := by
  rw [fromHMSN_eq] at hk
  peel_ok hk
  simp only [Except.ok.injEq] at hk; subst hk
  simp only [Valid, HMS]; c10_consts; omega

theorem fromNanos_exact (n : Int) (t : LocalTime) (hk : fromNanosSinceMidnight n = .ok t) :
    Valid t ∧ t.nod = n := by
  rw [fromNanos_eq] at hk
  peel_ok hk
  simp only [Except.ok.injEq] at hk; subst hk
  simp only [Valid, and_true]; c10_consts; omega

/-- `_int64_overflow` is the identity on the products the `from_*_since_midnight` factories form -/
theorem since_exact (v perDay npu : Int) (t : LocalTime) (_h0 : 0 < perDay) (h1 : 0 < npu) (h2 : perDay * npu = NPD)
    (hk : fromUnitsSinceMidnight v perDay npu = .ok t) : Valid t ∧ t.nod = v * npu := by
  rw [since_eq] at hk
  split at hk
  · cases hk
  · rename_i hc
    simp only [Except.ok.injEq] at hk; subst hk
    have hv : 0 ≤ v ∧ v ≤ perDay - 1 := by omega
    have hlo : 0 ≤ v * npu := Int.mul_nonneg hv.1 (Int.le_of_lt h1)
    have hhi : v * npu ≤ (perDay - 1) * npu := Int.mul_le_mul_of_nonneg_right hv.2 (Int.le_of_lt h1)
    have hexp : (perDay - 1) * npu = NPD - npu := by rw [Int.sub_mul, h2]; omega
    have hb : v * npu < NPD := by omega
    have : int64Overflow (v * npu) = v * npu := by
      unfold int64Overflow
      rw [fmod_pos _ _ (by decide)]
      simp only [NPD] at hb
      omega
    rw [this]
    exact ⟨⟨hlo, hb⟩, rfl⟩

theorem new_raises_iff (h m s ms : Int) :
    (∃ e, LocalTime.new h m s ms = .error e) ↔ ¬ (HMS h m s ∧ 0 ≤ ms ∧ ms ≤ 999) := by
  rw [new_eq]; simp only [HMS]
  constructor
  · rintro ⟨e, hk⟩; grind
  · intro hn; refine ⟨.valueError, ?_⟩; grind

theorem fromHMSMsT_raises_iff (h m s ms tk : Int) :
    (∃ e, fromHMSMsT h m s ms tk = .error e) ↔ ¬ (HMS h m s ∧ 0 ≤ ms ∧ ms ≤ 999 ∧ 0 ≤ tk ∧ tk ≤ 9999) := by
  rw [fromHMSMsT_eq]; simp only [HMS]
  constructor
  · rintro ⟨e, hk⟩; grind
  · intro hn; refine ⟨.valueError, ?_⟩; grind

theorem fromHMST_raises_iff (h m s tk : Int) :
    (∃ e, fromHMST h m s tk = .error e) ↔ ¬ (HMS h m s ∧ 0 ≤ tk ∧ tk < TPS) := by
  rw [fromHMST_eq]; simp only [HMS, TPS]
  constructor
  · rintro ⟨e, hk⟩; grind
  · intro hn; refine ⟨.valueError, ?_⟩; grind

theorem fromHMSN_raises_iff (h m s n : Int) :
    (∃ e, fromHMSN h m s n = .error e) ↔ ¬ (HMS h m s ∧ 0 ≤ n ∧ n < NPS) := by
  rw [fromHMSN_eq]; simp only [HMS, NPS]
  constructor
  · rintro ⟨e, hk⟩; grind
  · intro hn; refine ⟨.valueError, ?_⟩; grind

theorem fromNanos_raises_iff (n : Int) :
    (∃ e, fromNanosSinceMidnight n = .error e) ↔ ¬ (0 ≤ n ∧ n < NPD) := by
  rw [fromNanos_eq]
  constructor
  · rintro ⟨e, hk⟩; grind
  · intro hn; refine ⟨.valueError, ?_⟩; grind

theorem since_raises_iff (v perDay npu : Int) :
    (∃ e, fromUnitsSinceMidnight v perDay npu = .error e) ↔ ¬ (0 ≤ v ∧ v < perDay) := by
  rw [since_eq]
  constructor
  · rintro ⟨e, hk⟩; grind
  · intro hn; refine ⟨.valueError, ?_⟩; grind

theorem new_error_kind (h m s ms : Int) (e : PyExc) (hk : LocalTime.new h m s ms = .error e) :
    e = .valueError := by
  rw [new_eq] at hk; grind

/-! ### accessors -/

theorem shr13 (x : Int) : x >>> 13 = x / 8192 := by
  rw [Int.shiftRight_eq_div_pow]; rfl

theorem shr11 (x : Int) : x >>> 11 = x / 2048 := by
  rw [Int.shiftRight_eq_div_pow]; rfl

theorem int32Overflow_id (v : Int) (h : -2147483648 ≤ v ∧ v < 2147483648) : int32Overflow v = v := by
  unfold int32Overflow
  rw [fmod_pos _ _ (by decide)]
  omega

theorem hour_eq (t : LocalTime) (hv : Valid t) : t.hour = .ok (t.nod / NPH) := by
  simp only [Valid] at hv
  unfold LocalTime.hour
  c10_consts
  rw [shr13, pyTdiv_ok _ _ (by decide) (by c10_consts; omega) (by c10_consts; omega) (by decide) (by decide)]
  simp (disch := decide) only [tdiv_pos]
  simp only [Except.ok.injEq]
  split <;> omega

theorem minute_eq (t : LocalTime) (hv : Valid t) : t.minute = .ok (t.nod / NPMin % 60) := by
  simp only [Valid] at hv
  unfold LocalTime.minute
  c10_consts
  rw [shr11, pyTdiv_bind _ _ _ (by decide) (by c10_consts; omega) (by c10_consts; omega) (by decide) (by decide)]
  simp (disch := decide) only [tdiv_pos, csharpMod_pos]
  simp only [Except.ok.injEq]
  split <;> split <;> omega

theorem second_eq (t : LocalTime) (hv : Valid t) : t.second = .ok (t.nod / NPS % 60) := by
  simp only [Valid] at hv
  unfold LocalTime.second
  c10_consts
  rw [pyTdiv_bind _ _ _ (by decide) (by c10_consts; omega) (by c10_consts; omega) (by decide) (by decide)]
  simp (disch := decide) only [tdiv_pos, csharpMod_pos]
  simp only [Except.ok.injEq]
  split <;> split <;> omega

theorem millisecond_eq (t : LocalTime) (hv : Valid t) : t.millisecond = .ok (t.nod / NPMs % 1000) := by
  simp only [Valid] at hv
  unfold LocalTime.millisecond
  c10_consts
  rw [pyTdiv_bind _ _ _ (by decide) (by c10_consts; omega) (by c10_consts; omega) (by decide) (by decide)]
  simp (disch := decide) only [tdiv_pos, csharpMod_pos]
  simp only [Except.ok.injEq]
  split <;> split <;> omega

theorem microsecond_eq (t : LocalTime) (hv : Valid t) : t.microsecond = .ok (t.nod / NPUs % 1000000) := by
  simp only [Valid] at hv
  unfold LocalTime.microsecond
  c10_consts
  rw [pyTdiv_bind _ _ _ (by decide) (by c10_consts; omega) (by c10_consts; omega) (by decide) (by decide)]
  simp (disch := decide) only [tdiv_pos, csharpMod_pos]
  simp only [Except.ok.injEq]
  split <;> split <;> omega

theorem tickOfDay_eq (t : LocalTime) (hv : Valid t) : t.tickOfDay = .ok (t.nod / NPT) := by
  simp only [Valid] at hv
  unfold LocalTime.tickOfDay
  c10_consts
  rw [pyTdiv_ok _ _ (by decide) (by c10_consts; omega) (by c10_consts; omega) (by decide) (by decide)]
  simp (disch := decide) only [tdiv_pos]
  simp only [Except.ok.injEq]
  split <;> omega

theorem tickOfSecond_eq (t : LocalTime) (hv : Valid t) : t.tickOfSecond = .ok (t.nod / NPT % TPS) := by
  unfold LocalTime.tickOfSecond
  rw [tickOfDay_eq t hv]
  simp only [Valid] at hv
  c10_consts
  simp only [bind, Except.bind, Except.ok.injEq]
  simp (disch := decide) only [csharpMod_pos]
  rw [int32Overflow_id] <;> split <;> omega

theorem nanosecondOfSecond_eq (t : LocalTime) (hv : Valid t) : t.nanosecondOfSecond = t.nod % NPS := by
  simp only [Valid] at hv
  unfold LocalTime.nanosecondOfSecond
  c10_consts
  simp (disch := decide) only [csharpMod_pos]
  rw [int32Overflow_id] <;> split <;> omega

theorem clockHour_eq (t : LocalTime) (hv : Valid t) :
    t.clockHourOfHalfDay = .ok (if t.nod / NPH % 12 = 0 then 12 else t.nod / NPH % 12) := by
  unfold LocalTime.clockHourOfHalfDay
  rw [hour_eq t hv]
  simp only [Valid] at hv
  c10_consts
  simp only [bind, Except.bind, Except.ok.injEq]
  simp (disch := decide) only [csharpMod_pos]
  rw [int32Overflow_id] <;> split <;> omega

/-! ### _TimePeriodField steps -/

theorem unitsPerDay_pos (u : TimeUnit) : 0 < u.unitsPerDay := by cases u <;> decide
theorem nanos_pos (u : TimeUnit) : 0 < u.nanos := by cases u <;> decide
theorem unitsPerDay_mul_nanos (u : TimeUnit) : u.unitsPerDay * u.nanos = NPD := by cases u <;> decide

theorem splitDays_false (u : TimeUnit) (q v : Int) : u.splitDays false q v = (0, v) := by
  simp only [splitDays, Bool.false_eq_true, if_false]

theorem splitDays_true (u : TimeUnit) (q v : Int) : u.splitDays true q v = (q, csharpMod v u.unitsPerDay) := by
  simp only [splitDays, if_true]

/-- the non-negative branch of `_add_local_time_with_extra_days`, for every amount -/
theorem pos_branch (u : TimeUnit) (t : LocalTime) (k : Int) (hv : Valid t) (hk : k ≥ 0) :
    let dv := u.splitDays (decide (k ≥ u.unitsPerDay)) (Int.fdiv k u.unitsPerDay) k
    let n := t.nod + dv.2 * u.nanos
    let r : LocalTime × Int := if n ≥ NPD then (⟨n - NPD⟩, dv.1 + 1) else (⟨n⟩, dv.1)
    Valid r.1 ∧ t.nod + k * u.nanos = r.2 * NPD + r.1.nod := by
  simp only [Valid] at *
  cases hbig : decide (k ≥ u.unitsPerDay)
  · have hb := of_decide_eq_false hbig
    simp only [splitDays_false]
    by_cases hc : t.nod + k * u.nanos ≥ NPD
    · simp only [hc, if_true]
      cases u <;>
      · simp only [TimeUnit.nanos, TimeUnit.unitsPerDay] at *
        c10_consts
        omega
    · simp only [hc, if_false]
      cases u <;>
      · simp only [TimeUnit.nanos, TimeUnit.unitsPerDay] at *
        c10_consts
        omega
  · have hb := of_decide_eq_true hbig
    simp only [splitDays_true]
    by_cases hc : t.nod + csharpMod k u.unitsPerDay * u.nanos ≥ NPD
    · simp only [hc, if_true]
      cases u <;>
      · simp only [TimeUnit.nanos, TimeUnit.unitsPerDay] at *
        c10_consts
        simp (disch := decide) only [fdiv_pos, csharpMod_pos] at *
        simp only [show ¬ (k < 0) by omega, false_and, if_false] at *
        omega
    · simp only [hc, if_false]
      cases u <;>
      · simp only [TimeUnit.nanos, TimeUnit.unitsPerDay] at *
        c10_consts
        simp (disch := decide) only [fdiv_pos, csharpMod_pos] at *
        simp only [show ¬ (k < 0) by omega, false_and, if_false] at *
        omega

/-- the negative branch of `_add_local_time_with_extra_days`, for every amount -/
theorem neg_branch (u : TimeUnit) (t : LocalTime) (k : Int) (hv : Valid t) (hk : ¬ k ≥ 0) :
    let dv := u.splitDays (decide (k ≤ -u.unitsPerDay)) (-(Int.fdiv (-k) u.unitsPerDay)) k
    let n := t.nod + dv.2 * u.nanos
    let r : LocalTime × Int := if n < 0 then (⟨n + NPD⟩, dv.1 - 1) else (⟨n⟩, dv.1)
    Valid r.1 ∧ t.nod + k * u.nanos = r.2 * NPD + r.1.nod := by
  simp only [Valid] at *
  cases hbig : decide (k ≤ -u.unitsPerDay)
  · have hb := of_decide_eq_false hbig
    simp only [splitDays_false]
    by_cases hc : t.nod + k * u.nanos < 0
    · simp only [hc, if_true]
      cases u <;>
      · simp only [TimeUnit.nanos, TimeUnit.unitsPerDay] at *
        c10_consts
        omega
    · simp only [hc, if_false]
      cases u <;>
      · simp only [TimeUnit.nanos, TimeUnit.unitsPerDay] at *
        c10_consts
        omega
  · have hb := of_decide_eq_true hbig
    simp only [splitDays_true]
    by_cases hc : t.nod + csharpMod k u.unitsPerDay * u.nanos < 0
    · simp only [hc, if_true]
      cases u <;>
      · simp only [TimeUnit.nanos, TimeUnit.unitsPerDay] at *
        c10_consts
        simp (disch := decide) only [fdiv_pos, csharpMod_pos] at *
        simp only [show k < 0 by omega, true_and] at *
        omega
    · simp only [hc, if_false]
      cases u <;>
      · simp only [TimeUnit.nanos, TimeUnit.unitsPerDay] at *
        c10_consts
        simp (disch := decide) only [fdiv_pos, csharpMod_pos] at *
        simp only [show k < 0 by omega, true_and] at *
        omega

/-! ### the date as a day number -/

/-- a day number inside the calendar's range -/
def InRange (r : DayRange) (d : Int) : Prop := r.minD ≤ d ∧ d ≤ r.maxD

theorem addFixed_ok (r : DayRange) (ud day v d' : Int) (h : r.addFixed ud day v = .ok d') (hin : InRange r day) :
    d' = day + v * ud ∧ InRange r d' := by
  unfold DayRange.addFixed at h
  simp only [InRange] at *
  split at h
  · rename_i hv; simp only [Except.ok.injEq] at h; subst h; subst hv; omega
  · split at h <;> split at h <;> first | (simp only [Except.ok.injEq] at h; subst h; omega) | cases h

theorem addFixed_err (r : DayRange) (ud day v : Int) (e : PyExc) (h : r.addFixed ud day v = .error e) :
    ¬ InRange r (day + v * ud) ∧ (e = .overflowError ∨ e = .valueError) := by
  unfold DayRange.addFixed at h
  simp only [InRange] at *
  split at h
  · cases h
  · split at h <;> split at h <;> first | (simp only [Except.error.injEq] at h; subst h; exact ⟨by omega, by simp⟩) | cases h

theorem addFixed_inRange (r : DayRange) (ud day v : Int) (_hin : InRange r day) (hr : InRange r (day + v * ud)) :
    r.addFixed ud day v = .ok (day + v * ud) := by
  unfold DayRange.addFixed
  simp only [InRange] at *
  split
  · rename_i hv; subst hv; simp only [Int.zero_mul, Int.add_zero]
  · split <;> split <;> first | rfl | omega

theorem bind_ok_inv {α β} (x : R α) (f : α → R β) (r : β) (h : (x >>= f) = .ok r) :
    ∃ a, x = .ok a ∧ f a = .ok r := by
  cases x with
  | error e => cases h
  | ok a => exact ⟨a, rfl, h⟩


end Pyoda.C10
