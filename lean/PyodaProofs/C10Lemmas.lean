/-
  Helper definitions and lemmas for C10 (LocalTime factories, accessors, _TimePeriodField steps).
  No property statements here; see PyodaProofs.C10.
-/
import PyodaModel.TimeOfDay
import PyodaProofs.Basic

namespace Pyoda.C10
open Pyoda Pyoda.LocalTime Pyoda.TimeUnit

/-- the LocalTime invariant -/
def Valid (t : LocalTime) : Prop := 0 ≤ t.nod ∧ t.nod < NPD
/-- hour, minute, second arguments inside their documented ranges -/
def HMS (h m s : Int) : Prop := 0 ≤ h ∧ h ≤ 23 ∧ 0 ≤ m ∧ m ≤ 59 ∧ 0 ≤ s ∧ s ≤ 59

macro "c10_consts" : tactic =>
  `(tactic| simp only [NPD, NPH, NPMin, NPS, NPMs, NPUs, NPT, TPD, TPS, TPH, SPD, MsPD, UsPD, MinPD, HPD,
      LocalTime.TPMs, decBound, Int.reduceSub, Int.reduceNeg] at *)

theorem guarded_bind {α} (c : Prop) [Decidable c] (chk : R Unit) (f : Unit → R α) (hc : ¬c → chk = .ok ()) :
    (guarded c chk >>= f) = (chk >>= f) := by
  unfold guarded
  by_cases h : c
  · simp only [h, if_true]
  · simp only [h, if_false, hc h]

theorem checkRange_ok (v lo hi : Int) (h : lo ≤ v ∧ v ≤ hi) : checkRange v lo hi = .ok () := by
  unfold checkRange
  rw [if_neg (by omega)]

theorem checkRange_step {α} (v lo hi : Int) (f : Unit → R α) :
    (checkRange v lo hi >>= f) = if v < lo ∨ v > hi then .error .valueError else f () := by
  unfold checkRange
  split <;> rfl

/-! ### the factories without the outer all-at-once test -/

theorem new_eq (h m s ms : Int) : LocalTime.new h m s ms =
    if h < 0 ∨ h > 23 then .error .valueError else if m < 0 ∨ m > 59 then .error .valueError
    else if s < 0 ∨ s > 59 then .error .valueError else if ms < 0 ∨ ms > 999 then .error .valueError
    else .ok ⟨h * NPH + m * NPMin + s * NPS + ms * NPMs⟩ := by
  unfold LocalTime.new
  rw [guarded_bind]
  · simp only [bind_assoc, checkRange_step, HPD, Int.reduceSub]
  · intro hc
    rw [checkRange_ok _ _ _ (by omega), checkRange_ok _ _ _ (by omega), checkRange_ok _ _ _ (by omega),
      checkRange_ok _ _ _ (by omega)]
    rfl

theorem fromHMSMsT_eq (h m s ms t : Int) : fromHMSMsT h m s ms t =
    if h < 0 ∨ h > 23 then .error .valueError else if m < 0 ∨ m > 59 then .error .valueError
    else if s < 0 ∨ s > 59 then .error .valueError else if ms < 0 ∨ ms > 999 then .error .valueError
    else if t < 0 ∨ t > 9999 then .error .valueError
    else .ok ⟨h * NPH + m * NPMin + s * NPS + ms * NPMs + t * NPT⟩ := by
  unfold fromHMSMsT
  rw [guarded_bind]
  · simp only [bind_assoc, checkRange_step, HPD, LocalTime.TPMs, Int.reduceSub]
  · intro hc
    rw [checkRange_ok _ _ _ (by omega), checkRange_ok _ _ _ (by omega), checkRange_ok _ _ _ (by omega),
      checkRange_ok _ _ _ (by omega), checkRange_ok _ _ _ (by omega)]
    rfl

theorem fromHMST_eq (h m s t : Int) : fromHMST h m s t =
    if h < 0 ∨ h > 23 then .error .valueError else if m < 0 ∨ m > 59 then .error .valueError
    else if s < 0 ∨ s > 59 then .error .valueError else if t < 0 ∨ t > 9999999 then .error .valueError
    else .ok ⟨h * NPH + m * NPMin + s * NPS + t * NPT⟩ := by
  unfold fromHMST
  rw [guarded_bind]
  · simp only [bind_assoc, checkRange_step, HPD, TPS, Int.reduceSub]
  · intro hc
    rw [checkRange_ok _ _ _ (by omega), checkRange_ok _ _ _ (by omega), checkRange_ok _ _ _ (by omega),
      checkRange_ok _ _ _ (by omega)]
    rfl

theorem fromHMSN_eq (h m s n : Int) : fromHMSN h m s n =
    if h < 0 ∨ h > 23 then .error .valueError else if m < 0 ∨ m > 59 then .error .valueError
    else if s < 0 ∨ s > 59 then .error .valueError else if n < 0 ∨ n > 999999999 then .error .valueError
    else .ok ⟨h * NPH + m * NPMin + s * NPS + n⟩ := by
  unfold fromHMSN
  rw [guarded_bind]
  · simp only [bind_assoc, checkRange_step, HPD, NPS, Int.reduceSub]
  · intro hc
    rw [checkRange_ok _ _ _ (by omega), checkRange_ok _ _ _ (by omega), checkRange_ok _ _ _ (by omega),
      checkRange_ok _ _ _ (by omega)]
    rfl

theorem fromNanos_eq (n : Int) : fromNanosSinceMidnight n =
    if n < 0 ∨ n > NPD - 1 then .error .valueError else .ok ⟨n⟩ := by
  unfold fromNanosSinceMidnight
  rw [guarded_bind]
  · simp only [checkRange_step]
  · intro hc; exact checkRange_ok _ _ _ (by omega)

theorem since_eq (v perDay npu : Int) : fromUnitsSinceMidnight v perDay npu =
    if v < 0 ∨ v > perDay - 1 then .error .valueError else .ok ⟨int64Overflow (v * npu)⟩ := by
  unfold fromUnitsSinceMidnight
  rw [guarded_bind]
  · simp only [checkRange_step]
  · intro hc; exact checkRange_ok _ _ _ (by omega)

theorem new_exact (h m s ms : Int) (t : LocalTime) (hk : LocalTime.new h m s ms = .ok t) :
    Valid t ∧ t.nod = ((h * 60 + m) * 60 + s) * NPS + ms * NPMs ∧ HMS h m s ∧ 0 ≤ ms ∧ ms ≤ 999 := by
  rw [new_eq] at hk
  simp only [Valid, HMS]; c10_consts; grind

theorem fromHMSMsT_exact (h m s ms tk : Int) (t : LocalTime) (hk : fromHMSMsT h m s ms tk = .ok t) :
    Valid t ∧ t.nod = ((h * 60 + m) * 60 + s) * NPS + ms * NPMs + tk * NPT ∧ HMS h m s ∧ 0 ≤ ms ∧ ms ≤ 999
      ∧ 0 ≤ tk ∧ tk ≤ 9999 := by
  rw [fromHMSMsT_eq] at hk
  simp only [Valid, HMS]; c10_consts; grind

theorem fromHMST_exact (h m s tk : Int) (t : LocalTime) (hk : fromHMST h m s tk = .ok t) :
    Valid t ∧ t.nod = ((h * 60 + m) * 60 + s) * NPS + tk * NPT ∧ HMS h m s ∧ 0 ≤ tk ∧ tk < TPS := by
  rw [fromHMST_eq] at hk
  simp only [Valid, HMS]; c10_consts; grind

theorem fromHMSN_exact (h m s n : Int) (t : LocalTime) (hk : fromHMSN h m s n = .ok t) :
    Valid t ∧ t.nod = ((h * 60 + m) * 60 + s) * NPS + n ∧ HMS h m s ∧ 0 ≤ n ∧ n < NPS := by
  rw [fromHMSN_eq] at hk
  simp only [Valid, HMS]; c10_consts; grind

theorem fromNanos_exact (n : Int) (t : LocalTime) (hk : fromNanosSinceMidnight n = .ok t) :
    Valid t ∧ t.nod = n := by
  rw [fromNanos_eq] at hk
  simp only [Valid]; c10_consts; grind

/-- `_int64_overflow` is the identity on the products the `from_*_since_midnight` factories form -/
theorem since_exact (v perDay npu : Int) (t : LocalTime) (h0 : 0 < perDay) (h1 : 0 < npu) (h2 : perDay * npu = NPD)
    (hk : fromUnitsSinceMidnight v perDay npu = .ok t) : Valid t ∧ t.nod = v * npu := by
  rw [since_eq] at hk
  split at hk
  · cases hk
  · rename_i hc
    simp only [Except.ok.injEq] at hk; subst hk
    have hv : 0 ≤ v ∧ v ≤ perDay - 1 := by omega
    have hlo : 0 ≤ v * npu := Int.mul_nonneg hv.1 (Int.le_of_lt h1)
    have hhi : v * npu ≤ (perDay - 1) * npu := Int.mul_le_mul_of_nonneg_right hv.2 (Int.le_of_lt h1)
    have hexp : (perDay - 1) * npu = NPD - npu := by rw [Int.sub_mul, h2]; omega
    have hb : v * npu < NPD := by omega
    have : int64Overflow (v * npu) = v * npu := by
      unfold int64Overflow
      rw [fmod_pos _ _ (by decide)]
      simp only [NPD] at hb
      omega
    simp only [Valid, this]
    exact ⟨⟨hlo, hb⟩, rfl⟩

theorem new_raises_iff (h m s ms : Int) :
    (∃ e, LocalTime.new h m s ms = .error e) ↔ ¬ (HMS h m s ∧ 0 ≤ ms ∧ ms ≤ 999) := by
  rw [new_eq]; simp only [HMS]
  constructor
  · rintro ⟨e, hk⟩; grind
  · intro hn; refine ⟨.valueError, ?_⟩; grind

theorem fromHMSMsT_raises_iff (h m s ms tk : Int) :
    (∃ e, fromHMSMsT h m s ms tk = .error e) ↔ ¬ (HMS h m s ∧ 0 ≤ ms ∧ ms ≤ 999 ∧ 0 ≤ tk ∧ tk ≤ 9999) := by
  rw [fromHMSMsT_eq]; simp only [HMS]
  constructor
  · rintro ⟨e, hk⟩; grind
  · intro hn; refine ⟨.valueError, ?_⟩; grind

theorem fromHMST_raises_iff (h m s tk : Int) :
    (∃ e, fromHMST h m s tk = .error e) ↔ ¬ (HMS h m s ∧ 0 ≤ tk ∧ tk < TPS) := by
  rw [fromHMST_eq]; simp only [HMS, TPS]
  constructor
  · rintro ⟨e, hk⟩; grind
  · intro hn; refine ⟨.valueError, ?_⟩; grind

theorem fromHMSN_raises_iff (h m s n : Int) :
    (∃ e, fromHMSN h m s n = .error e) ↔ ¬ (HMS h m s ∧ 0 ≤ n ∧ n < NPS) := by
  rw [fromHMSN_eq]; simp only [HMS, NPS]
  constructor
  · rintro ⟨e, hk⟩; grind
  · intro hn; refine ⟨.valueError, ?_⟩; grind

theorem fromNanos_raises_iff (n : Int) :
    (∃ e, fromNanosSinceMidnight n = .error e) ↔ ¬ (0 ≤ n ∧ n < NPD) := by
  rw [fromNanos_eq]
  constructor
  · rintro ⟨e, hk⟩; grind
  · intro hn; refine ⟨.valueError, ?_⟩; grind

theorem since_raises_iff (v perDay npu : Int) :
    (∃ e, fromUnitsSinceMidnight v perDay npu = .error e) ↔ ¬ (0 ≤ v ∧ v < perDay) := by
  rw [since_eq]
  constructor
  · rintro ⟨e, hk⟩; grind
  · intro hn; refine ⟨.valueError, ?_⟩; grind

theorem new_error_kind (h m s ms : Int) (e : PyExc) (hk : LocalTime.new h m s ms = .error e) :
    e = .valueError := by
  rw [new_eq] at hk; grind

end Pyoda.C10
