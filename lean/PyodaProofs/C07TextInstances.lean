/-
  C07 (text steps) — instances of the generic round-trip theorem with name tables: the invariant culture satisfies
  the decidable name conditions, the LocalDate long-date pattern `dddd, dd MMMM yyyy` (standard letter `D`) and the
  12-hour LocalTime pattern `hh:mm tt` are `Delimited` there, and every value they can represent round-trips.
-/
import PyodaProofs.C07Stepped
import PyodaProofs.C07Instances

namespace Pyoda.C07
open Pyoda Pyoda.Text

/-! ## the invariant culture's names are unambiguous -/

theorem invariant_monthNamesOK : monthNamesOK invariantCulture 3 true = true ∧ monthNamesOK invariantCulture 3 false = true ∧
    monthNamesOK invariantCulture 4 true = true ∧ monthNamesOK invariantCulture 4 false = true := by
  refine ⟨?_, ?_, ?_, ?_⟩ <;> decide +kernel

theorem invariant_dayNamesOK : dayNamesOK invariantCulture 3 = true ∧ dayNamesOK invariantCulture 4 = true := by
  refine ⟨?_, ?_⟩ <;> decide +kernel

theorem invariant_amPmOK : amPmOK invariantCulture 1 = true ∧ amPmOK invariantCulture 2 = true := by
  refine ⟨?_, ?_⟩ <;> decide +kernel

theorem invariant_eraOK : eraOK invariantCulture = true := by decide +kernel

/-- no month or day name of the invariant culture is a proper prefix of another: nothing that follows can extend one;
    the era name `B.C.` is extended by `B.C.E.` (by the character `e`) -/
theorem invariant_dangers : monthDanger invariantCulture 3 true = [] ∧ monthDanger invariantCulture 4 true = [] ∧
    dayDanger invariantCulture 3 = [] ∧ dayDanger invariantCulture 4 = [] ∧ amPmDanger invariantCulture 2 = [] ∧
    eraDanger invariantCulture = ['e'] := by
  refine ⟨?_, ?_, ?_, ?_, ?_, ?_⟩ <;> decide +kernel

/-- a name list that is NOT prefix-unambiguous (the shape of de-DE's abbreviated months: plain `Jan`, genitive
    `Jan.`): the month-only pattern `MMM'.'` writes `Jan.` and the longest match then consumes the literal's dot -/
def janCulture : Culture :=
  { invariantCulture with
    shortMonthsGen := ["", "Jan.", "Feb.", "Mar", "Apr", "May", "Jun", "Jul", "Aug", "Sep", "Oct", "Nov", "Dec", ""].map String.toList }

example : monthDanger janCulture 3 false = ['.', '.'] := by decide +kernel
example : (compiledSteps (compileCustom .date janCulture "MMM'.'".toList)).map (fun p => Delimited janCulture p.1 true p.2)
    = some false := by decide +kernel
example : parseCompiled .date ⟨janCulture, 2048, [.monthText 3, .lit ['.']]⟩ "Jan.".toList = .ok none := by decide +kernel
example : fmtCompiled ⟨janCulture, 2048, [.monthText 3, .lit ['.']]⟩ (dateGetter 2020 1 5) [] = .ok "Jan.".toList := by
  decide +kernel

/-! ## LocalDatePattern `D` of the invariant culture: `dddd, dd MMMM yyyy` -/

def longDateSteps : List Step :=
  [.dayText 4, .lit [','], .lit [' '], .num .dayOfMonth .dayOfMonth 2 2 1 99, .lit [' '], .monthText 4, .lit [' '],
   .num .yearOfEra .yearOfEra 4 4 1 9999]

theorem longDate_compiles :
    compiledSteps (compileCustom .date invariantCulture "dddd, dd MMMM yyyy".toList) = some (14848, longDateSteps) := by
  decide +kernel

theorem longDate_delimited : Delimited invariantCulture 14848 true longDateSteps = true := by decide +kernel

theorem isoDayOfWeek_range (y m d : Int) : 1 ≤ isoDayOfWeek y m d ∧ isoDayOfWeek y m d ≤ 7 := by
  unfold isoDayOfWeek
  rw [fmod_pos _ 7 (by decide)]
  omega

/-- every date of the common era (the pattern has no era field: the era is the template's) round-trips through the
    long-date pattern — weekday name, day, month name, four-digit year of era -/
theorem longDate_generic_roundtrip (y m d : Int) (hv : validDate y m d) (hy : 1 ≤ y) :
    parseCompiled .date ⟨invariantCulture, 14848, longDateSteps⟩
      (outSteps invariantCulture 14848 (dateGetter y m d) longDateSteps) = .ok (some [y, m, d]) := by
  obtain ⟨h1, h2, h3, h4, h5, h6⟩ := hv
  have hb := daysInMonth_bounds y m
  have hw := isoDayOfWeek_range y m d
  unfold ISO_MIN_YEAR ISO_MAX_YEAR at *
  have hyoe : yearOfEra y = y := by unfold yearOfEra; rw [if_pos (by omega)]
  have hval : ∀ s ∈ longDateSteps, ValOK (dateGetter y m d) s := by
    intro s hs
    simp only [longDateSteps, List.mem_cons, List.mem_nil_iff, or_false] at hs
    rcases hs with rfl | rfl | rfl | rfl | rfl | rfl | rfl | rfl
    · exact hw
    · trivial
    · trivial
    · exact ⟨by simp only [dateGetter]; omega, by simp only [dateGetter]; omega, by decide, by decide, by decide,
        by simp only [dateGetter]; omega⟩
    · trivial
    · exact ⟨h3, h4⟩
    · trivial
    · exact ⟨by simp only [dateGetter, hyoe]; omega, by simp only [dateGetter, hyoe]; omega, by decide, by decide,
        by decide, by simp only [dateGetter, hyoe]; omega⟩
  have hr : Representable .date ⟨invariantCulture, 14848, longDateSteps⟩ (dateGetter y m d) [y, m, d] := by
    unfold Representable bucketValue
    have u0 : ¬ ((14848 : Nat) = (F.year ||| F.monthNum ||| F.dayOfMonth)) := by decide
    have u1 : hasAny 14848 F.year = false := by decide
    have u2 : hasAny 14848 F.yearOfEra = true := by decide
    have u3 : hasAny 14848 F.era = false := by decide
    have u4 : hasAny 14848 F.yearTwoDigits = false := by decide
    have u5 : (14848 : Nat) &&& (F.monthNum ||| F.monthText) = F.monthText := by decide
    have u6 : hasAny 14848 F.dayOfMonth = true := by decide
    have u7 : hasAny 14848 F.dayOfWeek = true := by decide
    have u8 : ¬ (F.monthText = F.monthNum) := by decide
    have e2000 : isoEra TEMPLATE_YEAR = 1 := by decide
    have hdim : ¬ (d > daysInMonth y m) := by omega
    have hyr : ¬ (y < 1 ∨ y > 9999) := by omega
    have hm12 : ¬ (m > 12) := by omega
    simp only [dateValue, dateValueT, u0, if_false, determineYear, u1, u2, u3, u4, Bool.false_eq_true, if_true, not_true_eq_false,
      e2000, determineMonth, u5, u8, u6, u7, longDateSteps, setSteps, setStep, Bucket.set, dateGetter, hyoe, true_and]
    simp (config := { decide := true }) only [if_false, hyr, hm12, hdim, ne_eq, not_true_eq_false, Option.map]
  have hne : outSteps invariantCulture 14848 (dateGetter y m d) longDateSteps ≠ [] := by
    simp only [longDateSteps, outSteps, outStep]
    intro h
    have h' := List.append_eq_nil_iff.mp h
    have h'' := List.append_eq_nil_iff.mp h'.2
    exact absurd h''.1 (by simp)
  exact (pattern_roundtrip .date ⟨invariantCulture, 14848, longDateSteps⟩ (dateGetter y m d) [y, m, d]
    longDate_delimited hval hr hne).2

/-! ## LocalTime `hh:mm tt` of the invariant culture -/

def clockSteps : List Step :=
  [.num .hours12 .hours12 2 2 1 12, .lit [':'], .num .minutes .minutes 2 2 0 59, .lit [' '], .amPm 2]

theorem clock_compiles :
    compiledSteps (compileCustom .time invariantCulture "hh:mm tt".toList) = some (74, clockSteps) := by decide +kernel

theorem clock_delimited : Delimited invariantCulture 74 true clockSteps = true := by decide +kernel

/-- every whole minute of the day round-trips through the 12-hour pattern with the AM/PM designator -/
theorem clock_generic_roundtrip (h mi : Int) (h0 : 0 ≤ h) (h1 : h ≤ 23) (m0 : 0 ≤ mi) (m1 : mi ≤ 59) :
    parseCompiled .time ⟨invariantCulture, 74, clockSteps⟩
      (outSteps invariantCulture 74 (timeGetter (h * 3600000000000 + mi * 60000000000)) clockSteps) =
      .ok (some [h * 3600000000000 + mi * 60000000000]) := by
  generalize hn : h * 3600000000000 + mi * 60000000000 = nod
  have n0 : 0 ≤ nod := by omega
  have n1 : nod < 86400000000000 := by omega
  obtain ⟨e1, e2, e3, e4⟩ := time_accessors nod n0 n1
  have eh : ltHour nod = h := by rw [e1]; omega
  have em : ltMinute nod = mi := by rw [e2]; omega
  have hck : ltClockHour nod = if h % 12 = 0 then 12 else h % 12 := by
    unfold ltClockHour int32Overflow
    rw [eh, csharpMod_pos h 12 (by decide), fmod_pos _ _ (by decide)]
    have : ¬ (h < 0 ∧ 0 < h % 12) := by omega
    rw [if_neg this]
    dsimp only
    split <;> split <;> omega
  have hc1 : 1 ≤ ltClockHour nod ∧ ltClockHour nod ≤ 12 := by rw [hck]; split <;> omega
  have hval : ∀ s ∈ clockSteps, ValOK (timeGetter nod) s := by
    intro s hs
    simp only [clockSteps, List.mem_cons, List.mem_nil_iff, or_false] at hs
    rcases hs with rfl | rfl | rfl | rfl | rfl
    · exact ⟨by simp only [timeGetter]; omega, by simp only [timeGetter]; omega, by decide, by decide, by decide,
        by simp only [timeGetter]; omega⟩
    · trivial
    · exact ⟨by simp only [timeGetter]; omega, by simp only [timeGetter]; omega, by decide, by decide, by decide,
        by simp only [timeGetter]; omega⟩
    · trivial
    · exact ⟨by simp only [timeGetter]; omega, by simp only [timeGetter]; omega⟩
  have hr : Representable .time ⟨invariantCulture, 74, clockSteps⟩ (timeGetter nod) [nod] := by
    unfold Representable bucketValue
    have u0 : ¬ ((74 : Nat) &&& F.allTimeExceptFraction = (F.hours24 ||| F.minutes ||| F.seconds)) := by decide
    have u1 : hasAny 74 F.hours24 = false := by decide
    have u2 : (74 : Nat) &&& (F.hours12 ||| F.amPm) = (F.hours12 ||| F.amPm) := by decide
    have hap : amPmValue invariantCulture (ltHour nod) = if h > 11 then 1 else 0 := by
      unfold amPmValue
      rw [if_neg (by decide), eh]
    simp only [timeValue, u0, if_false, u1, Bool.false_eq_true, u2, if_true, clockSteps, setSteps, setStep, Bucket.set, timeGetter,
      hap, em, hck, bucket0, timeBucket0]
    simp (config := { decide := true }) only [if_false, Option.map]
    have hcm : csharpMod (if h % 12 = 0 then 12 else h % 12) 12 = h % 12 := by
      rw [csharpMod_pos _ 12 (by decide)]
      split <;> split <;> omega
    have h2 : ¬ ((if h > 11 then (1 : Int) else 0) = 2) := by split <;> omega
    simp only [h2, if_false, hcm]
    have e0 : ltSecond 0 = 0 := by decide
    have e0' : ltNano 0 = 0 := by decide
    rw [e0, e0']
    congr 3
    unfold ltFromHmsn NPH NPMin NPS
    split <;> omega
  have hne : outSteps invariantCulture 74 (timeGetter nod) clockSteps ≠ [] := by
    simp only [clockSteps, outSteps, outStep]
    obtain ⟨_, _, hne⟩ := numOut_last 2 (timeGetter nod .hours12)
    intro hh
    exact hne (List.append_eq_nil_iff.mp hh).1
  exact (pattern_roundtrip .time ⟨invariantCulture, 74, clockSteps⟩ (timeGetter nod) [nod] clock_delimited hval hr hne).2

/-! ## case folding beyond ASCII: the comparison is a parameter (`lowC cu`: ASCII plus the run's table `cu.fold`); every
    theorem of `C07Text.lean` holds for ANY folding function (idempotent or not) -/

/-- a culture record with French month names and the folding table of its non-ASCII letters -/
def eteCulture : Culture :=
  { invariantCulture with
    longMonths := ["", "janvier", "février", "mars", "avril", "mai", "juin", "juillet", "août", "septembre", "octobre",
      "novembre", "décembre", ""].map String.toList,
    longMonthsGen := ["", "janvier", "février", "mars", "avril", "mai", "juin", "juillet", "août", "septembre", "octobre",
      "novembre", "décembre", ""].map String.toList,
    fold := [('é', 'é'), ('É', 'é'), ('û', 'û'), ('Û', 'û')] }

example : matchCI (lowC eteCulture) "février".toList "FÉVRIER 2024".toList = some " 2024".toList := by decide +kernel
example : matchCI (lowC invariantCulture) "février".toList "FÉVRIER 2024".toList = none := by decide +kernel
example : monthNamesOK eteCulture 4 true = true := by decide +kernel
example : parseCompiled .date ⟨eteCulture, 2176, [.monthText 4, .lit [' '], .num .year .year 4 4 (-9999) 9999]⟩
    "AOÛT 2024".toList = .ok (some [2024, 8, 1]) := by decide +kernel

end Pyoda.C07
