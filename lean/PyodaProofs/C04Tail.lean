/-
  C04, recurring tail — abstract part.  If each of the two yearly recurrences behaves as a strictly increasing
  sequence of transitions (`RecSpec`: `next` returns the least transition after an instant, `previous_or_same` the
  greatest at or before it) and the two sequences alternate, then the alternating map returns, for every
  instant, the interval between the two surrounding transitions, with the right name and offsets — i.e. the
  tail partitions the covered part of the timeline, intervals abut and the map is constant on each.
  The recurrence specifications themselves are established per rule from the calendar facts (see C04TailRules).
-/
import PyodaModel.Zone
import PyodaProofs.Basic

namespace Pyoda.C04
open Pyoda Pyoda.Zone

/-- a recurrence, used with fixed (standard offset, previous savings), behaves as the increasing sequence `T`
    of transition instants for years `lo … hi` -/
structure RecSpec (r : Recurrence) (std ps : Int) (T : Int → Int) (lo hi : Int) : Prop where
  mono : ∀ y, lo ≤ y → y < hi → T y < T (y + 1)
  next : ∀ y t, lo ≤ y → y < hi → T y ≤ t → t < T (y + 1) → r.next t std ps = .ok (some (T (y + 1)))
  prev : ∀ y t, lo ≤ y → y < hi → T y ≤ t → t < T (y + 1) → r.previousOrSame t std ps = .ok (some (T y))

theorem RecSpec.nextOrFail {r : Recurrence} {std ps : Int} {T : Int → Int} {lo hi : Int}
    (h : RecSpec r std ps T lo hi) (y t : Int) (h1 : lo ≤ y) (h2 : y < hi) (h3 : T y ≤ t) (h4 : t < T (y + 1)) :
    r.nextOrFail t std ps = .ok (T (y + 1)) := by
  simp [Recurrence.nextOrFail, h.next y t h1 h2 h3 h4, bind, Except.bind]

theorem RecSpec.prevOrFail {r : Recurrence} {std ps : Int} {T : Int → Int} {lo hi : Int}
    (h : RecSpec r std ps T lo hi) (y t : Int) (h1 : lo ≤ y) (h2 : y < hi) (h3 : T y ≤ t) (h4 : t < T (y + 1)) :
    r.prevOrFail t std ps = .ok (T y) := by
  simp [Recurrence.prevOrFail, h.prev y t h1 h2 h3 h4, bind, Except.bind]

/-- daylight rule first in each year: `TD y < TS y < TD (y+1)` -/
structure AltSpec (m : AltMap) (TD TS : Int → Int) (lo hi : Int) : Prop where
  d : RecSpec m.dstRec m.std 0 TD lo hi
  s : RecSpec m.stdRec m.std m.dstRec.savings TS lo hi
  alt : ∀ y, lo ≤ y → y ≤ hi → TD y < TS y ∧ (y < hi → TS y < TD (y + 1))
  wallOk : -64800 ≤ m.std + m.dstRec.savings ∧ m.std + m.dstRec.savings ≤ 64800 ∧ -64800 ≤ m.std ∧ m.std ≤ 64800
  stdSavings : m.stdRec.savings = 0

/-- inside daylight time of year `y`: the interval is `[TD y, TS y)` with the daylight name and offsets -/
theorem altmap_get_dst {m : AltMap} {TD TS : Int → Int} {lo hi : Int} (h : AltSpec m TD TS lo hi)
    (y t : Int) (hy1 : lo < y) (hy2 : y < hi) (h1 : TD y ≤ t) (h2 : t < TS y) :
    m.get t = .ok ⟨TD y, TS y, m.dstRec.name, m.std + m.dstRec.savings, m.dstRec.savings⟩ := by
  have a := h.alt y (by omega) (by omega)
  have am := h.alt (y - 1) (by omega) (by omega)
  have e1 : y - 1 + 1 = y := by omega
  rw [e1] at am
  have hd := h.d.nextOrFail y t (by omega) hy2 h1 (by have := a.2 hy2; omega)
  have hs := h.s.nextOrFail (y - 1) t (by omega) (by omega) (by have := am.2 (by omega); omega) (by rw [e1]; exact h2)
  rw [e1] at hs
  have hp := h.d.prevOrFail y t (by omega) hy2 h1 (by have := a.2 hy2; omega)
  have hlt : TS y < TD (y + 1) := a.2 hy2
  simp only [AltMap.get, AltMap.nextTransition, hd, hs, bind, Except.bind, hlt, if_true, hp, offAdd]
  rw [if_neg (by have := h.wallOk; omega)]
  simp only [ZI.mk']
  rw [if_neg (by omega)]

/-- inside standard time after the daylight period of year `y`: the interval is `[TS y, TD (y+1))` -/
theorem altmap_get_std {m : AltMap} {TD TS : Int → Int} {lo hi : Int} (h : AltSpec m TD TS lo hi)
    (y t : Int) (hy1 : lo ≤ y) (hy2 : y + 1 < hi) (h1 : TS y ≤ t) (h2 : t < TD (y + 1)) :
    m.get t = .ok ⟨TS y, TD (y + 1), m.stdRec.name, m.std, 0⟩ := by
  have a := h.alt y hy1 (by omega)
  have ap := h.alt (y + 1) (by omega) (by omega)
  have hd := h.d.nextOrFail y t hy1 (by omega) (by omega) h2
  have hs := h.s.nextOrFail y t hy1 (by omega) h1 (by omega)
  have hp := h.s.prevOrFail y t hy1 (by omega) h1 (by omega)
  have hlt : ¬ (TS (y + 1) < TD (y + 1)) := by omega
  have hgt : TS (y + 1) > TD (y + 1) := by omega
  simp only [AltMap.get, AltMap.nextTransition, hd, hs, bind, Except.bind, hlt, if_false, hgt, if_true, hp, offAdd,
    Bool.false_eq_true, h.stdSavings, Int.add_zero]
  rw [if_neg (by have := h.wallOk; omega)]
  simp only [ZI.mk']
  rw [if_neg (by omega)]

/-- **tail partition (abstract)**: every instant between the first daylight transition after year `lo` and the
    last one before `hi` lies in exactly the interval the map returns for it, and the map is constant there -/
theorem altmap_partition {m : AltMap} {TD TS : Int → Int} {lo hi : Int} (h : AltSpec m TD TS lo hi)
    (y t : Int) (hy1 : lo < y) (hy2 : y + 1 < hi) (h1 : TD y ≤ t) (h2 : t < TD (y + 1)) :
    ∃ z, m.get t = .ok z ∧ z.s ≤ t ∧ t < z.e ∧
      (∀ u, z.s ≤ u → u < z.e → m.get u = .ok z) ∧
      (z.e = TS y ∨ z.e = TD (y + 1)) := by
  by_cases hc : t < TS y
  · refine ⟨_, altmap_get_dst h y t hy1 (by omega) h1 hc, h1, hc, ?_, Or.inl rfl⟩
    intro u hu1 hu2
    exact altmap_get_dst h y u hy1 (by omega) hu1 hu2
  · refine ⟨_, altmap_get_std h y t (by omega) hy2 (by omega) h2, by simp only; omega, h2, ?_, Or.inr rfl⟩
    intro u hu1 hu2
    exact altmap_get_std h y u (by omega) hy2 hu1 hu2

end Pyoda.C04
