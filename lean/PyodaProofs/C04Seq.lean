/-
  C04 — a zone lookup described by ONE strictly increasing sequence of transition instants `V a < V (a+1) < …
  < V (b+1)` with the interval `iv k = [V k, V (k+1))` returned for every instant between transitions `k` and
  `k+1` (`SeqSpec`).  This is the shape of the property itself: every instant of `[V a, V (b+1))` lies in exactly
  one interval, the lookup is constant on it, consecutive intervals abut.  Generic consequences (existence and
  uniqueness of the index, gluing two descriptions at a seam) are proved here; the stored periods, the recurring
  tail and the whole precalculated zone are instances (C04TailEnd, C04Zone).
-/
import PyodaModel.Zone
import PyodaProofs.Basic

namespace Pyoda.C04
open Pyoda Pyoda.Zone

structure SeqSpec (get : Int → R ZI) (V : Int → Int) (iv : Int → ZI) (a b : Int) : Prop where
  mono : ∀ k, a ≤ k → k ≤ b → V k < V (k + 1)
  get : ∀ k t, a ≤ k → k ≤ b → V k ≤ t → t < V (k + 1) → get t = .ok (iv k)
  s : ∀ k, a ≤ k → k ≤ b → (iv k).s = V k
  e : ∀ k, a ≤ k → k ≤ b → (iv k).e = V (k + 1)

/-- discrete intermediate value: an instant between the first and the last transition lies between two
    consecutive ones (no monotonicity needed) -/
theorem seq_find (V : Int → Int) (a : Int) (t : Int) :
    ∀ n : Nat, V a ≤ t → t < V (a + n) → ∃ k, a ≤ k ∧ k < a + n ∧ V k ≤ t ∧ t < V (k + 1) := by
  intro n
  induction n with
  | zero => intro h1 h2; simp only [Int.natCast_zero, Int.add_zero] at h2; omega
  | succ n ih =>
    intro h1 h2
    by_cases hq : t < V (a + n)
    · obtain ⟨k, k1, k2, k3, k4⟩ := ih h1 hq
      exact ⟨k, k1, by omega, k3, k4⟩
    · refine ⟨a + n, by omega, by omega, by omega, ?_⟩
      have e : a + (n : Int) + 1 = a + ((n + 1 : Nat) : Int) := by omega
      rw [e]; exact h2

section
variable {get : Int → R ZI} {V : Int → Int} {iv : Int → ZI} {a b : Int} (h : SeqSpec get V iv a b)
include h

omit h in
theorem seq_find_range (V : Int → Int) (a b t : Int) (hab : a ≤ b + 1) (h1 : V a ≤ t) (h2 : t < V (b + 1)) :
    ∃ k, a ≤ k ∧ k ≤ b ∧ V k ≤ t ∧ t < V (k + 1) := by
  have e : b + 1 = a + ((b + 1 - a).toNat : Int) := by omega
  rw [e] at h2
  obtain ⟨k, k1, k2, k3, k4⟩ := seq_find V a t _ h1 h2
  exact ⟨k, k1, by omega, k3, k4⟩

theorem SeqSpec.mono_le_nat (i : Int) (hi : a ≤ i) : ∀ n : Nat, i + n ≤ b + 1 → V i ≤ V (i + n) := by
  intro n
  induction n with
  | zero => intro _; simp
  | succ n ih =>
    intro hn
    have h1 := ih (by omega)
    have h2 := h.mono (i + n) (by omega) (by omega)
    have e : i + (n : Int) + 1 = i + ((n + 1 : Nat) : Int) := by omega
    rw [e] at h2
    omega

theorem SeqSpec.mono_le (i j : Int) (hi : a ≤ i) (hij : i ≤ j) (hj : j ≤ b + 1) : V i ≤ V j := by
  have := h.mono_le_nat i hi (j - i).toNat (by omega)
  have e : i + ((j - i).toNat : Int) = j := by omega
  rw [e] at this; exact this

theorem SeqSpec.mono_lt (i j : Int) (hi : a ≤ i) (hij : i < j) (hj : j ≤ b + 1) : V i < V j := by
  have h1 := h.mono i hi (by omega)
  have h2 := h.mono_le (i + 1) j (by omega) (by omega) hj
  omega

/-- the index of the interval containing an instant is unique -/
theorem SeqSpec.index_unique (t i j : Int) (hi : a ≤ i ∧ i ≤ b) (hj : a ≤ j ∧ j ≤ b)
    (h1 : V i ≤ t ∧ t < V (i + 1)) (h2 : V j ≤ t ∧ t < V (j + 1)) : i = j := by
  by_cases hij : i = j
  · exact hij
  · exfalso
    by_cases hlt : i < j
    · have := h.mono_le (i + 1) j (by omega) (by omega) (by omega); omega
    · have := h.mono_le (j + 1) i (by omega) (by omega) (by omega); omega

/-- restriction to a sub-range of indices -/
theorem SeqSpec.sub (a' b' : Int) (ha : a ≤ a') (hb : b' ≤ b) : SeqSpec get V iv a' b' :=
  ⟨fun k h1 h2 => h.mono k (by omega) (by omega), fun k t h1 h2 => h.get k t (by omega) (by omega),
   fun k h1 h2 => h.s k (by omega) (by omega), fun k h1 h2 => h.e k (by omega) (by omega)⟩

/-- **partition**: every instant of `[V a, V (b+1))` gets an interval that contains it, on which the lookup is
    constant, and the interval returned at its end starts exactly there -/
theorem SeqSpec.partition (t : Int) (hab : a ≤ b + 1) (h1 : V a ≤ t) (h2 : t < V (b + 1)) :
    ∃ z, get t = .ok z ∧ z.s ≤ t ∧ t < z.e ∧ (∀ u, z.s ≤ u → u < z.e → get u = .ok z) ∧
      (z.e < V (b + 1) → ∃ z', get z.e = .ok z' ∧ z'.s = z.e) := by
  obtain ⟨k, k1, k2, k3, k4⟩ := seq_find_range V a b t hab h1 h2
  refine ⟨iv k, h.get k t k1 k2 k3 k4, by rw [h.s k k1 k2]; exact k3, by rw [h.e k k1 k2]; exact k4, ?_, ?_⟩
  · intro u u1 u2
    rw [h.s k k1 k2] at u1; rw [h.e k k1 k2] at u2
    exact h.get k u k1 k2 u1 u2
  · intro he
    rw [h.e k k1 k2] at he ⊢
    have hk : k + 1 ≤ b := by
      by_cases hq : k + 1 ≤ b
      · exact hq
      · exfalso
        have : k = b := by omega
        subst this; omega
    refine ⟨iv (k + 1), h.get (k + 1) _ (by omega) hk (Int.le_refl _) (h.mono (k + 1) (by omega) hk), h.s (k + 1) (by omega) hk⟩

end

end Pyoda.C04
