/-
  C07 (second part) — offsets, consequences of the round trips, and re-formatting of parsed texts.
-/
import PyodaProofs.C07

namespace Pyoda.C07
open Pyoda Pyoda.Text

/-! ### offsets -/

theorem offsetValue_ok (neg : Bool) (h m s v : Int) (hv0 : -64800 ≤ v) (hv1 : v ≤ 64800)
    (e : (if neg then -(h * 3600 + m * 60 + s) else h * 3600 + m * 60 + s) = v) :
    offsetValue neg h m s = .ok (some v) := by
  unfold offsetValue offsetFromSeconds checkRange
  simp only [e]
  have c : ¬ (v < -64800 ∨ v > 64800) := by omega
  simp only [c, if_false]
  rfl

/-- OffsetPattern.general_invariant (`g`): every offset of whole seconds within ±18 h -/
theorem iso_offset_roundtrip (s : Int) (h0 : -64800 ≤ s) (h1 : s ≤ 64800) :
    parseOffG (fmtOffG s) = .ok (some s) := by
  obtain ⟨eh, em, es⟩ := off_accessors s h0 h1
  have hA : (s.natAbs : Int) ≤ 64800 := by omega
  have hh : (0 : Int) ≤ (s.natAbs : Int) / 3600 ∧ (s.natAbs : Int) / 3600 ≤ 18 := by omega
  have hne (l : Text) : offSign s :: l ≠ [] := by simp
  unfold fmtOffG
  rw [csharpMod_pos s 3600 (by decide), csharpMod_pos s 60 (by decide)]
  have key : (if decide (s < 0) = true then -((s.natAbs : Int) / 3600 * 3600 + (s.natAbs : Int) / 60 % 60 * 60 + (s.natAbs : Int) % 60)
      else (s.natAbs : Int) / 3600 * 3600 + (s.natAbs : Int) / 60 % 60 * 60 + (s.natAbs : Int) % 60) = s := by
    by_cases hs : s < 0
    · simp only [hs, decide_true, if_true]; omega
    · simp only [hs, decide_false, Bool.false_eq_true, if_false]; omega
  by_cases c1 : (if s < 0 ∧ 0 < s % 3600 then s % 3600 - 3600 else s % 3600) = 0
  · -- short form
    rw [if_pos c1]
    have hm0 : (s.natAbs : Int) / 60 % 60 = 0 := by split at c1 <;> omega
    have hs0 : (s.natAbs : Int) % 60 = 0 := by split at c1 <;> omega
    unfold parseOffG fmtOffShort
    rw [if_neg (hne _), eh]
    have f3 : offFields 3 (offSign s :: format2 ((s.natAbs : Int) / 3600)) = none := by
      unfold offFields
      rw [signPart_offSign]
      have := parseField_format2 ((s.natAbs : Int) / 3600) 0 23 [] (by omega) (by omega) (by omega) (by omega)
      rw [List.append_nil] at this
      simp [this, matchChar]
    have f2 : offFields 2 (offSign s :: format2 ((s.natAbs : Int) / 3600)) = none := by
      unfold offFields
      rw [signPart_offSign]
      have := parseField_format2 ((s.natAbs : Int) / 3600) 0 23 [] (by omega) (by omega) (by omega) (by omega)
      rw [List.append_nil] at this
      simp [this, matchChar]
    have f1 : offFields 1 (offSign s :: format2 ((s.natAbs : Int) / 3600)) =
        some ((decide (s < 0), (s.natAbs : Int) / 3600, 0, 0), []) := by
      unfold offFields
      rw [signPart_offSign]
      have := parseField_format2 ((s.natAbs : Int) / 3600) 0 23 [] (by omega) (by omega) (by omega) (by omega)
      rw [List.append_nil] at this
      simp [this]
    have v1 : offsetValue (decide (s < 0)) ((s.natAbs : Int) / 3600) 0 0 = .ok (some s) := by
      apply offsetValue_ok _ _ _ _ _ h0 h1
      by_cases hs : s < 0
      · simp only [hs, decide_true, if_true]; omega
      · simp only [hs, decide_false, Bool.false_eq_true, if_false]; omega
    simp only [parseWhole, parseOffPartial, hne, if_false, f3, f2, f1, v1, if_true]
  · rw [if_neg c1]
    by_cases c2 : (if s < 0 ∧ 0 < s % 60 then s % 60 - 60 else s % 60) = 0
    · -- medium form
      rw [if_pos c2]
      have hs0 : (s.natAbs : Int) % 60 = 0 := by split at c2 <;> omega
      unfold parseOffG fmtOffMedium fmtOffShort
      rw [eh, em]
      have hne' : offSign s :: format2 ((s.natAbs : Int) / 3600) ++ [':'] ++ format2 ((s.natAbs : Int) / 60 % 60) ≠ [] := by simp
      rw [if_neg hne']
      have pf1 (tail : Text) := parseField_format2 ((s.natAbs : Int) / 3600) 0 23 tail (by omega) (by omega) (by omega) (by omega)
      have pf2 := parseField_format2 ((s.natAbs : Int) / 60 % 60) 0 59 [] (by omega) (by omega) (by omega) (by omega)
      rw [List.append_nil] at pf2
      have f3 : offFields 3 (offSign s :: format2 ((s.natAbs : Int) / 3600) ++ [':'] ++ format2 ((s.natAbs : Int) / 60 % 60)) = none := by
        unfold offFields
        simp only [List.cons_append, List.append_assoc, List.nil_append]
        rw [signPart_offSign]
        simp [pf1, pf2, matchChar]
      have f2 : offFields 2 (offSign s :: format2 ((s.natAbs : Int) / 3600) ++ [':'] ++ format2 ((s.natAbs : Int) / 60 % 60)) =
          some ((decide (s < 0), (s.natAbs : Int) / 3600, (s.natAbs : Int) / 60 % 60, 0), []) := by
        unfold offFields
        simp only [List.cons_append, List.append_assoc, List.nil_append]
        rw [signPart_offSign]
        simp [pf1, pf2, matchChar]
      have v1 : offsetValue (decide (s < 0)) ((s.natAbs : Int) / 3600) ((s.natAbs : Int) / 60 % 60) 0 = .ok (some s) := by
        apply offsetValue_ok _ _ _ _ _ h0 h1
        by_cases hs : s < 0
        · simp only [hs, decide_true, if_true]; omega
        · simp only [hs, decide_false, Bool.false_eq_true, if_false]; omega
      simp only [parseWhole, parseOffPartial, hne', if_false, f3, f2, v1, if_true]
    · -- long form
      rw [if_neg c2]
      unfold parseOffG fmtOffLong fmtOffMedium fmtOffShort
      rw [eh, em, es]
      have hne' : offSign s :: format2 ((s.natAbs : Int) / 3600) ++ [':'] ++ format2 ((s.natAbs : Int) / 60 % 60) ++ [':'] ++
          format2 ((s.natAbs : Int) % 60) ≠ [] := by simp
      rw [if_neg hne']
      have pf1 (tail : Text) := parseField_format2 ((s.natAbs : Int) / 3600) 0 23 tail (by omega) (by omega) (by omega) (by omega)
      have pf2 (tail : Text) := parseField_format2 ((s.natAbs : Int) / 60 % 60) 0 59 tail (by omega) (by omega) (by omega) (by omega)
      have pf3 := parseField_format2 ((s.natAbs : Int) % 60) 0 59 [] (by omega) (by omega) (by omega) (by omega)
      rw [List.append_nil] at pf3
      have f3 : offFields 3 (offSign s :: format2 ((s.natAbs : Int) / 3600) ++ [':'] ++ format2 ((s.natAbs : Int) / 60 % 60) ++ [':'] ++
          format2 ((s.natAbs : Int) % 60)) =
          some ((decide (s < 0), (s.natAbs : Int) / 3600, (s.natAbs : Int) / 60 % 60, (s.natAbs : Int) % 60), []) := by
        unfold offFields
        simp only [List.cons_append, List.append_assoc, List.nil_append]
        rw [signPart_offSign]
        simp [pf1, pf2, pf3, matchChar]
      have v1 : offsetValue (decide (s < 0)) ((s.natAbs : Int) / 3600) ((s.natAbs : Int) / 60 % 60) ((s.natAbs : Int) % 60) = .ok (some s) := by
        apply offsetValue_ok _ _ _ _ _ h0 h1
        exact key
      simp only [parseWhole, parseOffPartial, hne', if_false, f3, v1, if_true]

/-- OffsetPattern.general_invariant_with_z (`G`): every offset; zero is written `Z` -/
theorem iso_offset_z_roundtrip (s : Int) (h0 : -64800 ≤ s) (h1 : s ≤ 64800) :
    parseOffGZ (fmtOffGZ s) = .ok (some s) := by
  unfold fmtOffGZ
  by_cases hs : s = 0
  · subst hs; simp [parseOffGZ]
  · rw [if_neg hs]
    unfold parseOffGZ
    have hne : fmtOffG s ≠ ['Z'] := by
      unfold fmtOffG fmtOffLong fmtOffMedium fmtOffShort
      rcases offSign_cases s with ⟨_, e⟩ | ⟨_, e⟩ <;> (rw [e]; split <;> (try split) <;> simp)
    rw [if_neg hne]
    exact iso_offset_roundtrip s h0 h1

/-! ### consequences -/

/-- distinct times of day are written differently by the extended ISO pattern -/
theorem iso_time_format_injective (a b : Int) (ha0 : 0 ≤ a) (ha1 : a < 86400000000000) (hb0 : 0 ≤ b)
    (hb1 : b < 86400000000000) (h : fmtIsoTime a = fmtIsoTime b) : a = b := by
  have h1 := iso_time_roundtrip a ha0 ha1
  have h2 := iso_time_roundtrip b hb0 hb1
  rw [h, h2] at h1
  injection h1 with h1; injection h1 with h1; exact h1.symm

/-- distinct valid dates are written differently by the ISO date pattern -/
theorem iso_date_format_injective (y m d y' m' d' : Int) (hv : validDate y m d) (hv' : validDate y' m' d')
    (h : fmtIsoDate y m d = fmtIsoDate y' m' d') : (y, m, d) = (y', m', d') := by
  have h1 := iso_date_roundtrip y m d hv
  have h2 := iso_date_roundtrip y' m' d' hv'
  rw [h, h2] at h1
  injection h1 with h1; injection h1 with h1; exact h1.symm

/-! ### re-formatting a parsed text (fixed-width numeric pattern `HH':'mm':'ss`) -/

theorem digitChar_digitVal : ∀ c : Char, isDigit c = true → digitChar (digitVal c) = c := by
  intro c h
  unfold isDigit at h
  simp only [Bool.and_eq_true, decide_eq_true_eq] at h
  unfold digitChar digitVal
  have e : 48 + (c.toNat - 48) % 10 = c.toNat := by omega
  rw [e]
  exact Char.ofNat_toNat c

/-- a two-digit field that parses is exactly two digit characters, and they are what `format2` writes -/
theorem parseField2_inv (lo hi : Int) (l : Text) (v : Int) (rest : Text) (hlo : 0 ≤ lo) (hhi : hi < 100)
    (h : parseField 2 2 lo hi l = some (v, rest)) : l = format2 v ++ rest := by
  have hr := parseField_bounds 2 2 lo hi l v rest h
  unfold parseField at h
  dsimp only at h
  by_cases c1 : ((matchChar '-' l).isSome = true ∧ lo ≥ 0)
  · rw [if_pos c1] at h; cases h
  · rw [if_neg c1] at h
    have hneg : (matchChar '-' l).isSome = false := by
      cases hh : (matchChar '-' l).isSome with
      | false => rfl
      | true => exact absurd ⟨hh, hlo⟩ c1
    simp only [hneg, Bool.false_eq_true, if_false] at h
    match l, h with
    | [], h => simp [parseDigits, scanDigits] at h
    | [a], h =>
      by_cases ha : isDigit a = true <;> simp [parseDigits, scanDigits, ha] at h
    | a :: b :: r, h =>
      by_cases ha : isDigit a = true
      · by_cases hb : isDigit b = true
        · simp only [parseDigits, scanDigits, ha, hb, if_true] at h
          simp only [Nat.lt_irrefl, if_false, Nat.zero_mul, Nat.zero_add] at h
          split at h
          · cases h
          · injection h with h; injection h with h1 h2
            subst h2
            have hda : digitVal a < 10 := by
              unfold isDigit at ha; simp only [Bool.and_eq_true, decide_eq_true_eq] at ha; unfold digitVal; omega
            have hdb : digitVal b < 10 := by
              unfold isDigit at hb; simp only [Bool.and_eq_true, decide_eq_true_eq] at hb; unfold digitVal; omega
            rw [← h1, format2_eq _ (by omega) (by omega)]
            have e : ((((digitVal a * 10 + digitVal b : Nat) : Int)).toNat) = digitVal a * 10 + digitVal b := by omega
            rw [e, padN_succ, padN_succ, padN_zero]
            have q1 : (digitVal a * 10 + digitVal b) / 10 = digitVal a := by omega
            have q2 : (digitVal a * 10 + digitVal b) % 10 = digitVal b := by omega
            have q3 : digitVal a % 10 = digitVal a := by omega
            rw [q1, q2, q3, digitChar_digitVal a ha, digitChar_digitVal b hb]
            simp
        · simp [parseDigits, scanDigits, ha, hb] at h
      · simp [parseDigits, scanDigits, ha] at h

theorem matchChar_inv (c : Char) (l rest : Text) (h : matchChar c l = some rest) : l = c :: rest := by
  unfold matchChar at h
  match l, h with
  | [], h => cases h
  | d :: r, h =>
    by_cases hd : d = c
    · simp [hd] at h; rw [hd, h]
    · simp [hd] at h

/-- **re-format**: any text that LocalTimePattern.general_iso parses successfully is exactly the text the pattern
    writes for the parsed value (all numeric fields of `HH':'mm':'ss` are fixed-width). -/
theorem iso_time_general_reformat (l : Text) (nod : Int) (h : parseIsoTimeGeneral l = .ok (some nod)) :
    fmtIsoTimeGeneral nod = l := by
  unfold parseIsoTimeGeneral parseWhole at h
  split at h
  · cases h
  · unfold parseTimePartial at h
    cases ht : timeFields 23 .none l with
    | none => rw [ht] at h; cases h
    | some p =>
      obtain ⟨⟨hh, m, s, n⟩, rest⟩ := p
      rw [ht] at h
      dsimp only at h
      split at h
      · rename_i hrest
        injection h with h; injection h with h
        simp only [timeFields, fracPart, Option.bind_eq_bind, Option.bind_eq_some_iff, Option.pure_def, Option.some.injEq,
          Prod.mk.injEq, Prod.exists] at ht
        obtain ⟨h', l1, h1, l2, h2, m', l3, h3, l4, h4, s', l5, h5, n', l6, ⟨rfl, rfl⟩, ⟨⟨rfl, rfl, rfl, rfl⟩, rfl⟩⟩ := ht
        have e1 := parseField2_inv 0 23 l _ _ (by omega) (by omega) h1
        have e2 := matchChar_inv _ _ _ h2
        have e3 := parseField2_inv 0 59 _ _ _ (by omega) (by omega) h3
        have e4 := matchChar_inv _ _ _ h4
        have e5 := parseField2_inv 0 59 _ _ _ (by omega) (by omega) h5
        have r1 := parseField_bounds _ _ _ _ _ _ _ h1
        have r3 := parseField_bounds _ _ _ _ _ _ _ h3
        have r5 := parseField_bounds _ _ _ _ _ _ _ h5
        subst hrest
        rw [e1, e2, e3, e4, e5, ← h]
        unfold fmtIsoTimeGeneral
        have hn0 : 0 ≤ ltFromHmsn h' m' s' 0 := by unfold ltFromHmsn NPH NPMin NPS; omega
        have hn1 : ltFromHmsn h' m' s' 0 < 86400000000000 := by unfold ltFromHmsn NPH NPMin NPS; omega
        rw [fmtHms_eq _ hn0 hn1]
        have a1 : ltFromHmsn h' m' s' 0 / 3600000000000 = h' := by unfold ltFromHmsn NPH NPMin NPS; omega
        have a2 : ltFromHmsn h' m' s' 0 / 60000000000 % 60 = m' := by unfold ltFromHmsn NPH NPMin NPS; omega
        have a3 : ltFromHmsn h' m' s' 0 / 1000000000 % 60 = s' := by unfold ltFromHmsn NPH NPMin NPS; omega
        rw [a1, a2, a3]
        simp
      · cases h

/-- consequence: a text accepted by LocalTimePattern.general_iso consists of digits and `:` only — in particular it
    contains no NUL character and nothing after the seconds (section 7 row 18 cannot occur in the repaired model) -/
theorem iso_time_general_parsed_chars (l : Text) (nod : Int) (h : parseIsoTimeGeneral l = .ok (some nod)) :
    ∀ c ∈ l, isDigit c = true ∨ c = ':' := by
  have hv := C08aux_time_valid l nod h
  have e := iso_time_general_reformat l nod h
  rw [← e]
  unfold fmtIsoTimeGeneral
  rw [fmtHms_eq nod hv.1 hv.2]
  rw [format2_eq _ (by omega) (by omega), format2_eq _ (by omega) (by omega), format2_eq _ (by omega) (by omega)]
  intro c hc
  simp only [List.mem_append, List.mem_singleton] at hc
  rcases hc with (((hc | hc) | hc) | hc) | hc
  · left; exact padN_isDigit _ _ c hc
  · right; exact hc
  · left; exact padN_isDigit _ _ c hc
  · right; exact hc
  · left; exact padN_isDigit _ _ c hc
where
  C08aux_time_valid (l : Text) (nod : Int) (h : parseIsoTimeGeneral l = .ok (some nod)) :
      0 ≤ nod ∧ nod < 86400000000000 := by
    have e := iso_time_general_reformat l nod h
    unfold parseIsoTimeGeneral parseWhole at h
    split at h
    · cases h
    · unfold parseTimePartial at h
      cases ht : timeFields 23 .none l with
      | none => rw [ht] at h; cases h
      | some p =>
        obtain ⟨⟨hh, m, s, n⟩, rest⟩ := p
        rw [ht] at h
        dsimp only at h
        simp only [timeFields, fracPart, Option.bind_eq_bind, Option.bind_eq_some_iff, Option.pure_def, Option.some.injEq,
          Prod.mk.injEq, Prod.exists] at ht
        obtain ⟨h', l1, h1, l2, h2, m', l3, h3, l4, h4, s', l5, h5, n', l6, ⟨rfl, rfl⟩, ⟨⟨rfl, rfl, rfl, rfl⟩, rfl⟩⟩ := ht
        have r1 := parseField_bounds _ _ _ _ _ _ _ h1
        have r3 := parseField_bounds _ _ _ _ _ _ _ h3
        have r5 := parseField_bounds _ _ _ _ _ _ _ h5
        split at h
        · injection h with h; injection h with h
          rw [← h]; unfold ltFromHmsn NPH NPMin NPS; omega
        · cases h

/-! hypotheses are satisfiable on non-trivial values -/
example : parseIsoTime (fmtIsoTime 45296123000000) = .ok (some 45296123000000) :=
  iso_time_roundtrip _ (by decide) (by decide)
example : validDate 2024 2 29 := by decide
example : validDate (-9998) 1 1 := by decide
example : parseIsoDate (fmtIsoDate (-9998) 1 1) = .ok (some (-9998, 1, 1)) := iso_date_roundtrip _ _ _ (by decide)
example : parseOffG (fmtOffG (-34200)) = .ok (some (-34200)) := iso_offset_roundtrip _ (by decide) (by decide)

end Pyoda.C07
