/-
  C09 — `MonthStartLaws` (on the first of a month the years unit keeps day 1 and the months unit is exact) for the Badi
  and Hebrew calendars, so that `Period.between(YearMonth, YearMonth, units ∋ MONTHS)` reaches the end month in every
  calendar (`betweenYearMonths_laws`).
-/
import PyodaModel.DateArith
import PyodaProofs.C09All

namespace Pyoda.C09
open Pyoda Pyoda.Calendar Pyoda.DateArith Pyoda.C01

theorem badi_not_ah (s : Ymd) (hd : s.2.2 = 1) : BadiArith.inAyyamiHa s = false := by
  unfold BadiArith.inAyyamiHa; rw [hd]; simp

theorem monthStart_badi (hw : WF Badi.cal) : MonthStartLaws badiCal where
  years_day1 := by
    intro s n r hs hd ha
    have ha' : addYears badiCal s n = .ok r := ha
    unfold addYears at ha'
    by_cases h0 : n = 0
    · rw [if_pos h0] at ha'; cases ha'; exact hd
    · rw [if_neg h0] at ha'
      cases hc : checkRange n (badiCal.c.minYear - s.1) (badiCal.c.maxYear - s.1) with
      | error x => rw [hc] at ha'; cases ha'
      | ok u =>
        rw [hc] at ha'
        have ha'' : BadiArith.setYear Badi.cal s (s.1 + n) = .ok r := ha'
        unfold BadiArith.setYear at ha''
        cases hc2 : checkRange (s.1 + n) 1 1000 with
        | error x => rw [hc2] at ha''; cases ha''
        | ok u2 =>
          rw [hc2] at ha''
          dsimp only at ha''
          rw [badi_not_ah s hd] at ha''
          simp only [Bool.false_eq_true, if_false] at ha''
          cases ha''; exact hd
  months_exact := by
    intro s e hs he hd1 hd2
    obtain ⟨sy1, sy2, sm1, sm2, _, _⟩ := badi_valid_inv s hs
    obtain ⟨ey1, ey2, em1, em2, _, _⟩ := badi_valid_inv e he
    have hah := badi_not_ah s hd1
    have hcmp : ¬ (BadiArith.inAyyamiHa s = true ∧ cmpYmd Badi.cal e s < 0) := by rw [hah]; simp
    have key : ∃ r, BadiArith.addMonths Badi.cal s ((e.1 - s.1) * 19 + e.2.1 - s.2.1) = .ok r ∧ r = e := by
      by_cases h0 : (e.1 - s.1) * 19 + e.2.1 - s.2.1 = 0
      · rw [h0]
        refine ⟨s, by unfold BadiArith.addMonths; rw [if_pos rfl], ?_⟩
        exact Prod.ext (by omega) (Prod.ext (by omega) (by rw [hd1, hd2]))
      · have hm0 : s.2.1 = if BadiArith.inAyyamiHa s = true ∧ (e.1 - s.1) * 19 + e.2.1 - s.2.1 < 0 then s.2.1 + 1 else s.2.1 := by
          rw [hah]; simp
        obtain ⟨r, r1, r2, r3, r4⟩ := badi_addMonths_ok hw s hs _ h0 s.2.1 hm0 (by omega)
        obtain ⟨_, _, q1, q2, _, _⟩ := badi_valid_inv r r2
        rw [hah] at r4
        simp only [Bool.false_eq_true, if_false] at r4
        exact ⟨r, r1, Prod.ext (by omega) (Prod.ext (by omega) (by rw [r4, hd1, hd2]))⟩
    obtain ⟨r, r1, r2⟩ := key
    subst r2
    refine ⟨(r.1 - s.1) * 19 + r.2.1 - s.2.1, ?_, r1⟩
    show BadiArith.monthsBetween Badi.cal s r = _
    unfold BadiArith.monthsBetween
    dsimp only
    rw [if_neg hcmp, r1]
    dsimp only
    unfold correctByOne
    rw [cmp_self]
    simp only [Int.le_refl, if_true, ge_iff_le]
    split <;> rfl

/-! ## Hebrew -/

theorem hebPos_inj (scr : Bool) (a b : Ymd) (ha : Valid (Heb.cal scr) a) (hb : Valid (Heb.cal scr) b)
    (h : hebPos scr a = hebPos scr b) : a.1 = b.1 ∧ a.2.1 = b.2.1 := by
  have ra := hebPos_range scr a ha
  have rb := hebPos_range scr b hb
  have hy : a.1 = b.1 := by
    by_cases h1 : a.1 < b.1
    · have := hebBefore_step a.1 b.1 h1; omega
    · by_cases h2 : b.1 < a.1
      · have := hebBefore_step b.1 a.1 h2; omega
      · omega
  refine ⟨hy, ?_⟩
  obtain ⟨_, _, m1, m2, _⟩ := heb_valid_inv scr a ha
  obtain ⟨_, _, n1, n2, _⟩ := heb_valid_inv scr b hb
  have hc : Hebrew.toCivil scr a.1 a.2.1 = Hebrew.toCivil scr a.1 b.2.1 := by
    unfold hebPos at h; rw [← hy] at h; omega
  cases scr
  · exact hc
  · rw [← hy] at n2
    have sa := toScriptural_scr true a.1 a.2.1 ⟨m1, m2⟩
    have sb := toScriptural_scr true a.1 b.2.1 ⟨n1, n2⟩
    have fa := (fromScriptural_ok false a.1 a.2.1 sa).2.2
    have fb := (fromScriptural_ok false a.1 b.2.1 sb).2.2
    have hc' : Hebrew.fromScriptural false a.1 a.2.1 = Hebrew.fromScriptural false a.1 b.2.1 := hc
    rw [hc'] at fa
    rw [fa] at fb
    exact fb

theorem monthStart_hebrew (scr : Bool) (hw : WF (Heb.cal scr)) : MonthStartLaws (hebCal scr) where
  years_day1 := by
    intro s n r hs hd ha
    have ha' : addYears (hebCal scr) s n = .ok r := ha
    unfold addYears at ha'
    by_cases h0 : n = 0
    · rw [if_pos h0] at ha'; cases ha'; exact hd
    · rw [if_neg h0] at ha'
      cases hc : checkRange n ((hebCal scr).c.minYear - s.1) ((hebCal scr).c.maxYear - s.1) with
      | error x => rw [hc] at ha'; cases ha'
      | ok u =>
        rw [hc] at ha'
        have ha'' : Except.ok (Hebrew.setYear scr s (s.1 + n)) = Except.ok r := ha'
        cases ha''
        unfold Hebrew.setYear
        dsimp only
        rw [if_neg (by rw [hd]; omega)]
        exact hd
  months_exact := by
    intro s e hs he hd1 hd2
    obtain ⟨rT, t1, t2, t3, t5, hval, _, _⟩ := heb_monthsBetween_value scr hw s e hs he
    have hday : rT.2.2 = 1 := by
      obtain ⟨_, _, _, _, d1, _⟩ := heb_valid_inv scr rT t2
      by_cases h0 : hebPos scr e - hebPos scr s = 0
      · rw [t5 h0]; exact hd1
      · have rs := hebPos_range scr s hs
        have re := hebPos_range scr e he
        obtain ⟨Y, _, _, a3, a4⟩ := heb_addMonths_spec scr hw s hs _ h0 (by unfold decBound; omega)
        by_cases hY : 1 ≤ Y ∧ Y ≤ 9999
        · obtain ⟨r', q1, _, _, _, q5, _⟩ := a3 hY
          rw [t1] at q1; cases q1; omega
        · rw [a4 hY] at t1; cases t1
    have hre : rT = e := by
      obtain ⟨i1, i2⟩ := hebPos_inj scr rT e t2 he t3
      exact Prod.ext i1 (Prod.ext i2 (by rw [hday, hd2]))
    subst hre
    refine ⟨hebPos scr rT - hebPos scr s, ?_, t1⟩
    show Hebrew.monthsBetween scr (Heb.cal scr) s rT = _
    rw [hval, cmp_self]
    simp only [Int.le_refl, if_true, ge_iff_le]
    split <;> rfl

/-- `MonthStartLaws` for every calendar ordinal -/
theorem monthStart_all (H : Evaluated) (n : Nat) (k : Cal) (hk : Cal.ofOrd n = some k) : MonthStartLaws k := by
  obtain ⟨i1, i2, i3, i4, i5, i6, i7, i8⟩ := regular_islamic_all
  have hn : n < 19 := by
    by_cases h : n < 19
    · exact h
    · have : calcOf n = none := by
        unfold calcOf
        split <;> first | rfl | omega
      unfold Cal.ofOrd at hk; rw [this] at hk; cases hk
  have cases19 : n = 0 ∨ n = 1 ∨ n = 2 ∨ n = 3 ∨ n = 4 ∨ n = 5 ∨ n = 6 ∨ n = 7 ∨ n = 8 ∨ n = 9 ∨ n = 10 ∨ n = 11 ∨
      n = 12 ∨ n = 13 ∨ n = 14 ∨ n = 15 ∨ n = 16 ∨ n = 17 ∨ n = 18 := by omega
  rcases cases19 with rfl | rfl | rfl | rfl | rfl | rfl | rfl | rfl | rfl | rfl | rfl | rfl | rfl | rfl | rfl | rfl | rfl | rfl | rfl <;>
    (have hk' := (Option.some.inj hk).symm; subst hk')
  · exact monthStart_regular _ 12 regular_gregorian
  · exact monthStart_regular _ 12 ⟨rfl, greg_wf, Or.inl rfl, fun _ => rfl, rfl⟩
  · exact monthStart_regular _ 12 regular_julian
  · exact monthStart_regular _ 13 regular_coptic
  · exact monthStart_hebrew false (wfCheck_sound _ H.wf_hebrewCivil)
  · exact monthStart_hebrew true (wfCheck_sound _ H.wf_hebrewScriptural)
  · exact monthStart_regular _ 12 regular_persianSimple
  · exact monthStart_regular _ 12 regular_persianArithmetic
  · exact monthStart_regular _ 12 (regular_persianAstronomical H.wf_persianAstronomical)
  · exact monthStart_regular _ 12 i1
  · exact monthStart_regular _ 12 i2
  · exact monthStart_regular _ 12 i3
  · exact monthStart_regular _ 12 i4
  · exact monthStart_regular _ 12 i5
  · exact monthStart_regular _ 12 i6
  · exact monthStart_regular _ 12 i7
  · exact monthStart_regular _ 12 i8
  · exact monthStart_regular _ 12 (regular_umAlQura H.wf_umAlQura)
  · exact monthStart_badi (wfCheck_sound _ H.wf_badi)

end Pyoda.C09
