/- Helper lemmas for C17Read: the stdlib reader model (`PyIsoParse`) on texts made of zero-padded digit groups. -/
import PyodaModel.Text.PyIsoParse
import PyodaProofs.TextLemmas
import PyodaProofs.TextIsoLemmas
import PyodaProofs.C17

namespace Pyoda.Text

/-! ### `int()` on digit groups -/

theorem digitsVal_eq (l : Text) : digitsVal l = digitsValue 0 l := rfl

theorem all_isDigit_padN (n v : Nat) : (padN n v).all isDigit = true := by
  rw [List.all_eq_true]; exact padN_isDigit n v

theorem padN_ne_nil (n v : Nat) (hn : 1 ≤ n) : padN n v ≠ [] := by
  intro h
  have := length_padN n v
  rw [h] at this; simp at this; omega

theorem pyInt_padN (n v : Nat) (hn : 1 ≤ n) (hv : v < 10 ^ n) : pyInt (padN n v) = .ok (v : Int) := by
  unfold pyInt
  rw [if_neg (padN_ne_nil n v hn), if_pos (all_isDigit_padN n v), digitsVal_eq, digitsValue_padN n v 0 hv]
  simp

/-- a digit is none of the punctuation characters the readers look for -/
theorem isDigit_ne (c : Char) (h : isDigit c = true) :
    c ≠ '-' ∧ c ≠ '+' ∧ c ≠ 'Z' ∧ c ≠ 'W' ∧ c ≠ ':' ∧ c ≠ '.' ∧ c ≠ ',' ∧ c ≠ 'T' := by
  refine ⟨?_, ?_, ?_, ?_, ?_, ?_, ?_, ?_⟩ <;> (intro e; rw [e] at h; revert h; decide)

theorem padN_two (v : Nat) : padN 2 v = [digitChar (v / 10 % 10), digitChar (v % 10)] := by
  simp [padN, digitsLE]

theorem padN_four (v : Nat) :
    padN 4 v = [digitChar (v / 10 / 10 / 10 % 10), digitChar (v / 10 / 10 % 10), digitChar (v / 10 % 10), digitChar (v % 10)] := by
  simp [padN, digitsLE]

/-! ### dates -/

theorem pyParseIsoformatDate_explicit (y1 y2 y3 y4 m1 m2 d1 d2 : Char) (Y M D : Int)
    (hm1 : isDigit m1 = true)
    (hy : pyInt [y1, y2, y3, y4] = .ok Y) (hm : pyInt [m1, m2] = .ok M) (hd : pyInt [d1, d2] = .ok D) :
    pyParseIsoformatDate [y1, y2, y3, y4, '-', m1, m2, '-', d1, d2] = .ok (Y, M, D) := by
  have hW : m1 ≠ 'W' := (isDigit_ne m1 hm1).2.2.2.1
  unfold pyParseIsoformatDate
  simp [hy, hm, hd, hW, bind, Except.bind, pure, Except.pure]

/-- the ISO date text of the model formatter, as explicit characters -/
theorem fmtIsoDate_chars (y m d : Int) (hy0 : 0 ≤ y) (hy1 : y ≤ 9999) (hm0 : 0 ≤ m) (hm1 : m ≤ 99)
    (hd0 : 0 ≤ d) (hd1 : d ≤ 99) :
    ∃ y1 y2 y3 y4 m1 m2 d1 d2 : Char,
      fmtIsoDate y m d = [y1, y2, y3, y4, '-', m1, m2, '-', d1, d2] ∧
      isDigit m1 = true ∧ pyInt [y1, y2, y3, y4] = .ok y ∧ pyInt [m1, m2] = .ok m ∧ pyInt [d1, d2] = .ok d := by
  have e := (C17.isoDate_fixed_width y m d hy0 hy1 hm0 hm1 hd0 hd1).1
  have py := pyInt_padN 4 y.toNat (by decide) (by omega)
  have pm := pyInt_padN 2 m.toNat (by decide) (by omega)
  have pd := pyInt_padN 2 d.toNat (by decide) (by omega)
  rw [padN_four] at py
  rw [padN_two] at pm pd
  rw [padN_four, padN_two, padN_two] at e
  refine ⟨_, _, _, _, _, _, _, _, e, isDigit_digitChar _, ?_, ?_, ?_⟩
  · rw [py]; congr 1; omega
  · rw [pm]; congr 1; omega
  · rw [pd]; congr 1; omega



theorem pyHmsLoop_hms (h1 h2 m1 m2 s1 s2 : Char) (H M S : Int) (frac : Text)
    (hh : pyInt [h1, h2] = .ok H) (hm : pyInt [m1, m2] = .ok M) (hs : pyInt [s1, s2] = .ok S) :
    pyHmsLoop 0 false [] ([h1, h2, ':', m1, m2, ':', s1, s2] ++ frac) 3 = .ok ([H, M, S], frac) := by
  simp [pyHmsLoop, hh, hm, hs]
  rw [if_neg (by omega), if_neg (by omega), if_neg (by omega)]

theorem pyHmsLoop_hm (h1 h2 m1 m2 : Char) (H M : Int)
    (hh : pyInt [h1, h2] = .ok H) (hm : pyInt [m1, m2] = .ok M) :
    pyHmsLoop 0 false [] [h1, h2, ':', m1, m2] 3 = .ok ([H, M], []) := by
  simp [pyHmsLoop, hh, hm]

theorem pyHmsLoop_h (h1 h2 : Char) (H : Int) (hh : pyInt [h1, h2] = .ok H) :
    pyHmsLoop 0 false [] [h1, h2] 3 = .ok ([H], []) := by
  simp [pyHmsLoop, hh]



theorem pyFraction_nil : pyFraction [] = .ok 0 := rfl

theorem pyFraction_short (k r : Nat) (hk1 : 1 ≤ k) (hk6 : k ≤ 6) (hr : r < 10 ^ k) :
    pyFraction ('.' :: padN k r) = .ok ((r * 10 ^ (6 - k) : Nat) : Int) := by
  unfold pyFraction
  simp only [length_padN]
  have ht : (if k ≥ 6 then 6 else k) = k := by split <;> omega
  rw [ht, List.take_of_length_le (by rw [length_padN]; omega), pyInt_padN k r hk1 hr]
  simp
  intro h6
  have : k = 6 := by omega
  subst this; simp

theorem pyFraction_long (j r : Nat) (hj1 : 1 ≤ j) (hr : r < 10 ^ (6 + j)) :
    pyFraction ('.' :: padN (6 + j) r) = .ok ((r / 10 ^ j : Nat) : Int) := by
  have hq : r / 10 ^ j < 10 ^ 6 := by
    rw [Nat.pow_add] at hr
    exact Nat.div_lt_of_lt_mul (by rw [Nat.mul_comm]; exact hr)
  unfold pyFraction
  rw [C17.padN_add 6 j r]
  simp only [List.length_append, length_padN]
  have ht : (if 6 + j ≥ 6 then 6 else 6 + j) = 6 := by split <;> omega
  rw [ht, List.take_left' (length_padN 6 _), pyInt_padN 6 _ (by decide) hq, List.drop_left' (length_padN 6 _)]
  simp [all_isDigit_padN]



theorem pyFraction_trunc (k r : Nat) (hk1 : 1 ≤ k) (hk9 : k ≤ 9) (hr : r < 10 ^ k) :
    pyFraction ('.' :: padN k r) = .ok ((r * 10 ^ (9 - k) / 1000 : Nat) : Int) := by
  have hk : k = 1 ∨ k = 2 ∨ k = 3 ∨ k = 4 ∨ k = 5 ∨ k = 6 ∨ k = 7 ∨ k = 8 ∨ k = 9 := by omega
  rcases hk with h | h | h | h | h | h | h | h | h <;> subst h
  · rw [pyFraction_short 1 r (by decide) (by decide) hr]; congr 2; simp <;> omega
  · rw [pyFraction_short 2 r (by decide) (by decide) hr]; congr 2; simp <;> omega
  · rw [pyFraction_short 3 r (by decide) (by decide) hr]; congr 2; simp <;> omega
  · rw [pyFraction_short 4 r (by decide) (by decide) hr]; congr 2; simp <;> omega
  · rw [pyFraction_short 5 r (by decide) (by decide) hr]; congr 2; simp <;> omega
  · rw [pyFraction_short 6 r (by decide) (by decide) hr]; congr 2; simp <;> omega
  · rw [pyFraction_long 1 r (by decide) hr]; congr 2; simp <;> omega
  · rw [pyFraction_long 2 r (by decide) hr]; congr 2; simp <;> omega
  · rw [pyFraction_long 3 r (by decide) hr]; congr 2; simp

theorem pyHhMmSsFf_hms (h1 h2 m1 m2 s1 s2 : Char) (H M S f : Int) (frac : Text)
    (hh : pyInt [h1, h2] = .ok H) (hm : pyInt [m1, m2] = .ok M) (hs : pyInt [s1, s2] = .ok S)
    (hf : pyFraction frac = .ok f) :
    pyHhMmSsFf ([h1, h2, ':', m1, m2, ':', s1, s2] ++ frac) = .ok (H, M, S, f) := by
  unfold pyHhMmSsFf
  rw [pyHmsLoop_hms h1 h2 m1 m2 s1 s2 H M S frac hh hm hs]
  simp [hf]

theorem pyHhMmSsFf_hm (h1 h2 m1 m2 : Char) (H M : Int)
    (hh : pyInt [h1, h2] = .ok H) (hm : pyInt [m1, m2] = .ok M) :
    pyHhMmSsFf [h1, h2, ':', m1, m2] = .ok (H, M, 0, 0) := by
  unfold pyHhMmSsFf
  rw [pyHmsLoop_hm h1 h2 m1 m2 H M hh hm]
  simp [pyFraction]

theorem pyHhMmSsFf_h (h1 h2 : Char) (H : Int) (hh : pyInt [h1, h2] = .ok H) :
    pyHhMmSsFf [h1, h2] = .ok (H, 0, 0, 0) := by
  unfold pyHhMmSsFf
  rw [pyHmsLoop_h h1 h2 H hh]
  simp [pyFraction]

/-! ### finding the zone designator -/

theorem findPlus1_none (c : Char) (l : Text) (h : ∀ x ∈ l, x ≠ c) : findPlus1 c l = 0 := by
  induction l with
  | nil => rfl
  | cons d r ih =>
    have hd : d ≠ c := h d (by simp)
    have := ih (fun x hx => h x (by simp [hx]))
    simp [findPlus1, hd, this]

theorem findPlus1_append (c : Char) (pre post : Text) (h : ∀ x ∈ pre, x ≠ c) :
    findPlus1 c (pre ++ c :: post) = pre.length + 1 := by
  induction pre with
  | nil => simp [findPlus1]
  | cons d r ih =>
    have hd : d ≠ c := h d (by simp)
    have := ih (fun x hx => h x (by simp [hx]))
    simp [findPlus1, hd, this]

/-- characters of a time text without zone: digits, `:` and `.` -/
def TimeChars (l : Text) : Prop := ∀ c ∈ l, isDigit c = true ∨ c = ':' ∨ c = '.'

theorem TimeChars.ne {l : Text} (h : TimeChars l) : ∀ x ∈ l, x ≠ '-' ∧ x ≠ '+' ∧ x ≠ 'Z' := by
  intro x hx
  rcases h x hx with hd | rfl | rfl
  · have := isDigit_ne x hd; exact ⟨this.1, this.2.1, this.2.2.1⟩
  · decide
  · decide



theorem pyParseIsoformatTime_plain (T : Text) (h m s us : Int) (hT : TimeChars T) (hlen : 2 ≤ T.length)
    (hp : pyHhMmSsFf T = .ok (h, m, s, us)) : pyParseIsoformatTime T = .ok (h, m, s, us, none) := by
  have n1 := findPlus1_none '-' T (fun x hx => (hT.ne x hx).1)
  have n2 := findPlus1_none '+' T (fun x hx => (hT.ne x hx).2.1)
  have n3 := findPlus1_none 'Z' T (fun x hx => (hT.ne x hx).2.2)
  have hl : ¬ T.length < 2 := by omega
  have hl0 : ¬ (0 = T.length) := by omega
  unfold pyParseIsoformatTime
  simp [n1, n2, n3, hp, hl, hl0]

theorem pyParseIsoformatTime_Z (T : Text) (h m s us : Int) (hT : TimeChars T) (hlen : 2 ≤ T.length)
    (hp : pyHhMmSsFf T = .ok (h, m, s, us)) : pyParseIsoformatTime (T ++ ['Z']) = .ok (h, m, s, us, some 0) := by
  have n1 : findPlus1 '-' (T ++ ['Z']) = 0 := findPlus1_none '-' _ (by
    intro x hx; rw [List.mem_append] at hx
    rcases hx with hx | hx
    · exact (hT.ne x hx).1
    · simp at hx; rw [hx]; decide)
  have n2 : findPlus1 '+' (T ++ ['Z']) = 0 := findPlus1_none '+' _ (by
    intro x hx; rw [List.mem_append] at hx
    rcases hx with hx | hx
    · exact (hT.ne x hx).2.1
    · simp at hx; rw [hx]; decide)
  have n3 : findPlus1 'Z' (T ++ ['Z']) = T.length + 1 := findPlus1_append 'Z' T [] (fun x hx => (hT.ne x hx).2.2)
  have hl : ¬ (T ++ ['Z']).length < 2 := by simp; omega
  unfold pyParseIsoformatTime
  rw [if_neg hl]
  simp only [n1, n2, n3]
  simp [hp]

theorem pyParseIsoformatTime_offset (T O : Text) (sg : Char) (h m s us th tm ts tus : Int)
    (hsg : sg = '-' ∨ sg = '+') (hT : TimeChars T) (hO : TimeChars O) (hlen : 2 ≤ T.length)
    (hOlen : O.length = 2 ∨ O.length = 5)
    (hp : pyHhMmSsFf T = .ok (h, m, s, us)) (ho : pyHhMmSsFf O = .ok (th, tm, ts, tus))
    (hr0 : 0 ≤ th * 3600000000 + tm * 60000000 + ts * 1000000 + tus)
    (hr1 : th * 3600000000 + tm * 60000000 + ts * 1000000 + tus < 86400000000) :
    pyParseIsoformatTime (T ++ sg :: O) =
      .ok (h, m, s, us, some (if sg = '-' then -(th * 3600000000 + tm * 60000000 + ts * 1000000 + tus)
                               else th * 3600000000 + tm * 60000000 + ts * 1000000 + tus)) := by
  have hpos : (if findPlus1 '-' (T ++ sg :: O) ≠ 0 then findPlus1 '-' (T ++ sg :: O)
               else if findPlus1 '+' (T ++ sg :: O) ≠ 0 then findPlus1 '+' (T ++ sg :: O)
               else findPlus1 'Z' (T ++ sg :: O)) = T.length + 1 := by
    rcases hsg with rfl | rfl
    · rw [findPlus1_append '-' T O (fun x hx => (hT.ne x hx).1)]; simp
    · have n1 : findPlus1 '-' (T ++ '+' :: O) = 0 := findPlus1_none '-' _ (by
        intro x hx; rw [List.mem_append] at hx
        rcases hx with hx | hx
        · exact (hT.ne x hx).1
        · rw [List.mem_cons] at hx
          rcases hx with rfl | hx
          · decide
          · exact (hO.ne x hx).1)
      rw [n1, findPlus1_append '+' T O (fun x hx => (hT.ne x hx).2.1)]; simp
  have hl : ¬ (T ++ sg :: O).length < 2 := by simp; omega
  unfold pyParseIsoformatTime
  rw [if_neg hl]
  dsimp only
  rw [hpos]
  have e1 : List.take (T.length + 1 - 1) (T ++ sg :: O) = T := by simp
  have e2 : List.drop (T.length + 1) (T ++ sg :: O) = O := by
    rw [show T ++ sg :: O = (T ++ [sg]) ++ O by simp]
    exact List.drop_left' (by simp)
  have e3 : (List.drop (T.length + 1 - 1) (T ++ sg :: O)).head? = some sg := by simp
  have e4 : ¬ (T.length + 1 = (T ++ sg :: O).length ∧ (T ++ sg :: O).getLast? = some 'Z') := by
    intro ⟨hh, _⟩; rw [List.length_append, List.length_cons] at hh; omega
  have e5 : ¬ (O.length = 0 ∨ O.length = 1 ∨ O.length = 3) := by omega
  rw [if_pos (by omega), e1, hp]
  simp only []
  rw [if_neg e4, if_pos (by omega), e2, if_neg e5, ho]
  simp only [e3]
  by_cases hz : th = 0 ∧ tm = 0 ∧ ts = 0 ∧ tus = 0
  · rw [if_pos hz]
    obtain ⟨a, b, c, d⟩ := hz
    subst a b c d; simp
  · rw [if_neg hz]
    unfold US_PER_DAY
    rcases hsg with rfl | rfl
    · simp; omega
    · simp; omega



/-! ### the time texts of the model formatters -/

/-- a zone-less time text that `_parse_hh_mm_ss_ff` reads as (H, M, S, us) -/
def IsTimeText (T : Text) (H M S us : Int) : Prop :=
  TimeChars T ∧ 2 ≤ T.length ∧ pyHhMmSsFf T = .ok (H, M, S, us)

theorem timeChars_append {a b : Text} (ha : TimeChars a) (hb : TimeChars b) : TimeChars (a ++ b) := by
  intro c hc; rw [List.mem_append] at hc
  rcases hc with h | h
  · exact ha c h
  · exact hb c h

theorem timeChars_padN (n v : Nat) : TimeChars (padN n v) := fun c hc => Or.inl (padN_isDigit n v c hc)

theorem timeChars_dot_padN (n v : Nat) : TimeChars ('.' :: padN n v) := by
  intro c hc; rw [List.mem_cons] at hc
  rcases hc with rfl | h
  · right; right; rfl
  · exact Or.inl (padN_isDigit n v c h)

theorem timeChars_colon : TimeChars [':'] := by
  intro c hc; simp at hc; right; left; exact hc

theorem fmtHms_parts (nod : Int) (h0 : 0 ≤ nod) (h1 : nod < 86400000000000) :
    ∃ h1 h2 m1 m2 s1 s2 : Char, fmtHms nod = [h1, h2, ':', m1, m2, ':', s1, s2] ∧ TimeChars (fmtHms nod) ∧
      pyInt [h1, h2] = .ok (nod / 3600000000000) ∧ pyInt [m1, m2] = .ok (nod / 60000000000 % 60) ∧
      pyInt [s1, s2] = .ok (nod / 1000000000 % 60) := by
  have e := (C17.isoTime_fixed_width nod h0 h1).1
  have tc : TimeChars (fmtHms nod) := by
    rw [e]
    exact timeChars_append (timeChars_append (timeChars_append (timeChars_append (timeChars_padN _ _) timeChars_colon)
      (timeChars_padN _ _)) timeChars_colon) (timeChars_padN _ _)
  have ph := pyInt_padN 2 (nod / 3600000000000).toNat (by decide) (by omega)
  have pm := pyInt_padN 2 (nod / 60000000000 % 60).toNat (by decide) (by omega)
  have ps := pyInt_padN 2 (nod / 1000000000 % 60).toNat (by decide) (by omega)
  rw [padN_two] at ph pm ps
  rw [padN_two, padN_two, padN_two] at e
  refine ⟨_, _, _, _, _, _, e, tc, ?_, ?_, ?_⟩
  · rw [ph]; congr 1; omega
  · rw [pm]; congr 1; omega
  · rw [ps]; congr 1; omega

theorem isTimeText_of_frac (nod : Int) (h0 : 0 ≤ nod) (h1 : nod < 86400000000000) (frac : Text) (f : Int)
    (hc : TimeChars frac) (hf : pyFraction frac = .ok f) :
    IsTimeText (fmtHms nod ++ frac) (nod / 3600000000000) (nod / 60000000000 % 60) (nod / 1000000000 % 60) f := by
  obtain ⟨a1, a2, b1, b2, c1, c2, e, tc, ph, pm, ps⟩ := fmtHms_parts nod h0 h1
  refine ⟨timeChars_append tc hc, ?_, ?_⟩
  · rw [e]; simp
  · rw [e]; exact pyHhMmSsFf_hms a1 a2 b1 b2 c1 c2 _ _ _ f frac ph pm ps hf

/-- the extended ISO time text is `HH:mm:ss` alone or followed by `.` and the fraction's digits up to the last non-zero one -/
theorem fmtIsoTime_cases (nod : Int) (h0 : 0 ≤ nod) (h1 : nod < 86400000000000) :
    (nod % 1000000000 = 0 ∧ fmtIsoTime nod = fmtHms nod) ∨
    (∃ r k : Nat, 1 ≤ k ∧ k ≤ 9 ∧ (nod % 1000000000).toNat = r * 10 ^ (9 - k) ∧ r < 10 ^ k ∧
      fmtIsoTime nod = fmtHms nod ++ '.' :: padN k r) := by
  obtain ⟨_, _, _, e4⟩ := time_accessors nod h0 h1
  have hcast : nod % 1000000000 = (((nod % 1000000000).toNat : Nat) : Int) := by omega
  unfold fmtIsoTime fmtIsoTimeOn
  rw [e4, List.nil_append, hcast]
  have hv : (nod % 1000000000).toNat < 10 ^ 9 := by
    have : (10 : Nat) ^ 9 = 1000000000 := by decide
    omega
  rcases appendFractionTruncate_spec (nod % 1000000000).toNat 9 9 (nod % 1000000000).toNat (fmtHms nod ++ ['.'])
      (Nat.le_refl _) hv (by simp) with ⟨hz, e⟩ | ⟨r, k, hk1, hk2, hrr, _, hlt, e⟩
  · left
    refine ⟨by omega, ?_⟩
    rw [e]; simp
  · right
    refine ⟨r, k, hk1, hk2, ?_, hlt, ?_⟩
    · exact hrr
    · rw [e]; simp

theorem isTimeText_fmtIsoTime (nod : Int) (h0 : 0 ≤ nod) (h1 : nod < 86400000000000) :
    IsTimeText (fmtIsoTime nod) (nod / 3600000000000) (nod / 60000000000 % 60) (nod / 1000000000 % 60)
      (nod % 1000000000 / 1000) := by
  rcases fmtIsoTime_cases nod h0 h1 with ⟨hz, e⟩ | ⟨r, k, hk1, hk2, hrr, hlt, e⟩
  · rw [e, ← List.append_nil (fmtHms nod)]
    have : nod % 1000000000 / 1000 = 0 := by omega
    rw [this]
    exact isTimeText_of_frac nod h0 h1 [] 0 (by intro c hc; simp at hc) pyFraction_nil
  · rw [e]
    refine isTimeText_of_frac nod h0 h1 _ _ (timeChars_dot_padN k r) ?_
    rw [pyFraction_trunc k r hk1 hk2 hlt, ← hrr]
    congr 1; omega

theorem isTimeText_fmtIsoTimeGeneral (nod : Int) (h0 : 0 ≤ nod) (h1 : nod < 86400000000000) :
    IsTimeText (fmtIsoTimeGeneral nod) (nod / 3600000000000) (nod / 60000000000 % 60) (nod / 1000000000 % 60) 0 := by
  unfold fmtIsoTimeGeneral
  rw [← List.append_nil (fmtHms nod)]
  exact isTimeText_of_frac nod h0 h1 [] 0 (by intro c hc; simp at hc) pyFraction_nil

theorem isTimeText_fmtIsoTimeLong (nod : Int) (h0 : 0 ≤ nod) (h1 : nod < 86400000000000) :
    IsTimeText (fmtIsoTimeLong nod) (nod / 3600000000000) (nod / 60000000000 % 60) (nod / 1000000000 % 60)
      (nod % 1000000000 / 1000) := by
  rw [(C17.long_form_nine_digits nod h0 h1).1, List.append_assoc]
  refine isTimeText_of_frac nod h0 h1 _ _ (timeChars_dot_padN 9 _) ?_
  have hv : (nod % 1000000000).toNat < 10 ^ 9 := by
    have : (10 : Nat) ^ 9 = 1000000000 := by decide
    omega
  show pyFraction ('.' :: padN 9 _) = _
  rw [pyFraction_trunc 9 _ (by decide) (by decide) hv]
  congr 1; simp; omega



theorem removePrefixT_timeChars (T : Text) (hT : TimeChars T) : removePrefixT T = T := by
  cases T with
  | nil => rfl
  | cons c r =>
    have hc : c ≠ 'T' := by
      rcases hT c (by simp) with h | rfl | rfl
      · exact (isDigit_ne c h).2.2.2.2.2.2.2
      · decide
      · decide
    simp [removePrefixT, hc]

theorem pyCheckTime_ok (nod us : Int) (h0 : 0 ≤ nod) (h1 : nod < 86400000000000) (hu0 : 0 ≤ us) (hu1 : us ≤ 999999) :
    pyCheckTime (nod / 3600000000000) (nod / 60000000000 % 60) (nod / 1000000000 % 60) us = .ok () := by
  unfold pyCheckTime
  rw [if_pos (by omega)]

theorem pyCheckDate_ok (y m d : Int) (hy0 : 1 ≤ y) (hy1 : y ≤ 9999) (hm0 : 1 ≤ m) (hm1 : m ≤ 12)
    (hd0 : 1 ≤ d) (hd1 : d ≤ daysInMonth y m) : pyCheckDate y m d = .ok () := by
  unfold pyCheckDate; rw [if_pos ⟨hy0, hy1, hm0, hm1, hd0, hd1⟩]

/-- `time.fromisoformat` on a time text followed by a zone part `Z` (`Z ≠ 'T'…`): reduces to `_parse_isoformat_time` -/
theorem pyParseTime_of (X : Text) (h mi s us : Int) (tz : Option Int) (hX : removePrefixT X = X)
    (hp : pyParseIsoformatTime X = .ok (h, mi, s, us, tz)) (hc : pyCheckTime h mi s us = .ok ()) :
    pyParseTime X = .ok (h, mi, s, us, tz) := by
  unfold pyParseTime
  simp [hX, hp, hc, allToValueError, bind, Except.bind, pure, Except.pure]

theorem removePrefixT_append (T S : Text) (hT : TimeChars T) (hne : T ≠ []) : removePrefixT (T ++ S) = T ++ S := by
  cases T with
  | nil => exact absurd rfl hne
  | cons c r =>
    have hc : c ≠ 'T' := by
      rcases hT c (by simp) with h | rfl | rfl
      · exact (isDigit_ne c h).2.2.2.2.2.2.2
      · decide
      · decide
    simp [removePrefixT, hc]

/-- `datetime.fromisoformat` on an ISO date, `T`, and a non-empty time part -/
theorem pyParseDateTime_of (y m d : Int) (hy0 : 1 ≤ y) (hy1 : y ≤ 9999) (hm0 : 1 ≤ m) (hm1 : m ≤ 12)
    (hd0 : 1 ≤ d) (hd1 : d ≤ daysInMonth y m) (X : Text) (h mi s us : Int) (tz : Option Int) (hX : X ≠ [])
    (hp : pyParseIsoformatTime X = .ok (h, mi, s, us, tz)) (hc : pyCheckTime h mi s us = .ok ()) :
    pyParseDateTime (fmtIsoDate y m d ++ 'T' :: X) = .ok (y, m, d, h, mi, s, us, tz) := by
  have hb := (daysInMonth_bounds y m).2
  obtain ⟨y1, y2, y3, y4, m1, m2, d1, d2, e, hdm, py, pm, pd⟩ :=
    fmtIsoDate_chars y m d (by omega) hy1 (by omega) (by omega) (by omega) (by omega)
  have hW : m1 ≠ 'W' := (isDigit_ne m1 hdm).2.2.2.1
  have hcd := pyCheckDate_ok y m d hy0 hy1 hm0 hm1 hd0 hd1
  have hpd := pyParseIsoformatDate_explicit y1 y2 y3 y4 m1 m2 d1 d2 y m d hdm py pm pd
  rw [e]
  unfold pyParseDateTime pyFindSeparator
  simp [hW, hpd, hp, hc, hcd, hX, bind, Except.bind, pure, Except.pure]



/-- the `g` offset text for whole minutes: a sign and `HH` or `HH:mm`, which `_parse_hh_mm_ss_ff` reads back -/
theorem fmtOffG_parts (s : Int) (h0 : -64800 ≤ s) (h1 : s ≤ 64800) (hmin : s % 60 = 0) :
    ∃ (O : Text) (th tm : Int), fmtOffG s = (if s < 0 then '-' else '+') :: O ∧ TimeChars O ∧
      (O.length = 2 ∨ O.length = 5) ∧ pyHhMmSsFf O = .ok (th, tm, 0, 0) ∧
      th * 3600 + tm * 60 = (s.natAbs : Int) := by
  have hA : (s.natAbs : Int) ≤ 64800 := by omega
  rcases C17.offset_shape s h0 h1 with ⟨ha, e⟩ | ⟨ha, hb, e⟩ | ⟨ha, _⟩
  · have ph := pyInt_padN 2 ((s.natAbs : Int) / 3600).toNat (by decide) (by omega)
    rw [padN_two] at ph
    refine ⟨padN 2 ((s.natAbs : Int) / 3600).toNat, (s.natAbs : Int) / 3600, 0, e, timeChars_padN _ _,
      Or.inl (length_padN _ _), ?_, by omega⟩
    rw [padN_two]
    refine pyHhMmSsFf_h _ _ _ ?_
    rw [ph]; congr 1 <;> omega
  · have ph := pyInt_padN 2 ((s.natAbs : Int) / 3600).toNat (by decide) (by omega)
    have pm := pyInt_padN 2 ((s.natAbs : Int) / 60 % 60).toNat (by decide) (by omega)
    rw [padN_two] at ph pm
    refine ⟨padN 2 ((s.natAbs : Int) / 3600).toNat ++ [':'] ++ padN 2 ((s.natAbs : Int) / 60 % 60).toNat,
      (s.natAbs : Int) / 3600, (s.natAbs : Int) / 60 % 60, e,
      timeChars_append (timeChars_append (timeChars_padN _ _) timeChars_colon) (timeChars_padN _ _),
      Or.inr (by simp [length_padN]), ?_, by omega⟩
    rw [padN_two, padN_two]
    refine pyHhMmSsFf_hm _ _ _ _ _ _ ?_ ?_
    · rw [ph]; congr 1 <;> omega
    · rw [pm]; congr 1 <;> omega
  · exfalso; omega

theorem pyParseIsoformatTime_offG (T : Text) (H M S us : Int) (hT : IsTimeText T H M S us)
    (s : Int) (h0 : -64800 ≤ s) (h1 : s ≤ 64800) (hmin : s % 60 = 0) :
    pyParseIsoformatTime (T ++ fmtOffG s) = .ok (H, M, S, us, some (s * 1000000)) := by
  obtain ⟨O, th, tm, e, hO, hlen, hp, hv⟩ := fmtOffG_parts s h0 h1 hmin
  obtain ⟨tc, tl, tp⟩ := hT
  rw [e]
  rw [pyParseIsoformatTime_offset T O _ H M S us th tm 0 0 (by split <;> simp) tc hO tl hlen tp hp (by omega) (by omega)]
  congr 3
  by_cases hs : s < 0
  · simp [hs]; omega
  · simp [hs]; omega

theorem pyParseIsoformatTime_offGZ (T : Text) (H M S us : Int) (hT : IsTimeText T H M S us)
    (s : Int) (h0 : -64800 ≤ s) (h1 : s ≤ 64800) (hmin : s % 60 = 0) :
    pyParseIsoformatTime (T ++ fmtOffGZ s) = .ok (H, M, S, us, some (s * 1000000)) := by
  unfold fmtOffGZ
  by_cases hs : s = 0
  · rw [if_pos hs, hs]
    exact pyParseIsoformatTime_Z T H M S us hT.1 hT.2.1 hT.2.2
  · rw [if_neg hs]
    exact pyParseIsoformatTime_offG T H M S us hT s h0 h1 hmin

theorem timeText_ne_nil {T : Text} {H M S us : Int} (hT : IsTimeText T H M S us) : T ≠ [] := by
  intro h; have := hT.2.1; rw [h] at this; simp at this

theorem pyInt_usec_bounds (nod : Int) (_h0 : 0 ≤ nod) :
    0 ≤ nod % 1000000000 / 1000 ∧ nod % 1000000000 / 1000 ≤ 999999 := by omega


end Pyoda.Text
