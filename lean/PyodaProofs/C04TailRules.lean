/-
  C04, recurring tail — concrete part: a yearly rule whose occurrence in every year `lo … hi` falls inside that
  (local) year behaves as an increasing transition sequence (`RecSpec`).  The per-year facts are decidable and are
  evaluated on the current data by the model driver (`tail.ok`); `tailOK_sound` turns the evaluated check into the
  hypotheses of `altmap_partition`.
  Uses the Gregorian year search of the Calendar area (`getYear_spec`, `greg_wf`).
-/
import PyodaModel.ZoneOps
import PyodaProofs.C04Tail
import PyodaProofs.C01Instances

namespace Pyoda.C04
open Pyoda Pyoda.Zone

def ysNs (y : Int) : Int := Calendar.Greg.start y * NPD

/-- the yearly rule's occurrence lies inside its own local year, for every year of `lo … hi` -/
structure RuleOK (yo : YearOffset) (occ : Int → Int) (lo hi : Int) : Prop where
  range : -9998 < lo ∧ hi + 3 ≤ 9999
  ok : ∀ y, lo ≤ y → y ≤ hi → yo.occurrence y = .ok (occ y)
  inYear : ∀ y, lo ≤ y → y ≤ hi → ysNs y ≤ occ y ∧ occ y < ysNs (y + 1)

theorem greg_year_of (d y : Int) (hy : -9998 ≤ y) (hy2 : y ≤ 9999)
    (hs : Calendar.Greg.start y ≤ d) (he : d < Calendar.Greg.start (y + 1)) : yearOfDays d = .ok y := by
  unfold yearOfDays
  rw [C01.getYear_spec C01.greg_wf d y hy hy2 hs he]
  rfl

theorem greg_step (y : Int) :
    Calendar.Greg.start y + 365 ≤ Calendar.Greg.start (y + 1) ∧ Calendar.Greg.start (y + 1) ≤ Calendar.Greg.start y + 366 := by
  rw [C01.greg_start_closed, C01.greg_start_closed]
  have e : y + 1 - 1 = y := by omega
  rw [e]; omega

theorem greg_start_mono (y : Int) : Calendar.Greg.start y < Calendar.Greg.start (y + 1) := by
  have := greg_step y; omega

theorem greg_start_bounds (y : Int) (hy : -9998 ≤ y) (hy2 : y ≤ 10000) :
    -4371222 ≤ Calendar.Greg.start y ∧ Calendar.Greg.start y ≤ 2932897 := by
  rw [C01.greg_start_closed]; omega

theorem safePlus_interior (t off : Int) (h1 : MINI + NPD ≤ t) (h2 : t ≤ MAXI - NPD) : safePlus t off = t + off := by
  have hc : MIN_DAYS < dayOf t ∧ dayOf t < MAX_DAYS := by
    simp only [dayOf, MINI, MAXI, MIN_DAYS, MAX_DAYS, NPD] at *; omega
  unfold safePlus
  simp only []
  rw [if_pos hc]

theorem safeMinus_interior (t off : Int) (h1 : MINI + NPD ≤ t) (h2 : t ≤ MAXI - NPD) : safeMinus t off = t - off := by
  have hc : MIN_DAYS < dayOf t ∧ dayOf t < MAX_DAYS := by
    simp only [dayOf, MINI, MAXI, MIN_DAYS, MAX_DAYS, NPD] at *; omega
  unfold safeMinus
  simp only []
  rw [if_pos hc]

theorem isValid_interior (t : Int) (h1 : MINI ≤ t) (h2 : t ≤ MAXI) : isValid t = true := by
  unfold isValid
  rw [Bool.and_eq_true, decide_eq_true_eq, decide_eq_true_eq]
  simp only [dayOf, MINI, MAXI, MIN_DAYS, MAX_DAYS, NPD] at *
  omega

section
variable {r : Recurrence} {std ps ro : Int} {occ : Int → Int} {lo hi : Int}

/-- a rule satisfying `RuleOK`, in an infinite recurrence, is an increasing transition sequence -/
theorem recSpec_of_rule (hinf : r.fromYear = INT_MIN ∧ r.toYear = INT_MAX)
    (hro : r.yo.ruleOffset std ps = .ok ro) (hrob : -64800 ≤ ro ∧ ro ≤ 64800)
    (hwall : -64800 ≤ std + r.savings ∧ std + r.savings ≤ 64800)
    (h : RuleOK r.yo occ lo hi) :
    RecSpec r std ps (fun y => occ y - ro * NPS) lo hi := by
  obtain ⟨hlo, hhi⟩ := h.range
  have hoff : offAdd std r.savings = .ok (std + r.savings) := by
    unfold offAdd; rw [if_neg (by omega)]
  have hmn : r.minLocal = .ok BMIN := by simp [Recurrence.minLocal, hinf.1]
  have hmx : r.maxLocal = .ok AMAX := by simp [Recurrence.maxLocal, hinf.2]
  -- bounds on the year starts in nanoseconds
  have ysb : ∀ y, lo ≤ y → y ≤ hi + 1 + 1 → MINI + 2 * NPD ≤ ysNs y ∧ ysNs y ≤ MAXI - 2 * NPD := by
    intro y h1 h2
    have b := greg_start_bounds y (by omega) (by omega)
    have s1 := greg_step (y - 1)
    have bm := greg_start_bounds (y - 1) (by omega) (by omega)
    have e : y - 1 + 1 = y := by omega
    rw [e] at s1
    have s2 := greg_step y
    have s3 := greg_step (y + 1)
    have bp := greg_start_bounds (y + 1 + 1) (by omega) (by omega)
    simp only [ysNs, MINI, MAXI, MIN_DAYS, MAX_DAYS, NPD] at *
    omega
  refine ⟨?_, ?_, ?_⟩
  · intro y h1 h2
    have a := h.inYear y h1 (by omega)
    have b := h.inYear (y + 1) (by omega) (by omega)
    show occ y - ro * NPS < occ (y + 1) - ro * NPS
    omega
  · -- next
    intro y t h1 h2 h3 h4
    have a := h.inYear y h1 (by omega)
    have b := h.inYear (y + 1) (by omega) (by omega)
    have ya := ysb y h1 (by omega)
    have yb := ysb (y + 1 + 1) (by omega) (by omega)
    have hsp : safePlus t (ro * NPS) = t + ro * NPS :=
      safePlus_interior _ _ (by simp only [MINI, MAXI, MIN_DAYS, MAX_DAYS, NPD, NPS] at *; omega)
        (by simp only [MINI, MAXI, MIN_DAYS, MAX_DAYS, NPD, NPS] at *; omega)
    have hsm : ∀ v, ysNs y ≤ v → v < ysNs (y + 1 + 1) → safeMinus v (ro * NPS) = v - ro * NPS := by
      intro v v1 v2
      exact safeMinus_interior _ _ (by simp only [MINI, MAXI, MIN_DAYS, MAX_DAYS, NPD, NPS] at *; omega)
        (by simp only [MINI, MAXI, MIN_DAYS, MAX_DAYS, NPD, NPS] at *; omega)
    simp only [Recurrence.next, hro, hoff, hsp, hmn, hmx, bind, Except.bind]
    have c1 : ¬ (t + ro * NPS < BMIN) := by simp only [BMIN, MINI, MIN_DAYS, NPD, NPS] at *; omega
    have c2 : ¬ (t + ro * NPS ≥ AMAX) := by simp only [AMAX, MAXI, MAX_DAYS, NPD, NPS] at *; omega
    have c3 : ¬ (t + ro * NPS = BMIN) := by simp only [BMIN, MINI, MIN_DAYS, NPD, NPS] at *; omega
    simp only [c1, c2, c3, if_false]
    have my := greg_start_mono y
    have my1 := greg_start_mono (y + 1)
    by_cases hq : dayOf (t + ro * NPS) < Calendar.Greg.start (y + 1)
    · have hy' : yearOfDays (dayOf (t + ro * NPS)) = .ok y :=
        greg_year_of _ y (by omega) (by omega) (by simp only [dayOf, ysNs, NPD] at *; omega) hq
      simp only [hy', pure, Except.pure, h.ok y h1 (by omega)]
      rw [hsm (occ y) a.1 (by simp only [ysNs, NPD] at *; omega)]
      rw [if_neg (by omega)]
      rw [if_neg (by simp only [MAX_GREG_YEAR]; omega)]
      simp only [h.ok (y + 1) (by omega) (by omega)]
      rw [hsm (occ (y + 1)) (by simp only [ysNs, NPD] at *; omega) b.2]
    · have hy' : yearOfDays (dayOf (t + ro * NPS)) = .ok (y + 1) :=
        greg_year_of _ (y + 1) (by omega) (by omega) (by omega) (by simp only [dayOf, ysNs, NPD] at *; omega)
      simp only [hy', pure, Except.pure, h.ok (y + 1) (by omega) (by omega)]
      rw [hsm (occ (y + 1)) (by simp only [ysNs, NPD] at *; omega) b.2]
      rw [if_pos (by omega)]
  · -- previous or same
    intro y t h1 h2 h3 h4
    have a := h.inYear y h1 (by omega)
    have b := h.inYear (y + 1) (by omega) (by omega)
    have ya := ysb y h1 (by omega)
    have yb := ysb (y + 1 + 1) (by omega) (by omega)
    have hsp : safePlus t (ro * NPS) = t + ro * NPS :=
      safePlus_interior _ _ (by simp only [MINI, MAXI, MIN_DAYS, MAX_DAYS, NPD, NPS] at *; omega)
        (by simp only [MINI, MAXI, MIN_DAYS, MAX_DAYS, NPD, NPS] at *; omega)
    have hsm : ∀ v, ysNs y ≤ v → v < ysNs (y + 1 + 1) → safeMinus v (ro * NPS) = v - ro * NPS := by
      intro v v1 v2
      exact safeMinus_interior _ _ (by simp only [MINI, MAXI, MIN_DAYS, MAX_DAYS, NPD, NPS] at *; omega)
        (by simp only [MINI, MAXI, MIN_DAYS, MAX_DAYS, NPD, NPS] at *; omega)
    have hval : isValid (t + ro * NPS) = true :=
      isValid_interior _ (by simp only [MINI, MAXI, MIN_DAYS, MAX_DAYS, NPD, NPS] at *; omega)
        (by simp only [MINI, MAXI, MIN_DAYS, MAX_DAYS, NPD, NPS] at *; omega)
    simp only [Recurrence.previousOrSame, hro, hoff, hsp, hmn, hmx, bind, Except.bind]
    have c1 : ¬ (t + ro * NPS > AMAX) := by simp only [AMAX, MAXI, MAX_DAYS, NPD, NPS] at *; omega
    have c2 : ¬ (t + ro * NPS < BMIN) := by simp only [BMIN, MINI, MIN_DAYS, NPD, NPS] at *; omega
    simp only [c1, c2, if_false, hval, Bool.not_true, Bool.false_eq_true]
    have my := greg_start_mono y
    have my1 := greg_start_mono (y + 1)
    by_cases hq : dayOf (t + ro * NPS) < Calendar.Greg.start (y + 1)
    · have hy' : yearOfDays (dayOf (t + ro * NPS)) = .ok y :=
        greg_year_of _ y (by omega) (by omega) (by simp only [dayOf, ysNs, NPD] at *; omega) hq
      simp only [hy', Recurrence.previousOrSame.go, bind, Except.bind, h.ok y h1 (by omega)]
      rw [hsm (occ y) a.1 (by simp only [ysNs, NPD] at *; omega)]
      rw [if_pos (by omega)]
    · have hy' : yearOfDays (dayOf (t + ro * NPS)) = .ok (y + 1) :=
        greg_year_of _ (y + 1) (by omega) (by omega) (by omega) (by simp only [dayOf, ysNs, NPD] at *; omega)
      simp only [hy', Recurrence.previousOrSame.go, bind, Except.bind, h.ok (y + 1) (by omega) (by omega)]
      rw [hsm (occ (y + 1)) (by simp only [ysNs, NPD] at *; omega) b.2]
      rw [if_neg (by omega)]
      rw [if_neg (by simp only [MIN_GREG_YEAR]; omega)]
      have e : y + 1 - 1 = y := by omega
      simp only [e, h.ok y h1 (by omega)]
      rw [hsm (occ y) a.1 (by simp only [ysNs, NPD] at *; omega)]

end

/-! ### from the evaluated check to the hypotheses -/

theorem allYears_spec (lo hi : Int) (p : Int → Bool) (h : allYears lo hi p = true) (y : Int) (h1 : lo ≤ y) (h2 : y ≤ hi) :
    p y = true := by
  simp only [allYears, List.all_eq_true, List.mem_range] at h
  have := h (y - lo).toNat (by omega)
  have e : lo + ((y - lo).toNat : Int) = y := by omega
  rw [e] at this; exact this

theorem ruleOK_sound (yo : YearOffset) (lo hi : Int) (h : ruleOK yo lo hi = true) : RuleOK yo (occOf yo) lo hi := by
  simp only [ruleOK, Bool.and_eq_true, decide_eq_true_eq] at h
  obtain ⟨⟨h1, h2⟩, h3⟩ := h
  have key : ∀ y, lo ≤ y → y ≤ hi → yo.occurrence y = .ok (occOf yo y) ∧ ysNs y ≤ occOf yo y ∧ occOf yo y < ysNs (y + 1) := by
    intro y hy1 hy2
    have := allYears_spec lo hi _ h3 y hy1 hy2
    simp only [occOf]
    cases ho : yo.occurrence y with
    | error e => rw [ho] at this; simp at this
    | ok v =>
      rw [ho] at this
      change (decide (ysNsM y ≤ v) && decide (v < ysNsM (y + 1))) = true at this
      rw [Bool.and_eq_true] at this
      refine ⟨rfl, ?_, ?_⟩
      · show ysNs y ≤ v
        exact of_decide_eq_true this.1
      · show v < ysNs (y + 1)
        exact of_decide_eq_true this.2
  exact ⟨⟨h1, h2⟩, fun y a b => (key y a b).1, fun y a b => (key y a b).2⟩

theorem recSpec_shift {r : Recurrence} {std ps : Int} {T : Int → Int} {lo hi : Int} (h : RecSpec r std ps T lo hi) :
    RecSpec r std ps (fun y => T (y + 1)) lo (hi - 1) := by
  refine ⟨?_, ?_, ?_⟩
  · intro y h1 h2; exact h.mono (y + 1) (by omega) (by omega)
  · intro y t h1 h2 h3 h4; exact h.next (y + 1) t (by omega) (by omega) h3 h4
  · intro y t h1 h2 h3 h4; exact h.prev (y + 1) t (by omega) (by omega) h3 h4

theorem recSpec_shrink {r : Recurrence} {std ps : Int} {T : Int → Int} {lo hi : Int} (h : RecSpec r std ps T lo hi) :
    RecSpec r std ps T lo (hi - 1) := by
  refine ⟨?_, ?_, ?_⟩
  · intro y h1 h2; exact h.mono y h1 (by omega)
  · intro y t h1 h2 h3 h4; exact h.next y t h1 (by omega) h3 h4
  · intro y t h1 h2 h3 h4; exact h.prev y t h1 (by omega) h3 h4

/-- the evaluated per-year check of a tail yields the alternation hypotheses of `altmap_partition`:
    result 1 = daylight rule first in each year, result 2 = standard rule first (transitions re-indexed) -/
theorem tailOK_sound (m : AltMap) (lo hi : Int) :
    (tailOK m lo hi = 1 → AltSpec m (tdOf m) (tsOf m) lo hi) ∧
    (tailOK m lo hi = 2 → AltSpec m (tdOf m) (fun y => tsOf m (y + 1)) lo (hi - 1)) := by
  unfold tailOK
  by_cases hbase : tailBase m lo hi = true
  · simp only [hbase, if_true]
    have hb := hbase
    simp only [tailBase, Bool.and_eq_true, decide_eq_true_eq] at hb
    obtain ⟨⟨⟨⟨⟨⟨⟨⟨⟨⟨⟨⟨b1, b2⟩, b3⟩, b4⟩, b5⟩, b6⟩, b7⟩, b8⟩, b9⟩, b10⟩, b11⟩, b12⟩, b13⟩ := hb
    -- rule offsets
    cases hroD : m.dstRec.yo.ruleOffset m.std 0 with
    | error e => rw [hroD] at b10; simp at b10
    | ok roD =>
    cases hroS : m.stdRec.yo.ruleOffset m.std m.dstRec.savings with
    | error e => rw [hroS] at b11; simp at b11
    | ok roS =>
    rw [hroD] at b10; rw [hroS] at b11
    simp only [Bool.and_eq_true, decide_eq_true_eq] at b10 b11
    have rD := recSpec_of_rule (r := m.dstRec) (std := m.std) (ps := 0) (ro := roD) ⟨b1, b2⟩ hroD b10
      ⟨b8, b9⟩ (ruleOK_sound _ _ _ b12)
    have rS := recSpec_of_rule (r := m.stdRec) (std := m.std) (ps := m.dstRec.savings) (ro := roS) ⟨b3, b4⟩ hroS b11
      (by rw [b5]; omega) (ruleOK_sound _ _ _ b13)
    have eD : (fun y => occOf m.dstRec.yo y - roD * NPS) = tdOf m := by
      funext y; simp [tdOf, roOf, hroD]
    have eS : (fun y => occOf m.stdRec.yo y - roS * NPS) = tsOf m := by
      funext y; simp [tsOf, roOf, hroS]
    rw [eD] at rD; rw [eS] at rS
    by_cases ha : altD m lo hi = true
    · simp only [ha, if_true]
      refine ⟨fun _ => ⟨rD, rS, ?_, ⟨b8, b9, b6, b7⟩, b5⟩, (fun h => by omega)⟩
      intro y h1 h2
      have := allYears_spec lo hi _ ha y h1 h2
      simp only [Bool.and_eq_true, Bool.or_eq_true, decide_eq_true_eq] at this
      refine ⟨this.1, fun hlt => ?_⟩
      rcases this.2 with h | h
      · omega
      · exact h
    · simp only [ha, if_false, Bool.false_eq_true]
      by_cases hs : altS m lo hi = true
      · simp only [hs, if_true]
        refine ⟨(fun h => by omega), fun _ => ⟨recSpec_shrink rD, recSpec_shift rS, ?_, ⟨b8, b9, b6, b7⟩, b5⟩⟩
        intro y h1 h2
        have a1 := allYears_spec lo hi _ hs y h1 (by omega)
        have a2 := allYears_spec lo hi _ hs (y + 1) (by omega) (by omega)
        simp only [Bool.and_eq_true, Bool.or_eq_true, decide_eq_true_eq] at a1 a2
        refine ⟨?_, fun _ => a2.1⟩
        rcases a1.2 with h | h
        · omega
        · exact h
      · simp only [hs, if_false, Bool.false_eq_true]
        exact ⟨(fun h => by omega), (fun h => by omega)⟩
  · simp only [hbase, if_false, Bool.false_eq_true]
    exact ⟨(fun h => by omega), (fun h => by omega)⟩

/-- **Tail partition from the evaluated check** (daylight-first zones): between consecutive daylight
    transitions the alternating map returns the interval containing the instant and is constant on it. -/
theorem tail_partition_of_tailOK (m : AltMap) (lo hi : Int) (h : tailOK m lo hi = 1)
    (y t : Int) (hy1 : lo < y) (hy2 : y + 1 < hi) (h1 : tdOf m y ≤ t) (h2 : t < tdOf m (y + 1)) :
    ∃ z, m.get t = .ok z ∧ z.s ≤ t ∧ t < z.e ∧ (∀ u, z.s ≤ u → u < z.e → m.get u = .ok z) ∧
      (z.e = tsOf m y ∨ z.e = tdOf m (y + 1)) :=
  altmap_partition ((tailOK_sound m lo hi).1 h) y t hy1 hy2 h1 h2

/-- the same for standard-first zones (southern hemisphere), transitions re-indexed -/
theorem tail_partition_of_tailOK_stdFirst (m : AltMap) (lo hi : Int) (h : tailOK m lo hi = 2)
    (y t : Int) (hy1 : lo < y) (hy2 : y + 1 < hi - 1) (h1 : tdOf m y ≤ t) (h2 : t < tdOf m (y + 1)) :
    ∃ z, m.get t = .ok z ∧ z.s ≤ t ∧ t < z.e ∧ (∀ u, z.s ≤ u → u < z.e → m.get u = .ok z) ∧
      (z.e = tsOf m (y + 1) ∨ z.e = tdOf m (y + 1)) :=
  altmap_partition ((tailOK_sound m lo hi).2 h) y t hy1 hy2 h1 h2

end Pyoda.C04
