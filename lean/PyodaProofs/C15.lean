/-
  C15 — conversions to and from Python's datetime types are exact and round-trip.
  Standard-library values are integers (see PyodaModel.Bridge): date = ordinal, time = microsecond of day,
  datetime = (ordinal, microsecond of day) [+ utc offset seconds], timedelta = (days, seconds, microseconds).
  `from_to_id`: stdlib → pyoda → stdlib is the identity on the whole stdlib range;
  `to_truncates`: pyoda → stdlib is the same day / time / instant floored to microseconds (toward zero for
  durations); `to_raises_iff_out_of_range`: it raises exactly outside the stdlib range.
-/
import PyodaModel.Bridge
import PyodaProofs.Basic
import PyodaProofs.C03
import PyodaProofs.C15Lemmas

namespace Pyoda.C15
open Pyoda Pyoda.C03 Pyoda.Bridge

local macro "unfold_consts" : tactic =>
  `(tactic| simp only [NPD, NPH, NPMin, NPS, NPMs, NPUs, NPT, TPD, TPS, TPH, SPD, UsPD, decBound,
      Duration.MIN_DAYS, Duration.MAX_DAYS, Instant.MIN_DAYS, Instant.MAX_DAYS,
      OffsetTime.NANO_BITS_POW, Offset.MIN_S, Offset.MAX_S, ORD_EPOCH, MAX_ORD, UsPS, UsPH, UsPMin, TD_MAX_DAYS,
      BCL_DAYS, TPMin, TPUs] at *)

/-! ### the time-of-day fields the code reads, in closed form -/

/-- `LocalTime.to_time` floors to the microsecond. -/
theorem time_to_truncates (n : Int) (h : NodOK n) : timeToPy n = .ok (n / NPUs) := by
  have h' := h
  obtain ⟨h0, h1⟩ := h'
  unfold timeToPy
  rw [ltHour_eq n h, ltMinute_eq n h, ltSecond_eq n h, ltNanoOfSecond_eq n h]
  simp only [bind, Except.bind]
  unfold_consts
  rw [pyTdiv_ok _ _ (by decide) (by unfold_consts; omega) (by unfold_consts; omega) (by decide) (by decide)]
  simp (disch := decide) only [tdiv_pos]
  have hp : (0 : Int) ≤ n % 1000000000 := by omega
  simp only [hp, if_true]
  rw [ofFields_ok 1 _ _ _ _ (by simp only [DateOK, MAX_ORD]; omega) (by omega) (by omega) (by omega) (by omega)]
  simp only [Except.ok.injEq]
  unfold_consts
  omega

/-- … and `time → LocalTime → time` is the identity on every `datetime.time`. -/
theorem time_from_to_id (us : Int) (h : TimeOK us) : (timeFromPy us >>= timeToPy) = .ok us := by
  rw [time_from_exact us h]
  simp only [bind, Except.bind]
  obtain ⟨h0, h1⟩ := h
  rw [time_to_truncates _ (by simp only [NodOK]; unfold_consts; omega)]
  simp only [Except.ok.injEq]; unfold_consts; omega

/-! ### LocalDate ↔ date -/

/-- `to_date` names the same physical day … -/
theorem date_to_truncates (d : Date) (o : Int) (h : dateToPy d = .ok o) : o = d.days + ORD_EPOCH ∧ DateOK o := by
  simp only [dateToPy, PyTimedelta.ofUs, dateAddTd, DateOK, bind, Except.bind] at *
  unfold_consts
  grind

/-- … and raises exactly when that day is outside `date.min … date.max`. -/
theorem date_to_raises_iff_out_of_range (d : Date) :
    (∃ e, dateToPy d = .error e) ↔ ¬ DateOK (d.days + ORD_EPOCH) := by
  simp only [dateToPy, PyTimedelta.ofUs, dateAddTd, DateOK, bind, Except.bind]
  unfold_consts
  constructor
  · rintro ⟨e, h⟩; grind
  · intro hr
    by_cases h1 : d.days * 86400000000 / 86400000000 < -999999999 ∨ d.days * 86400000000 / 86400000000 > 999999999
    · simp only [h1, if_true]; exact ⟨_, rfl⟩
    · simp only [h1, if_false]
      have h2 : ¬ (0 < 719163 + d.days * 86400000000 / 86400000000 ∧ 719163 + d.days * 86400000000 / 86400000000 ≤ 3652059) := by omega
      simp only [h2, if_false]; exact ⟨_, rfl⟩

/-- `date → LocalDate → date` is the identity on every `datetime.date`. -/
theorem date_from_to_id (o : Int) (h : DateOK o) : (dateFromPy o >>= dateToPy) = .ok o := by
  obtain ⟨h0, h1⟩ := h
  simp only [dateFromPy, Date.ofDays, isoCal, checkRange, dateToPy, PyTimedelta.ofUs, dateAddTd, bind, Except.bind]
  unfold_consts
  grind

/-! ### LocalDateTime ↔ naive datetime -/

/-- `to_naive_datetime` gives the same physical day and the time of day floored to microseconds. -/
theorem ldt_to_truncates (d : Date) (n : Int) (x : PyDateTime) (hn : NodOK n) (h : ldtToPy d n = .ok x) :
    x.ord = d.days + ORD_EPOCH ∧ x.us = n / NPUs ∧ PyDateTime.wf x := by
  rw [ldtToPy_eq d n hn] at h
  obtain ⟨h0, h1⟩ := hn
  simp only [gregCal, PyDateTime.wf] at *
  unfold_consts
  grind

/-- … and raises exactly when the day is outside `datetime.min … datetime.max` (year 1 is inside). -/
theorem ldt_to_raises_iff_out_of_range (d : Date) (n : Int) (hn : NodOK n) :
    (∃ e, ldtToPy d n = .error e) ↔ ¬ DateOK (d.days + ORD_EPOCH) := by
  rw [ldtToPy_eq d n hn]
  simp only [gregCal, DateOK]
  unfold_consts
  constructor
  · rintro ⟨e, h⟩; grind
  · intro hr
    by_cases h1 : d.days < -4371222 ∨ d.days > 2932896
    · exact ⟨.valueError, by simp only [h1, if_true]⟩
    · have h2 : d.days + 719163 < 1 := by omega
      exact ⟨.runtimeError, by simp only [h1, h2, if_true, if_false]⟩

/-- `datetime → LocalDateTime → datetime` is the identity on every naive datetime, in any calendar that
    contains the day (always for ISO). -/
theorem ldt_from_to_id (x : PyDateTime) (c : Cal) (hx : PyDateTime.wf x)
    (hc : c.minDays ≤ x.ord - ORD_EPOCH ∧ x.ord - ORD_EPOCH ≤ c.maxDays) :
    (ldtFromPy x c >>= fun p => ldtToPy p.1 p.2) = .ok x := by
  rw [ldt_from_exact x c hx]
  have hw := hx
  simp only [PyDateTime.wf] at hw
  have e : ¬ (x.ord - ORD_EPOCH < c.minDays ∨ x.ord - ORD_EPOCH > c.maxDays) := by omega
  simp only [Date.ofDays, checkRange, e, if_false, bind, Except.bind, Except.map]
  rw [ldtToPy_eq _ _ (by simp only [NodOK]; unfold_consts; omega)]
  obtain ⟨o, u⟩ := x
  simp only [gregCal] at *
  unfold_consts
  have e1 : ¬ (o - 719163 < -4371222 ∨ o - 719163 > 2932896) := by omega
  have e2 : ¬ (o - 719163 + 719163 < 1) := by omega
  simp only [e1, e2, if_false, Except.ok.injEq, PyDateTime.mk.injEq]
  omega

/-! ### timedelta normalisation -/

/-! ### Instant ↔ aware datetime -/

/-- `to_datetime_utc` is the same instant floored to microseconds (the result's tzinfo is UTC) … -/
theorem inst_to_truncates (i : Instant) (x : PyDateTime) (hn : Norm i.dur) (hv : IValid i) (h : instToPy i = .ok x) :
    x.ord = i.dur.days + ORD_EPOCH ∧ x.us = i.dur.nod / NPUs ∧ PyDateTime.wf x := by
  rw [instToPy_eq i hn hv] at h
  simp only [Norm, IValid, PyDateTime.wf] at *
  unfold_consts
  grind

/-- … and raises exactly for instants before 0001-01-01T00:00Z (`datetime.min`); `Instant.max_value` is inside. -/
theorem inst_to_raises_iff_out_of_range (i : Instant) (hn : Norm i.dur) (hv : IValid i) :
    (∃ e, instToPy i = .error e) ↔ ¬ DateOK (i.dur.days + ORD_EPOCH) := by
  rw [instToPy_eq i hn hv]
  simp only [Norm, IValid, DateOK] at *
  unfold_consts
  by_cases h : i.dur.days < -719162
  · simp only [h, if_true]; constructor
    · intro _; omega
    · intro _; exact ⟨_, rfl⟩
  · simp only [h, if_false]; constructor
    · rintro ⟨e, he⟩; cases he
    · intro hr; omega

/-- `from_aware_datetime` denotes exactly local − utc offset … -/
theorem inst_from_exact (x : PyDateTime) (off : Int) (i : Instant) (hx : PyDateTime.wf x) (ho : -SPD < off ∧ off < SPD)
    (h : instFromPy x off = .ok i) :
    Norm i.dur ∧ IValid i ∧ val i.dur = (awareUs x off - ORD_EPOCH * UsPD) * NPUs := by
  obtain ⟨t, ht, htt, _⟩ := tdOfOff off ho
  simp only [instFromPy, ht, Instant.plusTicks, bind, Except.bind] at h
  rw [toTicksDt_eq x hx, htt] at h
  cases hd : Duration.fromTicks (((x.ord - 1) * UsPD + x.us) * TPUs - off * TPS) with
  | error e => rw [hd] at h; cases h
  | ok d =>
    rw [hd] at h; simp only at h
    obtain ⟨hdn, _, hdv⟩ := fromTicks_exact _ d hd
    obtain ⟨h1, h2, h3⟩ := instant_plus_exact bclEpoch d i norm_bcl hdn h
    refine ⟨h1, h2, ?_⟩
    rw [h3, hdv]
    simp only [val, bclEpoch, awareUs]
    unfold_consts; omega

/-- … and raises exactly when that instant is outside the Instant range (late in year 9999 at a negative offset). -/
theorem inst_from_raises_iff (x : PyDateTime) (off : Int) (hx : PyDateTime.wf x) (ho : -SPD < off ∧ off < SPD) :
    (∃ e, instFromPy x off = .error e) ↔ ¬ InstNsInRange ((awareUs x off - ORD_EPOCH * UsPD) * NPUs) := by
  obtain ⟨t, ht, htt, _⟩ := tdOfOff off ho
  have hw := hx
  simp only [PyDateTime.wf] at hw
  simp only [instFromPy, ht, Instant.plusTicks, bind, Except.bind]
  rw [toTicksDt_eq x hx, htt]
  have hT : (((x.ord - 1) * UsPD + x.us) * TPUs - off * TPS) * NPT = (awareUs x off - UsPD) * NPUs := by
    simp only [awareUs]; unfold_consts; omega
  cases hd : Duration.fromTicks (((x.ord - 1) * UsPD + x.us) * TPUs - off * TPS) with
  | error e =>
    exfalso
    have := (fromTicks_raises_iff _).mp ⟨e, hd⟩
    rw [hT] at this
    simp only [NsInRange, awareUs, Duration.MIN_NANOS, Duration.MAX_NANOS] at this
    unfold_consts; omega
  | ok d =>
    simp only []
    obtain ⟨hdn, _, hdv⟩ := fromTicks_exact _ d hd
    rw [instant_plus_raises_iff bclEpoch d norm_bcl hdn, hdv, hT]
    have e : val bclEpoch.dur + (awareUs x off - UsPD) * NPUs = (awareUs x off - ORD_EPOCH * UsPD) * NPUs := by
      simp only [val, bclEpoch]; unfold_consts; omega
    rw [e]

/-- `aware datetime → Instant → datetime (UTC)` gives back the same instant: the same value shifted to UTC,
    in particular the identity for datetimes already in UTC; for every aware datetime whose UTC value lies in
    `datetime.min … datetime.max`. -/
theorem inst_from_to_id (x : PyDateTime) (off : Int) (hx : PyDateTime.wf x) (ho : -SPD < off ∧ off < SPD)
    (hr : UsPD ≤ awareUs x off ∧ awareUs x off < (MAX_ORD + 1) * UsPD) :
    (instFromPy x off >>= instToPy) = .ok ⟨awareUs x off / UsPD, awareUs x off % UsPD⟩ := by
  cases h : instFromPy x off with
  | error e =>
    exfalso
    apply (inst_from_raises_iff x off hx ho).mp ⟨e, h⟩
    simp only [InstNsInRange]; unfold_consts; omega
  | ok i =>
    obtain ⟨h1, h2, h3⟩ := inst_from_exact x off i hx ho h
    simp only [bind, Except.bind]
    rw [instToPy_eq i h1 h2]
    simp only [Norm, IValid, val] at *
    unfold_consts
    have e : ¬ (i.dur.days < -719162) := by omega
    simp only [e, if_false, Except.ok.injEq, PyDateTime.mk.injEq]
    omega

theorem inst_from_to_id_utc (x : PyDateTime) (hx : PyDateTime.wf x) : (instFromPy x 0 >>= instToPy) = .ok x := by
  have hw := hx
  simp only [PyDateTime.wf] at hw
  have := inst_from_to_id x 0 hx (by unfold_consts; omega) (by simp only [awareUs]; unfold_consts; omega)
  rw [this]
  obtain ⟨o, u⟩ := x
  simp only [awareUs, Except.ok.injEq, PyDateTime.mk.injEq] at *
  unfold_consts; omega

/-! ### Offset ↔ timedelta -/

/-- `Offset.from_timedelta` truncates toward zero to whole seconds … -/
theorem off_from_truncates (t : PyTimedelta) (o : Offset) (ht : t.wf) (h : offFromPy t = .ok o) :
    o.seconds = Int.tdiv t.totalUs UsPS ∧ OffUsOK t.totalUs := by
  rw [offFromPy_eq t ht] at h
  simp only [OffUsOK]
  split at h
  · cases h
  · simp only [Except.ok.injEq] at h; subst h; exact ⟨rfl, by omega⟩

/-- … and raises exactly outside ±18 h. -/
theorem off_from_raises_iff_out_of_range (t : PyTimedelta) (ht : t.wf) :
    (∃ e, offFromPy t = .error e) ↔ ¬ OffUsOK t.totalUs := by
  rw [offFromPy_eq t ht]
  simp only [OffUsOK]
  by_cases h : t.totalUs < -64800 * UsPS ∨ t.totalUs > 64800 * UsPS
  · simp only [h, if_true]; constructor
    · intro _; omega
    · intro _; exact ⟨_, rfl⟩
  · simp only [h, if_false]; constructor
    · rintro ⟨e, he⟩; cases he
    · intro hr; omega

/-- `Offset.to_timedelta` is exact. -/
theorem off_to_exact (o : Offset) (t : PyTimedelta) (h : offToPy o = .ok t) : t.totalUs = o.seconds * UsPS ∧ t.wf := by
  obtain ⟨h1, h2, _⟩ := ofUs_ok _ t h
  exact ⟨h1, h2⟩

/-- `timedelta → Offset → timedelta` is the identity on every whole-second utc offset within ±18 h. -/
theorem off_from_to_id (t : PyTimedelta) (ht : t.wf) (hs : t.micros = 0) (hr : OffUsOK t.totalUs) :
    (offFromPy t >>= offToPy) = .ok t := by
  rw [offFromPy_eq t ht]
  have e : ¬ (t.totalUs < -64800 * UsPS ∨ t.totalUs > 64800 * UsPS) := by simp only [OffUsOK] at hr; omega
  simp only [e, if_false, bind, Except.bind, offToPy]
  have e2 : Int.tdiv t.totalUs UsPS * UsPS = t.totalUs := by
    simp only [PyTimedelta.totalUs, PyTimedelta.wf, hs] at *
    unfold_consts
    simp (disch := decide) only [tdiv_pos]
    split <;> omega
  rw [e2]
  exact ofUs_totalUs t ht

/-! ### Duration ↔ timedelta -/

/-- `Duration.to_timedelta` truncates toward zero to whole microseconds … -/
theorem dur_to_truncates (d : Duration) (t : PyTimedelta) (hn : Norm d) (h : durToPy d = .ok t) :
    t.totalUs = Int.tdiv (val d) NPUs ∧ t.wf := by
  rw [durToPy_eq d hn] at h
  obtain ⟨h1, h2, _⟩ := ofUs_ok _ t h
  exact ⟨h1, h2⟩

/-- … and raises exactly when that number of microseconds is outside `timedelta.min … timedelta.max`. -/
theorem dur_to_raises_iff_out_of_range (d : Duration) (hn : Norm d) :
    (∃ e, durToPy d = .error e) ↔ ¬ TdUsOK (Int.tdiv (val d) NPUs) := by
  rw [durToPy_eq d hn]; exact ofUs_raises_iff _

/-- `Duration.from_timedelta` is exact and never raises (timedelta's range is inside Duration's). -/
theorem dur_from_exact (t : PyTimedelta) (ht : t.wf) :
    ∃ d, durFromPy t = .ok d ∧ Norm d ∧ val d = t.totalUs * NPUs := by
  obtain ⟨hd1, hd2, hs1, hs2, hu1, hu2⟩ := ht
  simp only [durFromPy, Duration.fromDays, bind, Except.bind]
  have ea : Duration.ctor t.days 0 = .ok ⟨t.days, 0⟩ := by
    rw [ctor_ok]; exact ⟨by unfold_consts; omega, rfl⟩
  rw [ea]; simp only []
  have na : Norm (⟨t.days, 0⟩ : Duration) := by simp only [Norm]; unfold_consts; omega
  cases hb : Duration.fromSeconds t.seconds with
  | error e =>
    exfalso
    have := (fromUnits_raises_iff .seconds t.seconds).mp ⟨e, hb⟩
    simp only [NsInRange, TUnit.nanos, Duration.MIN_NANOS, Duration.MAX_NANOS] at this
    unfold_consts; omega
  | ok b =>
    obtain ⟨nb, _, vb⟩ := fromUnits_exact .seconds t.seconds b hb
    simp only [TUnit.nanos] at vb
    cases hc : Duration.fromMicroseconds t.micros with
    | error e =>
      exfalso
      have := (fromUnits_raises_iff .microseconds t.micros).mp ⟨e, hc⟩
      simp only [NsInRange, TUnit.nanos, Duration.MIN_NANOS, Duration.MAX_NANOS] at this
      unfold_consts; omega
    | ok c =>
      obtain ⟨nc, _, vc⟩ := fromUnits_exact .microseconds t.micros c hc
      simp only [TUnit.nanos] at vc
      simp only []
      cases hab : Duration.add ⟨t.days, 0⟩ b with
      | error e =>
        exfalso
        have := (add_raises_iff _ _ na nb).mp ⟨e, hab⟩
        rw [vb] at this
        simp only [NsInRange, Duration.MIN_NANOS, Duration.MAX_NANOS, val] at this
        unfold_consts; omega
      | ok ab =>
        obtain ⟨nab, _, vab⟩ := add_exact _ _ ab na nb hab
        simp only []
        cases habc : Duration.add ab c with
        | error e =>
          exfalso
          have := (add_raises_iff _ _ nab nc).mp ⟨e, habc⟩
          rw [vab, vb, vc] at this
          simp only [NsInRange, Duration.MIN_NANOS, Duration.MAX_NANOS, val] at this
          unfold_consts; omega
        | ok r =>
          obtain ⟨nr, _, vr⟩ := add_exact _ _ r nab nc habc
          refine ⟨r, rfl, nr, ?_⟩
          rw [vr, vab, vb, vc]
          simp only [val, PyTimedelta.totalUs]
          unfold_consts; omega

/-- `timedelta → Duration → timedelta` is the identity on every timedelta. -/
theorem dur_from_to_id (t : PyTimedelta) (ht : t.wf) : (durFromPy t >>= durToPy) = .ok t := by
  obtain ⟨d, hd, hn, hv⟩ := dur_from_exact t ht
  rw [hd]
  simp only [bind, Except.bind]
  rw [durToPy_eq d hn, hv]
  have e : Int.tdiv (t.totalUs * NPUs) NPUs = t.totalUs := by
    unfold_consts
    simp (disch := decide) only [tdiv_pos]
    split <;> omega
  rw [e]
  exact ofUs_totalUs t ht

/-! ### OffsetDateTime ↔ aware datetime -/

/-- `to_aware_datetime`: same physical day, time floored to microseconds, same utc offset … -/
theorem odt_to_truncates (x : OffsetDateTime) (p : PyDateTime) (off : Int) (hn : NodOK x.nanosecondOfDay)
    (ho : OffOK x.offsetSeconds) (h : odtToPy x = .ok (p, off)) :
    p.ord = x.date.days + ORD_EPOCH ∧ p.us = x.nanosecondOfDay / NPUs ∧ off = x.offsetSeconds ∧ PyDateTime.wf p := by
  rw [odtToPy_eq x hn ho] at h
  cases hl : ldtToPy x.date x.nanosecondOfDay with
  | error e => rw [hl] at h; cases h
  | ok q =>
    rw [hl] at h
    simp only [Except.map, Except.ok.injEq, Prod.mk.injEq] at h
    obtain ⟨rfl, rfl⟩ := h
    obtain ⟨h1, h2, h3⟩ := ldt_to_truncates _ _ q hn hl
    exact ⟨h1, h2, rfl, h3⟩

/-- … and raises exactly when the local day is outside `datetime.min … datetime.max` (year 1 is inside). -/
theorem odt_to_raises_iff_out_of_range (x : OffsetDateTime) (hn : NodOK x.nanosecondOfDay) (ho : OffOK x.offsetSeconds) :
    (∃ e, odtToPy x = .error e) ↔ ¬ DateOK (x.date.days + ORD_EPOCH) := by
  rw [odtToPy_eq x hn ho, ← ldt_to_raises_iff_out_of_range x.date x.nanosecondOfDay hn]
  cases ldtToPy x.date x.nanosecondOfDay with
  | error e => simp only [Except.map]; constructor <;> (intro _; exact ⟨_, rfl⟩)
  | ok q => simp only [Except.map]; constructor <;> (rintro ⟨e, he⟩; cases he)

/-- `aware datetime → OffsetDateTime → aware datetime` is the identity on every datetime with a fixed utc
    offset within ±18 h (date, time to the microsecond, and offset all come back). -/
theorem odt_from_to_id (x : PyDateTime) (off : Int) (hx : PyDateTime.wf x) (ho : OffOK off) :
    (odtFromPy x off >>= odtToPy) = .ok (x, off) := by
  rw [odt_from_exact x off hx ho]
  have hw := hx
  simp only [PyDateTime.wf] at hw
  simp only [bind, Except.bind]
  have hp : (OffsetDateTime.ofLocal ⟨isoCal, x.ord - ORD_EPOCH⟩ (x.us * NPUs) ⟨off⟩).nanosecondOfDay = x.us * NPUs ∧
      (OffsetDateTime.ofLocal ⟨isoCal, x.ord - ORD_EPOCH⟩ (x.us * NPUs) ⟨off⟩).offsetSeconds = off := by
    simp only [OffsetDateTime.ofLocal, OffsetDateTime.nanosecondOfDay, OffsetDateTime.offsetSeconds, OffsetTime.ofParts,
      OffsetTime.nanosecondOfDay, OffsetTime.offsetSeconds, shr47]
    unfold_consts; omega
  have hn : NodOK (x.us * NPUs) := by simp only [NodOK]; unfold_consts; omega
  rw [odtToPy_eq _ (by rw [hp.1]; exact hn) (by rw [hp.2]; exact ho), hp.1, hp.2]
  have := ldt_from_to_id x isoCal hx (iso_contains_stdlib x hx)
  rw [ldt_from_exact x isoCal hx] at this
  have e : ¬ (x.ord - ORD_EPOCH < isoCal.minDays ∨ x.ord - ORD_EPOCH > isoCal.maxDays) := by
    have := iso_contains_stdlib x hx; omega
  simp only [Date.ofDays, checkRange, e, if_false, bind, Except.bind, Except.map] at this
  simp only [OffsetDateTime.ofLocal]
  rw [this]
  rfl

/-! hypotheses are satisfiable on concrete non-trivial values -/
example : ldtToPy ⟨⟨2, -4370934, 2932604⟩, -719162⟩ 86399999999999 = .ok ⟨1, 86399999999⟩ := by decide
example : (odtFromPy ⟨1, 0⟩ 64800 >>= odtToPy) = .ok (⟨1, 0⟩, 64800) := by decide
example : durToPy ⟨-1, 86399999999001⟩ = .ok ⟨0, 0, 0⟩ := by decide
example : (instFromPy ⟨3652059, 86399999999⟩ 0 >>= instToPy) = .ok ⟨3652059, 86399999999⟩ := by decide
example : instFromPy ⟨3652059, 86399999999⟩ (-1) = .error .overflowError := by decide

end Pyoda.C15
