/-
  C08 — all 19 calendars: LocalDate / LocalDateTime patterns whose template value is in any calendar, and patterns with
  the calendar field `c` (the bucket's calendar is read from the text).

  * every parse action returns a result for every text (`parseStep_total_all`: the calendar step assigns the bucket's
    calendar slot; nothing is outside the model any more), hence no pattern hypothesis (`patOK`) is needed;
  * the bucket's calendar slot always holds one of the 19 ordinals (`CalOK`);
  * `calculate_value` in any calendar (`dateValueC`, through the calendar descriptions `Calendar.Calc`): a success is a
    date the calendar has — year inside the calendar, month inside the year, day inside the month (`dateValueC_valid`),
    with the repaired behaviour: a template year outside the calendar read from the text is a failure, a template era
    the calendar does not have is replaced by its latest era.
-/
import PyodaProofs.C08DateTime
import PyodaProofs.C08Segmented
import PyodaProofs.C01Lemmas
import PyodaProofs.C01

namespace Pyoda.C08
open Pyoda Pyoda.Text
open Pyoda.Calendar (Calc calcOf)

/-! ## every parse action is total -/

theorem parseStep_total_all (cu : Culture) (l : Text) (b : Bucket) (s : Step) : ∃ r, parseStep cu l b s = .ok r := by
  cases s <;> simp only [parseStep] <;> (repeat' split) <;> exact ⟨_, rfl⟩

theorem parseSteps_total_all (cu : Culture) : ∀ (steps : List Step) (l : Text) (b : Bucket),
    ∃ r, parseSteps cu steps l b = .ok r := by
  intro steps
  induction steps with
  | nil => intro l b; exact ⟨_, rfl⟩
  | cons s ss ih =>
    intro l b
    unfold parseSteps
    obtain ⟨r, hr⟩ := parseStep_total_all cu l b s
    rw [hr]
    cases r with
    | none => exact ⟨_, rfl⟩
    | some p => obtain ⟨b', l'⟩ := p; exact ih l' b'

/-! ## the calendar slot holds an ordinal -/

def CalOK (b : Bucket) : Prop := 0 ≤ b .calendar ∧ b .calendar ≤ 18

theorem parseCalendarId_mem (l : Text) : ∀ (ids : List Text) (i r : Text), parseCalendarId l ids = some (i, r) → i ∈ ids := by
  intro ids
  induction ids with
  | nil => intro i r h; simp [parseCalendarId] at h
  | cons x xs ih =>
    intro i r h
    simp only [parseCalendarId] at h
    split at h
    · injection h with h; injection h with h _; rw [← h]; simp
    · exact List.mem_cons_of_mem _ (ih i r h)

theorem ordOfId_range_all : calendarIds.all (fun i => decide (0 ≤ ordOfId i) && decide (ordOfId i ≤ 18)) = true := by
  decide +kernel

theorem ordOfId_range (i : Text) (h : i ∈ calendarIds) : 0 ≤ ordOfId i ∧ ordOfId i ≤ 18 := by
  have := List.all_eq_true.mp ordOfId_range_all i h
  simpa using this

/-- the step does not assign the calendar slot through a numeric field (true of every step the handler tables build) -/
def calSafe : Step → Bool
  | .num _ st _ _ _ _ => decide (st ≠ .calendar)
  | _ => true

theorem calSafe_of_dtStepWF (s : Step) (h : dtStepWF s = true) : calSafe s = true := by
  cases s <;> simp only [calSafe]
  rename_i g st count maxCount minV maxV
  simp only [dtStepWF, Bool.or_eq_true, Bool.and_eq_true, decide_eq_true_eq] at h
  simp only [decide_eq_true_eq]
  rcases h with ((((((⟨⟨rfl, _⟩, _⟩ | ⟨⟨rfl, _⟩, _⟩) | ⟨⟨rfl, _⟩, _⟩) | ⟨⟨rfl, _⟩, _⟩) | rfl) | rfl) | ⟨rfl, _⟩) | ⟨rfl, _⟩ <;> decide

theorem calSafe_of_timeStepWF (s : Step) (h : timeStepWF s = true) : calSafe s = true := by
  cases s <;> simp only [calSafe]
  rename_i g st count maxCount minV maxV
  simp only [timeStepWF, Bool.or_eq_true, Bool.and_eq_true, decide_eq_true_eq] at h
  simp only [decide_eq_true_eq]
  rcases h with ((⟨⟨rfl, _⟩, _⟩ | ⟨⟨rfl, _⟩, _⟩) | ⟨⟨rfl, _⟩, _⟩) | ⟨⟨rfl, _⟩, _⟩ <;> decide

theorem parseStep_calOK (cu : Culture) (l : Text) (b b' : Bucket) (r : Text) (s : Step) (hw : calSafe s = true)
    (h : parseStep cu l b s = .ok (some (b', r))) (hb : CalOK b) : CalOK b' := by
  by_cases hs : s = .calendar
  · subst hs
    simp only [parseStep] at h
    split at h
    · cases h
    · rename_i i0 r0 hp
      injection h with h; injection h with h; injection h with h _
      rw [← h]
      unfold CalOK
      simp only [Bucket.set, if_true]
      exact ordOfId_range i0 (parseCalendarId_mem l _ i0 r0 hp)
  · have : b' .calendar = b .calendar := by
      apply parseStep_frame cu l b b' r s h
      cases s <;> simp [stepSets] at hs ⊢
      simpa [calSafe] using hw
    unfold CalOK; rw [this]; exact hb

theorem parseSteps_calOK (cu : Culture) : ∀ (ss : List Step) (l : Text) (b b' : Bucket) (r : Text),
    ss.all calSafe = true → parseSteps cu ss l b = .ok (some (b', r)) → CalOK b → CalOK b' := by
  intro ss
  induction ss with
  | nil => intro l b b' r _ h hb; simp only [parseSteps] at h; injection h with h; injection h with h; injection h with h _; rw [← h]; exact hb
  | cons s ss ih =>
    intro l b b' r hw h hb
    simp only [List.all_cons, Bool.and_eq_true] at hw
    unfold parseSteps at h
    cases hp : parseStep cu l b s with
    | error e => rw [hp] at h; cases h
    | ok o =>
      rw [hp] at h
      cases o with
      | none => cases h
      | some q =>
        obtain ⟨b1, l1⟩ := q
        exact ih l1 b1 b' r hw.2 h (parseStep_calOK cu l b b1 l1 s hw.1 hp hb)

theorem calcOf_some_all : ∀ k : Fin 19, (calcOf k.val).isSome = true := by decide

theorem calcOfInt_some (k : Int) (h : 0 ≤ k ∧ k ≤ 18) : ∃ c, calcOfInt k = some c := by
  unfold calcOfInt
  rw [if_neg (by omega)]
  have := calcOf_some_all ⟨k.toNat, by omega⟩
  cases hc : calcOf k.toNat with
  | none => rw [hc] at this; cases this
  | some c => exact ⟨c, rfl⟩

/-- `calculate_value` of the date bucket never raises, whatever the calendar -/
theorem dateValueG_total (tc : TmplC) (used : Nat) (b : Bucket) (hb : CalOK b) : ∃ r, dateValueG tc used b = .ok r := by
  unfold dateValueG
  obtain ⟨c, hc⟩ := calcOfInt_some (b .calendar) hb
  rw [hc]
  exact ⟨_, rfl⟩

/-! ## a success of the date bucket is a date the calendar has -/

/-- the date exists in the calendar: year inside the calendar, month inside the year, day inside the month -/
def InCal (c : Calc) (y m d : Int) : Prop :=
  c.minYear ≤ y ∧ y ≤ c.maxYear ∧ 1 ≤ m ∧ m ≤ c.months y ∧ 1 ≤ d ∧ d ≤ c.dim y m

theorem twoEra_bounds (cal : Int) (c : Calc) (hc : calcOfInt cal = some c) (h : cal ≤ 2) : c.minYear ≤ 0 ∧ 1 ≤ c.maxYear := by
  unfold calcOfInt at hc
  split at hc
  · cases hc
  · have : cal.toNat = 0 ∨ cal.toNat = 1 ∨ cal.toNat = 2 := by omega
    rcases this with e | e | e <;> rw [e] at hc <;> simp only [calcOf] at hc <;> injection hc with hc <;> subst hc <;>
      constructor <;> decide

theorem beq_zero_eq_decide (a : Int) : (a == 0) = decide (a = 0) := rfl

theorem isLeap_eq (y : Int) : isLeap y = Calendar.Greg.isLeap y := by
  unfold isLeap Calendar.Greg.isLeap
  simp only [bne, beq_zero_eq_decide, ne_eq, decide_not]

theorem greg_dim_eq (y m : Int) (h1 : 1 ≤ m) (h2 : m ≤ 12) : Calendar.Greg.cal.dim y m = daysInMonth y m := by
  show Calendar.GJ.dim (Calendar.Greg.isLeap y) m = daysInMonth y m
  unfold daysInMonth
  rw [isLeap_eq]
  have : m = 1 ∨ m = 2 ∨ m = 3 ∨ m = 4 ∨ m = 5 ∨ m = 6 ∨ m = 7 ∨ m = 8 ∨ m = 9 ∨ m = 10 ∨ m = 11 ∨ m = 12 := by omega
  rcases this with rfl | rfl | rfl | rfl | rfl | rfl | rfl | rfl | rfl | rfl | rfl | rfl <;>
    cases Calendar.Greg.isLeap y <;> decide

/-- a valid ISO date is a date of the Gregorian calculator -/
theorem inCal_of_validDate (y m d : Int) (h : validDate y m d) : InCal Calendar.Greg.cal y m d := by
  obtain ⟨h1, h2, h3, h4, h5, h6⟩ := h
  unfold ISO_MIN_YEAR at h1; unfold ISO_MAX_YEAR at h2
  refine ⟨h1, h2, h3, h4, h5, ?_⟩
  rw [greg_dim_eq y m h3 h4]; exact h6

theorem validDate_of_inCal (y m d : Int) (h : InCal Calendar.Greg.cal y m d) : validDate y m d := by
  obtain ⟨h1, h2, h3, h4, h5, h6⟩ := h
  have h4' : m ≤ 12 := h4
  refine ⟨h1, h2, h3, h4', h5, ?_⟩
  rw [← greg_dim_eq y m h3 h4']; exact h6

theorem calcOfInt_zero : calcOfInt 0 = some Calendar.Greg.cal := rfl

/-- **`calculate_value` in any calendar**: a success is a date the bucket's calendar has.  Needs what the parse
    actions guarantee about the bucket (`DtOK`: month and day slots at least 1 once assigned) and that the template's
    month and day numbers are at least 1. -/
theorem dateValueC_valid (cal : Int) (c : Calc) (hc : calcOfInt cal = some c) (tc : TmplC) (htm : 1 ≤ tc.m ∧ 1 ≤ tc.d)
    (used : Nat) (b : Bucket) (fm fd ft : Bool) (hb : DtOK fm fd ft b)
    (s1 : hasAny used F.monthNum = true → fm = true) (s2 : hasAny used F.dayOfMonth = true → fd = true)
    (s3 : hasAny used F.monthText = true → ft = true)
    (y m d : Int) (h : dateValueC cal c tc used b = some (y, m, d)) : InCal c y m d := by
  unfold dateValueC at h
  split at h
  · rename_i hu
    obtain ⟨hu, hcal⟩ := hu
    have f1 : fm = true := s1 (by rw [hu]; decide)
    have f2 : fd = true := s2 (by rw [hu]; decide)
    obtain ⟨e, hv⟩ := isoDateValue_some _ _ _ (y, m, d) (hb.mo f1) (hb.dy f2) h
    injection e with e1 e2; injection e2 with e2 e3
    rw [hcal, calcOfInt_zero] at hc
    injection hc with hc
    rw [← hc, e1, e2, e3]
    exact inCal_of_validDate _ _ _ hv
  · cases hy : determineYearC cal c tc used b with
    | none => rw [hy] at h; cases h
    | some y' =>
      rw [hy] at h; dsimp only at h
      cases hmo : determineMonthC c tc.m used b y' with
      | none => rw [hmo] at h; cases h
      | some m' =>
        rw [hmo] at h; dsimp only at h
        have hyr : c.minYear ≤ y' ∧ y' ≤ c.maxYear := by
          unfold determineYearC at hy
          dsimp only at hy
          unfold minYoe maxYoe absYear at hy
          by_cases h2 : cal ≤ 2
          · obtain ⟨b1, b2⟩ := twoEra_bounds cal c hc h2
            simp only [h2, if_true] at hy
            repeat' split at hy
            all_goals first
              | (injection hy with hy; subst hy; omega)
              | (injection hy with hy; subst hy; split <;> omega)
              | (cases hy; done)
          · simp only [h2, if_false] at hy
            repeat' split at hy
            all_goals first
              | (injection hy with hy; subst hy; omega)
              | (injection hy with hy; subst hy; split <;> omega)
              | (cases hy; done)
        have hmr : 1 ≤ m' ∧ m' ≤ c.months y' := by
          unfold determineMonthC at hmo
          dsimp only at hmo
          split at hmo
          · cases hmo
          · rename_i mm hmm
            split at hmo
            · cases hmo
            · injection hmo with hmo
              subst hmo
              refine ⟨?_, by omega⟩
              split at hmm
              · rename_i hp
                injection hmm with hmm; rw [← hmm]
                exact hb.mo (s1 (by
                  unfold hasAny
                  have : used &&& F.monthNum = (used &&& (F.monthNum ||| F.monthText)) &&& F.monthNum := by
                    rw [Nat.and_assoc]; rfl
                  rw [this, hp]; decide))
              · split at hmm
                · rename_i hp
                  injection hmm with hmm; rw [← hmm]
                  exact hb.mt (s3 (by
                    unfold hasAny
                    have : used &&& F.monthText = (used &&& (F.monthNum ||| F.monthText)) &&& F.monthText := by
                      rw [Nat.and_assoc]; rfl
                    rw [this, hp]; decide))
                · split at hmm
                  · rename_i hp
                    split at hmm
                    · cases hmm
                    · injection hmm with hmm; rw [← hmm]
                      exact hb.mo (s1 (by
                        unfold hasAny
                        have : used &&& F.monthNum = (used &&& (F.monthNum ||| F.monthText)) &&& F.monthNum := by
                          rw [Nat.and_assoc]; rfl
                        rw [this, hp]; decide))
                  · injection hmm with hmm; rw [← hmm]; exact htm.1
        generalize hdd : (if hasAny used F.dayOfMonth = true then b .dayOfMonth else tc.d) = dd at h
        have hd1 : 1 ≤ dd := by
          rw [← hdd]; split
          · rename_i hd; exact hb.dy (s2 hd)
          · exact htm.2
        split at h
        · cases h
        · rename_i hdim
          split at h
          · cases h
          · injection h with h; injection h with e1 e2; injection e2 with e2 e3
            subst e1; subst e2; subst e3
            exact ⟨hyr.1, hyr.2, hmr.1, hmr.2, hd1, by omega⟩

/-! ## the 24:00 roll-over in any calendar: `plus_days(1)` gives a date of the calendar or `OverflowError` -/

open Pyoda.C01 (WF)

theorem addOne_ok_or_overflow (c : Calc) (h : WF c) (y m d : Int) (hv : InCal c y m d) :
    (∃ q, DateArith.addFixed c 1 (y, m, d) 1 = .ok q ∧ InCal c q.1 q.2.1 q.2.2) ∨
      DateArith.addFixed c 1 (y, m, d) 1 = .error .overflowError := by
  obtain ⟨hy, hy2, hm, hm2, hd, hd2⟩ := hv
  obtain ⟨u1, u2, _⟩ := h.unsplit_ok y m d hy hy2 hm hm2 hd hd2
  have hr := h.recur y hy hy2
  unfold DateArith.addFixed
  rw [if_neg (by decide)]
  have e11 : (1 : Int) * 1 = 1 := by decide
  rw [e11, if_pos (by decide)]
  unfold DateArith.fastPath
  dsimp only
  by_cases hA : 1 ≤ d + 1 ∧ d + 1 ≤ c.dim y m
  · rw [if_pos hA]
    left; exact ⟨_, rfl, hy, hy2, hm, hm2, by show 1 ≤ d + 1; omega, hA.2⟩
  · rw [if_neg hA, if_neg (by omega), C01.lenR_ok h hy (by omega)]
    dsimp only
    by_cases hB : c.toMonth y m + d + 1 > c.len y
    · rw [if_pos hB]
      by_cases hC : y + 1 > c.maxYear
      · rw [if_pos hC]; right; rfl
      · rw [if_neg hC]
        have hr' := h.recur (y + 1) (by omega) (by omega)
        have e1 : c.toMonth y m + d + 1 - c.len y = 1 := by omega
        rw [e1]
        unfold DateArith.ofYearDay
        rw [C01.splitR_ok h (by omega : c.minYear ≤ y + 1) (by omega) (by omega) (by omega)]
        obtain ⟨p1, p2, p3, p4, _⟩ := h.split_ok (y + 1) 1 (by omega) (by omega) (by omega) (by omega)
        left; exact ⟨_, rfl, by dsimp only; omega, by dsimp only; omega, p1, p2, p3, p4⟩
    · rw [if_neg hB]
      unfold DateArith.ofYearDay
      rw [C01.splitR_ok h hy hy2 (by omega) (by omega)]
      obtain ⟨p1, p2, p3, p4, _⟩ := h.split_ok y (c.toMonth y m + d + 1) hy hy2 (by omega) (by omega)
      left; exact ⟨_, rfl, hy, hy2, p1, p2, p3, p4⟩

/-- every calendar description satisfies `WF` (a theorem for the Gregorian, Julian and Coptic calculators:
    `C01.greg_wf`, `jul_wf`, `copt_wf`; for the others `C01.wfCheck_sound` applied to the evaluation of `wfCheck` by the
    compiled model, op `cal.wf`, on every run of the C01 check) -/
def AllWF : Prop := ∀ (k : Nat) (c : Calc), calcOf k = some c → WF c

theorem calcOfInt_wf (H : AllWF) (k : Int) (c : Calc) (hc : calcOfInt k = some c) : WF c := by
  unfold calcOfInt at hc
  split at hc
  · cases hc
  · exact H _ c hc

/-! ## buckets of patterns whose template value is in any calendar -/

/-- what the bucket needs of a template value: a calendar ordinal, month and day numbers at least 1, a time of day -/
structure TmplCOK (tc : TmplC) : Prop where
  cal : tc.cal ≤ 18
  m1 : 1 ≤ tc.m
  d1 : 1 ≤ tc.d
  t0 : 0 ≤ tc.nod
  t1 : tc.nod < 86400000000000

theorem tmplCOK_default : TmplCOK TmplC.default := ⟨by decide, by decide, by decide, by decide, by decide⟩

theorem tmplCOK_of_tmplOK (tm : Tmpl) (h : TmplOK tm) : TmplCOK tm.toC := by
  obtain ⟨⟨_, _, h3, _, h5, _⟩, t0, t1⟩ := h
  exact ⟨Nat.zero_le _, h3, h5, t0, t1⟩

theorem dateBucketC_ok (tc : TmplC) : DtOK false false false (dateBucketC tc) := by
  have := (dateBucket0_ok).frame .calendar (tc.cal : Int) (by decide) (by decide) (by decide) (by decide) (by decide)
    (by decide) (by decide) (by decide) (by decide)
  simpa [dateBucketC, bucket0] using this

theorem dtBucketC_ok (tc : TmplC) (htm : TmplCOK tc) : DtOK false false false (dtBucketC tc) := by
  -- only the time of day of the template enters the bucket
  have h0 := dtBucket0_ok ⟨2000, 1, 1, tc.nod⟩ ⟨(by decide : validDate 2000 1 1), htm.t0, htm.t1⟩
  have := h0.frame .calendar (tc.cal : Int) (by decide) (by decide) (by decide) (by decide) (by decide)
    (by decide) (by decide) (by decide) (by decide)
  simpa [dtBucketC, bucket0, dtBucket0] using this

theorem dateBucketC_calOK (tc : TmplC) (h : tc.cal ≤ 18) : CalOK (dateBucketC tc) := by
  unfold CalOK dateBucketC; simp only [Bucket.set, if_true]; omega

theorem dtBucketC_calOK (tc : TmplC) (h : tc.cal ≤ 18) : CalOK (dtBucketC tc) := by
  unfold CalOK dtBucketC; simp only [Bucket.set, if_true]; omega

/-- the date bucket in any calendar: a success is a date of the calendar in the bucket's calendar slot -/
theorem dateValueG_valid (tc : TmplC) (htm : TmplCOK tc) (used : Nat) (b : Bucket) (fm fd ft : Bool) (hb : DtOK fm fd ft b)
    (s1 : hasAny used F.monthNum = true → fm = true) (s2 : hasAny used F.dayOfMonth = true → fd = true)
    (s3 : hasAny used F.monthText = true → ft = true)
    (v : Int × Int × Int × Int) (h : dateValueG tc used b = .ok (some v)) :
    v.2.2.2 = b .calendar ∧ ∃ c, calcOfInt v.2.2.2 = some c ∧ InCal c v.1 v.2.1 v.2.2.1 := by
  unfold dateValueG at h
  cases hc : calcOfInt (b .calendar) with
  | none => rw [hc] at h; cases h
  | some c =>
    rw [hc] at h; dsimp only at h
    cases hv : dateValueC (b .calendar) c tc used b with
    | none => rw [hv] at h; cases h
    | some w =>
      obtain ⟨y, m, d⟩ := w
      rw [hv] at h
      simp only [Option.map] at h
      injection h with h; injection h with h
      subst h
      exact ⟨rfl, c, hc, dateValueC_valid (b .calendar) c hc tc ⟨htm.m1, htm.d1⟩ used b fm fd ft hb s1 s2 s3 y m d hv⟩

/-- a date-time result: a date of its calendar and a time inside the day -/
def DtInCal (v : Int × Int × Int × Int × Int) : Prop :=
  ∃ c, calcOfInt v.2.2.2.2 = some c ∧ InCal c v.1 v.2.1 v.2.2.1 ∧ 0 ≤ v.2.2.2.1 ∧ v.2.2.2.1 < 86400000000000

/-- `_combine_buckets` in any calendar never raises (the `OverflowError` of the 24:00 roll-over on the last day of the
    calendar is a failure result; no other exception can come out of `plus_days(1)` on a date of the calendar), and a
    success is a date of the bucket's calendar with a time inside the day -/
theorem dtValueG_spec (H : AllWF) (tc : TmplC) (htm : TmplCOK tc) (used : Nat) (b : Bucket) (fm fd ft : Bool)
    (hb : DtOK fm fd ft b) (hcal : CalOK b)
    (s1 : hasAny used F.monthNum = true → fm = true) (s2 : hasAny used F.dayOfMonth = true → fd = true)
    (s3 : hasAny used F.monthText = true → ft = true) :
    (∃ r, dtValueG tc used b = .ok r) ∧ ∀ v, dtValueG tc used b = .ok (some v) → DtInCal v := by
  unfold dtValueG
  dsimp only
  generalize hb' : (if decide (b .hours24 = 24) = true then b.set .hours24 0 else b) = b'
  have hb2 : DtOK fm fd ft b' ∧ b' .hours24 ≤ 23 ∧ CalOK b' := by
    rw [← hb']
    by_cases h24 : b .hours24 = 24
    · simp only [h24, decide_true, if_true]
      obtain ⟨a1, a2, a3, a4, a5, a6, a7, a8, a9⟩ := hb
      exact ⟨⟨by simp [Bucket.set], by simpa [Bucket.set] using a2, by simpa [Bucket.set] using a3,
        by simpa [Bucket.set] using a4, by simpa [Bucket.set] using a5, by simpa [Bucket.set] using a6,
        by simpa [Bucket.set] using a7, by simpa [Bucket.set] using a8, by simpa [Bucket.set] using a9⟩,
        by simp [Bucket.set], by simpa [CalOK, Bucket.set] using hcal⟩
    · simp only [h24, decide_false, Bool.false_eq_true, if_false]
      exact ⟨hb, by have := hb.h24; omega, hcal⟩
  obtain ⟨r, hr⟩ := dateValueG_total tc (used &&& F.allDate) b' hb2.2.2
  rw [hr]
  cases r with
  | none => exact ⟨⟨_, rfl⟩, fun v h => by cases h⟩
  | some w =>
    obtain ⟨y, m, d, cal⟩ := w
    dsimp only
    obtain ⟨_, c, hc, hin⟩ := dateValueG_valid tc htm (used &&& F.allDate) b' fm fd ft hb2.1
      (by rw [hasAny_and used F.allDate F.monthNum (by decide)]; exact s1)
      (by rw [hasAny_and used F.allDate F.dayOfMonth (by decide)]; exact s2)
      (by rw [hasAny_and used F.allDate F.monthText (by decide)]; exact s3) (y, m, d, cal) hr
    dsimp only at hc hin
    cases ht : timeValue tc.nod (used &&& F.allTime) b' with
    | none => exact ⟨⟨_, rfl⟩, fun v h => by cases h⟩
    | some t =>
      dsimp only
      have htv := timeValueT_valid tc.nod htm.t0 htm.t1 (used &&& F.allTime) b' fm fd ft hb2.1 hb2.2.1 t ht
      split
      · split
        · exact ⟨⟨_, rfl⟩, fun v h => by cases h⟩
        · have hp : plusOneDayG cal y m d = DateArith.addFixed c 1 (y, m, d) 1 := by
            unfold plusOneDayG; rw [hc]
          rw [hp]
          rcases addOne_ok_or_overflow c (calcOfInt_wf H cal c hc) y m d hin with ⟨q, hq, hqv⟩ | he
          · obtain ⟨y', m', d'⟩ := q
            rw [hq]
            refine ⟨⟨_, rfl⟩, fun v h => ?_⟩
            injection h with h; injection h with h
            subst h
            exact ⟨c, hc, hqv, htv⟩
          · rw [he]
            exact ⟨⟨_, rfl⟩, fun v h => by cases h⟩
      · refine ⟨⟨_, rfl⟩, fun v h => ?_⟩
        injection h with h; injection h with h
        subst h
        exact ⟨c, hc, hin, htv⟩

/-! ## stepped patterns whose bucket is the all-calendar one -/

/-- a date result: `[y, m, d]` (ISO) or `[y, m, d, ordinal]`, a date of that calendar -/
def DateResult (v : List Int) : Prop :=
  ∃ y m d cal c, v = showDateC (y, m, d, cal) ∧ calcOfInt cal = some c ∧ InCal c y m d

/-- a date-time result: `[y, m, d, nod]` (ISO) or `[y, m, d, nod, ordinal]` -/
def DtResult (v : List Int) : Prop := ∃ w, v = showDtC w ∧ DtInCal w

theorem all_calSafe_of_dtStepWF (ss : List Step) (h : ss.all dtStepWF = true) : ss.all calSafe = true := by
  rw [List.all_eq_true] at h ⊢
  exact fun s hs => calSafe_of_dtStepWF s (h s hs)

/-- LocalDate pattern, template value in any calendar (also: ISO template with the calendar field): parsing never
    raises, and a success is a date of the calendar the bucket ended with -/
theorem parseCompiled_dateC_spec (tc : TmplC) (htm : TmplCOK tc) (c : Compiled) (hcu : c.cu.monthHeadsEmpty = true)
    (hw : c.steps.all dtStepWF = true) (hs : fieldsSound c.used c.steps = true) (l : Text) :
    (∃ r, parseCompiled (.dateC tc) c l = .ok r) ∧ ∀ v, parseCompiled (.dateC tc) c l = .ok (some v) → DateResult v := by
  unfold parseCompiled
  split
  · exact ⟨⟨_, rfl⟩, fun v h => by cases h⟩
  · obtain ⟨o, hp⟩ := parseSteps_total_all c.cu c.steps l (bucket0 (.dateC tc))
    rw [hp]
    cases o with
    | none => exact ⟨⟨_, rfl⟩, fun v h => by cases h⟩
    | some q =>
      obtain ⟨b, rest⟩ := q
      dsimp only
      have hb := parseSteps_dt_ok c.cu hcu c.steps l _ b rest false false false hw (dateBucketC_ok tc) hp
      have hcal := parseSteps_calOK c.cu c.steps l _ b rest (all_calSafe_of_dtStepWF _ hw) hp (dateBucketC_calOK tc htm.cal)
      obtain ⟨s1, s2, s3⟩ := fieldsSound_flags c.used c.steps hs
      unfold bucketValue
      dsimp only
      obtain ⟨r, hr⟩ := dateValueG_total tc c.used b hcal
      rw [hr]
      cases r with
      | none => exact ⟨⟨_, rfl⟩, fun v h => by cases h⟩
      | some w =>
        simp only [mapR, Option.map]
        obtain ⟨_, k, hk, hin⟩ := dateValueG_valid tc htm c.used b _ _ _ hb s1 s2 s3 w hr
        split
        · refine ⟨⟨_, rfl⟩, fun v h => ?_⟩
          injection h with h; injection h with h
          exact ⟨w.1, w.2.1, w.2.2.1, w.2.2.2, k, h.symm, hk, hin⟩
        · exact ⟨⟨_, rfl⟩, fun v h => by cases h⟩

/-- LocalDateTime pattern, template value in any calendar (also: ISO template with the calendar field) -/
theorem parseCompiled_datetimeC_spec (H : AllWF) (tc : TmplC) (htm : TmplCOK tc) (c : Compiled)
    (hcu : c.cu.monthHeadsEmpty = true) (hw : c.steps.all dtStepWF = true) (hs : fieldsSound c.used c.steps = true) (l : Text) :
    (∃ r, parseCompiled (.datetimeC tc) c l = .ok r) ∧ ∀ v, parseCompiled (.datetimeC tc) c l = .ok (some v) → DtResult v := by
  unfold parseCompiled
  split
  · exact ⟨⟨_, rfl⟩, fun v h => by cases h⟩
  · obtain ⟨o, hp⟩ := parseSteps_total_all c.cu c.steps l (bucket0 (.datetimeC tc))
    rw [hp]
    cases o with
    | none => exact ⟨⟨_, rfl⟩, fun v h => by cases h⟩
    | some q =>
      obtain ⟨b, rest⟩ := q
      dsimp only
      have hb := parseSteps_dt_ok c.cu hcu c.steps l _ b rest false false false hw (dtBucketC_ok tc htm) hp
      have hcal := parseSteps_calOK c.cu c.steps l _ b rest (all_calSafe_of_dtStepWF _ hw) hp (dtBucketC_calOK tc htm.cal)
      obtain ⟨s1, s2, s3⟩ := fieldsSound_flags c.used c.steps hs
      unfold bucketValue
      dsimp only
      obtain ⟨⟨r, hr⟩, hval⟩ := dtValueG_spec H tc htm c.used b _ _ _ hb hcal s1 s2 s3
      rw [hr]
      cases r with
      | none => exact ⟨⟨_, rfl⟩, fun v h => by cases h⟩
      | some w =>
        simp only [mapR, Option.map]
        split
        · refine ⟨⟨_, rfl⟩, fun v h => ?_⟩
          injection h with h; injection h with h
          exact ⟨w, h.symm, hval w hr⟩
        · exact ⟨⟨_, rfl⟩, fun v h => by cases h⟩

end Pyoda.C08
