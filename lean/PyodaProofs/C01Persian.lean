/-
  The three Persian calendars.  The code builds the list of year starts once (`__init__`) by accumulating year
  lengths from year 0; `WF` is proved for an arbitrary leap rule under one bounded hypothesis on the leap-year
  density (`Dens`: among the years 1 … n−1 at most (n + 60)/4 are leap), which is what keeps the year estimate
  inside the list.  `Dens` is a finite fact per leap rule, checked by a single linear pass evaluated in the kernel.
-/
import PyodaModel.Calendar
import PyodaProofs.Basic
import PyodaProofs.C01Lemmas
import PyodaProofs.C01Instances
import PyodaProofs.C01Islamic

namespace Pyoda.C01
open Pyoda Pyoda.Calendar

/-! ### the accumulated list is the defining recursion -/

theorem accum_length (len : Int → Int) : ∀ (n : Nat) (s y : Int), (Pers.accum len n s y).length = n := by
  intro n
  induction n with
  | zero => intros; rfl
  | succ n ih => intro s y; simp [Pers.accum, ih]

theorem accum_get (len : Int → Int) : ∀ (n : Nat) (s y : Int) (i : Nat), i < n →
    (Pers.accum len n s y)[i]? = some (s + sumFrom len i y) := by
  intro n
  induction n with
  | zero => intro _ _ i h; omega
  | succ n ih =>
    intro s y i h
    cases i with
    | zero => simp [Pers.accum, sumFrom]
    | succ i =>
      simp only [Pers.accum, List.getElem?_cons_succ]
      rw [ih (s + len y) (y + 1) i (by omega)]
      simp only [sumFrom]
      congr 1; omega

theorem startRec_eq_sum (leap : Int → Bool) (e : Int) : ∀ n : Nat,
    Pers.startRec leap e n = e - Pers.lenOf leap 0 + sumFrom (Pers.lenOf leap) n 0 := by
  intro n
  induction n with
  | zero => simp [Pers.startRec, sumFrom]
  | succ n ih =>
    rw [Pers.startRec, ih, sumFrom_succ_end]
    simp only [Int.zero_add]; omega

/-- the list lookup of the model returns the defining recursion for every year -/
theorem startAt_eq (leap : Int → Bool) (e : Int) (y : Int) :
    Pers.startAt (Pers.startList leap e).toArray leap e y = Pers.startRec leap e y.toNat := by
  unfold Pers.startAt
  rw [List.getElem?_toArray]
  by_cases h : y.toNat < 9379
  · unfold Pers.startList
    rw [accum_get _ _ _ _ _ h, startRec_eq_sum]
  · have : (Pers.startList leap e)[y.toNat]? = none := by
      apply List.getElem?_eq_none
      unfold Pers.startList; rw [accum_length]; omega
    rw [this]

/-! ### leap-year density -/

open Pyoda.Calendar.Pers (persG densChk densOk)

theorem startRec_persG (leap : Int → Bool) (e : Int) : ∀ n : Nat,
    Pers.startRec leap e n = e + 365 * ((n : Int) - 1) + persG leap n := by
  intro n
  induction n with
  | zero => simp [Pers.startRec, persG, Pers.lenOf]; split <;> omega
  | succ n ih =>
    rw [Pers.startRec, ih, persG]
    unfold Pers.lenOf
    split <;> omega

theorem densChk_sound (leap : Int → Bool) : ∀ (f n : Nat), densChk leap f n (persG leap n) = true →
    ∀ k : Nat, k < f → 4 * persG leap (n + k) ≤ ((n + k : Nat) : Int) + 60 := by
  intro f
  induction f with
  | zero => intro _ _ k hk; omega
  | succ f ih =>
    intro n h k hk
    unfold densChk at h
    rw [Bool.and_eq_true] at h
    obtain ⟨h1, h2⟩ := h
    cases k with
    | zero => simp only [Nat.add_zero]; exact of_decide_eq_true h1
    | succ k =>
      have h2' : densChk leap f (n + 1) (persG leap (n + 1)) = true := by rw [persG]; exact h2
      have := ih (n + 1) h2' k (by omega)
      have e : n + 1 + k = n + (k + 1) := by omega
      rw [e] at this; exact this

def Dens (leap : Int → Bool) : Prop := densOk leap = true

theorem persG_nonneg (leap : Int → Bool) : ∀ n : Nat, 1 ≤ n → 0 ≤ persG leap n := by
  intro n
  induction n with
  | zero => intro h; omega
  | succ n ih =>
    intro _
    rw [persG]
    by_cases h0 : n = 0
    · subst h0; simp [persG]; split <;> omega
    · have := ih (by omega); split <;> omega

/-! ### month table -/

def persDim (L : Bool) (m : Int) : Int := if m < 7 then 31 else if m < 12 ∨ L = true then 30 else 29

theorem pers_dim_eq (leap : Int → Bool) (y m : Int) : Pers.dim leap y m = persDim (leap y) m := rfl

theorem pers_split_tbl : ∀ n : Nat, n < 367 → 1 ≤ n →
    (1 ≤ (Pers.split 0 n).1 ∧ (Pers.split 0 n).1 ≤ 12 ∧ 1 ≤ (Pers.split 0 n).2 ∧
     (¬(n ≤ 365) ∨ (Pers.split 0 n).2 ≤ persDim false (Pers.split 0 n).1) ∧
     (Pers.split 0 n).2 ≤ persDim true (Pers.split 0 n).1 ∧
     Pers.toMonth (Pers.split 0 n).1 + (Pers.split 0 n).2 = n) := by decide +kernel

theorem pers_unsplit_tbl : ∀ m : Nat, m < 13 → ∀ d : Nat, d < 32 → (1 ≤ m ∧ 1 ≤ d ∧ (d : Int) ≤ persDim true m →
    (1 ≤ Pers.toMonth m + d ∧ Pers.toMonth m + d ≤ 366 ∧
     Pers.split 0 (Pers.toMonth m + d) = ((m : Int), (d : Int)))) := by decide +kernel

theorem pers_unsplit_365 : ∀ m : Nat, m < 13 → ∀ d : Nat, d < 32 → (1 ≤ m ∧ 1 ≤ d ∧ (d : Int) ≤ persDim false m →
    Pers.toMonth m + d ≤ 365) := by decide +kernel

theorem pers_month_tbl : ∀ m : Nat, m < 13 → 1 ≤ m →
    (1 ≤ persDim false m ∧ persDim false m ≤ persDim true m ∧ persDim true m ≤ 31 ∧
     ∀ m2 : Nat, m2 < 13 → m < m2 → Pers.toMonth m + persDim true m ≤ Pers.toMonth m2) := by decide +kernel

theorem pers_est_core (y x q : Int) (hy : 1 ≤ y) (hy2 : y ≤ 9377)
    (hs : 365 * (y - 1) ≤ x) (he : 4 * x < 1461 * y + 64)
    (hq1 : 3653 * q ≤ x * 10 ∧ x * 10 < 3653 * q + 3653) :
    1 ≤ q + 1 ∧ q + 1 ≤ 9377 + 1 ∧ q + 1 ≤ y + 60 ∧ y ≤ q + 1 + 60 := by
  omega

theorem persian_wf_tbl (tbl : Array Int) (leap : Int → Bool) (e : Int)
    (htbl : ∀ y, Pers.startAt tbl leap e y = Pers.startRec leap e y.toNat)
    (hd : Dens leap) (he : -1000000 < e ∧ e < 1000000) :
    WF (Pers.cal tbl leap e) where
  dom_lo := by show (0 : Int) ≤ 1; decide
  search_lo := by show (0 : Int) ≤ 1 ∧ (1 : Int) ≤ 1; decide
  recur_lo := fun y h1 h2 => by
    have a : (1 : Int) ≤ y := h1
    have b : y < (1 : Int) := h2
    omega
  dom_hi := by show (9377 : Int) + 1 ≤ 9377 + 1; decide
  year_order := by show (1 : Int) ≤ 9377; decide
  recur := by
    intro y hy _
    have hy' : 1 ≤ y := hy
    show Pers.startAt _ leap e (y + 1) = Pers.startAt _ leap e y + Pers.lenOf leap y ∧ 0 < Pers.lenOf leap y
    rw [htbl, htbl]
    have e1 : (y + 1).toNat = y.toNat + 1 := by omega
    rw [e1, Pers.startRec]
    have e2 : ((y.toNat : Nat) : Int) = y := by omega
    rw [e2]
    refine ⟨rfl, ?_⟩
    unfold Pers.lenOf; split <;> omega
  avg_ok := by show (0 : Int) < 3652 + 1 ∧ (3652 : Int) + 1 < 1000000000; decide
  small := by
    show -1000000000 < Pers.startAt _ leap e 1 ∧ Pers.startAt _ leap e (9377 + 1) < 1000000000 ∧
      -1000000000 < e ∧ e < 1000000000
    have e0 : (9377 : Int) + 1 = 9378 := by decide
    rw [e0, htbl, htbl]
    have e1 : (1 : Int).toNat = 1 := by decide
    have e2 : (9378 : Int).toNat = 9378 := by decide
    rw [e1, e2, startRec_persG, startRec_persG]
    have g1 := persG_nonneg leap 1 (by omega)
    have d1 := densChk_sound leap 9379 0 hd 1 (by omega)
    have d2 := densChk_sound leap 9379 0 hd 9378 (by omega)
    simp only [Nat.zero_add] at d1 d2
    omega
  est := by
    intro y d hy hy2 hs hee
    have hy' : 1 ≤ y := hy
    have hy2' : y ≤ 9377 := hy2
    have hs' : Pers.startAt tbl leap e y ≤ d := hs
    have he' : d < Pers.startAt tbl leap e (y + 1) := hee
    rw [htbl, startRec_persG] at hs' he'
    have g1 := persG_nonneg leap y.toNat (by omega)
    have d2 := densChk_sound leap 9379 0 hd (y + 1).toNat (by omega)
    simp only [Nat.zero_add] at d2
    have e1 : ((y.toNat : Nat) : Int) = y := by omega
    have e2 : (((y + 1).toNat : Nat) : Int) = y + 1 := by omega
    rw [e1] at hs'
    rw [e2] at he' d2
    show 1 ≤ Int.tdiv ((d - e) * 10) (3652 + 1) + 1 ∧ _
    have e3 : (3652 : Int) + 1 = 3653 := by decide
    rw [e3]
    have tb := tdiv_bounds ((d - e) * 10) 3653 (by decide)
    exact pers_est_core y (d - e) _ hy' hy2' (by omega) (by omega) (tb.1 (by omega))
  split_ok := by
    intro y doy _ _ h1 h2
    have h2' : doy ≤ (if leap y then 366 else 365) := h2
    have hdoy : doy ≤ 366 := by cases hl : leap y <;> rw [hl] at h2' <;> simp at h2' <;> omega
    obtain ⟨n, rfl⟩ := natOf (x := doy) (by omega)
    obtain ⟨a, b, c, d, e', f⟩ := pers_split_tbl n (by omega) (by omega)
    show 1 ≤ (Pers.split y n).1 ∧ (Pers.split y n).1 ≤ 12 ∧ 1 ≤ (Pers.split y n).2 ∧
      (Pers.split y n).2 ≤ Pers.dim leap y (Pers.split y n).1 ∧ Pers.toMonth (Pers.split y n).1 + (Pers.split y n).2 = n
    have hs : Pers.split y n = Pers.split 0 n := rfl
    rw [hs, pers_dim_eq]
    refine ⟨a, b, c, ?_, f⟩
    cases hl : leap y
    · rw [hl] at h2'; simp only [Bool.false_eq_true, if_false] at h2'
      rcases d with d | d
      · omega
      · exact d
    · exact e'
  unsplit_ok := by
    intro y m dd _ _ h1 h2 h3 h4
    have h2' : m ≤ 12 := h2
    have h4' : dd ≤ persDim (leap y) m := h4
    obtain ⟨n, rfl⟩ := natOf (x := m) (by omega)
    have mt := pers_month_tbl n (by omega) (by omega)
    have hdt : dd ≤ persDim true n := by cases hl : leap y <;> rw [hl] at h4' <;> omega
    obtain ⟨k, rfl⟩ := natOf (x := dd) (by omega)
    obtain ⟨a, b, d⟩ := pers_unsplit_tbl n (by omega) k (by omega) ⟨by omega, by omega, hdt⟩
    show 1 ≤ Pers.toMonth n + k ∧ Pers.toMonth n + k ≤ (if leap y then 366 else 365) ∧
      Pers.split y (Pers.toMonth n + k) = ((n : Int), (k : Int))
    refine ⟨a, ?_, d⟩
    cases hl : leap y
    · rw [hl] at h4'; simp only [Bool.false_eq_true, if_false]
      exact pers_unsplit_365 n (by omega) k (by omega) ⟨by omega, by omega, h4'⟩
    · simp only [if_true]; exact b
  pack_year := by show (-16383 : Int) ≤ 1 ∧ (9377 : Int) ≤ 16384; decide
  pack_month := fun _ _ _ => by show (1 : Int) ≤ 12 ∧ (12 : Int) ≤ 32; decide
  pack_day := by
    intro y m _ _ h1 h2
    have h2' : m ≤ 12 := h2
    obtain ⟨n, rfl⟩ := natOf (x := m) (by omega)
    have mt := pers_month_tbl n (by omega) (by omega)
    show 1 ≤ persDim (leap y) n ∧ persDim (leap y) n ≤ 64
    cases leap y <;> omega
  month_order := by
    intro y m1 m2 _ _ h1 h2 h3 h4 h5
    have h2' : m1 ≤ 12 := h2
    have h4' : m2 ≤ 12 := h4
    have h5' : m1 < m2 := h5
    obtain ⟨n1, rfl⟩ := natOf (x := m1) (by omega)
    obtain ⟨n2, rfl⟩ := natOf (x := m2) (by omega)
    have mt := pers_month_tbl n1 (by omega) (by omega)
    have := mt.2.2.2 n2 (by omega) (by omega)
    show Pers.toMonth n1 + persDim (leap y) n1 ≤ Pers.toMonth n2
    cases leap y <;> omega
  month_key_inj := fun _ _ _ _ _ _ _ _ _ h => h
  plain_key := fun _ _ _ _ _ _ _ => rfl

theorem persian_wf (leap : Int → Bool) (e : Int) (hd : Dens leap) (he : -1000000 < e ∧ e < 1000000) :
    WF (Pers.cal (Pers.startList leap e).toArray leap e) :=
  persian_wf_tbl _ leap e (startAt_eq leap e) hd he

end Pyoda.C01
