import PyodaProofs.C07Stepped
import PyodaProofs.C08Calendar
namespace Pyoda.C07
open Pyoda Pyoda.Text
open Pyoda.Calendar (Calc calcOf)
def fullDateSteps2 : List Step :=
  [.num .year .year 4 4 (-9999) 9999, .lit ['-'], .num .monthNum .monthNum 2 2 1 99, .lit ['-'],
   .num .dayOfMonth .dayOfMonth 2 2 1 99, .lit [' ', '('], .calendar, .lit [')']]
set_option maxHeartbeats 400000 in
theorem t1 :
    compiledSteps (compileCustom .date invariantCulture "uuuu'-'MM'-'dd '('c')'".toList) = some (38016, fullDateSteps2) := by
  decide +kernel
end Pyoda.C07
