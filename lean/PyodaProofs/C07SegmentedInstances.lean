/-
  C07 — `segmented_roundtrip` instantiated: the LocalDateTime pattern `ld<yyyy-MM-dd>'T'lt<HH:mm:ss>` (an embedded
  LocalDate pattern, a literal, an embedded LocalTime pattern) of the invariant culture, for any template value of the
  common era: every date of the common era with every time of day whose nanosecond of second is the template's
  (the time pattern has no fraction field: the absent field takes the template's value).
-/
import PyodaProofs.C07Segmented
import PyodaProofs.C07Instances

set_option linter.unusedSimpArgs false

namespace Pyoda.C07
open Pyoda Pyoda.Text

def embDateSteps : List Step :=
  [.num .yearOfEra .yearOfEra 4 4 1 9999, .lit ['-'], .num .monthNum .monthNum 2 2 1 99, .lit ['-'],
   .num .dayOfMonth .dayOfMonth 2 2 1 99]

def embTimeSteps : List Step :=
  [.num .hours24 .hours24 2 2 0 23, .lit [':'], .num .minutes .minutes 2 2 0 59, .lit [':'],
   .num .seconds .seconds 2 2 0 59]

def embSegs : List Seg :=
  [.plain [], .date ⟨invariantCulture, 5632, embDateSteps⟩, .plain [.lit ['T']], .time ⟨invariantCulture, 28, embTimeSteps⟩, .plain []]

/-- the shape of a pattern with embedded parts: used fields and, per segment, kind (0 plain, 1 date, 2 time), the
    embedded pattern's used fields, the steps -/
def segShape : Seg → Nat × Nat × List Step
  | .plain ss => (0, 0, ss)
  | .date c => (1, c.used, c.steps)
  | .time c => (2, c.used, c.steps)

def segmentedShape (r : R Pat) : Option (Nat × List (Nat × Nat × List Step)) :=
  match r with
  | .ok (.segmented _ used segs) => some (used, segs.map segShape)
  | _ => none

theorem embedded_compiles :
    segmentedShape (compileDateTime Tmpl.default invariantCulture "ld<yyyy-MM-dd>'T'lt<HH:mm:ss>".toList) =
      some (3145728, embSegs.map segShape) := by
  decide +kernel

theorem embedded_delimited : DelimitedSegs invariantCulture 3145728 true embSegs = true := by decide +kernel

/-- a pattern whose embedded date ends in a variable-width field directly followed by the embedded time's hour is not
    `DelimitedSegs` (and indeed ambiguous) -/
example : DelimitedSegs invariantCulture 3145728 true
    [.plain [], .date ⟨invariantCulture, 4096, [.num .dayOfMonth .dayOfMonth 1 2 1 99]⟩, .plain [],
     .time ⟨invariantCulture, 4, [.num .hours24 .hours24 2 2 0 23]⟩, .plain []] = false := by decide +kernel

/-- **`ld<yyyy-MM-dd>'T'lt<HH:mm:ss>`** round-trips every common-era date-time whose fraction of a second is the
    template's, for every template value of the common era -/
theorem embedded_generic_roundtrip (tm : Tmpl) (htm : 1 ≤ tm.y) (y m d nod : Int) (hv : validDate y m d) (hy : 1 ≤ y)
    (h0 : 0 ≤ nod) (h1 : nod < 86400000000000) (hn : ltNano nod = ltNano tm.nod) :
    fmtPat (.datetime tm) [y, m, d, nod] (dtGetter y m d nod) (.segmented invariantCulture 3145728 embSegs) =
      .ok (outSegs invariantCulture 3145728 y m d nod embSegs) ∧
    parsePat (.datetime tm) (outSegs invariantCulture 3145728 y m d nod embSegs) (.segmented invariantCulture 3145728 embSegs) =
      .ok (some [y, m, d, nod]) := by
  have hv' := hv
  obtain ⟨hy1, hy2, hm1, hm2, hd1, hd2⟩ := hv
  have hb := daysInMonth_bounds y m
  unfold ISO_MIN_YEAR ISO_MAX_YEAR at *
  obtain ⟨e1, e2, e3, e4⟩ := time_accessors nod h0 h1
  have hyoe : yearOfEra y = y := by unfold yearOfEra; rw [if_pos (by omega)]
  -- the values fit the fields
  have hvd : ∀ s ∈ embDateSteps, ValOK (dateGetter y m d) s := by
    intro s hs
    simp only [embDateSteps, List.mem_cons, List.mem_nil_iff, or_false] at hs
    rcases hs with rfl | rfl | rfl | rfl | rfl
    · exact ⟨by simp only [dateGetter, hyoe]; omega, by simp only [dateGetter, hyoe]; omega, by decide, by decide,
        by decide, by simp only [dateGetter, hyoe]; omega⟩
    · trivial
    · exact ⟨by simp only [dateGetter]; omega, by simp only [dateGetter]; omega, by decide, by decide, by decide,
        by simp only [dateGetter]; omega⟩
    · trivial
    · exact ⟨by simp only [dateGetter]; omega, by simp only [dateGetter]; omega, by decide, by decide, by decide,
        by simp only [dateGetter]; omega⟩
  have hvt : ∀ s ∈ embTimeSteps, ValOK (timeGetter nod) s := by
    intro s hs
    simp only [embTimeSteps, List.mem_cons, List.mem_nil_iff, or_false] at hs
    rcases hs with rfl | rfl | rfl | rfl | rfl
    · exact ⟨by simp only [timeGetter]; omega, by simp only [timeGetter]; omega, by decide, by decide, by decide,
        by simp only [timeGetter]; omega⟩
    · trivial
    · exact ⟨by simp only [timeGetter]; omega, by simp only [timeGetter]; omega, by decide, by decide, by decide,
        by simp only [timeGetter]; omega⟩
    · trivial
    · exact ⟨by simp only [timeGetter]; omega, by simp only [timeGetter]; omega, by decide, by decide, by decide,
        by simp only [timeGetter]; omega⟩
  have hval : ∀ sg ∈ embSegs, SegValOK y m d nod sg := by
    intro sg hs
    simp only [embSegs, List.mem_cons, List.mem_nil_iff, or_false] at hs
    rcases hs with rfl | rfl | rfl | rfl | rfl
    · intro s hs; simp [segSteps] at hs
    · exact hvd
    · intro s hs; simp only [segSteps, List.mem_singleton] at hs; subst hs; trivial
    · exact hvt
    · intro s hs; simp [segSteps] at hs
  -- the embedded patterns represent their parts
  have hed : EmbOK tm y m d nod (.date ⟨invariantCulture, 5632, embDateSteps⟩) := by
    have u0 : ¬ ((5632 : Nat) = (F.year ||| F.monthNum ||| F.dayOfMonth)) := by decide
    have u1 : hasAny 5632 F.year = false := by decide
    have u2 : hasAny 5632 F.yearOfEra = true := by decide
    have u3 : hasAny 5632 F.era = false := by decide
    have u4 : hasAny 5632 F.yearTwoDigits = false := by decide
    have u5 : (5632 : Nat) &&& (F.monthNum ||| F.monthText) = F.monthNum := by decide
    have u6 : hasAny 5632 F.dayOfMonth = true := by decide
    have u7 : hasAny 5632 F.dayOfWeek = false := by decide
    have etm : isoEra tm.y = 1 := by unfold isoEra; rw [if_pos (by omega)]
    have hdim : ¬ (d > daysInMonth y m) := by omega
    have hyr : ¬ (y < 1 ∨ y > 9999) := by omega
    have hm12 : ¬ (m > 12) := by omega
    simp only [EmbOK, dateValueT, u0, if_false, determineYear, u1, u2, u3, u4, Bool.false_eq_true, if_true, not_true_eq_false,
      etm, determineMonth, u5, u6, u7, embDateSteps, setSteps, setStep, Bucket.set, dateGetter, hyoe, false_and]
    simp (config := { decide := true }) only [if_false, hyr, hm12, hdim]
  have het : EmbOK tm y m d nod (.time ⟨invariantCulture, 28, embTimeSteps⟩) := by
    have hu : (28 : Nat) &&& F.allTimeExceptFraction = (F.hours24 ||| F.minutes ||| F.seconds) := by decide
    generalize hb' : setSteps invariantCulture (timeGetter nod) (timeBucket0 tm.nod) embTimeSteps = b'
    have bH : b' .hours24 = ltHour nod := by
      rw [← hb']; simp [embTimeSteps, setSteps, setStep, Bucket.set, timeGetter]
    have bM : b' .minutes = ltMinute nod := by
      rw [← hb']; simp [embTimeSteps, setSteps, setStep, Bucket.set, timeGetter]
    have bS : b' .seconds = ltSecond nod := by
      rw [← hb']; simp [embTimeSteps, setSteps, setStep, Bucket.set, timeGetter]
    have bF : b' .fraction = ltNano nod := by
      rw [← hb', hn]; simp [embTimeSteps, setSteps, setStep, Bucket.set, timeBucket0]
    simp only [EmbOK, hb', timeValue, hu, if_true, bH, bM, bS, bF]
    rw [e1, e2, e3, e4, time_recompose]
  have hemb : ∀ sg ∈ embSegs, EmbOK tm y m d nod sg := by
    intro sg hs
    simp only [embSegs, List.mem_cons, List.mem_nil_iff, or_false] at hs
    rcases hs with rfl | rfl | rfl | rfl | rfl
    · trivial
    · exact hed
    · trivial
    · exact het
    · trivial
  -- the outer bucket evaluates to the value
  have hr : RepresentableSeg tm invariantCulture 3145728 embSegs y m d nod := by
    refine ⟨hemb, ?_⟩
    generalize hb' : setSegs invariantCulture y m d nod (dtBucket0 tm) embSegs = b'
    have bY : b' .year = y := by rw [← hb']; simp [embSegs, setSegs, setSeg, setSteps, setStep, Bucket.set]
    have bMo : b' .monthNum = m := by rw [← hb']; simp [embSegs, setSegs, setSeg, setSteps, setStep, Bucket.set]
    have bD : b' .dayOfMonth = d := by rw [← hb']; simp [embSegs, setSegs, setSeg, setSteps, setStep, Bucket.set]
    have bH : b' .hours24 = ltHour nod := by rw [← hb']; simp [embSegs, setSegs, setSeg, setSteps, setStep, Bucket.set]
    have bM : b' .minutes = ltMinute nod := by rw [← hb']; simp [embSegs, setSegs, setSeg, setSteps, setStep, Bucket.set]
    have bS : b' .seconds = ltSecond nod := by rw [← hb']; simp [embSegs, setSegs, setSeg, setSteps, setStep, Bucket.set]
    have bF : b' .fraction = ltNano nod := by rw [← hb']; simp [embSegs, setSegs, setSeg, setSteps, setStep, Bucket.set]
    have hne24 : ¬ (ltHour nod = 24) := by rw [e1]; omega
    have ud : ((3145728 : Nat) &&& F.allDate) ≠ (F.year ||| F.monthNum ||| F.dayOfMonth) ∧ hasAny ((3145728 : Nat) &&& F.allDate) F.embeddedDate = true := by
      decide
    have ut : (((3145728 : Nat) &&& F.allTime) &&& F.allTimeExceptFraction ≠ (F.hours24 ||| F.minutes ||| F.seconds)) ∧
        hasAny ((3145728 : Nat) &&& F.allTime) F.embeddedTime = true := by decide
    simp only [dtValueE, bH, hne24, decide_false, Bool.false_eq_true, if_false, dateValueE, ud, bY, bMo, bD,
      timeValueE, ut, bM, bS, bF]
    rw [e1, e2, e3, e4, time_recompose, if_pos ⟨ud.1, trivial⟩]
    dsimp only
    rw [if_pos ⟨ut.1, trivial⟩]
  have hne : outSegs invariantCulture 3145728 y m d nod embSegs ≠ [] := by
    simp only [embSegs, outSegs, outSeg, segSteps, segCu, segUsed, segGetter, outSteps, outStep, embDateSteps, List.nil_append]
    obtain ⟨_, _, hne⟩ := numOut_last 4 (dateGetter y m d .yearOfEra)
    intro h
    exact hne (List.append_eq_nil_iff.mp (List.append_eq_nil_iff.mp h).1).1
  exact segmented_roundtrip tm invariantCulture 3145728 embSegs y m d nod (by decide) embedded_delimited hval hr hne

/-- concrete values through the compiled model: the text written and read back; the template's fraction is kept -/
example : parsePat (.datetime Tmpl.default) "2024-02-29T23:59:58".toList (.segmented invariantCulture 3145728 embSegs) =
    .ok (some [2024, 2, 29, 86398000000000]) := by decide +kernel
example : parsePat (.datetime ⟨1999, 12, 31, 500000000⟩) "2024-02-29T23:59:58".toList (.segmented invariantCulture 3145728 embSegs) =
    .ok (some [2024, 2, 29, 86398500000000]) := by decide +kernel
/-- the hypotheses are satisfiable -/
example : validDate 2024 2 29 ∧ (1 : Int) ≤ 2024 ∧ ltNano 86398000000000 = ltNano Tmpl.default.nod := by decide

end Pyoda.C07
