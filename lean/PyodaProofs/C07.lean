/-
  C07 — formatting then parsing with the same pattern returns the original value.
  Theorems over the modelled subset (PyodaModel/Text): numeric primitives for all values, and the built-in ISO
  patterns as straight-line functions for every value of their type.
-/
import PyodaProofs.TextIsoLemmas

namespace Pyoda.C07
open Pyoda Pyoda.Text

/-! ## numeric primitives -/

/-- `_parse_digits` reads back what `_left_pad_non_negative` wrote, for every value and every width, provided
    the field is delimited: it fills the maximum width or is followed by a non-digit. -/
theorem parseDigits_leftPad (v len min max : Nat) (rest : Text)
    (hmin : min ≤ Nat.max len (numDigits v)) (hmax : Nat.max len (numDigits v) ≤ max)
    (hrest : Nat.max len (numDigits v) = max ∨ NoDigitHead rest) :
    parseDigits min max (leftPadNonNeg v len ++ rest) = some (v, rest) := by
  obtain ⟨w, _, hv, e, _⟩ := leftPadNonNeg_spec v len
  have hw : w = Nat.max len (numDigits v) := by
    have := congrArg List.length e
    simp only [leftPadNonNeg, length_padN] at this
    exact this.symm
  unfold parseDigits
  rw [e, scanDigits_padN w v max rest hv (by omega) (by rcases hrest with h | h; exact Or.inl (by omega); exact Or.inr h)]
  have : ¬ w < min := by omega
  simp [this]

/-- two-digit fast path (`_format_2_digits_non_negative`) -/
theorem parseDigits_pad2 (v : Int) (rest : Text) (h0 : 0 ≤ v) (h1 : v < 100) :
    parseDigits 2 2 (format2 v ++ rest) = some (v.toNat, rest) := by
  rw [format2_eq v h0 h1]
  unfold parseDigits
  rw [scanDigits_padN 2 v.toNat 2 rest (by omega) (Nat.le_refl _) (Or.inl rfl)]
  simp

/-- four-digit fast path (`_format_4_digits_value_fits`), non-negative values; negative ones: `parseField_format4` -/
theorem parseDigits_pad4 (v : Int) (rest : Text) (h0 : 0 ≤ v) (h1 : v ≤ 9999) :
    parseDigits 4 4 (format4 v ++ rest) = some (v.toNat, rest) := by
  rw [format4_nonneg v h0 h1]
  unfold parseDigits
  rw [scanDigits_padN 4 v.toNat 4 rest (by omega) (Nat.le_refl _) (Or.inl rfl)]
  simp

/-- `f…f` (fixed-width fraction): parse returns the value truncated to the digits written; exact when the value
    has no digits beyond `len`. -/
theorem parseFraction_appendFraction (v len scale : Nat) (rest : Text) (h1 : 1 ≤ len) (h2 : len ≤ scale)
    (hv : v < 10 ^ scale) :
    parseFraction len scale len (appendFraction (v : Int) len scale ++ rest) =
      some (v / 10 ^ (scale - len) * 10 ^ (scale - len), rest) := by
  rw [appendFraction_eq v len scale h1 h2 hv]
  have hr : v / 10 ^ (scale - len) < 10 ^ len := by
    have e : 10 ^ scale = 10 ^ (scale - len) * 10 ^ len := by rw [← Nat.pow_add]; congr 1; omega
    rw [e] at hv; exact Nat.div_lt_of_lt_mul hv
  unfold parseFraction
  have hl : ¬ (padN len (v / 10 ^ (scale - len)) ++ rest).length < len := by
    simp [length_padN]
  rw [if_neg hl, scanDigits_padN len _ len rest hr (Nat.le_refl _) (Or.inl rfl)]
  simp

theorem parseFraction_appendFraction_exact (v len scale : Nat) (rest : Text) (h1 : 1 ≤ len) (h2 : len ≤ scale)
    (hv : v < 10 ^ scale) (hrep : v % 10 ^ (scale - len) = 0) :
    parseFraction len scale len (appendFraction (v : Int) len scale ++ rest) = some (v, rest) := by
  rw [parseFraction_appendFraction v len scale rest h1 h2 hv]
  have := Nat.div_add_mod v (10 ^ (scale - len))
  rw [hrep, Nat.mul_comm] at this
  simp at this
  rw [this]

/-- `F…F` (truncating fraction) after a `.`: a zero fraction removes the `.` again; a non-zero one is written
    without trailing zeros and read back exactly (value representable in `len` digits, following text not a digit). -/
theorem parseFraction_appendFractionTruncate (v len scale : Nat) (buf rest : Text) (_h1 : 1 ≤ len) (h2 : len ≤ scale)
    (hv : v < 10 ^ scale) (hrep : v % 10 ^ (scale - len) = 0) (hrest : NoDigitHead rest) (m : Nat) (hm : m ≤ 1) :
    (v = 0 ∧ appendFractionTruncate (v : Int) len scale (buf ++ ['.']) = buf) ∨
    (v ≠ 0 ∧ ∃ ds, appendFractionTruncate (v : Int) len scale (buf ++ ['.']) = buf ++ ['.'] ++ ds ∧
        ds ≠ [] ∧ (∀ c ∈ ds, isDigit c = true) ∧ ds.getLast? ≠ some '0' ∧ ds.length ≤ len ∧
        parseFraction len scale m (ds ++ rest) = some (v, rest)) := by
  have hv' : v = v / 10 ^ (scale - len) * 10 ^ (scale - len) := by
    have := Nat.div_add_mod v (10 ^ (scale - len))
    rw [hrep, Nat.mul_comm] at this
    simp at this; exact this.symm
  rcases appendFractionTruncate_spec v len scale (v / 10 ^ (scale - len)) (buf ++ ['.']) h2 hv rfl with
    ⟨hr0, e⟩ | ⟨r', k, hk1, hk2, hrr, hnz, hlt, e⟩
  · left
    refine ⟨by rw [hv', hr0]; simp, ?_⟩
    rw [e]; simp
  · right
    have hvr : v = r' * 10 ^ (scale - k) := by
      rw [hv', hrr, Nat.mul_assoc, ← Nat.pow_add]
      congr 2; omega
    have hr'pos : r' ≠ 0 := by intro h; rw [h] at hnz; simp at hnz
    refine ⟨?_, padN k r', e, ?_, padN_isDigit k r', ?_, by rw [length_padN]; exact hk2, ?_⟩
    · intro h; rw [h] at hvr
      have hp : 0 < 10 ^ (scale - k) := Nat.pow_pos (by decide)
      have : 0 < r' * 10 ^ (scale - k) := Nat.mul_pos (by omega) hp
      omega
    · intro h; have := congrArg List.length h; simp [length_padN] at this; omega
    · obtain ⟨j, rfl⟩ : ∃ j, k = j + 1 := ⟨k - 1, by omega⟩
      rw [getLast?_padN_succ]
      intro h; injection h with h
      exact digitChar_ne_zero _ (by rw [Nat.mod_mod]; exact hnz) h
    · unfold parseFraction
      have hl : ¬ (padN k r' ++ rest).length < m := by simp [length_padN]; omega
      rw [if_neg hl, scanDigits_padN k r' len rest hlt hk2 (Or.inr hrest)]
      have : ¬ k < m := by omega
      simp [this, hvr]

/-- the trailing-dot removal: a fraction whose written digits are all zero leaves no `.` behind -/
theorem appendFractionTruncate_removes_dot (v len scale : Nat) (buf : Text) (h2 : len ≤ scale)
    (hv : v < 10 ^ scale) (hz : v / 10 ^ (scale - len) = 0) :
    appendFractionTruncate (v : Int) len scale (buf ++ ['.']) = buf := by
  rcases appendFractionTruncate_spec v len scale _ (buf ++ ['.']) h2 hv rfl with
    ⟨_, e⟩ | ⟨r', k, _, _, hrr, hnz, _, _⟩
  · rw [e]; simp
  · rw [hz] at hrr
    have hp : 0 < 10 ^ (len - k) := Nat.pow_pos (by decide)
    have : r' = 0 := by
      rcases Nat.eq_zero_or_pos r' with h | h
      · exact h
      · have := Nat.mul_pos h hp; omega
    rw [this] at hnz; simp at hnz

/-! ## the built-in ISO patterns: every value of the type round-trips -/

/-- the `HH':'mm':'ss` part of every time of day: three two-digit fields -/
theorem fmtHms_eq (nod : Int) (h0 : 0 ≤ nod) (h1 : nod < 86400000000000) :
    fmtHms nod = format2 (nod / 3600000000000) ++ [':'] ++ format2 (nod / 60000000000 % 60) ++ [':'] ++
      format2 (nod / 1000000000 % 60) := by
  obtain ⟨e1, e2, e3, _⟩ := time_accessors nod h0 h1
  unfold fmtHms; rw [e1, e2, e3]

theorem parseWhole_ok {α : Type} (p : Text → R (Option (α × Text))) (l : Text) (v : α) (hl : l ≠ [])
    (hp : p l = .ok (some (v, []))) : parseWhole p l = .ok (some v) := by
  unfold parseWhole; rw [if_neg hl, hp]; simp

theorem format2_ne_nil (v : Int) (h0 : 0 ≤ v) (h1 : v < 100) (rest : Text) : format2 v ++ rest ≠ [] := by
  rw [format2_eq v h0 h1]
  intro h; have := congrArg List.length h; simp [length_padN] at this

theorem format4_ne_nil (v : Int) (rest : Text) (h0 : -9999 ≤ v) (h1 : v ≤ 9999) : format4 v ++ rest ≠ [] := by
  by_cases hv : 0 ≤ v
  · rw [format4_nonneg v hv h1]; intro h; have := congrArg List.length h; simp [length_padN] at this
  · rw [format4_neg v (by omega) h0]; simp

/-- the sub-second part `;FFFFFFFFF` written after `prefix ++ "."` and followed by `tail` (empty or `Z`):
    either the dot is removed and the fraction is zero, or the digits are read back exactly -/
theorem optF9_roundtrip (n : Int) (hn0 : 0 ≤ n) (hn1 : n < 1000000000) (pre tail : Text)
    (htail : tail = [] ∨ ∃ t, tail = 'Z' :: t) :
    ∃ out, appendFractionTruncate n 9 9 (pre ++ ['.']) = pre ++ out ∧
      fracPart .optF9 (out ++ tail) = some (n, tail) := by
  have hnd : NoDigitHead tail := by
    rcases htail with h | ⟨t, h⟩
    · rw [h]; exact noDigitHead_nil
    · rw [h]; exact noDigitHead_cons (by decide)
  have hcast : n = ((n.toNat : Nat) : Int) := by omega
  rw [hcast]
  rcases parseFraction_appendFractionTruncate n.toNat 9 9 pre tail (by decide) (by decide) (by omega) (Nat.mod_one _)
      hnd 1 (Nat.le_refl _) with ⟨hz, e⟩ | ⟨_, ds, e, _, _, _, _, hp⟩
  · refine ⟨[], by rw [e]; simp, ?_⟩
    rw [hz]
    rcases htail with h | ⟨t, h⟩
    · rw [h]; exact fracPart_optF9_nil
    · rw [h]; exact fracPart_optF9_Z t
  · refine ⟨'.' :: ds, by rw [e]; simp, ?_⟩
    rw [List.cons_append, fracPart_optF9_dot, hp]

/-- LocalTimePattern.extended_iso: every nanosecond of the day -/
theorem iso_time_roundtrip (nod : Int) (h0 : 0 ≤ nod) (h1 : nod < 86400000000000) :
    parseIsoTime (fmtIsoTime nod) = .ok (some nod) := by
  obtain ⟨_, _, _, e4⟩ := time_accessors nod h0 h1
  obtain ⟨out, eo, ep⟩ := optF9_roundtrip (nod % 1000000000) (by omega) (by omega) (fmtHms nod) [] (Or.inl rfl)
  unfold parseIsoTime fmtIsoTime fmtIsoTimeOn
  rw [e4, List.nil_append, eo, fmtHms_eq nod h0 h1]
  apply parseWhole_ok
  · simp only [List.append_assoc]; exact format2_ne_nil _ (by omega) (by omega) _
  · unfold parseTimePartial
    rw [timeFields_hms 23 .optF9 _ _ _ out (by omega) (by omega) (by omega) (by omega) (by omega) (by omega) (by omega)]
    rw [List.append_nil] at ep
    rw [ep]
    simp only [time_recompose]

/-- LocalTimePattern.long_extended_iso: every nanosecond of the day -/
theorem iso_time_long_roundtrip (nod : Int) (h0 : 0 ≤ nod) (h1 : nod < 86400000000000) :
    parseIsoTimeLong (fmtIsoTimeLong nod) = .ok (some nod) := by
  obtain ⟨_, _, _, e4⟩ := time_accessors nod h0 h1
  unfold parseIsoTimeLong fmtIsoTimeLong
  rw [e4, fmtHms_eq nod h0 h1]
  have hcast : nod % 1000000000 = (((nod % 1000000000).toNat : Nat) : Int) := by omega
  apply parseWhole_ok
  · simp only [List.append_assoc]; exact format2_ne_nil _ (by omega) (by omega) _
  · unfold parseTimePartial
    rw [List.append_assoc _ ['.'] _]
    rw [timeFields_hms 23 .dotf9 _ _ _ _ (by omega) (by omega) (by omega) (by omega) (by omega) (by omega) (by omega)]
    have hp := parseFraction_appendFraction_exact (nod % 1000000000).toNat 9 9 [] (by decide) (by decide) (by omega) (Nat.mod_one _)
    rw [← hcast, List.append_nil] at hp
    simp only [fracPart, List.cons_append, List.nil_append, matchChar_self, hp]
    rw [← hcast]
    simp only [time_recompose]

/-- LocalTimePattern.general_iso: every whole second of the day -/
theorem iso_time_general_roundtrip (nod : Int) (h0 : 0 ≤ nod) (h1 : nod < 86400000000000)
    (hsec : nod % 1000000000 = 0) :
    parseIsoTimeGeneral (fmtIsoTimeGeneral nod) = .ok (some nod) := by
  unfold parseIsoTimeGeneral fmtIsoTimeGeneral
  rw [fmtHms_eq nod h0 h1]
  apply parseWhole_ok
  · simp only [List.append_assoc]; exact format2_ne_nil _ (by omega) (by omega) _
  · unfold parseTimePartial
    have := timeFields_hms 23 .none (nod / 3600000000000) (nod / 60000000000 % 60) (nod / 1000000000 % 60) []
      (by omega) (by omega) (by omega) (by omega) (by omega) (by omega) (by omega)
    rw [List.append_nil] at this
    rw [this]
    simp only [fracPart]
    have := time_recompose nod
    rw [hsec] at this
    rw [this]

/-- LocalDatePattern.iso: every valid ISO date (years −9998 … 9999) -/
theorem iso_date_roundtrip (y m d : Int) (hv : validDate y m d) :
    parseIsoDate (fmtIsoDate y m d) = .ok (some (y, m, d)) := by
  have hv' := hv
  obtain ⟨h1, h2, h3, h4, h5, h6⟩ := hv
  have hb := daysInMonth_bounds y m
  unfold ISO_MIN_YEAR ISO_MAX_YEAR at *
  unfold parseIsoDate
  apply parseWhole_ok
  · unfold fmtIsoDate; simp only [List.append_assoc]; exact format4_ne_nil _ _ (by omega) (by omega)
  · unfold parseIsoDatePartial
    have := dateFields_fmt y m d [] (by omega) (by omega) h3 (by omega) h5 (by omega)
    rw [List.append_nil] at this
    rw [this]
    simp only [isoDateValue_valid y m d hv']

theorem combineDateTime_plain (y m d h mi s n : Int) (hv : validDate y m d) (hh : h ≠ 24) :
    combineDateTime y m d h mi s n = .ok (some (y, m, d, ltFromHmsn h mi s n)) := by
  unfold combineDateTime
  simp only [isoDateValue_valid y m d hv, hh, decide_false, Bool.false_eq_true, if_false]

/-- LocalDateTimePattern.extended_iso: every valid date with every nanosecond of the day -/
theorem iso_datetime_roundtrip (y m d nod : Int) (hv : validDate y m d) (h0 : 0 ≤ nod) (h1 : nod < 86400000000000) :
    parseIsoDateTime (fmtIsoDateTime y m d nod) = .ok (some (y, m, d, nod)) := by
  have hv' := hv
  obtain ⟨hy1, hy2, hm1, hm2, hd1, hd2⟩ := hv
  have hb := daysInMonth_bounds y m
  unfold ISO_MIN_YEAR ISO_MAX_YEAR at *
  obtain ⟨_, _, _, e4⟩ := time_accessors nod h0 h1
  obtain ⟨out, eo, ep⟩ := optF9_roundtrip (nod % 1000000000) (by omega) (by omega)
    (fmtIsoDate y m d ++ ['T'] ++ fmtHms nod) [] (Or.inl rfl)
  unfold parseIsoDateTime fmtIsoDateTime fmtIsoTimeOn
  rw [e4, eo, fmtHms_eq nod h0 h1]
  apply parseWhole_ok
  · unfold fmtIsoDate; simp only [List.append_assoc]; exact format4_ne_nil _ _ (by omega) (by omega)
  · unfold parseDateTimePartial
    simp only [List.append_assoc]
    rw [dateFields_fmt y m d _ (by omega) (by omega) hm1 (by omega) hd1 (by omega)]
    simp only [List.cons_append, List.nil_append, matchChar_self]
    have := timeFields_hms 24 .optF9 (nod / 3600000000000) (nod / 60000000000 % 60) (nod / 1000000000 % 60) out
      (by omega) (by omega) (by omega) (by omega) (by omega) (by omega) (by omega)
    simp only [List.append_assoc, List.cons_append, List.nil_append] at this
    rw [this]
    rw [List.append_nil] at ep
    rw [ep]
    simp only [combineDateTime_plain y m d _ _ _ _ hv' (by omega : nod / 3600000000000 ≠ 24), time_recompose]

/-- LocalDateTimePattern.general_iso: every valid date with every whole second -/
theorem iso_datetime_general_roundtrip (y m d nod : Int) (hv : validDate y m d) (h0 : 0 ≤ nod)
    (h1 : nod < 86400000000000) (hsec : nod % 1000000000 = 0) :
    parseIsoDateTimeGeneral (fmtIsoDateTimeGeneral y m d nod) = .ok (some (y, m, d, nod)) := by
  have hv' := hv
  obtain ⟨hy1, hy2, hm1, hm2, hd1, hd2⟩ := hv
  have hb := daysInMonth_bounds y m
  unfold ISO_MIN_YEAR ISO_MAX_YEAR at *
  unfold parseIsoDateTimeGeneral fmtIsoDateTimeGeneral
  rw [fmtHms_eq nod h0 h1]
  apply parseWhole_ok
  · unfold fmtIsoDate; simp only [List.append_assoc]; exact format4_ne_nil _ _ (by omega) (by omega)
  · unfold parseDateTimePartial
    simp only [List.append_assoc]
    rw [dateFields_fmt y m d _ (by omega) (by omega) hm1 (by omega) hd1 (by omega)]
    simp only [List.cons_append, List.nil_append, matchChar_self]
    have := timeFields_hms 24 .none (nod / 3600000000000) (nod / 60000000000 % 60) (nod / 1000000000 % 60) []
      (by omega) (by omega) (by omega) (by omega) (by omega) (by omega) (by omega)
    simp only [List.append_assoc, List.cons_append, List.nil_append, List.append_nil] at this
    rw [this]
    simp only [fracPart]
    have ht := time_recompose nod
    rw [hsec] at ht
    simp only [combineDateTime_plain y m d _ _ _ _ hv' (by omega : nod / 3600000000000 ≠ 24), ht]

/-- LocalDateTimePattern.bcl_round_trip: every valid date with every whole tick (100 ns) of the day -/
theorem iso_datetime_bcl_roundtrip (y m d nod : Int) (hv : validDate y m d) (h0 : 0 ≤ nod)
    (h1 : nod < 86400000000000) (htick : nod % 100 = 0) :
    parseIsoDateTimeBcl (fmtIsoDateTimeBcl y m d nod) = .ok (some (y, m, d, nod)) := by
  have hv' := hv
  obtain ⟨hy1, hy2, hm1, hm2, hd1, hd2⟩ := hv
  have hb := daysInMonth_bounds y m
  unfold ISO_MIN_YEAR ISO_MAX_YEAR at *
  obtain ⟨_, _, _, e4⟩ := time_accessors nod h0 h1
  unfold parseIsoDateTimeBcl fmtIsoDateTimeBcl
  rw [e4, fmtHms_eq nod h0 h1]
  have hcast : nod % 1000000000 = (((nod % 1000000000).toNat : Nat) : Int) := by omega
  apply parseWhole_ok
  · unfold fmtIsoDate; simp only [List.append_assoc]; exact format4_ne_nil _ _ (by omega) (by omega)
  · unfold parseDateTimePartial
    simp only [List.append_assoc]
    rw [dateFields_fmt y m d _ (by omega) (by omega) hm1 (by omega) hd1 (by omega)]
    simp only [List.cons_append, List.nil_append, matchChar_self]
    have := timeFields_hms 24 .dotf7 (nod / 3600000000000) (nod / 60000000000 % 60) (nod / 1000000000 % 60)
      ('.' :: appendFraction (nod % 1000000000) 7 9)
      (by omega) (by omega) (by omega) (by omega) (by omega) (by omega) (by omega)
    simp only [List.append_assoc, List.cons_append, List.nil_append] at this
    rw [this]
    have hp := parseFraction_appendFraction_exact (nod % 1000000000).toNat 7 9 [] (by decide) (by decide) (by omega)
      (by show _ % 100 = 0; omega)
    rw [← hcast, List.append_nil] at hp
    simp only [fracPart, matchChar_self, hp]
    rw [← hcast]
    simp only [combineDateTime_plain y m d _ _ _ _ hv' (by omega : nod / 3600000000000 ≠ 24), time_recompose]

/-- InstantPattern.extended_iso over the UTC date-time fields of the instant: every instant -/
theorem iso_instant_roundtrip (y m d nod : Int) (hv : validDate y m d) (h0 : 0 ≤ nod) (h1 : nod < 86400000000000) :
    parseIsoInstant (fmtIsoInstant y m d nod) = .ok (some (y, m, d, nod)) := by
  have hv' := hv
  obtain ⟨hy1, hy2, hm1, hm2, hd1, hd2⟩ := hv
  have hb := daysInMonth_bounds y m
  unfold ISO_MIN_YEAR ISO_MAX_YEAR at *
  obtain ⟨_, _, _, e4⟩ := time_accessors nod h0 h1
  obtain ⟨out, eo, ep⟩ := optF9_roundtrip (nod % 1000000000) (by omega) (by omega)
    (fmtIsoDate y m d ++ ['T'] ++ fmtHms nod) ['Z'] (Or.inr ⟨[], rfl⟩)
  unfold parseIsoInstant fmtIsoInstant fmtIsoDateTime fmtIsoTimeOn
  rw [e4, eo, fmtHms_eq nod h0 h1]
  apply parseWhole_ok
  · unfold fmtIsoDate; simp only [List.append_assoc]; exact format4_ne_nil _ _ (by omega) (by omega)
  · unfold parseInstantPartial
    simp only [List.append_assoc]
    rw [dateFields_fmt y m d _ (by omega) (by omega) hm1 (by omega) hd1 (by omega)]
    simp only [List.cons_append, List.nil_append, matchChar_self]
    have := timeFields_hms 24 .optF9 (nod / 3600000000000) (nod / 60000000000 % 60) (nod / 1000000000 % 60) (out ++ ['Z'])
      (by omega) (by omega) (by omega) (by omega) (by omega) (by omega) (by omega)
    simp only [List.append_assoc, List.cons_append, List.nil_append] at this
    rw [this, ep]
    simp only [matchChar_self, combineDateTime_plain y m d _ _ _ _ hv' (by omega : nod / 3600000000000 ≠ 24), time_recompose]

/-- InstantPattern.general over the UTC date-time fields: every instant of whole seconds -/
theorem iso_instant_general_roundtrip (y m d nod : Int) (hv : validDate y m d) (h0 : 0 ≤ nod)
    (h1 : nod < 86400000000000) (hsec : nod % 1000000000 = 0) :
    parseInstantGeneral (fmtInstantGeneral y m d nod) = .ok (some (y, m, d, nod)) := by
  have hv' := hv
  obtain ⟨hy1, hy2, hm1, hm2, hd1, hd2⟩ := hv
  have hb := daysInMonth_bounds y m
  unfold ISO_MIN_YEAR ISO_MAX_YEAR at *
  unfold parseInstantGeneral fmtInstantGeneral fmtIsoDateTimeGeneral
  rw [fmtHms_eq nod h0 h1]
  apply parseWhole_ok
  · unfold fmtIsoDate; simp only [List.append_assoc]; exact format4_ne_nil _ _ (by omega) (by omega)
  · unfold parseInstantPartial
    simp only [List.append_assoc]
    rw [dateFields_fmt y m d _ (by omega) (by omega) hm1 (by omega) hd1 (by omega)]
    simp only [List.cons_append, List.nil_append, matchChar_self]
    have := timeFields_hms 24 .none (nod / 3600000000000) (nod / 60000000000 % 60) (nod / 1000000000 % 60) ['Z']
      (by omega) (by omega) (by omega) (by omega) (by omega) (by omega) (by omega)
    simp only [List.append_assoc, List.cons_append, List.nil_append] at this
    rw [this]
    simp only [fracPart, matchChar_self]
    have ht := time_recompose nod
    rw [hsec] at ht
    simp only [combineDateTime_plain y m d _ _ _ _ hv' (by omega : nod / 3600000000000 ≠ 24), ht]

end Pyoda.C07
