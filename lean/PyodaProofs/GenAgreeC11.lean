/-
  GenAgreeC11 — agreement between the `OffsetDateTime` / `OffsetTime` code GENERATED from pyoda_time's Python source
  (`PyodaGen/C11.lean`: `_offset_time.py` with its packed nanosecond-of-day / offset-seconds word, `_offset_date_time.py`:
  `_ctor(instant, offset, calendar)`, `to_instant`, `with_offset`, `with_calendar`, `+`, `-`, `==`) and the model
  `PyodaModel/OffsetTypes.lean`.

  The model packs `nanosecond_of_day | offset_seconds << 47` as the sum `nod + seconds·2^47`, which is what the bitwise or is
  for `0 ≤ nod < 2^47` (`pyOr_pack`); every agreement that builds an `OffsetTime` carries that domain as a hypothesis on the
  inputs (a valid time of day, offsets inside ±24 h), under which the carries leave the nanosecond of day in `[0, 24 h)`.
-/
import PyodaGen.C11
import PyodaModel.OffsetTypes
import PyodaProofs.Basic
import PyodaProofs.GenAgreeBits

namespace Pyoda.GenAgree.C11
open Pyoda Pyoda.GenAgree.Bits

theorem pyOr_pack (n os : Int) (h0 : 0 ≤ n) (h1 : n < 140737488355328) :
    Gen.pyOr n (os * 2 ^ 47) = n + os * OffsetTime.NANO_BITS_POW := by
  rw [pyOr_comm, pyOr_low47 os n h0 h1]
  unfold OffsetTime.NANO_BITS_POW
  omega

/-! ## OffsetTime -/

theorem gen_OffsetTime_ofParts_eq (n os : Int) (h0 : 0 ≤ n) (h1 : n < 140737488355328) :
    Gen.C11.OffsetTime.ofParts n os = OffsetTime.ofParts n os := by
  unfold Gen.C11.OffsetTime.ofParts OffsetTime.ofParts
  rw [pyOr_pack n os h0 h1]

theorem gen_OffsetTime_new_eq (t : LocalTime) (o : Offset) (h0 : 0 ≤ t.nod) (h1 : t.nod < 140737488355328) :
    Gen.C11.OffsetTime.new t o = OffsetTime.ofParts t.nod o.seconds := by
  unfold Gen.C11.OffsetTime.new OffsetTime.ofParts
  show (⟨Gen.pyOr t.nod (o.seconds * 2 ^ 47)⟩ : OffsetTime) = _
  rw [pyOr_pack t.nod o.seconds h0 h1]

theorem gen_OffsetTime_ofZeroOffset_eq (n : Int) : Gen.C11.OffsetTime.ofZeroOffset n = ⟨n⟩ := rfl

theorem gen_OffsetTime_nanosecondOfDay_eq (t : OffsetTime) : Gen.C11.OffsetTime.nanosecondOfDay t = t.nanosecondOfDay := by
  unfold Gen.C11.OffsetTime.nanosecondOfDay OffsetTime.nanosecondOfDay OffsetTime.NANO_BITS_POW
  exact fmod_pos _ _ (by decide)

theorem nod_range (t : OffsetTime) : 0 ≤ t.nanosecondOfDay ∧ t.nanosecondOfDay < 140737488355328 := by
  unfold OffsetTime.nanosecondOfDay OffsetTime.NANO_BITS_POW
  exact ⟨Int.emod_nonneg _ (by decide), Int.emod_lt_of_pos _ (by decide)⟩

theorem gen_OffsetTime_offsetSeconds_eq (t : OffsetTime) : Gen.C11.OffsetTime.offsetSeconds t = t.offsetSeconds := rfl
theorem gen_OffsetTime_offsetNanoseconds_eq (t : OffsetTime) : Gen.C11.OffsetTime.offsetNanoseconds t = t.offsetNanoseconds := rfl

theorem gen_OffsetTime_timeOfDay_eq (t : OffsetTime) : Gen.C11.OffsetTime.timeOfDay t = ⟨t.nanosecondOfDay⟩ := by
  unfold Gen.C11.OffsetTime.timeOfDay
  rw [gen_OffsetTime_nanosecondOfDay_eq]

theorem gen_OffsetTime_offset_eq (t : OffsetTime) : Gen.C11.OffsetTime.offset t = t.offset := rfl

theorem gen_OffsetTime_hour_eq (t : OffsetTime) : Gen.C11.OffsetTime.hour t = t.hour := by
  unfold Gen.C11.OffsetTime.hour OffsetTime.hour
  rw [gen_OffsetTime_nanosecondOfDay_eq]

theorem gen_OffsetTime_minute_eq (t : OffsetTime) : Gen.C11.OffsetTime.minute t = t.minute := by
  unfold Gen.C11.OffsetTime.minute OffsetTime.minute
  rw [gen_OffsetTime_nanosecondOfDay_eq]
  all_goals rfl

theorem gen_OffsetTime_second_eq (t : OffsetTime) : Gen.C11.OffsetTime.second t = t.second := by
  unfold Gen.C11.OffsetTime.second OffsetTime.second
  rw [gen_OffsetTime_nanosecondOfDay_eq]
  all_goals rfl

theorem gen_OffsetTime_millisecond_eq (t : OffsetTime) : Gen.C11.OffsetTime.millisecond t = t.millisecond := by
  unfold Gen.C11.OffsetTime.millisecond OffsetTime.millisecond
  rw [gen_OffsetTime_nanosecondOfDay_eq]
  all_goals rfl

theorem gen_OffsetTime_tickOfDay_eq (t : OffsetTime) : Gen.C11.OffsetTime.tickOfDay t = t.tickOfDay := by
  unfold Gen.C11.OffsetTime.tickOfDay OffsetTime.tickOfDay
  rw [gen_OffsetTime_nanosecondOfDay_eq]
  all_goals rfl

theorem gen_OffsetTime_tickOfSecond_eq (t : OffsetTime) : Gen.C11.OffsetTime.tickOfSecond t = t.tickOfSecond := by
  unfold Gen.C11.OffsetTime.tickOfSecond OffsetTime.tickOfSecond
  rw [gen_OffsetTime_tickOfDay_eq]
  all_goals rfl

theorem gen_OffsetTime_nanosecondOfSecond_eq (t : OffsetTime) :
    Gen.C11.OffsetTime.nanosecondOfSecond t = t.nanosecondOfSecond := by
  unfold Gen.C11.OffsetTime.nanosecondOfSecond OffsetTime.nanosecondOfSecond
  rw [gen_OffsetTime_nanosecondOfDay_eq]
  all_goals rfl

/-- `with_offset` re-packs the masked nanosecond of day, which is always inside the packing domain -/
theorem gen_OffsetTime_withOffset_eq (t : OffsetTime) (o : Offset) : Gen.C11.OffsetTime.withOffset t o = t.withOffset o := by
  unfold Gen.C11.OffsetTime.withOffset OffsetTime.withOffset
  rw [gen_OffsetTime_timeOfDay_eq]
  exact gen_OffsetTime_new_eq ⟨t.nanosecondOfDay⟩ o (nod_range t).1 (nod_range t).2

/-- `==`: equal times of day and equal offsets (`Offset._ctor` re-validates the stored seconds, hence the hypotheses) -/
theorem gen_OffsetTime_beq_eq (a b : OffsetTime) (oa ob : Offset) (ha : a.offset = .ok oa) (hb : b.offset = .ok ob) :
    Gen.C11.OffsetTime.beq a b =
      .ok (decide (a.nanosecondOfDay = b.nanosecondOfDay) && decide (a.offsetSeconds = b.offsetSeconds)) := by
  unfold Gen.C11.OffsetTime.beq Gen.C11Glue.timeEq Gen.C11Glue.offsetEq
  rw [gen_OffsetTime_timeOfDay_eq, gen_OffsetTime_timeOfDay_eq, gen_OffsetTime_offset_eq, gen_OffsetTime_offset_eq, ha, hb]
  have ea : oa.seconds = a.offsetSeconds := by
    unfold OffsetTime.offset Offset.ctor checkRange at ha
    split at ha
    · cases ha
    · cases ha; rfl
  have eb : ob.seconds = b.offsetSeconds := by
    unfold OffsetTime.offset Offset.ctor checkRange at hb
    split at hb
    · cases hb
    · cases hb; rfl
  by_cases h : a.nanosecondOfDay = b.nanosecondOfDay
  · simp only [h, decide_true, if_true, bind, Except.bind, ea, eb, Bool.true_and]
  · simp only [h, decide_false, Bool.false_eq_true, if_false, Bool.false_and]

/-! ## OffsetDateTime -/

theorem gen_ODT_ofParts_eq (d : Date) (t : OffsetTime) : Gen.C11.ODT.ofParts d t = ⟨d, t⟩ := rfl
theorem gen_ODT_calendar_eq (x : OffsetDateTime) : Gen.C11.ODT.calendar x = x.calendar := rfl
theorem gen_ODT_date_eq (x : OffsetDateTime) : Gen.C11.ODT.date x = x.date := rfl
theorem gen_ODT_toOffsetTime_eq (x : OffsetDateTime) : Gen.C11.ODT.toOffsetTime x = x.ot := rfl
theorem gen_ODT_nanosecondOfDay_eq (x : OffsetDateTime) : Gen.C11.ODT.nanosecondOfDay x = x.nanosecondOfDay :=
  gen_OffsetTime_nanosecondOfDay_eq x.ot
theorem gen_ODT_offset_eq (x : OffsetDateTime) : Gen.C11.ODT.offset x = x.ot.offset := rfl

/-- `_ctor(instant=, offset=, calendar=)` (= `Instant.with_offset`): one day carry, then the calendar's range check.
    For a normalised instant and an offset inside ±24 h the carried nanosecond of day is a time of day. -/
theorem gen_ODT_ofInstant_eq (i : Instant) (o : Offset) (c : Cal) (hi0 : 0 ≤ i.dur.nod) (hi1 : i.dur.nod < NPD)
    (ho0 : -86400 < o.seconds) (ho1 : o.seconds < 86400) :
    Gen.C11.ODT.ofInstant i o c = OffsetDateTime.ofInstant i o c := by
  unfold Gen.C11.ODT.ofInstant OffsetDateTime.ofInstant Offset.nanoseconds
  have hNPD : NPD = 86400000000000 := rfl
  have hNPS : NPS = 1000000000 := rfl
  rw [hNPD] at hi1 ⊢
  rw [hNPS]
  by_cases h1 : i.dur.nod + o.seconds * 1000000000 ≥ 86400000000000
  · simp only [h1, if_true]
    cases Date.ofDays c (i.dur.days + 1) with
    | error e => rfl
    | ok d =>
      simp only [bind, Except.bind]
      rw [gen_OffsetTime_ofParts_eq _ _ (by omega) (by omega)]
  · simp only [h1, if_false]
    by_cases h2 : i.dur.nod + o.seconds * 1000000000 < 0
    · simp only [h2, if_true]
      cases Date.ofDays c (i.dur.days - 1) with
      | error e => rfl
      | ok d =>
        simp only [bind, Except.bind]
        rw [gen_OffsetTime_ofParts_eq _ _ (by omega) (by omega)]
    · simp only [h2, if_false]
      cases Date.ofDays c i.dur.days with
      | error e => rfl
      | ok d =>
        simp only [bind, Except.bind]
        rw [gen_OffsetTime_ofParts_eq _ _ (by omega) (by omega)]

theorem gen_ODT_toElapsed_eq (x : OffsetDateTime) : Gen.C11.ODT.toElapsed x = x.toElapsed := by
  unfold Gen.C11.ODT.toElapsed OffsetDateTime.toElapsed
  simp only [gen_ODT_nanosecondOfDay_eq, gen_OffsetTime_offsetNanoseconds_eq]
  cases Duration.ctor x.date.days x.nanosecondOfDay with
  | error e => rfl
  | ok d =>
    show (Duration.minusSmallNanos d x.ot.offsetNanoseconds >>= fun e => Except.ok e) = Duration.minusSmallNanos d x.ot.offsetNanoseconds
    cases Duration.minusSmallNanos d x.ot.offsetNanoseconds <;> rfl

theorem gen_ODT_toInstant_eq (x : OffsetDateTime) : Gen.C11.ODT.toInstant x = x.toInstant := by
  unfold Gen.C11.ODT.toInstant OffsetDateTime.toInstant
  rw [gen_ODT_toElapsed_eq]

/-- `with_offset`: up to two day carries in either direction; the date moves with `plus_days` only when a carry happened -/
theorem gen_ODT_withOffset_eq (x : OffsetDateTime) (o : Offset) (hx : x.ot.nanosecondOfDay < NPD)
    (hxo0 : -86400 < x.ot.offsetSeconds) (hxo1 : x.ot.offsetSeconds < 86400) (ho0 : -86400 < o.seconds) (ho1 : o.seconds < 86400) :
    Gen.C11.ODT.withOffset x o = x.withOffset o := by
  unfold Gen.C11.ODT.withOffset OffsetDateTime.withOffset Offset.nanoseconds OffsetTime.offsetNanoseconds
  have hNPD : NPD = 86400000000000 := rfl
  have hNPS : NPS = 1000000000 := rfl
  have h0 := (nod_range x.ot).1
  rw [hNPD] at hx ⊢
  rw [hNPS]
  simp only [gen_OffsetTime_nanosecondOfDay_eq, gen_OffsetTime_offsetNanoseconds_eq, gen_ODT_ofParts_eq, OffsetTime.offsetNanoseconds, hNPS]
  generalize hn : x.ot.nanosecondOfDay + o.seconds * 1000000000 - x.ot.offsetSeconds * 1000000000 = n
  have hnb : -172800000000000 < n ∧ n < 259200000000000 := by omega
  simp only [show ((0 : Int) + 1 + 1) = 2 from rfl, show ((0 : Int) + 1) = 1 from rfl, show ((0 : Int) - 1 - 1) = -2 from rfl,
    show ((0 : Int) - 1) = -1 from rfl, show ((1 : Int) + 1) = 2 from rfl, show ((-1 : Int) - 1) = -2 from rfl, (by decide : ((2 : Int) = 0) = False), (by decide : ((1 : Int) = 0) = False),
    (by decide : ((-2 : Int) = 0) = False), (by decide : ((-1 : Int) = 0) = False), if_false, if_true]
  by_cases h1 : n ≥ 86400000000000
  · simp only [h1, if_true]
    by_cases h2 : n - 86400000000000 ≥ 86400000000000
    · simp only [h2, if_true]
      cases hp : x.date.plusDays 2 with
      | error e => rfl
      | ok d =>
        simp only [bind, Except.bind]
        rw [gen_OffsetTime_ofParts_eq _ _ (by omega) (by omega)]
        rfl
    · simp only [h2, if_false]
      cases hp : x.date.plusDays 1 with
      | error e => rfl
      | ok d =>
        simp only [bind, Except.bind]
        rw [gen_OffsetTime_ofParts_eq _ _ (by omega) (by omega)]
        rfl
  · simp only [h1, if_false]
    by_cases h3 : n < 0
    · simp only [h3, if_true]
      by_cases h4 : n + 86400000000000 < 0
      · simp only [h4, if_true]
        cases hp : x.date.plusDays (-2) with
        | error e => rfl
        | ok d =>
          simp only [bind, Except.bind]
          rw [gen_OffsetTime_ofParts_eq _ _ (by omega) (by omega)]
          rfl
      · simp only [h4, if_false]
        cases hp : x.date.plusDays (-1) with
        | error e => rfl
        | ok d =>
          simp only [bind, Except.bind]
          rw [gen_OffsetTime_ofParts_eq _ _ (by omega) (by omega)]
          rfl
    · simp only [h3, if_false, bind, Except.bind]
      rw [gen_OffsetTime_ofParts_eq _ _ (by omega) (by omega)]
      rfl

theorem gen_ODT_withCalendar_eq (x : OffsetDateTime) (c : Cal) : Gen.C11.ODT.withCalendar x c = x.withCalendar c := rfl

/-- `odt + duration`: through the instant, keeping offset and calendar -/
theorem gen_ODT_plus_eq (x : OffsetDateTime) (d : Duration)
    (hdom : ∀ i o, x.toInstant = .ok i → x.ot.offset = .ok o → ∀ j, Instant.plus i d = .ok j →
      0 ≤ j.dur.nod ∧ j.dur.nod < NPD ∧ -86400 < o.seconds ∧ o.seconds < 86400) :
    Gen.C11.ODT.plus x d = x.plus d := by
  unfold Gen.C11.ODT.plus OffsetDateTime.plus
  rw [gen_ODT_toInstant_eq, gen_ODT_offset_eq, gen_ODT_calendar_eq]
  cases hi : x.toInstant with
  | error e => rfl
  | ok i =>
    simp only [bind, Except.bind]
    cases hj : Instant.plus i d with
    | error e => rfl
    | ok j =>
      simp only
      cases ho : x.ot.offset with
      | error e => rfl
      | ok o =>
        simp only
        obtain ⟨a, b, c', d'⟩ := hdom i o hi ho j hj
        exact gen_ODT_ofInstant_eq j o x.calendar a b c' d'

theorem gen_ODT_plusMethod_eq (x : OffsetDateTime) (d : Duration)
    (hdom : ∀ i o, x.toInstant = .ok i → x.ot.offset = .ok o → ∀ j, Instant.plus i d = .ok j →
      0 ≤ j.dur.nod ∧ j.dur.nod < NPD ∧ -86400 < o.seconds ∧ o.seconds < 86400) :
    Gen.C11.ODT.plusMethod x d = x.plus d := gen_ODT_plus_eq x d hdom

theorem gen_ODT_minusDur_eq (x : OffsetDateTime) (d : Duration)
    (hdom : ∀ i o, x.toInstant = .ok i → x.ot.offset = .ok o → ∀ j, Instant.minusDur i d = .ok j →
      0 ≤ j.dur.nod ∧ j.dur.nod < NPD ∧ -86400 < o.seconds ∧ o.seconds < 86400) :
    Gen.C11.ODT.minusDur x d = x.minusDur d := by
  unfold Gen.C11.ODT.minusDur OffsetDateTime.minusDur
  rw [gen_ODT_toInstant_eq, gen_ODT_offset_eq, gen_ODT_calendar_eq]
  cases hi : x.toInstant with
  | error e => rfl
  | ok i =>
    simp only [bind, Except.bind]
    cases hj : Instant.minusDur i d with
    | error e => rfl
    | ok j =>
      simp only
      cases ho : x.ot.offset with
      | error e => rfl
      | ok o =>
        simp only
        obtain ⟨a, b, c', d'⟩ := hdom i o hi ho j hj
        exact gen_ODT_ofInstant_eq j o x.calendar a b c' d'

theorem gen_ODT_minus_eq (a b : OffsetDateTime) : Gen.C11.ODT.minus a b = a.minus b := by
  unfold Gen.C11.ODT.minus OffsetDateTime.minus
  rw [gen_ODT_toInstant_eq, gen_ODT_toInstant_eq]

theorem gen_ODT_beq_eq (a b : OffsetDateTime) (oa ob : Offset) (ha : a.ot.offset = .ok oa) (hb : b.ot.offset = .ok ob) :
    Gen.C11.ODT.beq a b = .ok (a.beq b) := by
  unfold Gen.C11.ODT.beq OffsetDateTime.beq Gen.C11Glue.dateEq
  rw [gen_OffsetTime_beq_eq a.ot b.ot oa ob ha hb]
  by_cases h1 : a.date.cal.ord = b.date.cal.ord <;> by_cases h2 : a.date.days = b.date.days <;> simp [h1, h2, Bool.and_assoc]

/-! ## kernel evaluation on concrete values -/

def demoCal : Cal := ⟨0, -4371587, 2932896⟩

example : Gen.C11.ODT.ofInstant ⟨⟨19000, 80000000000000⟩⟩ ⟨7200⟩ demoCal = .ok ⟨⟨demoCal, 19001⟩, OffsetTime.ofParts 800000000000 7200⟩ := by decide
example : (Gen.C11.ODT.withOffset ⟨⟨demoCal, 19001⟩, OffsetTime.ofParts 800000000000 7200⟩ ⟨-36000⟩).map (·.date.days) = .ok 19000 := by decide
example : (Gen.C11.ODT.toInstant ⟨⟨demoCal, 19001⟩, OffsetTime.ofParts 800000000000 7200⟩) = .ok ⟨⟨19000, 80000000000000⟩⟩ := by decide

end Pyoda.GenAgree.C11
