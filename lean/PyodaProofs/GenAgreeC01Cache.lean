/-
  GenAgreeC01Cache — agreement between the year-start caches GENERATED from pyoda_time's Python source as explicit
  state-passing functions (`PyodaGen/C01Cache.lean`: `_YearStartCacheEntry`, `_YearMonthDayCalculator.
  _get_start_of_year_in_days`, `_HebrewScripturalCalculator.__compute_cache_entry / __get_or_populate_cache`) and the
  cache model of C13 (`PyodaModel/Cache/YearCache.lean`: `YearCache.step`, `Hebrew.computeEntry`, `Hebrew.step`).

  The dict attribute (`self.__year_cache`, `cls.__YEAR_CACHE`) is the parameter `year_cache : PyDict CacheEntry` of the
  generated definitions; a function that stores into it returns the pair (result, final dict).  C13's model keeps the
  cache as a total function `Nat → Int` of packed values; `absState` maps one to the other, `Full` says that the 1024
  slots exist (they do from `_create_cache` on, and every store keeps them).  With these, one generated step IS one model
  step, so C13's transparency theorems (`yearCache_transparent`, `hebrewCache_transparent`) speak about the code.
  The memoised function (`_calculate_start_of_year_days`, `__elapsed_days_no_cache`) is an abstract callee, instantiated
  with a total function as in the C13 model.
-/
import PyodaGen.C01Cache
import PyodaModel.Cache.YearCache
import PyodaProofs.Basic
import PyodaProofs.C13

namespace Pyoda.GenAgree.C01Cache
open Pyoda Pyoda.Cache.YearCache

/-! ## two's-complement facts about `|` on unbounded ints -/

/-- low bits all set: `(2^k·m + (2^k − 1)) & n = n` for `n < 2^k` -/
theorem nat_ones_and (k m n : Nat) (hn : n < 2 ^ k) : (2 ^ k * m + (2 ^ k - 1)) &&& n = n := by
  have hp : 0 < 2 ^ k := Nat.two_pow_pos k
  have hd : ((2 ^ k * m + (2 ^ k - 1)) &&& n) / 2 ^ k = 0 := by
    rw [Nat.and_div_two_pow, Nat.div_eq_of_lt hn, Nat.and_zero]
  have hm : ((2 ^ k * m + (2 ^ k - 1)) &&& n) % 2 ^ k = n := by
    rw [Nat.and_mod_two_pow, Nat.mul_add_mod, Nat.mod_eq_of_lt (by omega : 2 ^ k - 1 < 2 ^ k), Nat.mod_eq_of_lt hn,
      Nat.and_comm, Nat.and_two_pow_sub_one_eq_mod, Nat.mod_eq_of_lt hn]
  have e := Nat.div_add_mod ((2 ^ k * m + (2 ^ k - 1)) &&& n) (2 ^ k)
  rw [hd, hm] at e
  omega

/-- `(d << 7) | r = d·128 + r` for `0 ≤ r < 128`, any sign of `d` -/
theorem pyOr_low7 (d r : Int) (h0 : 0 ≤ r) (h1 : r < 128) : Gen.pyOr (d * 2 ^ 7) r = d * 128 + r := by
  obtain ⟨n, rfl⟩ := Int.eq_ofNat_of_zero_le h0
  have hn : n < 2 ^ 7 := by omega
  cases d with
  | ofNat m =>
    have e : (Int.ofNat m * 2 ^ 7 : Int) = Int.ofNat (2 ^ 7 * m) := by
      show ((m : Int) * 2 ^ 7) = ((2 ^ 7 * m : Nat) : Int); omega
    rw [e]
    show ((2 ^ 7 * m ||| n : Nat) : Int) = _
    rw [← Nat.two_pow_add_eq_or_of_lt hn m]
    show ((2 ^ 7 * m + n : Nat) : Int) = (m : Int) * 128 + n
    omega
  | negSucc m =>
    have e : (Int.negSucc m * 2 ^ 7 : Int) = Int.negSucc (2 ^ 7 * m + (2 ^ 7 - 1)) := by
      rw [Int.negSucc_eq, Int.negSucc_eq]; omega
    rw [e]
    show Int.negSucc ((2 ^ 7 * m + (2 ^ 7 - 1)) - ((2 ^ 7 * m + (2 ^ 7 - 1)) &&& n)) = _
    rw [nat_ones_and 7 m n hn, Int.negSucc_eq, Int.negSucc_eq]
    omega

theorem pyOr_low2 (d r : Int) (h0 : 0 ≤ r) (h1 : r < 4) : Gen.pyOr (d * 2 ^ 2) r = d * 4 + r := by
  obtain ⟨n, rfl⟩ := Int.eq_ofNat_of_zero_le h0
  have hn : n < 2 ^ 2 := by omega
  cases d with
  | ofNat m =>
    have e : (Int.ofNat m * 2 ^ 2 : Int) = Int.ofNat (2 ^ 2 * m) := by
      show ((m : Int) * 2 ^ 2) = ((2 ^ 2 * m : Nat) : Int); omega
    rw [e]
    show ((2 ^ 2 * m ||| n : Nat) : Int) = _
    rw [← Nat.two_pow_add_eq_or_of_lt hn m]
    show ((2 ^ 2 * m + n : Nat) : Int) = (m : Int) * 4 + n
    omega
  | negSucc m =>
    have e : (Int.negSucc m * 2 ^ 2 : Int) = Int.negSucc (2 ^ 2 * m + (2 ^ 2 - 1)) := by
      rw [Int.negSucc_eq, Int.negSucc_eq]; omega
    rw [e]
    show Int.negSucc ((2 ^ 2 * m + (2 ^ 2 - 1)) - ((2 ^ 2 * m + (2 ^ 2 - 1)) &&& n)) = _
    rw [nat_ones_and 2 m n hn, Int.negSucc_eq, Int.negSucc_eq]
    omega

theorem pyOr_zero (x : Int) : Gen.pyOr x 0 = x := by
  cases x with
  | ofNat m => show ((m ||| 0 : Nat) : Int) = _; rw [Nat.or_zero]; rfl
  | negSucc m => show Int.negSucc (m - (m &&& 0)) = _; rw [Nat.and_zero]; rfl

/-- the packed Hebrew entry `days << 2 | heshvan-long | kislev-short` (the two flags are never both set) -/
theorem pack_eq (d m : Int) :
    Gen.pyOr (Gen.pyOr (d * 2 ^ 2) (if decide (m = 5) = true then 1 else 0)) (if decide (m = 3) = true then 2 else 0) =
      d * 4 + (if m = 5 then 1 else 0) + (if m = 3 then 2 else 0) := by
  by_cases h5 : m = 5
  · have h3 : ¬ m = 3 := by omega
    rw [if_pos (by simpa using h5), if_neg (by simpa using h3), if_pos h5, if_neg h3]
    rw [pyOr_low2 _ _ (by decide) (by decide), pyOr_zero]; omega
  · by_cases h3 : m = 3
    · rw [if_neg (by simpa using h5), if_pos (by simpa using h3), if_neg h5, if_pos h3]
      rw [pyOr_low2 _ 0 (by decide) (by decide)]
      have : d * 4 + 0 = d * 2 ^ 2 := by omega
      rw [this, pyOr_low2 _ _ (by decide) (by decide)]; omega
    · rw [if_neg (by simpa using h5), if_neg (by simpa using h3), if_neg h5, if_neg h3]
      rw [pyOr_low2 _ _ (by decide) (by decide), pyOr_zero]; omega

/-! ## `_YearStartCacheEntry` -/

theorem gen_Entry_getValidator_eq (y : Int) : Gen.C01Cache.Entry.getValidator y = validator y := by
  unfold Gen.C01Cache.Entry.getValidator validator
  rw [fmod_pos _ _ (by decide), Int.shiftRight_eq_div_pow]
  rfl

theorem validator_range (y : Int) : 0 ≤ validator y ∧ validator y < 128 := by
  unfold validator
  constructor
  · exact Int.emod_nonneg _ (by decide)
  · exact Int.emod_lt_of_pos _ (by decide)

theorem gen_Entry_getCacheIndex_eq (y : Int) : Gen.C01Cache.Entry.getCacheIndex y = (indexOf y : Int) := by
  unfold Gen.C01Cache.Entry.getCacheIndex indexOf
  rw [fmod_pos _ _ (by decide)]
  have := Int.emod_nonneg y (by decide : (1024 : Int) ≠ 0)
  omega

theorem indexOf_lt (y : Int) : (indexOf y : Int) < 1024 := by
  unfold indexOf
  have h1 := Int.emod_nonneg y (by decide : (1024 : Int) ≠ 0)
  have h2 := Int.emod_lt_of_pos y (by decide : (0 : Int) < 1024)
  omega

theorem gen_Entry_new_eq (y days : Int) : (Gen.C01Cache.Entry.new y days).value = mkEntry y days := by
  unfold Gen.C01Cache.Entry.new mkEntry
  show Gen.pyOr (days * 2 ^ 7) (Gen.C01Cache.Entry.getValidator y) = _
  rw [gen_Entry_getValidator_eq, pyOr_low7 _ _ (validator_range y).1 (validator_range y).2]

theorem gen_Entry_invalid_eq : Gen.C01Cache.Entry.invalid.value = invalidEntry := by decide

theorem beq_eq_decide (a b : Int) : (a == b) = decide (a = b) := by
  by_cases h : a = b <;> simp [h]

theorem gen_Entry_isValidForYear_eq (e : Gen.CacheEntry) (y : Int) :
    Gen.C01Cache.Entry.isValidForYear e y = isValidFor e.value y := by
  unfold Gen.C01Cache.Entry.isValidForYear isValidFor
  rw [gen_Entry_getValidator_eq, fmod_pos _ _ (by decide), beq_eq_decide]

theorem gen_Entry_startOfYearDays_eq (e : Gen.CacheEntry) : Gen.C01Cache.Entry.startOfYearDays e = startDays e.value := by
  unfold Gen.C01Cache.Entry.startOfYearDays startDays
  rw [Int.shiftRight_eq_div_pow]
  rfl

/-! ## the dict and the model's total function -/

/-- the model state a dict denotes: slot `i` holds the packed value stored under key `i` -/
def absState (d : Gen.PyDict Gen.CacheEntry) : State := fun i =>
  match d (i : Int) with
  | some e => e.value
  | none => invalidEntry

/-- all 1024 slots exist (true of `_create_cache()` and kept by every store) -/
def Full (d : Gen.PyDict Gen.CacheEntry) : Prop := ∀ i : Int, 0 ≤ i → i < 1024 → ∃ e, d i = some e

/-- `_create_cache()`: every key 0 … 1023 maps to the invalid entry -/
def createCache : Gen.PyDict Gen.CacheEntry := fun i => if 0 ≤ i ∧ i < 1024 then some Gen.C01Cache.Entry.invalid else none

theorem createCache_full : Full createCache := by
  intro i h0 h1
  exact ⟨_, by unfold createCache; rw [if_pos ⟨h0, h1⟩]⟩

theorem absState_createCache : absState createCache = init := by
  funext i
  unfold absState createCache init
  by_cases h : (0 : Int) ≤ (i : Int) ∧ (i : Int) < 1024
  · rw [if_pos h]; exact gen_Entry_invalid_eq
  · rw [if_neg h]

theorem get_of_full (d : Gen.PyDict Gen.CacheEntry) (hd : Full d) (y : Int) :
    ∃ e, Gen.PyDict.get d (indexOf y : Int) = .ok e ∧ e.value = absState d (indexOf y) := by
  obtain ⟨e, he⟩ := hd (indexOf y : Int) (by omega) (indexOf_lt y)
  refine ⟨e, ?_, ?_⟩
  · unfold Gen.PyDict.get; rw [he]
  · unfold absState; rw [he]

theorem set_full (d : Gen.PyDict Gen.CacheEntry) (hd : Full d) (k : Int) (v : Gen.CacheEntry) : Full (Gen.PyDict.set d k v) := by
  intro i h0 h1
  unfold Gen.PyDict.set
  by_cases h : i = k
  · exact ⟨v, by rw [if_pos h]⟩
  · rw [if_neg h]; exact hd i h0 h1

theorem absState_set (d : Gen.PyDict Gen.CacheEntry) (k : Nat) (v : Gen.CacheEntry) :
    absState (Gen.PyDict.set d (k : Int) v) = update (absState d) k v.value := by
  funext i
  unfold absState Gen.PyDict.set update
  by_cases h : i = k
  · subst h; simp
  · have h' : ¬ (i : Int) = (k : Int) := by omega
    simp [h, h']

/-! ## `_YearMonthDayCalculator._get_start_of_year_in_days` is one step of C13's `YearCache.step` -/

theorem gen_Calc_getStartOfYearInDays_eq (compute : Int → Int) (d : Gen.PyDict Gen.CacheEntry) (hd : Full d) (y : Int) :
    ∃ d', Gen.C01Cache.Calc.getStartOfYearInDays (fun y => .ok (compute y)) d y
            = .ok ((step compute (absState d) y).2.value, d') ∧
          absState d' = (step compute (absState d) y).1 ∧ Full d' := by
  obtain ⟨e, hget, hval⟩ := get_of_full d hd y
  unfold Gen.C01Cache.Calc.getStartOfYearInDays step
  simp only [gen_Entry_getCacheIndex_eq, hget, bind, Except.bind, gen_Entry_isValidForYear_eq, gen_Entry_startOfYearDays_eq, hval]
  by_cases hv : isValidFor (absState d (indexOf y)) y = true
  · simp only [hv, not_true_eq_false, if_false, if_true]
    exact ⟨d, rfl, rfl, hd⟩
  · simp only [hv, not_false_eq_true, if_true, if_false, Bool.false_eq_true]
    refine ⟨_, by rw [gen_Entry_new_eq], ?_, set_full d hd _ _⟩
    rw [absState_set, gen_Entry_new_eq]

/-! ## the Hebrew cache: `__compute_cache_entry` and `__get_or_populate_cache` are C13's `Hebrew.computeEntry` / `Hebrew.step` -/

theorem gen_Heb_computeCacheEntry_eq (elapsed : Int → Int) (d : Gen.PyDict Gen.CacheEntry) (hd : Full d) (y : Int) :
    Gen.C01Cache.Heb.computeCacheEntry (fun y => .ok (elapsed y)) d y = .ok (Hebrew.computeEntry elapsed (absState d) y) := by
  obtain ⟨e, hget, hval⟩ := get_of_full d hd (y + 1)
  unfold Gen.C01Cache.Heb.computeCacheEntry Hebrew.computeEntry Hebrew.packEntry Hebrew.maxYear
  simp only [bind, Except.bind, gen_Entry_getCacheIndex_eq, hget, gen_Entry_isValidForYear_eq, gen_Entry_startOfYearDays_eq, hval,
    pack_eq, Int.shiftRight_eq_div_pow]
  by_cases h1 : y + 1 < 9999
  · simp only [h1, if_true]
    by_cases hv : isValidFor (absState d (indexOf (y + 1))) (y + 1) = true
    · simp only [hv, if_true]; rfl
    · simp only [hv, if_false, Bool.false_eq_true]
  · simp only [h1, if_false]

theorem gen_Heb_getOrPopulateCache_eq (elapsed : Int → Int) (d : Gen.PyDict Gen.CacheEntry) (hd : Full d) (y : Int) :
    ∃ d', Gen.C01Cache.Heb.getOrPopulateCache (fun y => .ok (elapsed y)) d y
            = .ok ((Hebrew.step elapsed (absState d) y).2.value, d') ∧
          absState d' = (Hebrew.step elapsed (absState d) y).1 ∧ Full d' := by
  obtain ⟨e, hget, hval⟩ := get_of_full d hd y
  unfold Gen.C01Cache.Heb.getOrPopulateCache Hebrew.step Hebrew.minYear Hebrew.maxYear
  simp only [gen_Heb_computeCacheEntry_eq elapsed d hd, bind, Except.bind]
  by_cases hr : y < 1 ∨ y > 9999
  · simp only [hr, if_true]
    exact ⟨d, rfl, rfl, hd⟩
  · simp only [hr, if_false, gen_Entry_getCacheIndex_eq, hget, gen_Entry_isValidForYear_eq, gen_Entry_startOfYearDays_eq, hval]
    by_cases hv : isValidFor (absState d (indexOf y)) y = true
    · simp only [hv, not_true_eq_false, if_false, if_true]
      exact ⟨d, rfl, rfl, hd⟩
    · simp only [hv, not_false_eq_true, if_true, if_false, Bool.false_eq_true]
      refine ⟨_, by rw [gen_Entry_new_eq], ?_, set_full d hd _ _⟩
      rw [absState_set, gen_Entry_new_eq]


/-! ## histories: the generated functions run over a list of years, and C13's transparency theorems about them -/

/-- successive `_get_start_of_year_in_days` calls on one calculator, each on the dict the previous one left -/
def genYearRun (compute : Int → R Int) : Gen.PyDict Gen.CacheEntry → List Int → R (List Int)
  | _, [] => .ok []
  | d, y :: ys => do
    let r ← Gen.C01Cache.Calc.getStartOfYearInDays compute d y
    let rest ← genYearRun compute r.2 ys
    .ok (r.1 :: rest)

theorem genYearRun_eq (compute : Int → Int) (ys : List Int) (d : Gen.PyDict Gen.CacheEntry) (hd : Full d) :
    genYearRun (fun y => .ok (compute y)) d ys = .ok ((run compute (absState d) ys).2.map (·.value)) := by
  induction ys generalizing d with
  | nil => rfl
  | cons y ys ih =>
    obtain ⟨d', h1, h2, h3⟩ := gen_Calc_getStartOfYearInDays_eq compute d hd y
    unfold genYearRun run
    rw [h1]
    simp only [bind, Except.bind]
    rw [ih d' h3, h2]
    rfl

/-- `_get_start_of_year_in_days` of the generated code, started from `_create_cache()`, answers every in-range year of
    any history with the value `_calculate_start_of_year_days` computes (C13 `yearCache_transparent`) -/
theorem gen_yearCache_transparent (compute : Int → Int) (ys : List Int) (h : ∀ y ∈ ys, InRange y) :
    genYearRun (fun y => .ok (compute y)) createCache ys = .ok (ys.map compute) := by
  rw [genYearRun_eq compute ys createCache createCache_full, absState_createCache, C13.yearCache_transparent compute ys h]

def genHebrewRun (elapsed : Int → R Int) : Gen.PyDict Gen.CacheEntry → List Int → R (List Int)
  | _, [] => .ok []
  | d, y :: ys => do
    let r ← Gen.C01Cache.Heb.getOrPopulateCache elapsed d y
    let rest ← genHebrewRun elapsed r.2 ys
    .ok (r.1 :: rest)

theorem genHebrewRun_eq (elapsed : Int → Int) (ys : List Int) (d : Gen.PyDict Gen.CacheEntry) (hd : Full d) :
    genHebrewRun (fun y => .ok (elapsed y)) d ys = .ok ((Hebrew.run elapsed (absState d) ys).2.map (·.value)) := by
  induction ys generalizing d with
  | nil => rfl
  | cons y ys ih =>
    obtain ⟨d', h1, h2, h3⟩ := gen_Heb_getOrPopulateCache_eq elapsed d hd y
    unfold genHebrewRun Hebrew.run
    rw [h1]
    simp only [bind, Except.bind]
    rw [ih d' h3, h2]
    rfl

/-- the generated `__get_or_populate_cache`, started from `_create_cache()`, answers every history of years with the
    cache-free packed value (C13 `hebrewCache_transparent`): the hypothesis `Transparent` of GenAgreeC01Heb -/
theorem gen_hebrewCache_transparent (elapsed : Int → Int) (ys : List Int) (h : ∀ y ∈ ys, InRange y ∧ InRange (y + 1)) :
    genHebrewRun (fun y => .ok (elapsed y)) createCache ys = .ok (ys.map (Hebrew.entryOf elapsed)) := by
  rw [genHebrewRun_eq elapsed ys createCache createCache_full, absState_createCache, C13.hebrewCache_transparent elapsed ys h]

/-! ## kernel evaluation: a fresh cache, year 5784 (miss), the same year again (hit) -/

example : (Gen.C01Cache.Calc.getStartOfYearInDays (fun y => .ok (365 * y)) createCache 2024).map (·.1) = .ok (365 * 2024) := by decide
example : (do let r ← Gen.C01Cache.Calc.getStartOfYearInDays (fun y => .ok (365 * y)) createCache 2024
              let r2 ← Gen.C01Cache.Calc.getStartOfYearInDays (fun _ => .error .notImplemented) r.2 2024
              .ok r2.1) = .ok (365 * 2024) := by decide

end Pyoda.GenAgree.C01Cache
