/-
  C07 — the Instant adapter inside the model: Instant ↔ UTC date-time through the Gregorian calendar model of properties
  C01 / C02 (`LocalDate._ctor(days_since_epoch=…)` with its 1900–2100 tables, `_get_days_since_epoch`).

  * `instantFields_spec`: for every day number of the Instant range the UTC date is a valid ISO date whose
    `_days_since_epoch` is that day number again (C01: `gregorian_days_ymd_days`, the table paths `greg_ymdOfDaysFast_eq`,
    `greg_daysOfYmdFast_eq`, the packed representation `viaPacked_id`);
  * `instant_adapter_roundtrip`: whenever the LocalDateTime pattern round-trips the UTC date-time, the Instant pattern
    round-trips the instant;
  * `isoInstant_generic_roundtrip`: `InstantPattern.extended_iso` (`uuuu'-'MM'-'dd'T'HH':'mm':'ss;FFFFFFFFF'Z'`) round-trips
    EVERY Instant from `Instant.min_value` to `Instant.max_value` through the generic engine.
-/
import PyodaModel.Text.InstantAdapter
import PyodaProofs.C07DateTime
import PyodaProofs.C08Calendar
import PyodaProofs.C01IsoFast
import PyodaProofs.C01Instances

namespace Pyoda.C07
open Pyoda Pyoda.Text
open Pyoda.Calendar (Calc calcOf)

theorem validDate_of_validate (y m d : Int) (h : Calendar.validate Calendar.Greg.cal y m d = .ok ()) : validDate y m d := by
  obtain ⟨a1, a2, a3, a4, a5, a6⟩ := C01.validate_inv h
  exact C08.validDate_of_inCal y m d ⟨a1, a2, a3, a4, a5, a6⟩

/-- **Instant → UTC date → Instant**: the date `in_utc()` builds for a day number of the Instant range is a valid ISO date,
    and its `_days_since_epoch` is the day number -/
theorem instantFields_spec (days nod : Int) (h1 : INST_MIN_DAYS ≤ days) (h2 : days ≤ INST_MAX_DAYS) :
    ∃ y m d, instantFields days nod = .ok (y, m, d, nod) ∧ validDate y m d ∧ daysOfDate 0 y m d = .ok days := by
  unfold INST_MIN_DAYS at h1; unfold INST_MAX_DAYS at h2
  obtain ⟨y, m, d, hf, hv, hd⟩ := C01.gregorian_days_ymd_days days h1 h2
  have hp := C01.viaPacked_id C01.greg_wf 0 (by decide) y m d hv
  obtain ⟨_, _, hm1, hm2, _, _⟩ := C01.validate_inv hv
  refine ⟨y, m, d, ?_, validDate_of_validate y m d hv, ?_⟩
  · unfold instantFields
    rw [C01.greg_ymdOfDaysFast_eq, hf]
    dsimp only
    rw [hp]
  · unfold daysOfDate
    rw [C08.calcOfInt_zero]
    dsimp only
    rw [if_pos (by decide), C01.greg_daysOfYmdFast_eq y m d hm1 hm2]
    unfold Calendar.daysOfYmd at hd
    rw [hv] at hd
    exact hd

/-- **UTC date → Instant → UTC date**: a valid ISO date has a day number inside the Instant range, which `in_utc()` turns
    back into that date -/
theorem daysOfDate_spec (y m d nod : Int) (hv : validDate y m d) :
    ∃ days, daysOfDate 0 y m d = .ok days ∧ INST_MIN_DAYS ≤ days ∧ days ≤ INST_MAX_DAYS ∧
      instantFields days nod = .ok (y, m, d, nod) := by
  obtain ⟨a1, a2, a3, a4, a5, a6⟩ := C08.inCal_of_validDate y m d hv
  have hval : Calendar.validate Calendar.Greg.cal y m d = .ok () := C01.validate_ok C01.greg_wf a1 a2 a3 a4 a5 a6
  obtain ⟨days, hd, r1, r2, hf⟩ := C01.gregorian_ymd_days_ymd y m d hval
  have hp := C01.viaPacked_id C01.greg_wf 0 (by decide) y m d hval
  refine ⟨days, ?_, r1, r2, ?_⟩
  · unfold daysOfDate
    rw [C08.calcOfInt_zero]
    dsimp only
    rw [if_pos (by decide), C01.greg_daysOfYmdFast_eq y m d a3 a4]
    unfold Calendar.daysOfYmd at hd
    rw [hval] at hd
    exact hd
  · unfold instantFields
    rw [C01.greg_ymdOfDaysFast_eq, hf]
    dsimp only
    rw [hp]

/-- **the adapter**: if the LocalDateTime pattern object writes `txt` for the UTC date-time of the instant and reads it
    back, the Instant pattern writes `txt` for the instant and reads the instant back -/
theorem instant_adapter_roundtrip (p : Pat) (days nod : Int) (h1 : INST_MIN_DAYS ≤ days) (h2 : days ≤ INST_MAX_DAYS)
    (txt : Text)
    (hp : ∀ y m d, instantFields days nod = .ok (y, m, d, nod) →
      fmtPat (.datetime Tmpl.default) [y, m, d, nod] (dtGetter y m d nod) p = .ok txt ∧
      parsePat (.datetime Tmpl.default) txt p = .ok (some [y, m, d, nod])) :
    fmtInstant p days nod = .ok txt ∧ parseInstant p txt = .ok (some (days, nod)) := by
  obtain ⟨y, m, d, hf, _, hd⟩ := instantFields_spec days nod h1 h2
  obtain ⟨f, q⟩ := hp y m d hf
  constructor
  · unfold fmtInstant
    rw [if_pos ⟨h1, h2⟩, hf]
    exact f
  · unfold parseInstant
    rw [q]
    dsimp only
    unfold instantOfFields
    dsimp only
    rw [hd]

/-! ## `InstantPattern.extended_iso` -/

def isoInstantSteps : List Step :=
  [.num .year .year 4 4 (-9999) 9999, .lit ['-'], .num .monthNum .monthNum 2 2 1 99, .lit ['-'],
   .num .dayOfMonth .dayOfMonth 2 2 1 99, .lit ['T'], .num .hours24 .hours24 2 2 0 24, .lit [':'],
   .num .minutes .minutes 2 2 0 59, .lit [':'], .num .seconds .seconds 2 2 0 59, .dotFrac 9 9 true, .lit ['Z']]

theorem isoInstant_compiles :
    compiledSteps (compileCustom (.datetime Tmpl.default) invariantCulture "uuuu'-'MM'-'dd'T'HH':'mm':'ss;FFFFFFFFF'Z'".toList) =
      some (5308, isoInstantSteps) := by
  decide +kernel

theorem isoInstant_delimited : Delimited invariantCulture 5308 true isoInstantSteps = true := by decide

/-- the LocalDateTime pattern behind `InstantPattern.extended_iso`: every valid ISO date with every nanosecond of the day -/
theorem isoInstantPattern_roundtrip (y m d nod : Int) (hv : validDate y m d) (h0 : 0 ≤ nod) (h1 : nod < 86400000000000) :
    fmtCompiled ⟨invariantCulture, 5308, isoInstantSteps⟩ (dtGetter y m d nod) [] =
      .ok (outSteps invariantCulture 5308 (dtGetter y m d nod) isoInstantSteps) ∧
    parseCompiled (.datetime Tmpl.default) ⟨invariantCulture, 5308, isoInstantSteps⟩
      (outSteps invariantCulture 5308 (dtGetter y m d nod) isoInstantSteps) = .ok (some [y, m, d, nod]) := by
  have hv' := hv
  obtain ⟨hy1, hy2, hm1, hm2, hd1, hd2⟩ := hv
  have hb := daysInMonth_bounds y m
  unfold ISO_MIN_YEAR ISO_MAX_YEAR at *
  obtain ⟨e1, e2, e3, e4⟩ := time_accessors nod h0 h1
  have hval : ∀ s ∈ isoInstantSteps, ValOK (dtGetter y m d nod) s := by
    intro s hs
    simp only [isoInstantSteps, List.mem_cons, List.mem_nil_iff, or_false] at hs
    rcases hs with rfl | rfl | rfl | rfl | rfl | rfl | rfl | rfl | rfl | rfl | rfl | rfl | rfl
    · exact ⟨by simp only [dtGetter, dateGetter]; omega, by simp only [dtGetter, dateGetter]; omega, by decide, by decide,
        by decide, by simp only [dtGetter, dateGetter]; omega⟩
    · trivial
    · exact ⟨by simp only [dtGetter, dateGetter]; omega, by simp only [dtGetter, dateGetter]; omega, by decide, by decide,
        by decide, by simp only [dtGetter, dateGetter]; omega⟩
    · trivial
    · exact ⟨by simp only [dtGetter, dateGetter]; omega, by simp only [dtGetter, dateGetter]; omega, by decide, by decide,
        by decide, by simp only [dtGetter, dateGetter]; omega⟩
    · trivial
    · exact ⟨by simp only [dtGetter]; omega, by simp only [dtGetter]; omega, by decide, by decide, by decide,
        by simp only [dtGetter]; omega⟩
    · trivial
    · exact ⟨by simp only [dtGetter]; omega, by simp only [dtGetter]; omega, by decide, by decide, by decide,
        by simp only [dtGetter]; omega⟩
    · trivial
    · exact ⟨by simp only [dtGetter]; omega, by simp only [dtGetter]; omega, by decide, by decide, by decide,
        by simp only [dtGetter]; omega⟩
    · exact ⟨by simp only [dtGetter]; omega, by simp only [dtGetter]; omega, by decide, by decide,
        by simp only [dtGetter]; exact Nat.mod_one _⟩
    · trivial
  have hr : Representable (.datetime Tmpl.default) ⟨invariantCulture, 5308, isoInstantSteps⟩ (dtGetter y m d nod) [y, m, d, nod] := by
    have hud : (5308 : Nat) &&& F.allDate = (F.year ||| F.monthNum ||| F.dayOfMonth) := by decide
    have hut : ((5308 : Nat) &&& F.allTime) &&& F.allTimeExceptFraction = (F.hours24 ||| F.minutes ||| F.seconds) := by decide
    generalize hb' : setSteps invariantCulture (dtGetter y m d nod) (bucket0 (.datetime Tmpl.default)) isoInstantSteps = b'
    have bY : b' .year = y := by
      rw [← hb']; simp only [isoInstantSteps, setSteps, setStep]; split <;> simp [Bucket.set, dtGetter, dateGetter]
    have bMo : b' .monthNum = m := by
      rw [← hb']; simp only [isoInstantSteps, setSteps, setStep]; split <;> simp [Bucket.set, dtGetter, dateGetter]
    have bD : b' .dayOfMonth = d := by
      rw [← hb']; simp only [isoInstantSteps, setSteps, setStep]; split <;> simp [Bucket.set, dtGetter, dateGetter]
    have bH : b' .hours24 = ltHour nod := by
      rw [← hb']; simp only [isoInstantSteps, setSteps, setStep]; split <;> simp [Bucket.set, dtGetter]
    have bM : b' .minutes = ltMinute nod := by
      rw [← hb']; simp only [isoInstantSteps, setSteps, setStep]; split <;> simp [Bucket.set, dtGetter]
    have bS : b' .seconds = ltSecond nod := by
      rw [← hb']; simp only [isoInstantSteps, setSteps, setStep]; split <;> simp [Bucket.set, dtGetter]
    have hne24 : ¬ (ltHour nod = 24) := by rw [e1]; omega
    unfold Representable bucketValue
    simp only [hb', dtValue, bH, hne24, decide_false, Bool.false_eq_true, if_false, hud, dateValueT, if_true, bY, bMo, bD,
      isoDateValue_valid y m d hv', timeValue, hut, bM, bS, mapR, Option.map]
    have bF : b' .fraction = ltNano nod := by
      rw [← hb']; simp only [isoInstantSteps, setSteps, setStep]
      split
      · rename_i hz
        have hf : FracOK 9 9 (dtGetter y m d nod .fraction) := hval (.dotFrac 9 9 true) (by simp [isoInstantSteps])
        rcases truncOut_cases 9 9 (dtGetter y m d nod .fraction) hf [] noDigitHead_nil with ⟨z, _⟩ | ⟨_, ne, _⟩
        · have z' : ltNano nod = 0 := z
          rw [z']; simp [Bucket.set, bucket0, dtBucket0, timeBucket0, Tmpl.default]; decide
        · exact absurd hz ne
      · simp [Bucket.set, dtGetter]
    rw [bF, e1, e2, e3, e4, time_recompose]
  have hne : outSteps invariantCulture 5308 (dtGetter y m d nod) isoInstantSteps ≠ [] := by
    simp only [isoInstantSteps, outSteps, outStep]
    obtain ⟨_, _, hne⟩ := numOut_last 4 (dtGetter y m d nod .year)
    intro h
    exact hne (List.append_eq_nil_iff.mp h).1
  exact pattern_roundtrip (.datetime Tmpl.default) ⟨invariantCulture, 5308, isoInstantSteps⟩ (dtGetter y m d nod) [y, m, d, nod]
    isoInstant_delimited hval hr hne

/-- **`InstantPattern.extended_iso` round-trips EVERY Instant** (day numbers −4371222 … 2932896, every nanosecond of the
    day), Instant ↔ UTC date-time conversion included -/
theorem isoInstant_generic_roundtrip (days nod : Int) (h1 : INST_MIN_DAYS ≤ days) (h2 : days ≤ INST_MAX_DAYS)
    (n0 : 0 ≤ nod) (n1 : nod < 86400000000000) :
    ∃ txt, fmtInstant (.stepped ⟨invariantCulture, 5308, isoInstantSteps⟩) days nod = .ok txt ∧
      parseInstant (.stepped ⟨invariantCulture, 5308, isoInstantSteps⟩) txt = .ok (some (days, nod)) := by
  obtain ⟨y, m, d, hf, hv, _⟩ := instantFields_spec days nod h1 h2
  refine ⟨outSteps invariantCulture 5308 (dtGetter y m d nod) isoInstantSteps, ?_⟩
  apply instant_adapter_roundtrip _ days nod h1 h2
  intro y' m' d' hf'
  rw [hf] at hf'
  injection hf' with hf'; injection hf' with e1 e2; injection e2 with e2 e3; injection e3 with e3 _
  subst e1; subst e2; subst e3
  obtain ⟨f, q⟩ := isoInstantPattern_roundtrip y m d nod hv n0 n1
  refine ⟨by simpa [fmtPat] using f, ?_⟩
  have he : evalType (.datetime Tmpl.default) isoInstantSteps = .datetime Tmpl.default := by decide
  simp only [parsePat, he]
  exact q

/-- concrete instants through the compiled model: the epoch, the last nanosecond of the Instant range, the two sentinels -/
example : fmtInstant (.stepped ⟨invariantCulture, 5308, isoInstantSteps⟩) 0 0 = .ok "1970-01-01T00:00:00Z".toList := by
  decide +kernel
example : fmtInstant (.stepped ⟨invariantCulture, 5308, isoInstantSteps⟩) 2932896 86399999999999 =
    .ok "9999-12-31T23:59:59.999999999Z".toList := by decide +kernel
example : parseInstant (.stepped ⟨invariantCulture, 5308, isoInstantSteps⟩) "-9998-01-01T00:00:00Z".toList =
    .ok (some (-4371222, 0)) := by decide +kernel
example : fmtInstant (.stepped ⟨invariantCulture, 5308, isoInstantSteps⟩) (-4371223) 0 = .ok "StartOfTime".toList := by
  decide +kernel
example : fmtInstant (.stepped ⟨invariantCulture, 5308, isoInstantSteps⟩) 2932897 0 = .ok "EndOfTime".toList := by
  decide +kernel

end Pyoda.C07
