/-
  C04 ⇒ C05 for precalculated zones WITH a recurring tail.  The whole zone — stored periods, the clamped first
  tail interval at the seam, the ordinary tail intervals through year 9999 and the final interval that runs to
  the end of time — is described by one transition sequence (`ZoneSeq`); from it follow the hypotheses of the
  local-mapping theorems (`C05.Spec`) for the total function `gOfT p` and the agreement of the model's own
  lookup `p.get` with it.  Everything is derived from ONE evaluated Bool, `zoneOK p` (`zoneOK_sound`,
  `zoneOK_gives_spec`).
-/
import PyodaProofs.C04Spec
import PyodaProofs.C04TailEnd

namespace Pyoda.C04
open Pyoda Pyoda.Zone

/-! ### gluing and re-indexing transition sequences -/

theorem SeqSpec.shift {get : Int → R ZI} {V : Int → Int} {iv : Int → ZI} {a b : Int} (h : SeqSpec get V iv a b)
    (d a' b' : Int) (ha : a' + d = a) (hb : b' + d = b) :
    SeqSpec get (fun i => V (i + d)) (fun i => iv (i + d)) a' b' := by
  refine ⟨?_, ?_, ?_, ?_⟩
  · intro k k1 k2
    have := h.mono (k + d) (by omega) (by omega)
    have e : k + 1 + d = k + d + 1 := by omega
    simp only [e]; exact this
  · intro k t k1 k2 t1 t2
    have e : k + 1 + d = k + d + 1 := by omega
    simp only [e] at t2
    exact h.get (k + d) t (by omega) (by omega) t1 t2
  · intro k k1 k2; exact h.s (k + d) (by omega) (by omega)
  · intro k k1 k2
    have e : k + 1 + d = k + d + 1 := by omega
    simp only [e]; exact h.e (k + d) (by omega) (by omega)

/-- two descriptions of the same lookup that meet at index `c` (same transition instant) form one -/
theorem SeqSpec.glue {get : Int → R ZI} {V1 V2 : Int → Int} {iv1 iv2 : Int → ZI} {a b c : Int}
    (h1 : SeqSpec get V1 iv1 a (c - 1)) (h2 : SeqSpec get V2 iv2 c b) (hj : V1 c = V2 c) :
    SeqSpec get (fun i => if i < c then V1 i else V2 i) (fun i => if i < c then iv1 i else iv2 i) a b := by
  have nxt : ∀ k, k < c → (if k + 1 < c then V1 (k + 1) else V2 (k + 1)) = V1 (k + 1) := by
    intro k hk
    by_cases hq : k + 1 < c
    · rw [if_pos hq]
    · rw [if_neg hq]
      have : k + 1 = c := by omega
      rw [this]; exact hj.symm
  refine ⟨?_, ?_, ?_, ?_⟩
  · intro k k1 k2
    by_cases hk : k < c
    · simp only [hk, if_true, nxt k hk]
      exact h1.mono k k1 (by omega)
    · simp only [hk, if_false, show ¬ (k + 1 < c) by omega]
      exact h2.mono k (by omega) k2
  · intro k t k1 k2 t1 t2
    by_cases hk : k < c
    · simp only [hk, if_true, nxt k hk] at t1 t2 ⊢
      exact h1.get k t k1 (by omega) t1 t2
    · simp only [hk, if_false, show ¬ (k + 1 < c) by omega] at t1 t2 ⊢
      exact h2.get k t (by omega) k2 t1 t2
  · intro k k1 k2
    by_cases hk : k < c
    · simp only [hk, if_true]; exact h1.s k k1 (by omega)
    · simp only [hk, if_false]; exact h2.s k (by omega) k2
  · intro k k1 k2
    by_cases hk : k < c
    · simp only [hk, if_true, nxt k hk]; exact h1.e k k1 (by omega)
    · simp only [hk, if_false, show ¬ (k + 1 < c) by omega]; exact h2.e k (by omega) k2

/-! ### from a transition sequence covering all of time to the hypotheses of the local-mapping theorems -/

/-- clamp into the valid instant range -/
def clampI (t : Int) : Int := if t < MINI then MINI else if t > MAXI then MAXI else t

/-- the total interval function of a model lookup: the interval found for the instant (clamped into the valid
    range, where lookups succeed); `whole` if the lookup fails -/
def totalOf (get : Int → R ZI) (t : Int) : ZI := match get (clampI t) with | .ok z => z | .error _ => whole

/-- the total interval function of a precalculated zone (with or without tail) -/
def gOfT (p : Precalc) : Int → ZI := totalOf p.get

theorem clampI_valid (t : Int) : MINI ≤ clampI t ∧ clampI t ≤ MAXI := by
  unfold clampI
  have : MINI ≤ MAXI := by decide
  (repeat' split) <;> omega

theorem clampI_id (t : Int) (h1 : MINI ≤ t) (h2 : t ≤ MAXI) : clampI t = t := by
  unfold clampI
  rw [if_neg (by omega), if_neg (by omega)]

/-- a lookup described by one transition sequence from the beginning to the end of time, with valid inner
    transitions, bounded offsets and inner intervals of at least 36 h -/
structure ZoneSeq (get : Int → R ZI) (V : Int → Int) (iv : Int → ZI) (B : Int) : Prop where
  seq : SeqSpec get V iv 0 B
  hB : 0 ≤ B
  first : V 0 = BMIN
  last : V (B + 1) = AMAX
  valid : ∀ k, 0 < k → k ≤ B → MINI ≤ V k ∧ V k ≤ MAXI
  walls : ∀ k, 0 ≤ k → k ≤ B → -64800 ≤ (iv k).wall ∧ (iv k).wall ≤ 64800
  minlen : ∀ k, 0 < k → k < B → V (k + 1) - V k ≥ 2 * C05.H18

section
variable {get : Int → R ZI} {V : Int → Int} {iv : Int → ZI} {B : Int} (h : ZoneSeq get V iv B)
include h

theorem ZoneSeq.index (t : Int) (h1 : MINI ≤ t) (h2 : t ≤ MAXI) :
    ∃ k, 0 ≤ k ∧ k ≤ B ∧ V k ≤ t ∧ t < V (k + 1) ∧ get t = .ok (iv k) := by
  have hb := h.hB
  obtain ⟨k, k1, k2, k3, k4⟩ := seq_find_range V 0 B t (by omega)
    (by rw [h.first]; simp only [MINI, BMIN, MIN_DAYS, NPD] at *; omega)
    (by rw [h.last]; simp only [MAXI, AMAX, MAX_DAYS, NPD] at *; omega)
  exact ⟨k, k1, k2, k3, k4, h.seq.get k t k1 k2 k3 k4⟩

theorem ZoneSeq.total (t : Int) :
    ∃ k, 0 ≤ k ∧ k ≤ B ∧ V k ≤ clampI t ∧ clampI t < V (k + 1) ∧ totalOf get t = iv k := by
  obtain ⟨c1, c2⟩ := clampI_valid t
  obtain ⟨k, k1, k2, k3, k4, k5⟩ := h.index (clampI t) c1 c2
  exact ⟨k, k1, k2, k3, k4, by simp only [totalOf, k5]⟩

/-- **the hypotheses of the C05 theorems** for a lookup described by a `ZoneSeq` -/
theorem zoneSeq_spec : C05.Spec (totalOf get) ∧ C05.Agrees get (totalOf get) := by
  have hmm : BMIN < MINI ∧ MAXI < AMAX := by decide
  refine ⟨⟨?_, ?_, ?_, ?_, ?_⟩, ?_⟩
  · intro t h1 h2
    obtain ⟨k, k1, k2, k3, k4, k5⟩ := h.total t
    rw [clampI_id t h1 h2] at k3 k4
    rw [k5, h.seq.s k k1 k2, h.seq.e k k1 k2]; exact ⟨k3, k4⟩
  · intro t u _ _ hu1 hu2 u1 u2
    obtain ⟨k, k1, k2, _, _, k5⟩ := h.total t
    rw [k5, h.seq.s k k1 k2] at u1
    rw [k5, h.seq.e k k1 k2] at u2
    have := h.seq.get k u k1 k2 u1 u2
    rw [k5]
    simp only [totalOf, clampI_id u hu1 hu2, this]
  · intro t
    obtain ⟨k, k1, k2, _, _, k5⟩ := h.total t
    rw [k5]; exact h.walls k k1 k2
  · intro t
    obtain ⟨k, k1, k2, _, _, k5⟩ := h.total t
    rw [k5, h.seq.s k k1 k2, h.seq.e k k1 k2]
    constructor
    · by_cases hk : k = 0
      · left; rw [hk]; exact h.first
      · right; exact h.valid k (by omega) k2
    · by_cases hk : k = B
      · left; rw [hk]; exact h.last
      · right; exact h.valid (k + 1) (by omega) (by omega)
  · intro t
    obtain ⟨k, k1, k2, _, _, k5⟩ := h.total t
    rw [k5, h.seq.s k k1 k2, h.seq.e k k1 k2]
    intro s1 e1
    have hk0 : k ≠ 0 := by intro hk; rw [hk, h.first] at s1; omega
    have hkB : k ≠ B := by intro hk; rw [hk, h.last] at e1; omega
    exact h.minlen k (by omega) (by omega)
  · intro t h1 h2
    obtain ⟨k, _, _, _, _, k5⟩ := h.index t h1 h2
    simp only [totalOf, clampI_id t h1 h2, k5]

end

/-! ### the stored periods as a transition sequence -/

def pAt (ps : Array ZI) (i : Int) : ZI := (ps[i.toNat]?).getD default

/-- transition instants of the stored part: starts of the stored periods, then the end of the last one -/
def storedV (p : Precalc) (i : Int) : Int := if i < p.periods.size then (pAt p.periods i).s else p.tailStart

theorem pAt_some (ps : Array ZI) (k : Int) (k1 : 0 ≤ k) (k2 : k < ps.size) : ps[k.toNat]? = some (pAt ps k) := by
  obtain ⟨z, hz⟩ := get?_some_of_lt ps k.toNat (by omega)
  simp only [pAt, hz, Option.getD_some]

theorem tailStart_eq (p : Precalc) (hne : 0 < p.periods.size) :
    p.tailStart = (pAt p.periods (p.periods.size - 1)).e := by
  have hb := pAt_some p.periods (p.periods.size - 1) (by omega) (by omega)
  have e : ((p.periods.size : Int) - 1).toNat = p.periods.size - 1 := by omega
  rw [e] at hb
  have hback : p.periods.back? = some (pAt p.periods (p.periods.size - 1)) := by
    simp only [Array.back?]; exact hb
  simp [Precalc.tailStart, hback]

theorem storedV_next (p : Precalc) (wf : PeriodsWF p.periods) (k : Int) (k1 : 0 ≤ k) (k2 : k < p.periods.size) :
    storedV p (k + 1) = (pAt p.periods k).e := by
  unfold storedV
  by_cases hq : k + 1 < p.periods.size
  · rw [if_pos hq]
    have ha := pAt_some p.periods k k1 k2
    have hb := pAt_some p.periods (k + 1) (by omega) hq
    have e : (k + 1).toNat = k.toNat + 1 := by omega
    rw [e] at hb
    exact (wf.abut _ _ _ ha hb).symm
  · rw [if_neg hq]
    have : k = p.periods.size - 1 := by omega
    rw [this]; exact tailStart_eq p wf.nonempty

/-- the binary search over the stored periods, as a transition sequence (with or without a tail) -/
theorem stored_seq (p : Precalc) (wf : PeriodsWF p.periods) :
    SeqSpec p.get (storedV p) (pAt p.periods) 0 (p.periods.size - 1) := by
  have hne := wf.nonempty
  have hs : ∀ k, 0 ≤ k → k ≤ (p.periods.size : Int) - 1 → storedV p k = (pAt p.periods k).s := by
    intro k k1 k2; unfold storedV; rw [if_pos (by omega)]
  refine ⟨?_, ?_, ?_, ?_⟩
  · intro k k1 k2
    rw [hs k k1 k2, storedV_next p wf k k1 (by omega)]
    exact wf.pos _ _ (pAt_some p.periods k k1 (by omega))
  · intro k t k1 k2 t1 t2
    rw [hs k k1 k2] at t1
    rw [storedV_next p wf k k1 (by omega)] at t2
    have hk := pAt_some p.periods k k1 (by omega)
    have h0 := pAt_some p.periods 0 (by omega) (by omega)
    have e0 : (0 : Int).toNat = 0 := rfl
    rw [e0] at h0
    -- the first period starts at or before this one, the last one ends at or after it
    have hfirst : (pAt p.periods 0).s ≤ t := by
      by_cases hk0 : k.toNat = 0
      · rw [hk0, h0] at hk; rw [Option.some.inj hk]; exact t1
      · have := mono' wf 0 k.toNat _ _ (by omega) h0 hk
        have := wf.pos _ _ h0
        omega
    have hlast : t < p.tailStart := by
      rw [tailStart_eq p hne]
      have hl := pAt_some p.periods (p.periods.size - 1) (by omega) (by omega)
      by_cases hkl : k = p.periods.size - 1
      · rw [← hkl]; exact t2
      · have := mono' wf k.toNat ((p.periods.size : Int) - 1).toNat _ _ (by omega) hk hl
        have := wf.pos _ _ hl
        omega
    obtain ⟨z, hz, hz1, hz2, j, hj⟩ := precalc_get_contains p wf t _ h0 hfirst hlast
    have := precalc_get_unique wf t j k.toNat z _ hj hk ⟨hz1, hz2⟩ ⟨t1, t2⟩
    subst this
    rw [hk] at hj; cases hj
    exact hz
  · intro k k1 k2; exact (hs k k1 k2).symm
  · intro k k1 k2; exact (storedV_next p wf k k1 (by omega)).symm

/-! ### the seam: the tail side of `Precalc.get`, with the clamped first tail interval -/

def clampV (U : Int → Int) (k0 ts : Int) (k : Int) : Int := if k = k0 then ts else U k
def clampIv (I : Int → ZI) (k0 ts : Int) (k : Int) : ZI :=
  if k = k0 then ⟨ts, (I k0).e, (I k0).name, (I k0).wall, (I k0).savings⟩ else I k

/-- If the tail map is described by the sequence `(U, I)` and the stored periods end at `tailStart` inside tail
    interval `k0`, then from `tailStart` on the zone's lookup is described by the same sequence with interval
    `k0` clamped to start at `tailStart` — `[tailStart, U (k0+1))` — followed by the ordinary tail intervals. -/
theorem seam_seq (p : Precalc) (m : AltMap) (htl : p.tail = some m) {U : Int → Int} {I : Int → ZI} {a b : Int}
    (sq : SeqSpec m.get U I a b) (k0 : Int) (hk0 : a ≤ k0 ∧ k0 ≤ b)
    (h1 : U k0 ≤ p.tailStart) (h2 : p.tailStart < U (k0 + 1)) :
    SeqSpec p.get (clampV U k0 p.tailStart) (clampIv I k0 p.tailStart) k0 b := by
  have nx : ∀ k, k0 ≤ k → clampV U k0 p.tailStart (k + 1) = U (k + 1) := by
    intro k hk; unfold clampV; rw [if_neg (by omega)]
  have after : ∀ k, k0 < k → k ≤ b + 1 → p.tailStart < U k := by
    intro k hk hkb
    have := sq.mono_le (k0 + 1) k (by omega) (by omega) hkb
    omega
  refine ⟨?_, ?_, ?_, ?_⟩
  · intro k k1 k2
    rw [nx k k1]
    by_cases hk : k = k0
    · subst hk; simp only [clampV, if_true]; exact h2
    · simp only [clampV, hk, if_false]; exact sq.mono k (by omega) k2
  · intro k t k1 k2 t1 t2
    rw [nx k k1] at t2
    have hge : t ≥ p.tailStart := by
      by_cases hk : k = k0
      · subst hk; simp only [clampV, if_true] at t1; exact t1
      · simp only [clampV, hk, if_false] at t1
        have := after k (by omega) (by omega); omega
    have hU : U k ≤ t := by
      by_cases hk : k = k0
      · subst hk; omega
      · simp only [clampV, hk, if_false] at t1; exact t1
    have hg := sq.get k t (by omega) k2 hU t2
    have hs := sq.s k (by omega) k2
    unfold Precalc.get
    simp only [htl, hge, if_true, bind, Except.bind, hg]
    by_cases hc : (I k).s < p.tailStart
    · have hk : k = k0 := by
        by_cases hk : k = k0
        · exact hk
        · exfalso; have := after k (by omega) (by omega); omega
      subst hk
      have hf := sq.get k p.tailStart (by omega) k2 h1 h2
      have he := sq.e k (by omega) k2
      simp only [hc, if_true, hf, ZI.withStart, ZI.mk']
      rw [if_neg (by omega)]
      simp only [clampIv, if_true]
    · simp only [hc, if_false]
      by_cases hk : k = k0
      · subst hk
        have : (I k).s = p.tailStart := by omega
        simp only [clampIv, if_true, ← this]
      · simp only [clampIv, hk, if_false]
  · intro k k1 k2
    by_cases hk : k = k0
    · subst hk; simp only [clampIv, clampV, if_true]
    · simp only [clampIv, clampV, hk, if_false]; exact sq.s k (by omega) k2
  · intro k k1 k2
    rw [nx k k1]
    by_cases hk : k = k0
    · subst hk; simp only [clampIv, if_true]; exact sq.e k (by omega) k2
    · simp only [clampIv, hk, if_false]; exact sq.e k (by omega) k2

/-- adjacent intervals must differ in name or offsets -/
def Differ (a b : ZI) : Prop := ¬(a.name = b.name ∧ a.wall = b.wall ∧ a.savings = b.savings)

/-- consecutive tail intervals come from different rules; their savings differ when the daylight rule's are ≠ 0 -/
theorem tailIv_savings_differ (m : AltMap) (mode : Nat) (j : Int) (hs : m.dstRec.savings ≠ 0) :
    (tailIv m mode j).savings ≠ (tailIv m mode (j + 1)).savings := by
  unfold tailIv
  by_cases hp : j % 2 = 0
  · have hq : ¬ ((j + 1) % 2 = 0) := by omega
    by_cases hm : mode = 1 <;> simp [hp, hq, hm] <;> omega
  · have hq : (j + 1) % 2 = 0 := by omega
    by_cases hm : mode = 1 <;> simp [hp, hq, hm] <;> omega

/-- the evaluated `maximal` check: consecutive stored periods differ in name or offsets -/
theorem maximal_differ (ps : Array ZI) (h : maximal ps = true) (k : Int) (k1 : 0 ≤ k) (k2 : k + 1 < ps.size) :
    Differ (pAt ps k) (pAt ps (k + 1)) := by
  simp only [maximal, List.all_eq_true, List.mem_range] at h
  have ha := pAt_some ps k k1 (by omega)
  have hb := pAt_some ps (k + 1) (by omega) k2
  have e : (k + 1).toNat = k.toNat + 1 := by omega
  rw [e] at hb
  have := h k.toNat (by omega)
  rw [ha, hb] at this
  simp at this
  intro hcon
  rcases this with (d1 | d2) | d3
  · exact d1 hcon.1
  · exact d2 hcon.2.1
  · exact d3 hcon.2.2

/-! ### the whole zone from the evaluated check -/

theorem zoneOK_unfold (p : Precalc) (h : zoneOK p = true) :
    ∃ m, p.tail = some m ∧ zoneOKWith p m (tailOKE m zoneLo) = true := by
  simp only [zoneOK, zoneOKMode, bne_iff_ne, ne_eq] at h
  cases htl : p.tail with
  | none => rw [htl] at h; simp at h
  | some m =>
    rw [htl] at h
    refine ⟨m, rfl, ?_⟩
    by_cases hw : zoneOKWith p m (tailOKE m zoneLo) = true
    · exact hw
    · simp [hw] at h

/-- **soundness of the evaluated whole-zone check**: a precalculated zone with a recurring tail that passes
    `zoneOK` is described by one transition sequence from the beginning to the end of time — the stored periods,
    then the clamped first tail interval `[tailStart, next tail transition)`, then the tail intervals through year
    9999, the last one running to `AMAX` — with valid inner transitions, offsets within ±18 h and inner intervals
    of at least 36 h. -/
theorem zoneOK_sound_max (p : Precalc) (h : zoneOK p = true) :
    ∃ V iv B, ZoneSeq p.get V iv B ∧
      (zoneMaximal p = true → ∀ k, 0 ≤ k → k < B → Differ (iv k) (iv (k + 1))) := by
  obtain ⟨m, htl, hw⟩ := zoneOK_unfold p h
  simp only [zoneOKWith, Bool.and_eq_true, decide_eq_true_eq] at hw
  obtain ⟨⟨⟨⟨hwf, hml⟩, hmode⟩, hlen⟩, hseam⟩ := hw
  have wf := periodsWF_sound p.periods hwf
  have hne := wf.nonempty
  simp only [periodsWF, Bool.and_eq_true, decide_eq_true_eq, List.all_eq_true, List.mem_range] at hwf
  obtain ⟨⟨⟨_, w2⟩, w3⟩, w4⟩ := hwf
  rw [Array.all_eq_true] at w3 hml
  -- facts about the stored periods, by integer index
  have elem : ∀ k : Int, 0 ≤ k → k < p.periods.size → ∃ hi : k.toNat < p.periods.size, p.periods[k.toNat] = pAt p.periods k := by
    intro k k1 k2
    have hk := pAt_some p.periods k k1 k2
    have hi : k.toNat < p.periods.size := by omega
    refine ⟨hi, ?_⟩
    have : p.periods[k.toNat]? = some p.periods[k.toNat] := by simp [hi]
    rw [this] at hk; exact Option.some.inj hk
  have sfirst : (pAt p.periods 0).s = BMIN := by
    have h0 := pAt_some p.periods 0 (by omega) (by omega)
    have e0 : (0 : Int).toNat = 0 := rfl
    rw [e0] at h0
    rw [h0] at w2
    simpa using w2
  have swall : ∀ k : Int, 0 ≤ k → k < p.periods.size → -64800 ≤ (pAt p.periods k).wall ∧ (pAt p.periods k).wall ≤ 64800 := by
    intro k k1 k2
    obtain ⟨hi, e⟩ := elem k k1 k2
    have := w3 k.toNat hi
    rw [e] at this
    simp only [Bool.and_eq_true, decide_eq_true_eq] at this
    exact ⟨this.1.2, this.2⟩
  have sinner : ∀ k : Int, 0 ≤ k → k + 1 < p.periods.size → MINI ≤ (pAt p.periods k).e ∧ (pAt p.periods k).e ≤ MAXI := by
    intro k k1 k2
    have ha := pAt_some p.periods k k1 (by omega)
    have hb := pAt_some p.periods (k + 1) (by omega) k2
    have e : (k + 1).toNat = k.toNat + 1 := by omega
    rw [e] at hb
    have := w4 k.toNat (by omega)
    rw [ha, hb] at this
    simp only [Bool.and_eq_true, beq_iff_eq] at this
    exact isValid_bounds _ this.2
  have slen : ∀ k : Int, 0 ≤ k → k < p.periods.size → MINI ≤ (pAt p.periods k).s → (pAt p.periods k).e ≤ MAXI →
      (pAt p.periods k).e - (pAt p.periods k).s ≥ G36 := by
    intro k k1 k2
    obtain ⟨hi, e⟩ := elem k k1 k2
    have := hml k.toNat hi
    rw [e] at this
    simp only [decide_eq_true_eq] at this
    exact this
  -- the tail
  have hm : tailOKE m zoneLo ≠ 0 := hmode
  obtain ⟨sq, hend⟩ := tail_seq m zoneLo hm
  simp only [seamOK, Bool.and_eq_true, decide_eq_true_eq] at hseam
  obtain ⟨⟨hval, hcov⟩, hfirst⟩ := hseam
  have tsv := isValid_bounds _ hval
  have hlo : zoneLo = 1900 := rfl
  have hmm : BMIN < MINI ∧ MAXI < AMAX := by decide
  obtain ⟨k0, k01, k02, k03, k04⟩ := seq_find_range (tailU m (tailOKE m zoneLo)) (2 * zoneLo + 2) 19999 p.tailStart
    (by omega) (by rw [show 2 * zoneLo + 2 = 2 * (zoneLo + 1) by omega]; exact hcov) (by rw [hend]; omega)
  have hg0 := sq.get k0 p.tailStart k01 k02 k03 k04
  rw [hg0] at hfirst
  simp only [Bool.or_eq_true, decide_eq_true_eq] at hfirst
  rw [sq.e k0 k01 k02] at hfirst
  have S1 := stored_seq p wf
  have S2 := seam_seq p m htl sq k0 ⟨k01, k02⟩ k03 k04
  -- re-index the tail side so that it continues the stored periods
  have S2' := S2.shift (k0 - p.periods.size) p.periods.size (19999 - k0 + p.periods.size) (by omega) (by omega)
  have hj : storedV p p.periods.size =
      (fun i => clampV (tailU m (tailOKE m zoneLo)) k0 p.tailStart (i + (k0 - p.periods.size))) p.periods.size := by
    have e : (p.periods.size : Int) + (k0 - p.periods.size) = k0 := by omega
    simp only [storedV, e, clampV, if_true]
    rw [if_neg (by omega)]
  have S := SeqSpec.glue S1 S2' hj
  refine ⟨_, _, 19999 - k0 + p.periods.size, ⟨S, by omega, ?_, ?_, ?_, ?_, ?_⟩, ?_⟩
  · -- first transition = beginning of time
    simp only [show (0 : Int) < p.periods.size by omega, if_true, storedV]; exact sfirst
  · -- last transition = end of time
    have e : 19999 - k0 + (p.periods.size : Int) + 1 + (k0 - p.periods.size) = 19999 + 1 := by omega
    simp only [show ¬ (19999 - k0 + (p.periods.size : Int) + 1 < p.periods.size) by omega, if_false, e, clampV]
    rw [if_neg (by omega)]; exact hend
  · -- inner transitions are valid instants
    intro k k1 k2
    by_cases hk : k < p.periods.size
    · simp only [hk, if_true]
      have := storedV_next p wf (k - 1) (by omega) (by omega)
      rw [show k - 1 + 1 = k by omega] at this
      rw [this]
      exact sinner (k - 1) (by omega) (by omega)
    · simp only [hk, if_false, clampV]
      by_cases hq : k + (k0 - p.periods.size) = k0
      · rw [if_pos hq]; exact tsv
      · rw [if_neg hq]; exact tail_valid m zoneLo hm _ (by omega) (by omega)
  · -- offsets
    intro k k1 k2
    by_cases hk : k < p.periods.size
    · simp only [hk, if_true]; exact swall k k1 hk
    · simp only [hk, if_false, clampIv]
      by_cases hq : k + (k0 - p.periods.size) = k0
      · rw [if_pos hq]; exact tail_walls m zoneLo hm _ k0
      · rw [if_neg hq]; exact tail_walls m zoneLo hm _ _
  · -- inner intervals last at least 36 h
    intro k k1 k2
    have hG : G36 = 2 * C05.H18 := rfl
    rw [← hG]
    by_cases hk : k < p.periods.size
    · have e2 := S.e k (by omega) (by omega)
      simp only [hk, if_true] at e2
      have hs : storedV p k = (pAt p.periods k).s := by unfold storedV; rw [if_pos hk]
      -- both ends are inner transitions, hence valid
      have v1 : MINI ≤ (pAt p.periods k).s := by
        have := storedV_next p wf (k - 1) (by omega) (by omega)
        rw [show k - 1 + 1 = k by omega] at this
        rw [hs] at this
        rw [this]; exact (sinner (k - 1) (by omega) (by omega)).1
      have v2 : (pAt p.periods k).e ≤ MAXI := by
        by_cases hq : k + 1 < p.periods.size
        · exact (sinner k (by omega) hq).2
        · have : k = p.periods.size - 1 := by omega
          rw [this, ← tailStart_eq p hne]; exact tsv.2
      have := slen k (by omega) hk v1 v2
      rw [← e2]
      simp only [hk, if_true, hs]
      exact this
    · simp only [hk, if_false, show ¬ (k + 1 < (p.periods.size : Int)) by omega, clampV]
      have e : k + 1 + (k0 - (p.periods.size : Int)) = k + (k0 - p.periods.size) + 1 := by omega
      rw [e, if_neg (by omega)]
      by_cases hq : k + (k0 - p.periods.size) = k0
      · rw [if_pos hq, hq]
        have hv := tail_valid m zoneLo hm (k0 + 1) (by omega) (by omega)
        rcases hfirst with hf | hf
        · omega
        · omega
      · rw [if_neg hq]
        have := tailLen_sound m zoneLo _ hlen (k + (k0 - p.periods.size)) (by omega) (by omega)
        omega

  · -- adjacent intervals differ, given the evaluated maximality check
    intro hmax k k1 k2
    simp only [zoneMaximal, htl, Bool.and_eq_true, decide_eq_true_eq] at hmax
    obtain ⟨mx1, mx2, mx3⟩ := hmax
    by_cases hk : k + 1 < p.periods.size
    · -- two stored periods
      simp only [show k < (p.periods.size : Int) by omega, hk, if_true]
      exact maximal_differ p.periods mx1 k k1 hk
    · by_cases hk' : k < p.periods.size
      · -- the seam: last stored period against the clamped first tail interval
        have hkn : k = p.periods.size - 1 := by omega
        have e : k + 1 + (k0 - (p.periods.size : Int)) = k0 := by omega
        simp only [hk', hk, if_true, if_false, e, clampIv]
        have hb := pAt_some p.periods k k1 hk'
        have e2 : k.toNat = p.periods.size - 1 := by omega
        rw [e2] at hb
        have hback : p.periods.back? = some (pAt p.periods k) := by
          simp only [Array.back?]; exact hb
        rw [hback, hg0] at mx3
        simp at mx3
        intro hcon
        rcases mx3 with (d1 | d2) | d3
        · exact d1 hcon.1
        · exact d2 hcon.2.1
        · exact d3 hcon.2.2
      · -- two tail intervals: one from each rule, their savings differ
        have e : k + 1 + (k0 - (p.periods.size : Int)) = k + (k0 - p.periods.size) + 1 := by omega
        simp only [hk', hk, if_false, e]
        have hd := tailIv_savings_differ m (tailOKE m zoneLo) (k + (k0 - p.periods.size)) mx2
        have c1 : ∀ j, (clampIv (tailIv m (tailOKE m zoneLo)) k0 p.tailStart j).savings = (tailIv m (tailOKE m zoneLo) j).savings := by
          intro j; unfold clampIv; split
          · rename_i hj; rw [hj]
          · rfl
        intro hcon
        exact hd (by rw [← c1, ← c1]; exact hcon.2.2)

theorem zoneOK_sound (p : Precalc) (h : zoneOK p = true) : ∃ V iv B, ZoneSeq p.get V iv B := by
  obtain ⟨V, iv, B, hz, _⟩ := zoneOK_sound_max p h
  exact ⟨V, iv, B, hz⟩

/-- **C04 ⇒ hypotheses of C05 for zones with a recurring tail.**  For a precalculated zone that passes the
    evaluated check `zoneOK`, the total interval function `gOfT p` meets `C05.Spec` (partition, constancy across
    the seam and through the end of time, ±18 h, valid interval ends, 36 h minimum) and the model's own lookup
    `p.get` agrees with it on every valid instant: all C05 theorems apply to `p.get`. -/
theorem zoneOK_gives_spec (p : Precalc) (h : zoneOK p = true) :
    C05.Spec (gOfT p) ∧ C05.Agrees p.get (gOfT p) := by
  obtain ⟨V, iv, B, hz⟩ := zoneOK_sound p h
  exact zoneSeq_spec hz

/-! ### non-vacuity: a toy zone whose single stored period ends on 2007-07-01T00:00Z, inside daylight time of the
    New York rules; the interval at the seam is the clamped one.  (That the full check `zoneOK` is satisfiable is
    shown by its evaluation on the bundled data: every tzdb zone with a tail passes it, see evidence/C04.json.) -/

def toySeam : Precalc := ⟨#[⟨BMIN, 1183248000000000000, "LMT", -17762, 0⟩], some nyTail⟩

example : toySeam.get 1183248000000000000 = .ok ⟨1183248000000000000, 1194156000000000000, "EDT", -14400, 3600⟩ := by
  decide +kernel
example : toySeam.get 1190000000000000000 = .ok ⟨1183248000000000000, 1194156000000000000, "EDT", -14400, 3600⟩ := by
  decide +kernel
example : toySeam.get 1194156000000000000 = .ok ⟨1194156000000000000, 1205046000000000000, "EST", -18000, 0⟩ := by
  decide +kernel
example : seamOK toySeam nyTail zoneLo 1 = true := by decide +kernel

end Pyoda.C04
