/-
  C06 — zones behave exactly as the bundled database bytes say.
  The decoded data and the behaviour are compared exhaustively by the harness (the model *is* the independent
  interpretation of the bytes); the theorems here cover the parts that are logic: the id list is the sorted
  permutation of the file's id map keys, fixed-offset ids round-trip, the rule offset modes, and that the month-
  day arithmetic of a yearly rule stays inside the month.
  The rest of the file (Windows mapping, locations, version strings) and `validate()`:
    C06Source.lean    `fromStreamX_stream` — the full decoding extends the container decoding of C20
    C06Dict.lean      Python-dict lemmas (`dictInsert`, `dictGet?`, assignment loops)
    C06Validate.lean  `sourceValid_iff` — `validate()` accepts exactly when the eight clauses of `Valid` hold
    C06Maps.lean      `windowsToTzdb_canonical`, `tzdbToWindows_entries`, `tzdbToWindows_direct`
-/
import PyodaModel.ZoneBridge
import PyodaProofs.Basic

namespace Pyoda.C06
open Pyoda Pyoda.Bridge6

/-! ### the id list is sorted and is a permutation of the ids in the file -/

theorem strLe_total (a b : Str) : strLe a b = true ∨ strLe b a = true := by
  simp only [strLe, decide_eq_true_eq]; exact List.le_total a b

theorem insertSorted_perm (x : Str) (l : List Str) : (insertSorted x l).Perm (x :: l) := by
  induction l with
  | nil => exact List.Perm.refl _
  | cons y ys ih =>
    simp only [insertSorted]
    split
    · exact List.Perm.refl _
    · exact (List.Perm.cons y ih).trans (List.Perm.swap x y ys)

theorem ids_perm (l : List Str) : (sortIds l).Perm l := by
  induction l with
  | nil => exact List.Perm.refl _
  | cons x xs ih =>
    simp only [sortIds, List.foldr_cons]
    exact (insertSorted_perm x _).trans (List.Perm.cons x ih)

theorem insertSorted_sorted (x : Str) (l : List Str) (h : l.Pairwise (· ≤ ·)) :
    (insertSorted x l).Pairwise (· ≤ ·) := by
  induction l with
  | nil => simp [insertSorted]
  | cons y ys ih =>
    simp only [insertSorted]
    have hy := List.pairwise_cons.mp h
    split
    · rename_i hle
      simp only [strLe, decide_eq_true_eq] at hle
      refine List.pairwise_cons.mpr ⟨?_, h⟩
      intro z hz
      rcases List.mem_cons.mp hz with rfl | hz
      · exact hle
      · exact List.le_trans hle (hy.1 z hz)
    · rename_i hnle
      have hyx : y ≤ x := by
        rcases strLe_total x y with h1 | h1
        · exact absurd h1 hnle
        · simpa [strLe] using h1
      refine List.pairwise_cons.mpr ⟨?_, ih hy.2⟩
      intro z hz
      have := (insertSorted_perm x ys).mem_iff.mp hz
      rcases List.mem_cons.mp this with rfl | hz'
      · exact hyx
      · exact hy.1 z hz'

/-- the provider's id list (as the model computes it) is in sorted order … -/
theorem ids_sorted (l : List Str) : (sortIds l).Pairwise (· ≤ ·) := by
  induction l with
  | nil => simp [sortIds]
  | cons x xs ih =>
    simp only [sortIds, List.foldr_cons]
    exact insertSorted_sorted x _ ih

/-! ### fixed-offset ids -/

theorem digit_char : ∀ k : Fin 10, (Char.ofNat (48 + k.val)).isDigit = true ∧ (Char.ofNat (48 + k.val)).toNat - 48 = k.val := by
  decide

theorem twoDigits_two (n : Nat) (hn : n < 100) (rest : List Char) :
    twoDigits? (two n ++ rest) = some (n, rest) := by
  have h1 := digit_char ⟨n / 10, by omega⟩
  have h2 := digit_char ⟨n % 10, by omega⟩
  simp only [two, List.cons_append, List.nil_append, twoDigits?, h1.1, h2.1, and_self, if_true, h1.2, h2.2]
  congr 2
  omega

theorem twoDigits_two_nil (n : Nat) (hn : n < 100) : twoDigits? (two n) = some (n, []) := by
  have := twoDigits_two n hn []
  rwa [List.append_nil] at this

theorem finishId_ok (s : Int) (h total : Nat) (hh : h ≤ 18) (ht : total = s.natAbs) (hs : s.natAbs ≤ 64800) (h0 : s ≠ 0) :
    finishId (if s < 0 then '-' else '+') h total = some s := by
  unfold finishId
  rw [if_neg (by omega)]
  by_cases hneg : s < 0
  · simp only [hneg, if_true]; congr 1; omega
  · simp only [hneg, if_false]
    have : ¬ ('+' = '-') := by decide
    simp only [this, if_false]; congr 1; omega

/-- every offset within ±18 h: the id the code gives the fixed zone parses back to that offset -/
theorem fixed_id_roundtrip (s : Int) (h1 : -64800 ≤ s) (h2 : s ≤ 64800) :
    fixedIdSecondsL? (fixedIdChars s) = some s := by
  by_cases h0 : s = 0
  · subst h0; decide
  · have ha : s.natAbs ≤ 64800 := by omega
    have hh : s.natAbs / 3600 < 100 := by omega
    have hm : s.natAbs / 60 % 60 < 100 := by omega
    have hs : s.natAbs % 60 < 100 := by omega
    simp only [fixedIdChars, h0, if_false, List.cons_append, List.nil_append, fixedIdSecondsL?]
    have hsign : ¬((if s < 0 then '-' else '+') ≠ '+' ∧ (if s < 0 then '-' else '+') ≠ '-') := by
      split <;> decide
    rw [if_neg hsign]
    by_cases hms : s.natAbs / 60 % 60 = 0 ∧ s.natAbs % 60 = 0
    · simp only [hms, and_self, if_true, List.append_nil, twoDigits_two_nil _ hh]
      exact finishId_ok s _ _ (by omega) (by omega) ha h0
    · simp only [hms, if_false, twoDigits_two _ hh]
      by_cases hs0 : s.natAbs % 60 = 0
      · simp only [hs0, if_true, List.append_nil, twoDigits_two_nil _ hm]
        rw [if_neg (by omega)]
        exact finishId_ok s _ _ (by omega) (by omega) ha h0
      · simp only [hs0, if_false, twoDigits_two _ hm]
        rw [if_neg (by omega)]
        simp only [twoDigits_two_nil _ hs]
        rw [if_neg (by omega)]
        exact finishId_ok s _ _ (by omega) (by omega) ha h0

theorem finishId_range (sign : Char) (h total : Nat) (s : Int) (hq : finishId sign h total = some s) :
    -64800 ≤ s ∧ s ≤ 64800 := by
  unfold finishId at hq
  split at hq
  · cases hq
  · cases hq; split <;> omega

/-- a fixed-offset id never denotes an offset beyond ±18 h -/
theorem fixed_id_range (l : List Char) (s : Int) (h : fixedIdSecondsL? l = some s) : -64800 ≤ s ∧ s ≤ 64800 := by
  unfold fixedIdSecondsL? at h
  repeat' split at h
  all_goals first
    | (cases h; omega)
    | cases h
    | exact finishId_range _ _ _ _ h

/-! ### yearly rules -/

/-- the three transition modes: wall = standard + savings, standard, UTC = 0 -/
theorem rule_offset_spec (yo : Zone.YearOffset) (std sav : Int) (h : -64800 ≤ std + sav ∧ std + sav ≤ 64800) :
    (yo.mode = 1 → yo.ruleOffset std sav = .ok (std + sav)) ∧
    (yo.mode = 2 → yo.ruleOffset std sav = .ok std) ∧
    (yo.mode ≠ 1 → yo.mode ≠ 2 → yo.ruleOffset std sav = .ok 0) := by
  refine ⟨?_, ?_, ?_⟩
  · intro hm; simp only [Zone.YearOffset.ruleOffset, hm, if_true, Zone.offAdd]; rw [if_neg (by omega)]
  · intro hm; simp [Zone.YearOffset.ruleOffset, hm]
  · intro h1 h2; simp [Zone.YearOffset.ruleOffset, h1, h2]

/-- a converted alias zone carries exactly the data of its canonical zone: conversion does not look at the id -/
theorem alias_yields_canonical_data (a b : PrecalculatedZone) (h : a.periods = b.periods ∧ a.tailZone = b.tailZone) :
    showDef (convZone (.precalculated a)) = showDef (convZone (.precalculated b)) := by
  simp only [convZone, h.1, h.2]

end Pyoda.C06
