/-
  C17 — ISO patterns interoperate with other ISO-8601 implementations.
  Shape theorems for the modelled ISO formatters (fixed widths, no trailing zeros in fractions, nine digits for the
  long form, instants end in Z) and equality with what the Python standard library writes (`PyIso`) on the shared
  domain.  The stdlib *readers* (fromisoformat) are not modelled: both reading directions are direct oracles.
-/
import PyodaProofs.TextIsoLemmas
import PyodaProofs.C07

namespace Pyoda.C17
open Pyoda Pyoda.Text

/-! ## dates -/

/-- years 0…9999: exactly `dddd-dd-dd` -/
theorem isoDate_fixed_width (y m d : Int) (hy0 : 0 ≤ y) (hy1 : y ≤ 9999) (hm0 : 0 ≤ m) (hm1 : m ≤ 99)
    (hd0 : 0 ≤ d) (hd1 : d ≤ 99) :
    fmtIsoDate y m d = padN 4 y.toNat ++ ['-'] ++ padN 2 m.toNat ++ ['-'] ++ padN 2 d.toNat ∧
    (fmtIsoDate y m d).length = 10 := by
  have e : fmtIsoDate y m d = padN 4 y.toNat ++ ['-'] ++ padN 2 m.toNat ++ ['-'] ++ padN 2 d.toNat := by
    unfold fmtIsoDate
    rw [format4_nonneg y hy0 hy1, format2_eq m hm0 (by omega), format2_eq d hd0 (by omega)]
  refine ⟨e, ?_⟩
  rw [e]; simp [length_padN]

/-- the documented sign/width rule of the `u` field below year 0: a `-` and still four digits -/
theorem isoDate_sign_width_rule (y m d : Int) (hy0 : -9999 ≤ y) (hy1 : y < 0) (hm0 : 0 ≤ m) (hm1 : m ≤ 99)
    (hd0 : 0 ≤ d) (hd1 : d ≤ 99) :
    fmtIsoDate y m d = '-' :: (padN 4 (-y).toNat ++ ['-'] ++ padN 2 m.toNat ++ ['-'] ++ padN 2 d.toNat) ∧
    (fmtIsoDate y m d).length = 11 := by
  have e : fmtIsoDate y m d = '-' :: (padN 4 (-y).toNat ++ ['-'] ++ padN 2 m.toNat ++ ['-'] ++ padN 2 d.toNat) := by
    unfold fmtIsoDate
    rw [format4_neg y hy1 hy0, format2_eq m hm0 (by omega), format2_eq d hd0 (by omega)]
    simp
  refine ⟨e, ?_⟩
  rw [e]; simp [length_padN]

/-- on the domain shared with the standard library the text is exactly `date.isoformat()` -/
theorem isoDate_eq_py (y m d : Int) (hy0 : 1 ≤ y) (hy1 : y ≤ 9999) (hm0 : 1 ≤ m) (hm1 : m ≤ 12)
    (hd0 : 1 ≤ d) (hd1 : d ≤ 31) :
    fmtIsoDate y m d = pyDateIso y.toNat m.toNat d.toNat := by
  rw [(isoDate_fixed_width y m d (by omega) hy1 (by omega) (by omega) (by omega) (by omega)).1]
  unfold pyDateIso
  rw [leftPadNonNeg_eq_padN _ 4 (by decide) (by omega), leftPadNonNeg_eq_padN _ 2 (by decide) (by omega),
    leftPadNonNeg_eq_padN _ 2 (by decide) (by omega)]

/-! ## times -/

/-- `HH:mm:ss`: three zero-padded two-digit fields for every time of day -/
theorem isoTime_fixed_width (nod : Int) (h0 : 0 ≤ nod) (h1 : nod < 86400000000000) :
    fmtHms nod = padN 2 (nod / 3600000000000).toNat ++ [':'] ++ padN 2 (nod / 60000000000 % 60).toNat ++ [':'] ++
      padN 2 (nod / 1000000000 % 60).toNat ∧ (fmtHms nod).length = 8 := by
  have e := C07.fmtHms_eq nod h0 h1
  rw [format2_eq _ (by omega) (by omega), format2_eq _ (by omega) (by omega), format2_eq _ (by omega) (by omega)] at e
  refine ⟨e, ?_⟩
  rw [e]; simp [length_padN]

theorem appendFractionTruncate_prefix (v : Int) (len scale : Nat) (pre : Text) :
    appendFractionTruncate v len scale (pre ++ ['.']) = pre ++ appendFractionTruncate v len scale ['.'] := by
  unfold appendFractionTruncate
  dsimp only
  split
  · simp
  · simp

/-- the date-time and instant texts are the date, `T`, and the time text -/
theorem isoDateTime_shape (y m d nod : Int) :
    fmtIsoDateTime y m d nod = fmtIsoDate y m d ++ ['T'] ++ fmtIsoTime nod ∧
    fmtIsoDateTimeGeneral y m d nod = fmtIsoDate y m d ++ ['T'] ++ fmtIsoTimeGeneral nod ∧
    fmtIsoInstant y m d nod = fmtIsoDate y m d ++ ['T'] ++ fmtIsoTime nod ++ ['Z'] := by
  have e : fmtIsoDateTime y m d nod = fmtIsoDate y m d ++ ['T'] ++ fmtIsoTime nod := by
    unfold fmtIsoDateTime fmtIsoTime fmtIsoTimeOn
    rw [List.nil_append, appendFractionTruncate_prefix (pre := fmtIsoDate y m d ++ ['T'] ++ fmtHms nod),
      appendFractionTruncate_prefix (pre := fmtHms nod)]
    simp only [List.append_assoc]
  refine ⟨e, rfl, ?_⟩
  unfold fmtIsoInstant; rw [e]

/-- fractional seconds carry no trailing zeros: either there is no fraction at all (exactly when the nanosecond
    of second is zero) or `.` and 1…9 digits the last of which is not `0` -/
theorem fraction_no_trailing_zero (nod : Int) (h0 : 0 ≤ nod) (h1 : nod < 86400000000000) :
    (nod % 1000000000 = 0 ∧ fmtIsoTime nod = fmtHms nod) ∨
    (nod % 1000000000 ≠ 0 ∧ ∃ ds, fmtIsoTime nod = fmtHms nod ++ ['.'] ++ ds ∧ ds ≠ [] ∧ ds.length ≤ 9 ∧
      (∀ c ∈ ds, isDigit c = true) ∧ ds.getLast? ≠ some '0') := by
  obtain ⟨_, _, _, e4⟩ := time_accessors nod h0 h1
  have hcast : nod % 1000000000 = (((nod % 1000000000).toNat : Nat) : Int) := by omega
  unfold fmtIsoTime fmtIsoTimeOn
  rw [e4, List.nil_append, hcast]
  rcases C07.parseFraction_appendFractionTruncate (nod % 1000000000).toNat 9 9 (fmtHms nod) [] (by decide) (by decide)
      (by omega) (Nat.mod_one _) noDigitHead_nil 1 (Nat.le_refl _) with ⟨hz, e⟩ | ⟨hnz, ds, e, hne, hdig, hlast, hlen, _⟩
  · left; exact ⟨by omega, e⟩
  · right; exact ⟨by omega, ds, e, hne, hlen, hdig, hlast⟩

/-- the long form always carries exactly nine fraction digits -/
theorem long_form_nine_digits (nod : Int) (h0 : 0 ≤ nod) (h1 : nod < 86400000000000) :
    fmtIsoTimeLong nod = fmtHms nod ++ ['.'] ++ padN 9 (nod % 1000000000).toNat ∧
    (fmtIsoTimeLong nod).length = 18 := by
  obtain ⟨_, _, _, e4⟩ := time_accessors nod h0 h1
  obtain ⟨n, hn⟩ : ∃ n : Nat, nod % 1000000000 = (n : Int) := ⟨(nod % 1000000000).toNat, by omega⟩
  have e : fmtIsoTimeLong nod = fmtHms nod ++ ['.'] ++ padN 9 (nod % 1000000000).toNat := by
    unfold fmtIsoTimeLong
    rw [e4, hn, appendFraction_eq n 9 9 (by decide) (by decide) (by omega)]
    simp
  refine ⟨e, ?_⟩
  rw [e, (isoTime_fixed_width nod h0 h1).1]; simp [length_padN]

/-- whole seconds: the general and the extended pattern both write exactly `time.isoformat()` -/
theorem isoTimeGeneral_eq_py (nod : Int) (h0 : 0 ≤ nod) (h1 : nod < 86400000000000) (hsec : nod % 1000000000 = 0) :
    fmtIsoTimeGeneral nod = pyTimeIso (nod / 1000).toNat ∧ fmtIsoTime nod = pyTimeIso (nod / 1000).toNat := by
  have e : fmtIsoTimeGeneral nod = pyTimeIso (nod / 1000).toNat := by
    unfold fmtIsoTimeGeneral pyTimeIso
    rw [(isoTime_fixed_width nod h0 h1).1]
    dsimp only
    have a1 : (nod / 1000).toNat / 3600000000 = (nod / 3600000000000).toNat := by omega
    have a2 : (nod / 1000).toNat / 60000000 % 60 = (nod / 60000000000 % 60).toNat := by omega
    have a3 : (nod / 1000).toNat / 1000000 % 60 = (nod / 1000000000 % 60).toNat := by omega
    have a4 : (nod / 1000).toNat % 1000000 = 0 := by omega
    rw [a1, a2, a3, a4]
    rw [leftPadNonNeg_eq_padN _ 2 (by decide) (by omega), leftPadNonNeg_eq_padN _ 2 (by decide) (by omega),
      leftPadNonNeg_eq_padN _ 2 (by decide) (by omega)]
    simp
  refine ⟨e, ?_⟩
  rcases fraction_no_trailing_zero nod h0 h1 with ⟨_, e2⟩ | ⟨hne, _⟩
  · rw [e2]; exact e
  · exact absurd hsec hne

theorem padN_add (a b v : Nat) : padN (a + b) v = padN a (v / 10 ^ b) ++ padN b (v % 10 ^ b) := by
  induction b generalizing v with
  | zero => simp [padN_zero, Nat.mod_one]
  | succ b ih =>
    rw [← Nat.add_assoc, padN_succ, padN_succ, ih]
    have e1 : v / 10 / 10 ^ b = v / 10 ^ (b + 1) := by
      rw [Nat.div_div_eq_div_mul, Nat.pow_succ, Nat.mul_comm]
    have e2 : v / 10 % 10 ^ b = v % 10 ^ (b + 1) / 10 := by
      rw [Nat.pow_succ, Nat.mul_comm, Nat.mod_mul_right_div_self]
    have e3 : v % 10 = v % 10 ^ (b + 1) % 10 := by
      rw [Nat.pow_succ, Nat.mod_mul_left_mod]
    rw [e1, e2, ← e3]
    simp

/-- microsecond values with a fraction: the long form is `time.isoformat()` followed by `000` -/
theorem isoTime_eq_py_of_micros (nod : Int) (h0 : 0 ≤ nod) (h1 : nod < 86400000000000) (hus : nod % 1000 = 0)
    (hfrac : nod % 1000000000 ≠ 0) :
    fmtIsoTimeLong nod = pyTimeIso (nod / 1000).toNat ++ ['0', '0', '0'] := by
  rw [(long_form_nine_digits nod h0 h1).1, (isoTime_fixed_width nod h0 h1).1]
  unfold pyTimeIso
  dsimp only
  have a1 : (nod / 1000).toNat / 3600000000 = (nod / 3600000000000).toNat := by omega
  have a2 : (nod / 1000).toNat / 60000000 % 60 = (nod / 60000000000 % 60).toNat := by omega
  have a3 : (nod / 1000).toNat / 1000000 % 60 = (nod / 1000000000 % 60).toNat := by omega
  have a4 : (nod / 1000).toNat % 1000000 ≠ 0 := by omega
  rw [a1, a2, a3, if_neg a4]
  rw [leftPadNonNeg_eq_padN _ 2 (by decide) (by omega), leftPadNonNeg_eq_padN _ 2 (by decide) (by omega),
    leftPadNonNeg_eq_padN _ 2 (by decide) (by omega), leftPadNonNeg_eq_padN _ 6 (by decide) (by omega)]
  have hp := padN_add 6 3 (nod % 1000000000).toNat
  have b1 : (nod % 1000000000).toNat / 10 ^ 3 = (nod / 1000).toNat % 1000000 := by
    have : (10 : Nat) ^ 3 = 1000 := by decide
    rw [this]; omega
  have b2 : (nod % 1000000000).toNat % 10 ^ 3 = 0 := by
    have : (10 : Nat) ^ 3 = 1000 := by decide
    rw [this]; omega
  rw [b1, b2] at hp
  have hz : padN 3 0 = ['0', '0', '0'] := by decide
  rw [show (6 + 3 : Nat) = 9 from rfl, hz] at hp
  rw [hp]
  simp

/-! ## instants -/

theorem instant_ends_in_Z (y m d nod : Int) :
    (fmtIsoInstant y m d nod).getLast? = some 'Z' ∧ (fmtInstantGeneral y m d nod).getLast? = some 'Z' := by
  unfold fmtIsoInstant fmtInstantGeneral
  simp

/-! ## offsets -/

/-- `±HH`, `±HH:mm` or `±HH:mm:ss` (the shortest that loses nothing), fields zero-padded to two digits -/
theorem offset_shape (s : Int) (h0 : -64800 ≤ s) (h1 : s ≤ 64800) :
    let a : Int := s.natAbs
    let sg : Char := if s < 0 then '-' else '+'
    (a % 3600 = 0 ∧ fmtOffG s = sg :: padN 2 (a / 3600).toNat) ∨
    (a % 3600 ≠ 0 ∧ a % 60 = 0 ∧ fmtOffG s = sg :: (padN 2 (a / 3600).toNat ++ [':'] ++ padN 2 (a / 60 % 60).toNat)) ∨
    (a % 60 ≠ 0 ∧ fmtOffG s = sg :: (padN 2 (a / 3600).toNat ++ [':'] ++ padN 2 (a / 60 % 60).toNat ++ [':'] ++
        padN 2 (a % 60).toNat)) := by
  intro a sg
  have ha : a = (s.natAbs : Int) := rfl
  have hsgdef : sg = if s < 0 then '-' else '+' := rfl
  clear_value a sg
  subst ha; subst hsgdef
  obtain ⟨eh, em, es⟩ := off_accessors s h0 h1
  have hsg : offSign s = (if s < 0 then '-' else '+') := by
    rcases offSign_cases s with ⟨h, e⟩ | ⟨h, e⟩
    · rw [e]; show '+' = if s < 0 then '-' else '+'; rw [if_neg (by omega)]
    · rw [e]; show '-' = if s < 0 then '-' else '+'; rw [if_pos h]
  have hA : (s.natAbs : Int) ≤ 64800 := by omega
  have hA0 : (0 : Int) ≤ (s.natAbs : Int) := by omega
  unfold fmtOffG fmtOffLong fmtOffMedium fmtOffShort
  rw [csharpMod_pos s 3600 (by decide), csharpMod_pos s 60 (by decide), eh, em, es, hsg]
  rw [format2_eq _ (by omega) (by omega), format2_eq _ (by omega) (by omega), format2_eq _ (by omega) (by omega)]
  by_cases c1 : (if s < 0 ∧ 0 < s % 3600 then s % 3600 - 3600 else s % 3600) = 0
  · left
    rw [if_pos c1]
    refine ⟨?_, rfl⟩
    show (s.natAbs : Int) % 3600 = 0
    split at c1 <;> omega
  · right
    rw [if_neg c1]
    have n1 : (s.natAbs : Int) % 3600 ≠ 0 := by
      split at c1 <;> omega
    by_cases c2 : (if s < 0 ∧ 0 < s % 60 then s % 60 - 60 else s % 60) = 0
    · left
      rw [if_pos c2]
      refine ⟨n1, ?_, by simp⟩
      show (s.natAbs : Int) % 60 = 0
      split at c2 <;> omega
    · right
      rw [if_neg c2]
      refine ⟨?_, by simp⟩
      show (s.natAbs : Int) % 60 ≠ 0
      split at c2 <;> omega

/-- whole minutes within ±18 h: the text is the standard library's `±HH:MM` suffix, except that whole hours are
    written `±HH` (the stdlib's text is then the pattern's text followed by `:00`) -/
theorem offset_whole_minutes_eq_py (s : Int) (h0 : -64800 ≤ s) (h1 : s ≤ 64800) (hmin : s % 60 = 0) :
    (s % 3600 ≠ 0 → fmtOffG s = pyOffsetIso s) ∧
    (s % 3600 = 0 → pyOffsetIso s = fmtOffG s ++ [':', '0', '0']) := by
  have hz : padN 2 0 = ['0', '0'] := by decide
  have py : pyOffsetIso s = (if s < 0 then '-' else '+') ::
      (padN 2 (s.natAbs / 3600) ++ [':'] ++ padN 2 (s.natAbs / 60 % 60)) := by
    unfold pyOffsetIso
    dsimp only
    have : s.natAbs % 60 = 0 := by omega
    rw [if_pos this, leftPadNonNeg_eq_padN _ 2 (by decide) (by omega), leftPadNonNeg_eq_padN _ 2 (by decide) (by omega)]
    simp
  have t1 : ((s.natAbs : Int) / 3600).toNat = s.natAbs / 3600 := by omega
  have t2 : ((s.natAbs : Int) / 60 % 60).toNat = s.natAbs / 60 % 60 := by omega
  rcases offset_shape s h0 h1 with ⟨ha, e⟩ | ⟨ha, hb, e⟩ | ⟨ha, _⟩
  · constructor
    · intro h; exfalso; omega
    · intro _
      rw [py, e, t1]
      have : s.natAbs / 60 % 60 = 0 := by omega
      rw [this, hz]; simp
  · constructor
    · intro _; rw [py, e, t1, t2]
    · intro h; exfalso; omega
  · exfalso; omega

end Pyoda.C17
