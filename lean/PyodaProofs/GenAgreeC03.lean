/-
  GenAgreeC03 — agreement between the definitions GENERATED from pyoda_time's Python source
  (`PyodaGen/C03.lean`, written by tools/py2lean.py on every check) and the hand-written model
  `PyodaModel/Elapsed.lean` that the C03 theorems are about.

  One theorem per generated definition, for all inputs.  Where the model has the same function the statement is
  `Gen.C03.f args = Pyoda.f args`; where the model has no counterpart (thin wrappers, comparison operators of
  Instant/Offset, raw constructors) the right-hand side is the model expression the harness uses for that member.
  A change of the Python source changes the generated definition; the theorem of that definition (or of a
  caller) then stops checking and the harness reports the broken tie by theorem name.
-/
import PyodaGen.C03
import PyodaModel.Elapsed
import PyodaProofs.Basic

namespace Pyoda.GenAgree.C03
open Pyoda

local macro "unfold_consts" : tactic =>
  `(tactic| simp only [NPD, NPH, NPMin, NPS, NPMs, NPUs, NPT, TPD, TPS, TPH, SPD, MsPD, UsPD, MinPD, HPD,
      Duration.MIN_DAYS, Duration.MAX_DAYS, Duration.MIN_NANOS, Duration.MAX_NANOS, Instant.MIN_DAYS, Instant.MAX_DAYS,
      Offset.MIN_S, Offset.MAX_S] at *)

/-! ## utility/_tick_arithmetic.py -/

theorem gen_ticksToDaysAndTickOfDay_eq (t : Int) :
    Gen.C03.ticksToDaysAndTickOfDay t = Duration.ticksToDaysAndTickOfDay t := by
  unfold Gen.C03.ticksToDaysAndTickOfDay Duration.ticksToDaysAndTickOfDay
  split <;> rfl

theorem gen_daysAndTickOfDayToTicks_eq (d t : Int) :
    Gen.C03.daysAndTickOfDayToTicks d t = Duration.daysAndTickOfDayToTicks d t := rfl

/-- no model counterpart: `Instant.toUnixTicks` in the model inlines it -/
theorem gen_boundedDaysAndTickOfDayToTicks_eq (d t : Int) :
    Gen.C03.boundedDaysAndTickOfDayToTicks d t = d * TPD + t := rfl

/-! ## _duration.py -/

theorem gen_Duration_ctor_eq (d n : Int) : Gen.C03.Duration.ctor d n = Duration.ctor d n := by
  unfold Gen.C03.Duration.ctor Duration.ctor checkRange
  unfold_consts
  by_cases h : d < -1073741824 ∨ d > 1073741823 <;> simp only [h, if_true, if_false] <;> rfl

theorem gen_Duration_fromUnits_eq (u lo hi upd npu : Int) :
    Gen.C03.Duration.fromUnits u lo hi upd npu = Duration.fromUnits u lo hi upd npu := rfl

/-- raw constructor (`__ctor(days=, nano_of_day=, no_validation=)`): the model writes the structure literal -/
theorem gen_Duration_ctorUnchecked_eq (d n : Int) (b : Bool) : Gen.C03.Duration.ctorUnchecked d n b = ⟨d, n⟩ := rfl

theorem gen_Duration_floorDays_eq (d : Duration) : Gen.C03.Duration.floorDays d = d.days := rfl
theorem gen_Duration_nanosecondOfFloorDay_eq (d : Duration) : Gen.C03.Duration.nanosecondOfFloorDay d = d.nod := rfl
theorem gen_Duration_daysAcc_eq (d : Duration) : Gen.C03.Duration.daysAcc d = d.daysAcc := rfl
theorem gen_Duration_nanosecondOfDay_eq (d : Duration) : Gen.C03.Duration.nanosecondOfDay d = d.nanosecondOfDay := rfl
theorem gen_Duration_hours_eq (d : Duration) : Gen.C03.Duration.hours d = d.hours := rfl
theorem gen_Duration_minutes_eq (d : Duration) : Gen.C03.Duration.minutes d = d.minutes := rfl
theorem gen_Duration_seconds_eq (d : Duration) : Gen.C03.Duration.seconds d = d.seconds := rfl
theorem gen_Duration_milliseconds_eq (d : Duration) : Gen.C03.Duration.milliseconds d = d.milliseconds := rfl
theorem gen_Duration_microseconds_eq (d : Duration) : Gen.C03.Duration.microseconds d = d.microseconds := rfl
theorem gen_Duration_subsecondTicks_eq (d : Duration) : Gen.C03.Duration.subsecondTicks d = d.subsecondTicks := rfl
theorem gen_Duration_subsecondNanoseconds_eq (d : Duration) :
    Gen.C03.Duration.subsecondNanoseconds d = d.subsecondNanoseconds := rfl

theorem gen_Duration_bclCompatibleTicks_eq (d : Duration) :
    Gen.C03.Duration.bclCompatibleTicks d = d.bclCompatibleTicks := rfl

theorem gen_Duration_totalNanoseconds_eq (d : Duration) : Gen.C03.Duration.totalNanoseconds d = d.toNanos := rfl
theorem gen_Duration_toNanos_eq (d : Duration) : Gen.C03.Duration.toNanos d = d.toNanos := rfl

theorem gen_Duration_plusSmallNanos_eq (d : Duration) (s : Int) :
    Gen.C03.Duration.plusSmallNanos d s = d.plusSmallNanos s := by
  unfold Gen.C03.Duration.plusSmallNanos Duration.plusSmallNanos
  simp only [gen_Duration_ctor_eq]
  rfl

theorem gen_Duration_minusSmallNanos_eq (d : Duration) (s : Int) :
    Gen.C03.Duration.minusSmallNanos d s = d.minusSmallNanos s := by
  unfold Gen.C03.Duration.minusSmallNanos Duration.minusSmallNanos
  simp only [gen_Duration_ctor_eq]
  rfl

theorem gen_Duration_add_eq (a b : Duration) : Gen.C03.Duration.add a b = Duration.add a b := by
  unfold Gen.C03.Duration.add Duration.add
  simp only [gen_Duration_ctor_eq]
  rfl

theorem gen_Duration_sub_eq (a b : Duration) : Gen.C03.Duration.sub a b = Duration.sub a b := by
  unfold Gen.C03.Duration.sub Duration.sub
  simp only [gen_Duration_ctor_eq]
  rfl

theorem gen_Duration_neg_eq (a : Duration) : Gen.C03.Duration.neg a = Duration.neg a := by
  unfold Gen.C03.Duration.neg Duration.neg
  simp only [gen_Duration_ctor_eq]
  rfl

theorem gen_Duration_fromNanoseconds_eq (n : Int) :
    Gen.C03.Duration.fromNanoseconds n = Duration.fromNanoseconds n := by
  unfold Gen.C03.Duration.fromNanoseconds Duration.fromNanoseconds
  simp only [gen_Duration_ctor_eq]
  rfl

theorem gen_Duration_mulInt_eq (a : Duration) (k : Int) : Gen.C03.Duration.mulInt a k = Duration.mulInt a k := by
  unfold Gen.C03.Duration.mulInt Duration.mulInt
  simp only [gen_Duration_fromNanoseconds_eq, gen_Duration_toNanos_eq]

theorem gen_Duration_rmulInt_eq (a : Duration) (k : Int) : Gen.C03.Duration.rmulInt a k = Duration.mulInt a k := by
  unfold Gen.C03.Duration.rmulInt
  exact gen_Duration_mulInt_eq a k

theorem gen_Duration_divInt_eq (a : Duration) (k : Int) : Gen.C03.Duration.divInt a k = Duration.divInt a k := by
  unfold Gen.C03.Duration.divInt Duration.divInt
  simp only [gen_Duration_fromNanoseconds_eq, gen_Duration_totalNanoseconds_eq]

theorem gen_Duration_beq_eq (a b : Duration) : Gen.C03.Duration.beq a b = Duration.beq a b := by
  unfold Gen.C03.Duration.beq Duration.beq
  exact Bool.decide_and ..

theorem gen_Duration_bne_eq (a b : Duration) : Gen.C03.Duration.bne a b = !Duration.beq a b := by
  unfold Gen.C03.Duration.bne
  rw [gen_Duration_beq_eq]
  cases Duration.beq a b <;> rfl

theorem gen_Duration_lt_eq (a b : Duration) : Gen.C03.Duration.lt a b = Duration.lt a b := by
  unfold Gen.C03.Duration.lt Duration.lt
  rw [Bool.decide_or, Bool.decide_and]

theorem gen_Duration_gt_eq (a b : Duration) : Gen.C03.Duration.gt a b = Duration.gt a b := by
  unfold Gen.C03.Duration.gt Duration.gt
  rw [Bool.decide_or, Bool.decide_and]

theorem gen_Duration_le_eq (a b : Duration) : Gen.C03.Duration.le a b = Duration.le a b := by
  unfold Gen.C03.Duration.le Duration.le
  rw [gen_Duration_lt_eq, gen_Duration_beq_eq, Bool.decide_or, Bool.decide_eq_true, Bool.decide_eq_true]

theorem gen_Duration_ge_eq (a b : Duration) : Gen.C03.Duration.ge a b = Duration.ge a b := by
  unfold Gen.C03.Duration.ge Duration.ge
  rw [gen_Duration_gt_eq, gen_Duration_beq_eq, Bool.decide_or, Bool.decide_eq_true, Bool.decide_eq_true]

theorem gen_Duration_compareTo_eq (a b : Duration) : Gen.C03.Duration.compareTo a b = Duration.compareTo a b := by
  unfold Gen.C03.Duration.compareTo Duration.compareTo
  rfl

theorem gen_Duration_fromDays_eq (n : Int) : Gen.C03.Duration.fromDays n = Duration.fromDays n := by
  unfold Gen.C03.Duration.fromDays Duration.fromDays
  exact gen_Duration_ctor_eq n 0

theorem gen_Duration_fromHours_eq (n : Int) : Gen.C03.Duration.fromHours n = Duration.fromHours n := rfl
theorem gen_Duration_fromMinutes_eq (n : Int) : Gen.C03.Duration.fromMinutes n = Duration.fromMinutes n := rfl
theorem gen_Duration_fromSeconds_eq (n : Int) : Gen.C03.Duration.fromSeconds n = Duration.fromSeconds n := rfl
theorem gen_Duration_fromMilliseconds_eq (n : Int) :
    Gen.C03.Duration.fromMilliseconds n = Duration.fromMilliseconds n := rfl
theorem gen_Duration_fromMicroseconds_eq (n : Int) :
    Gen.C03.Duration.fromMicroseconds n = Duration.fromMicroseconds n := rfl

theorem gen_Duration_fromTicks_eq (n : Int) : Gen.C03.Duration.fromTicks n = Duration.fromTicks n := by
  unfold Gen.C03.Duration.fromTicks Duration.fromTicks
  simp only [gen_ticksToDaysAndTickOfDay_eq]
  rfl

theorem gen_Duration_addStatic_eq (a b : Duration) : Gen.C03.Duration.addStatic a b = Duration.add a b :=
  gen_Duration_add_eq a b
theorem gen_Duration_plus_eq (a b : Duration) : Gen.C03.Duration.plus a b = Duration.add a b :=
  gen_Duration_add_eq a b
theorem gen_Duration_subtractStatic_eq (a b : Duration) : Gen.C03.Duration.subtractStatic a b = Duration.sub a b :=
  gen_Duration_sub_eq a b
theorem gen_Duration_minus_eq (a b : Duration) : Gen.C03.Duration.minus a b = Duration.sub a b :=
  gen_Duration_sub_eq a b
theorem gen_Duration_negateStatic_eq (a : Duration) : Gen.C03.Duration.negateStatic a = Duration.neg a :=
  gen_Duration_neg_eq a
theorem gen_Duration_equals_eq (a b : Duration) : Gen.C03.Duration.equals a b = Duration.beq a b :=
  gen_Duration_beq_eq a b

/-! ## _offset.py -/

theorem gen_Offset_ctor_eq (s : Int) : Gen.C03.Offset.ctor s = Offset.ctor s := rfl
theorem gen_Offset_secondsAcc_eq (o : Offset) : Gen.C03.Offset.secondsAcc o = o.seconds := rfl
theorem gen_Offset_milliseconds_eq (o : Offset) : Gen.C03.Offset.milliseconds o = o.milliseconds := rfl
theorem gen_Offset_ticks_eq (o : Offset) : Gen.C03.Offset.ticks o = o.ticks := rfl
theorem gen_Offset_nanoseconds_eq (o : Offset) : Gen.C03.Offset.nanoseconds o = o.nanoseconds := rfl
theorem gen_Offset_neg_eq (o : Offset) : Gen.C03.Offset.neg o = Offset.neg o := rfl
theorem gen_Offset_fromSeconds_eq (s : Int) : Gen.C03.Offset.fromSeconds s = Offset.fromSeconds s := rfl
theorem gen_Offset_add_eq (a b : Offset) : Gen.C03.Offset.add a b = Offset.add a b := rfl
theorem gen_Offset_sub_eq (a b : Offset) : Gen.C03.Offset.sub a b = Offset.sub a b := rfl
theorem gen_Offset_compareTo_eq (a b : Offset) : Gen.C03.Offset.compareTo a b = Offset.compareTo a b := rfl
/-- the model has no Offset comparison operators: they are stated against the seconds -/
theorem gen_Offset_beq_eq (a b : Offset) : Gen.C03.Offset.beq a b = decide (a.seconds = b.seconds) := rfl
theorem gen_Offset_bne_eq (a b : Offset) : Gen.C03.Offset.bne a b = decide (a.seconds ≠ b.seconds) := by
  unfold Gen.C03.Offset.bne
  rw [gen_Offset_beq_eq]
  simp only [decide_eq_true_eq]
theorem gen_Offset_lt_eq (a b : Offset) : Gen.C03.Offset.lt a b = decide (a.seconds < b.seconds) := by
  unfold Gen.C03.Offset.lt Gen.C03.Offset.compareTo Gen.C03.Offset.secondsAcc
  apply decide_eq_decide.mpr; omega
theorem gen_Offset_le_eq (a b : Offset) : Gen.C03.Offset.le a b = decide (a.seconds ≤ b.seconds) := by
  unfold Gen.C03.Offset.le Gen.C03.Offset.compareTo Gen.C03.Offset.secondsAcc
  apply decide_eq_decide.mpr; omega
theorem gen_Offset_gt_eq (a b : Offset) : Gen.C03.Offset.gt a b = decide (a.seconds > b.seconds) := by
  unfold Gen.C03.Offset.gt Gen.C03.Offset.compareTo Gen.C03.Offset.secondsAcc
  apply decide_eq_decide.mpr; omega
theorem gen_Offset_ge_eq (a b : Offset) : Gen.C03.Offset.ge a b = decide (a.seconds ≥ b.seconds) := by
  unfold Gen.C03.Offset.ge Gen.C03.Offset.compareTo Gen.C03.Offset.secondsAcc
  apply decide_eq_decide.mpr; omega
theorem gen_Offset_fromMilliseconds_eq (n : Int) : Gen.C03.Offset.fromMilliseconds n = Offset.fromMilliseconds n := rfl
theorem gen_Offset_fromTicks_eq (n : Int) : Gen.C03.Offset.fromTicks n = Offset.fromTicks n := rfl
theorem gen_Offset_fromNanoseconds_eq (n : Int) : Gen.C03.Offset.fromNanoseconds n = Offset.fromNanoseconds n := rfl
theorem gen_Offset_fromHours_eq (n : Int) : Gen.C03.Offset.fromHours n = Offset.fromHours n := rfl
theorem gen_Offset_fromHoursAndMinutes_eq (h m : Int) :
    Gen.C03.Offset.fromHoursAndMinutes h m = Offset.fromHoursAndMinutes h m := rfl
theorem gen_Offset_plus_eq (a b : Offset) : Gen.C03.Offset.plus a b = Offset.add a b := rfl
theorem gen_Offset_minus_eq (a b : Offset) : Gen.C03.Offset.minus a b = Offset.sub a b := rfl
theorem gen_Offset_negateStatic_eq (a : Offset) : Gen.C03.Offset.negateStatic a = Offset.neg a := rfl

/-! ## _instant.py -/

/-- `Instant._ctor(days=, nano_of_day=)`: a checked Duration wrapped (the model writes `⟨d⟩` on the result) -/
theorem gen_Instant_ctor_eq (d n : Int) :
    Gen.C03.Instant.ctor d n = (do let x ← Duration.ctor d n; .ok ⟨x⟩) := by
  unfold Gen.C03.Instant.ctor
  simp only [gen_Duration_ctor_eq]

theorem gen_Instant_ofDuration_eq (d : Duration) : Gen.C03.Instant.ofDuration d = ⟨d⟩ := rfl

theorem gen_Instant_ofDaysInvalid_eq (d : Int) (b : Bool) :
    Gen.C03.Instant.ofDaysInvalid d b = (do let x ← Duration.ctor d 0; .ok ⟨x⟩) := by
  unfold Gen.C03.Instant.ofDaysInvalid
  simp only [gen_Duration_ctor_eq]

theorem gen_Instant_beforeMinValue_eq : Gen.C03.Instant.beforeMinValue = .ok Instant.beforeMin := by
  unfold Gen.C03.Instant.beforeMinValue
  rw [gen_Instant_ofDaysInvalid_eq]
  rfl

theorem gen_Instant_afterMaxValue_eq : Gen.C03.Instant.afterMaxValue = .ok Instant.afterMax := by
  unfold Gen.C03.Instant.afterMaxValue
  rw [gen_Instant_ofDaysInvalid_eq]
  rfl

theorem gen_Instant_timeSinceEpoch_eq (i : Instant) : Gen.C03.Instant.timeSinceEpoch i = i.dur := rfl
theorem gen_Instant_daysSinceEpoch_eq (i : Instant) : Gen.C03.Instant.daysSinceEpoch i = i.dur.days := rfl
theorem gen_Instant_nanosecondOfDay_eq (i : Instant) : Gen.C03.Instant.nanosecondOfDay i = i.dur.nod := rfl

theorem gen_Instant_isValid_eq (i : Instant) : Gen.C03.Instant.isValid i = i.isValid := by
  unfold Gen.C03.Instant.isValid Instant.isValid
  rw [Bool.decide_and]
  rfl

theorem gen_Instant_fromTrusted_eq (d : Duration) : Gen.C03.Instant.fromTrusted d = ⟨d⟩ := rfl

theorem gen_Instant_fromUntrusted_eq (d : Duration) : Gen.C03.Instant.fromUntrusted d = Instant.fromUntrusted d := rfl

/-- the model has no Instant comparison operators: the harness compares the durations -/
theorem gen_Instant_beq_eq (a b : Instant) : Gen.C03.Instant.beq a b = Duration.beq a.dur b.dur :=
  gen_Duration_beq_eq a.dur b.dur
theorem gen_Instant_bne_eq (a b : Instant) : Gen.C03.Instant.bne a b = !Duration.beq a.dur b.dur := by
  unfold Gen.C03.Instant.bne
  rw [gen_Duration_beq_eq]
  cases Duration.beq a.dur b.dur <;> rfl
theorem gen_Instant_lt_eq (a b : Instant) : Gen.C03.Instant.lt a b = Duration.lt a.dur b.dur :=
  gen_Duration_lt_eq a.dur b.dur
theorem gen_Instant_le_eq (a b : Instant) : Gen.C03.Instant.le a b = Duration.le a.dur b.dur :=
  gen_Duration_le_eq a.dur b.dur
theorem gen_Instant_gt_eq (a b : Instant) : Gen.C03.Instant.gt a b = Duration.gt a.dur b.dur :=
  gen_Duration_gt_eq a.dur b.dur
theorem gen_Instant_ge_eq (a b : Instant) : Gen.C03.Instant.ge a b = Duration.ge a.dur b.dur :=
  gen_Duration_ge_eq a.dur b.dur
theorem gen_Instant_compareTo_eq (a b : Instant) :
    Gen.C03.Instant.compareTo a b = Duration.compareTo a.dur b.dur :=
  gen_Duration_compareTo_eq a.dur b.dur

theorem gen_Instant_plus_eq (i : Instant) (d : Duration) : Gen.C03.Instant.plus i d = Instant.plus i d := by
  unfold Gen.C03.Instant.plus Instant.plus
  simp only [gen_Duration_add_eq]
  rfl

theorem gen_Instant_minusDur_eq (i : Instant) (d : Duration) : Gen.C03.Instant.minusDur i d = Instant.minusDur i d := by
  unfold Gen.C03.Instant.minusDur Instant.minusDur
  simp only [gen_Duration_sub_eq]
  rfl

theorem gen_Instant_minus_eq (a b : Instant) : Gen.C03.Instant.minus a b = Instant.minus a b := by
  unfold Gen.C03.Instant.minus Instant.minus
  exact gen_Duration_sub_eq a.dur b.dur

theorem gen_Instant_plusMethod_eq (i : Instant) (d : Duration) : Gen.C03.Instant.plusMethod i d = Instant.plus i d :=
  gen_Instant_plus_eq i d

theorem gen_Instant_fromUnixTicks_eq (t : Int) : Gen.C03.Instant.fromUnixTicks t = Instant.fromUnixTicks t := by
  unfold Gen.C03.Instant.fromUnixTicks Instant.fromUnixTicks
  simp only [gen_Duration_fromTicks_eq]
  rfl

theorem gen_Instant_fromUnixMilliseconds_eq (t : Int) :
    Gen.C03.Instant.fromUnixMilliseconds t = Instant.fromUnixMilliseconds t := rfl

theorem gen_Instant_fromUnixSeconds_eq (t : Int) : Gen.C03.Instant.fromUnixSeconds t = Instant.fromUnixSeconds t := rfl

theorem gen_Instant_toUnixTicks_eq (i : Instant) : Gen.C03.Instant.toUnixTicks i = i.toUnixTicks := rfl
theorem gen_Instant_toUnixSeconds_eq (i : Instant) : Gen.C03.Instant.toUnixSeconds i = i.toUnixSeconds := rfl
theorem gen_Instant_toUnixMilliseconds_eq (i : Instant) :
    Gen.C03.Instant.toUnixMilliseconds i = i.toUnixMilliseconds := rfl

theorem gen_Instant_plusTicks_eq (i : Instant) (t : Int) : Gen.C03.Instant.plusTicks i t = i.plusTicks t := by
  unfold Gen.C03.Instant.plusTicks Instant.plusTicks Instant.plus
  simp only [gen_Duration_fromTicks_eq, gen_Duration_add_eq]
  rfl

theorem gen_Instant_plusNanoseconds_eq (i : Instant) (n : Int) :
    Gen.C03.Instant.plusNanoseconds i n = i.plusNanoseconds n := by
  unfold Gen.C03.Instant.plusNanoseconds Instant.plusNanoseconds Instant.plus
  simp only [gen_Duration_fromNanoseconds_eq, gen_Duration_add_eq]
  rfl

/-! ## _local_instant.py and the offset conversions -/

theorem gen_LocalInstant_ofDaysInvalid_eq (d : Int) (b : Bool) :
    Gen.C03.LocalInstant.ofDaysInvalid d b = (do let x ← Duration.ctor d 0; .ok ⟨x⟩) := by
  unfold Gen.C03.LocalInstant.ofDaysInvalid
  simp only [gen_Duration_ctor_eq]

theorem gen_LocalInstant_ofDuration_eq (d : Duration) :
    Gen.C03.LocalInstant.ofDuration d = LocalInstant.ofDuration d := rfl

theorem gen_LocalInstant_ofDays_eq (d n : Int) :
    Gen.C03.LocalInstant.ofDays d n = (do let x ← Duration.ctor d n; .ok ⟨x⟩) := by
  unfold Gen.C03.LocalInstant.ofDays
  simp only [gen_Duration_ctor_eq]

theorem gen_LocalInstant_beforeMinValue_eq : Gen.C03.LocalInstant.beforeMinValue = .ok LocalInstant.beforeMin := by
  unfold Gen.C03.LocalInstant.beforeMinValue
  rw [gen_Instant_beforeMinValue_eq]
  simp only [bind, Except.bind, gen_LocalInstant_ofDaysInvalid_eq]
  rfl

theorem gen_LocalInstant_afterMaxValue_eq : Gen.C03.LocalInstant.afterMaxValue = .ok LocalInstant.afterMax := by
  unfold Gen.C03.LocalInstant.afterMaxValue
  rw [gen_Instant_afterMaxValue_eq]
  simp only [bind, Except.bind, gen_LocalInstant_ofDaysInvalid_eq]
  rfl

theorem gen_LocalInstant_timeSinceLocalEpoch_eq (l : LocalInstant) :
    Gen.C03.LocalInstant.timeSinceLocalEpoch l = l.dur := rfl
theorem gen_LocalInstant_daysSinceEpoch_eq (l : LocalInstant) : Gen.C03.LocalInstant.daysSinceEpoch l = l.dur.days := rfl
theorem gen_LocalInstant_nanosecondOfDay_eq (l : LocalInstant) : Gen.C03.LocalInstant.nanosecondOfDay l = l.dur.nod := rfl
theorem gen_LocalInstant_isValid_eq (l : LocalInstant) :
    Gen.C03.LocalInstant.isValid l = (decide (Instant.MIN_DAYS ≤ l.dur.days) && decide (l.dur.days ≤ Instant.MAX_DAYS)) := by
  unfold Gen.C03.LocalInstant.isValid
  rw [Bool.decide_and]
  rfl
theorem gen_LocalInstant_minusZeroOffset_eq (l : LocalInstant) : Gen.C03.LocalInstant.minusZeroOffset l = ⟨l.dur⟩ := rfl

theorem gen_Instant_plusOffset_eq (i : Instant) (o : Offset) : Gen.C03.Instant.plusOffset i o = i.plusOffset o := by
  unfold Gen.C03.Instant.plusOffset Instant.plusOffset
  simp only [gen_Duration_plusSmallNanos_eq]
  rfl

theorem gen_LocalInstant_minus_eq (l : LocalInstant) (o : Offset) : Gen.C03.LocalInstant.minus l o = l.minus o := by
  unfold Gen.C03.LocalInstant.minus LocalInstant.minus
  simp only [gen_Duration_minusSmallNanos_eq]
  rfl

theorem gen_Instant_safePlus_eq (i : Instant) (o : Offset) : Gen.C03.Instant.safePlus i o = i.safePlus o := by
  unfold Gen.C03.Instant.safePlus Instant.safePlus
  simp only [gen_Instant_plusOffset_eq, gen_LocalInstant_beforeMinValue_eq, gen_LocalInstant_afterMaxValue_eq,
    gen_Duration_plusSmallNanos_eq, gen_Duration_floorDays_eq, gen_Offset_nanoseconds_eq]
  unfold_consts
  refine ite_congr rfl (fun _ => rfl) (fun h1 => ite_congr rfl (fun _ => rfl) (fun h2 => ite_congr rfl (fun _ => rfl) (fun h3 => ?_)))
  cases h : Duration.plusSmallNanos i.dur o.nanoseconds with
  | error e => rfl
  | ok d =>
    simp only [bind, Except.bind]
    refine ite_congr rfl (fun _ => rfl) (fun h4 => ite_congr rfl (fun _ => rfl) (fun h5 => ?_))
    unfold Gen.C03.LocalInstant.ofDuration
    have hc : ¬ (Gen.C03.Duration.floorDays d < -4371222 ∨ Gen.C03.Duration.floorDays d > 2932896) := by
      rw [gen_Duration_floorDays_eq]; omega
    rw [if_neg hc]

theorem gen_LocalInstant_safeMinus_eq (l : LocalInstant) (o : Offset) :
    Gen.C03.LocalInstant.safeMinus l o = l.safeMinus o := by
  unfold Gen.C03.LocalInstant.safeMinus LocalInstant.safeMinus
  simp only [gen_LocalInstant_minus_eq, gen_Instant_beforeMinValue_eq, gen_Instant_afterMaxValue_eq,
    gen_Duration_minusSmallNanos_eq, gen_Duration_floorDays_eq, gen_Offset_nanoseconds_eq]
  rfl

theorem gen_LocalInstant_beq_eq (a b : LocalInstant) : Gen.C03.LocalInstant.beq a b = Duration.beq a.dur b.dur :=
  gen_Duration_beq_eq a.dur b.dur
theorem gen_LocalInstant_lt_eq (a b : LocalInstant) : Gen.C03.LocalInstant.lt a b = Duration.lt a.dur b.dur :=
  gen_Duration_lt_eq a.dur b.dur

end Pyoda.GenAgree.C03
