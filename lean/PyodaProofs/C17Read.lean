/-
  C17 (reading direction) — the standard library's ISO readers, as transcribed from `Lib/_pydatetime.py` in
  `PyodaModel/Text/PyIsoParse.lean` (tied to `_pydatetime` and to the C implementation by the suites
  `text.pyparse.ref` / `text.pyparse.c`), read every text the modelled ISO formatters write back to the same value:
  dates for years 1…9999, times of day (the stdlib keeps microseconds: microsecond = nanosecond / 1000, truncated),
  date-times with the `T` separator, instants (`…Z` = UTC) and offsets of whole minutes within ±18 h.
  All statements are for ALL values in the stated ranges.

  The converse direction (the pyoda parsers read what the stdlib writes) is already covered: `C17.isoDate_eq_py`,
  `C17.isoTimeGeneral_eq_py`, `C17.isoTime_eq_py_of_micros`, `C17.offset_whole_minutes_eq_py` identify the stdlib's text
  (`PyIso`) with the pattern's own text, and `C07.iso_*_roundtrip` / `C08.iso_parse_*` read that text back.
-/
import PyodaProofs.C17ReadLemmas

namespace Pyoda.C17
open Pyoda Pyoda.Text

/-! ## dates -/

/-- `date.fromisoformat` reads the ISO date pattern's text back to the same year, month and day (years 1…9999) -/
theorem stdlib_reads_isoDate (y m d : Int) (hy0 : 1 ≤ y) (hy1 : y ≤ 9999) (hm0 : 1 ≤ m) (hm1 : m ≤ 12)
    (hd0 : 1 ≤ d) (hd1 : d ≤ daysInMonth y m) :
    pyParseDate (fmtIsoDate y m d) = .ok (y, m, d) := by
  have hb := (daysInMonth_bounds y m).2
  obtain ⟨y1, y2, y3, y4, m1, m2, d1, d2, e, hdm, py, pm, pd⟩ :=
    fmtIsoDate_chars y m d (by omega) hy1 (by omega) (by omega) (by omega) (by omega)
  rw [e]
  unfold pyParseDate
  rw [pyParseIsoformatDate_explicit y1 y2 y3 y4 m1 m2 d1 d2 y m d hdm py pm pd]
  simp [pyCheckDate_ok y m d hy0 hy1 hm0 hm1 hd0 hd1, allToValueError, bind, Except.bind, pure, Except.pure]

example : pyParseDate (fmtIsoDate 2024 2 29) = .ok (2024, 2, 29) :=
  stdlib_reads_isoDate 2024 2 29 (by decide) (by decide) (by decide) (by decide) (by decide) (by decide)
example : pyParseDate (fmtIsoDate 1 1 1) = .ok (1, 1, 1) :=
  stdlib_reads_isoDate 1 1 1 (by decide) (by decide) (by decide) (by decide) (by decide) (by decide)

/-! ## times -/

/-- `time.fromisoformat` reads the three ISO time patterns' texts: hour, minute, second are the value's, the
    microsecond is the nanosecond of second divided by 1000 (truncated; 0 for the general pattern, which writes no
    fraction), and there is no zone -/
theorem stdlib_reads_isoTime (nod : Int) (h0 : 0 ≤ nod) (h1 : nod < 86400000000000) :
    pyParseTime (fmtIsoTime nod) = .ok (nod / 3600000000000, nod / 60000000000 % 60, nod / 1000000000 % 60,
      nod % 1000000000 / 1000, none) ∧
    pyParseTime (fmtIsoTimeLong nod) = .ok (nod / 3600000000000, nod / 60000000000 % 60, nod / 1000000000 % 60,
      nod % 1000000000 / 1000, none) ∧
    pyParseTime (fmtIsoTimeGeneral nod) = .ok (nod / 3600000000000, nod / 60000000000 % 60, nod / 1000000000 % 60,
      0, none) := by
  have a := isTimeText_fmtIsoTime nod h0 h1
  have b := isTimeText_fmtIsoTimeLong nod h0 h1
  have c := isTimeText_fmtIsoTimeGeneral nod h0 h1
  have hu := pyInt_usec_bounds nod h0
  refine ⟨?_, ?_, ?_⟩
  · exact pyParseTime_of _ _ _ _ _ _ (removePrefixT_timeChars _ a.1)
      (pyParseIsoformatTime_plain _ _ _ _ _ a.1 a.2.1 a.2.2) (pyCheckTime_ok nod _ h0 h1 hu.1 hu.2)
  · exact pyParseTime_of _ _ _ _ _ _ (removePrefixT_timeChars _ b.1)
      (pyParseIsoformatTime_plain _ _ _ _ _ b.1 b.2.1 b.2.2) (pyCheckTime_ok nod _ h0 h1 hu.1 hu.2)
  · exact pyParseTime_of _ _ _ _ _ _ (removePrefixT_timeChars _ c.1)
      (pyParseIsoformatTime_plain _ _ _ _ _ c.1 c.2.1 c.2.2) (pyCheckTime_ok nod _ h0 h1 (by decide) (by decide))

-- 13:45:30.123456789 → microsecond 123456
example : pyParseTime (fmtIsoTime 49530123456789) = .ok (13, 45, 30, 123456, none) :=
  (stdlib_reads_isoTime 49530123456789 (by decide) (by decide)).1

/-! ## date-times -/

/-- `datetime.fromisoformat` reads the extended and the general ISO date-time patterns' texts (`T` separator) -/
theorem stdlib_reads_isoDateTime (y m d nod : Int) (hy0 : 1 ≤ y) (hy1 : y ≤ 9999) (hm0 : 1 ≤ m) (hm1 : m ≤ 12)
    (hd0 : 1 ≤ d) (hd1 : d ≤ daysInMonth y m) (h0 : 0 ≤ nod) (h1 : nod < 86400000000000) :
    pyParseDateTime (fmtIsoDateTime y m d nod) = .ok (y, m, d, nod / 3600000000000, nod / 60000000000 % 60,
      nod / 1000000000 % 60, nod % 1000000000 / 1000, none) ∧
    pyParseDateTime (fmtIsoDateTimeGeneral y m d nod) = .ok (y, m, d, nod / 3600000000000, nod / 60000000000 % 60,
      nod / 1000000000 % 60, 0, none) := by
  have a := isTimeText_fmtIsoTime nod h0 h1
  have c := isTimeText_fmtIsoTimeGeneral nod h0 h1
  have hu := pyInt_usec_bounds nod h0
  obtain ⟨s1, s2, _⟩ := isoDateTime_shape y m d nod
  constructor
  · rw [s1, List.append_assoc]
    exact pyParseDateTime_of y m d hy0 hy1 hm0 hm1 hd0 hd1 _ _ _ _ _ _ (timeText_ne_nil a)
      (pyParseIsoformatTime_plain _ _ _ _ _ a.1 a.2.1 a.2.2) (pyCheckTime_ok nod _ h0 h1 hu.1 hu.2)
  · rw [s2, List.append_assoc]
    exact pyParseDateTime_of y m d hy0 hy1 hm0 hm1 hd0 hd1 _ _ _ _ _ _ (timeText_ne_nil c)
      (pyParseIsoformatTime_plain _ _ _ _ _ c.1 c.2.1 c.2.2) (pyCheckTime_ok nod _ h0 h1 (by decide) (by decide))

example : pyParseDateTime (fmtIsoDateTime 9999 12 31 86399999999999) = .ok (9999, 12, 31, 23, 59, 59, 999999, none) :=
  (stdlib_reads_isoDateTime 9999 12 31 86399999999999 (by decide) (by decide) (by decide) (by decide) (by decide)
    (by decide) (by decide) (by decide)).1

/-! ## instants -/

/-- the instant patterns' texts end in `Z`, which the stdlib reads as UTC (offset 0) with the same date-time fields -/
theorem stdlib_reads_isoInstant (y m d nod : Int) (hy0 : 1 ≤ y) (hy1 : y ≤ 9999) (hm0 : 1 ≤ m) (hm1 : m ≤ 12)
    (hd0 : 1 ≤ d) (hd1 : d ≤ daysInMonth y m) (h0 : 0 ≤ nod) (h1 : nod < 86400000000000) :
    pyParseDateTime (fmtIsoInstant y m d nod) = .ok (y, m, d, nod / 3600000000000, nod / 60000000000 % 60,
      nod / 1000000000 % 60, nod % 1000000000 / 1000, some 0) ∧
    pyParseDateTime (fmtInstantGeneral y m d nod) = .ok (y, m, d, nod / 3600000000000, nod / 60000000000 % 60,
      nod / 1000000000 % 60, 0, some 0) := by
  have a := isTimeText_fmtIsoTime nod h0 h1
  have c := isTimeText_fmtIsoTimeGeneral nod h0 h1
  have hu := pyInt_usec_bounds nod h0
  obtain ⟨_, s2, s3⟩ := isoDateTime_shape y m d nod
  constructor
  · rw [s3, List.append_assoc, List.append_assoc]
    exact pyParseDateTime_of y m d hy0 hy1 hm0 hm1 hd0 hd1 _ _ _ _ _ _ (by simp)
      (pyParseIsoformatTime_Z _ _ _ _ _ a.1 a.2.1 a.2.2) (pyCheckTime_ok nod _ h0 h1 hu.1 hu.2)
  · unfold fmtInstantGeneral
    rw [s2, List.append_assoc, List.append_assoc]
    exact pyParseDateTime_of y m d hy0 hy1 hm0 hm1 hd0 hd1 _ _ _ _ _ _ (by simp)
      (pyParseIsoformatTime_Z _ _ _ _ _ c.1 c.2.1 c.2.2) (pyCheckTime_ok nod _ h0 h1 (by decide) (by decide))

example : pyParseDateTime (fmtIsoInstant 1970 1 1 1000) = .ok (1970, 1, 1, 0, 0, 0, 1, some 0) :=
  (stdlib_reads_isoInstant 1970 1 1 1000 (by decide) (by decide) (by decide) (by decide) (by decide)
    (by decide) (by decide) (by decide)).1

/-! ## offsets -/

/-- offsets of whole minutes within ±18 h, written by the `g` pattern (`±HH` or `±HH:mm`) or the `G` pattern (`Z` for
    zero) behind an ISO time or date-time: the stdlib reads the same offset (in microseconds: seconds × 10⁶) -/
theorem stdlib_reads_offset (y m d nod s : Int) (hy0 : 1 ≤ y) (hy1 : y ≤ 9999) (hm0 : 1 ≤ m) (hm1 : m ≤ 12)
    (hd0 : 1 ≤ d) (hd1 : d ≤ daysInMonth y m) (h0 : 0 ≤ nod) (h1 : nod < 86400000000000)
    (hs0 : -64800 ≤ s) (hs1 : s ≤ 64800) (hmin : s % 60 = 0) :
    pyParseDateTime (fmtIsoDateTime y m d nod ++ fmtOffG s) = .ok (y, m, d, nod / 3600000000000,
      nod / 60000000000 % 60, nod / 1000000000 % 60, nod % 1000000000 / 1000, some (s * 1000000)) ∧
    pyParseDateTime (fmtIsoDateTime y m d nod ++ fmtOffGZ s) = .ok (y, m, d, nod / 3600000000000,
      nod / 60000000000 % 60, nod / 1000000000 % 60, nod % 1000000000 / 1000, some (s * 1000000)) ∧
    pyParseTime (fmtIsoTime nod ++ fmtOffG s) = .ok (nod / 3600000000000,
      nod / 60000000000 % 60, nod / 1000000000 % 60, nod % 1000000000 / 1000, some (s * 1000000)) ∧
    pyParseTime (fmtIsoTime nod ++ fmtOffGZ s) = .ok (nod / 3600000000000,
      nod / 60000000000 % 60, nod / 1000000000 % 60, nod % 1000000000 / 1000, some (s * 1000000)) := by
  have a := isTimeText_fmtIsoTime nod h0 h1
  have hu := pyInt_usec_bounds nod h0
  have hct := pyCheckTime_ok nod _ h0 h1 hu.1 hu.2
  obtain ⟨s1, _, _⟩ := isoDateTime_shape y m d nod
  have ne : ∀ S : Text, fmtIsoTime nod ++ S ≠ [] := by
    intro S h; exact timeText_ne_nil a (List.append_eq_nil_iff.mp h).1
  refine ⟨?_, ?_, ?_, ?_⟩
  · rw [s1, List.append_assoc, List.append_assoc]
    exact pyParseDateTime_of y m d hy0 hy1 hm0 hm1 hd0 hd1 _ _ _ _ _ _ (ne _)
      (pyParseIsoformatTime_offG _ _ _ _ _ a s hs0 hs1 hmin) hct
  · rw [s1, List.append_assoc, List.append_assoc]
    exact pyParseDateTime_of y m d hy0 hy1 hm0 hm1 hd0 hd1 _ _ _ _ _ _ (ne _)
      (pyParseIsoformatTime_offGZ _ _ _ _ _ a s hs0 hs1 hmin) hct
  · exact pyParseTime_of _ _ _ _ _ _ (removePrefixT_append _ _ a.1 (timeText_ne_nil a))
      (pyParseIsoformatTime_offG _ _ _ _ _ a s hs0 hs1 hmin) hct
  · exact pyParseTime_of _ _ _ _ _ _ (removePrefixT_append _ _ a.1 (timeText_ne_nil a))
      (pyParseIsoformatTime_offGZ _ _ _ _ _ a s hs0 hs1 hmin) hct

-- 2024-02-29T13:45:30.5-05:30 → offset −19 800 000 000 µs
example : pyParseDateTime (fmtIsoDateTime 2024 2 29 49530500000000 ++ fmtOffG (-19800)) =
    .ok (2024, 2, 29, 13, 45, 30, 500000, some (-19800000000)) :=
  (stdlib_reads_offset 2024 2 29 49530500000000 (-19800) (by decide) (by decide) (by decide) (by decide) (by decide)
    (by decide) (by decide) (by decide) (by decide) (by decide) (by decide)).1

end Pyoda.C17
