/-
  GenAgreeC14W — agreement between the WRITER generated from pyoda_time's Python source (`PyodaGen/C14W.lean`:
  `_DateTimeZoneWriter`, method by method, as state-passing functions over the object state `Gen.Codec.WS` = bytes the
  output stream has received + the string pool list) and the pure writers of the codec model
  (`PyodaModel/Codec/Prim.lean`: `writeByte`, `writeVarint`, `writeCount`, …, which return the bytes appended).

  `emit st r`: the model result `r : R Bytes` as a result of the generated code started in state `st` — the bytes are
  appended to the output, the pool is unchanged, an exception is the same exception.  `emitP` is the same for the
  writers that may extend the pool (`write_string`, `write_dictionary`).
-/
import PyodaGen.C14W
import PyodaModel.Codec.Prim
import PyodaProofs.Basic
import PyodaProofs.GenAgreeBits
import PyodaProofs.C14Lemmas

namespace Pyoda.GenAgree.C14W
open Pyoda Pyoda.Codec Pyoda.Gen.Codec

def emit (st : WS) (r : R Bytes) : R (Unit × WS) :=
  match r with
  | .ok b => .ok ((), ⟨st.out ++ b, st.pool⟩)
  | .error e => .error e

def emitP (st : WS) (r : R (Bytes × Pool)) : R (Unit × WS) :=
  match r with
  | .ok (b, p) => .ok ((), ⟨st.out ++ b, p⟩)
  | .error e => .error e

@[simp] theorem emit_ok (st : WS) (b : Bytes) : emit st (.ok b) = .ok ((), ⟨st.out ++ b, st.pool⟩) := rfl
@[simp] theorem emit_error (st : WS) (e : PyExc) : emit st (.error e) = .error e := rfl

theorem ok_bind {α β} (a : α) (f : α → R β) : ((.ok a : R α) >>= f) = f a := rfl
theorem err_bind {α β} (e : PyExc) (f : α → R β) : ((.error e : R α) >>= f) = .error e := rfl

/-- sequencing of two emissions -/
theorem emit_bind (st : WS) (a : R Bytes) (k : WS → R (Unit × WS)) (kb : R Bytes)
    (hk : ∀ b, k ⟨st.out ++ b, st.pool⟩ = emit ⟨st.out ++ b, st.pool⟩ kb) :
    (emit st a >>= fun p => k p.2) = emit st (a >>= fun x => kb >>= fun y => .ok (x ++ y)) := by
  cases a with
  | error e => rfl
  | ok b =>
    simp only [emit_ok, ok_bind, hk]
    cases kb with
    | error e => rfl
    | ok c => simp only [emit_ok, ok_bind, List.append_assoc]

theorem gen_Writer_ctor_eq (out : Bytes) (pool : Pool) : Gen.C14W.Writer.ctor out pool = ⟨out, pool⟩ := rfl

theorem gen_Writer_writeByte_eq (st : WS) (v : Int) : Gen.C14W.Writer.writeByte st v = emit st (writeByte v) := by
  unfold Gen.C14W.Writer.writeByte Gen.pyBytes1 writeByte
  by_cases h : 0 ≤ v ∧ v ≤ 255
  · rw [if_pos h]; rfl
  · rw [if_neg h]; rfl

/-! ## varints -/

theorem or128 (r : Nat) (h : r < 128) : Gen.pyOr (r : Int) 128 = ((r + 128 : Nat) : Int) := by
  rw [Bits.pyOr_comm]
  have := GenAgree.Bits.pyOr_low7 1 (r : Int) (by omega) (by omega)
  have e : ((1 : Int) * 2 ^ 7) = 128 := by decide
  rw [e] at this
  rw [this]; omega

theorem shr7 (v : Nat) : ((v : Int) >>> 7) = ((v / 128 : Nat) : Int) := by
  rw [Int.shiftRight_eq_div_pow]; omega

/-- the loop `while value > 127: write(value & 127 | 128); value >>= 7`: the continuation bytes of the model's
    `writeVarintAux`, leaving the last group -/
theorem gen_Writer_writeVarint_loop1_eq : ∀ (f v : Nat) (st : WS), v < 128 ^ (f + 1) →
    ∃ (r : Nat) (pre : Bytes), Gen.C14W.Writer.writeVarint.loop1 (f + 1) (v : Int) st = .ok ((r : Int), ⟨st.out ++ pre, st.pool⟩) ∧
      r ≤ 127 ∧ writeVarintAux f v = pre ++ [r % 128] := by
  intro f
  induction f with
  | zero =>
    intro v st hv
    refine ⟨v, [], ?_, by omega, ?_⟩
    · unfold Gen.C14W.Writer.writeVarint.loop1
      rw [if_neg (by omega)]
      simp
    · simp [writeVarintAux]
  | succ f ih =>
    intro v st hv
    unfold Gen.C14W.Writer.writeVarint.loop1
    by_cases h : v > 127
    · have h' : (v : Int) > 127 := by omega
      rw [if_pos h']
      have hm : Int.fmod (v : Int) 128 = ((v % 128 : Nat) : Int) := by rw [fmod_pos _ _ (by decide)]; omega
      rw [hm, or128 _ (Nat.mod_lt _ (by decide))]
      have hb : Gen.pyBytes1 ((v % 128 + 128 : Nat) : Int) = .ok [v % 128 + 128] := by
        unfold Gen.pyBytes1
        rw [if_pos (by omega)]
        congr 2
      rw [hb]
      simp only [ok_bind, WS.write, shr7]
      have hv' : v / 128 < 128 ^ (f + 1) := by
        rw [Nat.pow_succ] at hv
        exact Nat.div_lt_of_lt_mul (by rw [Nat.mul_comm]; exact hv)
      obtain ⟨r, pre, h1, h2, h3⟩ := ih (v / 128) ⟨st.out ++ [v % 128 + 128], st.pool⟩ hv'
      refine ⟨r, (v % 128 + 128) :: pre, ?_, h2, ?_⟩
      · rw [h1]; simp
      · simp [writeVarintAux, h, h3]
    · have h' : ¬ (v : Int) > 127 := by omega
      rw [if_neg h']
      refine ⟨v, [], by simp, by omega, ?_⟩
      simp [writeVarintAux, h]

theorem fuel_nat (v : Nat) : varintFuel (v : Int) = v.log2 + 1 + 1 := by
  unfold varintFuel; simp

/-- `__write_varint(value)` for a non-negative value -/
theorem gen_Writer_writeVarint_eq (st : WS) (v : Nat) :
    Gen.C14W.Writer.writeVarint st (v : Int) = emit st (.ok (writeVarint v)) := by
  unfold Gen.C14W.Writer.writeVarint
  rw [fuel_nat]
  obtain ⟨r, pre, h1, h2, h3⟩ := gen_Writer_writeVarint_loop1_eq (v.log2 + 1) v st (C14.lt_pow128_log2 v)
  rw [h1]
  simp only [ok_bind]
  have hm : Int.fmod (r : Int) 128 = ((r % 128 : Nat) : Int) := by rw [fmod_pos _ _ (by decide)]; omega
  have hb : Gen.pyBytes1 ((r % 128 : Nat) : Int) = .ok [r % 128] := by
    unfold Gen.pyBytes1
    rw [if_pos (by omega)]
    congr 2
  rw [hm, hb]
  simp only [ok_bind, WS.write, emit_ok, writeVarint, h3, List.append_assoc]

/-- `__write_varint(value)` for a negative value: no round of the loop, one byte `value & 127` -/
theorem gen_Writer_writeVarint_neg (st : WS) (v : Int) (h : v < 0) :
    Gen.C14W.Writer.writeVarint st v = emit st (.ok [(v % 128).toNat]) := by
  unfold Gen.C14W.Writer.writeVarint
  have hf : varintFuel v = 2 := by
    unfold varintFuel
    have : v.toNat = 0 := by omega
    rw [this]; rfl
  rw [hf]
  unfold Gen.C14W.Writer.writeVarint.loop1
  rw [if_neg (by omega)]
  simp only [ok_bind]
  rw [fmod_pos _ _ (by decide)]
  have hb : Gen.pyBytes1 (v % 128) = .ok [(v % 128).toNat] := by
    unfold Gen.pyBytes1
    rw [if_pos (by omega)]
  rw [hb]
  rfl

theorem gen_Writer_writeCount_eq (st : WS) (n : Int) : Gen.C14W.Writer.writeCount st n = emit st (writeCount n) := by
  unfold Gen.C14W.Writer.writeCount writeCount checkRange
  by_cases h : n < 0 ∨ n > 2147483647
  · have h' : n < 0 ∨ n > INT_MAX := h
    rw [if_pos h, if_pos h']; rfl
  · have h' : ¬ (n < 0 ∨ n > INT_MAX) := h
    rw [if_neg h, if_neg h']
    simp only [ok_bind]
    obtain ⟨k, rfl⟩ := Int.eq_ofNat_of_zero_le (by omega : 0 ≤ n)
    rw [gen_Writer_writeVarint_eq]
    simp
    rfl

/-- the model's `^` on unbounded ints is the generated code's -/
theorem pyXor_eq (a b : Int) : Gen.pyXor a b = Codec.pyXor a b := by
  unfold Codec.pyXor
  cases a with
  | ofNat m =>
    cases b with
    | ofNat n => simp [Gen.pyXor]
    | negSucc n =>
      have h1 : decide (0 ≤ Int.negSucc n) = false := by simp
      have e : (-Int.negSucc n - 1).toNat = n := by omega
      simp only [Int.ofNat_eq_natCast, Int.natCast_nonneg, decide_true, h1, Int.toNat_natCast, e]
      show Int.negSucc (m ^^^ n) = _
      rw [Int.negSucc_eq]; omega
  | negSucc m =>
    cases b with
    | ofNat n =>
      have h1 : decide (0 ≤ Int.negSucc m) = false := by simp
      have e : (-Int.negSucc m - 1).toNat = m := by omega
      simp only [Int.ofNat_eq_natCast, Int.natCast_nonneg, decide_true, h1, Int.toNat_natCast, e]
      show Int.negSucc (m ^^^ n) = _
      rw [Int.negSucc_eq]; omega
    | negSucc n =>
      have h1 : decide (0 ≤ Int.negSucc m) = false := by simp
      have h2 : decide (0 ≤ Int.negSucc n) = false := by simp
      have e1 : (-Int.negSucc m - 1).toNat = m := by omega
      have e2 : (-Int.negSucc n - 1).toNat = n := by omega
      simp only [h1, h2, e1, e2]
      rfl

theorem gen_Writer_writeSignedCount_eq (st : WS) (c : Int) :
    Gen.C14W.Writer.writeSignedCount st c = emit st (writeSignedCount c) := by
  unfold Gen.C14W.Writer.writeSignedCount writeSignedCount zigzag
  have e : c * 2 ^ 1 = c * 2 := by omega
  rw [pyXor_eq, e]
  by_cases h : Codec.pyXor (c >>> 31) (c * 2) < 0
  · simp only [h, if_true]
    rw [gen_Writer_writeVarint_neg _ _ h]
    rfl
  · simp only [h, if_false]
    generalize Codec.pyXor (c >>> 31) (c * 2) = z at h
    obtain ⟨k, rfl⟩ := Int.eq_ofNat_of_zero_le (by omega : 0 ≤ z)
    rw [gen_Writer_writeVarint_eq]
    simp
    rfl

/-! ## fixed-width integers -/

theorem writeByte_ok (x : Int) (h : 0 ≤ x ∧ x ≤ 255) : writeByte x = .ok [x.toNat] := by
  unfold writeByte; rw [if_pos h]

theorem gen_Writer_writeInt16_eq (st : WS) (v : Int) : Gen.C14W.Writer.writeInt16 st v = emit st (.ok (writeInt16 v)) := by
  unfold Gen.C14W.Writer.writeInt16 writeInt16
  rw [gen_Writer_writeByte_eq, fmod_pos _ _ (by decide), fmod_pos _ _ (by decide), Int.shiftRight_eq_div_pow]
  have e : (v / ((2 ^ 8 : Nat) : Int)) = v / 256 := by norm_num
  rw [e, writeByte_ok _ (by omega)]
  simp only [emit_ok, ok_bind]
  rw [gen_Writer_writeByte_eq, writeByte_ok _ (by omega)]
  simp
  rfl

theorem gen_Writer_writeInt32_eq (st : WS) (v : Int) : Gen.C14W.Writer.writeInt32 st v = emit st (.ok (writeInt32 v)) := by
  unfold Gen.C14W.Writer.writeInt32 writeInt32
  rw [gen_Writer_writeInt16_eq, Int.shiftRight_eq_div_pow]
  have e : (v / ((2 ^ 16 : Nat) : Int)) = v / 65536 := by norm_num
  rw [e]
  simp only [emit_ok, ok_bind]
  rw [gen_Writer_writeInt16_eq]
  simp
  rfl

theorem gen_Writer_writeInt64_eq (st : WS) (v : Int) : Gen.C14W.Writer.writeInt64 st v = emit st (.ok (writeInt64 v)) := by
  unfold Gen.C14W.Writer.writeInt64 writeInt64
  rw [gen_Writer_writeInt32_eq, Int.shiftRight_eq_div_pow]
  have e : (v / ((2 ^ 32 : Nat) : Int)) = v / 4294967296 := by norm_num
  rw [e]
  simp only [emit_ok, ok_bind]
  rw [gen_Writer_writeInt32_eq]
  simp
  rfl

/-! ## milliseconds, offsets -/

theorem pyTdiv_inv (x y q : Int) (h : pyTdiv x y = .ok q) : y ≠ 0 ∧ q = Int.tdiv x y := by
  unfold pyTdiv at h
  by_cases hy : y = 0
  · rw [if_pos hy] at h
    by_cases hx : x = 0
    · rw [if_pos hx] at h; cases h
    · rw [if_neg hx] at h; cases h
  · rw [if_neg hy] at h
    by_cases hd : inDecDomain x y = true
    · rw [if_pos hd] at h; injection h with h; exact ⟨hy, h.symm⟩
    · rw [if_neg hd] at h; cases h

theorem or_hi (k : Nat) (a : Nat) (x : Int) (h0 : 0 ≤ x) (h1 : x < 2 ^ k) : Gen.pyOr ((a : Int) * 2 ^ k) x = (a : Int) * 2 ^ k + x := by
  obtain ⟨j, rfl⟩ := Int.eq_ofNat_of_zero_le h0
  have hj : j < 2 ^ k := by exact_mod_cast h1
  have e : ((a : Int) * 2 ^ k) = ((2 ^ k * a : Nat) : Int) := by push_cast; ring
  rw [e]
  show ((2 ^ k * a ||| j : Nat) : Int) = _
  rw [← Nat.two_pow_add_eq_or_of_lt hj a]
  push_cast; ring

theorem gen_Writer_writeMilliseconds_eq (st : WS) (millis : Int) :
    Gen.C14W.Writer.writeMilliseconds st millis = emit st (writeMilliseconds millis) := by
  unfold Gen.C14W.Writer.writeMilliseconds writeMilliseconds checkRange
  have c1 : ((-86400000 : Int) + 1) = -MsPD + 1 := by decide
  have c2 : ((86400000 : Int) - 1) = MsPD - 1 := by decide
  have c3 : ((30 : Int) * 60000) = MS30MIN := by decide
  have c4 : (60000 : Int) = MSMIN := rfl
  have c5 : (1000 : Int) = MSSEC := rfl
  have c6 : (86400000 : Int) = MsPD := rfl
  rw [c1, c2, c3]
  by_cases hr : millis < -MsPD + 1 ∨ millis > MsPD - 1
  · rw [if_pos hr]; rfl
  · rw [if_neg hr]
    simp only [ok_bind]
    have hm0 : 0 < millis + 86400000 ∧ millis + 86400000 < 172800000 := by
      have : MsPD = 86400000 := rfl
      omega
    generalize hmm : millis + 86400000 = m at hm0
    have hmm' : millis + MsPD = m := hmm
    rw [hmm']
    by_cases h30 : csharpMod m MS30MIN = 0
    · simp only [if_pos h30]
      rcases hq : pyTdiv m MS30MIN with e | units
      · rfl
      · simp only [ok_bind]
        rw [gen_Writer_writeByte_eq]
        cases writeByte units <;> rfl
    · simp only [if_neg h30]
      by_cases hmin : csharpMod m 60000 = 0
      · have hmin' : csharpMod m MSMIN = 0 := hmin
        simp only [if_pos hmin, if_pos hmin']
        rcases hq : pyTdiv m 60000 with e | minutes
        · have hq' : pyTdiv m MSMIN = .error e := hq
          rw [hq']; rfl
        · have hq' : pyTdiv m MSMIN = .ok minutes := hq
          rw [hq']
          simp only [ok_bind]
          obtain ⟨_, hqv⟩ := pyTdiv_inv _ _ _ hq
          have hqv' : minutes = m / 60000 := by rw [hqv, Int.tdiv_eq_ediv_of_nonneg (by omega)]
          have hb : 0 ≤ minutes ∧ minutes < 2880 := by omega
          have hs : (minutes >>> 8) = minutes / 256 := by rw [Int.shiftRight_eq_div_pow]; norm_num
          have ho : Gen.pyOr 128 (minutes >>> 8) = 128 + minutes / 256 := by
            rw [hs]
            have := or_hi 7 1 (minutes / 256) (by omega) (by omega)
            simpa using this
          rw [gen_Writer_writeByte_eq, ho, writeByte_ok _ (by omega)]
          simp only [emit_ok, ok_bind]
          rw [gen_Writer_writeByte_eq, fmod_pos _ _ (by decide), writeByte_ok _ (by omega)]
          simp
          rfl
      · have hmin' : ¬ csharpMod m MSMIN = 0 := hmin
        simp only [if_neg hmin, if_neg hmin']
        by_cases hsec : csharpMod m 1000 = 0
        · have hsec' : csharpMod m MSSEC = 0 := hsec
          simp only [if_pos hsec, if_pos hsec']
          rcases hq : pyTdiv m 1000 with e | seconds
          · have hq' : pyTdiv m MSSEC = .error e := hq
            rw [hq']; rfl
          · have hq' : pyTdiv m MSSEC = .ok seconds := hq
            rw [hq']
            simp only [ok_bind]
            obtain ⟨_, hqv⟩ := pyTdiv_inv _ _ _ hq
            have hqv' : seconds = m / 1000 := by rw [hqv, Int.tdiv_eq_ediv_of_nonneg (by omega)]
            have hb : 0 ≤ seconds ∧ seconds < 172800 := by omega
            have hs : (seconds >>> 16) = seconds / 65536 := by rw [Int.shiftRight_eq_div_pow]; norm_num
            have ho : Gen.pyOr 160 (seconds >>> 16) = 160 + seconds / 65536 := by
              rw [hs]
              have := or_hi 5 5 (seconds / 65536) (by omega) (by omega)
              simpa using this
            rw [gen_Writer_writeByte_eq, ho, writeByte_ok _ (by omega)]
            simp only [emit_ok, ok_bind]
            rw [gen_Writer_writeInt16_eq, fmod_pos _ _ (by decide)]
            simp
            rfl
        · have hsec' : ¬ csharpMod m MSSEC = 0 := hsec
          simp only [if_neg hsec, if_neg hsec']
          have ho : Gen.pyOr 3221225472 m = 3221225472 + m := by
            have := or_hi 30 3 m (by omega) (by omega)
            simpa using this
          rw [gen_Writer_writeInt32_eq, ho]
          simp
          rfl

theorem gen_Writer_writeOffset_eq (st : WS) (o : Offset) : Gen.C14W.Writer.writeOffset st o = emit st (writeOffset o) := by
  unfold Gen.C14W.Writer.writeOffset writeOffset
  rw [gen_Writer_writeMilliseconds_eq]
  cases writeMilliseconds o.milliseconds <;> rfl

/-! ## strings and dictionaries -/

@[simp] theorem emitP_ok (st : WS) (b : Bytes) (p : Pool) : emitP st (.ok (b, p)) = .ok ((), ⟨st.out ++ b, p⟩) := rfl
@[simp] theorem emitP_error (st : WS) (e : PyExc) : emitP st (.error e) = .error e := rfl

theorem gen_Writer_writeString_eq (st : WS) (s : Str) :
    Gen.C14W.Writer.writeString st s = emitP st (writeString st.pool s) := by
  unfold Gen.C14W.Writer.writeString writeString
  obtain ⟨out, pool⟩ := st
  cases pool with
  | none =>
    simp only [Gen.Codec.encodeUtf8, Gen.pyLenList, writeStringInline]
    rw [gen_Writer_writeCount_eq]
    cases writeCount (s.length : Int) with
    | error e => rfl
    | ok c => simp [WS.write, bind, Except.bind]
  | some p =>
    simp only [Gen.pyStrListContains, Gen.pyListAppend, Gen.pyStrListIndexOf, writeStringPooled, indexOf?]
    by_cases hc : s ∈ p
    · have h1 : p.contains s = true := by simpa using hc
      have h2 : List.findIdx (fun x => decide (x = s)) p < p.length := by
        apply List.findIdx_lt_length_of_exists
        exact ⟨s, hc, by simp⟩
      simp only [h1, Bool.not_true, Bool.false_eq_true, if_false, h2, if_true, ok_bind]
      rw [gen_Writer_writeCount_eq]
      cases writeCount ((List.findIdx (fun x => decide (x = s)) p : Nat) : Int) with
      | error e => rfl
      | ok c => rfl
    · have h1 : p.contains s = false := by simpa using hc
      have h2 : List.findIdx (fun x => decide (x = s)) p = p.length := by
        rw [List.findIdx_eq_length]
        intro x hx
        simp
        intro h; exact hc (h ▸ hx)
      have h3 : List.findIdx (fun x => decide (x = s)) (p ++ [s]) = p.length := by
        rw [List.findIdx_append, h2]
        simp
      simp only [h1, Bool.not_false, if_true, h2, h3, Nat.lt_irrefl, if_false, List.length_append, List.length_singleton,
        Nat.lt_succ_self, ok_bind]
      rw [gen_Writer_writeCount_eq]
      cases writeCount ((p.length : Nat) : Int) with
      | error e => rfl
      | ok c => rfl

theorem gen_checkNotNullDict_eq (d : List (Str × Str)) : Gen.C14W.checkNotNullDict d = d := rfl

theorem gen_Writer_writeDictionary_loop1_eq : ∀ (d : List (Str × Str)) (st : WS),
    Gen.C14W.Writer.writeDictionary.loop1 d st =
      (match writeDictionary.go st.pool d with
       | .ok (b, p) => .ok ⟨st.out ++ b, p⟩
       | .error e => .error e) := by
  intro d
  induction d with
  | nil => intro st; simp [Gen.C14W.Writer.writeDictionary.loop1, writeDictionary.go]
  | cons kv rest ih =>
    intro st
    obtain ⟨k, v⟩ := kv
    unfold Gen.C14W.Writer.writeDictionary.loop1 writeDictionary.go
    rw [gen_Writer_writeString_eq]
    rcases h1 : writeString st.pool k with e | ⟨bk, p1⟩
    · rfl
    · simp only [emitP_ok, ok_bind]
      rw [gen_Writer_writeString_eq]
      rcases h2 : writeString p1 v with e | ⟨bv, p2⟩
      · rfl
      · simp only [emitP_ok, ok_bind]
        rw [ih]
        rcases h3 : writeDictionary.go p2 rest with e | ⟨br, p3⟩
        · rfl
        · simp only [ok_bind, List.append_assoc]

theorem gen_Writer_writeDictionary_eq (st : WS) (d : List (Str × Str)) :
    Gen.C14W.Writer.writeDictionary st d = emitP st (writeDictionary st.pool d) := by
  unfold Gen.C14W.Writer.writeDictionary writeDictionary
  simp only [Gen.pyLenList, Gen.pyItems]
  rw [gen_Writer_writeCount_eq]
  rcases h1 : writeCount (d.length : Int) with e | c
  · rfl
  · simp only [emit_ok, ok_bind]
    rw [gen_Writer_writeDictionary_loop1_eq]
    rcases h2 : writeDictionary.go st.pool d with e | ⟨b, p⟩
    · rfl
    · simp only [ok_bind, emitP_ok, List.append_assoc]

/-! ## zone interval transitions -/

theorem het : EPOCH1800.toUnixTicks = .ok (-53646624000000000) := by decide

theorem tail_unit (st : WS) (r : R Bytes) : (emit st r >>= fun p => (.ok ((), p.2) : R (Unit × WS))) = emit st r := by
  cases r <;> rfl

/-- the raw-ticks form: marker 2, then the 64-bit tick count -/
theorem raw_eq (st : WS) (value : Instant) :
    (do let p ← Gen.C14W.Writer.writeCount st 2
        let t ← Instant.toUnixTicks value
        let q ← Gen.C14W.Writer.writeInt64 p.2 t
        (.ok ((), q.2) : R (Unit × WS))) =
    emit st (do let vt ← value.toUnixTicks; let m ← writeCount MARKER_RAW; .ok (m ++ writeInt64 vt)) := by
  rw [gen_Writer_writeCount_eq]
  have : writeCount 2 = .ok (writeVarint 2) := C14.writeCount_ok 2 (by decide)
  have e : MARKER_RAW = 2 := rfl
  rw [e, this]
  simp only [emit_ok, ok_bind]
  rcases h : value.toUnixTicks with er | vt
  · rfl
  · simp only [ok_bind]
    rw [gen_Writer_writeInt64_eq]
    simp
    rfl

/-- the minutes-since-1800 alternative and what follows it when it does not apply (the raw form) -/
theorem minutes_eq (st : WS) (value : Instant) :
    (if value.dur.ge EPOCH1800.dur = true then do
      let t'3 ← value.toUnixTicks
      let t'4 ← EPOCH1800.toUnixTicks
      if csharpMod (t'3 - t'4) 600000000 = 0 then do
          let minutes ← pyTdiv (t'3 - t'4) 600000000
          if 2097152 < minutes ∧ minutes ≤ 2147483647 then do
              let __x ← Gen.C14W.Writer.writeCount st minutes
              Except.ok ((), __x.2)
            else do
              let __x ← Gen.C14W.Writer.writeCount st 2
              let t'7 ← value.toUnixTicks
              let __x ← Gen.C14W.Writer.writeInt64 __x.2 t'7
              Except.ok ((), __x.2)
        else do
          let __x ← Gen.C14W.Writer.writeCount st 2
          let t'7 ← value.toUnixTicks
          let __x ← Gen.C14W.Writer.writeInt64 __x.2 t'7
          Except.ok ((), __x.2)
    else do
      let __x ← Gen.C14W.Writer.writeCount st 2
      let t'7 ← value.toUnixTicks
      let __x ← Gen.C14W.Writer.writeInt64 __x.2 t'7
      Except.ok ((), __x.2)) =
    emit st (do
      let vt ← value.toUnixTicks
      match ← minutesSinceEpoch value vt with
      | some m => writeCount m
      | none => do let m ← writeCount MARKER_RAW; .ok (m ++ writeInt64 vt)) := by
  have hraw := raw_eq st value
  unfold minutesSinceEpoch
  by_cases hge : value.dur.ge EPOCH1800.dur = true
  · simp only [if_pos hge]
    rcases hvt : value.toUnixTicks with er | vt
    · rfl
    · rw [hvt] at hraw
      simp only [ok_bind, het] at hraw ⊢
      by_cases hc : csharpMod (vt - -53646624000000000) 600000000 = 0
      · have hc' : csharpMod (vt - -53646624000000000) TPMin = 0 := hc
        simp only [if_pos hc, if_pos hc']
        rcases hq : pyTdiv (vt - -53646624000000000) 600000000 with er | minutes
        · have hq' : pyTdiv (vt - -53646624000000000) TPMin = .error er := hq
          rw [hq']; rfl
        · have hq' : pyTdiv (vt - -53646624000000000) TPMin = .ok minutes := hq
          rw [hq']
          simp only [ok_bind]
          by_cases hr : 2097152 < minutes ∧ minutes ≤ 2147483647
          · have hr' : MIN_MINUTES < minutes ∧ minutes ≤ INT_MAX := hr
            simp only [if_pos hr, if_pos hr', ok_bind]
            rw [gen_Writer_writeCount_eq]
            exact tail_unit st _
          · have hr' : ¬ (MIN_MINUTES < minutes ∧ minutes ≤ INT_MAX) := hr
            simp only [if_neg hr, if_neg hr', ok_bind]
            exact hraw
      · have hc' : ¬ csharpMod (vt - -53646624000000000) TPMin = 0 := hc
        simp only [if_neg hc, if_neg hc', ok_bind]
        exact hraw
  · simp only [if_neg hge]
    rw [hraw]
    rcases hvt : value.toUnixTicks with er | vt
    · rfl
    · rfl

theorem gen_Writer_writeTransitionNone_eq (st : WS) (value : Instant) :
    Gen.C14W.Writer.writeTransitionNone st value = emit st (writeTransition none value) := by
  unfold Gen.C14W.Writer.writeTransitionNone writeTransition checkForward transitionForm hoursSincePrevious
  simp only [instEq, instGe, decide_eq_true_eq, ok_bind]
  by_cases h1 : value = Instant.beforeMin
  · simp only [if_pos h1, ok_bind]
    rw [gen_Writer_writeCount_eq]
    exact tail_unit st _
  · simp only [if_neg h1]
    by_cases h2 : value = Instant.afterMax
    · simp only [if_pos h2, ok_bind]
      rw [gen_Writer_writeCount_eq]
      exact tail_unit st _
    · simp only [if_neg h2]
      rw [minutes_eq]
      congr 1
      rcases hvt : value.toUnixTicks with er | vt
      · rfl
      · simp only [ok_bind]
        rcases hm : minutesSinceEpoch value vt with er | o
        · rfl
        · cases o <;> rfl

theorem gen_Writer_writeTransitionSome_eq (st : WS) (previous value : Instant) :
    Gen.C14W.Writer.writeTransitionSome st previous value = emit st (writeTransition (some previous) value) := by
  unfold Gen.C14W.Writer.writeTransitionSome writeTransition checkForward transitionForm hoursSincePrevious
  simp only [instEq, instGe, instNe, decide_eq_true_eq]
  by_cases hf : value.dur.ge previous.dur = true
  · have hca : Gen.checkArgument (value.dur.ge previous.dur) = .ok () := by
      unfold Gen.checkArgument; rw [hf]; rfl
    simp only [hca, if_pos hf, ok_bind]
    by_cases h1 : value = Instant.beforeMin
    · simp only [if_pos h1, ok_bind]
      rw [gen_Writer_writeCount_eq]
      exact tail_unit st _
    · simp only [if_neg h1]
      by_cases h2 : value = Instant.afterMax
      · simp only [if_pos h2, ok_bind]
        rw [gen_Writer_writeCount_eq]
        exact tail_unit st _
      · simp only [if_neg h2]
        have hmin := minutes_eq st value
        by_cases hp : previous = Instant.beforeMin
        · have hp' : ¬ ((!decide (previous = Instant.beforeMin)) = true) := by simp [hp]
          simp only [if_neg hp', if_pos hp]
          rw [hmin]
          congr 1
          rcases hvt : value.toUnixTicks with er | vt
          · rfl
          · simp only [ok_bind]
            rcases hm : minutesSinceEpoch value vt with er | o
            · rfl
            · cases o <;> rfl
        · have hp' : (!decide (previous = Instant.beforeMin)) = true := by simp [hp]
          simp only [if_pos hp', if_neg hp]
          rcases hvt : value.toUnixTicks with er | vt
          · rfl
          · rw [hvt] at hmin
            simp only [ok_bind] at hmin ⊢
            rcases hpt : previous.toUnixTicks with er | pt
            · rfl
            · simp only [ok_bind]
              by_cases hc : csharpMod (vt - pt) 36000000000 = 0
              · have hc' : csharpMod (vt - pt) TPH = 0 := hc
                simp only [if_pos hc, if_pos hc']
                rcases hq : pyTdiv (vt - pt) 36000000000 with er | hours
                · have hq' : pyTdiv (vt - pt) TPH = .error er := hq
                  rw [hq']; rfl
                · have hq' : pyTdiv (vt - pt) TPH = .ok hours := hq
                  rw [hq']
                  simp only [ok_bind]
                  by_cases hr : 128 ≤ hours ∧ hours < 2097152
                  · have hr' : MIN_HOURS ≤ hours ∧ hours < MIN_MINUTES := hr
                    simp only [if_pos hr, if_pos hr', ok_bind]
                    rw [gen_Writer_writeCount_eq]
                    exact tail_unit st _
                  · have hr' : ¬ (MIN_HOURS ≤ hours ∧ hours < MIN_MINUTES) := hr
                    simp only [if_neg hr, if_neg hr', ok_bind]
                    rw [hmin]
                    congr 1
                    rcases hm : minutesSinceEpoch value vt with er | o
                    · rfl
                    · cases o <;> rfl
              · have hc' : ¬ csharpMod (vt - pt) TPH = 0 := hc
                simp only [if_neg hc, if_neg hc', ok_bind]
                rw [hmin]
                congr 1
                rcases hm : minutesSinceEpoch value vt with er | o
                · rfl
                · cases o <;> rfl
  · have hca : Gen.checkArgument (value.dur.ge previous.dur) = .error .valueError := by
      unfold Gen.checkArgument
      have : value.dur.ge previous.dur = false := by simpa using hf
      rw [this]; rfl
    simp only [hca, if_neg hf]
    rfl

/-! ## the zone pieces writing themselves: `_ZoneYearOffset._write`, `_ZoneRecurrence._write`, `_StandardDaylightAlternatingMap._write` -/

theorem gen_YearOffset_mode_eq (y : ZoneYearOffset) : Gen.C14W.YearOffset.mode y = (y.mode.toNat : Int) := rfl
theorem gen_YearOffset_advanceDayOfWeek_eq (y : ZoneYearOffset) : Gen.C14W.YearOffset.advanceDayOfWeek y = y.advance := rfl
theorem gen_YearOffset_timeOfDay_eq (y : ZoneYearOffset) : Gen.C14W.YearOffset.timeOfDay y = y.timeOfDay := rfl
theorem gen_Recurrence_name_eq (z : ZoneRecurrence) : Gen.C14W.Recurrence.name z = z.name := rfl
theorem gen_Recurrence_savings_eq (z : ZoneRecurrence) : Gen.C14W.Recurrence.savings z = z.savings := rfl
theorem gen_Recurrence_yearOffset_eq (z : ZoneRecurrence) : Gen.C14W.Recurrence.yearOffset z = z.yearOffset := rfl
theorem gen_Recurrence_fromYear_eq (z : ZoneRecurrence) : Gen.C14W.Recurrence.fromYear z = z.fromYear := rfl
theorem gen_Recurrence_toYear_eq (z : ZoneRecurrence) : Gen.C14W.Recurrence.toYear z = z.toYear := rfl

/-- the flag byte: the fields do not overlap for a day of week in 0..7 (what the constructor admits) -/
theorem flags_eq (m : TransitionMode) (d : Int) (a b : Bool) (h0 : 0 ≤ d) (h7 : d ≤ 7) :
    Gen.pyOr (Gen.pyOr (Gen.pyOr (m.toInt * 2 ^ 5) (d * 2 ^ 2)) (if a = true then 2 else 0)) (if b = true then 1 else 0) =
      (m.toNat : Int) * 32 + d * 4 + (if a then 2 else 0) + (if b then 1 else 0) := by
  have hd : d = 0 ∨ d = 1 ∨ d = 2 ∨ d = 3 ∨ d = 4 ∨ d = 5 ∨ d = 6 ∨ d = 7 := by omega
  rcases hd with rfl | rfl | rfl | rfl | rfl | rfl | rfl | rfl <;> cases m <;> cases a <;> cases b <;> decide

/-- the same, in the form the generated `_write` has it (through the translated property getters) -/
theorem flags_gen (y : ZoneYearOffset) (h0 : 0 ≤ y.dayOfWeek) (h7 : y.dayOfWeek ≤ 7) :
    Gen.pyOr (Gen.pyOr (Gen.pyOr ((Gen.C14W.YearOffset.mode y) * 2 ^ 5) (y.dayOfWeek * 2 ^ 2)) (if (Gen.C14W.YearOffset.advanceDayOfWeek y) = true then 2 else 0))
        (if y.addDay = true then 1 else 0) =
      (y.mode.toNat : Int) * 32 + y.dayOfWeek * 4 + (if y.advance then 2 else 0) + (if y.addDay then 1 else 0) :=
  flags_eq y.mode y.dayOfWeek y.advance y.addDay h0 h7

/-- sequencing of an emission and a continuation that is itself an emission from the state reached -/
theorem emit_then (st : WS) (a : R Bytes) (k : WS → R (Unit × WS)) (kb : R Bytes)
    (hk : ∀ s : WS, s.pool = st.pool → k s = emit s kb) :
    (emit st a >>= fun p => k p.2) = emit st (a >>= fun x => kb >>= fun y => .ok (x ++ y)) :=
  emit_bind st a k kb (fun _ => hk _ rfl)

/-- `_ZoneYearOffset._write(writer)` appends the model's `writeYearOffset` -/
theorem gen_YearOffset_write_eq (st : WS) (y : ZoneYearOffset) (h0 : 0 ≤ y.dayOfWeek) (h7 : y.dayOfWeek ≤ 7) :
    Gen.C14W.YearOffset.write st y = emit st (writeYearOffset y) := by
  unfold Gen.C14W.YearOffset.write writeYearOffset
  rw [flags_gen y h0 h7]
  dsimp only [Gen.C14W.YearOffset.timeOfDay, ltTickOfDay]
  rw [gen_Writer_writeByte_eq]
  obtain ⟨out, pool⟩ := st
  rcases h1 : writeByte ((y.mode.toNat : Int) * 32 + y.dayOfWeek * 4 + (if y.advance = true then 2 else 0) + (if y.addDay = true then 1 else 0)) with e1 | f
  · rfl
  · simp only [emit_ok, ok_bind]
    rw [gen_Writer_writeCount_eq]
    rcases h2 : writeCount y.monthOfYear with e2 | mm
    · rfl
    · simp only [emit_ok, ok_bind]
      rw [gen_Writer_writeSignedCount_eq]
      rcases h3 : writeSignedCount y.dayOfMonth with e3 | dd
      · rfl
      · simp only [emit_ok, ok_bind]
        rcases h4 : pyTdiv y.timeOfDay NPT with e4 | ticks
        · rfl
        · simp only [ok_bind]
          rcases h5 : pyTdiv ticks 10000 with e5 | ms
          · rfl
          · simp only [ok_bind]
            rw [gen_Writer_writeMilliseconds_eq]
            rcases h6 : writeMilliseconds ms with e6 | tt
            · rfl
            · simp only [emit_ok, ok_bind, List.append_assoc]

/-- the pool is untouched by `_ZoneYearOffset._write` -/
theorem emit_pool (st : WS) (r : R Bytes) (u : Unit) (s : WS) (h : emit st r = .ok (u, s)) : s.pool = st.pool := by
  cases r with
  | error e => cases h
  | ok b => simp only [emit_ok] at h; cases h; rfl

def YoOK (y : ZoneYearOffset) : Prop := 0 ≤ y.dayOfWeek ∧ y.dayOfWeek ≤ 7

/-- `_ZoneRecurrence._write(writer)` appends the model's `writeRecurrence` (and leaves the pool it leaves) -/
theorem gen_Recurrence_write_eq (st : WS) (z : ZoneRecurrence) (hy : YoOK z.yearOffset) :
    Gen.C14W.Recurrence.write st z = emitP st (writeRecurrence st.pool z) := by
  unfold Gen.C14W.Recurrence.write writeRecurrence
  dsimp only [Gen.C14W.Recurrence.name, Gen.C14W.Recurrence.savings, Gen.C14W.Recurrence.yearOffset, Gen.C14W.Recurrence.fromYear, Gen.C14W.Recurrence.toYear]
  rw [gen_Writer_writeString_eq]
  obtain ⟨out, pool⟩ := st
  rcases h1 : writeString pool z.name with e1 | ⟨n, p1⟩
  · rfl
  · simp only [emitP_ok, ok_bind]
    rw [gen_Writer_writeOffset_eq]
    rcases h2 : writeOffset z.savings with e2 | sv
    · rfl
    · simp only [emit_ok, ok_bind]
      rw [gen_YearOffset_write_eq _ z.yearOffset hy.1 hy.2]
      rcases h3 : writeYearOffset z.yearOffset with e3 | yo
      · rfl
      · simp only [emit_ok, ok_bind]
        rw [gen_Writer_writeCount_eq]
        have hmax : max z.fromYear 0 = (if z.fromYear < 0 then 0 else z.fromYear) := by
          by_cases h : z.fromYear < 0
          · rw [if_pos h]; omega
          · rw [if_neg h]; omega
        rw [hmax]
        rcases h4 : writeCount (if z.fromYear < 0 then 0 else z.fromYear) with e4 | fy
        · rfl
        · simp only [emit_ok, ok_bind]
          rw [gen_Writer_writeCount_eq]
          rcases h5 : writeCount z.toYear with e5 | ty
          · rfl
          · simp only [emit_ok, ok_bind, emitP_ok, List.append_assoc]

/-- `_StandardDaylightAlternatingMap._write(writer)` appends the model's `writeAlternatingMap` -/
theorem gen_AltMap_write_eq (st : WS) (m : AlternatingMap) (hs : YoOK m.standardRecurrence.yearOffset) (hd : YoOK m.dstRecurrence.yearOffset) :
    Gen.C14W.AltMap.write st m = emitP st (writeAlternatingMap st.pool m) := by
  unfold Gen.C14W.AltMap.write writeAlternatingMap
  dsimp only [Gen.C14W.Recurrence.name, Gen.C14W.Recurrence.savings, Gen.C14W.Recurrence.yearOffset]
  rw [gen_Writer_writeOffset_eq]
  obtain ⟨out, pool⟩ := st
  rcases h1 : writeOffset m.standardOffset with e1 | so
  · rfl
  · simp only [emit_ok, ok_bind]
    rw [gen_Writer_writeString_eq]
    rcases h2 : writeString pool m.standardRecurrence.name with e2 | ⟨sn, p1⟩
    · rfl
    · simp only [emitP_ok, ok_bind]
      rw [gen_YearOffset_write_eq _ _ hs.1 hs.2]
      rcases h3 : writeYearOffset m.standardRecurrence.yearOffset with e3 | sy
      · rfl
      · simp only [emit_ok, ok_bind]
        rw [gen_Writer_writeString_eq]
        rcases h4 : writeString p1 m.dstRecurrence.name with e4 | ⟨dn, p2⟩
        · rfl
        · simp only [emitP_ok, ok_bind]
          rw [gen_YearOffset_write_eq _ _ hd.1 hd.2]
          rcases h5 : writeYearOffset m.dstRecurrence.yearOffset with e5 | dy
          · rfl
          · simp only [emit_ok, ok_bind]
            rw [gen_Writer_writeOffset_eq]
            rcases h6 : writeOffset m.dstRecurrence.savings with e6 | sv
            · rfl
            · simp only [emit_ok, ok_bind, emitP_ok, List.append_assoc]

example : YoOK ⟨.wall, 3, -1, 7, false, 3600000000000, false⟩ := by unfold YoOK; decide

end Pyoda.GenAgree.C14W
