/-
  Helper lemmas for C19: how the Duration/Instant operations the FakeClock uses look in nanoseconds
  (a repackaging of the C03 theorems with the kind of error made explicit).
-/
import PyodaModel.Clock
import PyodaProofs.Basic
import PyodaProofs.C03

namespace Pyoda.C19
open Pyoda Pyoda.Clock

/-- a Duration the public API can produce -/
def DOk (d : Duration) : Prop := C03.Norm d ∧ C03.InRange d
/-- an Instant the public API can produce -/
def IOk (i : Instant) : Prop := C03.Norm i.dur ∧ C03.IValid i
def CWF (c : FakeClock) : Prop := IOk c.now ∧ DOk c.auto
def OpOk : Op → Prop
  | .advance d => DOk d
  | .reset i => IOk i
  | .setAuto d => DOk d
  | _ => True

def ival (i : Instant) : Int := C03.val i.dur

local macro "unfold_consts" : tactic =>
  `(tactic| simp only [NPD, NPH, NPMin, NPS, NPMs, NPUs, NPT, TPD, TPS, TPH, SPD, MsPD, UsPD, MinPD, HPD,
      Duration.MIN_DAYS, Duration.MAX_DAYS, Duration.MIN_NANOS, Duration.MAX_NANOS, decBound,
      Instant.MIN_DAYS, Instant.MAX_DAYS] at *)

theorem add_error_kind (a b : Duration) (e : PyExc) (h : Duration.add a b = .error e) : e = .valueError := by
  simp only [Duration.add] at h
  split at h <;> (rw [C03.ctor_err] at h; exact h.2)

theorem fromNanoseconds_error_kind (n : Int) (e : PyExc) (h : Duration.fromNanoseconds n = .error e) :
    e = .valueError := by
  have hr := (C03.fromNanoseconds_raises_iff n).mp ⟨e, h⟩
  unfold Duration.fromNanoseconds at h
  rw [checkRange_bind_err] at h
  rcases h with ⟨_, he⟩ | ⟨hin, _⟩
  · exact he
  · exfalso; apply hr; exact hin

theorem fromTicks_error_kind (n : Int) (e : PyExc) (h : Duration.fromTicks n = .error e) :
    e = .valueError := by
  have hr := (C03.fromTicks_raises_iff n).mp ⟨e, h⟩
  unfold Duration.fromTicks at h
  rw [checkRange_bind_err] at h
  rcases h with ⟨_, he⟩ | ⟨hin, _⟩
  · exact he
  · exfalso; apply hr; simp only [C03.NsInRange]; unfold_consts; omega

theorem dok_nsInRange (d : Duration) (h : DOk d) : C03.NsInRange (C03.val d) := by
  simp only [DOk, C03.Norm, C03.InRange, C03.NsInRange, C03.val] at *
  unfold_consts; omega

/-- `Duration.from_<unit>(n)`: succeeds exactly inside the Duration range, exactly, else `ValueError`. -/
theorem unitDur_refines (u : TUnit) (n : Int) :
    (∃ d, unitDur u n = .ok d ∧ DOk d ∧ C03.val d = n * u.nanos ∧ C03.NsInRange (n * u.nanos)) ∨
    (unitDur u n = .error .valueError ∧ ¬ C03.NsInRange (n * u.nanos)) := by
  have key : ∀ (f : Int → R Duration) (k : Int),
      (∀ d, f n = .ok d → C03.Norm d ∧ C03.InRange d ∧ C03.val d = n * k) →
      ((∃ e, f n = .error e) ↔ ¬ C03.NsInRange (n * k)) →
      (∀ e, f n = .error e → e = .valueError) →
      (∃ d, f n = .ok d ∧ DOk d ∧ C03.val d = n * k ∧ C03.NsInRange (n * k)) ∨
      (f n = .error .valueError ∧ ¬ C03.NsInRange (n * k)) := by
    intro f k h1 h2 h3
    cases hf : f n with
    | ok d =>
      left
      obtain ⟨a, b, c⟩ := h1 d hf
      refine ⟨d, rfl, ⟨a, b⟩, c, ?_⟩
      rw [← c]; exact dok_nsInRange d ⟨a, b⟩
    | error e =>
      right
      have := h3 e hf
      subst this
      exact ⟨rfl, h2.mp ⟨_, hf⟩⟩
  cases u
  · -- nanoseconds
    have := key Duration.fromNanoseconds 1
      (fun d h => by have := C03.fromNanoseconds_exact n d h; simpa using this)
      (by simpa using C03.fromNanoseconds_raises_iff n) (fromNanoseconds_error_kind n)
    simpa [unitDur, TUnit.nanos] using this
  · exact key Duration.fromTicks NPT (C03.fromTicks_exact n) (C03.fromTicks_raises_iff n) (fromTicks_error_kind n)
  · exact key Duration.fromMilliseconds NPMs (C03.fromUnits_exact .milliseconds n)
      (C03.fromUnits_raises_iff .milliseconds n) (C03.fromUnits_error_kind .milliseconds n)
  · exact key Duration.fromSeconds NPS (C03.fromUnits_exact .seconds n)
      (C03.fromUnits_raises_iff .seconds n) (C03.fromUnits_error_kind .seconds n)
  · exact key Duration.fromMinutes NPMin (C03.fromUnits_exact .minutes n)
      (C03.fromUnits_raises_iff .minutes n) (C03.fromUnits_error_kind .minutes n)
  · exact key Duration.fromHours NPH (C03.fromUnits_exact .hours n)
      (C03.fromUnits_raises_iff .hours n) (C03.fromUnits_error_kind .hours n)
  · -- days: `Duration._ctor(days=n, nano_of_day=0)`
    refine key Duration.fromDays NPD ?_ ?_ ?_
    · intro d h
      rw [Duration.fromDays, C03.ctor_ok] at h
      obtain ⟨hr, rfl⟩ := h
      simp only [C03.Norm, C03.InRange, C03.val]; unfold_consts; omega
    · simp only [Duration.fromDays, C03.ctor_err, C03.NsInRange]
      unfold_consts
      constructor
      · rintro ⟨e, h, _⟩; omega
      · intro h; exact ⟨.valueError, by omega, rfl⟩
    · intro e h
      rw [Duration.fromDays, C03.ctor_err] at h; exact h.2

/-- `Instant + Duration` in nanoseconds, with the kind of error. -/
theorem plus_refines (i : Instant) (d : Duration) (hi : IOk i) (hd : DOk d) :
    addInstant (C03.val i.dur) (C03.val d) = (i.plus d).map (fun r => C03.val r.dur) := by
  obtain ⟨hin, hiv⟩ := hi
  obtain ⟨hdn, hdr⟩ := hd
  unfold Instant.plus
  cases hs : Duration.add i.dur d with
  | error e =>
    have he := add_error_kind _ _ _ hs
    subst he
    have := (C03.add_raises_iff _ _ hin hdn).mp ⟨_, hs⟩
    simp only [bind, Except.bind, Except.map, addInstant]
    simp only [C03.NsInRange] at this
    split
    · rfl
    · omega
  | ok s =>
    obtain ⟨h1, h2, h3⟩ := C03.add_exact _ _ _ hin hdn hs
    have hns := dok_nsInRange s ⟨h1, h2⟩
    have hv : C03.val s = s.days * NPD + s.nod := rfl
    simp only [C03.NsInRange] at hns
    simp only [C03.Norm] at h1
    simp only [bind, Except.bind, Instant.fromUntrusted, addInstant]
    by_cases hc : s.days < Instant.MIN_DAYS ∨ s.days > Instant.MAX_DAYS
    · simp only [hc, if_true, Except.map]
      split
      · omega
      · split
        · rfl
        · exfalso; unfold_consts; omega
    · simp only [hc, if_false, Except.map]
      split
      · omega
      · split
        · exfalso; unfold_consts; omega
        · rw [h3]

theorem plus_ok_wf (i : Instant) (d : Duration) (r : Instant) (hi : IOk i) (hd : DOk d) (h : i.plus d = .ok r) :
    IOk r := by
  obtain ⟨a, b, _⟩ := C03.instant_plus_exact i d r hi.1 hd.1 h
  exact ⟨a, b⟩

end Pyoda.C19
