/-
  GenAgreeC18 — agreement between the `DateInterval` / `Interval` code GENERATED from pyoda_time's Python source
  (`PyodaGen/C18.lean`, written by tools/py2lean.py on every check) and the hand-written model
  `PyodaModel/Intervals.lean`.

  `LocalDate` and `Instant` are the model's own types here; their operations (comparisons, `LocalDate.min/max`,
  `Period.days_between`, `Instant._is_valid`, …) are the helpers listed in PyodaGen/GlueC18.lean.  What is
  re-translated from the source on every run is everything `_date_interval.py` and `_interval.py` themselves do:
  the constructors' validation (all four None / not-None combinations for `Interval`), both overloads of
  `__contains__`, `__len__`, `__and__`, `__or__`, `start`/`end` guards, `has_start`/`has_end`, `duration`, equality.
-/
import PyodaGen.C18
import PyodaModel.Intervals
import PyodaProofs.Basic

namespace Pyoda.GenAgree.C18
open Pyoda Pyoda.Intervals

theorem checkArgument_true : Gen.checkArgument true = .ok () := rfl
theorem checkArgument_false : Gen.checkArgument false = .error .valueError := rfl

theorem gen_checkNotNullDI_eq (I : DateInterval) : Gen.C18.checkNotNullDI I = I := rfl

/-! ## DateInterval -/

theorem gen_DateInterval_new_eq (s e : LDate) : Gen.C18.DateInterval.new s e = DateInterval.new s e := by
  unfold Gen.C18.DateInterval.new DateInterval.new LDate.lt
  by_cases h : s.cal = e.cal
  · have h' : ¬ e.cal ≠ s.cal := by simp [h]
    simp only [h, ne_eq, not_true_eq_false, decide_true, checkArgument_true, if_false, bind, Except.bind]
    by_cases h2 : e.day < s.day
    · simp only [h2, decide_true, not_true_eq_false, decide_false, checkArgument_false, if_true]
    · simp only [h2, decide_false, Bool.false_eq_true, not_false_eq_true, decide_true, checkArgument_true, if_false]
  · simp only [h, ne_eq, not_false_eq_true, decide_false, checkArgument_false, if_true, bind, Except.bind]

theorem gen_DateInterval_start_eq (I : DateInterval) : Gen.C18.DateInterval.start I = I.s := rfl
theorem gen_DateInterval_end_eq (I : DateInterval) : Gen.C18.DateInterval.end I = I.e := rfl
theorem gen_DateInterval_calendar_eq (I : DateInterval) : Gen.C18.DateInterval.calendar I = I.s.cal := rfl

theorem gen_DateInterval_validateInterval_eq (I J : DateInterval) :
    Gen.C18.DateInterval.validateInterval I J = (if J.s.cal ≠ I.s.cal then .error .valueError else .ok ()) := by
  unfold Gen.C18.DateInterval.validateInterval Gen.C18.DateInterval.calendar
  by_cases h : J.s.cal = I.s.cal
  · simp only [h, decide_true, checkArgument_true, ne_eq, not_true_eq_false, if_false, bind, Except.bind]
  · simp only [h, decide_false, checkArgument_false, ne_eq, not_false_eq_true, if_true, bind, Except.bind]

theorem gen_DateInterval_containsDate_eq (I : DateInterval) (d : LDate) :
    Gen.C18.DateInterval.containsDate I d = I.containsDate d := by
  unfold Gen.C18.DateInterval.containsDate DateInterval.containsDate
  by_cases h : d.cal = I.s.cal
  · simp only [h, decide_true, checkArgument_true, ne_eq, not_true_eq_false, if_false, bind, Except.bind]
  · simp only [h, decide_false, checkArgument_false, ne_eq, not_false_eq_true, if_true, bind, Except.bind]

theorem gen_DateInterval_containsInterval_eq (I J : DateInterval) :
    Gen.C18.DateInterval.containsInterval I J = I.containsInterval J := by
  unfold Gen.C18.DateInterval.containsInterval DateInterval.containsInterval
  rw [gen_DateInterval_validateInterval_eq]
  by_cases h : J.s.cal = I.s.cal
  · simp only [h, ne_eq, not_true_eq_false, if_false, bind, Except.bind]
  · simp only [h, ne_eq, not_false_eq_true, if_true, bind, Except.bind]

theorem gen_DateInterval_containsDateMethod_eq (I : DateInterval) (d : LDate) :
    Gen.C18.DateInterval.containsDateMethod I d = I.containsDate d := gen_DateInterval_containsDate_eq I d

theorem gen_DateInterval_containsIntervalMethod_eq (I J : DateInterval) :
    Gen.C18.DateInterval.containsIntervalMethod I J = I.containsInterval J := gen_DateInterval_containsInterval_eq I J

theorem gen_DateInterval_len_eq (I : DateInterval) : Gen.C18.DateInterval.len I = I.len := rfl

theorem gen_DateInterval_inter_eq (A B : DateInterval) : Gen.C18.DateInterval.inter A B = A.inter B := by
  unfold Gen.C18.DateInterval.inter DateInterval.inter
  simp only [gen_DateInterval_containsInterval_eq, gen_DateInterval_containsDate_eq, gen_DateInterval_new_eq]

theorem gen_DateInterval_intersection_eq (A B : DateInterval) : Gen.C18.DateInterval.intersection A B = A.inter B :=
  gen_DateInterval_inter_eq A B

/-- the builtin `len()` accepts what `__len__` returns when it is a size: non-negative and at most `sys.maxsize` -/
def LenOk (I : DateInterval) : Prop := 0 ≤ I.len ∧ I.len ≤ 9223372036854775807

theorem pyLen_ok (n : Int) (h0 : 0 ≤ n) (h1 : n ≤ 9223372036854775807) : Gen.pyLen n = .ok n := by
  unfold Gen.pyLen
  rw [if_neg (by omega), if_neg (by omega)]

/-- every interval the constructor returns (end not before start) on day numbers of any calendar has such a length -/
theorem lenOk_of_new (s e : LDate) (I : DateInterval) (h : DateInterval.new s e = .ok I)
    (hb : e.day - s.day < 9223372036854775807) : LenOk I := by
  unfold DateInterval.new LDate.lt at h
  by_cases hc : s.cal = e.cal
  · by_cases hd : e.day < s.day
    · simp [hc, hd, bind, Except.bind] at h
    · simp [hc, hd, bind, Except.bind] at h
      subst h
      unfold LenOk DateInterval.len
      constructor <;> simp only <;> omega
  · simp [hc] at h

/-- `__or__`; the two `len()` calls need the lengths to be sizes (`LenOk`, true of every constructed interval) -/
theorem gen_DateInterval_union_eq (A B : DateInterval) (hA : LenOk A) (hB : LenOk B) :
    Gen.C18.DateInterval.union A B = A.union B := by
  unfold Gen.C18.DateInterval.union DateInterval.union
  rw [gen_DateInterval_validateInterval_eq]
  simp only [gen_DateInterval_len_eq, gen_DateInterval_new_eq, pyLen_ok _ hA.1 hA.2, pyLen_ok _ hB.1 hB.2]
  by_cases h : B.s.cal = A.s.cal
  · simp only [h, ne_eq, not_true_eq_false, if_false, bind, Except.bind]
  · simp only [h, ne_eq, not_false_eq_true, if_true, bind, Except.bind]

theorem gen_DateInterval_unionMethod_eq (A B : DateInterval) (hA : LenOk A) (hB : LenOk B) :
    Gen.C18.DateInterval.unionMethod A B = A.union B :=
  gen_DateInterval_union_eq A B hA hB

/-- outside `LenOk` the code differs from the model on purpose: `len()` of a negative `__len__` raises (such an interval
    cannot be built through the constructor) -/
example : Gen.C18.DateInterval.union ⟨⟨0, 5⟩, ⟨0, 1⟩⟩ ⟨⟨0, 3⟩, ⟨0, 4⟩⟩ = .error .valueError := by decide

/-! ## Interval -/

theorem gen_Interval_new_eq (s e : Instant) : Gen.C18.Interval.new s e = Interval.new (some s) (some e) := by
  unfold Gen.C18.Interval.new Interval.new Gen.C18Glue.instLt
  simp only

theorem gen_Interval_newNoStart_eq (e : Instant) : Gen.C18.Interval.newNoStart e = Interval.new none (some e) := by
  unfold Gen.C18.Interval.newNoStart Interval.new Gen.C18Glue.instLt
  simp only

theorem gen_Interval_newNoEnd_eq (s : Instant) : Gen.C18.Interval.newNoEnd s = Interval.new (some s) none := by
  unfold Gen.C18.Interval.newNoEnd Interval.new Gen.C18Glue.instLt
  simp only

theorem gen_Interval_newUnbounded_eq : Gen.C18.Interval.newUnbounded = Interval.new none none := by decide

theorem gen_Interval_start_eq (I : Interval) : Gen.C18.Interval.start I = I.start := by
  unfold Gen.C18.Interval.start Interval.start Gen.checkState
  cases I.s.isValid <;> rfl

theorem gen_Interval_hasStart_eq (I : Interval) : Gen.C18.Interval.hasStart I = I.hasStart := rfl

theorem gen_Interval_end_eq (I : Interval) : Gen.C18.Interval.end I = I.end := by
  unfold Gen.C18.Interval.end Interval.end Gen.checkState
  cases I.e.isValid <;> rfl

theorem gen_Interval_rawEnd_eq (I : Interval) : Gen.C18.Interval.rawEnd I = I.e := rfl
theorem gen_Interval_hasEnd_eq (I : Interval) : Gen.C18.Interval.hasEnd I = I.hasEnd := rfl

theorem gen_Interval_duration_eq (I : Interval) : Gen.C18.Interval.duration I = I.duration := by
  unfold Gen.C18.Interval.duration Interval.duration
  rw [gen_Interval_end_eq, gen_Interval_start_eq]

theorem gen_Interval_containsOp_eq (I : Interval) (t : Instant) : Gen.C18.Interval.containsOp I t = I.contains t := by
  unfold Gen.C18.Interval.containsOp Interval.contains Gen.C18Glue.instLe Gen.C18Glue.instLt
  rw [Bool.decide_and, Bool.decide_eq_true, Bool.decide_eq_true]

theorem gen_Interval_contains_eq (I : Interval) (t : Instant) : Gen.C18.Interval.contains I t = I.contains t :=
  gen_Interval_containsOp_eq I t

theorem gen_Interval_beq_eq (I J : Interval) : Gen.C18.Interval.beq I J = I.beq J := by
  unfold Gen.C18.Interval.beq Interval.beq Gen.C18Glue.instEq
  rw [Bool.decide_and, Bool.decide_eq_true, Bool.decide_eq_true]

theorem gen_Interval_bne_eq (I J : Interval) : Gen.C18.Interval.bne I J = !(I.beq J) := by
  unfold Gen.C18.Interval.bne
  rw [gen_Interval_beq_eq]
  cases I.beq J <;> rfl

theorem gen_Interval_equals_eq (I J : Interval) : Gen.C18.Interval.equals I J = I.beq J := gen_Interval_beq_eq I J

/-! ## the generated code evaluated on concrete values (kernel evaluation) -/

example : Gen.C18.DateInterval.new ⟨0, 10⟩ ⟨0, 12⟩ = .ok ⟨⟨0, 10⟩, ⟨0, 12⟩⟩ := by decide
example : Gen.C18.DateInterval.new ⟨0, 10⟩ ⟨1, 12⟩ = .error .valueError := by decide
example : Gen.C18.DateInterval.new ⟨0, 13⟩ ⟨0, 12⟩ = .error .valueError := by decide
example : Gen.C18.DateInterval.union ⟨⟨0, 1⟩, ⟨0, 1⟩⟩ ⟨⟨0, 3⟩, ⟨0, 4⟩⟩ = .ok none := by decide
example : Gen.C18.DateInterval.union ⟨⟨0, 1⟩, ⟨0, 2⟩⟩ ⟨⟨0, 3⟩, ⟨0, 4⟩⟩ = .ok (some ⟨⟨0, 1⟩, ⟨0, 4⟩⟩) := by decide
example : Gen.C18.DateInterval.inter ⟨⟨0, 1⟩, ⟨0, 5⟩⟩ ⟨⟨0, 3⟩, ⟨0, 9⟩⟩ = .ok (some ⟨⟨0, 3⟩, ⟨0, 5⟩⟩) := by decide
example : Gen.C18.Interval.duration ⟨Instant.beforeMin, ⟨⟨5, 0⟩⟩⟩ = .error .runtimeError := by decide

end Pyoda.GenAgree.C18
