/-
  C07 (generic engine, LocalDateTime) — a LocalDateTime pattern is one list of steps over date AND time fields with
  the combined bucket (`dtValue`: `_LocalDateTimeParseBucket._combine_buckets`).  `stepped_roundtrip` and
  `pattern_roundtrip` (C07Stepped) are stated for every pattern type, so they cover `Delimited` LocalDateTime
  patterns as they stand; here: the instance LocalDateTimePattern.extended_iso for every value, a custom
  variable-width instance, and the 24:00 spelling.
-/
import PyodaProofs.C07Stepped
import PyodaProofs.C07Instances

namespace Pyoda.C07
open Pyoda Pyoda.Text

/-- `stepped_roundtrip` / `pattern_roundtrip` at the LocalDateTime type (any template value): restated for the audit -/
theorem datetime_pattern_roundtrip (tm : Tmpl) (c : Compiled) (get : Getter) (v : List Int)
    (hd : Delimited c.cu c.used true c.steps = true) (hv : ∀ s ∈ c.steps, ValOK get s) (hr : Representable (.datetime tm) c get v)
    (hne : outSteps c.cu c.used get c.steps ≠ []) :
    fmtCompiled c get [] = .ok (outSteps c.cu c.used get c.steps) ∧
    parseCompiled (.datetime tm) c (outSteps c.cu c.used get c.steps) = .ok (some v) :=
  pattern_roundtrip (.datetime tm) c get v hd hv hr hne

def isoDateTimeSteps : List Step :=
  [.num .year .year 4 4 (-9999) 9999, .lit ['-'], .num .monthNum .monthNum 2 2 1 99, .lit ['-'],
   .num .dayOfMonth .dayOfMonth 2 2 1 99, .lit ['T'],
   .num .hours24 .hours24 2 2 0 24, .lit [':'], .num .minutes .minutes 2 2 0 59, .lit [':'],
   .num .seconds .seconds 2 2 0 59, .dotFrac 9 9 true]

/-- LocalDateTimePattern.extended_iso (standard letter `S`) compiles to these steps -/
theorem isoDateTime_compiles :
    compiledSteps (compileCustom (.datetime Tmpl.default) invariantCulture "uuuu'-'MM'-'dd'T'HH':'mm':'ss;FFFFFFFFF".toList)
      = some (5308, isoDateTimeSteps) := by
  decide +kernel

theorem isoDateTime_delimited : Delimited invariantCulture 5308 true isoDateTimeSteps = true := by decide

/-- custom LocalDateTime patterns: variable-width fields separated by literals are `Delimited`, adjacent ones not -/
example : (compiledSteps (compileCustom (.datetime Tmpl.default) invariantCulture "d/M/uuuu H:m:s.FFF".toList)).map
    (fun p => Delimited invariantCulture p.1 true p.2) = some true := by decide +kernel
example : (compiledSteps (compileCustom (.datetime Tmpl.default) invariantCulture "uuuuMdHH".toList)).map
    (fun p => Delimited invariantCulture p.1 true p.2) = some false := by decide +kernel

/-- LocalDateTimePattern.extended_iso through the generic theorem: every valid ISO date with every nanosecond of
    the day, for every template value with a whole number of seconds (the optional fraction `;FFFFFFFFF` is not
    written for a zero fraction, and an absent field takes the template's value) -/
theorem isoDateTime_generic_roundtrip (tm : Tmpl) (htm : ltNano tm.nod = 0) (y m d nod : Int) (hv : validDate y m d)
    (h0 : 0 ≤ nod) (h1 : nod < 86400000000000) :
    parseCompiled (.datetime tm) ⟨invariantCulture, 5308, isoDateTimeSteps⟩
      (outSteps invariantCulture 5308 (dtGetter y m d nod) isoDateTimeSteps) = .ok (some [y, m, d, nod]) := by
  have hv' := hv
  obtain ⟨hy1, hy2, hm1, hm2, hd1, hd2⟩ := hv
  have hb := daysInMonth_bounds y m
  unfold ISO_MIN_YEAR ISO_MAX_YEAR at *
  obtain ⟨e1, e2, e3, e4⟩ := time_accessors nod h0 h1
  have hval : ∀ s ∈ isoDateTimeSteps, ValOK (dtGetter y m d nod) s := by
    intro s hs
    simp only [isoDateTimeSteps, List.mem_cons, List.mem_nil_iff, or_false] at hs
    rcases hs with rfl | rfl | rfl | rfl | rfl | rfl | rfl | rfl | rfl | rfl | rfl | rfl
    · exact ⟨by simp only [dtGetter, dateGetter]; omega, by simp only [dtGetter, dateGetter]; omega, by decide, by decide,
        by decide, by simp only [dtGetter, dateGetter]; omega⟩
    · trivial
    · exact ⟨by simp only [dtGetter, dateGetter]; omega, by simp only [dtGetter, dateGetter]; omega, by decide, by decide,
        by decide, by simp only [dtGetter, dateGetter]; omega⟩
    · trivial
    · exact ⟨by simp only [dtGetter, dateGetter]; omega, by simp only [dtGetter, dateGetter]; omega, by decide, by decide,
        by decide, by simp only [dtGetter, dateGetter]; omega⟩
    · trivial
    · exact ⟨by simp only [dtGetter]; omega, by simp only [dtGetter]; omega, by decide, by decide, by decide,
        by simp only [dtGetter]; omega⟩
    · trivial
    · exact ⟨by simp only [dtGetter]; omega, by simp only [dtGetter]; omega, by decide, by decide, by decide,
        by simp only [dtGetter]; omega⟩
    · trivial
    · exact ⟨by simp only [dtGetter]; omega, by simp only [dtGetter]; omega, by decide, by decide, by decide,
        by simp only [dtGetter]; omega⟩
    · exact ⟨by simp only [dtGetter]; omega, by simp only [dtGetter]; omega, by decide, by decide,
        by simp only [dtGetter]; exact Nat.mod_one _⟩
  have hr : Representable (.datetime tm) ⟨invariantCulture, 5308, isoDateTimeSteps⟩ (dtGetter y m d nod) [y, m, d, nod] := by
    have hud : (5308 : Nat) &&& F.allDate = (F.year ||| F.monthNum ||| F.dayOfMonth) := by decide
    have hut : ((5308 : Nat) &&& F.allTime) &&& F.allTimeExceptFraction = (F.hours24 ||| F.minutes ||| F.seconds) := by decide
    generalize hb' : setSteps invariantCulture (dtGetter y m d nod) (bucket0 (.datetime tm)) isoDateTimeSteps = b'
    have bY : b' .year = y := by
      rw [← hb']; simp only [isoDateTimeSteps, setSteps, setStep]; split <;> simp [Bucket.set, dtGetter, dateGetter]
    have bMo : b' .monthNum = m := by
      rw [← hb']; simp only [isoDateTimeSteps, setSteps, setStep]; split <;> simp [Bucket.set, dtGetter, dateGetter]
    have bD : b' .dayOfMonth = d := by
      rw [← hb']; simp only [isoDateTimeSteps, setSteps, setStep]; split <;> simp [Bucket.set, dtGetter, dateGetter]
    have bH : b' .hours24 = ltHour nod := by
      rw [← hb']; simp only [isoDateTimeSteps, setSteps, setStep]; split <;> simp [Bucket.set, dtGetter]
    have bM : b' .minutes = ltMinute nod := by
      rw [← hb']; simp only [isoDateTimeSteps, setSteps, setStep]; split <;> simp [Bucket.set, dtGetter]
    have bS : b' .seconds = ltSecond nod := by
      rw [← hb']; simp only [isoDateTimeSteps, setSteps, setStep]; split <;> simp [Bucket.set, dtGetter]
    have hne24 : ¬ (ltHour nod = 24) := by rw [e1]; omega
    unfold Representable bucketValue
    simp only [hb', dtValue, bH, hne24, decide_false, Bool.false_eq_true, if_false, hud, dateValueT, if_true, bY, bMo, bD,
      isoDateValue_valid y m d hv', timeValue, hut, bM, bS, mapR, Option.map]
    -- the fraction slot: `;FFFFFFFFF` leaves the bucket (the template's nanosecond of second) untouched exactly
    -- when the value's fraction is zero
    have bF : b' .fraction = ltNano nod := by
      rw [← hb']; simp only [isoDateTimeSteps, setSteps, setStep]
      split
      · rename_i hz
        have hf : FracOK 9 9 (dtGetter y m d nod .fraction) := hval (.dotFrac 9 9 true) (by simp [isoDateTimeSteps])
        rcases truncOut_cases 9 9 (dtGetter y m d nod .fraction) hf [] noDigitHead_nil with ⟨z, _⟩ | ⟨_, ne, _⟩
        · have z' : ltNano nod = 0 := z
          rw [z']; simp [Bucket.set, bucket0, dtBucket0, timeBucket0, htm]
        · exact absurd hz ne
      · simp [Bucket.set, dtGetter]
    rw [bF, e1, e2, e3, e4, time_recompose]
  have hne : outSteps invariantCulture 5308 (dtGetter y m d nod) isoDateTimeSteps ≠ [] := by
    simp only [isoDateTimeSteps, outSteps, outStep]
    obtain ⟨_, _, hne⟩ := numOut_last 4 (dtGetter y m d nod .year)
    intro h
    exact hne (List.append_eq_nil_iff.mp h).1
  exact (pattern_roundtrip (.datetime tm) ⟨invariantCulture, 5308, isoDateTimeSteps⟩ (dtGetter y m d nod) [y, m, d, nod]
    isoDateTime_delimited hval hr hne).2

/-- the hypothesis on the template is needed: with a template of 00:00:00.5 the text of a whole-second value (no
    fraction written) parses to the template's fraction — absent fields take the template's values -/
example : parseCompiled (.datetime ⟨2000, 1, 1, 500000000⟩) ⟨invariantCulture, 5308, isoDateTimeSteps⟩
    "2000-01-01T00:00:00".toList = .ok (some [2000, 1, 1, 500000000]) := by decide +kernel

/-- the 24:00 spelling: accepted for midnight only and rolled over to the next day; a failure (not an exception) on
    the last day of the calendar -/
example : parseCompiled (.datetime Tmpl.default) ⟨invariantCulture, 5308, isoDateTimeSteps⟩
    "2000-12-31T24:00:00".toList = .ok (some [2001, 1, 1, 0]) := by decide +kernel
example : parseCompiled (.datetime Tmpl.default) ⟨invariantCulture, 5308, isoDateTimeSteps⟩
    "2000-12-31T24:00:01".toList = .ok none := by decide +kernel
example : parseCompiled (.datetime Tmpl.default) ⟨invariantCulture, 5308, isoDateTimeSteps⟩
    "9999-12-31T24:00:00".toList = .ok none := by decide +kernel

end Pyoda.C07
