/-
  C05 — `ZoneLocalMapping.single/first/last` and the stock resolvers of `Resolvers`
  (`return_earlier`, `return_later`, `throw_when_ambiguous`; `return_end_of_interval_before`,
  `return_start_of_interval_after`, `return_forward_shifted`, `throw_when_skipped`) combined by
  `create_mapping_resolver` and applied through `DateTimeZone.resolve_local`.
  Same setting as PyodaProofs.C05: an abstract zone `g` satisfying `Spec`, interior local instants.
-/
import PyodaProofs.C05

namespace Pyoda.C05
open Pyoda Pyoda.Zone

section
variable {g : Int → ZI} (h : Spec g) {get : Int → R ZI} (hget : Agrees get g)
include h hget

/-- `single()`, `first()`, `last()` are the obvious projections of the result list: nothing when the time is
    skipped (SkippedTimeError), the unique result, or AmbiguousTimeError / the earlier / the later result. -/
theorem single_first_last_spec {l : Int} (hl : Interior l) (m : Mapping) (hm : mapLocal get l = .ok m) :
    (m.count = 0 → m.single l = .error .skippedTime ∧ m.first l = .error .skippedTime ∧ m.last l = .error .skippedTime) ∧
    (m.count = 1 → m.single l = .ok (l - m.early.wall * NPS) ∧ m.first l = .ok (l - m.early.wall * NPS) ∧
      m.last l = .ok (l - m.early.wall * NPS)) ∧
    (m.count = 2 → m.single l = .error .ambiguousTime ∧ m.first l = .ok (l - m.early.wall * NPS) ∧
      m.last l = .ok (l - m.late.wall * NPS)) := by
  obtain ⟨⟨u, hu⟩, ⟨v, hv⟩⟩ := mapLocal_intervals h hget hl m hm
  have hbe := buildInstant_ok hl m.early (by rw [hu]; exact h.bounded u)
  have hbl := buildInstant_ok hl m.late (by rw [hv]; exact h.bounded v)
  refine ⟨?_, ?_, ?_⟩ <;> intro hc <;> simp only [Mapping.single, Mapping.first, Mapping.last, hc, hbe, hbl, and_self]

/-- `first()` and `last()` are the first and the last element of the result list (`results`, which
    `mapLocal_sound`/`mapLocal_complete`/`mapLocal_sorted` characterise as exactly the instants rendering as `l`,
    earlier first) -/
theorem first_last_are_results {l : Int} (hl : Interior l) (m : Mapping) (hm : mapLocal get l = .ok m)
    (hc : m.count = 1 ∨ m.count = 2) :
    m.first l = .ok ((results m l).head (by rcases hc with hc | hc <;> simp [results, hc])) ∧
    m.last l = .ok ((results m l).getLast (by rcases hc with hc | hc <;> simp [results, hc])) := by
  obtain ⟨_, h1, h2⟩ := single_first_last_spec h hget hl m hm
  rcases hc with hc | hc
  · obtain ⟨_, a, b⟩ := h1 hc
    simp only [results, hc, a, b, List.head_cons, List.getLast_singleton, and_self]
  · obtain ⟨_, a, b⟩ := h2 hc
    simp only [results, hc, a, b, List.head_cons]
    simp [List.getLast]

/-- the transition instant at a gap is a valid instant strictly inside the timeline -/
theorem gap_transition_valid {l : Int} (hl : Interior l) (m : Mapping) (hm : mapLocal get l = .ok m)
    (h0 : m.count = 0) : MINI < m.late.s ∧ m.late.s ≤ MAXI ∧ m.early.e = m.late.s := by
  obtain ⟨⟨u, hu⟩, ⟨v, hv⟩⟩ := mapLocal_intervals h hget hl m hm
  have hbe : -64800 ≤ m.early.wall ∧ m.early.wall ≤ 64800 := by rw [hu]; exact h.bounded u
  have hbl : -64800 ≤ m.late.wall ∧ m.late.wall ≤ 64800 := by rw [hv]; exact h.bounded v
  obtain ⟨g1, g2, g3⟩ := mapLocal_gap h hget hl m hm h0
  refine ⟨?_, ?_, g1⟩
  · simp only [Interior] at hl; zconsts; omega
  · rw [← g1]; simp only [Interior] at hl; zconsts; omega

/-- `zone.resolve_local(ldt, Resolvers.create_mapping_resolver(a, s))` for every combination of the stock
    resolvers: an unambiguous time is returned as is; an ambiguous time goes to `a` (earlier / later instant /
    AmbiguousTimeError); a skipped time goes to `s`: the last nanosecond before the transition, the transition
    instant itself, the local value shifted forward by the length of the gap (read with the offset before the
    gap), or SkippedTimeError. -/
theorem resolveLocal_spec (a : AmbRes) (s : SkipRes) {l : Int} (hl : Interior l) (m : Mapping)
    (hm : mapLocal get l = .ok m) :
    (m.count = 1 → resolveLocal get a s l = .ok (l - m.early.wall * NPS)) ∧
    (m.count = 2 → resolveLocal get a s l =
      match a with
      | .earlier => .ok (l - m.early.wall * NPS)
      | .later => .ok (l - m.late.wall * NPS)
      | .throw => .error .ambiguousTime) ∧
    (m.count = 0 → resolveLocal get a s l =
      match s with
      | .endOfBefore => .ok (m.late.s - 1)
      | .startOfAfter => .ok m.late.s
      | .forwardShifted => .ok (l - m.early.wall * NPS)
      | .throw => .error .skippedTime) := by
  obtain ⟨⟨u, hu⟩, ⟨v, hv⟩⟩ := mapLocal_intervals h hget hl m hm
  have hbe := buildInstant_ok hl m.early (by rw [hu]; exact h.bounded u)
  have hbl := buildInstant_ok hl m.late (by rw [hv]; exact h.bounded v)
  refine ⟨?_, ?_, ?_⟩
  · intro hc
    simp only [resolveLocal, hm, bind, Except.bind, hc, hbe]
  · intro hc
    cases a <;> simp only [resolveLocal, hm, bind, Except.bind, hc, AmbRes.apply, hbe, hbl]
  · intro hc
    obtain ⟨t1, t2, t3⟩ := gap_transition_valid h hget hl m hm hc
    have hEnd : m.early.hasEnd = true := by
      simp only [ZI.hasEnd, isValid, t3, Bool.and_eq_true, decide_eq_true_eq]; zconsts; omega
    have hStart : m.late.hasStart = true := by
      simp only [ZI.hasStart, isValid, Bool.and_eq_true, decide_eq_true_eq]; zconsts; omega
    have u1 : untrusted (m.early.e - 1) = .ok (m.late.s - 1) := by
      rw [t3]; exact untrusted_ok _ (by omega) (by omega)
    have u2 : untrusted m.late.s = .ok m.late.s := untrusted_ok _ (by omega) t2
    have u3 : untrusted (l - m.early.wall * NPS) = .ok (l - m.early.wall * NPS) := hbe
    cases s <;>
      simp only [resolveLocal, hm, bind, Except.bind, hc, SkipRes.apply, hEnd, hStart, u1, u2, u3,
        Bool.not_true, Bool.false_eq_true, if_false]

omit h hget in
/-- the strict and lenient resolvers are two of the combinations -/
theorem strict_lenient_are_combinations (l : Int) :
    atStrictly get l = resolveLocal get .throw .throw l ∧
    atLeniently get l = resolveLocal get .earlier .forwardShifted l := by
  constructor
  · simp only [atStrictly, resolveLocal, bind, Except.bind]
    cases mapLocal get l with
    | error e => rfl
    | ok m =>
      simp only []
      rcases hc : m.count with _ | _ | n <;> simp [AmbRes.apply, SkipRes.apply]
  · simp only [atLeniently, resolveLocal, bind, Except.bind]
    cases mapLocal get l with
    | error e => rfl
    | ok m =>
      simp only []
      rcases hc : m.count with _ | _ | n <;> simp [AmbRes.apply, SkipRes.apply, buildInstant]

end

/-- non-vacuity: on the toy zone (one transition at 0 from +0 to +1 h) a skipped local time resolves, under the
    four skipped-time resolvers, to -1 ns, 0, +30 min (shifted), or SkippedTimeError -/
example : resolveLocal (fun t => .ok (toy t)) .earlier .endOfBefore (1800 * NPS) = .ok (-1) ∧
    resolveLocal (fun t => .ok (toy t)) .earlier .startOfAfter (1800 * NPS) = .ok 0 ∧
    resolveLocal (fun t => .ok (toy t)) .earlier .forwardShifted (1800 * NPS) = .ok (1800 * NPS) ∧
    resolveLocal (fun t => .ok (toy t)) .earlier .throw (1800 * NPS) = .error .skippedTime := by decide

end Pyoda.C05
