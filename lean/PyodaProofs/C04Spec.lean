/-
  Link between C04 and C05: a precalculated zone without a recurring tail whose stored periods pass the
  decidable data check `DataOK` satisfies the hypotheses (`C05.Spec`) of the local-mapping theorems, and the
  model's own `Precalc.get` agrees with the total function the theorems are stated for.
-/
import PyodaProofs.C04
import PyodaProofs.C05Lemmas

namespace Pyoda.C04
open Pyoda Pyoda.Zone

/-- the total interval function of a precalculated zone -/
def whole : ZI := ⟨BMIN, AMAX, "", 0, 0⟩
def gOf (p : Precalc) (t : Int) : ZI := match p.get t with | .ok z => z | .error _ => whole

structure DataOK (p : Precalc) : Prop where
  wf : PeriodsWF p.periods
  notail : p.tail = none
  first : ∀ (a : ZI), p.periods[0]? = some a → a.s = BMIN
  last : p.tailStart = AMAX
  walls : ∀ (i : Nat) (z : ZI), p.periods[i]? = some z → -64800 ≤ z.wall ∧ z.wall ≤ 64800
  inner : ∀ (i : Nat) (a b : ZI), p.periods[i]? = some a → p.periods[i+1]? = some b → MINI ≤ a.e ∧ a.e ≤ MAXI
  minlen : ∀ (i : Nat) (z : ZI), p.periods[i]? = some z → MINI ≤ z.s → z.e ≤ MAXI → z.e - z.s ≥ 2 * C05.H18

/-- whatever the binary search returns is one of the stored periods -/
theorem search_mem (ps : Array ZI) (t : Int) :
    ∀ (fuel lower upper : Nat) (z : ZI), Precalc.search ps t fuel lower upper = .ok z → ∃ k : Nat, ps[k]? = some z := by
  intro fuel
  induction fuel with
  | zero => intro lower upper z h; simp [Precalc.search] at h
  | succ fuel ih =>
    intro lower upper z h
    unfold Precalc.search at h
    dsimp only at h
    split at h
    · split at h
      · cases h
      · rename_i c hc
        split at h
        · exact ih _ _ z h
        · split at h
          · exact ih _ _ z h
          · cases h; exact ⟨_, hc⟩
    · cases h

theorem get_mem (p : Precalc) (hn : p.tail = none) (t : Int) (z : ZI) (h : p.get t = .ok z) :
    ∃ k : Nat, p.periods[k]? = some z := by
  unfold Precalc.get at h
  rw [hn] at h
  exact search_mem _ _ _ _ _ z h

section
variable {p : Precalc} (d : DataOK p)
include d

theorem first_exists : ∃ a, p.periods[0]? = some a ∧ a.s = BMIN := by
  obtain ⟨a, ha⟩ := get?_some_of_lt p.periods 0 d.wf.nonempty
  exact ⟨a, ha, d.first a ha⟩

/-- on every instant between the two sentinels the lookup succeeds with the stored period containing it -/
theorem get_ok (t : Int) (h1 : BMIN ≤ t) (h2 : t < AMAX) :
    ∃ (z : ZI) (k : Nat), p.get t = .ok z ∧ gOf p t = z ∧ z.s ≤ t ∧ t < z.e ∧ p.periods[k]? = some z := by
  obtain ⟨a, ha, hs⟩ := first_exists d
  obtain ⟨z, hz, hz1, hz2, k, hk⟩ := precalc_get_contains p d.wf t a ha (by omega) (by rw [d.last]; exact h2)
  exact ⟨z, k, hz, by simp [gOf, hz], hz1, hz2, hk⟩

theorem agrees : C05.Agrees p.get (gOf p) := by
  intro t h1 h2
  obtain ⟨z, _, hz, hg, _⟩ := get_ok d t (by simp only [MINI, BMIN, MIN_DAYS, NPD] at *; omega)
    (by simp only [MAXI, AMAX, MAX_DAYS, NPD] at *; omega)
  rw [hz, hg]

/-- every value of `gOf` is a stored period or the default interval -/
theorem gOf_cases (t : Int) : (∃ k : Nat, p.periods[k]? = some (gOf p t)) ∨ gOf p t = whole := by
  unfold gOf
  cases h : p.get t with
  | ok z => left; exact get_mem p d.notail t z h
  | error e => right; rfl

/-- shape of a stored period: its ends are sentinels or valid instants -/
theorem stored_ends (k : Nat) (z : ZI) (hk : p.periods[k]? = some z) :
    (z.s = BMIN ∨ (MINI ≤ z.s ∧ z.s ≤ MAXI)) ∧ (z.e = AMAX ∨ (MINI ≤ z.e ∧ z.e ≤ MAXI)) := by
  have hlt := lt_of_get?_some _ _ _ hk
  constructor
  · cases k with
    | zero => left; exact d.first z hk
    | succ j =>
      right
      obtain ⟨a, ha⟩ := get?_some_of_lt p.periods j (by omega)
      have := d.inner j a z ha hk
      have := d.wf.abut j a z ha hk
      omega
  · by_cases hl : k + 1 < p.periods.size
    · right
      obtain ⟨b, hb⟩ := get?_some_of_lt p.periods (k + 1) hl
      exact d.inner k z b hk hb
    · left
      have hk' : k = p.periods.size - 1 := by omega
      have hback : p.periods.back? = some z := by
        simp only [Array.back?]; rw [← hk']; exact hk
      have := d.last
      simp [Precalc.tailStart, hback] at this
      exact this

/-- **C04 ⇒ hypotheses of C05** for zones without a recurring tail -/
theorem precalc_spec : C05.Spec (gOf p) := by
  have hmm : MINI ≥ BMIN ∧ MAXI < AMAX := by simp only [MINI, MAXI, BMIN, AMAX, MIN_DAYS, MAX_DAYS, NPD]; omega
  refine ⟨?_, ?_, ?_, ?_, ?_⟩
  · intro t h1 h2
    obtain ⟨z, _, _, hg, hz1, hz2, _⟩ := get_ok d t (by omega) (by omega)
    rw [hg]; exact ⟨hz1, hz2⟩
  · intro t u ht1 ht2 hu1 hu2 h1 h2
    obtain ⟨z, k, _, hg, hz1, hz2, hk⟩ := get_ok d t (by omega) (by omega)
    obtain ⟨z', k', _, hg', hz1', hz2', hk'⟩ := get_ok d u (by omega) (by omega)
    rw [hg] at h1 h2
    have := precalc_get_unique d.wf u k' k z' z hk' hk ⟨hz1', hz2'⟩ ⟨h1, h2⟩
    subst this
    rw [hk'] at hk
    rw [hg, hg']; exact Option.some.inj hk
  · intro t
    rcases gOf_cases d t with ⟨k, hk⟩ | hdef
    · exact d.walls k _ hk
    · rw [hdef]; simp [whole]
  · intro t
    rcases gOf_cases d t with ⟨k, hk⟩ | hdef
    · exact stored_ends d k _ hk
    · rw [hdef]; exact ⟨Or.inl rfl, Or.inl rfl⟩
  · intro t h1 h2
    rcases gOf_cases d t with ⟨k, hk⟩ | hdef
    · exact d.minlen k _ hk h1 h2
    · rw [hdef] at h1
      simp only [whole, MINI, BMIN, MIN_DAYS, NPD] at h1
      omega

end

theorem isValid_bounds (t : Int) (h : isValid t = true) : MINI ≤ t ∧ t ≤ MAXI := by
  unfold isValid at h
  rw [Bool.and_eq_true, decide_eq_true_eq, decide_eq_true_eq] at h
  simp only [dayOf, MINI, MAXI, MIN_DAYS, MAX_DAYS, NPD] at *
  omega

/-- the decidable check the driver evaluates on the current data implies `DataOK` -/
theorem dataOK_sound (p : Precalc) (h : dataOK p = true) : DataOK p := by
  simp only [dataOK, Bool.and_eq_true, beq_iff_eq, Option.isNone_iff_eq_none] at h
  obtain ⟨⟨⟨hwf, hnt⟩, hlast⟩, hml⟩ := h
  have wf := periodsWF_sound p.periods hwf
  simp only [periodsWF, Bool.and_eq_true, decide_eq_true_eq, List.all_eq_true, List.mem_range] at hwf
  obtain ⟨⟨⟨_, h2⟩, h3⟩, h4⟩ := hwf
  have elem : ∀ (i : Nat) (z : ZI), p.periods[i]? = some z → ∃ hi : i < p.periods.size, p.periods[i] = z := by
    intro i z hz
    have hi := lt_of_get?_some _ _ _ hz
    refine ⟨hi, ?_⟩
    have : p.periods[i]? = some p.periods[i] := by simp [hi]
    rw [this] at hz; exact Option.some.inj hz
  refine ⟨wf, hnt, ?_, hlast, ?_, ?_, ?_⟩
  · intro a ha
    rw [ha] at h2
    simpa using h2
  · intro i z hz
    obtain ⟨hi, e⟩ := elem i z hz
    rw [Array.all_eq_true] at h3
    have := h3 i hi
    rw [e] at this
    simp only [Bool.and_eq_true, decide_eq_true_eq] at this
    exact ⟨this.1.2, this.2⟩
  · intro i a b ha hb
    have hi := lt_of_get?_some _ _ _ hb
    have := h4 i (by omega)
    rw [ha, hb] at this
    simp only [Bool.and_eq_true, beq_iff_eq] at this
    exact isValid_bounds _ this.2
  · intro i z hz h1 h2
    obtain ⟨hi, e⟩ := elem i z hz
    rw [Array.all_eq_true] at hml
    have := hml i hi
    rw [e] at this
    simp only [decide_eq_true_eq] at this
    have := this h1 h2
    simp only [C05.H18]; exact this

/-- For a tail-less zone that passes the data check, the model's own lookup meets every hypothesis of the C05
    theorems: they apply to `p.get` through `C05.Agrees p.get (gOf p)` and `C05.Spec (gOf p)`. -/
theorem dataOK_gives_spec (p : Precalc) (h : dataOK p = true) :
    C05.Spec (gOf p) ∧ C05.Agrees p.get (gOf p) :=
  ⟨precalc_spec (dataOK_sound p h), agrees (dataOK_sound p h)⟩

end Pyoda.C04
