/-
  GenAgreeC01 — agreement between the calendar arithmetic GENERATED from pyoda_time's Python source
  (`PyodaGen/C01.lean`, written by tools/py2lean.py on every check; shared by C01 and C02) and the hand-written
  calendar model `PyodaModel/Calendar/Systems.lean`.

  The model uses exact `Int.tdiv` where the code calls `_towards_zero_division`; the generated definitions keep the
  Decimal-domain guard (`pyTdiv`), so those agreements carry the bound `|x| < 10^27` (`decBound`) on the operand.
  Table lookups (`pyIndex`, IndexError outside, negative index wraps) agree with the model's `tableAt` on the month
  range the callers validate first; the range is a hypothesis of the theorem.
  Virtual calls (`self._is_leap_year`) of the shared base classes are abstract function parameters of the generated
  definitions; they are instantiated here with the generated leap rule of each concrete calculator.
-/
import PyodaGen.C01
import PyodaModel.Calendar.Systems
import PyodaProofs.Basic

namespace Pyoda.GenAgree.C01
open Pyoda Pyoda.Calendar

theorem beq_eq_decide (a b : Int) : (a == b) = decide (a = b) := by
  by_cases h : a = b <;> simp [h]

theorem bne_eq_decide (a b : Int) : (a != b) = decide (a ≠ b) := by
  by_cases h : a = b <;> simp [h]

theorem pyIndex_eq_tableAt (l : List Int) (i : Int) (h0 : 0 ≤ i) (h1 : i < l.length) :
    Gen.pyIndex l i = .ok (tableAt l i) := by
  unfold Gen.pyIndex tableAt
  simp only [h0, h1, and_self, if_true, if_neg (Int.not_lt.mpr h0), List.getD_eq_getElem?_getD]
  cases l[i.toNat]? <;> rfl

/-- `if out of range: check (raises)` followed by falling off the end = the model's `if … then check else ok` -/
theorem check_tail (d hi : Int) :
    (Except.ok hi >>= fun v => if d < 1 ∨ d > v then (do checkRange d 1 v; Except.ok ()) else (Except.ok () : R Unit)) =
      (if d < 1 ∨ d > hi then checkRange d 1 hi else .ok ()) := by
  show (if d < 1 ∨ d > hi then (do checkRange d 1 hi; Except.ok ()) else (Except.ok () : R Unit)) = _
  unfold checkRange
  by_cases h : d < 1 ∨ d > hi <;> simp only [h, if_true, if_false] <;> rfl

/-! ## Gregorian -/

theorem gen_Greg_isGregorianLeapYear_eq (y : Int) : Gen.C01.Greg.isGregorianLeapYear y = Greg.isLeap y := by
  unfold Gen.C01.Greg.isGregorianLeapYear Greg.isLeap
  simp only [fmod_pos _ _ (by decide : (0 : Int) < 4), fmod_pos _ _ (by decide : (0 : Int) < 100),
    fmod_pos _ _ (by decide : (0 : Int) < 400), beq_eq_decide, bne_eq_decide, Bool.decide_and, Bool.decide_or]

theorem gen_Greg_isLeap_eq (y : Int) : Gen.C01.Greg.isLeap y = Greg.isLeap y :=
  gen_Greg_isGregorianLeapYear_eq y

theorem gen_Greg_len_eq (y : Int) : Gen.C01.Greg.len y = Greg.len y := by
  unfold Gen.C01.Greg.len Greg.len
  rw [gen_Greg_isGregorianLeapYear_eq]

theorem gen_Greg_start_eq (y : Int) (h1 : -decBound < y) (h2 : y < decBound) :
    Gen.C01.Greg.start y = .ok (Greg.start y) := by
  unfold Gen.C01.Greg.start Greg.start
  rw [pyTdiv_bind _ _ _ (by decide) h1 h2 (by decide) (by decide), gen_Greg_isLeap_eq]
  by_cases hy : y < 0
  · simp only [hy, if_true]
  · simp only [hy, if_false]
    cases Greg.isLeap y <;> rfl

theorem gen_Greg_validate_eq (y m d : Int) : Gen.C01.Greg.validate y m d = Greg.validate y m d := by
  unfold Gen.C01.Greg.validate Greg.validate
  simp only [gen_Greg_isGregorianLeapYear_eq]
  by_cases hc : y < -9998 ∨ y > 9999 ∨ m < 1 ∨ m > 12
  · simp only [hc, if_true]
    unfold checkRange
    by_cases hy : y < -9998 ∨ y > 9999
    · simp only [hy, if_true]; rfl
    · have hm : m < 1 ∨ m > 12 := by omega
      simp only [hy, hm, if_true, if_false]; rfl
  · simp only [hc, if_false]
    by_cases hd : 1 ≤ d ∧ d ≤ 20
    · simp only [hd, and_self, if_true]
    · simp only [hd, if_false]
      have hm0 : (0 : Int) ≤ m := by omega
      have hm1 : m < 13 := by omega
      by_cases hl : m = 2 ∧ Greg.isLeap y = true
      · simp only [if_pos hl]
        rw [pyIndex_eq_tableAt _ _ hm0 (by simpa using hm1)]
        exact check_tail d _
      · simp only [if_neg hl]
        rw [pyIndex_eq_tableAt _ _ hm0 (by simpa using hm1)]
        exact check_tail d _

theorem gen_Greg_validateYmd_eq (y m d : Int) : Gen.C01.Greg.validateYmd y m d = Greg.validate y m d := by
  unfold Gen.C01.Greg.validateYmd
  rw [gen_Greg_validate_eq]
  cases Greg.validate y m d <;> rfl

/-! ## `_GJYearMonthDayCalculator` (shared by Gregorian and Julian; the leap rule is the abstract callee) -/

theorem gen_GJ_len_eq (leap : Int → Bool) (y : Int) : Gen.C01.GJ.len leap y = (if leap y then 366 else 365) := rfl

theorem gen_GJ_dim_eq (leap : Int → Bool) (y m : Int) : Gen.C01.GJ.dim leap y m = GJ.dim (leap y) m := rfl

theorem gen_GJ_toMonth_eq (leap : Int → Bool) (y m : Int) (h0 : 0 ≤ m) (h1 : m ≤ 13) :
    Gen.C01.GJ.toMonth leap y m = .ok (GJ.totalDays (leap y) m) := by
  unfold Gen.C01.GJ.toMonth GJ.totalDays
  cases leap y
  · simp only [Bool.false_eq_true, if_false]
    exact pyIndex_eq_tableAt _ _ h0 (by simp only [List.length]; omega)
  · simp only [if_true]
    exact pyIndex_eq_tableAt _ _ h0 (by simp only [List.length]; omega)

/-- the start-of-month selected by the nest of comparisons is one of 24 small constants, so the Decimal division
    of `_towards_zero_division(start_of_month, 29)` is exact: no bound on `d` is needed -/
theorem gen_GJ_split_eq (leap : Int → Bool) (y d : Int) :
    Gen.C01.GJ.split leap y d = .ok ⟨y, (GJ.split (leap y) d).1, (GJ.split (leap y) d).2⟩ := by
  unfold Gen.C01.GJ.split GJ.split
  cases leap y
  · simp only [Bool.false_eq_true, if_false]
    repeat' split
    all_goals rfl
  · simp only [if_true]
    repeat' split
    all_goals rfl

/-- Gregorian instance of the shared members -/
theorem gen_Greg_dim_eq (y m : Int) : Gen.C01.GJ.dim Gen.C01.Greg.isLeap y m = Greg.cal.dim y m := by
  rw [gen_GJ_dim_eq, gen_Greg_isLeap_eq]; rfl
theorem gen_Greg_toMonth_eq (y m : Int) (h0 : 0 ≤ m) (h1 : m ≤ 13) :
    Gen.C01.GJ.toMonth Gen.C01.Greg.isLeap y m = .ok (Greg.cal.toMonth y m) := by
  rw [gen_GJ_toMonth_eq _ _ _ h0 h1, gen_Greg_isLeap_eq]; rfl
theorem gen_Greg_split_eq (y d : Int) :
    Gen.C01.GJ.split Gen.C01.Greg.isLeap y d = .ok ⟨y, (Greg.cal.split y d).1, (Greg.cal.split y d).2⟩ := by
  rw [gen_GJ_split_eq, gen_Greg_isLeap_eq]; rfl

/-! ## Julian -/

theorem gen_Jul_isLeap_eq (y : Int) : Gen.C01.Jul.isLeap y = Jul.isLeap y := by
  unfold Gen.C01.Jul.isLeap Jul.isLeap
  simp only [fmod_pos _ _ (by decide : (0 : Int) < 4), beq_eq_decide]

theorem gen_Jul_start_eq (y : Int) : Gen.C01.Jul.start y = Jul.start y := by
  unfold Gen.C01.Jul.start Jul.start
  rw [gen_Jul_isLeap_eq]
  by_cases h : y - 1968 ≤ 0
  · simp only [h, if_true]
  · simp only [h, if_false]
    cases Jul.isLeap y <;> rfl

theorem gen_Jul_len_eq (y : Int) : Gen.C01.GJ.len Gen.C01.Jul.isLeap y = Jul.len y := by
  rw [gen_GJ_len_eq, gen_Jul_isLeap_eq]; rfl
theorem gen_Jul_dim_eq (y m : Int) : Gen.C01.GJ.dim Gen.C01.Jul.isLeap y m = Jul.cal.dim y m := by
  rw [gen_GJ_dim_eq, gen_Jul_isLeap_eq]; rfl
theorem gen_Jul_toMonth_eq (y m : Int) (h0 : 0 ≤ m) (h1 : m ≤ 13) :
    Gen.C01.GJ.toMonth Gen.C01.Jul.isLeap y m = .ok (Jul.cal.toMonth y m) := by
  rw [gen_GJ_toMonth_eq _ _ _ h0 h1, gen_Jul_isLeap_eq]; rfl
theorem gen_Jul_split_eq (y d : Int) :
    Gen.C01.GJ.split Gen.C01.Jul.isLeap y d = .ok ⟨y, (Jul.cal.split y d).1, (Jul.cal.split y d).2⟩ := by
  rw [gen_GJ_split_eq, gen_Jul_isLeap_eq]; rfl

/-! ## Coptic (`_FixedMonthYearMonthDayCalculator`, `_CopticYearMonthDayCalculator`) -/

theorem gen_Copt_isLeap_eq (y : Int) : Gen.C01.Copt.isLeap y = Copt.isLeap y := by
  unfold Gen.C01.Copt.isLeap Copt.isLeap
  simp only [fmod_pos _ _ (by decide : (0 : Int) < 4), beq_eq_decide]

theorem gen_Copt_len_eq (y : Int) : Gen.C01.Copt.len y = Copt.len y := by
  unfold Gen.C01.Copt.len Copt.len
  rw [gen_Copt_isLeap_eq]

theorem gen_Copt_dim_eq (y m : Int) : Gen.C01.Copt.dim y m = Copt.dim y m := by
  unfold Gen.C01.Copt.dim Copt.dim
  rw [gen_Copt_isLeap_eq]

theorem gen_Copt_toMonth_eq (y m : Int) : Gen.C01.Copt.toMonth y m = Copt.cal.toMonth y m := rfl

theorem gen_Copt_split_eq (y doy : Int) (h1 : -decBound < doy - 1) (h2 : doy - 1 < decBound) :
    Gen.C01.Copt.split y doy = .ok ⟨y, (Copt.split y doy).1, (Copt.split y doy).2⟩ := by
  unfold Gen.C01.Copt.split Copt.split
  rw [pyTdiv_bind _ _ _ (by decide) h1 h2 (by decide) (by decide)]

theorem gen_Copt_start_eq (y : Int) : Gen.C01.Copt.start y = Copt.start y := by
  unfold Gen.C01.Copt.start Copt.start
  rw [gen_Copt_isLeap_eq]
  by_cases h : y - 1687 ≤ 0
  · simp only [h, if_true]
  · simp only [h, if_false]
    cases Copt.isLeap y <;> rfl

/-! ## tabular Islamic (leap rule abstract: the code's rule is a bit test on the pattern constant, outside the subset) -/

theorem gen_Isl_len_eq (leap : Int → Bool) (y : Int) : Gen.C01.Isl.len leap y = (if leap y then 355 else 354) := rfl

theorem gen_Isl_len_model (bits : Nat) (y : Int) : Gen.C01.Isl.len (Isl.isLeap bits) y = Isl.len bits y := rfl

theorem gen_Isl_dim_eq (bits : Nat) (y m : Int) : Gen.C01.Isl.dim (Isl.isLeap bits) y m = Isl.dim bits y m := rfl

theorem gen_Isl_toMonth_eq (y m : Int) (h0 : 0 ≤ m) (h1 : m ≤ 12) :
    Gen.C01.Isl.toMonth y m = .ok (Isl.toMonth m) := by
  unfold Gen.C01.Isl.toMonth Isl.toMonth
  exact pyIndex_eq_tableAt _ _ h0 (by simp only [List.length]; omega)

theorem gen_Isl_split_eq (y doy : Int) (h1 : -decBound < (doy - 1) * 2) (h2 : (doy - 1) * 2 < decBound) :
    Gen.C01.Isl.split y doy = .ok ⟨y, (Isl.split y doy).1, (Isl.split y doy).2⟩ := by
  unfold Gen.C01.Isl.split Isl.split
  by_cases h : doy = 355
  · simp only [h, if_true]
  · simp only [h, if_false]
    rw [pyTdiv_bind _ _ _ (by decide) h1 h2 (by decide) (by decide)]

/-! ## Persian (leap rule abstract in the shared base class; the arithmetic rule is translated) -/

theorem gen_Pers_len_eq (leap : Int → Bool) (y : Int) : Gen.C01.Pers.len leap y = Pers.lenOf leap y := rfl

theorem gen_Pers_dim_eq (leap : Int → Bool) (y m : Int) : Gen.C01.Pers.dim leap y m = Pers.dim leap y m := rfl

theorem gen_Pers_toMonth_eq (y m : Int) (h0 : 0 ≤ m) (h1 : m ≤ 12) :
    Gen.C01.Pers.toMonth y m = .ok (Pers.toMonth m) := by
  unfold Gen.C01.Pers.toMonth Pers.toMonth
  exact pyIndex_eq_tableAt _ _ h0 (by simp only [List.length]; omega)

theorem gen_Pers_split_eq (y doy : Int) (h1 : -decBound < doy - 1 - 186) (h2 : doy - 1 < decBound) :
    Gen.C01.Pers.split y doy = .ok ⟨y, (Pers.split y doy).1, (Pers.split y doy).2⟩ := by
  unfold Gen.C01.Pers.split Pers.split
  by_cases h : doy = 366
  · simp only [h, if_true]
  · simp only [h, if_false]
    by_cases hz : doy - 1 < 6 * 31
    · have hz' : doy - 1 < 186 := hz
      simp only [hz, hz', if_true]
      rw [pyTdiv_bind _ _ _ (by decide) (by unfold decBound at *; omega) h2 (by decide) (by decide)]
    · have hz' : ¬ doy - 1 < 186 := hz
      simp only [hz, hz', if_false]
      have e : (6 : Int) * 31 = 186 := rfl
      rw [e, pyTdiv_bind _ _ _ (by decide) h1 (by unfold decBound at *; omega) (by decide) (by decide)]

theorem gen_Pers_leapArithmetic_eq (y : Int) : Gen.C01.Pers.leapArithmetic y = Pers.leapArithmetic y := rfl

/-! ## bit-test leap rules (tabular Islamic, Persian simple) and the Islamic year start (a `for` loop) -/

theorem and_two_pow_pos (bits k : Nat) : (0 < bits &&& 2 ^ k) ↔ bits.testBit k = true := by
  constructor
  · intro h
    by_cases ht : bits.testBit k = true
    · exact ht
    · exfalso
      have hz : bits &&& 2 ^ k = 0 := by
        apply Nat.eq_of_testBit_eq
        intro i
        rw [Nat.testBit_and, Nat.testBit_two_pow, Nat.zero_testBit]
        by_cases hki : k = i
        · subst hki
          simp only [Bool.not_eq_true] at ht
          simp only [ht, Bool.false_and]
        · simp only [hki, decide_false, Bool.and_false]
      omega
  · intro ht
    have h1 : (bits &&& 2 ^ k).testBit k = true := by
      rw [Nat.testBit_and, Nat.testBit_two_pow_self, ht]; rfl
    have h2 := Nat.ge_two_pow_of_testBit h1
    have h3 : 0 < 2 ^ k := Nat.two_pow_pos k
    omega

/-- `pattern & (1 << k) > 0` is the bit test of the model -/
theorem pyAnd_shl_one (bits k : Nat) : decide (Gen.pyAnd (bits : Int) ((1 : Int) * 2 ^ k) > 0) = bits.testBit k := by
  have e : ((1 : Int) * 2 ^ k) = Int.ofNat (2 ^ k) := by
    rw [Int.one_mul]; exact (Int.natCast_pow 2 k).symm
  rw [e]
  show decide (Int.ofNat (bits &&& 2 ^ k) > 0) = _
  have h := and_two_pow_pos bits k
  cases hb : bits.testBit k with
  | true =>
    have := h.mpr hb
    simp only [decide_eq_true_eq]
    exact Int.ofNat_lt.mpr this
  | false =>
    have hn : ¬ (0 < bits &&& 2 ^ k) := fun hp => by rw [h.mp hp] at hb; cases hb
    simp only [decide_eq_false_iff_not]
    intro hp
    exact hn (Int.ofNat_lt.mp hp)

theorem yearOfCycle_nonneg (y n : Int) (hn : 0 < n) :
    0 ≤ (if y ≥ 0 then csharpMod y n else csharpMod y n + n) := by
  rw [csharpMod_pos y n hn]
  have h1 := Int.emod_nonneg y (Int.ne_of_gt hn)
  have h2 := Int.emod_lt_of_pos y hn
  split <;> split <;> omega

theorem gen_Isl_isLeap_eq (bits : Nat) (y : Int) : Gen.C01.Isl.isLeap (bits : Int) y = .ok (Isl.isLeap bits y) := by
  unfold Gen.C01.Isl.isLeap Isl.isLeap Gen.pyShl
  have h := yearOfCycle_nonneg y 30 (by decide)
  simp only [if_neg (Int.not_lt.mpr h), bind, Except.bind]
  rw [pyAnd_shl_one]

theorem gen_Pers_leapSimple_eq (y : Int) : Gen.C01.Pers.leapSimple y = .ok (Pers.leapSimple y) := by
  unfold Gen.C01.Pers.leapSimple Pers.leapSimple Gen.pyShl
  have h := yearOfCycle_nonneg y 33 (by decide)
  simp only [if_neg (Int.not_lt.mpr h), bind, Except.bind]
  have e : (1145184802 : Int) = ((Pers.simpleBits : Nat) : Int) := by rfl
  rw [e, pyAnd_shl_one]

/-- the `for i in range(year_at_start_of_cycle, year)` loop adds up the year lengths -/
theorem gen_Isl_start_loop1_eq (len : Int → Int) (d1 hi : Int) (fuel : Nat) (i days : Int)
    (h1 : i ≤ hi) (h2 : (hi - i).toNat < fuel) :
    Gen.C01.Isl.start.loop1 len d1 hi fuel i days = .ok (hi, days + sumFrom len (hi - i).toNat i) := by
  induction fuel generalizing i days with
  | zero => omega
  | succ n ih =>
    unfold Gen.C01.Isl.start.loop1
    by_cases h : i < hi
    · simp only [h, if_true]
      rw [ih (i + 1) (days + len i) (by omega) (by omega)]
      have e : (hi - i).toNat = (hi - (i + 1)).toNat + 1 := by omega
      rw [e, sumFrom, Int.add_assoc]
    · have e' : i = hi := by omega
      subst e'
      simp only [Int.lt_irrefl, if_false, Int.sub_self, Int.toNat_zero, sumFrom, Int.add_zero]

theorem gen_Isl_start_loop2_eq (len : Int → Int) (d1 hi : Int) (fuel : Nat) (i days : Int)
    (h1 : i ≤ hi) (h2 : (hi - i).toNat < fuel) :
    Gen.C01.Isl.start.loop2 len d1 hi fuel i days = .ok (hi, days + sumFrom len (hi - i).toNat i) := by
  induction fuel generalizing i days with
  | zero => omega
  | succ n ih =>
    unfold Gen.C01.Isl.start.loop2
    by_cases h : i < hi
    · simp only [h, if_true]
      rw [ih (i + 1) (days + len i) (by omega) (by omega)]
      have e : (hi - i).toNat = (hi - (i + 1)).toNat + 1 := by omega
      rw [e, sumFrom, Int.add_assoc]
    · have e' : i = hi := by omega
      subst e'
      simp only [Int.lt_irrefl, if_false, Int.sub_self, Int.toNat_zero, sumFrom, Int.add_zero]

/-- `_calculate_start_of_year_days` of the tabular Islamic calendars (any pattern, any epoch) -/
theorem gen_Isl_start_eq (bits : Nat) (epoch y : Int) (h1 : -decBound < y - 30) (h2 : y < decBound) :
    Gen.C01.Isl.start (Isl.len bits) epoch y = .ok (Isl.start bits epoch y) := by
  unfold Gen.C01.Isl.start Isl.start Gen.C01.Calc.daysAtStartOfYear1
  by_cases hy : y > 0
  · simp only [hy, if_true]
    rw [pyTdiv_bind _ _ _ (by decide) (by unfold decBound at *; omega) (by unfold decBound at *; omega) (by decide) (by decide)]
    have hq : Int.tdiv (y - 1) 30 = (y - 1) / 30 := by
      simp (disch := decide) only [tdiv_pos]; rw [if_pos (by omega)]
    rw [gen_Isl_start_loop1_eq _ _ _ _ _ _ (by rw [hq]; omega) (by rw [hq]; omega)]
    rfl
  · simp only [hy, if_false]
    rw [pyTdiv_bind _ _ _ (by decide) (by unfold decBound at *; omega) (by unfold decBound at *; omega) (by decide) (by decide)]
    have hq : Int.tdiv (y - 30) 30 = -((-(y - 30)) / 30) := by
      simp (disch := decide) only [tdiv_pos]; rw [if_neg (by omega)]
    rw [gen_Isl_start_loop2_eq _ _ _ _ _ _ (by rw [hq]; omega) (by rw [hq]; omega)]
    rfl

/-- `CalendarSystem._get_day_of_week` for a date whose day number is `d`: the weekday formula always lands in
    1 … 7, so the `IsoDayOfWeek(...)` lookup cannot fail -/
theorem gen_dayOfWeek_eq (ymd : Gen.YMD) (d : Int) :
    Gen.C01.dayOfWeek (fun _ => .ok d) ymd = .ok (dayOfWeek d) := by
  unfold Gen.C01.dayOfWeek dayOfWeek Gen.isoDayOfWeek
  simp only [bind, Except.bind]
  have h7 : (0 : Int) < 7 := by decide
  have a1 := Int.emod_nonneg (d + 3) (Int.ne_of_gt h7)
  have a2 := Int.emod_lt_of_pos (d + 3) h7
  have b1 := Int.emod_nonneg (d + 4) (Int.ne_of_gt h7)
  have b2 := Int.emod_lt_of_pos (d + 4) h7
  rw [if_pos]
  rw [csharpMod_pos _ _ h7, csharpMod_pos _ _ h7]
  split <;> split <;> omega

/-! ## `_YearMonthDayCalculator`: the calendar-independent layer (virtual members = abstract callees, instantiated
      with the record `c : Calc` of the model; instance attributes = parameters) -/

/-- agreement of two results up to the KIND of error: the generated year search evaluates `_get_days_in_year` once
    before its second loop, the model's `fwdLoop` at the head of every round, so when the fuel runs out exactly
    where that call fails the two report different errors (both fail; with fuel left they are equal) -/
def Agree {α} (a b : R α) : Prop := a = b ∨ ((∃ e, a = .error e) ∧ (∃ e, b = .error e))

theorem Agree.rfl' {α} (a : R α) : Agree a a := Or.inl rfl

theorem Agree.bind {α β} {a b : R α} (h : Agree a b) (f : α → R β) : Agree (a >>= f) (b >>= f) := by
  rcases h with h | ⟨⟨e, he⟩, ⟨e', he'⟩⟩
  · exact Or.inl (by rw [h])
  · exact Or.inr ⟨⟨e, by rw [he]; rfl⟩, ⟨e', by rw [he']; rfl⟩⟩

theorem gen_Calc_minYear_eq (n : Int) : Gen.C01.Calc.minYear n = n := rfl
theorem gen_Calc_maxYear_eq (n : Int) : Gen.C01.Calc.maxYear n = n := rfl
theorem gen_Calc_daysAtStartOfYear1_eq (n : Int) : Gen.C01.Calc.daysAtStartOfYear1 n = n := rfl

/-- first correction loop of `_get_year` = `backLoop` -/
theorem gen_Calc_getYear_loop1_eq (c : Calc) (s : Int → R Int) (d1 avg : Int) (f : Nat) (cand rem : Int) :
    Gen.C01.Calc.getYear.loop1 s c.lenR d1 avg f cand rem = backLoop c f cand rem := by
  induction f generalizing cand rem with
  | zero => rfl
  | succ n ih =>
    unfold Gen.C01.Calc.getYear.loop1 backLoop
    by_cases h : rem < 0
    · simp only [h, if_true, ih]
    · simp only [h, if_false]

/-- second correction loop of `_get_year` (with the year length evaluated before each test) against `fwdLoop` -/
theorem gen_Calc_getYear_loop2_agree (c : Calc) (s : Int → R Int) (d1 avg : Int) (f : Nat) (cand rem : Int) :
    Agree (c.lenR cand >>= fun l => Gen.C01.Calc.getYear.loop2 s c.lenR d1 avg f cand rem l >>= fun r => .ok (r.1, r.2.1))
      (fwdLoop c f cand rem) := by
  induction f generalizing cand rem with
  | zero =>
    refine Or.inr ⟨?_, ⟨_, rfl⟩⟩
    cases c.lenR cand with
    | error e => exact ⟨e, rfl⟩
    | ok l => exact ⟨_, rfl⟩
  | succ n ih =>
    unfold fwdLoop
    cases hl : c.lenR cand with
    | error e => exact Or.inl rfl
    | ok l =>
      unfold Gen.C01.Calc.getYear.loop2
      simp only [bind, Except.bind]
      by_cases h : rem ≥ l
      · simp only [h, if_true]
        have := ih (cand + 1) (rem - l)
        simp only [bind, Except.bind] at this
        cases hl' : c.lenR (cand + 1) with
        | error e => rw [hl'] at this; exact this
        | ok l' => rw [hl'] at this; exact this
      · simp only [h, if_false]
        exact Or.inl rfl

theorem gen_Calc_getYear_agree (c : Calc) (d : Int) :
    Agree (Gen.C01.Calc.getYear c.startR c.lenR c.daysAtYear1 (c.avg10 + 1) d) (getYear c d) := by
  unfold Gen.C01.Calc.getYear getYear estimate
  simp only [gen_Calc_daysAtStartOfYear1_eq, yearFuel]
  cases pyTdiv ((d - c.daysAtYear1) * 10) (c.avg10 + 1) with
  | error e => exact Or.inl rfl
  | ok q =>
    simp only [bind, Except.bind, pure, Except.pure]
    cases c.startR (q + 1) with
    | error e => exact Or.inl rfl
    | ok st =>
      simp only
      by_cases h : d - st < 0
      · simp only [h, if_true, gen_Calc_getYear_loop1_eq]
        cases backLoop c 64 (q + 1) (d - st) with
        | error e => exact Or.inl rfl
        | ok r => exact Or.inl rfl
      · simp only [h, if_false]
        have := gen_Calc_getYear_loop2_agree c c.startR c.daysAtYear1 (c.avg10 + 1) 64 (q + 1) (d - st)
        simp only [bind, Except.bind] at this
        cases hl : c.lenR (q + 1) with
        | error e =>
          rw [hl] at this
          exact this
        | ok l =>
          rw [hl] at this
          simp only at this ⊢
          cases hr : Gen.C01.Calc.getYear.loop2 c.startR c.lenR c.daysAtYear1 (c.avg10 + 1) 64 (q + 1) (d - st) l with
          | error e => rw [hr] at this; exact this
          | ok r => rw [hr] at this; exact this

theorem gen_Calc_getYearMonthDay_eq (split : Int → Int → R Gen.YMD) (y doy : Int) :
    Gen.C01.Calc.getYearMonthDay split y doy = split y doy := rfl

/-- the model's `splitR`/`ymdOfDays` return pairs/triples; the code returns a `_YearMonthDay` -/
def splitYMD (c : Calc) (y doy : Int) : R Gen.YMD := do
  let r ← c.splitR y doy
  .ok ⟨y, r.1, r.2⟩

theorem gen_Calc_ymdOfDays_agree (c : Calc) (d : Int) :
    Agree (Gen.C01.Calc.ymdOfDays c.startR c.lenR (splitYMD c) c.daysAtYear1 (c.avg10 + 1) d)
      (do let r ← ymdOfDays c d; .ok (⟨r.1, r.2.1, r.2.2⟩ : Gen.YMD)) := by
  unfold Gen.C01.Calc.ymdOfDays ymdOfDays
  have h := (gen_Calc_getYear_agree c d).bind (fun r => splitYMD c r.1 (r.2 + 1))
  rcases h with h | h
  · left
    show (Gen.C01.Calc.getYear c.startR c.lenR c.daysAtYear1 (c.avg10 + 1) d >>= fun r => splitYMD c r.1 (r.2 + 1)) = _
    rw [h]
    cases getYear c d with
    | error e => rfl
    | ok r =>
      obtain ⟨y, z⟩ := r
      show splitYMD c y (z + 1) = _
      unfold splitYMD
      simp only [bind, Except.bind, pure, Except.pure]
      cases c.splitR y (z + 1) with
      | error e => rfl
      | ok v => obtain ⟨m, dd⟩ := v; rfl
  · right
    refine ⟨h.1, ?_⟩
    obtain ⟨e, he⟩ := h.2
    cases hg : getYear c d with
    | error e' => exact ⟨e', rfl⟩
    | ok r =>
      rw [hg] at he
      have he' : splitYMD c r.1 (r.2 + 1) = .error e := he
      unfold splitYMD at he'
      cases hs : c.splitR r.1 (r.2 + 1) with
      | error e'' => exact ⟨e'', by simp only [bind, Except.bind, hs]⟩
      | ok v => rw [hs] at he'; cases he'

theorem gen_Calc_daysOfYmdRaw_eq (c : Calc) (ymd : Gen.YMD) :
    Gen.C01.Calc.daysOfYmdRaw c.startR (fun y m => .ok (c.toMonth y m)) ymd = daysOfYmdRaw c ymd.year ymd.month ymd.day := rfl

theorem gen_Calc_validate_eq (c : Calc) (y m d : Int) :
    Gen.C01.Calc.validate c.months c.dim c.minYear c.maxYear y m d = validate c y m d := by
  unfold Gen.C01.Calc.validate validate
  simp only [gen_Calc_minYear_eq, gen_Calc_maxYear_eq]
  cases checkRange y c.minYear c.maxYear with
  | error e => rfl
  | ok _ =>
    cases checkRange m 1 (c.months y) with
    | error e => rfl
    | ok _ => cases checkRange d 1 (c.dim y m) <;> rfl

theorem gen_Calc_dayOfYear_eq (c : Calc) (ymd : Gen.YMD) :
    Gen.C01.Calc.dayOfYear (fun y m => .ok (c.toMonth y m)) ymd = .ok (dayOfYear c ymd.year ymd.month ymd.day) := rfl

end Pyoda.GenAgree.C01
