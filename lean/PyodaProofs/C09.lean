/-
  C09 — date arithmetic and `Period.between` obey their stated laws in every calendar.
  Property theorems; helper lemmas in `C09Lemmas.lean`.  The calendar enters as an arbitrary `Calc` with C01's
  well-formedness predicate `WF` (proved per calendar in `C01*.lean`).
-/
import PyodaModel.DateArith
import PyodaProofs.C09Lemmas

namespace Pyoda.C09
open Pyoda Pyoda.Calendar Pyoda.DateArith Pyoda.C01

local macro "unfold_consts" : tactic =>
  `(tactic| simp only [NPD, NPH, NPMin, NPS, NPMs, NPUs, NPT, decBound, durMinNanos, durMaxNanos] at *)

/-! ## time components, normalisation, duration -/

/-- `__time_components_between`: the components and the remainder add up to the total, components of units not
    asked for are zero, everything has the sign of the total, and nothing is left when nanoseconds are asked for
    (or ticks, when the total is a whole number of ticks). -/
theorem timeComponents_exact (mask : Nat) (t : Int) :
    ∃ h mi s ms tk n rest, timeComponents mask t = ([h, mi, s, ms, tk, n], rest) ∧
      h * NPH + mi * NPMin + s * NPS + ms * NPMs + tk * NPT + n + rest = t ∧
      (0 ≤ t → 0 ≤ h ∧ 0 ≤ mi ∧ 0 ≤ s ∧ 0 ≤ ms ∧ 0 ≤ tk ∧ 0 ≤ n ∧ 0 ≤ rest) ∧
      (t ≤ 0 → h ≤ 0 ∧ mi ≤ 0 ∧ s ≤ 0 ∧ ms ≤ 0 ∧ tk ≤ 0 ∧ n ≤ 0 ∧ rest ≤ 0) ∧
      (bit mask 4 = false → h = 0) ∧ (bit mask 5 = false → mi = 0) ∧ (bit mask 6 = false → s = 0) ∧
      (bit mask 7 = false → ms = 0) ∧ (bit mask 8 = false → tk = 0) ∧ (bit mask 9 = false → n = 0) ∧
      (bit mask 9 = true → rest = 0) ∧ (bit mask 8 = true → t % 100 = 0 → rest = 0) := by
  refine ⟨_, _, _, _, _, _, _, rfl, ?_⟩
  have e1 := stepTime_spec (bit mask 4) t NPH (by decide)
  have e2 := stepTime_spec (bit mask 5) (stepTime (bit mask 4) t NPH).2 NPMin (by decide)
  have e3 := stepTime_spec (bit mask 6) (stepTime (bit mask 5) (stepTime (bit mask 4) t NPH).2 NPMin).2 NPS (by decide)
  have e4 := stepTime_spec (bit mask 7)
    (stepTime (bit mask 6) (stepTime (bit mask 5) (stepTime (bit mask 4) t NPH).2 NPMin).2 NPS).2 NPMs (by decide)
  have e5 := stepTime_spec (bit mask 8) (stepTime (bit mask 7)
    (stepTime (bit mask 6) (stepTime (bit mask 5) (stepTime (bit mask 4) t NPH).2 NPMin).2 NPS).2 NPMs).2 NPT (by decide)
  have e6 := stepTime_spec (bit mask 9) (stepTime (bit mask 8) (stepTime (bit mask 7)
    (stepTime (bit mask 6) (stepTime (bit mask 5) (stepTime (bit mask 4) t NPH).2 NPMin).2 NPS).2 NPMs).2 NPT).2 1 (by decide)
  generalize stepTime (bit mask 4) t NPH = r1 at *
  generalize stepTime (bit mask 5) r1.2 NPMin = r2 at *
  generalize stepTime (bit mask 6) r2.2 NPS = r3 at *
  generalize stepTime (bit mask 7) r3.2 NPMs = r4 at *
  generalize stepTime (bit mask 8) r4.2 NPT = r5 at *
  generalize stepTime (bit mask 9) r5.2 1 = r6 at *
  obtain ⟨a1, b1, c1, d1, f1⟩ := e1
  obtain ⟨a2, b2, c2, d2, f2⟩ := e2
  obtain ⟨a3, b3, c3, d3, f3⟩ := e3
  obtain ⟨a4, b4, c4, d4, f4⟩ := e4
  obtain ⟨a5, b5, c5, d5, f5⟩ := e5
  obtain ⟨a6, b6, c6, d6, f6⟩ := e6
  unfold_consts
  refine ⟨by omega, ?_, ?_, ?_, ?_, ?_, ?_, ?_, ?_, ?_, ?_⟩
  · intro h; omega
  · intro h; omega
  · intro h; exact (f1 h).1
  · intro h; exact (f2 h).1
  · intro h; exact (f3 h).1
  · intro h; exact (f4 h).1
  · intro h; exact (f5 h).1
  · intro h; exact (f6 h).1
  · intro h; have := d6 h; omega
  · intro h ht
    have := d5 h
    cases h9 : bit mask 9
    · have := f6 h9
      have h100 : r5.2 % 100 = 0 := by omega
      omega
    · have := d6 h9; omega

/-- `Period.normalize` keeps years and months, clears weeks and ticks, preserves the fixed-length total and yields
    the normal form (all of one sign, hours < 24, minutes, seconds < 60, milliseconds < 1000, nanoseconds < 10^6). -/
theorem normalize_preserves_total (p : Period) (hb : -decBound < p.total ∧ p.total < decBound) :
    ∃ q, p.normalize = .ok q ∧ q.total = p.total ∧ q.years = p.years ∧ q.months = p.months ∧ q.weeks = 0 ∧ q.ticks = 0 ∧
      (0 ≤ p.total → 0 ≤ q.days ∧ 0 ≤ q.hours ∧ q.hours < 24 ∧ 0 ≤ q.minutes ∧ q.minutes < 60 ∧ 0 ≤ q.seconds ∧ q.seconds < 60 ∧
        0 ≤ q.milliseconds ∧ q.milliseconds < 1000 ∧ 0 ≤ q.nanoseconds ∧ q.nanoseconds < 1000000) ∧
      (p.total ≤ 0 → q.days ≤ 0 ∧ q.hours ≤ 0 ∧ -24 < q.hours ∧ q.minutes ≤ 0 ∧ -60 < q.minutes ∧ q.seconds ≤ 0 ∧ -60 < q.seconds ∧
        q.milliseconds ≤ 0 ∧ -1000 < q.milliseconds ∧ q.nanoseconds ≤ 0 ∧ -1000000 < q.nanoseconds) := by
  unfold Period.normalize
  generalize p.total = t at *
  dsimp only
  rw [pyTdiv_ok t NPD (by decide) hb.1 hb.2 (by decide) (by decide),
      pyTdiv_ok t NPH (by decide) hb.1 hb.2 (by decide) (by decide),
      pyTdiv_ok t NPMin (by decide) hb.1 hb.2 (by decide) (by decide),
      pyTdiv_ok t NPS (by decide) hb.1 hb.2 (by decide) (by decide),
      pyTdiv_ok t NPMs (by decide) hb.1 hb.2 (by decide) (by decide)]
  unfold_consts
  by_cases h0 : 0 ≤ t
  · have hq : ∀ k : Int, 0 < k → 0 ≤ t / k := fun k hk => Int.ediv_nonneg h0 (Int.le_of_lt hk)
    simp only [tdiv_nonneg_eq t _ h0]
    rw [csharpMod_nonneg _ 24 (hq _ (by decide)) (by decide), csharpMod_nonneg _ 60 (hq _ (by decide)) (by decide),
        csharpMod_nonneg _ 60 (hq _ (by decide)) (by decide), csharpMod_nonneg _ 1000 (hq _ (by decide)) (by decide),
        csharpMod_nonneg t 1000000 h0 (by decide)]
    refine ⟨_, rfl, ?_, rfl, rfl, rfl, rfl, ?_, ?_⟩
    · simp only [Period.total]; unfold_consts; have := normal_sum t; omega
    · intro _; dsimp only; omega
    · intro h1; have : t = 0 := by omega
      subst this; dsimp only; omega
  · obtain ⟨s, rfl⟩ : ∃ s, t = -s := ⟨-t, by omega⟩
    have hs : 0 ≤ s := by omega
    have hq : ∀ k : Int, 0 < k → 0 ≤ s / k := fun k hk => Int.ediv_nonneg hs (Int.le_of_lt hk)
    simp only [tdiv_neg_eq s _ hs]
    rw [csharpMod_neg _ 24 (hq _ (by decide)) (by decide), csharpMod_neg _ 60 (hq _ (by decide)) (by decide),
        csharpMod_neg _ 60 (hq _ (by decide)) (by decide), csharpMod_neg _ 1000 (hq _ (by decide)) (by decide),
        csharpMod_neg s 1000000 hs (by decide)]
    refine ⟨_, rfl, ?_, rfl, rfl, rfl, rfl, ?_, ?_⟩
    · simp only [Period.total]; unfold_consts; have := normal_sum s; omega
    · intro h1; omega
    · intro _; dsimp only; omega

/-- `Period.to_duration` succeeds exactly for periods without months and years whose total fits a Duration, and
    then denotes the fixed-length total (normalised: 0 ≤ nanosecond of day < one day). -/
theorem toDuration_total (p : Period) :
    (p.months = 0 ∧ p.years = 0 ∧ durMinNanos ≤ p.total ∧ p.total ≤ durMaxNanos →
        ∃ d n, p.toDuration = .ok (d, n) ∧ d * NPD + n = p.total ∧ 0 ≤ n ∧ n < NPD ∧ -1073741824 ≤ d ∧ d ≤ 1073741823) ∧
    (¬ (p.months = 0 ∧ p.years = 0 ∧ durMinNanos ≤ p.total ∧ p.total ≤ durMaxNanos) → ∃ e, p.toDuration = .error e) := by
  unfold Period.toDuration checkRange
  generalize p.total = t
  constructor
  · rintro ⟨h1, h2, h3, h4⟩
    rw [if_neg (by omega), if_neg (by omega)]
    refine ⟨_, _, rfl, ?_⟩
    unfold_consts; omega
  · intro h
    by_cases hm : p.months ≠ 0 ∨ p.years ≠ 0
    · rw [if_pos hm]; exact ⟨_, rfl⟩
    · rw [if_neg hm]
      rw [if_pos (by omega)]; exact ⟨_, rfl⟩

/-! ## months and years in the regular family -/

/-- Adding `n ≠ 0` months in a calendar with `M` months in every year lands in the month whose index
    `year·M + month − 1` is exactly `n` larger, keeps the day of month or truncates it to the length of the target
    month, and raises `OverflowError` iff the target year is outside the calendar. -/
theorem addMonths_regular_spec (c : Calc) (M : Int) (hM : M = 12 ∨ M = 13) (y m d n : Int) (hn : n ≠ 0)
    (hb : -decBound < m - 1 + n ∧ m - 1 + n < decBound) :
    ∃ Y Mo, Y * M + (Mo - 1) = y * M + (m - 1) + n ∧ 1 ≤ Mo ∧ Mo ≤ M ∧
      (c.minYear ≤ Y ∧ Y ≤ c.maxYear → addMonthsRegular c M (y, m, d) n = .ok (Y, Mo, min d (c.dim Y Mo))) ∧
      (¬ (c.minYear ≤ Y ∧ Y ≤ c.maxYear) → addMonthsRegular c M (y, m, d) n = .error .overflowError) :=
  addMonthsRegular_spec c M hM y m d n hn hb

/-- `plus_months(0)` is the identity -/
theorem addMonths_regular_zero (c : Calc) (M : Int) (p : Ymd) : addMonthsRegular c M p 0 = .ok p := by
  unfold addMonthsRegular; rw [if_pos rfl]

/-- `_set_year` in the regular family: same month, day kept or truncated to the month's length in the new year;
    the result is a date the calendar accepts whenever the month exists in the new year. -/
theorem setYear_spec (c : Calc) (h : WF c) (y m d Y : Int) (hY : c.minYear ≤ Y ∧ Y ≤ c.maxYear)
    (hm : 1 ≤ m ∧ m ≤ c.months Y) (hd : 1 ≤ d) :
    setYearRegular c (y, m, d) Y = (Y, m, min d (c.dim Y m)) ∧
    validate c Y m (min d (c.dim Y m)) = .ok () ∧
    (d ≤ c.dim Y m → setYearRegular c (y, m, d) Y = (Y, m, d)) := by
  have hp := h.pack_day Y m hY.1 hY.2 hm.1 hm.2
  refine ⟨rfl, validate_ok h hY.1 hY.2 hm.1 hm.2 (by omega) (by omega), ?_⟩
  intro hd2
  unfold setYearRegular
  dsimp only
  rw [Int.min_eq_left hd2]

/-- `_YearsPeriodField.add`: raises `ValueError` iff the target year is outside the calendar, otherwise sets the year -/
theorem addYears_spec (k : Cal) (p : Ymd) (n : Int) (hn : n ≠ 0) :
    (k.c.minYear ≤ p.1 + n ∧ p.1 + n ≤ k.c.maxYear → addYears k p n = setYear k p (p.1 + n)) ∧
    (¬ (k.c.minYear ≤ p.1 + n ∧ p.1 + n ≤ k.c.maxYear) → addYears k p n = .error .valueError) := by
  unfold addYears checkRange
  rw [if_neg hn]
  constructor
  · intro h; rw [if_neg (by omega)]
  · intro h; rw [if_pos (by omega)]

/-! ## days and weeks -/

/-- `plus_days(n)`: inside the calendar the result is the valid date whose day number is exactly `n` larger — the same
    date the day-number constructor yields —, and the operation raises iff the target day leaves the calendar.
    Holds on all three paths of `_FixedLengthDatePeriodField.add` (same month, adjacent year, day number). -/
theorem plusDays_exact (c : Calc) (h : WF c) (hl : YearLen c) (p : Ymd) (hv : Valid c p) (n : Int) :
    (loDay c ≤ dayNo c p + n ∧ dayNo c p + n ≤ hiDay c →
      ∃ q, addFixed c 1 p n = .ok q ∧ Valid c q ∧ dayNo c q = dayNo c p + n ∧ fromDays c (dayNo c p + n) = .ok q) ∧
    (¬ (loDay c ≤ dayNo c p + n ∧ dayNo c p + n ≤ hiDay c) → ∃ e, addFixed c 1 p n = .error e) := by
  have := addFixed_exact h hl 1 p hv n
  rw [Int.mul_one] at this
  exact this

/-- `plus_weeks(n)` moves exactly `7·n` days, or raises iff the target day leaves the calendar -/
theorem plusWeeks_exact (c : Calc) (h : WF c) (hl : YearLen c) (p : Ymd) (hv : Valid c p) (n : Int) :
    (loDay c ≤ dayNo c p + n * 7 ∧ dayNo c p + n * 7 ≤ hiDay c →
      ∃ q, addFixed c 7 p n = .ok q ∧ Valid c q ∧ dayNo c q = dayNo c p + n * 7 ∧ fromDays c (dayNo c p + n * 7) = .ok q) ∧
    (¬ (loDay c ≤ dayNo c p + n * 7 ∧ dayNo c p + n * 7 ≤ hiDay c) → ∃ e, addFixed c 7 p n = .error e) :=
  addFixed_exact h hl 7 p hv n

/-- below 300 days the fast paths and the day-number path agree: the same date inside the calendar, an error on both
    outside it (`OverflowError` on the fast path, `ValueError` from the day-number constructor) -/
theorem fastPath_eq_slowPath (c : Calc) (h : WF c) (hl : YearLen c) (p : Ymd) (hv : Valid c p) (k : Int)
    (hk : -300 < k ∧ k < 300) :
    (loDay c ≤ dayNo c p + k ∧ dayNo c p + k ≤ hiDay c → fastPath c p k = slowPath c p k) ∧
    (¬ (loDay c ≤ dayNo c p + k ∧ dayNo c p + k ≤ hiDay c) →
      (∃ e, fastPath c p k = .error e) ∧ ∃ e, slowPath c p k = .error e) := by
  have hf := fastPath_exact h hl p hv k hk
  have hs := slowPath_exact h p hv k
  constructor
  · intro hr
    obtain ⟨q, q1, _, _, q4⟩ := hf.1 hr
    obtain ⟨q', r1, _, _, r4⟩ := hs.1 hr
    rw [q1, r1]
    rw [q4] at r4; exact r4
  · intro hr; exact ⟨hf.2 hr, hs.2 hr⟩

/-- the hypothesis on year lengths holds for the ISO/Gregorian, Julian and Coptic calendars -/
theorem yearLen_gregorian : YearLen Greg.cal := by
  intro y _ _; show 299 ≤ Greg.len y; unfold Greg.len; split <;> omega
theorem yearLen_julian : YearLen Jul.cal := by
  intro y _ _; show 299 ≤ Jul.len y; unfold Jul.len; split <;> omega
theorem yearLen_coptic : YearLen Copt.cal := by
  intro y _ _; show 299 ≤ Copt.len y; unfold Copt.len; split <;> omega

/-! ## single units are maximal -/

/-- days and weeks: `units_between` is the largest count (in the direction of travel) whose multiple of the unit does
    not pass the end: one more unit overshoots. -/
theorem unitsBetween_maximal (c : Calc) (h : WF c) (u : Int) (hu : u = 1 ∨ u = 7) (s e : Ymd) (hs : Valid c s)
    (he : Valid c e) :
    ∃ n, fixedBetween c u s e = .ok n ∧
      (dayNo c s ≤ dayNo c e → 0 ≤ n ∧ dayNo c s + n * u ≤ dayNo c e ∧ dayNo c e < dayNo c s + (n + 1) * u) ∧
      (dayNo c e ≤ dayNo c s → n ≤ 0 ∧ dayNo c e ≤ dayNo c s + n * u ∧ dayNo c s + (n - 1) * u < dayNo c e) := by
  refine ⟨_, fixedBetween_valid h u s e hs he, ?_⟩
  rcases hu with rfl | rfl <;>
  · simp (disch := decide) only [tdiv_pos]
    constructor <;> intro hle <;> split <;> omega

/-- years and months in the regular family (and any unit counted on a coarse key `K`): the count returned by
    `units_between` can be added, stays on the near side of the end, and one more unit lands strictly beyond it. -/
theorem unitsBetween_maximal_coarse (c : Calc) (h : WF c) (f : Field) (K : Ymd → Int) (u : CoarseUnit c f K)
    (s e : Ymd) (hs : Valid c s) (he : Valid c e) :
    ∃ n r, f.between s e = .ok n ∧ f.add s n = .ok r ∧
      (dayNo c s ≤ dayNo c e → dayNo c r ≤ dayNo c e ∧ ∀ r', f.add s (n + 1) = .ok r' → dayNo c e < dayNo c r') ∧
      (dayNo c e ≤ dayNo c s → dayNo c e ≤ dayNo c r ∧ ∀ r', f.add s (n - 1) = .ok r' → dayNo c r' < dayNo c e) := by
  have hK := u.key_mono
  have hzero := u.add_zero
  have hinv := u.add_inv
  obtain ⟨simple, a1, v1, k1⟩ := u.add_ok s e e (K e - K s) hs he he (by omega) (by omega)
  have hb := u.between_eq s e simple hs he a1
  have cs := cmp_sign h s e hs he
  have cq := cmp_sign h simple e v1 he
  obtain ⟨n, r, b1, b2, b3, b4, b5⟩ := (u.toLaw h).law s e hs he
  have hn : n = correctByOne c s e simple (K e - K s) := by rw [hb] at b1; exact (Except.ok.inj b1).symm
  refine ⟨n, r, b1, b2, ?_, ?_⟩
  · intro hle
    refine ⟨(b4 hle).2.2, ?_⟩
    intro r' hr'
    obtain ⟨vr, kr⟩ := hinv s (n + 1) r' hs hr'
    unfold correctByOne at hn
    rw [if_pos (by have := cs.1; have := cs.2.1; have := cs.2.2; omega)] at hn
    by_cases hq : cmpYmd c simple e ≤ 0
    · rw [if_pos hq] at hn
      exact hK e r' he vr (by omega)
    · rw [if_neg hq] at hn
      have e1 : n + 1 = K e - K s := by omega
      rw [e1, a1] at hr'
      cases hr'
      have := cq.2.2; omega
  · intro hle
    refine ⟨(b5 hle).2.1, ?_⟩
    intro r' hr'
    obtain ⟨vr, kr⟩ := hinv s (n - 1) r' hs hr'
    unfold correctByOne at hn
    by_cases heq : dayNo c s = dayNo c e
    · -- equal operands: n = 0 and one unit back is before the end by the key
      rw [if_pos (by have := cs.2.1; omega)] at hn
      have e3 := valid_inj h s e hs he heq
      subst e3
      have h0 : K s - K s = 0 := by omega
      rw [h0, hzero s] at a1; cases a1
      rw [if_pos (by rw [cmp_self]; omega)] at hn
      exact hK r' s vr hs (by omega)
    · rw [if_neg (by have := cs.2.2; omega)] at hn
      by_cases hq : cmpYmd c simple e ≥ 0
      · rw [if_pos hq] at hn
        exact hK r' e vr he (by omega)
      · rw [if_neg hq] at hn
        have e1 : n - 1 = K e - K s := by omega
        rw [e1, a1] at hr'
        cases hr'
        have := cq.1; omega

/-- years in the regular family are maximal -/
theorem yearsBetween_maximal (k : Cal) (M : Int) (hk : RegularCal k M) (s e : Ymd) (hs : Valid k.c s) (he : Valid k.c e) :
    ∃ n r, yearsBetween k s e = .ok n ∧ addYears k s n = .ok r ∧
      (dayNo k.c s ≤ dayNo k.c e → dayNo k.c r ≤ dayNo k.c e ∧ ∀ r', addYears k s (n + 1) = .ok r' → dayNo k.c e < dayNo k.c r') ∧
      (dayNo k.c e ≤ dayNo k.c s → dayNo k.c e ≤ dayNo k.c r ∧ ∀ r', addYears k s (n - 1) = .ok r' → dayNo k.c r' < dayNo k.c e) :=
  unitsBetween_maximal_coarse k.c hk.wf (yearsField k) _ (yearsField_unit k M hk) s e hs he

/-- months in the regular family are maximal -/
theorem monthsBetween_maximal (k : Cal) (M : Int) (hk : RegularCal k M) (s e : Ymd) (hs : Valid k.c s) (he : Valid k.c e) :
    ∃ n r, monthsBetween k s e = .ok n ∧ addMonths k s n = .ok r ∧
      (dayNo k.c s ≤ dayNo k.c e → dayNo k.c r ≤ dayNo k.c e ∧ ∀ r', addMonths k s (n + 1) = .ok r' → dayNo k.c e < dayNo k.c r') ∧
      (dayNo k.c e ≤ dayNo k.c s → dayNo k.c e ≤ dayNo k.c r ∧ ∀ r', addMonths k s (n - 1) = .ok r' → dayNo k.c r' < dayNo k.c e) :=
  unitsBetween_maximal_coarse k.c hk.wf (monthsField k) _ (monthsField_unit k M hk) s e hs he

/-! ### the hypotheses are satisfiable: ISO/Gregorian, Julian (12 months), Coptic (13 months) -/

theorem regular_gregorian : RegularCal ⟨0, Greg.cal, .regular⟩ 12 := ⟨rfl, greg_wf, Or.inl rfl, fun _ => rfl, rfl⟩
theorem regular_julian : RegularCal ⟨2, Jul.cal, .regular⟩ 12 := ⟨rfl, jul_wf, Or.inl rfl, fun _ => rfl, rfl⟩
theorem regular_coptic : RegularCal ⟨3, Copt.cal, .regular⟩ 13 := ⟨rfl, copt_wf, Or.inr rfl, fun _ => rfl, rfl⟩

example : Cal.ofOrd 0 = some ⟨0, Greg.cal, .regular⟩ := rfl
example : Cal.ofOrd 3 = some ⟨3, Copt.cal, .regular⟩ := rfl
example : Valid Greg.cal (2024, 2, 29) := by unfold Valid; decide
example : Valid Copt.cal (1739, 13, 6) := by unfold Valid; decide

/-! ## `Period.between` on dates (regular family: ISO, Gregorian, Julian, Coptic, Persian, Islamic, Um Al Qura) -/

theorem mask_time_free : ∀ mask : Nat, mask < 16 → mask &&& timeMask = 0 := by decide

/-- The complete statement for `Period.between(LocalDate, LocalDate, units)`: the components come back in the ten
    slots with zeros for every unit not asked for, they can be added to the start one unit after the other (this is
    what `LocalDate + Period` does), every intermediate and the final date are valid, and
    * `between_units_subset`: components of units not requested are 0,
    * `between_one_sign`: all components have the sign of the direction of travel,
    * `between_bounded`: start + period lies between start and end inclusive,
    * `between_hits_end`: with days among the units, start + period = end. -/
theorem betweenDates_spec (k : Cal) (M : Int) (hk : RegularCal k M) (hl : YearLen k.c) (mask : Nat)
    (hmask : 0 < mask ∧ mask < 16) (s e : Ymd) (hs : Valid k.c s) (he : Valid k.c e) :
    ∃ y m w d r, betweenDates k mask s e = .ok [y, m, w, d, 0, 0, 0, 0, 0, 0] ∧
      plusParts (yearsField k) (monthsField k) (weeksField k) (daysField k) s y m w d = .ok r ∧ Valid k.c r ∧
      (bit mask 0 = false → y = 0) ∧ (bit mask 1 = false → m = 0) ∧ (bit mask 2 = false → w = 0) ∧
      (bit mask 3 = false → d = 0) ∧
      (dayNo k.c s ≤ dayNo k.c e → 0 ≤ y ∧ 0 ≤ m ∧ 0 ≤ w ∧ 0 ≤ d ∧ dayNo k.c s ≤ dayNo k.c r ∧ dayNo k.c r ≤ dayNo k.c e) ∧
      (dayNo k.c e ≤ dayNo k.c s → y ≤ 0 ∧ m ≤ 0 ∧ w ≤ 0 ∧ d ≤ 0 ∧ dayNo k.c e ≤ dayNo k.c r ∧ dayNo k.c r ≤ dayNo k.c s) ∧
      (bit mask 3 = true → r = e) := by
  have h := hk.wf
  have ly := yearsField_law k M hk
  have lm := monthsField_law k M hk
  have lw : FieldLaw k.c (weeksField k) := fixedField_law h hl 7 (Or.inr rfl)
  have ld : FieldLaw k.c (daysField k) := fixedField_law h hl 1 (Or.inl rfl)
  have lx : FieldExact k.c (daysField k) := daysField_exact h hl
  obtain ⟨p, p1, p2, p3, z0, z1, z2, z3, pf, pb⟩ :=
    dateComponents_spec (yearsField k) (monthsField k) (weeksField k) (daysField k) ly lm lw ld mask s e hs he
  have hend : bit mask 3 = true → p.rest = e := fun hb =>
    dateComponents_hits_end (yearsField k) (monthsField k) (weeksField k) (daysField k) ly lm lw ld lx mask hb s e hs he p p1
  refine ⟨p.years, p.months, p.weeks, p.days, p.rest, ?_, p2, p3, z0, z1, z2, z3, pf, pb, hend⟩
  -- the shortcuts of `between` return the same components
  have hcu : checkUnits mask timeMask = .ok () := by
    unfold checkUnits
    rw [if_neg (by rw [mask_time_free mask hmask.2]; omega)]
  unfold betweenDates
  rw [hcu]
  dsimp only
  -- what the decomposition does on each unit
  obtain ⟨n1, r1, a1, b1, v1, c1, t1, _, _⟩ := stepField_spec (yearsField k) ly (bit mask 0) s e hs he
  obtain ⟨n2, r2, a2, b2, v2, c2, t2, _, _⟩ := stepField_spec (monthsField k) lm (bit mask 1) r1 e v1 he
  obtain ⟨n3, r3, a3, b3, v3, c3, t3, _, _⟩ := stepField_spec (weeksField k) lw (bit mask 2) r2 e v2 he
  obtain ⟨n4, r4, a4, b4, v4, c4, t4, _, _⟩ := stepField_spec (daysField k) ld (bit mask 3) r3 e v3 he
  have hp : p = ⟨r4, n1, n2, n3, n4⟩ := by
    unfold dateComponents at p1
    simp only [a1, a2, a3, a4] at p1
    exact (Except.ok.inj p1).symm
  subst hp
  dsimp only at *
  by_cases heq : s = e
  · rw [if_pos heq]
    subst heq
    have q1 := pf (by omega)
    have q2 := pb (by omega)
    have e1 : n1 = 0 := by omega
    have e2 : n2 = 0 := by omega
    have e3 : n3 = 0 := by omega
    have e4 : n4 = 0 := by omega
    rw [e1, e2, e3, e4]; rfl
  · rw [if_neg heq]
    by_cases m1 : mask = 1
    · rw [if_pos m1]
      subst m1
      have hbt : yearsBetween k s e = .ok n1 := t1 (by decide)
      rw [hbt, c2 (by decide), c3 (by decide), c4 (by decide)]; rfl
    · rw [if_neg m1]
      by_cases m2 : mask = 2
      · rw [if_pos m2]
        subst m2
        have e1 : n1 = 0 := c1 (by decide)
        subst e1
        have hr1 : r1 = s := by
          have := ly.add_zero s; rw [this] at b1; exact (Except.ok.inj b1).symm
        subst hr1
        have hbt : monthsBetween k r1 e = .ok n2 := t2 (by decide)
        rw [hbt, c3 (by decide), c4 (by decide)]; rfl
      · rw [if_neg m2]
        by_cases m4 : mask = 4
        · rw [if_pos m4]
          subst m4
          have e1 : n1 = 0 := c1 (by decide)
          subst e1
          have hr1 : r1 = s := by
            have := ly.add_zero s; rw [this] at b1; exact (Except.ok.inj b1).symm
          subst hr1
          have e2 : n2 = 0 := c2 (by decide)
          subst e2
          have hr2 : r2 = r1 := by
            have := lm.add_zero r1; rw [this] at b2; exact (Except.ok.inj b2).symm
          subst hr2
          have hbt : fixedBetween k.c 7 r2 e = .ok n3 := t3 (by decide)
          rw [hbt, c4 (by decide)]; rfl
        · rw [if_neg m4]
          by_cases m8 : mask = 8
          · rw [if_pos m8]
            subst m8
            have e1 : n1 = 0 := c1 (by decide)
            subst e1
            have hr1 : r1 = s := by
              have := ly.add_zero s; rw [this] at b1; exact (Except.ok.inj b1).symm
            subst hr1
            have e2 : n2 = 0 := c2 (by decide)
            subst e2
            have hr2 : r2 = r1 := by
              have := lm.add_zero r1; rw [this] at b2; exact (Except.ok.inj b2).symm
            subst hr2
            have e3 : n3 = 0 := c3 (by decide)
            subst e3
            have hr3 : r3 = r2 := by
              have := lw.add_zero r2; rw [this] at b3; exact (Except.ok.inj b3).symm
            subst hr3
            have hbt : fixedBetween k.c 1 r3 e = .ok n4 := t4 (by decide)
            rw [hbt]; rfl
          · rw [if_neg m8]
            unfold dateComponents
            simp only [a1, a2, a3, a4]

/-- components of units not requested are 0 -/
theorem between_units_subset (k : Cal) (M : Int) (hk : RegularCal k M) (hl : YearLen k.c) (mask : Nat)
    (hmask : 0 < mask ∧ mask < 16) (s e : Ymd) (hs : Valid k.c s) (he : Valid k.c e) :
    ∃ y m w d, betweenDates k mask s e = .ok [y, m, w, d, 0, 0, 0, 0, 0, 0] ∧
      (bit mask 0 = false → y = 0) ∧ (bit mask 1 = false → m = 0) ∧ (bit mask 2 = false → w = 0) ∧
      (bit mask 3 = false → d = 0) := by
  obtain ⟨y, m, w, d, r, h1, _, _, z0, z1, z2, z3, _⟩ := betweenDates_spec k M hk hl mask hmask s e hs he
  exact ⟨y, m, w, d, h1, z0, z1, z2, z3⟩

/-- all components have the sign of the direction of travel -/
theorem between_one_sign (k : Cal) (M : Int) (hk : RegularCal k M) (hl : YearLen k.c) (mask : Nat)
    (hmask : 0 < mask ∧ mask < 16) (s e : Ymd) (hs : Valid k.c s) (he : Valid k.c e) :
    ∃ y m w d, betweenDates k mask s e = .ok [y, m, w, d, 0, 0, 0, 0, 0, 0] ∧
      (dayNo k.c s ≤ dayNo k.c e → 0 ≤ y ∧ 0 ≤ m ∧ 0 ≤ w ∧ 0 ≤ d) ∧
      (dayNo k.c e ≤ dayNo k.c s → y ≤ 0 ∧ m ≤ 0 ∧ w ≤ 0 ∧ d ≤ 0) := by
  obtain ⟨y, m, w, d, r, h1, _, _, _, _, _, _, pf, pb, _⟩ := betweenDates_spec k M hk hl mask hmask s e hs he
  exact ⟨y, m, w, d, h1, fun hle => by have := pf hle; omega, fun hle => by have := pb hle; omega⟩

/-- start + between(start, end, units) lies between start and end, inclusive -/
theorem between_bounded (k : Cal) (M : Int) (hk : RegularCal k M) (hl : YearLen k.c) (mask : Nat)
    (hmask : 0 < mask ∧ mask < 16) (s e : Ymd) (hs : Valid k.c s) (he : Valid k.c e) :
    ∃ y m w d r, betweenDates k mask s e = .ok [y, m, w, d, 0, 0, 0, 0, 0, 0] ∧
      plusParts (yearsField k) (monthsField k) (weeksField k) (daysField k) s y m w d = .ok r ∧ Valid k.c r ∧
      (dayNo k.c s ≤ dayNo k.c e → dayNo k.c s ≤ dayNo k.c r ∧ dayNo k.c r ≤ dayNo k.c e) ∧
      (dayNo k.c e ≤ dayNo k.c s → dayNo k.c e ≤ dayNo k.c r ∧ dayNo k.c r ≤ dayNo k.c s) := by
  obtain ⟨y, m, w, d, r, h1, h2, h3, _, _, _, _, pf, pb, _⟩ := betweenDates_spec k M hk hl mask hmask s e hs he
  exact ⟨y, m, w, d, r, h1, h2, h3, fun hle => by have := pf hle; omega, fun hle => by have := pb hle; omega⟩

/-- with days among the units, start + between(start, end, units) = end -/
theorem between_hits_end (k : Cal) (M : Int) (hk : RegularCal k M) (hl : YearLen k.c) (mask : Nat)
    (hmask : 0 < mask ∧ mask < 16) (hdays : bit mask 3 = true) (s e : Ymd) (hs : Valid k.c s) (he : Valid k.c e) :
    ∃ y m w d, betweenDates k mask s e = .ok [y, m, w, d, 0, 0, 0, 0, 0, 0] ∧
      plusParts (yearsField k) (monthsField k) (weeksField k) (daysField k) s y m w d = .ok e := by
  obtain ⟨y, m, w, d, r, h1, h2, _, _, _, _, _, _, _, hend⟩ := betweenDates_spec k M hk hl mask hmask s e hs he
  rw [hend hdays] at h2
  exact ⟨y, m, w, d, h1, h2⟩

/-! ## months in the Hebrew and Badi calendars -/

/-- `_HebrewYearMonthDayCalculator._add_months`, full statement (no bound on `n` beyond the exact range of the
    Decimal-based division): with `hebBefore y` the number of months before year `y` (235 per 19 years) the position
    `hebBefore year + civil month − 1` moves by exactly `n`; the day is kept or truncated to the month's length; the
    result is expressed in the calendar's own month numbering (`fromCivil`, which `toCivil` inverts); `OverflowError`
    iff the target year is outside the calendar. -/
theorem addMonths_hebrew_spec (scr : Bool) (c : Calc) (y m d n : Int) (hn : n ≠ 0)
    (hb : -decBound < n ∧ n < decBound)
    (hc : 1 ≤ Hebrew.toCivil scr y m ∧ Hebrew.toCivil scr y m ≤ Hebrew.monthsIn y) :
    ∃ Y C, 1 ≤ C ∧ C ≤ Hebrew.monthsIn Y ∧
      hebBefore Y + C - 1 = hebBefore y + Hebrew.toCivil scr y m - 1 + n ∧
      Hebrew.toCivil scr Y (Hebrew.fromCivil scr Y C) = C ∧
      (c.minYear ≤ Y ∧ Y ≤ c.maxYear → Hebrew.addMonths scr c (y, m, d) n =
        .ok (Y, Hebrew.fromCivil scr Y C, min (c.dim Y (Hebrew.fromCivil scr Y C)) d)) ∧
      (¬ (c.minYear ≤ Y ∧ Y ≤ c.maxYear) → Hebrew.addMonths scr c (y, m, d) n = .error .overflowError) :=
  addMonthsHebrew_spec scr c y m d n hn hb hc

/-- `hebBefore` really counts months: it grows by the number of months of each year, by 235 per 19 years, and the leap
    pattern repeats with the cycle -/
theorem hebrew_month_count (y q : Int) :
    hebBefore (y + 1) = hebBefore y + Hebrew.monthsIn y ∧ hebBefore (y + q * 19) = hebBefore y + 235 * q ∧
    Hebrew.monthsIn (y + q * 19) = Hebrew.monthsIn y ∧ hebBefore 1 = 0 :=
  ⟨heb_recur y, (heb_cycle y q).1, (heb_cycle y q).2, by decide⟩

/-- Badi `_add_months` (as repaired): the zero-based month index `year·19 + month − 1` moves by exactly `n` — counted
    from month 19 when going backwards out of Ayyam-i-Ha —, a day in Ayyam-i-Ha keeps its number within the intercalary
    days, and `OverflowError` iff the target year is outside the calendar. The result month is never 0. -/
theorem addMonths_badi_spec (c : Calc) (y m d n : Int) (hn : n ≠ 0) (m0 : Int)
    (hm0 : m0 = if BadiArith.inAyyamiHa (y, m, d) = true ∧ n < 0 then m + 1 else m) :
    ∃ Y Mo, Y * 19 + (Mo - 1) = y * 19 + (m0 - 1) + n ∧ 1 ≤ Mo ∧ Mo ≤ 19 ∧
      (c.minYear ≤ Y ∧ Y ≤ c.maxYear →
        BadiArith.addMonths c (y, m, d) n = .ok (Y, Mo, if BadiArith.inAyyamiHa (y, m, d) = true then d - 19 else d)) ∧
      (¬ (c.minYear ≤ Y ∧ Y ≤ c.maxYear) → BadiArith.addMonths c (y, m, d) n = .error .overflowError) := by
  refine ⟨y + (m0 - 1 + n) / 19, (m0 - 1 + n) % 19 + 1, by omega, by omega, by omega, ?_, ?_⟩
  all_goals
    intro hY
    unfold BadiArith.addMonths rangeOrOverflow
    rw [if_neg hn]
    dsimp only
    rw [← hm0]
    simp (disch := decide) only [fdiv_pos, fmod_pos]
  · rw [if_neg (by omega)]
  · rw [if_pos (by omega)]

example : BadiArith.addMonths Badi.cal (10, 5, 1) 33 = .ok (11, 19, 1) := by decide

/-! ## `Period.between` on times of day -/

/-- `Period.between(LocalTime, LocalTime, units)`: date slots are zero, the time components add up to `end − start`
    minus a remainder of the same sign that vanishes when nanoseconds (or ticks, for a whole number of ticks) are
    requested; so `start + period` lies between start and end and hits the end in those cases. -/
theorem betweenTimes_spec (mask : Nat) (hm : mask &&& dateMask = 0 ∧ 0 < mask ∧ mask < 1024) (s e : Int) :
    ∃ h mi sec ms tk n rest, betweenTimes mask s e = .ok [0, 0, 0, 0, h, mi, sec, ms, tk, n] ∧
      s + (h * NPH + mi * NPMin + sec * NPS + ms * NPMs + tk * NPT + n) + rest = e ∧
      (s ≤ e → 0 ≤ h ∧ 0 ≤ mi ∧ 0 ≤ sec ∧ 0 ≤ ms ∧ 0 ≤ tk ∧ 0 ≤ n ∧ 0 ≤ rest) ∧
      (e ≤ s → h ≤ 0 ∧ mi ≤ 0 ∧ sec ≤ 0 ∧ ms ≤ 0 ∧ tk ≤ 0 ∧ n ≤ 0 ∧ rest ≤ 0) ∧
      (bit mask 9 = true → rest = 0) ∧ (bit mask 8 = true → (e - s) % 100 = 0 → rest = 0) := by
  obtain ⟨h, mi, sec, ms, tk, n, rest, h1, h2, h3, h4, _, _, _, _, _, _, h5, h6⟩ := timeComponents_exact mask (e - s)
  refine ⟨h, mi, sec, ms, tk, n, rest, ?_, by omega, fun hle => h3 (by omega), fun hle => h4 (by omega), h5, h6⟩
  unfold betweenTimes checkUnits
  rw [if_neg (by omega)]
  dsimp only
  rw [h1]; rfl

end Pyoda.C09
