/-
  C09 — date arithmetic and `Period.between` obey their stated laws in every calendar.
  Property theorems; helper lemmas in `C09Lemmas.lean`.  The calendar enters as an arbitrary `Calc` with C01's
  well-formedness predicate `WF` (proved per calendar in `C01*.lean`).
-/
import PyodaModel.DateArith
import PyodaProofs.C09Lemmas

namespace Pyoda.C09
open Pyoda Pyoda.Calendar Pyoda.DateArith Pyoda.C01

local macro "unfold_consts" : tactic =>
  `(tactic| simp only [NPD, NPH, NPMin, NPS, NPMs, NPUs, NPT, decBound, durMinNanos, durMaxNanos] at *)

/-! ## time components, normalisation, duration -/

/-- `__time_components_between`: the components and the remainder add up to the total, components of units not
    asked for are zero, everything has the sign of the total, and nothing is left when nanoseconds are asked for
    (or ticks, when the total is a whole number of ticks). -/
theorem timeComponents_exact (mask : Nat) (t : Int) :
    ∃ h mi s ms tk n rest, timeComponents mask t = ([h, mi, s, ms, tk, n], rest) ∧
      h * NPH + mi * NPMin + s * NPS + ms * NPMs + tk * NPT + n + rest = t ∧
      (0 ≤ t → 0 ≤ h ∧ 0 ≤ mi ∧ 0 ≤ s ∧ 0 ≤ ms ∧ 0 ≤ tk ∧ 0 ≤ n ∧ 0 ≤ rest) ∧
      (t ≤ 0 → h ≤ 0 ∧ mi ≤ 0 ∧ s ≤ 0 ∧ ms ≤ 0 ∧ tk ≤ 0 ∧ n ≤ 0 ∧ rest ≤ 0) ∧
      (bit mask 4 = false → h = 0) ∧ (bit mask 5 = false → mi = 0) ∧ (bit mask 6 = false → s = 0) ∧
      (bit mask 7 = false → ms = 0) ∧ (bit mask 8 = false → tk = 0) ∧ (bit mask 9 = false → n = 0) ∧
      (bit mask 9 = true → rest = 0) ∧ (bit mask 8 = true → t % 100 = 0 → rest = 0) := by
  refine ⟨_, _, _, _, _, _, _, rfl, ?_⟩
  have e1 := stepTime_spec (bit mask 4) t NPH (by decide)
  have e2 := stepTime_spec (bit mask 5) (stepTime (bit mask 4) t NPH).2 NPMin (by decide)
  have e3 := stepTime_spec (bit mask 6) (stepTime (bit mask 5) (stepTime (bit mask 4) t NPH).2 NPMin).2 NPS (by decide)
  have e4 := stepTime_spec (bit mask 7)
    (stepTime (bit mask 6) (stepTime (bit mask 5) (stepTime (bit mask 4) t NPH).2 NPMin).2 NPS).2 NPMs (by decide)
  have e5 := stepTime_spec (bit mask 8) (stepTime (bit mask 7)
    (stepTime (bit mask 6) (stepTime (bit mask 5) (stepTime (bit mask 4) t NPH).2 NPMin).2 NPS).2 NPMs).2 NPT (by decide)
  have e6 := stepTime_spec (bit mask 9) (stepTime (bit mask 8) (stepTime (bit mask 7)
    (stepTime (bit mask 6) (stepTime (bit mask 5) (stepTime (bit mask 4) t NPH).2 NPMin).2 NPS).2 NPMs).2 NPT).2 1 (by decide)
  generalize stepTime (bit mask 4) t NPH = r1 at *
  generalize stepTime (bit mask 5) r1.2 NPMin = r2 at *
  generalize stepTime (bit mask 6) r2.2 NPS = r3 at *
  generalize stepTime (bit mask 7) r3.2 NPMs = r4 at *
  generalize stepTime (bit mask 8) r4.2 NPT = r5 at *
  generalize stepTime (bit mask 9) r5.2 1 = r6 at *
  obtain ⟨a1, b1, c1, d1, f1⟩ := e1
  obtain ⟨a2, b2, c2, d2, f2⟩ := e2
  obtain ⟨a3, b3, c3, d3, f3⟩ := e3
  obtain ⟨a4, b4, c4, d4, f4⟩ := e4
  obtain ⟨a5, b5, c5, d5, f5⟩ := e5
  obtain ⟨a6, b6, c6, d6, f6⟩ := e6
  unfold_consts
  refine ⟨by omega, ?_, ?_, ?_, ?_, ?_, ?_, ?_, ?_, ?_, ?_⟩
  · intro h; omega
  · intro h; omega
  · intro h; exact (f1 h).1
  · intro h; exact (f2 h).1
  · intro h; exact (f3 h).1
  · intro h; exact (f4 h).1
  · intro h; exact (f5 h).1
  · intro h; exact (f6 h).1
  · intro h; have := d6 h; omega
  · intro h ht
    have := d5 h
    cases h9 : bit mask 9
    · have := f6 h9
      have h100 : r5.2 % 100 = 0 := by omega
      omega
    · have := d6 h9; omega

/-- `Period.normalize` keeps years and months, clears weeks and ticks, preserves the fixed-length total and yields
    the normal form (all of one sign, hours < 24, minutes, seconds < 60, milliseconds < 1000, nanoseconds < 10^6). -/
theorem normalize_preserves_total (p : Period) (hb : -decBound < p.total ∧ p.total < decBound) :
    ∃ q, p.normalize = .ok q ∧ q.total = p.total ∧ q.years = p.years ∧ q.months = p.months ∧ q.weeks = 0 ∧ q.ticks = 0 ∧
      (0 ≤ p.total → 0 ≤ q.days ∧ 0 ≤ q.hours ∧ q.hours < 24 ∧ 0 ≤ q.minutes ∧ q.minutes < 60 ∧ 0 ≤ q.seconds ∧ q.seconds < 60 ∧
        0 ≤ q.milliseconds ∧ q.milliseconds < 1000 ∧ 0 ≤ q.nanoseconds ∧ q.nanoseconds < 1000000) ∧
      (p.total ≤ 0 → q.days ≤ 0 ∧ q.hours ≤ 0 ∧ -24 < q.hours ∧ q.minutes ≤ 0 ∧ -60 < q.minutes ∧ q.seconds ≤ 0 ∧ -60 < q.seconds ∧
        q.milliseconds ≤ 0 ∧ -1000 < q.milliseconds ∧ q.nanoseconds ≤ 0 ∧ -1000000 < q.nanoseconds) := by
  unfold Period.normalize
  generalize p.total = t at *
  dsimp only
  rw [pyTdiv_ok t NPD (by decide) hb.1 hb.2 (by decide) (by decide),
      pyTdiv_ok t NPH (by decide) hb.1 hb.2 (by decide) (by decide),
      pyTdiv_ok t NPMin (by decide) hb.1 hb.2 (by decide) (by decide),
      pyTdiv_ok t NPS (by decide) hb.1 hb.2 (by decide) (by decide),
      pyTdiv_ok t NPMs (by decide) hb.1 hb.2 (by decide) (by decide)]
  unfold_consts
  by_cases h0 : 0 ≤ t
  · have hq : ∀ k : Int, 0 < k → 0 ≤ t / k := fun k hk => Int.ediv_nonneg h0 (Int.le_of_lt hk)
    simp only [tdiv_nonneg_eq t _ h0]
    rw [csharpMod_nonneg _ 24 (hq _ (by decide)) (by decide), csharpMod_nonneg _ 60 (hq _ (by decide)) (by decide),
        csharpMod_nonneg _ 60 (hq _ (by decide)) (by decide), csharpMod_nonneg _ 1000 (hq _ (by decide)) (by decide),
        csharpMod_nonneg t 1000000 h0 (by decide)]
    refine ⟨_, rfl, ?_, rfl, rfl, rfl, rfl, ?_, ?_⟩
    · simp only [Period.total]; unfold_consts; have := normal_sum t; omega
    · intro _; dsimp only; omega
    · intro h1; have : t = 0 := by omega
      subst this; dsimp only; omega
  · obtain ⟨s, rfl⟩ : ∃ s, t = -s := ⟨-t, by omega⟩
    have hs : 0 ≤ s := by omega
    have hq : ∀ k : Int, 0 < k → 0 ≤ s / k := fun k hk => Int.ediv_nonneg hs (Int.le_of_lt hk)
    simp only [tdiv_neg_eq s _ hs]
    rw [csharpMod_neg _ 24 (hq _ (by decide)) (by decide), csharpMod_neg _ 60 (hq _ (by decide)) (by decide),
        csharpMod_neg _ 60 (hq _ (by decide)) (by decide), csharpMod_neg _ 1000 (hq _ (by decide)) (by decide),
        csharpMod_neg s 1000000 hs (by decide)]
    refine ⟨_, rfl, ?_, rfl, rfl, rfl, rfl, ?_, ?_⟩
    · simp only [Period.total]; unfold_consts; have := normal_sum s; omega
    · intro h1; omega
    · intro _; dsimp only; omega

/-- `Period.to_duration` succeeds exactly for periods without months and years whose total fits a Duration, and
    then denotes the fixed-length total (normalised: 0 ≤ nanosecond of day < one day). -/
theorem toDuration_total (p : Period) :
    (p.months = 0 ∧ p.years = 0 ∧ durMinNanos ≤ p.total ∧ p.total ≤ durMaxNanos →
        ∃ d n, p.toDuration = .ok (d, n) ∧ d * NPD + n = p.total ∧ 0 ≤ n ∧ n < NPD ∧ -1073741824 ≤ d ∧ d ≤ 1073741823) ∧
    (¬ (p.months = 0 ∧ p.years = 0 ∧ durMinNanos ≤ p.total ∧ p.total ≤ durMaxNanos) → ∃ e, p.toDuration = .error e) := by
  unfold Period.toDuration checkRange
  generalize p.total = t
  constructor
  · rintro ⟨h1, h2, h3, h4⟩
    rw [if_neg (by omega), if_neg (by omega)]
    refine ⟨_, _, rfl, ?_⟩
    unfold_consts; omega
  · intro h
    by_cases hm : p.months ≠ 0 ∨ p.years ≠ 0
    · rw [if_pos hm]; exact ⟨_, rfl⟩
    · rw [if_neg hm]
      rw [if_pos (by omega)]; exact ⟨_, rfl⟩

/-! ## months and years in the regular family -/

/-- the year and month `_RegularYearMonthDayCalculator._add_months` computes are floor quotient and remainder of the
    zero-based month index `m - 1 + n` by the number of months per year -/
theorem regularTarget_eq (M y m n : Int) (hM : M = 12 ∨ M = 13) :
    regularTarget M y m n (Int.tdiv (m - 1 + n) M) = (y + (m - 1 + n) / M, (m - 1 + n) % M + 1) := by
  rcases hM with rfl | rfl <;>
  · unfold regularTarget
    simp (disch := decide) only [tdiv_pos, fmod_pos]
    by_cases h : m - 1 + n ≥ 0
    · simp only [h, if_true]
    · simp only [h, if_false]
      repeat' split
      all_goals (refine Prod.ext ?_ ?_ <;> dsimp only <;> omega)

/-- Adding `n ≠ 0` months in a calendar with `M` months in every year lands in the month whose index
    `year·M + month − 1` is exactly `n` larger, keeps the day of month or truncates it to the length of the target
    month, and raises `OverflowError` iff the target year is outside the calendar. -/
theorem addMonths_regular_spec (c : Calc) (M : Int) (hM : M = 12 ∨ M = 13) (y m d n : Int) (hn : n ≠ 0)
    (hb : -decBound < m - 1 + n ∧ m - 1 + n < decBound) :
    ∃ Y Mo, Y * M + (Mo - 1) = y * M + (m - 1) + n ∧ 1 ≤ Mo ∧ Mo ≤ M ∧
      (c.minYear ≤ Y ∧ Y ≤ c.maxYear → addMonthsRegular c M (y, m, d) n = .ok (Y, Mo, min d (c.dim Y Mo))) ∧
      (¬ (c.minYear ≤ Y ∧ Y ≤ c.maxYear) → addMonthsRegular c M (y, m, d) n = .error .overflowError) := by
  refine ⟨y + (m - 1 + n) / M, (m - 1 + n) % M + 1, ?_, ?_, ?_, ?_, ?_⟩
  · rcases hM with rfl | rfl <;> omega
  · rcases hM with rfl | rfl <;> omega
  · rcases hM with rfl | rfl <;> omega
  all_goals
    intro hr
    unfold addMonthsRegular
    rw [if_neg hn]
    dsimp only
    rw [pyTdiv_ok _ M (by rcases hM with rfl | rfl <;> decide) hb.1 hb.2
      (by rcases hM with rfl | rfl <;> decide) (by rcases hM with rfl | rfl <;> decide)]
    dsimp only
    rw [regularTarget_eq M y m n hM]
    unfold rangeOrOverflow
    dsimp only
  · rw [if_neg (by omega)]
  · rw [if_pos (by omega)]

/-- `plus_months(0)` is the identity -/
theorem addMonths_regular_zero (c : Calc) (M : Int) (p : Ymd) : addMonthsRegular c M p 0 = .ok p := by
  unfold addMonthsRegular; rw [if_pos rfl]

/-- `_set_year` in the regular family: same month, day kept or truncated to the month's length in the new year;
    the result is a date the calendar accepts whenever the month exists in the new year. -/
theorem setYear_spec (c : Calc) (h : WF c) (y m d Y : Int) (hY : c.minYear ≤ Y ∧ Y ≤ c.maxYear)
    (hm : 1 ≤ m ∧ m ≤ c.months Y) (hd : 1 ≤ d) :
    setYearRegular c (y, m, d) Y = (Y, m, min d (c.dim Y m)) ∧
    validate c Y m (min d (c.dim Y m)) = .ok () ∧
    (d ≤ c.dim Y m → setYearRegular c (y, m, d) Y = (Y, m, d)) := by
  have hp := h.pack_day Y m hY.1 hY.2 hm.1 hm.2
  refine ⟨rfl, validate_ok h hY.1 hY.2 hm.1 hm.2 (by omega) (by omega), ?_⟩
  intro hd2
  unfold setYearRegular
  dsimp only
  rw [Int.min_eq_left hd2]

/-- `_YearsPeriodField.add`: raises `ValueError` iff the target year is outside the calendar, otherwise sets the year -/
theorem addYears_spec (k : Cal) (p : Ymd) (n : Int) (hn : n ≠ 0) :
    (k.c.minYear ≤ p.1 + n ∧ p.1 + n ≤ k.c.maxYear → addYears k p n = setYear k p (p.1 + n)) ∧
    (¬ (k.c.minYear ≤ p.1 + n ∧ p.1 + n ≤ k.c.maxYear) → addYears k p n = .error .valueError) := by
  unfold addYears checkRange
  rw [if_neg hn]
  constructor
  · intro h; rw [if_neg (by omega)]
  · intro h; rw [if_pos (by omega)]

end Pyoda.C09
