/-
  C08 (LocalDateTime / Instant patterns with embedded `ld<…>` / `lt<…>` parts) — a success carries a valid value:
  `parseSegmented_valid`: for every segmented pattern that passes the decidable check `segWF`, every valid ISO template
  value and every text, a successful parse yields a valid date and a time inside the day;
  `compileSegmented_segWF` / `compileDateTime_segWF`: every pattern with embedded parts that creation accepts passes
  `segWF` (the driver evaluates it as well: op `pat.wf` = 2);
  `datetime_success_valid_all`, `instant_success_valid_all`: success_value_valid for EVERY accepted LocalDateTime /
  Instant pattern text, embedded parts or not.
-/
import PyodaProofs.C08DateTimeWF
import PyodaProofs.C08StepsWF

namespace Pyoda.C08
open Pyoda Pyoda.Text

/-! ## parse actions leave alone the slots they do not assign -/

theorem set_other (b : Bucket) (s x : Slot) (v : Int) (h : s ≠ x) : (b.set s v) x = b x := by
  unfold Bucket.set; rw [if_neg (Ne.symm h)]

theorem parseStep_frame (cu : Culture) (l : Text) (b b' : Bucket) (r : Text) (s : Step)
    (h : parseStep cu l b s = .ok (some (b', r))) (x : Slot) (hx : stepSets s ≠ some x) : b' x = b x := by
  cases s with
  | lit t =>
    simp only [parseStep] at h
    split at h
    · injection h with h; injection h with h; injection h with h _; rw [← h]
    · cases h
  | semi =>
    simp only [parseStep] at h
    split at h
    · injection h with h; injection h with h; injection h with h _; rw [← h]
    · cases h
  | calendar =>
    simp only [parseStep] at h
    split at h
    · cases h
    · injection h with h; injection h with h; injection h with h _; rw [← h]
      exact set_other b .calendar x _ (by simpa [stepSets] using hx)
  | eraC cal =>
    simp only [parseStep] at h
    split at h
    · injection h with h; injection h with h; injection h with h _; rw [← h]
      exact set_other b .era x _ (by simpa [stepSets] using hx)
    · cases h
  | num g st count maxCount minV maxV =>
    simp only [parseStep] at h
    split at h
    · injection h with h; injection h with h; injection h with h _; rw [← h]
      exact set_other b st x _ (by simpa [stepSets] using hx)
    · cases h
  | frac count scale fixed =>
    simp only [parseStep] at h
    split at h
    · injection h with h; injection h with h; injection h with h _; rw [← h]
      exact set_other b .fraction x _ (by simpa [stepSets] using hx)
    · cases h
  | dotFrac count scale comma =>
    simp only [parseStep] at h
    split at h
    · injection h with h; injection h with h; injection h with h _; rw [← h]
    · split at h
      · injection h with h; injection h with h; injection h with h _; rw [← h]
        exact set_other b .fraction x _ (by simpa [stepSets] using hx)
      · cases h
  | signRequired =>
    simp only [parseStep] at h
    split at h
    · injection h with h; injection h with h; injection h with h _; rw [← h]
      exact set_other b .sign x _ (by simpa [stepSets] using hx)
    · split at h
      · injection h with h; injection h with h; injection h with h _; rw [← h]
        exact set_other b .sign x _ (by simpa [stepSets] using hx)
      · cases h
  | signNegativeOnly =>
    simp only [parseStep] at h
    split at h
    · injection h with h; injection h with h; injection h with h _; rw [← h]
      exact set_other b .sign x _ (by simpa [stepSets] using hx)
    · split at h
      · cases h
      · injection h with h; injection h with h; injection h with h _; rw [← h]
        exact set_other b .sign x _ (by simpa [stepSets] using hx)
  | amPm count =>
    simp only [parseStep] at h
    split at h
    · injection h with h; injection h with h; injection h with h _; rw [← h]
      exact set_other b .amPm x _ (by simpa [stepSets] using hx)
    · cases h
  | monthText count =>
    simp only [parseStep] at h
    split at h
    · injection h with h; injection h with h; injection h with h _; rw [← h]
      exact set_other b .monthText x _ (by simpa [stepSets] using hx)
    · cases h
  | dayText count =>
    simp only [parseStep] at h
    split at h
    · injection h with h; injection h with h; injection h with h _; rw [← h]
      exact set_other b .dayOfWeek x _ (by simpa [stepSets] using hx)
    · cases h
  | era =>
    simp only [parseStep] at h
    split at h
    · injection h with h; injection h with h; injection h with h _; rw [← h]
      exact set_other b .era x _ (by simpa [stepSets] using hx)
    · cases h

theorem parseSteps_frame_all (cu : Culture) (x : Slot) : ∀ (ss : List Step) (l : Text) (b b' : Bucket) (r : Text),
    (∀ s ∈ ss, stepSets s ≠ some x) → parseSteps cu ss l b = .ok (some (b', r)) → b' x = b x := by
  intro ss
  induction ss with
  | nil =>
    intro l b b' r _ h
    simp only [parseSteps] at h; injection h with h; injection h with h; injection h with h _; rw [← h]
  | cons s ss ih =>
    intro l b b' r hs h
    simp only [parseSteps] at h
    cases hp : parseStep cu l b s with
    | error e => rw [hp] at h; cases h
    | ok o =>
      rw [hp] at h
      cases o with
      | none => cases h
      | some q =>
        obtain ⟨b1, l1⟩ := q
        rw [ih l1 b1 b' r (fun t ht => hs t (List.mem_cons_of_mem _ ht)) h]
        exact parseStep_frame cu l b b1 l1 s hp x (hs s (List.mem_cons_self ..))

/-! ## the bucket invariant across segments -/

/-- `DtOK` plus: once an embedded date (time) has been parsed in a pattern whose plain steps do not assign the date
    (time) slots, these slots hold a valid date (an hour below 24) -/
structure SegInv (used : Nat) (fm fd ft sD sT : Bool) (b : Bucket) : Prop where
  ok : DtOK fm fd ft b
  dv : hasAny used F.embeddedDate = true → sD = true → validDate (b .year) (b .monthNum) (b .dayOfMonth)
  tv : hasAny used F.embeddedTime = true → sT = true → b .hours24 ≤ 23

def noDateSetter (s : Step) : Bool :=
  stepSets s ≠ some .year && stepSets s ≠ some .monthNum && stepSets s ≠ some .dayOfMonth

def noTimeSetter (s : Step) : Bool :=
  stepSets s ≠ some .hours24 && stepSets s ≠ some .minutes && stepSets s ≠ some .seconds && stepSets s ≠ some .fraction

theorem timeBucketOK_of_tmpl (t : Int) (h0 : 0 ≤ t) (h1 : t < 86400000000000) : TimeBucketOK (timeBucket0 t) := by
  obtain ⟨_, e2, e3, e4⟩ := time_accessors t h0 h1
  refine ⟨?_, ?_, ?_, ?_, ?_, ?_⟩ <;> simp only [timeBucket0, e2, e3, e4] <;> first | omega | decide

theorem dtOK_of_timeBucketOK (b : Bucket) (h : TimeBucketOK b) : DtOK false false false b ∧ b .hours24 ≤ 23 :=
  ⟨⟨⟨h.h24.1, (by have := h.h24.2; omega)⟩, h.h12, h.mi, h.se, h.fr, h.ap, fun x => (by cases x), fun x => (by cases x),
    fun x => (by cases x)⟩, h.h24.2⟩

theorem parseSegs_inv (tm : Tmpl) (htm : TmplOK tm) (cu : Culture) (hcu : cu.monthHeadsEmpty = true) (used : Nat) :
    ∀ (segs : List Seg) (l : Text) (b b' : Bucket) (r : Text) (fm fd ft sD sT : Bool),
    (plainSteps segs).all dtStepWF = true → segs.all segInnerWF = true →
    (hasAny used F.embeddedDate = true → (plainSteps segs).all noDateSetter = true) →
    (hasAny used F.embeddedTime = true → (plainSteps segs).all noTimeSetter = true) →
    SegInv used fm fd ft sD sT b → parseSegs tm cu segs l b = .ok (some (b', r)) →
    SegInv used (fm || (plainSteps segs).any (setsSlot .monthNum)) (fd || (plainSteps segs).any (setsSlot .dayOfMonth))
      (ft || (plainSteps segs).any (setsSlot .monthText)) (sD || segs.any isDateSeg) (sT || segs.any isTimeSeg) b' := by
  intro segs
  induction segs with
  | nil =>
    intro l b b' r fm fd ft sD sT _ _ _ _ hi h
    simp only [parseSegs] at h; injection h with h; injection h with h; injection h with h _
    rw [← h]; simpa [plainSteps] using hi
  | cons sg segs ih =>
    intro l b b' r fm fd ft sD sT hw hin hD hT hi h
    simp only [List.all_cons, Bool.and_eq_true] at hin
    cases sg with
    | plain ss =>
      simp only [plainSteps, List.all_append, Bool.and_eq_true] at hw hD hT
      simp only [parseSegs] at h
      cases hp : parseSteps cu ss l b with
      | error e => rw [hp] at h; cases h
      | ok o =>
        rw [hp] at h
        cases o with
        | none => cases h
        | some q =>
          obtain ⟨b1, l1⟩ := q
          dsimp only at h
          have hok := parseSteps_dt_ok cu hcu ss l b b1 l1 fm fd ft hw.1 hi.ok hp
          have fr : ∀ x, (∀ s ∈ ss, stepSets s ≠ some x) → b1 x = b x :=
            fun x hx => parseSteps_frame_all cu x ss l b b1 l1 hx hp
          have hi1 : SegInv used (fm || ss.any (setsSlot .monthNum)) (fd || ss.any (setsSlot .dayOfMonth))
              (ft || ss.any (setsSlot .monthText)) sD sT b1 := by
            refine ⟨hok, ?_, ?_⟩
            · intro hE hs
              have hn := (hD hE).1
              rw [List.all_eq_true] at hn
              have e1 := fr .year (fun s hs' => by have := hn s hs'; simp only [noDateSetter, Bool.and_eq_true, decide_eq_true_eq] at this; exact this.1.1)
              have e2 := fr .monthNum (fun s hs' => by have := hn s hs'; simp only [noDateSetter, Bool.and_eq_true, decide_eq_true_eq] at this; exact this.1.2)
              have e3 := fr .dayOfMonth (fun s hs' => by have := hn s hs'; simp only [noDateSetter, Bool.and_eq_true, decide_eq_true_eq] at this; exact this.2)
              rw [e1, e2, e3]; exact hi.dv hE hs
            · intro hE hs
              have hn := (hT hE).1
              rw [List.all_eq_true] at hn
              have e1 := fr .hours24 (fun s hs' => by have := hn s hs'; simp only [noTimeSetter, Bool.and_eq_true, decide_eq_true_eq] at this; exact this.1.1.1)
              rw [e1]; exact hi.tv hE hs
          have := ih l1 b1 b' r _ _ _ sD sT hw.2 hin.2 (fun hE => (hD hE).2) (fun hE => (hT hE).2) hi1 h
          simpa [plainSteps, List.any_append, Bool.or_assoc, isDateSeg, isTimeSeg] using this
    | date c =>
      simp only [plainSteps] at hw hD hT
      simp only [segInnerWF, Bool.and_eq_true] at hin
      obtain ⟨⟨⟨cw, cs⟩, cc⟩, hin2⟩ := hin
      simp only [parseSegs] at h
      cases hp : parseSteps c.cu c.steps l dateBucket0 with
      | error e => rw [hp] at h; cases h
      | ok o =>
        rw [hp] at h
        cases o with
        | none => cases h
        | some q =>
          obtain ⟨bi, l1⟩ := q
          dsimp only at h
          cases hv : dateValueT tm.y tm.m tm.d c.used bi with
          | none => rw [hv] at h; cases h
          | some w =>
            obtain ⟨y, m, d⟩ := w
            rw [hv] at h; dsimp only at h
            have hbi := parseSteps_dt_ok c.cu cc c.steps l _ bi l1 false false false cw dateBucket0_ok hp
            obtain ⟨s1, s2, s3⟩ := fieldsSound_flags c.used c.steps cs
            have hval := dateValueT_valid tm.y tm.m tm.d htm.date c.used bi _ _ _ hbi s1 s2 s3 y m d hv
            obtain ⟨a1, a2, a3, a4, a5, a6, a7, a8, a9⟩ := hi.ok
            have hi1 : SegInv used fm fd ft true sT (((b.set .year y).set .monthNum m).set .dayOfMonth d) := by
              refine ⟨⟨by simpa [Bucket.set] using a1, by simpa [Bucket.set] using a2, by simpa [Bucket.set] using a3,
                by simpa [Bucket.set] using a4, by simpa [Bucket.set] using a5, by simpa [Bucket.set] using a6,
                fun _ => by simp only [Bucket.set]; simp; exact hval.2.2.1,
                fun _ => by simp only [Bucket.set]; simp; exact hval.2.2.2.2.1,
                by simpa [Bucket.set] using a9⟩, ?_, ?_⟩
              · intro _ _; simpa [Bucket.set] using hval
              · intro hE hs; have := hi.tv hE hs; simpa [Bucket.set] using this
            have := ih l1 _ b' r fm fd ft true sT hw hin2 hD hT hi1 h
            simpa [plainSteps, isDateSeg, isTimeSeg] using this
    | time c =>
      simp only [plainSteps] at hw hD hT
      simp only [segInnerWF] at hin
      obtain ⟨cw, hin2⟩ := hin
      simp only [parseSegs] at h
      cases hp : parseSteps c.cu c.steps l (timeBucket0 tm.nod) with
      | error e => rw [hp] at h; cases h
      | ok o =>
        rw [hp] at h
        cases o with
        | none => cases h
        | some q =>
          obtain ⟨bi, l1⟩ := q
          dsimp only at h
          cases hv : timeValue tm.nod c.used bi with
          | none => rw [hv] at h; cases h
          | some t =>
            rw [hv] at h; dsimp only at h
            have hbi := parseSteps_time_ok c.cu c.steps l _ bi l1 cw (timeBucketOK_of_tmpl tm.nod htm.t0 htm.t1) hp
            obtain ⟨hd, h23⟩ := dtOK_of_timeBucketOK bi hbi
            obtain ⟨t0, t1⟩ := timeValueT_valid tm.nod htm.t0 htm.t1 c.used bi _ _ _ hd h23 t hv
            obtain ⟨e1, e2, e3, e4⟩ := time_accessors t t0 t1
            obtain ⟨a1, a2, a3, a4, a5, a6, a7, a8, a9⟩ := hi.ok
            have hi1 : SegInv used fm fd ft sD true
                ((((b.set .hours24 (ltHour t)).set .minutes (ltMinute t)).set .seconds (ltSecond t)).set .fraction (ltNano t)) := by
              refine ⟨⟨by simp only [Bucket.set]; simp; omega, by simpa [Bucket.set] using a2,
                by simp only [Bucket.set]; simp; omega, by simp only [Bucket.set]; simp; omega,
                by simp only [Bucket.set]; simp; omega, by simpa [Bucket.set] using a6,
                by simpa [Bucket.set] using a7, by simpa [Bucket.set] using a8, by simpa [Bucket.set] using a9⟩, ?_, ?_⟩
              · intro hE hs; have := hi.dv hE hs; simpa [Bucket.set] using this
              · intro _ _; simp only [Bucket.set]; simp; omega
            have := ih l1 _ b' r fm fd ft sD true hw hin2 hD hT hi1 h
            simpa [plainSteps, isDateSeg, isTimeSeg] using this

/-! ## `calculate_value` of the combined bucket with the embedded branches -/

theorem dtValueE_valid (tm : Tmpl) (htm : TmplOK tm) (used : Nat) (b : Bucket) (fm fd ft sD sT : Bool)
    (hi : SegInv used fm fd ft sD sT b)
    (eD : hasAny used F.embeddedDate = true → sD = true)
    (s1 : hasAny used F.monthNum = true → fm = true) (s2 : hasAny used F.dayOfMonth = true → fd = true)
    (s3 : hasAny used F.monthText = true → ft = true)
    (v : Int × Int × Int × Int) (h : dtValueE tm used b = .ok (some v)) :
    validDate v.1 v.2.1 v.2.2.1 ∧ 0 ≤ v.2.2.2 ∧ v.2.2.2 < 86400000000000 := by
  unfold dtValueE at h
  dsimp only at h
  generalize hb' : (if decide (b .hours24 = 24) = true then b.set .hours24 0 else b) = b' at h
  have hb := hi.ok
  have hb2 : DtOK fm fd ft b' ∧ b' .hours24 ≤ 23 ∧ b' .year = b .year ∧ b' .monthNum = b .monthNum ∧
      b' .dayOfMonth = b .dayOfMonth := by
    rw [← hb']
    by_cases h24 : b .hours24 = 24
    · simp only [h24, decide_true, if_true]
      obtain ⟨a1, a2, a3, a4, a5, a6, a7, a8, a9⟩ := hb
      exact ⟨⟨by simp [Bucket.set], by simpa [Bucket.set] using a2, by simpa [Bucket.set] using a3,
        by simpa [Bucket.set] using a4, by simpa [Bucket.set] using a5, by simpa [Bucket.set] using a6,
        by simpa [Bucket.set] using a7, by simpa [Bucket.set] using a8, by simpa [Bucket.set] using a9⟩,
        by simp [Bucket.set], by simp [Bucket.set], by simp [Bucket.set], by simp [Bucket.set]⟩
    · simp only [h24, decide_false, Bool.false_eq_true, if_false]
      exact ⟨hb, (by have := hb.h24; omega), trivial, trivial, trivial⟩
  obtain ⟨hok', h23, ey, em, ed⟩ := hb2
  -- the date part
  have hdate : ∀ y m d, dateValueE tm.y tm.m tm.d (used &&& F.allDate) b' = some (y, m, d) → validDate y m d := by
    intro y m d hd
    unfold dateValueE at hd
    rw [hasAny_and used F.allDate F.embeddedDate (by decide)] at hd
    by_cases hE : hasAny used F.embeddedDate = true
    · have hne : used &&& F.allDate ≠ (F.year ||| F.monthNum ||| F.dayOfMonth) := by
        intro e
        have h1 : hasAny (used &&& F.allDate) F.embeddedDate = true := by
          rw [hasAny_and used F.allDate F.embeddedDate (by decide)]; exact hE
        rw [e] at h1; exact absurd h1 (by decide)
      rw [if_pos ⟨hne, hE⟩] at hd
      injection hd with hd; injection hd with e1 e2; injection e2 with e2 e3
      rw [← e1, ← e2, ← e3, ey, em, ed]
      exact hi.dv hE (eD hE)
    · rw [if_neg (fun hh => hE hh.2)] at hd
      exact dateValueT_valid tm.y tm.m tm.d htm.date (used &&& F.allDate) b' fm fd ft hok'
        (by rw [hasAny_and used F.allDate F.monthNum (by decide)]; exact s1)
        (by rw [hasAny_and used F.allDate F.dayOfMonth (by decide)]; exact s2)
        (by rw [hasAny_and used F.allDate F.monthText (by decide)]; exact s3) y m d hd
  -- the time part
  have htime : ∀ t, timeValueE tm.nod (used &&& F.allTime) b' = some t → 0 ≤ t ∧ t < 86400000000000 := by
    intro t ht
    unfold timeValueE at ht
    rw [hasAny_and used F.allTime F.embeddedTime (by decide)] at ht
    by_cases hE : hasAny used F.embeddedTime = true
    · have hne : (used &&& F.allTime) &&& F.allTimeExceptFraction ≠ (F.hours24 ||| F.minutes ||| F.seconds) := by
        intro e
        have h1 : hasAny ((used &&& F.allTime) &&& F.allTimeExceptFraction) F.embeddedTime = true := by
          rw [hasAny_and _ F.allTimeExceptFraction F.embeddedTime (by decide),
            hasAny_and used F.allTime F.embeddedTime (by decide)]; exact hE
        rw [e] at h1; exact absurd h1 (by decide)
      rw [if_pos ⟨hne, hE⟩] at ht
      injection ht with ht
      obtain ⟨a1, _, a3, a4, a5, _, _, _, _⟩ := hok'
      rw [← ht]; unfold ltFromHmsn NPH NPMin NPS; omega
    · rw [if_neg (fun hh => hE hh.2)] at ht
      exact timeValueT_valid tm.nod htm.t0 htm.t1 (used &&& F.allTime) b' fm fd ft hok' h23 t ht
  cases hd : dateValueE tm.y tm.m tm.d (used &&& F.allDate) b' with
  | none => rw [hd] at h; cases h
  | some w =>
    obtain ⟨y, m, d⟩ := w
    rw [hd] at h; dsimp only at h
    have hval := hdate y m d hd
    cases ht : timeValueE tm.nod (used &&& F.allTime) b' with
    | none => rw [ht] at h; cases h
    | some t =>
      rw [ht] at h; dsimp only at h
      have htv := htime t ht
      split at h
      · split at h
        · cases h
        · cases hp : plusOneDay y m d with
          | error e => rw [hp] at h; cases e <;> cases h
          | ok w =>
            obtain ⟨y', m', d'⟩ := w
            rw [hp] at h
            injection h with h; injection h with h
            subst h
            exact ⟨plusOneDay_valid y m d y' m' d' hval hp, htv⟩
      · injection h with h; injection h with h
        subst h
        exact ⟨hval, htv⟩

theorem any_of_or (segs : List Seg) (f : Seg → Bool) (h : (false || segs.any f) = true) : segs.any f = true := by
  simpa using h

/-- **success_value_valid** for LocalDateTime / Instant patterns with embedded `ld<…>` / `lt<…>` parts that pass the
    decidable check `segWF`: a successful parse of any text yields a valid date and a time inside the day -/
theorem parseSegmented_valid (tm : Tmpl) (htm : TmplOK tm) (cu : Culture) (used : Nat) (segs : List Seg)
    (hwf : segWF cu used segs = true) (l : Text) (v : List Int)
    (h : parseSegmented tm cu used segs l = .ok (some v)) :
    ∃ y m d nod, v = [y, m, d, nod] ∧ validDate y m d ∧ 0 ≤ nod ∧ nod < 86400000000000 := by
  unfold segWF at hwf
  simp only [Bool.and_eq_true, Bool.or_eq_true, Bool.not_eq_true'] at hwf
  obtain ⟨⟨⟨⟨⟨⟨hw, hs⟩, hcu⟩, hin⟩, hD⟩, hT⟩, _⟩ := hwf
  have hD1 : hasAny used F.embeddedDate = true → segs.any isDateSeg = true ∧ (plainSteps segs).all noDateSetter = true := by
    intro hE
    rcases hD with e | e
    · rw [e] at hE; cases hE
    · exact e
  have hT1 : hasAny used F.embeddedTime = true → segs.any isTimeSeg = true ∧ (plainSteps segs).all noTimeSetter = true := by
    intro hE
    rcases hT with e | e
    · rw [e] at hE; cases hE
    · exact e
  unfold parseSegmented at h
  split at h
  · cases h
  · cases hp : parseSegs tm cu segs l (dtBucket0 tm) with
    | error e => rw [hp] at h; cases h
    | ok o =>
      rw [hp] at h
      cases o with
      | none => cases h
      | some q =>
        obtain ⟨b, rest⟩ := q
        dsimp only at h
        have hi0 : SegInv used false false false false false (dtBucket0 tm) :=
          ⟨dtBucket0_ok tm htm, fun _ x => (by cases x), fun _ x => (by cases x)⟩
        have hi := parseSegs_inv tm htm cu hcu used segs l _ b rest false false false false false hw hin
          (fun hE => (hD1 hE).2) (fun hE => (hT1 hE).2) hi0 hp
        obtain ⟨s1, s2, s3⟩ := fieldsSound_flags used (plainSteps segs) hs
        cases hv : dtValueE tm used b with
        | error e => rw [hv] at h; cases h
        | ok ov =>
          rw [hv] at h
          cases ov with
          | none => cases h
          | some w =>
            dsimp only at h
            split at h
            · injection h with h; injection h with h
              have := dtValueE_valid tm htm used b _ _ _ _ _ hi
                (fun hE => by simp [(hD1 hE).1]) s1 s2 s3 w hv
              exact ⟨w.1, w.2.1, w.2.2.1, w.2.2.2, h.symm, this⟩
            · cases h

/-- the same through `parsePat` -/
theorem datetime_segmented_success_valid (tm : Tmpl) (htm : TmplOK tm) (cu : Culture) (used : Nat) (segs : List Seg)
    (hwf : segWF cu used segs = true) (hnc : segsUseCalendar segs = false) (l : Text) (v : List Int)
    (h : parsePat (.datetime tm) l (.segmented cu used segs) = .ok (some v)) :
    ∃ y m d nod, v = [y, m, d, nod] ∧ validDate y m d ∧ 0 ≤ nod ∧ nod < 86400000000000 := by
  simp only [parsePat, hnc, Bool.false_eq_true, if_false] at h
  exact parseSegmented_valid tm htm cu used segs hwf l v h

/-! ## every pattern with embedded parts that `compileDateTime` builds passes `segWF` -/

theorem hasAny_or_right (b x y : Nat) : hasAny b (x ||| y) = (hasAny b x || hasAny b y) := by
  unfold hasAny
  rw [Nat.and_or_distrib_left]
  by_cases h1 : b &&& x = 0 <;> by_cases h2 : b &&& y = 0 <;> simp [h1, h2, Nat.or_eq_zero_iff]

theorem plainSteps_append (a b : List Seg) : plainSteps (a ++ b) = plainSteps a ++ plainSteps b := by
  induction a with
  | nil => rfl
  | cons x xs ih => cases x <;> simp [plainSteps, ih]

/-- all plain steps of a builder state -/
def allPlain (st : DSt) : List Step := plainSteps st.segs ++ st.cur

/-- the builder invariant of `compileLoopDT` -/
structure InvD (st : DSt) : Prop where
  inv : Inv ⟨st.used, allPlain st⟩
  sb : ∀ s ∈ allPlain st, SetterBits st.used s
  inner : st.segs.all segInnerWF = true
  ed : hasAny st.used F.embeddedDate = true → st.segs.any isDateSeg = true
  et : hasAny st.used F.embeddedTime = true → st.segs.any isTimeSeg = true

theorem setterBits_or (u b : Nat) (s : Step) (h : SetterBits u s) : SetterBits (u ||| b) s :=
  setterBits_mono u b s (Or.inl h)

/-- OR-ing in a bit that is none of the month / day bits keeps the invariant of the plain steps -/
theorem inv_add_bit (used : Nat) (steps : List Step) (bit : Nat) (h1 : hasAny bit F.monthNum = false)
    (h2 : hasAny bit F.dayOfMonth = false) (h3 : hasAny bit F.monthText = false) (hi : Inv ⟨used, steps⟩) :
    Inv ⟨used ||| bit, steps⟩ := by
  obtain ⟨hw, hs⟩ := hi
  refine ⟨hw, ?_⟩
  unfold fieldsSound at hs ⊢
  simp only [hasAny_or, h1, h2, h3, Bool.or_false]
  exact hs

theorem invD_plain (cu : Culture) (c : Char) (rest : Text) (st : DSt) (st' : CSt) (k : Nat) (hi : InvD st)
    (h : handleDateTime cu c rest ⟨st.used, st.cur⟩ = .ok (st', k)) :
    InvD { st with used := st'.used, cur := st'.steps } := by
  obtain ⟨bits, added, e1, e2, g⟩ := handleDateTime_ext cu c rest _ st' k h
  have g' := g
  obtain ⟨g1, g2, g3, g4, g5, g6⟩ := g
  dsimp only at e1 e2
  rw [hasAny_or_right] at g6
  simp only [Bool.or_eq_false_iff] at g6
  have hall : allPlain { st with used := st'.used, cur := st'.steps } = allPlain st ++ added := by
    simp only [allPlain, e2, List.append_assoc]
  refine ⟨?_, ?_, hi.inner, ?_, ?_⟩
  · rw [hall]
    exact inv_ext ⟨st.used, allPlain st⟩ ⟨st'.used, allPlain st ++ added⟩ hi.inv ⟨bits, added, e1, rfl, g'⟩
  · rw [hall]
    intro s hs
    dsimp only
    rw [e1]
    rcases List.mem_append.mp hs with h' | h'
    · exact setterBits_or _ _ s (hi.sb s h')
    · exact setterBits_mono _ _ s (Or.inr (g5 s h'))
  · dsimp only; rw [e1, hasAny_or, g6.1, Bool.or_false]; exact hi.ed
  · dsimp only; rw [e1, hasAny_or, g6.2, Bool.or_false]; exact hi.et

theorem invD_embedded (cu : Culture) (hcu : cu.monthHeadsEmpty = true) (rest : Text) (st st' : DSt) (k : Nat) (hi : InvD st)
    (h : handleEmbedded cu rest st = .ok (st', k)) : InvD st' := by
  unfold handleEmbedded at h
  split at h
  · rename_i r
    cases h1 : embeddedPattern r with
    | error e => rw [h1] at h; cases h
    | ok q =>
      obtain ⟨text, k'⟩ := q
      rw [h1] at h; dsimp only at h
      cases h2 : addField ⟨st.used, []⟩ F.embeddedDate with
      | error e => rw [h2] at h; cases h
      | ok u =>
        rw [h2] at h; dsimp only at h
        obtain ⟨eu, _⟩ := addField_ok _ u _ h2
        dsimp only at eu
        cases h3 : compileDate cu text with
        | error e => rw [h3] at h; cases h
        | ok p =>
          obtain ⟨c, rfl, w1, w2, w3⟩ := compileDate_wf cu hcu text p h3
          rw [h3] at h; injection h with h; injection h with h _
          rw [← h]
          have hall : allPlain { used := u.used, segs := st.segs ++ [.plain st.cur, .date c], cur := [] } = allPlain st := by
            simp [allPlain, plainSteps_append, plainSteps]
          refine ⟨?_, ?_, ?_, ?_, ?_⟩
          · rw [hall]; dsimp only; rw [eu]
            exact inv_add_bit _ _ _ (by decide) (by decide) (by decide) hi.inv
          · rw [hall]; dsimp only; rw [eu]
            exact fun s hs => setterBits_or _ _ s (hi.sb s hs)
          · dsimp only
            rw [List.all_append, hi.inner]
            simp [segInnerWF, w1, w2, w3]
          · intro _; dsimp only; simp [List.any_append, isDateSeg]
          · dsimp only; rw [eu, hasAny_or]
            have : hasAny F.embeddedDate F.embeddedTime = false := by decide
            rw [this, Bool.or_false]
            intro hE; rw [List.any_append, hi.et hE]; rfl
  · rename_i r
    cases h1 : embeddedPattern r with
    | error e => rw [h1] at h; cases h
    | ok q =>
      obtain ⟨text, k'⟩ := q
      rw [h1] at h; dsimp only at h
      cases h2 : addField ⟨st.used, []⟩ F.embeddedTime with
      | error e => rw [h2] at h; cases h
      | ok u =>
        rw [h2] at h; dsimp only at h
        obtain ⟨eu, _⟩ := addField_ok _ u _ h2
        dsimp only at eu
        cases h3 : compileTime cu text with
        | error e => rw [h3] at h; cases h
        | ok p =>
          obtain ⟨c, rfl, w1⟩ := compileTime_wf cu text p h3
          rw [h3] at h; injection h with h; injection h with h _
          rw [← h]
          have hall : allPlain { used := u.used, segs := st.segs ++ [.plain st.cur, .time c], cur := [] } = allPlain st := by
            simp [allPlain, plainSteps_append, plainSteps]
          refine ⟨?_, ?_, ?_, ?_, ?_⟩
          · rw [hall]; dsimp only; rw [eu]
            exact inv_add_bit _ _ _ (by decide) (by decide) (by decide) hi.inv
          · rw [hall]; dsimp only; rw [eu]
            exact fun s hs => setterBits_or _ _ s (hi.sb s hs)
          · dsimp only
            rw [List.all_append, hi.inner]
            simp [segInnerWF, w1]
          · dsimp only; rw [eu, hasAny_or]
            have : hasAny F.embeddedTime F.embeddedDate = false := by decide
            rw [this, Bool.or_false]
            intro hE; rw [List.any_append, hi.ed hE]; rfl
          · intro _; dsimp only; simp [List.any_append, isTimeSeg]
  · cases h

theorem compileLoopDT_inv (cu : Culture) (hcu : cu.monthHeadsEmpty = true) : ∀ (fuel : Nat) (text : Text) (st st' : DSt),
    compileLoopDT cu fuel text st = .ok st' → InvD st → InvD st' := by
  intro fuel
  induction fuel with
  | zero =>
    intro text st st' h hs
    cases text with
    | nil => unfold compileLoopDT at h; injection h with h; rw [← h]; exact hs
    | cons c r => unfold compileLoopDT at h; cases h
  | succ f ih =>
    intro text st st' h hs
    cases text with
    | nil => unfold compileLoopDT at h; injection h with h; rw [← h]; exact hs
    | cons c rest =>
      unfold compileLoopDT at h
      cases hh : handleDT cu c rest st with
      | error e => rw [hh] at h; cases h
      | ok p =>
        obtain ⟨st1, k⟩ := p
        rw [hh] at h; dsimp only at h
        refine ih _ st1 st' h ?_
        unfold handleDT at hh
        by_cases hl : c = 'l'
        · rw [if_pos hl] at hh; exact invD_embedded cu hcu rest st st1 k hs hh
        · rw [if_neg hl] at hh
          cases hd : handleDateTime cu c rest ⟨st.used, st.cur⟩ with
          | error e => rw [hd] at hh; cases hh
          | ok q =>
            obtain ⟨st2, k2⟩ := q
            rw [hd] at hh; injection hh with hh; injection hh with hh _
            rw [← hh]; exact invD_plain cu c rest st st2 k2 hs hd

/-- a tracked setter among the plain steps contradicts an embedded pattern for the same fields (`_build`'s check) -/
theorem no_setter_of_mask (used mask : Nat) (steps : List Step) (hsb : ∀ s ∈ steps, SetterBits used s)
    (hm : used &&& mask = 0) (x : Slot) (hx : trackedBit x ≠ 0) (hin : mask &&& trackedBit x = trackedBit x) :
    ∀ s ∈ steps, stepSets s ≠ some x := by
  intro s hs he
  have h1 := hsb s hs x he hx
  have h2 : hasAny (used &&& mask) (trackedBit x) = hasAny used (trackedBit x) := hasAny_and used mask _ hin
  rw [hm] at h2
  rw [← h2] at h1
  simp [hasAny] at h1

/-- **every LocalDateTime pattern with embedded parts that is accepted passes `segWF`** (culture records whose month
    tables start with the empty entry) -/
theorem compileSegmented_segWF (cu : Culture) (hcu : cu.monthHeadsEmpty = true) (text : Text) (cu' : Culture) (used : Nat)
    (segs : List Seg) (h : compileSegmented cu text = .ok (.segmented cu' used segs)) : segWF cu' used segs = true := by
  unfold compileSegmented at h
  cases h1 : compileLoopDT cu text.length text ⟨0, [], []⟩ with
  | error e => rw [h1] at h; cases h
  | ok st =>
    rw [h1] at h; dsimp only at h
    cases h2 : validateUsed st.used with
    | error e => rw [h2] at h; cases h
    | ok u =>
      rw [h2] at h; dsimp only at h
      cases h3 : buildCheck st.used with
      | error e => rw [h3] at h; cases h
      | ok u' =>
        rw [h3] at h
        injection h with h; injection h with hcu' hused hsegs
        subst hcu'; subst hused; subst hsegs
        have hi0 : InvD ⟨0, [], []⟩ :=
          ⟨⟨rfl, by decide⟩, fun s hs => (by simp [allPlain, plainSteps] at hs), rfl,
            fun hE => absurd hE (by decide), fun hE => absurd hE (by decide)⟩
        have hi := compileLoopDT_inv cu hcu _ _ _ st h1 hi0
        have hp : plainSteps (st.segs ++ [Seg.plain st.cur]) = allPlain st := by
          simp [allPlain, plainSteps_append, plainSteps]
        -- `_build`'s checks
        unfold buildCheck at h3
        have b1 : ¬ (st.used &&& F.embeddedDate ≠ 0 ∧ st.used &&& (F.allDateFields ^^^ F.embeddedDate) ≠ 0) := by
          intro hc; rw [if_pos hc] at h3; cases h3
        have b2 : ¬ (st.used &&& F.embeddedTime ≠ 0 ∧ st.used &&& (F.allTimeFields ^^^ F.embeddedTime) ≠ 0) := by
          intro hc; rw [if_neg b1, if_pos hc] at h3; cases h3
        unfold segWF
        rw [hp]
        simp only [Bool.and_eq_true, Bool.or_eq_true, Bool.not_eq_true']
        refine ⟨⟨⟨⟨⟨⟨hi.inv.1, hi.inv.2⟩, hcu⟩, ?_⟩, ?_⟩, ?_⟩, ?_⟩
        · rw [List.all_append, hi.inner]; rfl
        · by_cases hE : hasAny st.used F.embeddedDate = true
          · right
            have hm : st.used &&& (F.allDateFields ^^^ F.embeddedDate) = 0 := by
              by_cases hz : st.used &&& (F.allDateFields ^^^ F.embeddedDate) = 0
              · exact hz
              · exact absurd ⟨by simpa [hasAny] using hE, hz⟩ b1
            refine ⟨by rw [List.any_append, hi.ed hE]; rfl, ?_⟩
            rw [List.all_eq_true]
            intro s hs
            have n1 := no_setter_of_mask _ _ _ hi.sb hm .year (by decide) (by decide) s hs
            have n2 := no_setter_of_mask _ _ _ hi.sb hm .monthNum (by decide) (by decide) s hs
            have n3 := no_setter_of_mask _ _ _ hi.sb hm .dayOfMonth (by decide) (by decide) s hs
            simp [n1, n2, n3]
          · left; simpa using hE
        · by_cases hE : hasAny st.used F.embeddedTime = true
          · right
            have hm : st.used &&& (F.allTimeFields ^^^ F.embeddedTime) = 0 := by
              by_cases hz : st.used &&& (F.allTimeFields ^^^ F.embeddedTime) = 0
              · exact hz
              · exact absurd ⟨by simpa [hasAny] using hE, hz⟩ b2
            refine ⟨by rw [List.any_append, hi.et hE]; rfl, ?_⟩
            rw [List.all_eq_true]
            intro s hs
            have n1 := no_setter_of_mask _ _ _ hi.sb hm .hours24 (by decide) (by decide) s hs
            have n2 := no_setter_of_mask _ _ _ hi.sb hm .minutes (by decide) (by decide) s hs
            have n3 := no_setter_of_mask _ _ _ hi.sb hm .seconds (by decide) (by decide) s hs
            have n4 := no_setter_of_mask _ _ _ hi.sb hm .fraction (by decide) (by decide) s hs
            simp [n1, n2, n3, n4]
          · left; simpa using hE
        · by_cases hE : hasAny st.used F.embeddedDate = true
          · right
            have hm : st.used &&& (F.allDateFields ^^^ F.embeddedDate) = 0 := by
              by_cases hz : st.used &&& (F.allDateFields ^^^ F.embeddedDate) = 0
              · exact hz
              · exact absurd ⟨by simpa [hasAny] using hE, hz⟩ b1
            rw [List.all_eq_true]
            intro s hs
            have n1 := no_setter_of_mask _ _ _ hi.sb hm .calendar (by decide) (by decide) s hs
            simp [n1]
          · left; simpa using hE

theorem steppedOf_not_segmented (r : R Compiled) (cu' : Culture) (used : Nat) (segs : List Seg)
    (h : steppedOf r = .ok (.segmented cu' used segs)) : False := by
  unfold steppedOf at h
  cases r with
  | error e => cases h
  | ok c => injection h with h; cases h

theorem compileDTText_segWF (tm : Tmpl) (cu : Culture) (hcu : cu.monthHeadsEmpty = true) (t : Text) (cu' : Culture) (used : Nat)
    (segs : List Seg) (h : compileDTText tm cu t = .ok (.segmented cu' used segs)) : segWF cu' used segs = true := by
  unfold compileDTText at h
  cases hc : compileCustom (.datetime tm) cu t with
  | ok c => rw [hc] at h; exact (steppedOf_not_segmented _ _ _ _ h).elim
  | error e =>
    rw [hc] at h
    cases e <;> first
      | exact (steppedOf_not_segmented _ _ _ _ h).elim
      | exact compileSegmented_segWF cu hcu t cu' used segs h

theorem compileDateTime_segWF (tm : Tmpl) (cu : Culture) (hcu : cu.monthHeadsEmpty = true) (ptext : Text) (cu' : Culture)
    (used : Nat) (segs : List Seg) (h : compileDateTime tm cu ptext = .ok (.segmented cu' used segs)) :
    segWF cu' used segs = true := by
  unfold compileDateTime at h
  split at h
  · cases h
  · repeat' (first
      | exact (steppedOf_not_segmented _ _ _ _ h).elim
      | exact compileDTText_segWF tm cu hcu _ cu' used segs h
      | cases h
      | split at h)
  · exact compileDTText_segWF tm cu hcu _ cu' used segs h

/-- **success_value_valid** for LocalDateTime, embedded patterns included: whatever pattern text was accepted, whatever
    valid ISO template value, in whatever culture record whose month tables start with the empty entry, a successful
    parse of any text carries a valid date and a time inside the day -/
theorem datetime_success_valid_all (tm : Tmpl) (htm : TmplOK tm) (cu : Culture) (hcu : cu.monthHeadsEmpty = true)
    (ptext : Text) (p : Pat) (hp : compileDateTime tm cu ptext = .ok p) (hnc : patNoCal p = true) (l : Text) (v : List Int)
    (h : parsePat (.datetime (effTmpl tm ptext)) l p = .ok (some v)) :
    ∃ y m d nod, v = [y, m, d, nod] ∧ validDate y m d ∧ 0 ≤ nod ∧ nod < 86400000000000 := by
  have htm' : TmplOK (effTmpl tm ptext) := by
    unfold effTmpl
    split
    · split
      · exact tmplOK_default
      · exact htm
    · exact htm
  rcases compileDateTime_wf tm cu hcu ptext p hp with hw | ⟨cu', used, segs, rfl⟩
  · exact datetime_success_valid tm htm cu hcu ptext p hp
      (by obtain ⟨c, rfl, _⟩ := hw; intro _ _ _ e; cases e) hnc l v h
  · exact datetime_segmented_success_valid _ htm' cu' used segs
      (compileDateTime_segWF tm cu hcu ptext cu' used segs hp) (by simpa [patNoCal] using hnc) l v h

/-- **success_value_valid** for Instant patterns, embedded patterns included (the parsed UTC date-time) -/
theorem instant_success_valid_all (tm : Tmpl) (htm : TmplOK tm) (cu : Culture) (hcu : cu.monthHeadsEmpty = true)
    (ptext : Text) (p : Pat) (hp : compileInstant tm cu ptext = .ok p) (hnc : patNoCal p = true) (l : Text) (v : List Int)
    (h : parsePat (.datetime tm) l p = .ok (some v)) :
    ∃ y m d nod, v = [y, m, d, nod] ∧ validDate y m d ∧ 0 ≤ nod ∧ nod < 86400000000000 := by
  rcases compileInstant_wf tm cu hcu ptext p hp with hw | ⟨cu', used, segs, rfl⟩
  · exact instant_success_valid tm htm cu hcu ptext p hp
      (by obtain ⟨c, rfl, _⟩ := hw; intro _ _ _ e; cases e) hnc l v h
  · have hs : segWF cu' used segs = true := by
      unfold compileInstant at hp
      split at hp
      · cases hp
      · split at hp
        · exact compileDTText_segWF tm cu hcu _ cu' used segs hp
        · cases hp
      · exact compileDTText_segWF tm cu hcu _ cu' used segs hp
    exact datetime_segmented_success_valid tm htm cu' used segs hs (by simpa [patNoCal] using hnc) l v h

/-- `segWF` is satisfiable: `ld<uuuu-MM-dd> lt<HH:mm>` and `ld<d MMMM yyyy> 'at' HH:mm` in the invariant culture -/
example : (match compileDateTime Tmpl.default invariantCulture "ld<uuuu-MM-dd> lt<HH:mm>".toList with
    | .ok (.segmented cu used segs) => segWF cu used segs
    | _ => false) = true := by decide +kernel
example : (match compileDateTime Tmpl.default invariantCulture "ld<d MMMM yyyy> 'at' HH:mm".toList with
    | .ok (.segmented cu used segs) => segWF cu used segs
    | _ => false) = true := by decide +kernel
example : parsePat (.datetime Tmpl.default) "2020-02-29 23:59".toList
    (.segmented invariantCulture 3145728
      [.plain [], .date ⟨invariantCulture, 5248, [.num .year .year 4 4 (-9999) 9999, .lit ['-'], .num .monthNum .monthNum 2 2 1 99,
        .lit ['-'], .num .dayOfMonth .dayOfMonth 2 2 1 99]⟩, .plain [.lit [' ']],
       .time ⟨invariantCulture, 12, [.num .hours24 .hours24 2 2 0 23, .lit [':'], .num .minutes .minutes 2 2 0 59]⟩, .plain []])
    = .ok (some [2020, 2, 29, 86340000000000]) := by decide +kernel

end Pyoda.C08
