/-
  C19 — clocks follow their simple model under any sequence of operations.
  * `fakeClock_refines_spec`: the FakeClock state machine and the two-integer model produce the same
    outputs (errors included) on every finite sequence of operations.
  * `all_ops_complete`, `schedule_length_bounded`, `linearizable`: under every interleaving of the atomic
    actions of any number of threads, with the lock discipline `acquire ; load ; commit ; release`,
    no reachable state is stuck while work remains, every schedule is finite, a schedule that cannot be
    extended has returned a result for every operation, and the results are those of the sequential
    machine run on the operations in commit order.
  * `concurrent_reads_distinct`: with a non-zero auto-advance, concurrent reads never return the same
    instant twice.
  * `advanceUnit_blocks_counterexample`: the lock discipline of the pinned `advance_<unit>` reaches a
    state in which the only thread is blocked forever.
-/
import PyodaModel.Clock
import PyodaProofs.Basic
import PyodaProofs.C03
import PyodaProofs.C19Lemmas

namespace Pyoda.C19
open Pyoda Pyoda.Clock

/-! ## refinement of the trivial model -/

def abs (c : FakeClock) : Spec := ⟨C03.val c.now.dur, C03.val c.auto⟩

def absOp : Op → SOp
  | .read => .read
  | .advance d => .advance (C03.val d)
  | .advanceUnit u n => .advanceUnit u n
  | .reset i => .reset (C03.val i.dur)
  | .setAuto d => .setAuto (C03.val d)
  | .getAuto => .getAuto

def absOut : Out → SOut
  | .instant i => .instant (C03.val i.dur)
  | .unit => .unit
  | .dur d => .dur (C03.val d)
  | .err e => .err e

theorem step_refines (c : FakeClock) (op : Op) (hc : CWF c) (ho : OpOk op) :
    specStep (abs c) (absOp op) = (abs (step c op).1, absOut (step c op).2) ∧ CWF (step c op).1 := by
  obtain ⟨hn, ha⟩ := hc
  cases op with
  | read =>
    have hp := plus_refines c.now c.auto hn ha
    simp only [step, commitStep, specStep, absOp, abs]
    rw [hp]
    cases h : c.now.plus c.auto with
    | ok r => exact ⟨rfl, plus_ok_wf _ _ _ hn ha h, ha⟩
    | error e => exact ⟨rfl, hn, ha⟩
  | advance d =>
    have hp := plus_refines c.now d hn ho
    simp only [step, commitStep, specStep, absOp, abs]
    rw [hp]
    cases h : c.now.plus d with
    | ok r => exact ⟨rfl, plus_ok_wf _ _ _ hn ho h, ha⟩
    | error e => exact ⟨rfl, hn, ha⟩
  | advanceUnit u n =>
    simp only [step, commitStep, specStep, absOp, abs]
    rcases unitDur_refines u n with ⟨d, h1, h2, h3, h4⟩ | ⟨h1, h2⟩
    · rw [h1]
      simp only []
      simp only [C03.NsInRange] at h4
      rw [if_neg (by omega)]
      have hp := plus_refines c.now d hn h2
      rw [← h3, hp]
      cases h : c.now.plus d with
      | ok r => exact ⟨rfl, plus_ok_wf _ _ _ hn h2 h, ha⟩
      | error e => exact ⟨rfl, hn, ha⟩
    · rw [h1]
      simp only []
      simp only [C03.NsInRange] at h2
      rw [if_pos (by omega)]
      exact ⟨rfl, hn, ha⟩
  | reset i => exact ⟨rfl, ho, ha⟩
  | setAuto d => exact ⟨rfl, hn, ho⟩
  | getAuto => exact ⟨rfl, hn, ha⟩

/-- Every operation keeps the clock's state well-formed (errors leave it unchanged). -/
theorem step_preserves_wf (c : FakeClock) (op : Op) (hc : CWF c) (ho : OpOk op) : CWF (step c op).1 :=
  (step_refines c op hc ho).2

/-- For every finite sequence of operations the FakeClock returns exactly what the trivial model
    (current value, auto-advance applied after each read, errors leave the state unchanged) predicts. -/
theorem fakeClock_refines_spec (ops : List Op) (c : FakeClock) (hc : CWF c) (ho : ∀ op ∈ ops, OpOk op) :
    runSpec (abs c) (ops.map absOp) = (abs (run c ops).1, (run c ops).2.map absOut) ∧ CWF (run c ops).1 := by
  induction ops generalizing c with
  | nil => exact ⟨rfl, hc⟩
  | cons op rest ih =>
    obtain ⟨h1, h2⟩ := step_refines c op hc (ho op (List.mem_cons_self ..))
    obtain ⟨h3, h4⟩ := ih (step c op).1 h2 (fun o h => ho o (List.mem_cons_of_mem _ h))
    simp only [List.map_cons, runSpec, run, h1, h3]
    exact ⟨trivial, h4⟩

/-! ## reads with a non-zero auto-advance are pairwise distinct (sequentially) -/

def DistinctS (l : List SOut) : Prop := l.Pairwise (fun x y => ∀ i j, x = .instant i → y = .instant j → i ≠ j)
def Distinct (l : List Out) : Prop := l.Pairwise (fun x y => ∀ i j, x = .instant i → y = .instant j → i ≠ j)

theorem addInstant_ok (x d n : Int) (h : addInstant x d = .ok n) : n = x + d := by
  unfold addInstant at h
  split at h
  · cases h
  · split at h
    · cases h
    · cases h; rfl

theorem spec_reads_mono (a : Int) (ha : a ≠ 0) (k : Nat) (now : Int) :
    (∀ v, SOut.instant v ∈ (runSpec ⟨now, a⟩ (List.replicate k .read)).2 → (0 < a → now ≤ v) ∧ (a < 0 → v ≤ now)) ∧
    DistinctS (runSpec ⟨now, a⟩ (List.replicate k .read)).2 := by
  induction k generalizing now with
  | zero => exact ⟨fun v h => (List.not_mem_nil h).elim, List.Pairwise.nil⟩
  | succ k ih =>
    simp only [List.replicate_succ, runSpec, specStep]
    cases h : addInstant now a with
    | error e =>
      obtain ⟨h1, h2⟩ := ih now
      simp only
      refine ⟨?_, ?_⟩
      · intro v hv
        rcases List.mem_cons.mp hv with hv | hv
        · cases hv
        · exact h1 v hv
      · refine List.Pairwise.cons ?_ h2
        intro y _ i j hi; cases hi
    | ok n =>
      have hn := addInstant_ok _ _ _ h
      subst hn
      obtain ⟨h1, h2⟩ := ih (now + a)
      simp only
      refine ⟨?_, ?_⟩
      · intro v hv
        rcases List.mem_cons.mp hv with hv | hv
        · cases hv; omega
        · have := h1 v hv; omega
      · refine List.Pairwise.cons ?_ h2
        intro y hy i j hi hj
        cases hi; subst hj
        have := h1 j hy; omega

/-- Sequential form: successive reads of one clock with a non-zero auto-advance are pairwise distinct. -/
theorem sequential_reads_distinct (c : FakeClock) (hc : CWF c) (ha : C03.val c.auto ≠ 0) (k : Nat) :
    Distinct (run c (List.replicate k .read)).2 := by
  have href := (fakeClock_refines_spec (List.replicate k .read) c hc
    (fun op h => by rw [List.eq_of_mem_replicate h]; trivial)).1
  have hspec := (spec_reads_mono (C03.val c.auto) ha k (C03.val c.now.dur)).2
  have hm : (List.replicate k Op.read).map absOp = List.replicate k SOp.read := by simp [absOp]
  rw [hm] at href
  have : (runSpec ⟨C03.val c.now.dur, C03.val c.auto⟩ (List.replicate k .read)).2 = (run c (List.replicate k .read)).2.map absOut := by
    have := congrArg Prod.snd href; exact this
  rw [this] at hspec
  simp only [DistinctS, List.pairwise_map] at hspec
  refine hspec.imp ?_
  intro x y hxy i j hi hj hij
  subst hi; subst hj; subst hij
  exact hxy _ _ rfl rfl rfl

/-! ## threads -/

/-- where a thread is inside `acquire ; load ; commit ; release` -/
inductive Ph | idle | held | loaded | committed

/-- the remaining actions of a thread in phase `p` follow the lock discipline -/
def wb : Ph → List Act → Bool
  | .idle, [] => true
  | .idle, .acquire :: r => wb .held r
  | .held, .load :: r => wb .loaded r
  | .loaded, .commit _ :: r => wb .committed r
  | .committed, .release :: r => wb .idle r
  | _, _ => false

def nCommits : List Act → Nat
  | [] => 0
  | .commit _ :: r => nCommits r + 1
  | _ :: r => nCommits r

theorem wb_compileProg (p : List Op) : wb .idle (compileProg compile p) = true := by
  induction p with
  | nil => rfl
  | cons op rest ih => simpa [compileProg, compile, wb] using ih

theorem nCommits_compileProg (p : List Op) : nCommits (compileProg compile p) = p.length := by
  induction p with
  | nil => rfl
  | cons op rest ih => simp [compileProg, compile, nCommits, ih]

theorem length_compileProg (p : List Op) : (compileProg compile p).length = 4 * p.length := by
  induction p with
  | nil => rfl
  | cons op rest ih => simp [compileProg, compile, ih]; omega

/-- The lock discipline as a state invariant: a thread that does not hold the lock is between two
    operations; the holder is inside one, and between its `load` and its `commit` its local copy of
    the time is still the clock's time. -/
structure Inv (s : Sys) : Prop where
  idle : ∀ t, s.lock ≠ some t → wb .idle (s.thr t).acts = true
  hold : ∀ t, s.lock = some t →
    wb .held (s.thr t).acts = true ∨
    (wb .loaded (s.thr t).acts = true ∧ (s.thr t).tmp = s.clock.now) ∨
    wb .committed (s.thr t).acts = true

theorem setThr_same (s : Sys) (t : Nat) (x : Thread) : s.setThr t x t = x := by simp [Sys.setThr]
theorem setThr_other (s : Sys) (t t' : Nat) (x : Thread) (h : t' ≠ t) : s.setThr t x t' = s.thr t' := by
  simp [Sys.setThr, h]

/-- only the holder of the lock is at `release`, `load` or `commit` -/
theorem holder_of_nonacquire (s : Sys) (hI : Inv s) (t : Nat) (a : Act) (r : List Act)
    (ha : (s.thr t).acts = a :: r) (hne : a ≠ .acquire) : s.lock = some t := by
  by_cases h : s.lock = some t
  · exact h
  · have := hI.idle t h
    rw [ha] at this
    cases a <;> simp [wb] at this hne

theorem inv_step (s s' : Sys) (t : Nat) (hI : Inv s) (h : s.step t = some s') : Inv s' := by
  unfold Sys.step at h
  cases hacts : (s.thr t).acts with
  | nil => rw [hacts] at h; cases h
  | cons a r =>
    rw [hacts] at h
    cases a with
    | acquire =>
      cases hl : s.lock with
      | some x => rw [hl] at h; cases h
      | none =>
        rw [hl] at h
        simp only [Option.some.injEq] at h; subst h
        have hidle := hI.idle t (by rw [hl]; intro hh; cases hh)
        rw [hacts] at hidle
        constructor
        · intro t' hne
          have : t' ≠ t := fun e => hne (by rw [e])
          simp only [setThr_other s t t' _ this]
          exact hI.idle t' (by rw [hl]; intro hh; cases hh)
        · intro t' he
          simp only [Option.some.injEq] at he; subst he
          left; simp only [setThr_same]; simpa [wb] using hidle
    | release =>
      have hl := holder_of_nonacquire s hI t _ r hacts (by intro hh; cases hh)
      simp only [Option.some.injEq] at h; subst h
      have hh := hI.hold t hl
      rw [hacts] at hh
      simp only [wb, Bool.false_eq_true, false_and, false_or] at hh
      constructor
      · intro t' _
        by_cases e : t' = t
        · subst e; simp only [setThr_same]; exact hh
        · simp only [setThr_other s t t' _ e]
          exact hI.idle t' (by rw [hl]; intro h2; cases h2; exact e rfl)
      · intro t' he; cases he
    | load =>
      have hl := holder_of_nonacquire s hI t _ r hacts (by intro hh; cases hh)
      simp only [Option.some.injEq] at h; subst h
      have hh := hI.hold t hl
      rw [hacts] at hh
      simp only [wb, Bool.false_eq_true, false_and, or_false] at hh
      constructor
      · intro t' hne
        have : t' ≠ t := fun e => hne (by rw [e]; exact hl)
        simp only [setThr_other s t t' _ this]
        exact hI.idle t' hne
      · intro t' he
        have e : t' = t := by
          have : some t' = some t := by rw [← he]; exact hl
          cases this; rfl
        subst e
        right; left; simp only [setThr_same]; exact ⟨hh, trivial⟩
    | commit op =>
      have hl := holder_of_nonacquire s hI t _ r hacts (by intro hh; cases hh)
      simp only [Option.some.injEq] at h; subst h
      have hh := hI.hold t hl
      rw [hacts] at hh
      simp only [wb, Bool.false_eq_true, false_or, or_false] at hh
      constructor
      · intro t' hne
        have : t' ≠ t := fun e => hne (by rw [e]; exact hl)
        simp only [setThr_other s t t' _ this]
        exact hI.idle t' hne
      · intro t' he
        have e : t' = t := by
          have : some t' = some t := by rw [← he]; exact hl
          cases this; rfl
        subst e
        right; right; simp only [setThr_same]; exact hh.1

theorem inv_init (c : FakeClock) (progs : Nat → List Op) : Inv (Sys.init compile c progs) := by
  constructor
  · intro t _; exact wb_compileProg _
  · intro t h; cases h

/-- Progress: while some thread has work left, some thread can take a step. -/
theorem progress (s : Sys) (hI : Inv s) (t0 : Nat) (h0 : (s.thr t0).acts ≠ []) : ∃ t, (s.step t).isSome = true := by
  cases hl : s.lock with
  | none =>
    refine ⟨t0, ?_⟩
    have := hI.idle t0 (by rw [hl]; intro hh; cases hh)
    unfold Sys.step
    cases hacts : (s.thr t0).acts with
    | nil => exact (h0 hacts).elim
    | cons a r =>
      rw [hacts] at this
      cases a <;> simp [wb] at this
      simp [hl]
  | some x =>
    refine ⟨x, ?_⟩
    have := hI.hold x hl
    unfold Sys.step
    cases hacts : (s.thr x).acts with
    | nil => rw [hacts] at this; simp [wb] at this
    | cons a r =>
      rw [hacts] at this
      cases a <;> simp [wb] at this <;> simp

/-- generic induction over schedules -/
theorem runSched_induction (P : Sys → Prop) (hstep : ∀ s t s', P s → s.step t = some s' → P s')
    (sched : List Nat) (s s' : Sys) (hs : P s) (h : s.runSched sched = some s') : P s' := by
  induction sched generalizing s with
  | nil => simp only [Sys.runSched, Option.some.injEq] at h; subst h; exact hs
  | cons t rest ih =>
    simp only [Sys.runSched] at h
    cases hst : s.step t with
    | none => rw [hst] at h; cases h
    | some s1 => rw [hst] at h; exact ih s1 (hstep s t s1 hs hst) h

/-- a step consumes exactly one action of the stepping thread and touches no other thread -/
theorem step_consumes (s s' : Sys) (t : Nat) (h : s.step t = some s') :
    (s'.thr t).acts.length + 1 = (s.thr t).acts.length ∧ ∀ t', t' ≠ t → s'.thr t' = s.thr t' := by
  unfold Sys.step at h
  cases hacts : (s.thr t).acts with
  | nil => rw [hacts] at h; cases h
  | cons a r =>
    rw [hacts] at h
    cases a with
    | acquire =>
      cases hl : s.lock with
      | some x => rw [hl] at h; cases h
      | none =>
        rw [hl] at h; simp only [Option.some.injEq] at h; subst h
        exact ⟨by simp [setThr_same], fun t' ht => setThr_other s t t' _ ht⟩
    | release =>
      simp only [Option.some.injEq] at h; subst h
      exact ⟨by simp [setThr_same], fun t' ht => setThr_other s t t' _ ht⟩
    | load =>
      simp only [Option.some.injEq] at h; subst h
      exact ⟨by simp [setThr_same], fun t' ht => setThr_other s t t' _ ht⟩
    | commit op =>
      simp only [Option.some.injEq] at h; subst h
      exact ⟨by simp [setThr_same], fun t' ht => setThr_other s t t' _ ht⟩

/-- after a schedule, thread `t` has consumed exactly as many actions as it was scheduled -/
theorem sched_count (sched : List Nat) (s s' : Sys) (h : s.runSched sched = some s') (t : Nat) :
    (s'.thr t).acts.length + sched.count t = (s.thr t).acts.length := by
  induction sched generalizing s with
  | nil => simp only [Sys.runSched, Option.some.injEq] at h; subst h; simp
  | cons x rest ih =>
    simp only [Sys.runSched] at h
    cases hst : s.step x with
    | none => rw [hst] at h; cases h
    | some s1 =>
      rw [hst] at h
      have h1 := ih s1 h
      obtain ⟨hc, ho⟩ := step_consumes s s1 x hst
      by_cases e : x = t
      · subst e; rw [List.count_cons_self]; omega
      · rw [List.count_cons_of_ne e, ← ho t (fun h => e h.symm)]; exact h1

/-! ### results -/

theorem run_append (c : FakeClock) (l : List Op) (op : Op) :
    run c (l ++ [op]) = ((step (run c l).1 op).1, (run c l).2 ++ [(step (run c l).1 op).2]) := by
  induction l generalizing c with
  | nil => simp [run]
  | cons a rest ih => simp only [List.cons_append, run, ih]

/-- the log is a run of the sequential machine -/
def LInv (c0 : FakeClock) (s : Sys) : Prop :=
  run c0 (s.log.map (fun e => e.2.1)) = (s.clock, s.log.map (fun e => e.2.2))

theorem linv_step (c0 : FakeClock) (s s' : Sys) (t : Nat) (hI : Inv s) (hL : LInv c0 s) (h : s.step t = some s') :
    LInv c0 s' := by
  unfold Sys.step at h
  cases hacts : (s.thr t).acts with
  | nil => rw [hacts] at h; cases h
  | cons a r =>
    rw [hacts] at h
    cases a with
    | acquire =>
      cases hl : s.lock with
      | some x => rw [hl] at h; cases h
      | none => rw [hl] at h; simp only [Option.some.injEq] at h; subst h; exact hL
    | release => simp only [Option.some.injEq] at h; subst h; exact hL
    | load => simp only [Option.some.injEq] at h; subst h; exact hL
    | commit op =>
      have hl := holder_of_nonacquire s hI t _ r hacts (by intro hh; cases hh)
      have hh := hI.hold t hl
      rw [hacts] at hh
      simp only [wb, Bool.false_eq_true, false_or, or_false] at hh
      simp only [Option.some.injEq] at h; subst h
      simp only [LInv, List.map_append, List.map_cons, List.map_nil] at hL ⊢
      rw [run_append, hL]
      simp only [step, hh.2]

/-- number of results returned to thread `t` so far + operations it has not committed yet -/
def CInv (progs : Nat → List Op) (s : Sys) : Prop :=
  ∀ t, (s.outsOf t).length + nCommits (s.thr t).acts = (progs t).length

theorem cinv_step (progs : Nat → List Op) (s s' : Sys) (t : Nat) (hC : CInv progs s) (h : s.step t = some s') :
    CInv progs s' := by
  unfold Sys.step at h
  cases hacts : (s.thr t).acts with
  | nil => rw [hacts] at h; cases h
  | cons a r =>
    rw [hacts] at h
    intro t'
    have hC' := hC t'
    cases a with
    | acquire =>
      cases hl : s.lock with
      | some x => rw [hl] at h; cases h
      | none =>
        rw [hl] at h; simp only [Option.some.injEq] at h; subst h
        by_cases e : t' = t
        · subst e; rw [hacts] at hC'; simpa [Sys.outsOf, setThr_same, nCommits] using hC'
        · simpa [Sys.outsOf, setThr_other s t t' _ e] using hC'
    | release =>
      simp only [Option.some.injEq] at h; subst h
      by_cases e : t' = t
      · subst e; rw [hacts] at hC'; simpa [Sys.outsOf, setThr_same, nCommits] using hC'
      · simpa [Sys.outsOf, setThr_other s t t' _ e] using hC'
    | load =>
      simp only [Option.some.injEq] at h; subst h
      by_cases e : t' = t
      · subst e; rw [hacts] at hC'; simpa [Sys.outsOf, setThr_same, nCommits] using hC'
      · simpa [Sys.outsOf, setThr_other s t t' _ e] using hC'
    | commit op =>
      simp only [Option.some.injEq] at h; subst h
      by_cases e : t' = t
      · subst e; rw [hacts] at hC'
        simp only [Sys.outsOf, setThr_same, nCommits, List.filter_append, List.map_append, List.length_append] at hC' ⊢
        simp only [List.filter_cons, beq_self_eq_true, if_true, List.filter_nil, List.map_cons, List.map_nil,
          List.length_cons, List.length_nil]
        omega
      · have e' : (t == t') = false := by simp; exact fun h => e h.symm
        simp only [Sys.outsOf, setThr_other s t t' _ e, List.filter_append, List.map_append, List.length_append] at hC' ⊢
        simp only [List.filter_cons, e', Bool.false_eq_true, if_false, List.filter_nil, List.map_nil, List.length_nil]
        omega

theorem cinv_init (c : FakeClock) (progs : Nat → List Op) : CInv progs (Sys.init compile c progs) := by
  intro t; simp [Sys.init, Sys.outsOf, nCommits_compileProg]

/-- every reachable state satisfies the three invariants -/
theorem reachable_inv (c0 : FakeClock) (progs : Nat → List Op) (sched : List Nat) (s : Sys)
    (h : (Sys.init compile c0 progs).runSched sched = some s) : Inv s ∧ LInv c0 s ∧ CInv progs s := by
  refine runSched_induction (fun s => Inv s ∧ LInv c0 s ∧ CInv progs s) ?_ sched _ s ?_ h
  · rintro s t s' ⟨h1, h2, h3⟩ hst
    exact ⟨inv_step s s' t h1 hst, linv_step c0 s s' t h1 h2 hst, cinv_step progs s s' t h3 hst⟩
  · exact ⟨inv_init c0 progs, by simp [LInv, Sys.init, run], cinv_init c0 progs⟩

/-- **Every operation completes.** For any number of threads with any programs and any schedule of
    their atomic actions: (1) thread `t` is scheduled at most `4·|prog t|` times, so no schedule goes on
    for ever; (2) in every reachable state in which some thread still has work, some thread can take a
    step (no deadlock: every operation releases what it acquires and never re-acquires while holding);
    (3) when no thread can step any more, every thread has finished and got a result for every
    operation of its program. -/
theorem all_ops_complete (c0 : FakeClock) (progs : Nat → List Op) (sched : List Nat) (s : Sys)
    (h : (Sys.init compile c0 progs).runSched sched = some s) :
    (∀ t, sched.count t ≤ 4 * (progs t).length) ∧
    ((∃ t, (s.thr t).acts ≠ []) → ∃ t, (s.step t).isSome = true) ∧
    ((∀ t, s.step t = none) → ∀ t, (s.thr t).acts = [] ∧ (s.outsOf t).length = (progs t).length) := by
  obtain ⟨hI, _, hC⟩ := reachable_inv c0 progs sched s h
  refine ⟨?_, ?_, ?_⟩
  · intro t
    have := sched_count sched _ s h t
    simp only [Sys.init, length_compileProg] at this
    omega
  · rintro ⟨t0, h0⟩; exact progress s hI t0 h0
  · intro hstuck t
    have hdone : ∀ t, (s.thr t).acts = [] := by
      intro t
      by_cases hne : (s.thr t).acts = []
      · exact hne
      · obtain ⟨t1, h1⟩ := progress s hI t hne
        rw [hstuck t1] at h1; cases h1
    refine ⟨hdone t, ?_⟩
    have := hC t
    rw [hdone t] at this
    simpa [nCommits] using this

/-- The results are those of the sequential clock run on the operations in the order of their commits
    (mutual exclusion makes every operation atomic).
    ASSUMPTION AND ITS TIE: `compile` runs every operation as `acquire ; load ; commit op ; release`, i.e. the whole
    read-modify-write of an operation inside ONE critical section of the clock's lock.  That this is what the Python source
    does is `Pyoda.GenAgree.C19.all_ops_atomic_in_source` (`PyodaProofs/GenAgreeC19.lean`; one theorem `gen_<op>_atomic` per
    public operation, checked on every run against the lock discipline record `<op>.lockInfo` that `tools/py2lean.py`
    recomputes from the AST: every access to `__now` / `__auto_advance` inside `with self.__lock:`, one section, no
    same-class call while holding the lock).  The same tie covers `all_ops_complete` and `concurrent_reads_distinct`. -/
theorem linearizable (c0 : FakeClock) (progs : Nat → List Op) (sched : List Nat) (s : Sys)
    (h : (Sys.init compile c0 progs).runSched sched = some s) :
    run c0 (s.log.map (fun e => e.2.1)) = (s.clock, s.log.map (fun e => e.2.2)) :=
  (reachable_inv c0 progs sched s h).2.1

/-! ### every schedule is finite -/

def sumTo (f : Nat → Nat) : Nat → Nat
  | 0 => 0
  | n + 1 => sumTo f n + f n

theorem sumTo_add (f g : Nat → Nat) (n : Nat) : sumTo (fun t => f t + g t) n = sumTo f n + sumTo g n := by
  induction n with
  | zero => rfl
  | succ n ih => simp only [sumTo, ih]; omega

theorem sumTo_ind (x n : Nat) : sumTo (fun t => if x = t then 1 else 0) n = if x < n then 1 else 0 := by
  induction n with
  | zero => rfl
  | succ n ih =>
    simp only [sumTo, ih]
    by_cases h1 : x < n
    · have : x ≠ n := by omega
      simp [h1, this]; omega
    · by_cases h2 : x = n
      · subst h2; simp
      · have : ¬ x < n + 1 := by omega
        simp [h1, h2, this]

theorem sumTo_le (f g : Nat → Nat) (h : ∀ t, f t ≤ g t) (n : Nat) : sumTo f n ≤ sumTo g n := by
  induction n with
  | zero => exact Nat.le_refl _
  | succ n ih => simp only [sumTo]; have := h n; omega

theorem sumTo_mul (k : Nat) (f : Nat → Nat) (n : Nat) : sumTo (fun t => k * f t) n = k * sumTo f n := by
  induction n with
  | zero => rfl
  | succ n ih => simp only [sumTo, ih, Nat.mul_add]

theorem sumTo_zero (n : Nat) : sumTo (fun _ => 0) n = 0 := by
  induction n with
  | zero => rfl
  | succ n ih => simp only [sumTo, ih]

theorem length_eq_sum_count (l : List Nat) (n : Nat) (h : ∀ x ∈ l, x < n) :
    l.length = sumTo (fun t => l.count t) n := by
  induction l with
  | nil => simpa using (sumTo_zero n).symm
  | cons x rest ih =>
    have h1 := ih (fun y hy => h y (List.mem_cons_of_mem _ hy))
    have hx := h x (List.mem_cons_self ..)
    have : (fun t => (x :: rest).count t) = (fun t => rest.count t + (if x = t then 1 else 0)) := by
      funext t
      rw [List.count_cons]
      by_cases e : x = t <;> simp [e]
    rw [this, sumTo_add, sumTo_ind, if_pos hx, ← h1]
    simp

/-- With finitely many threads (`progs t = []` from `n` on) every schedule has at most
    `4 · (total number of operations)` steps: no schedule blocks or spins forever. -/
theorem schedule_length_bounded (c0 : FakeClock) (progs : Nat → List Op) (n : Nat)
    (hn : ∀ t, n ≤ t → progs t = []) (sched : List Nat) (s : Sys)
    (h : (Sys.init compile c0 progs).runSched sched = some s) :
    sched.length ≤ 4 * sumTo (fun t => (progs t).length) n := by
  have hb := (all_ops_complete c0 progs sched s h).1
  have hlt : ∀ x ∈ sched, x < n := by
    intro x hx
    by_cases hxn : x < n
    · exact hxn
    · have h0 := hb x
      rw [hn x (by omega)] at h0
      have := List.count_pos_iff.mpr hx
      simp at h0; omega
  rw [length_eq_sum_count sched n hlt, ← sumTo_mul]
  exact sumTo_le _ _ hb n

/-! ### concurrent reads -/

theorem commit_mem_compileProg (p : List Op) (op : Op) (h : Act.commit op ∈ compileProg compile p) : op ∈ p := by
  induction p with
  | nil => simp [compileProg] at h
  | cons a rest ih =>
    simp only [compileProg, compile, List.cons_append, List.nil_append, List.mem_cons] at h
    rcases h with h | h | h | h | h
    · cases h
    · cases h
    · cases h; exact List.mem_cons_self ..
    · cases h
    · exact List.mem_cons_of_mem _ (ih h)

/-- only reads are pending and only reads have been committed -/
def RInv (s : Sys) : Prop :=
  (∀ t op, Act.commit op ∈ (s.thr t).acts → op = .read) ∧ (∀ e ∈ s.log, e.2.1 = Op.read)

theorem rinv_step (s s' : Sys) (t : Nat) (hR : RInv s) (h : s.step t = some s') : RInv s' := by
  obtain ⟨h1, h2⟩ := hR
  unfold Sys.step at h
  cases hacts : (s.thr t).acts with
  | nil => rw [hacts] at h; cases h
  | cons a r =>
    rw [hacts] at h
    have htail : ∀ op, Act.commit op ∈ r → op = .read := fun op hm =>
      h1 t op (by rw [hacts]; exact List.mem_cons_of_mem _ hm)
    have key : ∀ (x : Thread), x.acts = r → ∀ t' op, Act.commit op ∈ (s.setThr t x t').acts → op = .read := by
      intro x hx t' op hm
      by_cases e : t' = t
      · subst e; rw [setThr_same, hx] at hm; exact htail op hm
      · rw [setThr_other s t t' _ e] at hm; exact h1 t' op hm
    cases a with
    | acquire =>
      cases hl : s.lock with
      | some x => rw [hl] at h; cases h
      | none =>
        rw [hl] at h; simp only [Option.some.injEq] at h; subst h
        exact ⟨key _ rfl, h2⟩
    | release => simp only [Option.some.injEq] at h; subst h; exact ⟨key _ rfl, h2⟩
    | load => simp only [Option.some.injEq] at h; subst h; exact ⟨key _ rfl, h2⟩
    | commit op =>
      simp only [Option.some.injEq] at h; subst h
      refine ⟨key _ rfl, ?_⟩
      intro e he
      rcases List.mem_append.mp he with he | he
      · exact h2 e he
      · simp only [List.mem_singleton] at he; subst he
        exact h1 t op (by rw [hacts]; exact List.mem_cons_self ..)

/-- **Concurrent reads never return the same instant twice.** Any number of threads that only read a
    clock whose auto-advance is not zero: under every interleaving, the instants returned (to all threads
    together, `s.log` lists them in commit order) are pairwise distinct. -/
theorem concurrent_reads_distinct (c0 : FakeClock) (hc : CWF c0) (ha : C03.val c0.auto ≠ 0)
    (progs : Nat → List Op) (hr : ∀ t op, op ∈ progs t → op = Op.read) (sched : List Nat) (s : Sys)
    (h : (Sys.init compile c0 progs).runSched sched = some s) :
    Distinct (s.log.map (fun e => e.2.2)) := by
  have hR : RInv s := by
    refine runSched_induction RInv (fun s t s' => rinv_step s s' t) sched _ s ?_ h
    refine ⟨?_, ?_⟩
    · intro t op hm
      exact hr t op (commit_mem_compileProg _ op hm)
    · intro e he; simp [Sys.init] at he
  have hops : s.log.map (fun e => e.2.1) = List.replicate s.log.length Op.read := by
    rw [List.eq_replicate_iff]
    refine ⟨by simp, ?_⟩
    intro b hb
    obtain ⟨e, he, rfl⟩ := List.mem_map.mp hb
    exact hR.2 e he
  have hlin := linearizable c0 progs sched s h
  rw [hops] at hlin
  have := sequential_reads_distinct c0 hc ha s.log.length
  rw [hlin] at this
  exact this

/-! ### the pinned `advance_<unit>` -/

/-- With the pinned lock discipline (`advance_<unit>` takes the lock and then calls `advance`, which
    takes it again) a single thread calling `advance_seconds(1)` reaches, after one step, a state in
    which it still has work but no thread can ever step: the call blocks forever. -/
theorem advanceUnit_blocks_counterexample (c : FakeClock) :
    ∃ s, (Sys.init compilePinned c (fun t => if t = 0 then [.advanceUnit .seconds 1] else [])).runSched [0] = some s ∧
      (s.thr 0).acts ≠ [] ∧ ∀ t, s.step t = none := by
  refine ⟨_, rfl, ?_, ?_⟩
  · simp [Sys.init, Sys.setThr, compileProg, compilePinned]
  · intro t
    by_cases e : t = 0
    · subst e; simp [Sys.init, Sys.step, Sys.setThr, compileProg, compilePinned]
    · simp [Sys.init, Sys.step, Sys.setThr, compileProg, e]

/-! ## ZonedClock -/

/-- A ZonedClock getter is one read of the wrapped clock, passed through the view. -/
theorem zonedClock_spec {α} (view : Instant → R α) (c : FakeClock) :
    (zonedRead view c).1 = (step c .read).1 ∧
    (zonedRead view c).2 = (match (step c .read).2 with
      | .instant i => view i | .err e => .error e | _ => .error .other) ∧
    ((step c .read).2 = .instant c.now ∨ ∃ e, (step c .read).2 = .err e) := by
  refine ⟨?_, ?_, ?_⟩
  · simp only [zonedRead]; split <;> simp_all
  · simp only [zonedRead]; split <;> simp_all
  · simp only [step, commitStep]
    cases c.now.plus c.auto <;> simp

/-! ## the hypotheses are satisfiable and the models compute on concrete values -/

def c5 : FakeClock := ⟨⟨⟨0, 0⟩⟩, ⟨0, 5⟩⟩
def twoReaders : Nat → List Op := fun t => if t < 2 then [.read, .read] else []

example : CWF c5 := by
  simp only [CWF, IOk, DOk, C03.Norm, C03.IValid, C03.InRange, c5, NPD, Instant.MIN_DAYS, Instant.MAX_DAYS,
    Duration.MIN_DAYS, Duration.MAX_DAYS]
  omega
example : C03.val c5.auto ≠ 0 := by simp [C03.val, c5, NPD]
example : (run c5 [.read, .read, .advanceUnit .seconds 1, .read, .advanceUnit .days 9999999999, .getAuto]).2 =
    [.instant ⟨⟨0, 0⟩⟩, .instant ⟨⟨0, 5⟩⟩, .unit, .instant ⟨⟨0, 1000000010⟩⟩, .err .valueError, .dur ⟨0, 5⟩] := by decide
/-- two threads, each `read ; read`, interleaved at operation granularity: four distinct instants -/
example : ((Sys.init compile c5 twoReaders).runSched [0, 0, 0, 0, 1, 1, 1, 1, 1, 1, 1, 1, 0, 0, 0, 0]).map
    (fun s => s.log.map (fun e => (e.1, e.2.2))) =
    some [(0, .instant ⟨⟨0, 0⟩⟩), (1, .instant ⟨⟨0, 5⟩⟩), (1, .instant ⟨⟨0, 10⟩⟩), (0, .instant ⟨⟨0, 15⟩⟩)] := by decide
/-- a thread cannot enter while another holds the lock: this schedule is not executable -/
example : ((Sys.init compile c5 twoReaders).runSched [0, 1]).isSome = false := by decide

end Pyoda.C19
