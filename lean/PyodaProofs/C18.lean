/-
  C18 — Interval and DateInterval behave as the sets of instants or days they denote.
  `dset I` is the set of day numbers a DateInterval denotes (a predicate `Int → Prop`), `WF I` the
  constructor's invariant; `iset s e` the half-open set of nanosecond values an Interval built from the
  optional bounds `s`, `e` denotes.
-/
import PyodaModel.Intervals
import PyodaProofs.Basic
import PyodaProofs.C03

namespace Pyoda.C18
open Pyoda Pyoda.Intervals Pyoda.Intervals.DateInterval

/-- the set of day numbers `[start, end]` denotes -/
def dset (I : DateInterval) : Int → Prop := fun d => I.s.day ≤ d ∧ d ≤ I.e.day
/-- what `DateInterval.__init__` establishes -/
def WF (I : DateInterval) : Prop := I.s.cal = I.e.cal ∧ I.s.day ≤ I.e.day
def Overlap (A B : DateInterval) : Prop := ∃ d, dset A d ∧ dset B d
/-- adjacent = disjoint with no day between them -/
def Adjacent (A B : DateInterval) : Prop := A.e.day + 1 = B.s.day ∨ B.e.day + 1 = A.s.day

local macro "unfold_di" : tactic =>
  `(tactic| simp only [DateInterval.new, containsDate, containsInterval, DateInterval.inter, DateInterval.union,
      DateInterval.len, DateInterval.beq, LDate.lt, LDate.le, LDate.gt, LDate.min, LDate.max, LDate.daysBetween,
      bind, Except.bind, pure, Except.pure, dset, WF, Overlap, Adjacent] at *)

/-! ### construction -/

theorem new_ok_iff (s e : LDate) (I : DateInterval) :
    DateInterval.new s e = .ok I ↔ (s.cal = e.cal ∧ s.day ≤ e.day) ∧ I = ⟨s, e⟩ := by
  obtain ⟨cs, ds⟩ := s
  obtain ⟨ce, de⟩ := e
  unfold_di
  by_cases hc : cs = ce
  · subst hc
    by_cases hd : de < ds
    · simp [hd]; omega
    · simp [hd]; constructor
      · intro h; exact ⟨by omega, h.symm⟩
      · intro h; exact h.2.symm
  · simp [hc]

/-- Construction rejects exactly an end before the start and mixed calendars (with `ValueError`). -/
theorem new_rejects_iff (s e : LDate) :
    DateInterval.new s e = .error .valueError ↔ (s.cal ≠ e.cal ∨ e.day < s.day) := by
  obtain ⟨cs, ds⟩ := s
  obtain ⟨ce, de⟩ := e
  unfold_di
  by_cases hc : cs = ce
  · subst hc
    by_cases hd : de < ds <;> simp [hd]
  · simp [hc]

theorem new_total (s e : LDate) :
    (∃ I, DateInterval.new s e = .ok I ∧ WF I) ∨ DateInterval.new s e = .error .valueError := by
  by_cases h : s.cal = e.cal ∧ s.day ≤ e.day
  · left; exact ⟨⟨s, e⟩, (new_ok_iff s e _).mpr ⟨h, rfl⟩, h⟩
  · right; rw [new_rejects_iff]; omega

theorem new_wf (s e : LDate) (I : DateInterval) (h : DateInterval.new s e = .ok I) : WF I := by
  obtain ⟨h1, rfl⟩ := (new_ok_iff s e I).mp h; exact h1

/-! ### membership, length, iteration -/

/-- `d in I` for a date of the interval's calendar is membership in `[start, end]`. -/
theorem mem_iff (I : DateInterval) (hI : WF I) (d : Int) :
    ∃ b, containsDate I ⟨I.s.cal, d⟩ = .ok b ∧ (b = true ↔ dset I d) := by
  obtain ⟨⟨c1, s⟩, ⟨c2, e⟩⟩ := I
  obtain ⟨hc, _⟩ := hI
  simp only at hc; subst hc
  unfold_di
  by_cases h1 : s ≤ d <;> by_cases h2 : d ≤ e <;> simp [h1, h2]

theorem mem_other_calendar (I : DateInterval) (c : Nat) (d : Int) (h : c ≠ I.s.cal) :
    containsDate I ⟨c, d⟩ = .error .valueError := by
  unfold_di; simp [h]

/-- the days `start, start+1, …` (`n` of them) -/
def daysFrom (c : Nat) (s : Int) : Nat → List LDate
  | 0 => []
  | n + 1 => ⟨c, s⟩ :: daysFrom c (s + 1) n

theorem daysFrom_length (c : Nat) (s : Int) (n : Nat) : (daysFrom c s n).length = n := by
  induction n generalizing s with
  | zero => rfl
  | succ n ih => simp [daysFrom, ih]

theorem mem_daysFrom (c : Nat) (s : Int) (n : Nat) (x : LDate) :
    x ∈ daysFrom c s n ↔ x.cal = c ∧ s ≤ x.day ∧ x.day < s + n := by
  induction n generalizing s with
  | zero => simp only [daysFrom, List.not_mem_nil, false_iff]; omega
  | succ n ih =>
    simp only [daysFrom, List.mem_cons, ih]
    constructor
    · rintro (rfl | ⟨h1, h2, h3⟩)
      · exact ⟨rfl, by simp, by simp; omega⟩
      · exact ⟨h1, by omega, by omega⟩
    · rintro ⟨h1, h2, h3⟩
      by_cases hx : x.day = s
      · left; obtain ⟨xc, xd⟩ := x; simp only at h1 hx; subst h1; subst hx; rfl
      · right; exact ⟨h1, by omega, by omega⟩

theorem daysFrom_sorted (c : Nat) (s : Int) (n : Nat) :
    (daysFrom c s n).Pairwise (fun a b => a.day < b.day) := by
  induction n generalizing s with
  | zero => exact List.Pairwise.nil
  | succ n ih =>
    simp only [daysFrom, List.pairwise_cons]
    refine ⟨?_, ih _⟩
    intro x hx
    have := (mem_daysFrom c (s + 1) n x).mp hx
    show s < x.day
    omega

theorem iterLoop_spec (c : Nat) (s e : Int) (fuel : Nat) (k : Int) (hk : 0 ≤ k)
    (hke : s + k ≤ e) (hf : e - (s + k) + 1 ≤ fuel) :
    iterLoop ⟨⟨c, s⟩, ⟨c, e⟩⟩ fuel k = .ok (daysFrom c (s + k) (e - (s + k) + 1).toNat) := by
  induction fuel generalizing k with
  | zero => omega
  | succ f ih =>
    unfold iterLoop
    by_cases he : s + k = e
    · simp only [he, if_true]
      have h1 : (e - e + 1).toNat = 1 := by omega
      rw [h1]; rfl
    · have hne : (⟨c, s + k⟩ : LDate) ≠ ⟨c, e⟩ := by
        intro h; apply he; injection h
      simp only [hne, if_false]
      have := ih (k + 1) (by omega) (by omega) (by omega)
      rw [this]
      simp only [bind, Except.bind]
      have h1 : (e - (s + k) + 1).toNat = (e - (s + (k + 1)) + 1).toNat + 1 := by omega
      rw [h1]; simp only [daysFrom]
      have h2 : s + k + 1 = s + (k + 1) := by omega
      rw [h2]

/-- Iteration terminates (any fuel ≥ the length suffices) and yields `start, start+1, …, end`. -/
theorem iter_eq_range (I : DateInterval) (hI : WF I) (fuel : Nat) (hf : I.len ≤ fuel) :
    I.iter fuel = .ok (daysFrom I.s.cal I.s.day I.len.toNat) := by
  obtain ⟨⟨c1, s⟩, ⟨c2, e⟩⟩ := I
  obtain ⟨hc, hle⟩ := hI
  simp only at hc hle; subst hc
  simp only [DateInterval.len] at hf
  have := iterLoop_spec c1 s e fuel 0 (by omega) (by omega) (by omega)
  simp only [DateInterval.iter, DateInterval.len]
  rw [this]; simp

/-- `len` is the number of elements of the denoted set: iteration lists every member exactly once
    (strictly ascending) and `len` of them. -/
theorem len_eq_card (I : DateInterval) (hI : WF I) (fuel : Nat) (hf : I.len ≤ fuel) :
    ∃ l, I.iter fuel = .ok l ∧ (l.length : Int) = I.len ∧ l.Pairwise (fun a b => a.day < b.day) ∧
      ∀ x : LDate, x ∈ l ↔ x.cal = I.s.cal ∧ dset I x.day := by
  refine ⟨_, iter_eq_range I hI fuel hf, ?_, daysFrom_sorted _ _ _, ?_⟩
  · rw [daysFrom_length]; have := hI.2; simp only [DateInterval.len]; omega
  · intro x; rw [mem_daysFrom]; have := hI.2; simp only [DateInterval.len, dset]
    constructor <;> rintro ⟨h1, h2⟩ <;> exact ⟨h1, by omega⟩

theorem len_pos (I : DateInterval) (hI : WF I) : 1 ≤ I.len := by
  have := hI.2; simp only [DateInterval.len]; omega

/-! ### containment of intervals, equality -/

theorem subset_iff (A B : DateInterval) (hA : WF A) (hB : WF B) (hc : A.s.cal = B.s.cal) :
    ∃ b, containsInterval A B = .ok b ∧ (b = true ↔ ∀ d, dset B d → dset A d) := by
  obtain ⟨⟨c1, sa⟩, ⟨c2, ea⟩⟩ := A
  obtain ⟨⟨c3, sb⟩, ⟨c4, eb⟩⟩ := B
  obtain ⟨hac, ha⟩ := hA
  obtain ⟨hbc, hb⟩ := hB
  simp only at hac hbc hc ha hb
  subst hac; subst hbc; subst hc
  unfold_di
  by_cases h1 : sa ≤ sb <;> by_cases h2 : eb ≤ ea <;> simp [h1, h2]
  · intro d _ _; omega
  · exact ⟨eb, by omega, by omega, fun _ => by omega⟩
  · exact ⟨sb, by omega, by omega, fun h => by omega⟩
  · exact ⟨sb, by omega, by omega, fun h => by omega⟩

theorem subset_other_calendar (A B : DateInterval) (hc : B.s.cal ≠ A.s.cal) :
    containsInterval A B = .error .valueError := by
  unfold_di; simp [hc]

theorem eq_iff_same_set (A B : DateInterval) (hA : WF A) (hB : WF B) (hc : A.s.cal = B.s.cal) :
    A.beq B = true ↔ ∀ d, dset A d ↔ dset B d := by
  obtain ⟨⟨c1, sa⟩, ⟨c2, ea⟩⟩ := A
  obtain ⟨⟨c3, sb⟩, ⟨c4, eb⟩⟩ := B
  obtain ⟨hac, ha⟩ := hA
  obtain ⟨hbc, hb⟩ := hB
  simp only at hac hbc hc ha hb
  subst hac; subst hbc; subst hc
  simp only [DateInterval.beq, Bool.and_eq_true, decide_eq_true_eq, dset, LDate.mk.injEq, true_and]
  constructor
  · rintro ⟨h1, h2⟩ d; rw [h1, h2]
  · intro h
    have := h sa; have := h ea; have := h sb; have := h eb
    constructor <;> omega

theorem eq_iff_struct (A B : DateInterval) : A.beq B = true ↔ A = B := by
  obtain ⟨sa, ea⟩ := A
  obtain ⟨sb, eb⟩ := B
  simp [DateInterval.beq]

/-! ### intersection -/

/-- closed form of `&` on two well-formed intervals of one calendar -/
theorem inter_eval (c : Nat) (sa ea sb eb : Int) (_ha : sa ≤ ea) (_hb : sb ≤ eb) :
    DateInterval.inter ⟨⟨c, sa⟩, ⟨c, ea⟩⟩ ⟨⟨c, sb⟩, ⟨c, eb⟩⟩ = .ok (
      if sa ≤ sb ∧ eb ≤ ea then some ⟨⟨c, sb⟩, ⟨c, eb⟩⟩
      else if sb ≤ sa ∧ ea ≤ eb then some ⟨⟨c, sa⟩, ⟨c, ea⟩⟩
      else if sb ≤ sa ∧ sa ≤ eb then some ⟨⟨c, sa⟩, ⟨c, eb⟩⟩
      else if sb ≤ ea ∧ ea ≤ eb then some ⟨⟨c, sb⟩, ⟨c, ea⟩⟩
      else none) := by
  unfold_di
  by_cases h1 : sa ≤ sb <;> by_cases h2 : eb ≤ ea <;>
    by_cases h3 : sb ≤ sa <;> by_cases h4 : ea ≤ eb <;>
    by_cases h5 : sa ≤ eb <;> by_cases h6 : sb ≤ ea <;>
    simp [h1, h2, h3, h4, h5, h6] <;> first | omega | (rw [if_neg (by omega)])

/-- `A & B` never raises for two intervals of one calendar; it is the intersection of the two sets when
    that is non-empty and `None` exactly when the sets are disjoint. -/
theorem inter_spec (A B : DateInterval) (hA : WF A) (hB : WF B) (hc : A.s.cal = B.s.cal) :
    (∃ C, A.inter B = .ok (some C) ∧ WF C ∧ C.s.cal = A.s.cal ∧ (∀ d, dset C d ↔ dset A d ∧ dset B d))
    ∨ (A.inter B = .ok none ∧ ∀ d, ¬ (dset A d ∧ dset B d)) := by
  obtain ⟨⟨c1, sa⟩, ⟨c2, ea⟩⟩ := A
  obtain ⟨⟨c3, sb⟩, ⟨c4, eb⟩⟩ := B
  obtain ⟨hac, ha⟩ := hA
  obtain ⟨hbc, hb⟩ := hB
  simp only at hac hbc hc ha hb
  subst hac; subst hbc; subst hc
  rw [inter_eval c1 sa ea sb eb ha hb]
  simp only [dset, WF]
  by_cases g1 : sa ≤ sb ∧ eb ≤ ea
  · left; rw [if_pos g1]; exact ⟨_, rfl, ⟨rfl, hb⟩, rfl, fun d => by simp only; omega⟩
  · rw [if_neg g1]
    by_cases g2 : sb ≤ sa ∧ ea ≤ eb
    · left; rw [if_pos g2]; exact ⟨_, rfl, ⟨rfl, ha⟩, rfl, fun d => by simp only; omega⟩
    · rw [if_neg g2]
      by_cases g3 : sb ≤ sa ∧ sa ≤ eb
      · left; rw [if_pos g3]; exact ⟨_, rfl, ⟨rfl, g3.2⟩, rfl, fun d => by simp only; omega⟩
      · rw [if_neg g3]
        by_cases g4 : sb ≤ ea ∧ ea ≤ eb
        · left; rw [if_pos g4]; exact ⟨_, rfl, ⟨rfl, g4.1⟩, rfl, fun d => by simp only; omega⟩
        · right; rw [if_neg g4]; exact ⟨rfl, fun d => by omega⟩

theorem inter_some_iff (A B C : DateInterval) (hA : WF A) (hB : WF B) (hc : A.s.cal = B.s.cal) :
    A.inter B = .ok (some C) ↔ (WF C ∧ C.s.cal = A.s.cal ∧ (∀ d, dset C d ↔ dset A d ∧ dset B d)) := by
  rcases inter_spec A B hA hB hc with ⟨C', h1, h2, h3, h4⟩ | ⟨h1, h5⟩
  · rw [h1]
    constructor
    · intro h; cases h; exact ⟨h2, h3, h4⟩
    · rintro ⟨g2, g3, g4⟩
      have hs : ∀ d, dset C d ↔ dset C' d := fun d => by rw [g4, h4]
      have := (eq_iff_same_set C C' g2 h2 (by omega)).mpr hs
      rw [eq_iff_struct] at this; rw [this]
  · rw [h1]
    constructor
    · intro h; cases h
    · rintro ⟨g2, _, g4⟩
      exact (h5 C.s.day ((g4 _).mp ⟨Int.le_refl _, g2.2⟩)).elim

theorem inter_none_iff (A B : DateInterval) (hA : WF A) (hB : WF B) (hc : A.s.cal = B.s.cal) :
    A.inter B = .ok none ↔ ¬ Overlap A B := by
  rcases inter_spec A B hA hB hc with ⟨C, h1, h2, _, h4⟩ | ⟨h1, h2⟩
  · rw [h1]
    constructor
    · intro h; cases h
    · intro h; exfalso; apply h; exact ⟨C.s.day, (h4 _).mp ⟨Int.le_refl _, h2.2⟩⟩
  · rw [h1]
    constructor
    · rintro _ ⟨d, hd⟩; exact h2 d hd
    · intro _; rfl

theorem inter_other_calendar (A B : DateInterval) (hc : A.s.cal ≠ B.s.cal) :
    A.inter B = .error .valueError := by
  have : B.s.cal ≠ A.s.cal := fun h => hc h.symm
  unfold_di; simp [this]

/-! ### union -/

theorem union_eval (c : Nat) (sa ea sb eb : Int) (_ha : sa ≤ ea) (_hb : sb ≤ eb) :
    DateInterval.union ⟨⟨c, sa⟩, ⟨c, ea⟩⟩ ⟨⟨c, sb⟩, ⟨c, eb⟩⟩ = .ok (
      if (if eb > ea then eb else ea) - (if sb < sa then sb else sa) ≥ (ea - sa + 1) + (eb - sb + 1) then none
      else some ⟨⟨c, if sb < sa then sb else sa⟩, ⟨c, if eb > ea then eb else ea⟩⟩) := by
  unfold_di
  by_cases h1 : sb < sa <;> by_cases h2 : eb > ea <;> simp [h1, h2] <;>
  (split <;> first | omega | rfl | (rw [if_neg (by omega)]))

/-- `A | B` is defined exactly when the sets overlap or are adjacent, and is then their union. -/
theorem union_spec (A B : DateInterval) (hA : WF A) (hB : WF B) (hc : A.s.cal = B.s.cal) :
    (∃ C, A.union B = .ok (some C) ∧ (Overlap A B ∨ Adjacent A B) ∧ WF C ∧ C.s.cal = A.s.cal ∧
        (∀ d, dset C d ↔ dset A d ∨ dset B d))
    ∨ (A.union B = .ok none ∧ ¬ (Overlap A B ∨ Adjacent A B)) := by
  obtain ⟨⟨c1, sa⟩, ⟨c2, ea⟩⟩ := A
  obtain ⟨⟨c3, sb⟩, ⟨c4, eb⟩⟩ := B
  obtain ⟨hac, ha⟩ := hA
  obtain ⟨hbc, hb⟩ := hB
  simp only at hac hbc hc ha hb
  subst hac; subst hbc; subst hc
  rw [union_eval c1 sa ea sb eb ha hb]
  simp only [dset, WF, Overlap, Adjacent]
  by_cases g : (if eb > ea then eb else ea) - (if sb < sa then sb else sa) ≥ (ea - sa + 1) + (eb - sb + 1)
  · right; rw [if_pos g]
    refine ⟨rfl, ?_⟩
    rintro (⟨d, hd⟩ | h) <;> (split at g <;> split at g <;> omega)
  · left; rw [if_neg g]
    refine ⟨_, rfl, ?_, ⟨rfl, ?_⟩, rfl, ?_⟩
    · by_cases hov : sa ≤ eb ∧ sb ≤ ea
      · left
        by_cases hm : sa ≤ sb
        · exact ⟨sb, ⟨by omega, by omega⟩, by omega, by omega⟩
        · exact ⟨sa, ⟨by omega, by omega⟩, by omega, by omega⟩
      · right; split at g <;> split at g <;> omega
    · simp only; split <;> split <;> omega
    · intro d; simp only; split at g <;> split at g <;> simp only [*, if_true, if_false] <;> omega

theorem union_some_iff (A B C : DateInterval) (hA : WF A) (hB : WF B) (hc : A.s.cal = B.s.cal) :
    A.union B = .ok (some C) ↔
      (Overlap A B ∨ Adjacent A B) ∧ WF C ∧ C.s.cal = A.s.cal ∧ (∀ d, dset C d ↔ dset A d ∨ dset B d) := by
  rcases union_spec A B hA hB hc with ⟨C', h1, h2, h3, h4, h5⟩ | ⟨h1, h2⟩
  · rw [h1]
    constructor
    · intro h; cases h; exact ⟨h2, h3, h4, h5⟩
    · rintro ⟨_, g3, g4, g5⟩
      -- two well-formed intervals of one calendar denoting the same set are equal
      have hs : ∀ d, dset C d ↔ dset C' d := fun d => by rw [g5, h5]
      have := (eq_iff_same_set C C' g3 h3 (by omega)).mpr hs
      rw [eq_iff_struct] at this; rw [this]
  · rw [h1]
    constructor
    · intro h; cases h
    · rintro ⟨g, _⟩; exact (h2 g).elim

theorem union_none_iff (A B : DateInterval) (hA : WF A) (hB : WF B) (hc : A.s.cal = B.s.cal) :
    A.union B = .ok none ↔ ¬ (Overlap A B ∨ Adjacent A B) := by
  rcases union_spec A B hA hB hc with ⟨C', h1, h2, _⟩ | ⟨h1, h2⟩
  · rw [h1]
    constructor
    · intro h; cases h
    · intro h; exact (h h2).elim
  · rw [h1]; exact ⟨fun _ => h2, fun _ => rfl⟩

theorem union_other_calendar (A B : DateInterval) (hc : B.s.cal ≠ A.s.cal) :
    A.union B = .error .valueError := by
  unfold_di; simp [hc]

/-- "overlapping or adjacent" in set terms: some day of one is a day, or the day before a day, of the other. -/
theorem overlap_or_adjacent_iff (A B : DateInterval) (hA : WF A) (hB : WF B) :
    (Overlap A B ∨ Adjacent A B) ↔ ∃ d, (dset A d ∧ (dset B d ∨ dset B (d + 1))) ∨ (dset B d ∧ dset A (d + 1)) := by
  simp only [Overlap, Adjacent, dset, WF] at *
  constructor
  · rintro (⟨d, hd⟩ | h | h)
    · exact ⟨d, Or.inl ⟨hd.1, Or.inl hd.2⟩⟩
    · exact ⟨A.e.day, Or.inl ⟨by omega, Or.inr (by omega)⟩⟩
    · exact ⟨B.e.day, Or.inr ⟨by omega, by omega⟩⟩
  · rintro ⟨d, ⟨h1, h2 | h2⟩ | ⟨h1, h2⟩⟩
    · exact Or.inl ⟨d, h1, h2⟩
    · by_cases h : A.e.day + 1 = B.s.day
      · exact Or.inr (Or.inl h)
      · by_cases h' : B.s.day ≤ d
        · exact Or.inl ⟨d, h1, ⟨h', by omega⟩⟩
        · exact Or.inl ⟨d + 1, ⟨by omega, by omega⟩, h2⟩
    · by_cases h : B.e.day + 1 = A.s.day
      · exact Or.inr (Or.inr h)
      · by_cases h' : A.s.day ≤ d
        · exact Or.inl ⟨d, ⟨h', by omega⟩, h1⟩
        · exact Or.inl ⟨d + 1, h2, ⟨by omega, by omega⟩⟩

/-! ## Interval (half-open, optionally unbounded) -/

open Pyoda.Intervals.Interval

/-- value of an instant in nanoseconds since the epoch -/
def ival (i : Instant) : Int := C03.val i.dur
/-- a value the public API can produce: normalised and inside `[Instant.min_value, Instant.max_value]` -/
def IOk (i : Instant) : Prop := C03.Norm i.dur ∧ C03.IValid i
def OptOk : Option Instant → Prop
  | none => True
  | some i => IOk i
/-- the set the interval built from `s`, `e` denotes: `s ≤ t < e`, `none` = unbounded on that side -/
def iset (s e : Option Instant) (t : Int) : Prop :=
  (∀ a, s = some a → ival a ≤ t) ∧ (∀ b, e = some b → t < ival b)

local macro "unfold_iv1" : tactic =>
  `(tactic| simp only [Interval.new, Interval.contains, Interval.hasStart, Interval.hasEnd, Interval.start,
      Interval.end, Interval.duration, Instant.isValid, Duration.lt,
      Duration.le, Duration.beq, IOk, OptOk, C03.Norm, C03.IValid, C03.val, ival, iset,
      Bool.and_eq_true, Bool.or_eq_true, decide_eq_true_eq] at *)
local macro "unfold_iv2" : tactic =>
  `(tactic| simp only [Instant.beforeMin, Instant.afterMax,
      Instant.MIN_DAYS, Instant.MAX_DAYS, Duration.MIN_DAYS, Duration.MAX_DAYS, NPD] at *)
local macro "unfold_iv" : tactic => `(tactic| (unfold_iv1; try unfold_iv2))

def sOf : Option Instant → Instant | none => Instant.beforeMin | some x => x
def eOf : Option Instant → Instant | none => Instant.afterMax | some x => x

theorem interval_new_eq (s e : Option Instant) :
    Interval.new s e = if Duration.lt (eOf e).dur (sOf s).dur then .error .valueError else .ok ⟨sOf s, eOf e⟩ := by
  cases s <;> cases e <;> rfl

/-- Construction succeeds iff the end is not before the start (either may be absent). -/
theorem interval_new_ok_iff (s e : Option Instant) (hs : OptOk s) (he : OptOk e) :
    (∃ I, Interval.new s e = .ok I) ↔ ∀ a b, s = some a → e = some b → ival a ≤ ival b := by
  rw [interval_new_eq]
  by_cases hlt : Duration.lt (eOf e).dur (sOf s).dur = true
  · rw [if_pos hlt]
    constructor
    · rintro ⟨I, h⟩; cases h
    · intro h; exfalso
      cases s <;> cases e <;> simp only [sOf, eOf] at hlt <;> unfold_iv
      · omega
      · omega
      · omega
      · rename_i a b; have := h a b rfl rfl; omega
  · rw [if_neg hlt]
    constructor
    · intro _ a b h1 h2; subst h1; subst h2
      simp only [sOf, eOf] at hlt; unfold_iv; omega
    · intro _; exact ⟨_, rfl⟩

theorem interval_new_rejects (s e : Option Instant) (x : PyExc) (h : Interval.new s e = .error x) :
    x = .valueError := by
  rw [interval_new_eq] at h
  split at h
  · cases h; rfl
  · cases h

theorem interval_new_ok (s e : Option Instant) (I : Interval) (h : Interval.new s e = .ok I) :
    I = ⟨sOf s, eOf e⟩ := by
  rw [interval_new_eq] at h
  split at h
  · cases h
  · cases h; rfl

/-- `t in I` is `start ≤ t < end`, an absent bound being below/above every valid instant. -/
theorem mem_iff_halfopen (s e : Option Instant) (I : Interval) (t : Instant) (hs : OptOk s) (he : OptOk e)
    (ht : IOk t) (h : Interval.new s e = .ok I) : I.contains t = true ↔ iset s e (ival t) := by
  rw [interval_new_ok s e I h]
  cases s <;> cases e <;> simp only [sOf, eOf] <;> unfold_iv <;>
    simp only [Option.some.injEq, forall_eq', reduceCtorEq, false_implies, implies_true, true_and, and_true, iff_true] <;> omega

/-- `has_start` / `has_end` say exactly whether the bound was given. -/
theorem has_bounds_iff (s e : Option Instant) (I : Interval) (hs : OptOk s) (he : OptOk e)
    (h : Interval.new s e = .ok I) : I.hasStart = s.isSome ∧ I.hasEnd = e.isSome := by
  rw [interval_new_ok s e I h]
  cases s <;> cases e <;> simp only [sOf, eOf] <;> unfold_iv1 <;> simp <;> (try unfold_iv2) <;> omega

/-- `start` / `end` return the given bound and raise `RuntimeError` exactly when it is absent. -/
theorem bound_raises_iff_unbounded (s e : Option Instant) (I : Interval) (hs : OptOk s) (he : OptOk e)
    (h : Interval.new s e = .ok I) :
    (I.start = (match s with | some a => .ok a | none => .error .runtimeError : R Instant)) ∧
    (I.end = (match e with | some b => .ok b | none => .error .runtimeError : R Instant)) := by
  have hI := interval_new_ok s e I h
  subst hI
  cases s <;> cases e <;> simp only [sOf, eOf] <;> unfold_iv1 <;> simp <;> (try unfold_iv2) <;> omega

/-- `duration` is `end − start` exactly for a bounded interval and raises `RuntimeError` otherwise. -/
theorem duration_eq (s e : Option Instant) (I : Interval) (hs : OptOk s) (he : OptOk e)
    (h : Interval.new s e = .ok I) :
    match s, e with
    | some a, some b => ∃ d, I.duration = .ok d ∧ C03.Norm d ∧ C03.val d = ival b - ival a ∧ 0 ≤ C03.val d
    | _, _ => I.duration = .error .runtimeError := by
  obtain ⟨hb1, hb2⟩ := bound_raises_iff_unbounded s e I hs he h
  have hok := (interval_new_ok_iff s e hs he).mp ⟨I, h⟩
  cases s with
  | none =>
    simp only [Interval.duration, hb1, hb2]
    cases e <;> rfl
  | some a =>
    cases e with
    | none => simp only [Interval.duration, hb1, hb2]; rfl
    | some b =>
      simp only [Interval.duration, hb1, hb2, bind, Except.bind, Instant.minus]
      have hab := hok a b rfl rfl
      simp only [OptOk, IOk] at hs he
      cases hd : Duration.sub b.dur a.dur with
      | error x =>
        exfalso
        have := (C03.sub_raises_iff b.dur a.dur he.1 hs.1).mp ⟨x, hd⟩
        simp only [C03.NsInRange, C03.val, ival, Duration.MIN_NANOS, Duration.MAX_NANOS,
          Duration.MIN_DAYS, Duration.MAX_DAYS, NPD] at *
        obtain ⟨hs1, hs2⟩ := hs
        obtain ⟨he1, he2⟩ := he
        simp only [C03.Norm, C03.IValid, Instant.MIN_DAYS, Instant.MAX_DAYS, NPD] at hs1 hs2 he1 he2
        omega
      | ok d =>
        obtain ⟨g1, _, g3⟩ := C03.sub_exact b.dur a.dur d he.1 hs.1 hd
        refine ⟨d, rfl, g1, ?_, ?_⟩
        · simp only [ival]; exact g3
        · simp only [ival] at hab; omega

/-- A bounded interval is empty iff its start equals its end. -/
theorem empty_iff_start_eq_end (a b : Instant) (hab : ival a ≤ ival b) :
    (∀ t, ¬ iset (some a) (some b) t) ↔ ival a = ival b := by
  simp only [iset, Option.some.injEq, forall_eq']
  constructor
  · intro h; have := h (ival a); omega
  · intro h t; omega

theorem interval_eq_iff (s e s' e' : Option Instant) (I J : Interval)
    (h : Interval.new s e = .ok I) (h' : Interval.new s' e' = .ok J) :
    I.beq J = true ↔ I = J := by
  simp only [Interval.beq, Bool.and_eq_true, C03.eq_iff_struct]
  cases I with | mk a b => cases J with | mk c d =>
  cases a; cases b; cases c; cases d
  simp

/-! ### the hypotheses are satisfiable on concrete values -/

example : WF ⟨⟨0, -5⟩, ⟨0, 7⟩⟩ := by simp [WF]
example : DateInterval.inter ⟨⟨3, 1⟩, ⟨3, 10⟩⟩ ⟨⟨3, 5⟩, ⟨3, 20⟩⟩ = .ok (some ⟨⟨3, 5⟩, ⟨3, 10⟩⟩) := by decide
example : DateInterval.union ⟨⟨3, 1⟩, ⟨3, 4⟩⟩ ⟨⟨3, 5⟩, ⟨3, 20⟩⟩ = .ok (some ⟨⟨3, 1⟩, ⟨3, 20⟩⟩) := by decide
example : DateInterval.union ⟨⟨3, 1⟩, ⟨3, 3⟩⟩ ⟨⟨3, 5⟩, ⟨3, 20⟩⟩ = .ok none := by decide
example : DateInterval.iter ⟨⟨3, 1⟩, ⟨3, 3⟩⟩ 3 = .ok [⟨3, 1⟩, ⟨3, 2⟩, ⟨3, 3⟩] := by decide
example : (Interval.new none (some ⟨⟨0, 0⟩⟩)).map (·.duration) = .ok (.error .runtimeError) := by decide

end Pyoda.C18
