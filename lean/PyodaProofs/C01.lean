/-
  Property C01 — every calendar maps day numbers to valid dates one-to-one and in order.

  The theorems are stated for an arbitrary calendar description `c : Calc` under the well-formedness predicate
  `WF c` (C01Lemmas.lean); `C01Instances.lean` proves `WF` for the calendars of the library.
-/
import PyodaModel.Calendar
import PyodaProofs.Basic
import PyodaProofs.C01Lemmas
import PyodaProofs.C01Instances

namespace Pyoda.C01
open Pyoda Pyoda.Calendar

variable {c : Calc}

theorem checkRange_ok {v lo hi : Int} (h1 : lo ≤ v) (h2 : v ≤ hi) : checkRange v lo hi = .ok () := by
  unfold checkRange; rw [if_neg (by omega)]

theorem checkRange_err {v lo hi : Int} (h : v < lo ∨ v > hi) : checkRange v lo hi = .error .valueError := by
  unfold checkRange; rw [if_pos h]

theorem minDays_eq (h : WF c) : minDays c = .ok (c.start c.minYear) := by
  have := h.year_order
  unfold minDays; exact startR_ok h (by omega) (by omega)

theorem maxDays_eq (h : WF c) : maxDays c = .ok (c.start (c.maxYear + 1) - 1) := by
  have := h.year_order
  unfold maxDays; rw [startR_ok h (by omega) (by omega)]; rfl

theorem splitR_ok (h : WF c) {y doy : Int} (hy : c.minYear ≤ y) (hy2 : y ≤ c.maxYear)
    (h1 : 1 ≤ doy) (h2 : doy ≤ c.len y) : c.splitR y doy = .ok (c.split y doy) := by
  unfold Calc.splitR
  rw [yearOk_ok h hy (by omega)]
  cases hg : c.splitGuard
  · rfl
  · show (do (if true = true then checkRange doy 1 (c.len y) else pure ()); pure (c.split y doy)) = _
    rw [if_pos rfl, checkRange_ok h1 h2]; rfl

/-- what `fromDays` returns for a day inside year `y` -/
theorem fromDays_in_year (h : WF c) (d y : Int) (hy : c.minYear ≤ y) (hy2 : y ≤ c.maxYear)
    (hs : c.start y ≤ d) (he : d < c.start (y + 1)) :
    fromDays c d = .ok (y, (c.split y (d - c.start y + 1)).1, (c.split y (d - c.start y + 1)).2) := by
  have hr := h.recur y hy hy2
  have hs1 := start_mono h (y := c.minYear) (z := y) (by omega) hy (by omega)
  have hs2 := start_mono h (y := y + 1) (z := c.maxYear + 1) (by omega) (by omega) (by omega)
  unfold fromDays
  rw [minDays_eq h, maxDays_eq h]
  show (do checkRange d (c.start c.minYear) (c.start (c.maxYear + 1) - 1); ymdOfDays c d) = _
  rw [checkRange_ok (by omega) (by omega)]
  show ymdOfDays c d = _
  unfold ymdOfDays
  rw [getYear_spec h d y hy hy2 hs he]
  show (do let p ← c.splitR y (d - c.start y + 1); pure (y, p.1, p.2)) = _
  rw [splitR_ok h hy hy2 (by omega) (by omega)]
  rfl

theorem validate_ok (_h : WF c) {y m dd : Int} (hy : c.minYear ≤ y) (hy2 : y ≤ c.maxYear)
    (hm : 1 ≤ m) (hm2 : m ≤ c.months y) (hd : 1 ≤ dd) (hd2 : dd ≤ c.dim y m) : validate c y m dd = .ok () := by
  unfold validate
  rw [checkRange_ok hy hy2]
  show (do checkRange m 1 (c.months y); checkRange dd 1 (c.dim y m)) = _
  rw [checkRange_ok hm hm2]
  exact checkRange_ok hd hd2

theorem validate_inv {y m dd : Int} (hv : validate c y m dd = .ok ()) :
    c.minYear ≤ y ∧ y ≤ c.maxYear ∧ 1 ≤ m ∧ m ≤ c.months y ∧ 1 ≤ dd ∧ dd ≤ c.dim y m := by
  unfold validate at hv
  rw [checkRange_bind] at hv
  obtain ⟨h1, hv⟩ := hv
  rw [checkRange_bind] at hv
  obtain ⟨h2, hv⟩ := hv
  unfold checkRange at hv
  by_cases hc : dd < 1 ∨ dd > c.dim y m
  · rw [if_pos hc] at hv; cases hv
  · omega

theorem daysOfYmdRaw_eq (h : WF c) {y m dd : Int} (hy : c.minYear ≤ y) (hy2 : y ≤ c.maxYear) :
    daysOfYmdRaw c y m dd = .ok (c.start y + c.toMonth y m + dd - 1) := by
  unfold daysOfYmdRaw
  rw [startR_ok h hy (by omega)]; rfl

/-! ## the property -/

/-- (1) day → (year, month, day) → day is the identity on the advertised range, and the date produced is one the
    calendar accepts. -/
theorem days_ymd_days (h : WF c) (d : Int) (hlo : c.start c.minYear ≤ d) (hhi : d ≤ c.start (c.maxYear + 1) - 1) :
    ∃ y m dd, fromDays c d = .ok (y, m, dd) ∧ validate c y m dd = .ok () ∧ daysOfYmd c y m dd = .ok d := by
  obtain ⟨y, hy, hy2, hs, he⟩ := year_exists h d hlo (by omega)
  have hr := h.recur y hy hy2
  obtain ⟨s1, s2, s3, s4, s5⟩ := h.split_ok y (d - c.start y + 1) hy hy2 (by omega) (by omega)
  refine ⟨y, _, _, fromDays_in_year h d y hy hy2 hs he, validate_ok h hy hy2 s1 s2 s3 s4, ?_⟩
  unfold daysOfYmd
  rw [validate_ok h hy hy2 s1 s2 s3 s4]
  show daysOfYmdRaw c y _ _ = _
  rw [daysOfYmdRaw_eq h hy hy2]
  congr 1; omega

/-- (2) every (year, month, day) the calendar accepts converts to a day inside the advertised range and back
    to itself. -/
theorem ymd_days_ymd (h : WF c) (y m dd : Int) (hv : validate c y m dd = .ok ()) :
    ∃ d, daysOfYmd c y m dd = .ok d ∧ c.start c.minYear ≤ d ∧ d ≤ c.start (c.maxYear + 1) - 1 ∧
      fromDays c d = .ok (y, m, dd) := by
  obtain ⟨hy, hy2, hm, hm2, hd, hd2⟩ := validate_inv hv
  obtain ⟨u1, u2, u3⟩ := h.unsplit_ok y m dd hy hy2 hm hm2 hd hd2
  have hr := h.recur y hy hy2
  have hs1 := start_mono h (y := c.minYear) (z := y) (by omega) hy (by omega)
  have hs2 := start_mono h (y := y + 1) (z := c.maxYear + 1) (by omega) (by omega) (by omega)
  refine ⟨c.start y + c.toMonth y m + dd - 1, ?_, by omega, by omega, ?_⟩
  · unfold daysOfYmd; rw [hv]; exact daysOfYmdRaw_eq h hy hy2
  · rw [fromDays_in_year h _ y hy hy2 (by omega) (by omega)]
    have e : c.start y + c.toMonth y m + dd - 1 - c.start y + 1 = c.toMonth y m + dd := by omega
    rw [e, u3]

/-- (6) days outside the advertised range are rejected, not mapped -/
theorem out_of_range_rejected (h : WF c) (d : Int)
    (hout : d < c.start c.minYear ∨ d > c.start (c.maxYear + 1) - 1) : fromDays c d = .error .valueError := by
  unfold fromDays
  rw [minDays_eq h, maxDays_eq h]
  show (do checkRange d (c.start c.minYear) (c.start (c.maxYear + 1) - 1); ymdOfDays c d) = _
  rw [checkRange_err hout]; rfl

/-- (6') field values outside the tables are rejected by the constructor path -/
theorem invalid_fields_rejected (y m dd : Int)
    (hbad : y < c.minYear ∨ y > c.maxYear ∨ m < 1 ∨ m > c.months y ∨ dd < 1 ∨ dd > c.dim y m) :
    daysOfYmd c y m dd = .error .valueError := by
  unfold daysOfYmd validate
  by_cases h1 : y < c.minYear ∨ y > c.maxYear
  · rw [checkRange_err h1]; rfl
  · rw [checkRange_ok (by omega) (by omega)]
    show (do (do checkRange m 1 (c.months y); checkRange dd 1 (c.dim y m)); daysOfYmdRaw c y m dd) = _
    by_cases h2 : m < 1 ∨ m > c.months y
    · rw [checkRange_err h2]; rfl
    · rw [checkRange_ok (by omega) (by omega)]
      show (do checkRange dd 1 (c.dim y m); daysOfYmdRaw c y m dd) = _
      rw [checkRange_err (by omega)]; rfl

/-- (4) derived fields agree with the mapping: month and day lie within the reported months-in-year and
    days-in-month, day-of-year counts from the first day of the year, and the year length is the distance between
    successive year starts. -/
theorem derived_fields (h : WF c) (d : Int) (hlo : c.start c.minYear ≤ d) (hhi : d ≤ c.start (c.maxYear + 1) - 1) :
    ∃ y m dd, fromDays c d = .ok (y, m, dd) ∧ c.minYear ≤ y ∧ y ≤ c.maxYear ∧
      1 ≤ m ∧ m ≤ c.months y ∧ 1 ≤ dd ∧ dd ≤ c.dim y m ∧
      dayOfYear c y m dd = d - c.start y + 1 ∧ 1 ≤ dayOfYear c y m dd ∧ dayOfYear c y m dd ≤ c.len y ∧
      c.len y = c.start (y + 1) - c.start y := by
  obtain ⟨y, hy, hy2, hs, he⟩ := year_exists h d hlo (by omega)
  have hr := h.recur y hy hy2
  obtain ⟨s1, s2, s3, s4, s5⟩ := h.split_ok y (d - c.start y + 1) hy hy2 (by omega) (by omega)
  refine ⟨y, _, _, fromDays_in_year h d y hy hy2 hs he, hy, hy2, s1, s2, s3, s4, ?_, ?_, ?_, by omega⟩
  all_goals (unfold dayOfYear; omega)

/-- the ordering of two dates of the same calendar follows their day numbers (core of (3)) -/
theorem cmp_neg_of_days_lt (h : WF c) (d1 d2 : Int) (hlo : c.start c.minYear ≤ d1) (h12 : d1 < d2)
    (hhi : d2 ≤ c.start (c.maxYear + 1) - 1) (a b : Int × Int × Int)
    (ha : fromDays c d1 = .ok a) (hb : fromDays c d2 = .ok b) : cmpYmd c a b < 0 := by
  obtain ⟨y1, hy1, hy12, hs1, he1⟩ := year_exists h d1 hlo (by omega)
  obtain ⟨y2, hy2, hy22, hs2, he2⟩ := year_exists h d2 (by omega) (by omega)
  have hr1 := h.recur y1 hy1 hy12
  have hr2 := h.recur y2 hy2 hy22
  rw [fromDays_in_year h d1 y1 hy1 hy12 hs1 he1] at ha
  rw [fromDays_in_year h d2 y2 hy2 hy22 hs2 he2] at hb
  obtain ⟨p1, p2, p3, p4, p5⟩ := h.split_ok y1 (d1 - c.start y1 + 1) hy1 hy12 (by omega) (by omega)
  obtain ⟨q1, q2, q3, q4, q5⟩ := h.split_ok y2 (d2 - c.start y2 + 1) hy2 hy22 (by omega) (by omega)
  generalize (c.split y1 (d1 - c.start y1 + 1)).1 = m1 at *
  generalize (c.split y1 (d1 - c.start y1 + 1)).2 = e1 at *
  generalize (c.split y2 (d2 - c.start y2 + 1)).1 = m2 at *
  generalize (c.split y2 (d2 - c.start y2 + 1)).2 = e2 at *
  cases ha; cases hb
  have hm1 := h.pack_month y1 hy1 hy12
  have hm2 := h.pack_month y2 hy2 hy22
  have hd1 := h.pack_day y1 m1 hy1 hy12 p1 p2
  have hd2 := h.pack_day y2 m2 hy2 hy22 q1 q2
  have hyle : y1 ≤ y2 := by
    by_cases hq : y2 < y1
    · have := start_mono h (y := y2 + 1) (z := y1) (by omega) (by omega) (by omega); omega
    · omega
  unfold cmpYmd
  by_cases hyy : y1 = y2
  · subst hyy
    -- same year: compare (month key, day)
    have hkey : c.monthKey y1 m1 < c.monthKey y1 m2 ∨ (m1 = m2 ∧ e1 < e2) := by
      by_cases hmm : m1 = m2
      · subst hmm; right; exact ⟨rfl, by omega⟩
      · left
        by_cases hlt : c.monthKey y1 m1 < c.monthKey y1 m2
        · exact hlt
        · by_cases heq : c.monthKey y1 m1 = c.monthKey y1 m2
          · exact absurd (h.month_key_inj y1 m1 m2 hy1 hy12 p1 p2 q1 q2 heq) hmm
          · have := h.month_order y1 m2 m1 hy1 hy12 q1 q2 p1 p2 (by omega)
            omega
    cases hoc : c.ownCompare
    · have hk := h.plain_key hoc
      rw [hk y1 m1 hy1 hy12 p1 p2, hk y1 m2 hy1 hy12 q1 q2] at hkey
      simp only [Bool.false_eq_true, if_false]
      unfold packYmd
      rcases hkey with hk1 | ⟨rfl, hk2⟩ <;> omega
    · simp only [if_true]
      rcases hkey with hk1 | ⟨rfl, hk2⟩
      · rw [if_neg (by omega), if_pos (by omega)]; omega
      · rw [if_neg (by omega), if_neg (by omega)]; omega
  · have hlt : y1 < y2 := by omega
    cases hoc : c.ownCompare
    · simp only [Bool.false_eq_true, if_false]
      unfold packYmd
      omega
    · simp only [if_true]
      rw [if_pos (by omega)]; omega

/-- (3) consecutive (indeed any two increasing) days yield strictly increasing dates under the calendar's own
    ordering -/
theorem strict_mono (h : WF c) (d1 d2 : Int) (hlo : c.start c.minYear ≤ d1) (h12 : d1 < d2)
    (hhi : d2 ≤ c.start (c.maxYear + 1) - 1) :
    ∃ a b, fromDays c d1 = .ok a ∧ fromDays c d2 = .ok b ∧ cmpYmd c a b < 0 ∧ cmpYmd c b a > 0 ∧ a ≠ b := by
  obtain ⟨y1, m1, e1, ha, _, _⟩ := days_ymd_days h d1 hlo (by omega)
  obtain ⟨y2, m2, e2, hb, hvb, hdb⟩ := days_ymd_days h d2 (by omega) hhi
  have hlt := cmp_neg_of_days_lt h d1 d2 hlo h12 hhi _ _ ha hb
  refine ⟨_, _, ha, hb, hlt, ?_, ?_⟩
  · -- antisymmetry of the comparison function itself
    unfold cmpYmd at hlt ⊢
    cases hoc : c.ownCompare
    · rw [hoc] at hlt; simp only [Bool.false_eq_true, if_false] at hlt ⊢; omega
    · rw [hoc] at hlt; simp only [if_true] at hlt ⊢
      by_cases hy : y1 - y2 ≠ 0
      · rw [if_pos hy] at hlt; rw [if_pos (by omega)]; omega
      · rw [if_neg hy] at hlt; rw [if_neg (by omega)]
        have hyy : y1 = y2 := by omega
        subst hyy
        by_cases hm : c.monthKey y1 m1 - c.monthKey y1 m2 ≠ 0
        · rw [if_pos hm] at hlt; rw [if_pos (by omega)]; omega
        · rw [if_neg hm] at hlt; rw [if_neg (by omega)]; omega
  · intro heq
    rw [heq] at hlt
    unfold cmpYmd at hlt
    cases hoc : c.ownCompare
    · rw [hoc] at hlt; simp only [Bool.false_eq_true, if_false] at hlt; omega
    · rw [hoc] at hlt; simp only [if_true] at hlt
      rw [if_neg (by omega), if_neg (by omega)] at hlt; omega

/-- (5) era / year-of-era convert back to the same absolute year, and the era is one the calendar lists -/
theorem era_roundtrip (y : Int) (hy : c.minYear ≤ y) (hy2 : y ≤ c.maxYear) :
    absoluteYear c (yearOfEra c y) (eraOf c y) = .ok y ∧ eraOf c y ∈ eras c := by
  unfold absoluteYear yearOfEra eraOf eras
  cases ht : c.twoEras
  · simp only [Bool.false_eq_true, if_false, if_true]
    rw [checkRange_ok hy hy2]
    exact ⟨rfl, by simp⟩
  · simp only [if_true]
    by_cases hp : y > 0
    · simp only [hp, if_true]
      rw [checkRange_ok (by omega) hy2]
      exact ⟨rfl, by simp⟩
    · simp only [hp, if_false]
      rw [if_neg (by decide), if_pos trivial, checkRange_ok (by omega) (by omega)]
      refine ⟨?_, by simp⟩
      show Except.ok (1 - (1 - y)) = Except.ok y
      congr 1; omega

/-- (5') every era the calendar lists is the era of some year of the calendar (two-era calendars reach both
    sides of year 1) -/
theorem eras_reachable (hne : c.minYear ≤ c.maxYear) (h2 : c.twoEras = true → c.minYear ≤ 0 ∧ 1 ≤ c.maxYear) :
    ∀ e ∈ eras c, ∃ y, c.minYear ≤ y ∧ y ≤ c.maxYear ∧ eraOf c y = e := by
  intro e he
  unfold eras at he
  unfold eraOf
  cases ht : c.twoEras
  · rw [ht] at he; simp at he
    exact ⟨c.minYear, by omega, hne, by simp [he]⟩
  · rw [ht] at he; simp at he
    obtain ⟨a1, a2⟩ := h2 ht
    rcases he with rfl | rfl
    · exact ⟨0, a1, by omega, by simp⟩
    · exact ⟨1, by omega, a2, by simp⟩

/-- (7) converting a date to another calendar and back is the identity (both conversions go through the shared
    day line); when the day is outside the target's range the conversion is rejected -/
theorem with_calendar_roundtrip {c1 c2 : Calc} (h1 : WF c1) (h2 : WF c2) (y m dd : Int)
    (hv : validate c1 y m dd = .ok ()) :
    ∃ d, daysOfYmd c1 y m dd = .ok d ∧
      ((c2.start c2.minYear ≤ d ∧ d ≤ c2.start (c2.maxYear + 1) - 1 →
          ∃ y' m' d', fromDays c2 d = .ok (y', m', d') ∧ daysOfYmd c2 y' m' d' = .ok d ∧
            fromDays c1 d = .ok (y, m, dd)) ∧
       (d < c2.start c2.minYear ∨ d > c2.start (c2.maxYear + 1) - 1 → fromDays c2 d = .error .valueError)) := by
  obtain ⟨d, hd, _, _, hback⟩ := ymd_days_ymd h1 y m dd hv
  refine ⟨d, hd, ?_, out_of_range_rejected h2 d⟩
  intro ⟨ha, hb⟩
  obtain ⟨y', m', d', hf, _, hdd⟩ := days_ymd_days h2 d ha hb
  exact ⟨y', m', d', hf, hdd, hback⟩

/-- (8) the bit-packed representation returns the fields it was given -/
theorem pack_unpack (y m d ord : Int) (hy : -16383 ≤ y ∧ y ≤ 16384) (hm : 1 ≤ m ∧ m ≤ 32) (hd : 1 ≤ d ∧ d ≤ 64)
    (ho : 0 ≤ ord ∧ ord < 64) :
    unpackYear (packYmdc y m d ord) = y ∧ unpackMonth (packYmdc y m d ord) = m ∧
    unpackDay (packYmdc y m d ord) = d ∧ unpackOrd (packYmdc y m d ord) = ord := by
  unfold unpackYear unpackMonth unpackDay unpackOrd packYmdc int32Overflow
  simp (disch := decide) only [fdiv_pos, fmod_pos]
  omega

/-- dates produced from days survive the packed representation unchanged -/
theorem viaPacked_id (h : WF c) (ord : Int) (ho : 0 ≤ ord ∧ ord < 64) (y m dd : Int)
    (hv : validate c y m dd = .ok ()) : viaPacked ord (y, m, dd) = (y, m, dd) := by
  obtain ⟨hy, hy2, hm, hm2, hd, hd2⟩ := validate_inv hv
  have := h.pack_year
  have := h.pack_month y hy hy2
  have := h.pack_day y m hy hy2 hm hm2
  obtain ⟨a, b, c', _⟩ := pack_unpack y m dd ord (by omega) (by omega) (by omega) ho
  unfold viaPacked
  simp only [a, b, c']

/-! ## the calendars of the library (instances proved in C01Instances*.lean) -/

/-- ISO / Gregorian: every day of [-4371222, 2932896] (years -9998 … 9999) round-trips through a valid date -/
theorem gregorian_days_ymd_days (d : Int) (h1 : -4371222 ≤ d) (h2 : d ≤ 2932896) :
    ∃ y m dd, fromDays Greg.cal d = .ok (y, m, dd) ∧ validate Greg.cal y m dd = .ok () ∧
      daysOfYmd Greg.cal y m dd = .ok d :=
  days_ymd_days greg_wf d h1 h2

theorem gregorian_ymd_days_ymd (y m dd : Int) (hv : validate Greg.cal y m dd = .ok ()) :
    ∃ d, daysOfYmd Greg.cal y m dd = .ok d ∧ -4371222 ≤ d ∧ d ≤ 2932896 ∧ fromDays Greg.cal d = .ok (y, m, dd) :=
  ymd_days_ymd greg_wf y m dd hv

theorem gregorian_out_of_range_rejected (d : Int) (h : d < -4371222 ∨ d > 2932896) :
    fromDays Greg.cal d = .error .valueError :=
  out_of_range_rejected greg_wf d h

theorem julian_days_ymd_days (d : Int) (h1 : -4370934 ≤ d) (h2 : d ≤ 2932604) :
    ∃ y m dd, fromDays Jul.cal d = .ok (y, m, dd) ∧ validate Jul.cal y m dd = .ok () ∧
      daysOfYmd Jul.cal y m dd = .ok d :=
  days_ymd_days jul_wf d h1 h2

theorem coptic_days_ymd_days (d : Int) (h1 : -615558 ≤ d) (h2 : d ≤ 2932845) :
    ∃ y m dd, fromDays Copt.cal d = .ok (y, m, dd) ∧ validate Copt.cal y m dd = .ok () ∧
      daysOfYmd Copt.cal y m dd = .ok d :=
  days_ymd_days copt_wf d h1 h2

/-! non-vacuity: the hypotheses hold on concrete, non-trivial values and the functions compute real dates -/
example : fromDays Greg.cal 19782 = .ok (2024, 2, 29) := by decide
example : daysOfYmd Greg.cal 2024 2 29 = .ok 19782 := by decide
example : daysOfYmd Greg.cal 2023 2 29 = .error .valueError := by decide
example : fromDays Greg.cal (-4371222) = .ok (-9998, 1, 1) ∧ fromDays Greg.cal 2932896 = .ok (9999, 12, 31) := by decide
example : fromDays Greg.cal 2932897 = .error .valueError := by decide
example : fromDays Jul.cal 19782 = .ok (2024, 2, 16) := by decide
example : fromDays Copt.cal 19782 = .ok (1740, 6, 21) := by decide
example : cmpYmd Greg.cal (2024, 2, 29) (2024, 3, 1) < 0 := by decide
example : absoluteYear Greg.cal (yearOfEra Greg.cal (-5)) (eraOf Greg.cal (-5)) = .ok (-5) := by decide
example : unpackYear (packYmdc (-9998) 12 31 1) = -9998 := by decide

end Pyoda.C01
