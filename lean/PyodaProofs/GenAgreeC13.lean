/-
  GenAgreeC13 — agreement between `_Cache` GENERATED from pyoda_time's Python source (`PyodaGen/C13.lean`:
  `utility/_cache.py`, the object's dict + deque + size as an explicit state, `get_or_add` with its eviction loop as a
  fuel-recursive function) and the LRU model of C13 (`PyodaModel/Cache/Lru.lean`: `step`, `evict`).

  The generated code works on Python's dict operations (`k in d`, `d[k]`, `d[k] = v`, `del d[k]` on an insertion-ordered
  association list); the model on `find` / `del` / append.  They coincide on dicts, i.e. association lists WITHOUT
  duplicate keys (`DictOK`), which the eviction keeps (`evict_keeps_dict`; a hit leaves the state unchanged).  The value factory is an abstract callee.
  `with self.__lock:` is translated as its body: one thread (the interleavings are C13's own concurrency model).
  The last section (`gen_Cache_*_atomic`, `cache_ops_atomic_in_source`) ties that model's locked region to the lock discipline of the source.
-/
import PyodaGen.C13
import PyodaModel.Cache.Lru
import PyodaProofs.Basic

namespace Pyoda.GenAgree.C13
open Pyoda Pyoda.Cache.Lru Pyoda.Gen.Cache

/-- an association list that is a dict: no key twice -/
def DictOK (d : List (Int × Int)) : Prop := (d.map (·.1)).Nodup

theorem contains_iff (d : List (Int × Int)) (k : Int) : Gen.pyIntDictContains d k = (find d k).isSome := by
  induction d with
  | nil => rfl
  | cons e r ih =>
    obtain ⟨k', v⟩ := e
    unfold Gen.pyIntDictContains at *
    simp only [List.any_cons, find]
    by_cases h : k' = k
    · simp [h]
    · simp [h, ih]

theorem get_eq (d : List (Int × Int)) (k : Int) :
    Gen.pyIntDictGet d k = (match find d k with | some v => .ok v | none => .error .keyError) := by
  induction d with
  | nil => rfl
  | cons e r ih =>
    obtain ⟨k', v⟩ := e
    unfold Gen.pyIntDictGet at *
    simp only [List.find?_cons, find]
    by_cases h : k' = k
    · simp [h]
    · simp [h, ih]

theorem set_absent (d : List (Int × Int)) (k v : Int) (h : find d k = none) : Gen.pyIntDictSet d k v = d ++ [(k, v)] := by
  unfold Gen.pyIntDictSet
  have : d.any (·.1 = k) = false := by
    have := contains_iff d k
    unfold Gen.pyIntDictContains at this
    rw [this, h]; rfl
  simp [this]

theorem del_absent (d : List (Int × Int)) (k : Int) (h : find d k = none) : del d k = d := by
  induction d with
  | nil => rfl
  | cons e r ih =>
    obtain ⟨k', v⟩ := e
    simp only [find] at h
    by_cases hk : k' = k
    · simp [hk] at h
    · simp only [hk, if_false] at h
      simp [del, hk, ih h]

theorem find_none_of_not_mem (d : List (Int × Int)) (k : Int) (h : k ∉ d.map (·.1)) : find d k = none := by
  induction d with
  | nil => rfl
  | cons e r ih =>
    obtain ⟨k', v⟩ := e
    simp only [List.map_cons, List.mem_cons, not_or] at h
    simp only [find]
    rw [if_neg (fun hh => h.1 hh.symm)]
    exact ih h.2

theorem filter_eq_del (d : List (Int × Int)) (k : Int) (hd : DictOK d) : d.filter (fun e => e.1 ≠ k) = del d k := by
  induction d with
  | nil => rfl
  | cons e r ih =>
    obtain ⟨k', v⟩ := e
    unfold DictOK at hd ih
    simp only [List.map_cons, List.nodup_cons] at hd
    by_cases hk : k' = k
    · subst hk
      simp only [del, if_true, List.filter_cons]
      simp only [ne_eq, not_true_eq_false, decide_false]
      have : find r k' = none := find_none_of_not_mem r k' hd.1
      have e2 := ih hd.2
      rw [del_absent r k' this] at e2
      simpa using e2
    · simp only [del, hk, if_false, List.filter_cons]
      have := ih hd.2
      simp only [ne_eq, hk, not_false_eq_true, decide_true, if_true]
      rw [this]

theorem find_some_of_mem (d : List (Int × Int)) (k : Int) (h : k ∈ d.map (·.1)) : find d k ≠ none := by
  induction d with
  | nil => simp at h
  | cons e r ih =>
    obtain ⟨k', v⟩ := e
    simp only [find]
    by_cases hk : k' = k
    · simp [hk]
    · simp only [hk, if_false]
      simp only [List.map_cons, List.mem_cons] at h
      rcases h with h | h
      · exact absurd h.symm hk
      · exact ih h

theorem del_keys_sub (d : List (Int × Int)) (k x : Int) (h : x ∈ (del d k).map (·.1)) : x ∈ d.map (·.1) := by
  induction d with
  | nil => exact h
  | cons e r ih =>
    obtain ⟨k', v⟩ := e
    by_cases hk : k' = k
    · simp only [del, hk, if_true] at h
      simp only [List.map_cons, List.mem_cons]; right; exact h
    · simp only [del, hk, if_false, List.map_cons, List.mem_cons] at h ⊢
      rcases h with h | h
      · left; exact h
      · right; exact ih h

theorem del_ok (d : List (Int × Int)) (k : Int) (hd : DictOK d) : DictOK (del d k) := by
  induction d with
  | nil => exact hd
  | cons e r ih =>
    obtain ⟨k', v⟩ := e
    unfold DictOK at *
    simp only [List.map_cons, List.nodup_cons] at hd
    by_cases hk : k' = k
    · simp only [del, hk, if_true]; exact hd.2
    · simp only [del, hk, if_false, List.map_cons, List.nodup_cons]
      exact ⟨fun hm => hd.1 (del_keys_sub r k k' hm), ih hd.2⟩

/-- a generated cache state as the model's -/
def toM (c : CacheSt) : State := ⟨c.dict, c.keys⟩

/-- the eviction loop `while len(dictionary) > size: evict = key_list.popleft(); if evict in dictionary: del dictionary[evict]` -/
theorem gen_Cache_getOrAdd_loop1_eq (f : Int → Int) (size : Nat) : ∀ (fuel : Nat) (keys : List Int) (d : List (Int × Int)), DictOK d → keys.length < fuel →
    Gen.C13.Cache.getOrAdd.loop1 f fuel ⟨(size : Int), keys, d⟩ =
      (match evict size d keys with
       | (s', none) => .ok ⟨(size : Int), s'.keys, s'.dict⟩
       | (_, some e) => .error e) := by
  intro fuel
  induction fuel with
  | zero => intro _ _ _ h; omega
  | succ fuel ih =>
    intro keys d hd hlt
    unfold Gen.C13.Cache.getOrAdd.loop1
    simp only [Gen.pyLenList]
    by_cases hgt : d.length > size
    · have hgt' : (d.length : Int) > (size : Int) := by omega
      rw [if_pos hgt']
      cases keys with
      | nil => simp [Gen.pyIntListPopleft, evict, hgt, bind, Except.bind]
      | cons k ks =>
        simp only [Gen.pyIntListPopleft, bind, Except.bind, evict, hgt, if_true]
        rw [contains_iff]
        cases hf : find d k with
        | none =>
          simp only [Option.isSome_none, Bool.false_eq_true, if_false]
          rw [del_absent d k hf]
          exact ih ks d hd (by simp only [List.length_cons] at hlt; omega)
        | some v =>
          simp only [Option.isSome_some, if_true]
          have hc : d.any (·.1 = k) = true := by
            have := contains_iff d k
            unfold Gen.pyIntDictContains at this
            rw [this, hf]; rfl
          simp only [Gen.pyIntDictDel, hc, if_true]
          rw [filter_eq_del d k hd]
          exact ih ks (del d k) (del_ok d k hd) (by simp only [List.length_cons] at hlt; omega)
    · have hgt' : ¬ (d.length : Int) > (size : Int) := by omega
      rw [if_neg hgt']
      cases keys with
      | nil => simp [evict, hgt]
      | cons k ks => simp [evict, hgt]

/-- eviction keeps the dict a dict, so every state `get_or_add` leaves behind satisfies the hypothesis of the next call -/
theorem evict_keeps_dict (size : Nat) : ∀ (keys : List Int) (d : List (Int × Int)), DictOK d → DictOK (evict size d keys).1.dict := by
  intro keys
  induction keys with
  | nil => intro d hd; simpa [evict] using hd
  | cons k ks ih =>
    intro d hd
    simp only [evict]
    by_cases h : d.length > size
    · simp only [h, if_true]; exact ih (del d k) (del_ok d k hd)
    · simp only [h, if_false]; exact hd

theorem gen_Cache_new_eq (size : Int) : Gen.C13.Cache.new size = ⟨size, [], []⟩ := rfl
theorem gen_Cache_count_eq (c : CacheSt) : Gen.C13.Cache.count c = (c.dict.length : Int) := rfl
theorem gen_Cache_clear_eq (c : CacheSt) : Gen.C13.Cache.clear c = ((), ⟨c.size, [], []⟩) := rfl

/-- `get_or_add(key)` is one `step` of the LRU model -/
theorem gen_Cache_getOrAdd_eq (f : Int → Int) (size : Nat) (keys : List Int) (d : List (Int × Int)) (hd : DictOK d) (k : Int) :
    Gen.C13.Cache.getOrAdd f ⟨(size : Int), keys, d⟩ k =
      (match step f size ⟨d, keys⟩ k with
       | (s', ⟨.ok v, _⟩) => .ok (v, ⟨(size : Int), s'.keys, s'.dict⟩)
       | (_, ⟨.error e, _⟩) => .error e) := by
  unfold Gen.C13.Cache.getOrAdd step
  simp only [contains_iff]
  cases hf : find d k with
  | some v =>
    simp only [Option.isSome_some, if_true, get_eq, hf]
    rfl
  | none =>
    simp only [Option.isSome_none, Bool.false_eq_true, if_false, Gen.pyListAppend, Bool.not_false, if_true]
    rw [set_absent d k (f k) hf]
    have hd' : DictOK (d ++ [(k, f k)]) := by
      unfold DictOK at *
      rw [List.map_append, List.nodup_append]
      refine ⟨hd, by simp, ?_⟩
      intro a ha b hb
      simp only [List.map_cons, List.map_nil, List.mem_singleton] at hb
      subst hb
      intro hab; subst hab
      exact find_some_of_mem d a ha hf
    have hl := gen_Cache_getOrAdd_loop1_eq f size ((keys ++ [k]).length + 1) (keys ++ [k]) (d ++ [(k, f k)]) hd' (Nat.lt_succ_self _)
    rw [hl]
    rcases he : evict size (d ++ [(k, f k)]) (keys ++ [k]) with ⟨s', _ | e⟩
    · simp only [bind, Except.bind, get_eq]
      cases hf2 : find s'.dict k <;> rfl
    · rfl

/-! ## The locked region of `_Cache`, tied to the source (builder B10)

`lru_locked_linearizable` (`PyodaProofs/C13Conc.lean`) splits the body of `get_or_add` into its dict / deque operations and
lets any schedule interleave them — ALL of them between one `acquire` and one `release` of the cache's lock.  The translation
above reads `with self.__lock:` as its body, so the equations cannot see whether that is so in the source; the lock
discipline records emitted with the generated definitions (`<op>.lockInfo`, `PyodaGen/LockInfo.lean`) can: every access to
`__dictionary` / `__key_list` of `get_or_add`, `count`, `clear` lies inside one `with self.__lock:` block and no member of the
class is used while the lock is held.  (`get_or_add` calls the value factory inside the lock — `callbacksInside`; the model takes
it as a pure function, a factory that re-enters the same cache would block on the non-re-entrant lock.) -/

theorem gen_Cache_getOrAdd_atomic : Gen.C13.Cache.getOrAdd.lockInfo.Atomic := by decide
theorem gen_Cache_count_atomic : Gen.C13.Cache.count.lockInfo.Atomic := by decide
theorem gen_Cache_clear_atomic : Gen.C13.Cache.clear.lockInfo.Atomic := by decide

/-- the only thing `get_or_add` calls while holding the lock is the value factory -/
theorem gen_Cache_getOrAdd_callbacks : Gen.C13.Cache.getOrAdd.lockInfo.callbacksInside = ["__value_factory"] ∧
    Gen.C13.Cache.getOrAdd.lockInfo.shared = ["__dictionary", "__key_list"] := by decide

/-- **The locked-region assumption of `lru_locked_linearizable` holds in the source**: each translated operation of `_Cache`
    that touches the dictionary or the queue does so inside exactly one critical section of the cache's lock. -/
theorem cache_ops_atomic_in_source :
    ∀ i ∈ [Gen.C13.Cache.getOrAdd.lockInfo, Gen.C13.Cache.count.lockInfo, Gen.C13.Cache.clear.lockInfo],
      i.Atomic ∧ i.shared ≠ [] ∧ i.sections = 1 := by decide

end Pyoda.GenAgree.C13
