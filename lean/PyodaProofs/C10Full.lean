/-
  C10 — `Period` arithmetic on LocalDateTime / LocalDate / LocalTime with the date part inside the model
  (PyodaModel/TimeOfDay/Full.lean), for all 19 calendars.  Property theorems; helper lemmas in C10DateSteps.lean.

  Hypotheses shared by the calendar-generic theorems: `H : C09.Evaluated` (C01's `wfCheck` for the five calendars
  without a symbolic well-formedness proof and `yearLenCheck` for the two Hebrew calendars; discharged by evaluation on
  the compiled driver on every run of the check, oracle "evaluated-hypotheses") and `hk : Cal.ofOrd n = some k`
  (`k` is one of the 19 calendars of the library).
  `C09.Valid k.c s`: the calendar accepts the (year, month, day) triple; `Valid t`: 0 ≤ nanosecond-of-day < 24 h;
  `C09.dayNo k.c s`: the day number (`_days_since_epoch`) of the triple.
-/
import PyodaModel.TimeOfDay.Full
import PyodaProofs.C10DateSteps

namespace Pyoda.C10
open Pyoda Pyoda.Calendar Pyoda.DateArith Pyoda.PeriodOps

/-! ### `Period.__add__`, `__sub__`, the inline negation of `minus` -/

theorem period_add_spec (p q : Period) :
    (add p q).years = p.years + q.years ∧ (add p q).months = p.months + q.months ∧ (add p q).weeks = p.weeks + q.weeks ∧
    (add p q).days = p.days + q.days ∧ (add p q).hours = p.hours + q.hours ∧ (add p q).minutes = p.minutes + q.minutes ∧
    (add p q).seconds = p.seconds + q.seconds ∧ (add p q).milliseconds = p.milliseconds + q.milliseconds ∧
    (add p q).ticks = p.ticks + q.ticks ∧ (add p q).nanoseconds = p.nanoseconds + q.nanoseconds :=
  ⟨rfl, rfl, rfl, rfl, rfl, rfl, rfl, rfl, rfl, rfl⟩

theorem period_sub_spec (p q : Period) :
    (sub p q).years = p.years - q.years ∧ (sub p q).months = p.months - q.months ∧ (sub p q).weeks = p.weeks - q.weeks ∧
    (sub p q).days = p.days - q.days ∧ (sub p q).hours = p.hours - q.hours ∧ (sub p q).minutes = p.minutes - q.minutes ∧
    (sub p q).seconds = p.seconds - q.seconds ∧ (sub p q).milliseconds = p.milliseconds - q.milliseconds ∧
    (sub p q).ticks = p.ticks - q.ticks ∧ (sub p q).nanoseconds = p.nanoseconds - q.nanoseconds :=
  ⟨rfl, rfl, rfl, rfl, rfl, rfl, rfl, rfl, rfl, rfl⟩

theorem period_neg_spec (p : Period) :
    (neg p).years = -p.years ∧ (neg p).months = -p.months ∧ (neg p).weeks = -p.weeks ∧ (neg p).days = -p.days ∧
    (neg p).hours = -p.hours ∧ (neg p).minutes = -p.minutes ∧ (neg p).seconds = -p.seconds ∧
    (neg p).milliseconds = -p.milliseconds ∧ (neg p).ticks = -p.ticks ∧ (neg p).nanoseconds = -p.nanoseconds :=
  ⟨rfl, rfl, rfl, rfl, rfl, rfl, rfl, rfl, rfl, rfl⟩

theorem period_ext (p q : Period) (h1 : p.years = q.years) (h2 : p.months = q.months) (h3 : p.weeks = q.weeks)
    (h4 : p.days = q.days) (h5 : p.hours = q.hours) (h6 : p.minutes = q.minutes) (h7 : p.seconds = q.seconds)
    (h8 : p.milliseconds = q.milliseconds) (h9 : p.ticks = q.ticks) (h10 : p.nanoseconds = q.nanoseconds) : p = q := by
  cases p; cases q; simp only at *; simp only [*]

theorem timeTotal_add (p q : Period) : timeTotal (add p q) = timeTotal p + timeTotal q := by
  simp only [timeTotal, add]; c10_consts; omega

theorem timeTotal_neg (p : Period) : timeTotal (neg p) = -timeTotal p := by
  simp only [timeTotal, neg]; c10_consts; omega

/-- the component-wise operations form a commutative group; subtraction is addition of the negation; the total of the
    time units is additive -/
theorem period_algebra (p q r : Period) :
    add p q = add q p ∧ add (add p q) r = add p (add q r) ∧ add p zero = p ∧ add p (neg p) = zero ∧
    sub p q = add p (neg q) ∧ neg (neg p) = p ∧ sub (add p q) q = p ∧ neg (add p q) = add (neg p) (neg q) ∧
    timeTotal (add p q) = timeTotal p + timeTotal q ∧ timeTotal (neg p) = -timeTotal p := by
  refine ⟨?_, ?_, ?_, ?_, ?_, ?_, ?_, ?_, timeTotal_add p q, timeTotal_neg p⟩ <;>
    (apply period_ext <;> simp only [add, sub, neg, zero] <;> omega)

theorem hasTime_false_iff (p : Period) : hasTimeComponent p = false ↔
    p.hours = 0 ∧ p.minutes = 0 ∧ p.seconds = 0 ∧ p.milliseconds = 0 ∧ p.ticks = 0 ∧ p.nanoseconds = 0 := by
  simp only [hasTimeComponent, Bool.or_eq_false_iff, decide_eq_false_iff_not, ne_eq, Decidable.not_not, and_assoc]

theorem hasDate_false_iff (p : Period) : hasDateComponent p = false ↔
    p.years = 0 ∧ p.months = 0 ∧ p.weeks = 0 ∧ p.days = 0 := by
  simp only [hasDateComponent, Bool.or_eq_false_iff, decide_eq_false_iff_not, ne_eq, Decidable.not_not, and_assoc]

/-! ### the time units of a period -/

theorem timeSteps_total (t : LocalTime) (p : Period) (hv : Valid t) :
    Valid (LocalDateTime.timeSteps t (timePart p)).1 ∧
      t.nod + timeTotal p = (LocalDateTime.timeSteps t (timePart p)).2 * NPD + (LocalDateTime.timeSteps t (timePart p)).1.nod := by
  obtain ⟨h1, h2⟩ := timeSteps_exact t (timePart p) hv
  refine ⟨h1, ?_⟩
  have h2' : t.nod + p.hours * NPH + p.minutes * NPMin + p.seconds * NPS + p.milliseconds * NPMs + p.ticks * NPT
      + p.nanoseconds = (LocalDateTime.timeSteps t (timePart p)).2 * NPD + (LocalDateTime.timeSteps t (timePart p)).1.nod := h2
  simp only [timeTotal]
  omega

theorem addWithDays_zero (u : TimeUnit) (t : LocalTime) : u.addLocalTimeWithExtraDays t 0 = (t, 0) := by
  unfold TimeUnit.addLocalTimeWithExtraDays; rw [if_pos rfl]

theorem timeSteps_none (t : LocalTime) (p : Period) (h : hasTimeComponent p = false) :
    LocalDateTime.timeSteps t (timePart p) = (t, 0) := by
  obtain ⟨h1, h2, h3, h4, h5, h6⟩ := (hasTime_false_iff p).1 h
  simp only [LocalDateTime.timeSteps, timePart, h1, h2, h3, h4, h5, h6, addWithDays_zero, Int.add_zero]

theorem time_ext (a b : LocalTime) (h : a.nod = b.nod) : a = b := by
  cases a; cases b; simp only at h; simp only [h]

/-! ### LocalDateTime.plus(Period) -/

/-- `LocalDateTime.plus(period)`, all ten components, every calendar.  The call returns `(r, t')` exactly when
    * the years step succeeds on the receiver's date (`a`) and the months step succeeds on `a` (`b`) — each with its own
      clamping rule (C09: `addYears_spec`/`setYear_spec`, `addMonths_regular_spec`, `addMonths_hebrew_spec`,
      `addMonths_badi_spec`), applied first to last;
    * the day reached from `b` by the weeks alone is inside the calendar;
    * `(r, t')` is the valid date-time at the exact position `(day of b + 7·weeks + days)·24h + time of day +
      total of the six time units` on the local time line — so the carry of the time units is applied to the date
      obtained AFTER the month/year clamping. -/
theorem plusPeriodFull_spec (H : C09.Evaluated) (n : Nat) (k : Cal) (hk : Cal.ofOrd n = some k) (s : Ymd) (t : LocalTime)
    (hs : C09.Valid k.c s) (ht : Valid t) (p : Period) (r : Ymd) (t' : LocalTime) :
    LocalDateTime.plusPeriodFull k s t p = .ok (r, t') ↔
      ∃ a b, addYears k s p.years = .ok a ∧ addMonths k a p.months = .ok b ∧ C09.Valid k.c a ∧ C09.Valid k.c b ∧
        InCal k.c (C09.dayNo k.c b + 7 * p.weeks) ∧ C09.Valid k.c r ∧ Valid t' ∧
        C09.dayNo k.c r * NPD + t'.nod = (C09.dayNo k.c b + 7 * p.weeks + p.days) * NPD + t.nod + timeTotal p := by
  obtain ⟨vt, xt⟩ := timeSteps_total t p ht
  unfold LocalDateTime.plusPeriodFull
  generalize LocalDateTime.timeSteps t (timePart p) = te at vt xt
  obtain ⟨t1, e⟩ := te
  simp only at vt xt ⊢
  constructor
  · intro h
    obtain ⟨date, hd, h⟩ := bind_ok_inv _ _ _ h
    simp only [Except.ok.injEq, Prod.mk.injEq] at h
    obtain ⟨rfl, rfl⟩ := h
    obtain ⟨a, b, ha, hb, va, vb, iw, vr, dr⟩ := (dateSteps_spec H n k hk s hs _ _ _ _ date).1 hd
    refine ⟨a, b, ha, hb, va, vb, iw, vr, vt, ?_⟩
    rw [dr]
    simp only [NPD] at *
    omega
  · rintro ⟨a, b, ha, hb, va, vb, iw, vr, vt', hx⟩
    have hsplit : C09.dayNo k.c r = C09.dayNo k.c b + 7 * p.weeks + (p.days + e) ∧ t'.nod = t1.nod := by
      simp only [Valid, NPD] at *
      omega
    have hd := (dateSteps_spec H n k hk s hs p.years p.months p.weeks (p.days + e) r).2
      ⟨a, b, ha, hb, va, vb, iw, vr, hsplit.1⟩
    rw [hd]
    have : t1 = t' := time_ext _ _ hsplit.2.symm
    subst this
    rfl

/-- the result of `plus(Period)` is a valid date-time of the calendar, or the call raises -/
theorem plusPeriodFull_valid (H : C09.Evaluated) (n : Nat) (k : Cal) (hk : Cal.ofOrd n = some k) (s : Ymd) (t : LocalTime)
    (hs : C09.Valid k.c s) (ht : Valid t) (p : Period) :
    (∃ r t', LocalDateTime.plusPeriodFull k s t p = .ok (r, t') ∧ C09.Valid k.c r ∧ Valid t' ∧ InCal k.c (C09.dayNo k.c r)) ∨
    (∃ e, LocalDateTime.plusPeriodFull k s t p = .error e) := by
  cases hres : LocalDateTime.plusPeriodFull k s t p with
  | error e => exact Or.inr ⟨e, rfl⟩
  | ok x =>
    obtain ⟨r, t'⟩ := x
    obtain ⟨a, b, _, _, _, _, _, vr, vt', _⟩ := (plusPeriodFull_spec H n k hk s t hs ht p r t').1 hres
    exact Or.inl ⟨r, t', rfl, vr, vt', valid_inCal (C09.dateLaws_all H n k hk).wf r vr⟩

/-- `plus(Period)` raises exactly when the years step raises (non-zero years taking the year outside the calendar,
    `addYears_raises_iff`), or the months step raises on its result, or the day after the weeks is outside the calendar,
    or the day of the exact final position is outside the calendar.  The time units alone never raise. -/
theorem plusPeriodFull_raises_iff (H : C09.Evaluated) (n : Nat) (k : Cal) (hk : Cal.ofOrd n = some k) (s : Ymd)
    (t : LocalTime) (hs : C09.Valid k.c s) (ht : Valid t) (p : Period) :
    (∃ e, LocalDateTime.plusPeriodFull k s t p = .error e) ↔
      (p.years ≠ 0 ∧ ¬ (k.c.minYear ≤ s.1 + p.years ∧ s.1 + p.years ≤ k.c.maxYear)) ∨
      (∃ a e, addYears k s p.years = .ok a ∧ addMonths k a p.months = .error e) ∨
      (∃ a b, addYears k s p.years = .ok a ∧ addMonths k a p.months = .ok b ∧
        (¬ InCal k.c (C09.dayNo k.c b + 7 * p.weeks) ∨
         ¬ InCal k.c (((C09.dayNo k.c b + 7 * p.weeks + p.days) * NPD + t.nod + timeTotal p) / NPD))) := by
  obtain ⟨vt, xt⟩ := timeSteps_total t p ht
  have hy := (addYears_raises_iff n k hk s p.years).1
  have key : (∃ e, LocalDateTime.plusPeriodFull k s t p = .error e) ↔
      (∃ e, LocalDate.dateSteps k s p.years p.months p.weeks (p.days + (LocalDateTime.timeSteps t (timePart p)).2) = .error e) := by
    unfold LocalDateTime.plusPeriodFull
    simp only
    constructor
    · rintro ⟨e, h⟩
      rcases bind_err_inv _ _ _ h with h | ⟨d, _, h⟩
      · exact ⟨e, h⟩
      · cases h
    · rintro ⟨e, h⟩
      exact ⟨e, by rw [h]; rfl⟩
  rw [key, dateSteps_raises_iff H n k hk s hs, hy]
  generalize LocalDateTime.timeSteps t (timePart p) = te at vt xt
  obtain ⟨t1, e⟩ := te
  simp only at vt xt ⊢
  have hq : ∀ X : Int, (X * NPD + t.nod + timeTotal p) / NPD = X + e := by
    intro X
    simp only [Valid, NPD] at *
    omega
  have he : ∀ b : Ymd, C09.dayNo k.c b + 7 * p.weeks + (p.days + e) = C09.dayNo k.c b + 7 * p.weeks + p.days + e := by
    intro b; omega
  simp only [hq, he]

/-- full statement about the kind of the exception: always ValueError or OverflowError -/
def plusPeriodFull_error_kindStatement : Prop :=
  ∀ (_ : C09.Evaluated) (n : Nat) (k : Cal) (_ : Cal.ofOrd n = some k) (s : Ymd) (t : LocalTime)
    (_ : C09.Valid k.c s) (_ : Valid t) (p : Period) (_ : -decBound + 20 < p.months ∧ p.months < decBound - 20) (e : PyExc),
    LocalDateTime.plusPeriodFull k s t p = .error e → e = .valueError ∨ e = .overflowError

/-- proved part: a failing years step is a ValueError, a failing months step (on the result of the years step) an
    OverflowError; the kinds raised by the weeks and days steps (OverflowError on the paths below 300 days, ValueError from
    the day-number constructor, ValueError from the Badi year-length lookup) are tied to the code by correspondence -/
theorem plusPeriodFull_error_kind_partial (H : C09.Evaluated) (n : Nat) (k : Cal) (hk : Cal.ofOrd n = some k) (s : Ymd)
    (t : LocalTime) (hs : C09.Valid k.c s) (p : Period) (hb : -decBound + 20 < p.months ∧ p.months < decBound - 20)
    (e : PyExc) (h : LocalDateTime.plusPeriodFull k s t p = .error e) :
    (∀ e', addYears k s p.years = .error e' → e = .valueError) ∧
    (∀ a e', addYears k s p.years = .ok a → addMonths k a p.months = .error e' → e = .overflowError) := by
  unfold LocalDateTime.plusPeriodFull at h
  simp only at h
  have hd : LocalDate.dateSteps k s p.years p.months p.weeks (p.days + (LocalDateTime.timeSteps t (timePart p)).2) = .error e := by
    rcases bind_err_inv _ _ _ h with h | ⟨d, _, h⟩
    · exact h
    · cases h
  unfold LocalDate.dateSteps at hd
  constructor
  · intro e' he'
    rcases bind_err_inv _ _ _ hd with h1 | ⟨a, ha, _⟩
    · exact (addYears_raises_iff n k hk s p.years).2 e h1
    · rw [ha] at he'; cases he'
  · intro a e' ha he'
    rcases bind_err_inv _ _ _ hd with h1 | ⟨a', ha', h2⟩
    · rw [ha] at h1; cases h1
    · rw [ha] at ha'; cases ha'
      rcases bind_err_inv _ _ _ h2 with h3 | ⟨b, hb', _⟩
      · exact addMonths_raises_overflow H n k hk a (C09.plusYears_valid_all H n k hk s hs p.years a ha).1 p.months hb e h3
      · rw [hb'] at he'; cases he'

/-- `LocalDateTime.minus(period)` is `plus` of the component-wise negated period -/
theorem minus_eq_plus_neg (k : Cal) (s : Ymd) (t : LocalTime) (p : Period) :
    LocalDateTime.minusPeriodFull k s t p = LocalDateTime.plusPeriodFull k s t (neg p) := by
  unfold LocalDateTime.minusPeriodFull LocalDateTime.plusPeriodFull
  have h1 : timePart (neg p) = (timePart p).neg := rfl
  rw [h1]
  have h2 : (LocalDateTime.timeSteps t (timePart p).neg).2 - p.days = (neg p).days + (LocalDateTime.timeSteps t (timePart p).neg).2 := by
    show _ = -p.days + _
    omega
  simp only [h2]
  rfl

/-- `minus(Period)` stated directly: the same characterisation with every component negated -/
theorem minusPeriodFull_spec (H : C09.Evaluated) (n : Nat) (k : Cal) (hk : Cal.ofOrd n = some k) (s : Ymd) (t : LocalTime)
    (hs : C09.Valid k.c s) (ht : Valid t) (p : Period) (r : Ymd) (t' : LocalTime) :
    LocalDateTime.minusPeriodFull k s t p = .ok (r, t') ↔
      ∃ a b, addYears k s (-p.years) = .ok a ∧ addMonths k a (-p.months) = .ok b ∧ C09.Valid k.c a ∧ C09.Valid k.c b ∧
        InCal k.c (C09.dayNo k.c b - 7 * p.weeks) ∧ C09.Valid k.c r ∧ Valid t' ∧
        C09.dayNo k.c r * NPD + t'.nod = (C09.dayNo k.c b - 7 * p.weeks - p.days) * NPD + t.nod - timeTotal p := by
  rw [minus_eq_plus_neg, plusPeriodFull_spec H n k hk s t hs ht (neg p) r t', timeTotal_neg]
  have e1 : ∀ b : Ymd, C09.dayNo k.c b + 7 * (neg p).weeks = C09.dayNo k.c b - 7 * p.weeks := by
    intro b; show _ + 7 * (-p.weeks) = _; omega
  have e2 : ∀ b : Ymd, (C09.dayNo k.c b - 7 * p.weeks + (neg p).days) * NPD + t.nod + -timeTotal p
      = (C09.dayNo k.c b - 7 * p.weeks - p.days) * NPD + t.nod - timeTotal p := by
    intro b; show (_ + -p.days) * NPD + _ + _ = _; simp only [NPD]; omega
  simp only [e1, e2]
  rfl

/-! ### LocalDate.plus(Period), LocalTime.plus(Period) -/

/-- `LocalDate ± Period` rejects every period with a non-zero time unit (ValueError) and otherwise is the chain of the
    four date steps -/
theorem date_plus_rejects_time_units (k : Cal) (s : Ymd) (p : Period) :
    (hasTimeComponent p = true → LocalDate.plusPeriod k s p = .error .valueError ∧
      LocalDate.minusPeriod k s p = .error .valueError) ∧
    (hasTimeComponent p = false → LocalDate.plusPeriod k s p = LocalDate.dateSteps k s p.years p.months p.weeks p.days ∧
      LocalDate.minusPeriod k s p = LocalDate.dateSteps k s (-p.years) (-p.months) (-p.weeks) (-p.days)) ∧
    (hasTimeComponent p = false ↔
      p.hours = 0 ∧ p.minutes = 0 ∧ p.seconds = 0 ∧ p.milliseconds = 0 ∧ p.ticks = 0 ∧ p.nanoseconds = 0) := by
  refine ⟨fun h => ?_, fun h => ?_, hasTime_false_iff p⟩
  · simp only [LocalDate.plusPeriod, LocalDate.minusPeriod, h, if_true, and_self]
  · simp only [LocalDate.plusPeriod, LocalDate.minusPeriod, h, Bool.false_eq_true, if_false, and_self]

/-- for a period without time units `LocalDate.plus` and `LocalDateTime.plus` do the same to the date and leave the
    time of day alone -/
theorem date_plus_eq_ldt_plus (k : Cal) (s : Ymd) (t : LocalTime) (p : Period) (h : hasTimeComponent p = false) (r : Ymd) :
    (LocalDate.plusPeriod k s p = .ok r ↔ LocalDateTime.plusPeriodFull k s t p = .ok (r, t)) ∧
    (∀ e, LocalDate.plusPeriod k s p = .error e ↔ LocalDateTime.plusPeriodFull k s t p = .error e) := by
  have hp := ((date_plus_rejects_time_units k s p).2.1 h).1
  unfold LocalDateTime.plusPeriodFull
  rw [hp, timeSteps_none t p h]
  simp only [Int.add_zero]
  cases LocalDate.dateSteps k s p.years p.months p.weeks p.days with
  | error e => exact ⟨⟨fun h => (by cases h), fun h => (by cases h)⟩, fun e' => ⟨fun h => (by cases h; rfl), fun h => (by cases h; rfl)⟩⟩
  | ok d =>
    refine ⟨⟨fun h => (by cases h; rfl), fun h => ?_⟩, fun e' => ⟨fun h => (by cases h), fun h => (by cases h)⟩⟩
    have h' : (Except.ok (d, t) : R (Ymd × LocalTime)) = .ok (r, t) := h
    simp only [Except.ok.injEq, Prod.mk.injEq, and_true] at h'
    rw [h']

/-- `LocalTime ± Period` rejects every period with a non-zero date unit (ValueError) -/
theorem time_plus_rejects_date_units (t : LocalTime) (p : Period) :
    (hasDateComponent p = true → t.plusPeriodChecked p = .error .valueError ∧ t.minusPeriodChecked p = .error .valueError) ∧
    (hasDateComponent p = false → t.plusPeriodChecked p = .ok (t.plusPeriod (timePart p)) ∧
      t.minusPeriodChecked p = .ok (t.plusPeriod (timePart p).neg)) ∧
    (hasDateComponent p = false ↔ p.years = 0 ∧ p.months = 0 ∧ p.weeks = 0 ∧ p.days = 0) := by
  refine ⟨fun h => ?_, fun h => ?_, hasDate_false_iff p⟩
  · simp only [LocalTime.plusPeriodChecked, LocalTime.minusPeriodChecked, h, if_true, and_self]
  · simp only [LocalTime.plusPeriodChecked, LocalTime.minusPeriodChecked, h, Bool.false_eq_true, if_false, and_self]

/-- otherwise the result is the exact sum (difference) of the time of day and the total of the time units, modulo 24 h -/
theorem time_plus_mod (t : LocalTime) (p : Period) (hv : Valid t) (h : hasDateComponent p = false) :
    (∃ u, t.plusPeriodChecked p = .ok u ∧ Valid u ∧ u.nod = (t.nod + timeTotal p) % NPD) ∧
    (∃ u, t.minusPeriodChecked p = .ok u ∧ Valid u ∧ u.nod = (t.nod - timeTotal p) % NPD) := by
  obtain ⟨h1, h2⟩ := (time_plus_rejects_date_units t p).2.1 h
  constructor
  · obtain ⟨e, v⟩ := plusPeriod_time_mod t (timePart p) hv
    refine ⟨_, h1, v, ?_⟩
    rw [e]; simp only [timePart, timeTotal]; congr 1; omega
  · obtain ⟨e, v⟩ := plusPeriod_time_mod t (timePart p).neg hv
    refine ⟨_, h2, v, ?_⟩
    rw [e]; simp only [timePart, TimePeriod.neg, timeTotal]; congr 1; c10_consts; omega

/-- two periods of time units only commute on a LocalTime, and adding them one after the other is adding their sum -/
theorem time_only_period_commutes (t : LocalTime) (p q : Period) (hv : Valid t) (hp : hasDateComponent p = false)
    (hq : hasDateComponent q = false) :
    ∃ u, (t.plusPeriodChecked p >>= fun x => x.plusPeriodChecked q) = .ok u ∧
      (t.plusPeriodChecked q >>= fun x => x.plusPeriodChecked p) = .ok u ∧
      t.plusPeriodChecked (add p q) = .ok u ∧ u.nod = (t.nod + timeTotal p + timeTotal q) % NPD := by
  obtain ⟨⟨a, a1, a2, a3⟩, _⟩ := time_plus_mod t p hv hp
  obtain ⟨⟨b, b1, b2, b3⟩, _⟩ := time_plus_mod t q hv hq
  obtain ⟨⟨ab, ab1, ab2, ab3⟩, _⟩ := time_plus_mod a q a2 hq
  obtain ⟨⟨ba, ba1, ba2, ba3⟩, _⟩ := time_plus_mod b p b2 hp
  have hpq : hasDateComponent (add p q) = false := by
    rw [hasDate_false_iff] at *
    simp only [add]; omega
  obtain ⟨⟨s, s1, s2, s3⟩, _⟩ := time_plus_mod t (add p q) hv hpq
  rw [timeTotal_add] at s3
  have e1 : ba = ab := time_ext _ _ (by rw [ba3, ab3, a3, b3]; simp only [NPD]; omega)
  have e2 : s = ab := time_ext _ _ (by rw [s3, ab3, a3]; simp only [NPD]; omega)
  subst e1; subst e2
  refine ⟨s, ?_, ?_, s1, ?_⟩
  · rw [a1]; exact ab1
  · rw [b1]; exact ba1
  · rw [ab3, a3]; simp only [NPD]; omega

/-! ### periods of time units only on a LocalDateTime -/

theorem addYears_zero (k : Cal) (s : Ymd) : addYears k s 0 = .ok s := by unfold addYears; rw [if_pos rfl]

theorem addMonths_zero (k : Cal) (s : Ymd) : addMonths k s 0 = .ok s := by
  unfold addMonths
  cases k.fam with
  | regular => simp only [addMonthsRegular, if_true]
  | hebrew scr => simp only [Hebrew.addMonths, if_true]
  | badi => simp only [BadiArith.addMonths, if_true]

/-- a period of time units only moves a date-time by exactly its total on the local time line -/
theorem timeOnly_pos (H : C09.Evaluated) (n : Nat) (k : Cal) (hk : Cal.ofOrd n = some k) (s : Ymd) (t : LocalTime)
    (hs : C09.Valid k.c s) (ht : Valid t) (p : Period) (hp : hasDateComponent p = false) (r : Ymd) (t' : LocalTime) :
    LocalDateTime.plusPeriodFull k s t p = .ok (r, t') ↔
      C09.Valid k.c r ∧ Valid t' ∧ C09.dayNo k.c r * NPD + t'.nod = C09.dayNo k.c s * NPD + t.nod + timeTotal p := by
  obtain ⟨p1, p2, p3, p4⟩ := (hasDate_false_iff p).1 hp
  rw [plusPeriodFull_spec H n k hk s t hs ht p r t', p1, p2, p3, p4]
  have L := C09.dateLaws_all H n k hk
  constructor
  · rintro ⟨a, b, ha, hb, _, _, _, vr, vt, hx⟩
    rw [addYears_zero] at ha; cases ha
    rw [addMonths_zero] at hb; cases hb
    refine ⟨vr, vt, ?_⟩
    rw [hx]; simp only [NPD]; omega
  · rintro ⟨vr, vt, hx⟩
    refine ⟨s, s, addYears_zero k s, addMonths_zero k s, hs, hs, ?_, vr, vt, ?_⟩
    · have := valid_inCal L.wf s hs
      unfold InCal at *; omega
    · rw [hx]; simp only [NPD]; omega

theorem pos_inj {c : Calc} (h : C01.WF c) (r r' : Ymd) (t t' : LocalTime) (vr : C09.Valid c r) (vr' : C09.Valid c r')
    (vt : Valid t) (vt' : Valid t') (e : C09.dayNo c r * NPD + t.nod = C09.dayNo c r' * NPD + t'.nod) :
    r = r' ∧ t = t' := by
  have : C09.dayNo c r = C09.dayNo c r' ∧ t.nod = t'.nod := by
    simp only [Valid, NPD] at *
    omega
  exact ⟨C09.valid_inj h r r' vr vr' this.1, time_ext _ _ this.2⟩

/-- two periods of time units only commute on a LocalDateTime whenever both orders stay inside the calendar -/
theorem time_only_ldt_commutes (H : C09.Evaluated) (n : Nat) (k : Cal) (hk : Cal.ofOrd n = some k) (s : Ymd) (t : LocalTime)
    (hs : C09.Valid k.c s) (ht : Valid t) (p q : Period) (hp : hasDateComponent p = false) (hq : hasDateComponent q = false)
    (r1 r2 r1' r2' : Ymd) (t1 t2 t1' t2' : LocalTime)
    (h1 : LocalDateTime.plusPeriodFull k s t p = .ok (r1, t1)) (h2 : LocalDateTime.plusPeriodFull k r1 t1 q = .ok (r2, t2))
    (h1' : LocalDateTime.plusPeriodFull k s t q = .ok (r1', t1')) (h2' : LocalDateTime.plusPeriodFull k r1' t1' p = .ok (r2', t2')) :
    (r2, t2) = (r2', t2') := by
  obtain ⟨v1, w1, x1⟩ := (timeOnly_pos H n k hk s t hs ht p hp r1 t1).1 h1
  obtain ⟨v2, w2, x2⟩ := (timeOnly_pos H n k hk r1 t1 v1 w1 q hq r2 t2).1 h2
  obtain ⟨v1', w1', x1'⟩ := (timeOnly_pos H n k hk s t hs ht q hq r1' t1').1 h1'
  obtain ⟨v2', w2', x2'⟩ := (timeOnly_pos H n k hk r1' t1' v1' w1' p hp r2' t2').1 h2'
  obtain ⟨e1, e2⟩ := pos_inj (C09.dateLaws_all H n k hk).wf r2 r2' t2 t2' v2 v2' w2 w2' (by omega)
  rw [e1, e2]

/-- adding two periods of time units one after the other is adding their sum (when the intermediate value exists) -/
theorem time_only_ldt_sum (H : C09.Evaluated) (n : Nat) (k : Cal) (hk : Cal.ofOrd n = some k) (s : Ymd) (t : LocalTime)
    (hs : C09.Valid k.c s) (ht : Valid t) (p q : Period) (hp : hasDateComponent p = false) (hq : hasDateComponent q = false)
    (r1 r2 : Ymd) (t1 t2 : LocalTime)
    (h1 : LocalDateTime.plusPeriodFull k s t p = .ok (r1, t1)) (h2 : LocalDateTime.plusPeriodFull k r1 t1 q = .ok (r2, t2)) :
    LocalDateTime.plusPeriodFull k s t (add p q) = .ok (r2, t2) := by
  obtain ⟨v1, w1, x1⟩ := (timeOnly_pos H n k hk s t hs ht p hp r1 t1).1 h1
  obtain ⟨v2, w2, x2⟩ := (timeOnly_pos H n k hk r1 t1 v1 w1 q hq r2 t2).1 h2
  have hpq : hasDateComponent (add p q) = false := by
    rw [hasDate_false_iff] at *
    simp only [add]; omega
  refine (timeOnly_pos H n k hk s t hs ht (add p q) hpq r2 t2).2 ⟨v2, w2, ?_⟩
  rw [timeTotal_add]; omega

/-! ### what does NOT hold: periods with date units neither commute nor add up (month-end clamping) -/

def isoCal : Cal := ⟨0, Greg.cal, .regular⟩
def oneMonth : Period := ⟨0, 1, 0, 0, 0, 0, 0, 0, 0, 0⟩
def twoHours : Period := ⟨0, 0, 0, 0, 2, 0, 0, 0, 0, 0⟩

example : Cal.ofOrd 0 = some isoCal := rfl

/-- 2023-01-30T23:00 + 1 month = 02-28T23:00, + 2 hours = 03-01T01:00 … -/
example : LocalDateTime.plusPeriodFull isoCal (2023, 1, 30) ⟨82800000000000⟩ oneMonth = .ok ((2023, 2, 28), ⟨82800000000000⟩) := by
  decide +kernel
example : LocalDateTime.plusPeriodFull isoCal (2023, 2, 28) ⟨82800000000000⟩ twoHours = .ok ((2023, 3, 1), ⟨3600000000000⟩) := by
  decide +kernel
/-- … but + 2 hours = 01-31T01:00, + 1 month = 02-28T01:00 -/
example : LocalDateTime.plusPeriodFull isoCal (2023, 1, 30) ⟨82800000000000⟩ twoHours = .ok ((2023, 1, 31), ⟨3600000000000⟩) := by
  decide +kernel
example : LocalDateTime.plusPeriodFull isoCal (2023, 1, 31) ⟨3600000000000⟩ oneMonth = .ok ((2023, 2, 28), ⟨3600000000000⟩) := by
  decide +kernel
/-- in ONE period the carry comes after the clamping: 2023-01-30T23:00 + (1 month, 2 hours) = 03-01T01:00 -/
example : LocalDateTime.plusPeriodFull isoCal (2023, 1, 30) ⟨82800000000000⟩ (add oneMonth twoHours)
    = .ok ((2023, 3, 1), ⟨3600000000000⟩) := by decide +kernel
/-- no associativity: 2023-01-31 + 1 month + 1 month = 03-28, + (1 month + 1 month) = 03-31 -/
example : LocalDateTime.plusPeriodFull isoCal (2023, 1, 31) ⟨0⟩ oneMonth = .ok ((2023, 2, 28), ⟨0⟩) := by decide +kernel
example : LocalDateTime.plusPeriodFull isoCal (2023, 2, 28) ⟨0⟩ oneMonth = .ok ((2023, 3, 28), ⟨0⟩) := by decide +kernel
example : LocalDateTime.plusPeriodFull isoCal (2023, 1, 31) ⟨0⟩ (add oneMonth oneMonth) = .ok ((2023, 3, 31), ⟨0⟩) := by
  decide +kernel
/-- the hypotheses of the theorems are satisfiable: a leap day, a range end, a rejected period -/
example : C09.Valid isoCal.c (2024, 2, 29) := by unfold C09.Valid; decide +kernel
example : LocalDateTime.plusPeriodFull isoCal (9999, 12, 31) ⟨86399999999999⟩ ⟨0, 0, 0, 0, 0, 0, 0, 0, 0, 1⟩ = .error .overflowError := by
  decide +kernel
example : LocalDateTime.minusPeriodFull isoCal (2023, 3, 31) ⟨0⟩ ⟨0, 1, 0, 0, 0, 0, 0, 0, 0, 1⟩ = .ok ((2023, 2, 27), ⟨86399999999999⟩) := by
  decide +kernel
example : LocalDate.plusPeriod isoCal (2023, 1, 31) twoHours = .error .valueError := by decide
example : (⟨0⟩ : LocalTime).plusPeriodChecked oneMonth = .error .valueError := by decide

end Pyoda.C10
