/-
  C08 — all 19 calendars, the theorems about ACCEPTED PATTERNS: for every LocalDate / LocalDateTime / Instant pattern
  text that creation accepts — calendar field or not, embedded parts or not, template value in any calendar — parsing
  any text returns a result (no `patOK` hypothesis any more) and a success carries a date of its calendar (and a time
  inside the day).
-/
import PyodaProofs.C08CalendarSeg

namespace Pyoda.C08
open Pyoda Pyoda.Text
open Pyoda.Calendar (Calc calcOf)

/-! ## what creation builds: well-formed stepped patterns, or patterns with embedded parts passing `segWF` -/

def PatWF (p : Pat) : Prop := DtWF p ∨ ∃ cu used segs, p = .segmented cu used segs ∧ segWF cu used segs = true

theorem compileDate_patWF (cu : Culture) (hcu : cu.monthHeadsEmpty = true) (ptext : Text) (p : Pat)
    (h : compileDate cu ptext = .ok p) : PatWF p := Or.inl (compileDate_wf cu hcu ptext p h)

theorem compileDateTime_patWF (tm : Tmpl) (cu : Culture) (hcu : cu.monthHeadsEmpty = true) (ptext : Text) (p : Pat)
    (h : compileDateTime tm cu ptext = .ok p) : PatWF p := by
  rcases compileDateTime_wf tm cu hcu ptext p h with hw | ⟨cu', used, segs, rfl⟩
  · exact Or.inl hw
  · exact Or.inr ⟨cu', used, segs, rfl, compileDateTime_segWF tm cu hcu ptext cu' used segs h⟩

theorem compileInstant_patWF (tm : Tmpl) (cu : Culture) (hcu : cu.monthHeadsEmpty = true) (ptext : Text) (p : Pat)
    (h : compileInstant tm cu ptext = .ok p) : PatWF p := by
  rcases compileInstant_wf tm cu hcu ptext p h with hw | ⟨cu', used, segs, rfl⟩
  · exact Or.inl hw
  · refine Or.inr ⟨cu', used, segs, rfl, ?_⟩
    unfold compileInstant at h
    split at h
    · cases h
    · split at h
      · exact compileDTText_segWF tm cu hcu _ cu' used segs h
      · cases h
    · exact compileDTText_segWF tm cu hcu _ cu' used segs h

/-! ### re-targeting the era step keeps patterns well formed -/

theorem retarget_dtStepWF (cal : Nat) (s : Step) : dtStepWF (retargetStep cal s) = dtStepWF s := by
  cases s <;> simp only [retargetStep] <;> (try split) <;> rfl

theorem retarget_setsSlot (cal : Nat) (sl : Slot) (s : Step) : setsSlot sl (retargetStep cal s) = setsSlot sl s := by
  cases s <;> simp only [retargetStep] <;> (try split) <;> rfl

theorem retarget_stepSets (cal : Nat) (s : Step) : stepSets (retargetStep cal s) = stepSets s := by
  cases s <;> simp only [retargetStep] <;> (try split) <;> rfl

theorem retarget_all (cal : Nat) (P : Step → Bool) (hP : ∀ s, P (retargetStep cal s) = P s) (ss : List Step) :
    (ss.map (retargetStep cal)).all P = ss.all P := by
  induction ss with
  | nil => rfl
  | cons s ss ih => simp only [List.map_cons, List.all_cons, hP, ih]

theorem retarget_any (cal : Nat) (P : Step → Bool) (hP : ∀ s, P (retargetStep cal s) = P s) (ss : List Step) :
    (ss.map (retargetStep cal)).any P = ss.any P := by
  induction ss with
  | nil => rfl
  | cons s ss ih => simp only [List.map_cons, List.any_cons, hP, ih]

theorem retarget_fieldsSound (cal : Nat) (used : Nat) (ss : List Step) :
    fieldsSound used (ss.map (retargetStep cal)) = fieldsSound used ss := by
  unfold fieldsSound
  rw [retarget_any cal _ (retarget_setsSlot cal .monthNum), retarget_any cal _ (retarget_setsSlot cal .dayOfMonth),
    retarget_any cal _ (retarget_setsSlot cal .monthText)]

theorem retargetCompiled_wf (cal : Nat) (c : Compiled)
    (h : c.cu.monthHeadsEmpty = true ∧ c.steps.all dtStepWF = true ∧ fieldsSound c.used c.steps = true) :
    (retargetCompiled cal c).cu.monthHeadsEmpty = true ∧ (retargetCompiled cal c).steps.all dtStepWF = true ∧
      fieldsSound (retargetCompiled cal c).used (retargetCompiled cal c).steps = true := by
  unfold retargetCompiled
  dsimp only
  rw [retarget_all cal _ (retarget_dtStepWF cal), retarget_fieldsSound]
  exact h

theorem plainSteps_retarget (cal : Nat) (segs : List Seg) :
    plainSteps (segs.map (retargetSeg cal)) = (plainSteps segs).map (retargetStep cal) := by
  induction segs with
  | nil => rfl
  | cons sg segs ih => cases sg <;> simp [plainSteps, retargetSeg, ih]

theorem retargetSeg_inner (cal : Nat) (sg : Seg) : segInnerWF (retargetSeg cal sg) = segInnerWF sg := by
  cases sg with
  | plain ss => rfl
  | date c =>
    simp only [retargetSeg, segInnerWF, retargetCompiled]
    rw [retarget_all cal _ (retarget_dtStepWF cal), retarget_fieldsSound]
  | time c => rfl

theorem retargetSeg_isDate (cal : Nat) (sg : Seg) : isDateSeg (retargetSeg cal sg) = isDateSeg sg := by cases sg <;> rfl
theorem retargetSeg_isTime (cal : Nat) (sg : Seg) : isTimeSeg (retargetSeg cal sg) = isTimeSeg sg := by cases sg <;> rfl

theorem map_all_seg (cal : Nat) (P : Seg → Bool) (hP : ∀ s, P (retargetSeg cal s) = P s) (segs : List Seg) :
    (segs.map (retargetSeg cal)).all P = segs.all P := by
  induction segs with
  | nil => rfl
  | cons s ss ih => simp only [List.map_cons, List.all_cons, hP, ih]

theorem map_any_seg (cal : Nat) (P : Seg → Bool) (hP : ∀ s, P (retargetSeg cal s) = P s) (segs : List Seg) :
    (segs.map (retargetSeg cal)).any P = segs.any P := by
  induction segs with
  | nil => rfl
  | cons s ss ih => simp only [List.map_cons, List.any_cons, hP, ih]

theorem retarget_segWF (cal : Nat) (cu : Culture) (used : Nat) (segs : List Seg) :
    segWF cu used (segs.map (retargetSeg cal)) = segWF cu used segs := by
  unfold segWF
  rw [plainSteps_retarget, retarget_all cal _ (retarget_dtStepWF cal), retarget_fieldsSound,
    map_all_seg cal _ (retargetSeg_inner cal), map_any_seg cal _ (retargetSeg_isDate cal),
    map_any_seg cal _ (retargetSeg_isTime cal),
    retarget_all cal (fun s => stepSets s ≠ some .year && stepSets s ≠ some .monthNum && stepSets s ≠ some .dayOfMonth)
      (fun s => by simp only [retarget_stepSets]),
    retarget_all cal (fun s => stepSets s ≠ some .hours24 && stepSets s ≠ some .minutes && stepSets s ≠ some .seconds &&
      stepSets s ≠ some .fraction) (fun s => by simp only [retarget_stepSets]),
    retarget_all cal (fun s => stepSets s ≠ some .calendar) (fun s => by simp only [retarget_stepSets])]

theorem retargetPat_patWF (cal : Nat) (p : Pat) (h : PatWF p) : PatWF (retargetPat cal p) := by
  rcases h with ⟨c, rfl, hw⟩ | ⟨cu, used, segs, rfl, hs⟩
  · exact Or.inl ⟨retargetCompiled cal c, rfl, retargetCompiled_wf cal c hw⟩
  · exact Or.inr ⟨cu, used, segs.map (retargetSeg cal), rfl, by rw [retarget_segWF]; exact hs⟩

theorem mapR_retarget_patWF (cal : Nat) (r : R Pat) (p : Pat) (hr : ∀ q, r = .ok q → PatWF q)
    (h : mapR (retargetPat cal) r = .ok p) : PatWF p := by
  unfold mapR at h
  cases r with
  | error e => cases h
  | ok q => injection h with h; rw [← h]; exact retargetPat_patWF cal q (hr q rfl)

theorem compileDateC_patWF (cal : Nat) (cu : Culture) (hcu : cu.monthHeadsEmpty = true) (ptext : Text) (p : Pat)
    (h : compileDateC cal cu ptext = .ok p) : PatWF p := by
  unfold compileDateC at h
  split at h
  · split at h
    · exact mapR_retarget_patWF cal _ p (fun q hq => Or.inl (steppedOf_wf .date rfl cu hcu _ q hq)) h
    · split at h
      · exact compileDate_patWF cu hcu _ p h
      · exact mapR_retarget_patWF cal _ p (fun q hq => compileDate_patWF cu hcu _ q hq) h
  · exact mapR_retarget_patWF cal _ p (fun q hq => compileDate_patWF cu hcu _ q hq) h

theorem compileDateTimeC_patWF (tc : TmplC) (cu : Culture) (hcu : cu.monthHeadsEmpty = true) (ptext : Text) (p : Pat)
    (h : compileDateTimeC tc cu ptext = .ok p) : PatWF p := by
  unfold compileDateTimeC at h
  dsimp only at h
  split at h
  · repeat' (first
      | exact mapR_retarget_patWF tc.cal _ p (fun q hq => Or.inl (steppedOf_wf (.datetime _) rfl cu hcu _ q hq)) h
      | exact compileDateTime_patWF _ cu hcu _ p h
      | exact mapR_retarget_patWF tc.cal _ p (fun q hq => compileDateTime_patWF _ cu hcu _ q hq) h
      | split at h)
  · exact mapR_retarget_patWF tc.cal _ p (fun q hq => compileDateTime_patWF _ cu hcu _ q hq) h

/-! ## the pattern objects -/

theorem all_modelled_of_noCal (ss : List Step) (h : hasCalendarStep ss = false) : ss.all stepModelled = true := by
  rw [List.all_eq_true]
  intro s hs
  cases s <;> simp only [stepModelled]
  exfalso
  have : hasCalendarStep ss = true := by
    unfold hasCalendarStep
    rw [List.any_eq_true]
    exact ⟨.calendar, hs, by simp⟩
  rw [h] at this; cases this

theorem modelled_of_timeStepWF (s : Step) (h : timeStepWF s = true) : stepModelled s = true := by
  cases s <;> simp only [stepModelled]
  simp [timeStepWF] at h

def segUsesCal : Seg → Bool
  | .plain ss => hasCalendarStep ss
  | .date c => hasCalendarStep c.steps
  | .time _ => false

theorem segsUseCalendar_eq (segs : List Seg) : segsUseCalendar segs = segs.any segUsesCal := by
  unfold segsUseCalendar
  congr 1

/-- segments without a calendar step (an embedded time pattern never has one) consist of steps every ISO-path lemma
    covers -/
theorem segOK_of_noCal (segs : List Seg) (hin : segs.all segInnerWF = true) (h : segsUseCalendar segs = false) :
    segs.all segOK = true := by
  rw [segsUseCalendar_eq, List.any_eq_false] at h
  rw [List.all_eq_true] at hin ⊢
  intro sg hs
  have hq := h sg hs
  cases sg with
  | plain ss => exact all_modelled_of_noCal ss (by simpa [segUsesCal] using hq)
  | date c => exact all_modelled_of_noCal c.steps (by simpa [segUsesCal] using hq)
  | time c =>
    have hw := hin _ hs
    simp only [segInnerWF] at hw
    simp only [segOK]
    rw [List.all_eq_true] at hw ⊢
    exact fun s hs' => modelled_of_timeStepWF s (hw s hs')

/-! ## LocalDate -/

theorem dateResult_of_iso (y m d : Int) (h : validDate y m d) : DateResult [y, m, d] :=
  ⟨y, m, d, 0, _, rfl, calcOfInt_zero, inCal_of_validDate y m d h⟩

theorem dtResult_of_iso (y m d nod : Int) (h : validDate y m d) (h0 : 0 ≤ nod) (h1 : nod < 86400000000000) :
    DtResult [y, m, d, nod] :=
  ⟨(y, m, d, nod, 0), rfl, _, calcOfInt_zero, inCal_of_validDate y m d h, h0, h1⟩

/-- a LocalDate pattern object with the default template: never an exception; a success is a date of its calendar -/
theorem parsePat_date_spec (p : Pat) (hp : DtWF p) (l : Text) :
    (∃ r, parsePat .date l p = .ok r) ∧ ∀ v, parsePat .date l p = .ok (some v) → DateResult v := by
  obtain ⟨c, rfl, h1, h2, h3⟩ := hp
  simp only [parsePat, evalType]
  by_cases hc : hasCalendarStep c.steps = true
  · simp only [hc, if_true]
    exact parseCompiled_dateC_spec TmplC.default tmplCOK_default c h1 h2 h3 l
  · have hc' : hasCalendarStep c.steps = false := by simpa using hc
    simp only [hc', Bool.false_eq_true, if_false]
    refine ⟨parseCompiled_total .date rfl c l (all_modelled_of_noCal _ hc'), fun v h => ?_⟩
    obtain ⟨y, m, d, e, hv⟩ := parseCompiled_date_valid c h1 h2 h3 l v h
    rw [e]; exact dateResult_of_iso y m d hv

/-- a LocalDate pattern object with a template value in any calendar -/
theorem parsePat_dateC_spec (tc : TmplC) (htm : TmplCOK tc) (p : Pat) (hp : DtWF p) (l : Text) :
    (∃ r, parsePat (.dateC tc) l p = .ok r) ∧ ∀ v, parsePat (.dateC tc) l p = .ok (some v) → DateResult v := by
  obtain ⟨c, rfl, h1, h2, h3⟩ := hp
  simp only [parsePat, evalType]
  exact parseCompiled_dateC_spec tc htm c h1 h2 h3 l

theorem dtWF_of_patWF_date (cu : Culture) (hcu : cu.monthHeadsEmpty = true) (ptext : Text) (p : Pat)
    (h : compileDate cu ptext = .ok p) : DtWF p := compileDate_wf cu hcu ptext p h

/-- **LocalDate, every accepted pattern text** (calendar field or not), every culture record whose month tables start
    with the empty entry: parsing any text returns a result, never an exception -/
theorem date_parse_total_all (cu : Culture) (hcu : cu.monthHeadsEmpty = true) (ptext : Text) (p : Pat)
    (hp : compileDate cu ptext = .ok p) (l : Text) : ∃ r, parsePat .date l p = .ok r :=
  (parsePat_date_spec p (compileDate_wf cu hcu ptext p hp) l).1

/-- **LocalDate, every accepted pattern text**: a success carries a date its calendar has — the ISO calendar, or the
    calendar the text named -/
theorem date_success_valid_all (cu : Culture) (hcu : cu.monthHeadsEmpty = true) (ptext : Text) (p : Pat)
    (hp : compileDate cu ptext = .ok p) (l : Text) (v : List Int) (h : parsePat .date l p = .ok (some v)) : DateResult v :=
  (parsePat_date_spec p (compileDate_wf cu hcu ptext p hp) l).2 v h

theorem dtWF_of_compileDateC (cal : Nat) (cu : Culture) (hcu : cu.monthHeadsEmpty = true) (ptext : Text) (p : Pat)
    (h : compileDateC cal cu ptext = .ok p) : DtWF p := by
  rcases compileDateC_patWF cal cu hcu ptext p h with hw | ⟨cu', used, segs, rfl, _⟩
  · exact hw
  · -- a LocalDate pattern is never one with embedded parts
    exfalso
    unfold compileDateC at h
    have key : ∀ (r : R Pat), (∀ q, r = .ok q → DtWF q) → mapR (retargetPat cal) r ≠ .ok (.segmented cu' used segs) := by
      intro r hr hh
      unfold mapR at hh
      cases r with
      | error e => cases hh
      | ok q =>
        obtain ⟨c, rfl, _⟩ := hr q rfl
        injection hh with hh
        simp [retargetPat] at hh
    split at h
    · split at h
      · exact key _ (fun q hq => steppedOf_wf .date rfl cu hcu _ q hq) h
      · split at h
        · obtain ⟨c, e, _⟩ := compileDate_wf cu hcu _ _ h; cases e
        · exact key _ (fun q hq => compileDate_wf cu hcu _ q hq) h
    · exact key _ (fun q hq => compileDate_wf cu hcu _ q hq) h

theorem effTmplDateC_ok (tc : TmplC) (htm : TmplCOK tc) (text : Text) : TmplCOK (effTmplDateC tc text) := by
  unfold effTmplDateC
  split
  · split
    · exact tmplCOK_default
    · exact htm
  · exact htm

/-- **LocalDate with a template value in any calendar, every accepted pattern text**: never an exception, and a success
    carries a date of its calendar (the pattern object parses with `effTmplDateC`: the shared `r` / ISO `R` patterns keep
    the default template) -/
theorem dateC_parse_spec (tc : TmplC) (htm : TmplCOK tc) (cu : Culture) (hcu : cu.monthHeadsEmpty = true) (ptext : Text)
    (p : Pat) (hp : compileDateC tc.cal cu ptext = .ok p) (l : Text) :
    (∃ r, parsePat (.dateC (effTmplDateC tc ptext)) l p = .ok r) ∧
    ∀ v, parsePat (.dateC (effTmplDateC tc ptext)) l p = .ok (some v) → DateResult v :=
  parsePat_dateC_spec _ (effTmplDateC_ok tc htm ptext) p (dtWF_of_compileDateC tc.cal cu hcu ptext p hp) l

/-! ## LocalDateTime and Instant -/

/-- a LocalDateTime pattern object with a template value in any calendar -/
theorem parsePat_datetimeC_spec (H : AllWF) (tc : TmplC) (htm : TmplCOK tc) (p : Pat) (hp : PatWF p) (l : Text) :
    (∃ r, parsePat (.datetimeC tc) l p = .ok r) ∧ ∀ v, parsePat (.datetimeC tc) l p = .ok (some v) → DtResult v := by
  rcases hp with ⟨c, rfl, h1, h2, h3⟩ | ⟨cu, used, segs, rfl, hs⟩
  · simp only [parsePat, evalType]
    exact parseCompiled_datetimeC_spec H tc htm c h1 h2 h3 l
  · simp only [parsePat]
    exact parseSegmentedG_spec H tc htm cu used segs hs l

/-- a LocalDateTime pattern object with an ISO template value: the ISO path when the pattern has no calendar field, the
    all-calendar bucket when it has -/
theorem parsePat_datetime_spec (H : AllWF) (tm : Tmpl) (htm : TmplOK tm) (p : Pat) (hp : PatWF p) (l : Text) :
    (∃ r, parsePat (.datetime tm) l p = .ok r) ∧ ∀ v, parsePat (.datetime tm) l p = .ok (some v) → DtResult v := by
  rcases hp with ⟨c, rfl, h1, h2, h3⟩ | ⟨cu, used, segs, rfl, hs⟩
  · simp only [parsePat, evalType]
    by_cases hc : hasCalendarStep c.steps = true
    · simp only [hc, if_true]
      exact parseCompiled_datetimeC_spec H tm.toC (tmplCOK_of_tmplOK tm htm) c h1 h2 h3 l
    · have hc' : hasCalendarStep c.steps = false := by simpa using hc
      simp only [hc', Bool.false_eq_true, if_false]
      refine ⟨parseCompiled_total (.datetime tm) rfl c l (all_modelled_of_noCal _ hc'), fun v h => ?_⟩
      obtain ⟨y, m, d, nod, e, hv, t0, t1⟩ := parseCompiled_datetime_valid tm htm c h1 h2 h3 l v h
      rw [e]; exact dtResult_of_iso y m d nod hv t0 t1
  · simp only [parsePat]
    by_cases hc : segsUseCalendar segs = true
    · simp only [hc, if_true]
      exact parseSegmentedG_spec H tm.toC (tmplCOK_of_tmplOK tm htm) cu used segs hs l
    · have hc' : segsUseCalendar segs = false := by simpa using hc
      simp only [hc', Bool.false_eq_true, if_false]
      have hin : segs.all segInnerWF = true := by
        unfold segWF at hs
        simp only [Bool.and_eq_true] at hs
        exact hs.1.1.1.2
      refine ⟨parseSegmented_total tm cu used segs l (segOK_of_noCal segs hin hc'), fun v h => ?_⟩
      obtain ⟨y, m, d, nod, e, hv, t0, t1⟩ := parseSegmented_valid tm htm cu used segs hs l v h
      rw [e]; exact dtResult_of_iso y m d nod hv t0 t1

theorem effTmpl_ok (tm : Tmpl) (htm : TmplOK tm) (ptext : Text) : TmplOK (effTmpl tm ptext) := by
  unfold effTmpl
  split
  · split
    · exact tmplOK_default
    · exact htm
  · exact htm

/-- **datetime_parse_total without `patOK`**: for EVERY LocalDateTime pattern text that creation accepts — calendar
    field or not, embedded parts or not —, every valid ISO template value, every culture record whose month tables start
    with the empty entry: parsing any text returns a result, never an exception -/
theorem datetime_parse_total_all (H : AllWF) (tm : Tmpl) (htm : TmplOK tm) (cu : Culture) (hcu : cu.monthHeadsEmpty = true)
    (ptext : Text) (p : Pat) (hp : compileDateTime tm cu ptext = .ok p) (l : Text) :
    ∃ r, parsePat (.datetime (effTmpl tm ptext)) l p = .ok r :=
  (parsePat_datetime_spec H _ (effTmpl_ok tm htm ptext) p (compileDateTime_patWF tm cu hcu ptext p hp) l).1

/-- **success_value_valid for every accepted LocalDateTime pattern**: a success carries a date its calendar has (the ISO
    calendar, or the one the text named) and a time inside the day -/
theorem datetime_success_valid_cal (H : AllWF) (tm : Tmpl) (htm : TmplOK tm) (cu : Culture) (hcu : cu.monthHeadsEmpty = true)
    (ptext : Text) (p : Pat) (hp : compileDateTime tm cu ptext = .ok p) (l : Text) (v : List Int)
    (h : parsePat (.datetime (effTmpl tm ptext)) l p = .ok (some v)) : DtResult v :=
  (parsePat_datetime_spec H _ (effTmpl_ok tm htm ptext) p (compileDateTime_patWF tm cu hcu ptext p hp) l).2 v h

theorem effTmplC_ok (tc : TmplC) (htm : TmplCOK tc) (text : Text) : TmplCOK (effTmplC tc text) := by
  unfold effTmplC
  split
  · split
    · exact tmplCOK_default
    · split
      · exact tmplCOK_default
      · exact htm
  · exact htm

/-- **LocalDateTime with a template value in any calendar, every accepted pattern text**: never an exception; a success
    carries a date of its calendar and a time inside the day -/
theorem datetimeC_parse_spec (H : AllWF) (tc : TmplC) (htm : TmplCOK tc) (cu : Culture) (hcu : cu.monthHeadsEmpty = true)
    (ptext : Text) (p : Pat) (hp : compileDateTimeC tc cu ptext = .ok p) (l : Text) :
    (∃ r, parsePat (.datetimeC (effTmplC tc ptext)) l p = .ok r) ∧
    ∀ v, parsePat (.datetimeC (effTmplC tc ptext)) l p = .ok (some v) → DtResult v :=
  parsePat_datetimeC_spec H _ (effTmplC_ok tc htm ptext) p (compileDateTimeC_patWF tc cu hcu ptext p hp) l

/-- **Instant patterns, every accepted pattern text** (the pattern object is a LocalDateTime pattern over the UTC
    date-time): never an exception; a success carries a date of its calendar and a time inside the day -/
theorem instant_parse_spec (H : AllWF) (tm : Tmpl) (htm : TmplOK tm) (cu : Culture) (hcu : cu.monthHeadsEmpty = true)
    (ptext : Text) (p : Pat) (hp : compileInstant tm cu ptext = .ok p) (l : Text) :
    (∃ r, parsePat (.datetime tm) l p = .ok r) ∧ ∀ v, parsePat (.datetime tm) l p = .ok (some v) → DtResult v :=
  parsePat_datetime_spec H tm htm p (compileInstant_patWF tm cu hcu ptext p hp) l

/-! the results read back: an ISO result is a valid ISO date -/

theorem dateResult_iso (y m d : Int) (h : DateResult [y, m, d]) : validDate y m d := by
  obtain ⟨y', m', d', cal, c, e, hc, hin⟩ := h
  unfold showDateC at e
  dsimp only at e
  split at e
  · rename_i h0
    injection e with e1 e; injection e with e2 e; injection e with e3 _
    subst e1; subst e2; subst e3
    rw [h0, calcOfInt_zero] at hc
    injection hc with hc
    subst hc
    exact validDate_of_inCal _ _ _ hin
  · injection e with _ e; injection e with _ e; injection e with _ e; cases e

/-- examples through the compiled model: a Hijri text read by a pattern whose template is ISO (the era is the calendar's
    own, the repaired behaviour); a template year outside the calendar named by the text is a failure, not an exception -/
example : parsePat .date "1445-03-05 Hijri Civil-Indian".toList
    (.stepped ⟨invariantCulture, 38400, [.num .yearOfEra .yearOfEra 4 4 1 9999, .lit ['-'], .num .monthNum .monthNum 2 2 1 99,
      .lit ['-'], .num .dayOfMonth .dayOfMonth 2 2 1 99, .lit [' '], .calendar]⟩) = .ok (some [1445, 3, 5, 15]) := by
  decide +kernel
example : parsePat .date "03-05 Badi".toList
    (.stepped ⟨invariantCulture, 37888, [.num .monthNum .monthNum 2 2 1 99, .lit ['-'], .num .dayOfMonth .dayOfMonth 2 2 1 99,
      .lit [' '], .calendar]⟩) = .ok none := by
  decide +kernel

end Pyoda.C08
