/- Helper lemmas for C14 (codec round trips). No property statements here. -/
import Mathlib.Tactic.Ring
import PyodaModel.Codec
import PyodaProofs.Basic

namespace Pyoda.C14
open Pyoda Pyoda.Codec

/-! ## LEB128 -/

theorem readVarintAux_writeVarintAux (f : Nat) : ∀ (v acc shift : Nat) (rest : Bytes), v < 128 ^ (f + 1) →
    readVarintAux (writeVarintAux f v ++ rest) acc shift = .ok (acc + v * 2 ^ shift, rest) := by
  induction f with
  | zero =>
    intro v acc shift rest hv
    have : v < 128 := by simpa using hv
    simp [writeVarintAux, readVarintAux, Nat.mod_eq_of_lt this, this]
  | succ f ih =>
    intro v acc shift rest hv
    unfold writeVarintAux
    by_cases h : v > 127
    · simp only [h, if_true, List.cons_append, readVarintAux]
      have h1 : ¬ (v % 128 + 128 < 128) := by omega
      have h2 : (v % 128 + 128) % 128 = v % 128 := by omega
      simp only [h1, if_false, h2]
      have hv' : v / 128 < 128 ^ (f + 1) := by
        have : 128 ^ (f + 1 + 1) = 128 * 128 ^ (f + 1) := by rw [Nat.pow_succ]; omega
        rw [this] at hv
        exact Nat.div_lt_of_lt_mul hv
      rw [ih (v / 128) _ _ rest hv']
      congr 2
      have : 2 ^ (shift + 7) = 128 * 2 ^ shift := by rw [Nat.pow_add]; omega
      rw [this]
      have := Nat.div_add_mod v 128
      have e : acc + v % 128 * 2 ^ shift + v / 128 * (128 * 2 ^ shift)
          = acc + (128 * (v / 128) + v % 128) * 2 ^ shift := by ring
      rw [e, this]
    · have hlt : v < 128 := by omega
      simp [h, readVarintAux, Nat.mod_eq_of_lt hlt, hlt]

theorem lt_pow128_log2 (v : Nat) : v < 128 ^ (v.log2 + 1 + 1) := by
  have h1 : v < 2 ^ (v.log2 + 1) := Nat.lt_log2_self
  have h2 : 2 ^ (v.log2 + 1) ≤ 128 ^ (v.log2 + 1) := Nat.pow_le_pow_left (by omega) _
  have h3 : 128 ^ (v.log2 + 1) ≤ 128 ^ (v.log2 + 1 + 1) := Nat.pow_le_pow_right (by omega) (by omega)
  omega

theorem readVarint_writeVarint (v : Nat) (rest : Bytes) : readVarint (writeVarint v ++ rest) = .ok (v, rest) := by
  have := readVarintAux_writeVarintAux (v.log2 + 1) v 0 0 rest (lt_pow128_log2 v)
  simpa [readVarint, writeVarint] using this

theorem readCount_writeCount (n : Int) (h : 0 ≤ n ∧ n ≤ INT_MAX) (rest : Bytes) :
    ∃ bs, writeCount n = .ok bs ∧ readCount (bs ++ rest) = .ok (n, rest) := by
  refine ⟨writeVarint n.toNat, ?_, ?_⟩
  · unfold writeCount checkRange
    have : ¬ (n < 0 ∨ n > INT_MAX) := by omega
    simp only [this, if_false]
    rfl
  · unfold readCount
    rw [readVarint_writeVarint]
    have e : ((n.toNat : Nat) : Int) = n := by omega
    simp only [Except.bind, bind, e]
    have : ¬ n > INT_MAX := by omega
    simp [this]

/-- `writeCount` of an in-range value, as an equation -/
theorem writeCount_ok (n : Int) (h : 0 ≤ n ∧ n ≤ INT_MAX) : writeCount n = .ok (writeVarint n.toNat) := by
  unfold writeCount checkRange
  have : ¬ (n < 0 ∨ n > INT_MAX) := by omega
  simp only [this, if_false]
  rfl

theorem readCount_varint (n : Int) (h : 0 ≤ n ∧ n ≤ INT_MAX) (rest : Bytes) :
    readCount (writeVarint n.toNat ++ rest) = .ok (n, rest) := by
  obtain ⟨bs, h1, h2⟩ := readCount_writeCount n h rest
  rw [writeCount_ok n h] at h1
  cases h1
  exact h2

/-! ## zig-zag -/

theorem zigzag_eq (c : Int) (h : INT_MIN ≤ c ∧ c ≤ INT_MAX) :
    zigzag c = if 0 ≤ c then 2 * c else -2 * c - 1 := by
  unfold zigzag pyXor
  unfold INT_MIN INT_MAX at h
  rw [Int.shiftRight_eq_div_pow]
  by_cases hc : 0 ≤ c
  · have h1 : c / ((2 ^ 31 : Nat) : Int) = 0 := by
      have : ((2 ^ 31 : Nat) : Int) = 2147483648 := by norm_num
      rw [this]; omega
    rw [h1]
    have h2 : decide (0 ≤ c * 2) = true := by simp; omega
    simp only [h2, hc, if_true]
    simp
    omega
  · have h1 : c / ((2 ^ 31 : Nat) : Int) = -1 := by
      have : ((2 ^ 31 : Nat) : Int) = 2147483648 := by norm_num
      rw [this]; omega
    rw [h1]
    have h2 : decide (0 ≤ c * 2) = false := by simp; omega
    simp only [h2, hc, if_false]
    simp
    omega

theorem unzigzag_even (c : Int) (h : 0 ≤ c) : unzigzag (2 * c).toNat = c := by
  unfold unzigzag
  have : (2 * c).toNat % 2 = 0 := by omega
  simp only [this, if_true]
  omega

theorem unzigzag_odd (c : Int) (h : c < 0) : unzigzag (-2 * c - 1).toNat = c := by
  unfold unzigzag
  have : ¬ ((-2 * c - 1).toNat % 2 = 0) := by omega
  simp only [this, if_false]
  omega

theorem readSignedCount_writeSignedCount (c : Int) (h : INT_MIN ≤ c ∧ c ≤ INT_MAX) (rest : Bytes) :
    ∃ bs, writeSignedCount c = .ok bs ∧ readSignedCount (bs ++ rest) = .ok (c, rest) := by
  unfold writeSignedCount
  rw [zigzag_eq c h]
  by_cases hc : 0 ≤ c
  · simp only [hc, if_true]
    have : ¬ (2 * c < 0) := by omega
    simp only [this, if_false]
    refine ⟨_, rfl, ?_⟩
    unfold readSignedCount
    rw [readVarint_writeVarint]
    simp only [Except.bind, bind, unzigzag_even c hc]
  · simp only [hc, if_false]
    have : ¬ (-2 * c - 1 < 0) := by omega
    simp only [this, if_false]
    refine ⟨_, rfl, ?_⟩
    unfold readSignedCount
    rw [readVarint_writeVarint]
    simp only [Except.bind, bind, unzigzag_odd c (by omega)]

/-! ## fixed-width integers -/

theorem readInt16_cons (a b : Nat) (rest : Bytes) : readInt16 (a :: b :: rest) = .ok (a * 256 + b, rest) := rfl

theorem readInt16_writeInt16 (v : Int) (rest : Bytes) :
    readInt16 (writeInt16 v ++ rest) = .ok ((v % 65536).toNat, rest) := by
  unfold writeInt16
  simp only [List.cons_append, List.nil_append, readInt16_cons]
  congr 2
  omega

theorem readInt32_writeInt32 (v : Int) (rest : Bytes) :
    readInt32 (writeInt32 v ++ rest) = .ok ((v % 4294967296).toNat, rest) := by
  unfold writeInt32 readInt32
  rw [List.append_assoc, readInt16_writeInt16]
  simp only [bind, Except.bind]
  rw [readInt16_writeInt16]
  simp only
  congr 2
  omega

theorem readInt64_two (hi lo : Int) (rest : Bytes) :
    readInt64 (writeInt32 hi ++ writeInt32 lo ++ rest) =
      .ok (int64Overflow (((hi % 4294967296).toNat % 4294967296 * 4294967296 + (lo % 4294967296).toNat % 4294967296 : Nat) : Int), rest) := by
  unfold readInt64
  rw [List.append_assoc]
  rw [readInt32_writeInt32 hi]
  simp only [bind, Except.bind]
  rw [readInt32_writeInt32 lo]

theorem readInt64_writeInt64 (v : Int) (h : -9223372036854775808 ≤ v ∧ v < 9223372036854775808) (rest : Bytes) :
    readInt64 (writeInt64 v ++ rest) = .ok (v, rest) := by
  refine (readInt64_two (v / 4294967296) v rest).trans ?_
  have e : int64Overflow (((v / 4294967296 % 4294967296).toNat % 4294967296 * 4294967296 + (v % 4294967296).toNat % 4294967296 : Nat) : Int) = v := by
    unfold int64Overflow
    rw [fmod_pos _ _ (by decide)]
    omega
  rw [e]

/-! ## milliseconds, offsets -/

local macro "unfold_consts" : tactic =>
  `(tactic| simp only [MsPD, MS30MIN, MSMIN, MSSEC, decBound, INT_MAX, INT_MIN] at *)

theorem csharpMod_nonneg (a b : Int) (ha : 0 ≤ a) (hb : 0 < b) : csharpMod a b = a % b := by
  rw [csharpMod_pos a b hb]
  have : ¬ (a < 0 ∧ 0 < a % b) := by omega
  simp [this]

theorem pyTdiv_nonneg (a b : Int) (ha : 0 ≤ a) (ha2 : a < decBound) (hb : 0 < b) (hb2 : b < decBound) :
    pyTdiv a b = .ok (a / b) := by
  rw [pyTdiv_ok a b (by omega) (by unfold decBound at *; omega) ha2 (by unfold decBound at *; omega) hb2]
  rw [tdiv_pos a b hb]
  simp [ha]

theorem writeByte_ok (v : Int) (h : 0 ≤ v ∧ v ≤ 255) : writeByte v = .ok [v.toNat] := by
  simp [writeByte, h]

theorem writeMilliseconds_eq (v : Int) (h : -MsPD < v ∧ v < MsPD) :
    writeMilliseconds v =
      if (v + MsPD) % 1800000 = 0 then .ok [((v + MsPD) / 1800000).toNat]
      else if (v + MsPD) % 60000 = 0 then .ok [(128 + (v + MsPD) / 60000 / 256).toNat, ((v + MsPD) / 60000 % 256).toNat]
      else if (v + MsPD) % 1000 = 0 then .ok ((160 + (v + MsPD) / 1000 / 65536).toNat :: writeInt16 ((v + MsPD) / 1000 % 65536))
      else .ok (writeInt32 (3221225472 + (v + MsPD))) := by
  unfold writeMilliseconds checkRange
  have hr : ¬ (v < -MsPD + 1 ∨ v > MsPD - 1) := by omega
  simp only [hr, if_false, bind, Except.bind]
  have hm : 0 ≤ v + MsPD := by omega
  have hm2 : v + MsPD < decBound := by unfold_consts; omega
  rw [csharpMod_nonneg _ MS30MIN hm (by decide), csharpMod_nonneg _ MSMIN hm (by decide), csharpMod_nonneg _ MSSEC hm (by decide)]
  rw [pyTdiv_nonneg _ MS30MIN hm hm2 (by decide) (by decide), pyTdiv_nonneg _ MSMIN hm hm2 (by decide) (by decide),
    pyTdiv_nonneg _ MSSEC hm hm2 (by decide) (by decide)]
  unfold_consts
  by_cases h1 : (v + 86400000) % 1800000 = 0
  · simp only [h1, if_true]
    rw [writeByte_ok _ (by omega)]
  · simp only [h1, if_false]
    by_cases h2 : (v + 86400000) % 60000 = 0
    · simp only [h2, if_true]
      rw [writeByte_ok _ (by omega), writeByte_ok _ (by omega)]
      rfl
    · simp only [h2, if_false]
      by_cases h3 : (v + 86400000) % 1000 = 0
      · simp only [h3, if_true]
        rw [writeByte_ok _ (by omega)]
        rfl
      · simp only [h3, if_false]

theorem writeMilliseconds_length (v : Int) (h : -MsPD < v ∧ v < MsPD) :
    ∃ bs, writeMilliseconds v = .ok bs ∧
      bs.length = (if (v + MsPD) % 1800000 = 0 then 1 else if (v + MsPD) % 60000 = 0 then 2
                   else if (v + MsPD) % 1000 = 0 then 3 else 4) := by
  rw [writeMilliseconds_eq v h]
  split
  · exact ⟨_, rfl, rfl⟩
  · split
    · exact ⟨_, rfl, rfl⟩
    · split
      · exact ⟨_, rfl, rfl⟩
      · exact ⟨_, rfl, rfl⟩

theorem readMilliseconds_writeMilliseconds (v : Int) (h : -MsPD < v ∧ v < MsPD) (rest : Bytes) :
    ∃ bs, writeMilliseconds v = .ok bs ∧ readMilliseconds (bs ++ rest) = .ok (v, rest) := by
  rw [writeMilliseconds_eq v h]
  unfold_consts
  by_cases h1 : (v + 86400000) % 1800000 = 0
  · simp only [h1, if_true]
    refine ⟨_, rfl, ?_⟩
    simp only [List.cons_append, List.nil_append, readMilliseconds, readByte, bind, Except.bind]
    have : ((v + 86400000) / 1800000).toNat < 128 := by omega
    simp only [this, if_true]
    congr 2
    unfold_consts
    omega
  · simp only [h1, if_false]
    by_cases h2 : (v + 86400000) % 60000 = 0
    · simp only [h2, if_true]
      refine ⟨_, rfl, ?_⟩
      simp only [List.cons_append, List.nil_append, readMilliseconds, readByte, bind, Except.bind]
      have e1 : ¬ (128 + (v + 86400000) / 60000 / 256).toNat < 128 := by omega
      have e2 : (128 + (v + 86400000) / 60000 / 256).toNat / 32 = 4 := by omega
      simp only [e1, if_false, e2, if_true]
      congr 2
      unfold_consts
      omega
    · simp only [h2, if_false]
      by_cases h3 : (v + 86400000) % 1000 = 0
      · simp only [h3, if_true]
        refine ⟨_, rfl, ?_⟩
        simp only [List.cons_append, List.nil_append, readMilliseconds, readByte, bind, Except.bind, writeInt16, readInt16]
        have e1 : ¬ (160 + (v + 86400000) / 1000 / 65536).toNat < 128 := by omega
        have e2 : (160 + (v + 86400000) / 1000 / 65536).toNat / 32 = 5 := by omega
        simp only [e1, if_false, e2]
        simp only [show ¬ (5 = 4) by decide, if_false, if_true]
        congr 2
        unfold_consts
        omega
      · simp only [h3, if_false]
        refine ⟨_, rfl, ?_⟩
        simp only [writeInt32, writeInt16, List.cons_append, List.nil_append, readMilliseconds, readByte, bind, Except.bind, readInt16]
        have e1 : ¬ (((3221225472 + (v + 86400000)) / 65536 / 256 % 256).toNat < 128) := by omega
        have e2 : ((3221225472 + (v + 86400000)) / 65536 / 256 % 256).toNat / 32 = 6 := by omega
        simp only [e1, if_false, e2]
        simp only [show ¬ (6 = 4) by decide, show ¬ (6 = 5) by decide, if_false, if_true]
        congr 2
        unfold_consts
        omega

theorem readOffset_writeOffset (o : Offset) (h : Offset.MIN_S ≤ o.seconds ∧ o.seconds ≤ Offset.MAX_S) (rest : Bytes) :
    ∃ bs, writeOffset o = .ok bs ∧ readOffset (bs ++ rest) = .ok (o, rest) := by
  unfold Offset.MIN_S Offset.MAX_S at h
  obtain ⟨bs, h1, h2⟩ := readMilliseconds_writeMilliseconds (o.seconds * 1000) (by unfold MsPD; omega) rest
  refine ⟨bs, h1, ?_⟩
  unfold readOffset
  rw [h2]
  simp only [bind, Except.bind, Offset.fromMilliseconds, checkRange]
  have : ¬ (o.seconds * 1000 < -18 * 3600000 ∨ o.seconds * 1000 > 18 * 3600000) := by omega
  simp only [this, if_false]
  rw [pyTdiv_ok _ _ (by decide) (by unfold decBound; omega) (by unfold decBound; omega) (by decide) (by decide)]
  have e : (o.seconds * 1000).tdiv 1000 = o.seconds := by
    rw [tdiv_pos _ _ (by decide)]; split <;> omega
  rw [e]
  simp only [Offset.ctor, checkRange, Offset.MIN_S, Offset.MAX_S, bind, Except.bind]
  have : ¬ (o.seconds < -64800 ∨ o.seconds > 64800) := by omega
  simp only [this, if_false]

/-! ## strings -/

theorem takeExact_append (s rest : Bytes) : takeExact s.length (s ++ rest) = some (s, rest) := by
  induction s with
  | nil => cases rest <;> simp [takeExact]
  | cons b s ih => simp [takeExact, ih]

theorem readString_inline (s : Str) (hv : validUtf8 s = true) (hl : (s.length : Int) ≤ INT_MAX) (rest : Bytes) :
    ∃ bs, writeStringInline s = .ok bs ∧ readString none (bs ++ rest) = .ok (s, rest) := by
  have hc := writeCount_ok (s.length : Int) ⟨by omega, hl⟩
  refine ⟨writeVarint s.length ++ s, ?_, ?_⟩
  · unfold writeStringInline
    rw [hc]
    simp [bind, Except.bind]
  · unfold readString
    rw [List.append_assoc]
    have := readCount_varint (s.length : Int) ⟨by omega, hl⟩ (s ++ rest)
    simp only [Int.toNat_natCast] at this
    rw [this]
    simp only [bind, Except.bind, Int.toNat_natCast, takeExact_append, hv, if_true]

theorem indexOf_get (pool : List Str) (s : Str) (i : Nat) (h : indexOf? pool s = some i) : pool[i]? = some s := by
  unfold indexOf? at h
  simp only at h
  split at h
  · rename_i hlt
    cases h
    have := List.findIdx_getElem (w := hlt)
    simp only [decide_eq_true_eq] at this
    rw [List.getElem?_eq_getElem hlt, this]
  · cases h

theorem writeCount_eq_ok (n : Int) (bs : Bytes) (h : writeCount n = .ok bs) : 0 ≤ n ∧ n ≤ INT_MAX ∧ bs = writeVarint n.toNat := by
  by_cases hr : 0 ≤ n ∧ n ≤ INT_MAX
  · rw [writeCount_ok n hr] at h
    cases h
    exact ⟨hr.1, hr.2, rfl⟩
  · unfold writeCount checkRange at h
    have : n < 0 ∨ n > INT_MAX := by omega
    simp only [this, if_true] at h
    cases h

theorem readString_pooled (pool : List Str) (s : Str) (final : List Str) (bs : Bytes) (pool' : List Str)
    (hw : writeStringPooled pool s = .ok (bs, pool')) (hp : pool' <+: final) (rest : Bytes) :
    readString (some final) (bs ++ rest) = .ok (s, rest) := by
  unfold writeStringPooled at hw
  obtain ⟨t, rfl⟩ := hp
  cases hi : indexOf? pool s with
  | some i =>
    rw [hi] at hw
    simp only at hw
    cases hc : writeCount (i : Int) with
    | error e => rw [hc] at hw; cases hw
    | ok c =>
      rw [hc] at hw
      simp only [bind, Except.bind] at hw
      cases hw
      obtain ⟨h0, h1, rfl⟩ := writeCount_eq_ok _ _ hc
      unfold readString
      rw [readCount_varint (i : Int) ⟨h0, h1⟩ rest]
      simp only [bind, Except.bind, Int.toNat_natCast]
      have hg := indexOf_get pool s i hi
      have hlt : i < pool.length := by
        rcases Nat.lt_or_ge i pool.length with h | h
        · exact h
        · rw [List.getElem?_eq_none h] at hg; cases hg
      rw [List.getElem?_append_left hlt, hg]
  | none =>
    rw [hi] at hw
    simp only at hw
    cases hc : writeCount (pool.length : Int) with
    | error e => rw [hc] at hw; cases hw
    | ok c =>
      rw [hc] at hw
      simp only [bind, Except.bind] at hw
      cases hw
      obtain ⟨h0, h1, rfl⟩ := writeCount_eq_ok _ _ hc
      unfold readString
      rw [readCount_varint (pool.length : Int) ⟨h0, h1⟩ rest]
      simp only [bind, Except.bind, Int.toNat_natCast]
      have : (pool ++ [s] ++ t)[pool.length]? = some s := by
        rw [List.append_assoc, List.getElem?_append_right (Nat.le_refl _)]
        simp
      rw [this]

end Pyoda.C14
