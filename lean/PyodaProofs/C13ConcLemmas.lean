/- Helper lemmas for the interleaving theorems of C13 (zone cache, Hebrew cache, locked LRU). -/
import PyodaModel.Cache.ZoneCacheConc
import PyodaModel.Cache.HebrewConc
import PyodaModel.Cache.LruConc
import PyodaModel.Cache.FormatInfo
import PyodaProofs.C13Lemmas

namespace Pyoda.C13
open Pyoda.Cache

/-! ### zone-interval cache under interleaving -/
section ZoneConc
open ZoneHashCache ZoneCacheConc

def zpending : ZoneCacheConc.Phase → List Int
  | .idle => []
  | .haveNode t _ => [t]
  | .built t _ => [t]
  | .written t _ => [t]
  | .failed => []

def ZPhaseOK (cfg : Cfg) (hi : Int) : ZoneCacheConc.Phase → Prop
  | .idle => True
  | .haveNode t n => Askable cfg hi t ∧ ∀ m, n = some m → NodeOK cfg (cfg.minDays * NPD) hi m
  | .built t n => Askable cfg hi t ∧ n.period = periodOf t ∧ NodeOK cfg (cfg.minDays * NPD) hi n
  | .written t n => Askable cfg hi t ∧ n.period = periodOf t ∧ NodeOK cfg (cfg.minDays * NPD) hi n
  | .failed => False

def ZThreadInv (cfg : Cfg) (hi : Int) (prog : List Int) (th : ZoneCacheConc.Thread) : Prop :=
  (∀ t ∈ th.todo, Askable cfg hi t) ∧ (∀ p ∈ th.out, p.2 = cfg.get p.1) ∧ ZPhaseOK cfg hi th.phase ∧
  (th.out.reverse.map (·.1)) ++ zpending th.phase ++ th.todo = prog

theorem zupdate_inv {cfg : Cfg} {hi : Int} (s : State) (i : Nat) (n : Node)
    (hs : ZInv cfg (cfg.minDays * NPD) hi s) (hn : NodeOK cfg (cfg.minDays * NPD) hi n) :
    ZInv cfg (cfg.minDays * NPD) hi (update s i (some n)) := by
  intro j m hm
  unfold update at hm
  by_cases hj : j = i
  · simp only [hj, if_true, Option.some.injEq] at hm; subst hm; exact hn
  · simp only [hj, if_false] at hm; exact hs j m hm

theorem zconc_step {cfg : Cfg} {hi : Int} (hp : Partition cfg.get (cfg.minDays * NPD) hi)
    (hfuel : 32 * 86400000000000 < cfg.fuel) (prog : List Int) (tid : Nat) (s : State) (th : ZoneCacheConc.Thread)
    (hs : ZInv cfg (cfg.minDays * NPD) hi s) (ht : ZThreadInv cfg hi prog th) :
    ZInv cfg (cfg.minDays * NPD) hi (ZoneCacheConc.step cfg tid s th).1 ∧
      ZThreadInv cfg hi prog (ZoneCacheConc.step cfg tid s th).2 := by
  obtain ⟨todo, phase, out⟩ := th
  obtain ⟨h1, h2, h3, h4⟩ := ht
  simp only at h1 h2 h3 h4
  cases phase with
  | idle =>
    cases todo with
    | nil => exact ⟨hs, h1, h2, h3, h4⟩
    | cons t rest =>
      simp only [ZoneCacheConc.step]
      refine ⟨hs, ?_, h2, ⟨h1 t (List.mem_cons_self ..), ?_⟩, ?_⟩
      · intro z hz; exact h1 z (List.mem_cons_of_mem _ hz)
      · intro m hm; exact hs _ m hm
      · simpa [zpending] using h4
  | haveNode t n =>
    simp only [ZPhaseOK] at h3
    obtain ⟨m, hcn, hmp, hmok⟩ := createNode_ok hp hfuel t h3.1
    cases n with
    | none =>
      simp only [ZoneCacheConc.step, hcn]
      exact ⟨hs, h1, h2, ⟨h3.1, hmp, hmok⟩, by simpa [zpending] using h4⟩
    | some n =>
      simp only [ZoneCacheConc.step]
      by_cases hper : n.period = periodOf t
      · simp only [hper, if_true]
        refine ⟨hs, h1, ?_, trivial, by simpa [zpending] using h4⟩
        intro p hp'
        rcases List.mem_cons.mp hp' with rfl | hp'
        · exact node_lookup hp n (h3.2 n rfl) t h3.1.1 hper
        · exact h2 p hp'
      · simp only [hper, if_false, hcn]
        exact ⟨hs, h1, h2, ⟨h3.1, hmp, hmok⟩, by simpa [zpending] using h4⟩
  | built t n =>
    simp only [ZPhaseOK] at h3
    simp only [ZoneCacheConc.step]
    exact ⟨zupdate_inv s _ n hs h3.2.2, h1, h2, h3, by simpa [zpending] using h4⟩
  | written t n =>
    simp only [ZPhaseOK] at h3
    simp only [ZoneCacheConc.step]
    refine ⟨hs, h1, ?_, trivial, by simpa [zpending] using h4⟩
    intro p hp'
    rcases List.mem_cons.mp hp' with rfl | hp'
    · exact node_lookup hp n h3.2.2 t h3.1.1 h3.2.1
    · exact h2 p hp'
  | failed => exact absurd h3 (by simp [ZPhaseOK])

end ZoneConc

/-! ### Hebrew global cache under interleaving -/
section HebConc
open YearCache YearCache.Hebrew HebrewConc

/-- years the Hebrew calculator may be asked about: the year and its successor are inside the validator window -/
def HebAskable (y : Int) : Prop := InRange y ∧ InRange (y + 1)

def hpending : HebrewConc.Phase → List Int
  | .idle => []
  | .haveEntry y _ => [y]
  | .needCompute y _ => [y]
  | .computed y _ _ => [y]
  | .written y _ => [y]

def HPhaseOK (elapsed : Int → Int) : HebrewConc.Phase → Prop
  | .idle => True
  | .haveEntry y e => HebAskable y ∧ GoodEntry (entryOf elapsed) (indexOf y) e
  | .needCompute y _ => HebAskable y
  | .computed y v _ => HebAskable y ∧ v = entryOf elapsed y
  | .written y v => HebAskable y ∧ v = entryOf elapsed y

def HThreadInv (elapsed : Int → Int) (prog : List Int) (t : HebrewConc.Thread) : Prop :=
  (∀ y ∈ t.todo, HebAskable y) ∧ (∀ p ∈ t.out, p.2 = entryOf elapsed p.1) ∧ HPhaseOK elapsed t.phase ∧
  (t.out.reverse.map (·.1)) ++ hpending t.phase ++ t.todo = prog

theorem hconc_step (elapsed : Int → Int) (prog : List Int) (tid : Nat) (s : State) (t : HebrewConc.Thread)
    (hs : Good (entryOf elapsed) s) (ht : HThreadInv elapsed prog t) :
    Good (entryOf elapsed) (HebrewConc.step elapsed tid s t).1 ∧
      HThreadInv elapsed prog (HebrewConc.step elapsed tid s t).2 := by
  obtain ⟨todo, phase, out⟩ := t
  obtain ⟨h1, h2, h3, h4⟩ := ht
  simp only at h1 h2 h3 h4
  cases phase with
  | idle =>
    cases todo with
    | nil => exact ⟨hs, h1, h2, h3, h4⟩
    | cons y rest =>
      have hy := h1 y (List.mem_cons_self ..)
      have hrest : ∀ z ∈ rest, HebAskable z := fun z hz => h1 z (List.mem_cons_of_mem _ hz)
      simp only [HebrewConc.step]
      by_cases hout : y < minYear ∨ y > maxYear
      · simp only [hout, if_true]
        exact ⟨hs, hrest, h2, hy, by simpa [hpending] using h4⟩
      · simp only [hout, if_false]
        exact ⟨hs, hrest, h2, ⟨hy, hs _⟩, by simpa [hpending] using h4⟩
  | haveEntry y e =>
    simp only [HPhaseOK] at h3
    simp only [HebrewConc.step]
    by_cases hv : isValidFor e y = true
    · simp only [hv, if_true]
      refine ⟨hs, h1, ?_, trivial, by simpa [hpending] using h4⟩
      intro p hp
      rcases List.mem_cons.mp hp with rfl | hp
      · exact good_valid (entryOf elapsed) e y h3.1.1 h3.2 hv
      · exact h2 p hp
    · simp only [hv]
      exact ⟨hs, h1, h2, h3.1, by simpa [hpending] using h4⟩
  | needCompute y store =>
    simp only [HPhaseOK] at h3
    simp only [HebrewConc.step]
    exact ⟨hs, h1, h2, ⟨h3, computeEntry_eq elapsed s y hs h3.2⟩, by simpa [hpending] using h4⟩
  | computed y v store =>
    simp only [HPhaseOK] at h3
    cases store with
    | true =>
      simp only [HebrewConc.step]
      refine ⟨?_, h1, h2, h3, by simpa [hpending] using h4⟩
      rw [h3.2]
      exact good_update (entryOf elapsed) s y hs h3.1.1
    | false =>
      simp only [HebrewConc.step]
      refine ⟨hs, h1, ?_, trivial, by simpa [hpending] using h4⟩
      intro p hp
      rcases List.mem_cons.mp hp with rfl | hp
      · exact h3.2
      · exact h2 p hp
  | written y v =>
    simp only [HPhaseOK] at h3
    simp only [HebrewConc.step]
    refine ⟨hs, h1, ?_, trivial, by simpa [hpending] using h4⟩
    intro p hp
    rcases List.mem_cons.mp hp with rfl | hp
    · simp only; rw [startDays_mkEntry]; exact h3.2
    · exact h2 p hp

end HebConc

/-! ### `_Cache` under the lock: linearisation -/
section LruConcSec
open Lru LruConc Interleave

def inCritL : PC → Bool
  | .start => false
  | _ => true

def fetchRes (st : Lru.State) (k : Int) : R Int :=
  match find st.dict k with
  | some v => .ok v
  | none => .error .keyError

/-- the rest of `get_or_add` once the key has been appended and inserted -/
def afterInsert (size : Nat) (st : Lru.State) (k : Int) : Lru.State × R Int :=
  match evict size st.dict st.keys with
  | (s', some e) => (s', .error e)
  | (s', none) => (s', fetchRes s' k)

/-- where the call in flight ends up if it runs to its `release` undisturbed: final dictionary/queue and result -/
def complete (f : Int → Int) (size : Nat) (st : Lru.State) : PC → Lru.State × R Int
  | .start => (st, .error .other)
  | .locked k => ((Lru.step f size st k).1, (Lru.step f size st k).2.res)
  | .missed k => afterInsert size ⟨st.dict ++ [(k, f k)], st.keys ++ [k]⟩ k
  | .evicting k => afterInsert size st k
  | .fetch k => (st, fetchRes st k)
  | .releasing r => (st, r)

theorem step_eq_complete (f : Int → Int) (size : Nat) (st : Lru.State) (k : Int) :
    ((Lru.step f size st k).1, (Lru.step f size st k).2.res) =
      match find st.dict k with
      | some v => (st, .ok v)
      | none => afterInsert size ⟨st.dict ++ [(k, f k)], st.keys ++ [k]⟩ k := by
  unfold Lru.step afterInsert fetchRes
  cases find st.dict k with
  | some v => rfl
  | none =>
    simp only
    cases h : evict size (st.dict ++ [(k, f k)]) (st.keys ++ [k]) with
    | mk s' e =>
      cases e with
      | some e => rfl
      | none =>
        simp only
        cases find s'.dict k <;> rfl

theorem run_append (f : Int → Int) (size : Nat) : ∀ (a : List Int) (s : Lru.State) (k : Int),
    (Lru.run f size s (a ++ [k])).1 = (Lru.step f size (Lru.run f size s a).1 k).1 := by
  intro a
  induction a with
  | nil => intro s k; simp [Lru.run]
  | cons x rest ih => intro s k; simp only [List.cons_append, Lru.run]; exact ih _ k

theorem linOut_append (f : Int → Int) (size : Nat) : ∀ (h : List (Nat × Int)) (s : Lru.State) (j : Nat) (k : Int) (i : Nat),
    linOut f size s (h ++ [(j, k)]) i =
      linOut f size s h i ++
        (if j = i then [(Lru.step f size (Lru.run f size s (h.map (·.2))).1 k).2.res] else []) := by
  intro h
  induction h with
  | nil =>
    intro s j k i
    simp only [List.nil_append, linOut, List.map_nil, Lru.run]
  | cons p rest ih =>
    intro s j k i
    obtain ⟨j', k'⟩ := p
    simp only [List.cons_append, linOut, List.map_cons, Lru.run]
    rw [ih]
    split <;> simp


structure LinInv (f : Int → Int) (size : Nat) (progs : Nat → List Int) (sys : LruConc.Sys) : Prop where
  mutex : ∀ i, inCritL (sys.threads i).pc = true → sys.shared.lock = some i
  free : sys.shared.lock = none → sys.shared.st = (Lru.run f size Lru.init (sys.shared.hist.map (·.2))).1
  held : ∀ i, inCritL (sys.threads i).pc = true → ∃ pre k, sys.shared.hist = pre ++ [(i, k)] ∧
    complete f size sys.shared.st (sys.threads i).pc =
      ((Lru.step f size (Lru.run f size Lru.init (pre.map (·.2))).1 k).1,
       (Lru.step f size (Lru.run f size Lru.init (pre.map (·.2))).1 k).2.res)
  outs : ∀ i, linOut f size Lru.init sys.shared.hist i =
    (sys.threads i).out.reverse ++
      (if inCritL (sys.threads i).pc = true then [(complete f size sys.shared.st (sys.threads i).pc).2] else [])
  order : ∀ i, (sys.shared.hist.filter (fun p => p.1 == i)).map (·.2) ++ (sys.threads i).todo = progs i

theorem linInv_init (f : Int → Int) (size : Nat) (progs : Nat → List Int) :
    LinInv f size progs (LruConc.sys0 progs) := by
  constructor <;> simp [LruConc.sys0, shared0, inCritL, linOut, Lru.run]

/-- a step of the lock holder inside the critical region that leaves lock, history, queue of calls and results
    untouched and does not change where the call ends up -/
theorem linInv_micro (f : Int → Int) (size : Nat) (progs : Nat → List Int) (sys : LruConc.Sys) (tid : Nat)
    (h : LinInv f size progs sys) (st' : Lru.State) (pc' : PC)
    (hc : inCritL (sys.threads tid).pc = true) (hc' : inCritL pc' = true)
    (hcomp : complete f size st' pc' = complete f size sys.shared.st (sys.threads tid).pc) :
    LinInv f size progs ⟨{ sys.shared with st := st' },
      fun j => if j = tid then { sys.threads tid with pc := pc' } else sys.threads j⟩ := by
  have hlock := h.mutex tid hc
  have others : ∀ j, j ≠ tid → inCritL (sys.threads j).pc = false := by
    intro j hj
    cases hcj : inCritL (sys.threads j).pc with
    | false => rfl
    | true => have := h.mutex j hcj; rw [hlock] at this; injection this with e; exact absurd e.symm hj
  constructor
  · intro i hi
    simp only at hi ⊢
    by_cases hit : i = tid
    · rw [hit]; exact hlock
    · simp only [hit, if_false] at hi; exact h.mutex i hi
  · intro hl; simp only at hl; rw [hlock] at hl; cases hl
  · intro i hi
    simp only at hi ⊢
    by_cases hit : i = tid
    · subst hit
      simp only [if_true]
      rw [hcomp]
      exact h.held i hc
    · simp only [hit, if_false] at hi; rw [others i hit] at hi; cases hi
  · intro i
    simp only
    by_cases hit : i = tid
    · subst hit
      simp only [if_true, hc']
      rw [hcomp]
      have := h.outs i
      simp only [hc, if_true] at this
      exact this
    · simp only [hit, if_false]
      have := h.outs i
      simp only [others i hit, Bool.false_eq_true, if_false] at this ⊢
      exact this
  · intro i
    simp only
    by_cases hit : i = tid
    · subst hit; simp only [if_true]; exact h.order i
    · simp only [hit, if_false]; exact h.order i


theorem linInv_step (f : Int → Int) (size : Nat) (progs : Nat → List Int) (sys : LruConc.Sys) (tid : Nat)
    (h : LinInv f size progs sys) : LinInv f size progs (stepAt (LruConc.step f size) sys tid) := by
  cases hpc : (sys.threads tid).pc with
  | start =>
    cases htodo : (sys.threads tid).todo with
    | nil =>
      have : stepAt (LruConc.step f size) sys tid = ⟨sys.shared, fun j => if j = tid then sys.threads tid else sys.threads j⟩ := by
        simp only [stepAt, LruConc.step, hpc, htodo]
      rw [this]
      have e : (fun j => if j = tid then sys.threads tid else sys.threads j) = sys.threads := by
        funext j; by_cases hj : j = tid <;> simp [hj]
      rw [e]; exact h
    | cons k rest =>
      by_cases hl : sys.shared.lock = none
      · -- acquire: the call is linearised here
        have nocrit : ∀ j, inCritL (sys.threads j).pc = false := by
          intro j
          cases hcj : inCritL (sys.threads j).pc with
          | false => rfl
          | true => have := h.mutex j hcj; rw [hl] at this; cases this
        have hst := h.free hl
        have : stepAt (LruConc.step f size) sys tid =
            ⟨{ sys.shared with lock := some tid, hist := sys.shared.hist ++ [(tid, k)] },
             fun j => if j = tid then { sys.threads tid with todo := rest, pc := .locked k } else sys.threads j⟩ := by
          simp only [stepAt, LruConc.step, hpc, htodo, hl, if_true]
        rw [this]
        constructor
        · intro i hi
          simp only at hi ⊢
          by_cases hit : i = tid
          · rw [hit]
          · simp only [hit, if_false] at hi; rw [nocrit i] at hi; cases hi
        · intro hl'; simp only at hl'; cases hl'
        · intro i hi
          simp only at hi ⊢
          by_cases hit : i = tid
          · subst hit
            simp only [if_true]
            exact ⟨sys.shared.hist, k, rfl, by simp only [complete]; rw [hst]⟩
          · simp only [hit, if_false] at hi; rw [nocrit i] at hi; cases hi
        · intro i
          simp only
          rw [linOut_append]
          have ho := h.outs i
          simp only [nocrit i, Bool.false_eq_true, if_false, List.append_nil] at ho
          by_cases hit : i = tid
          · subst hit
            simp only [if_true, inCritL, complete]
            rw [ho, hst]
          · have hne : ¬ tid = i := fun e => hit e.symm
            simp only [hit, hne, if_false, nocrit i, Bool.false_eq_true, List.append_nil]
            exact ho
        · intro i
          simp only
          rw [List.filter_append, List.map_append]
          have ho := h.order i
          by_cases hit : i = tid
          · subst hit
            simp only [if_true, List.filter_cons, List.filter_nil, beq_self_eq_true, List.map_cons, List.map_nil]
            rw [htodo] at ho
            simpa [List.append_assoc] using ho
          · have hne : (tid == i) = false := by simp; exact fun e => hit e.symm
            simp only [hit, if_false, List.filter_cons, List.filter_nil, hne, Bool.false_eq_true, List.map_nil, List.append_nil]
            exact ho
      · -- blocked on the lock
        have : stepAt (LruConc.step f size) sys tid = ⟨sys.shared, fun j => if j = tid then sys.threads tid else sys.threads j⟩ := by
          simp only [stepAt, LruConc.step, hpc, htodo, hl, if_false]
        rw [this]
        have e : (fun j => if j = tid then sys.threads tid else sys.threads j) = sys.threads := by
          funext j; by_cases hj : j = tid <;> simp [hj]
        rw [e]; exact h
  | locked k =>
    have hc : inCritL (sys.threads tid).pc = true := by rw [hpc]; rfl
    cases hf : find sys.shared.st.dict k with
    | some v =>
      have : stepAt (LruConc.step f size) sys tid =
          ⟨{ sys.shared with st := sys.shared.st }, fun j => if j = tid then { sys.threads tid with pc := .releasing (.ok v) } else sys.threads j⟩ := by
        simp only [stepAt, LruConc.step, hpc, hf]
      rw [this]
      refine linInv_micro f size progs sys tid h _ _ hc rfl ?_
      rw [hpc]; simp only [complete]; rw [step_eq_complete, hf]
    | none =>
      have : stepAt (LruConc.step f size) sys tid =
          ⟨{ sys.shared with st := sys.shared.st }, fun j => if j = tid then { sys.threads tid with pc := .missed k } else sys.threads j⟩ := by
        simp only [stepAt, LruConc.step, hpc, hf]
      rw [this]
      refine linInv_micro f size progs sys tid h _ _ hc rfl ?_
      rw [hpc]; simp only [complete]; rw [step_eq_complete, hf]
  | missed k =>
    have hc : inCritL (sys.threads tid).pc = true := by rw [hpc]; rfl
    have : stepAt (LruConc.step f size) sys tid =
        ⟨{ sys.shared with st := ⟨sys.shared.st.dict ++ [(k, f k)], sys.shared.st.keys ++ [k]⟩ },
         fun j => if j = tid then { sys.threads tid with pc := .evicting k } else sys.threads j⟩ := by
      simp only [stepAt, LruConc.step, hpc]
    rw [this]
    refine linInv_micro f size progs sys tid h _ _ hc rfl ?_
    rw [hpc]; simp only [complete]
  | evicting k =>
    have hc : inCritL (sys.threads tid).pc = true := by rw [hpc]; rfl
    by_cases hgt : sys.shared.st.dict.length > size
    · cases hk : sys.shared.st.keys with
      | nil =>
        have : stepAt (LruConc.step f size) sys tid =
            ⟨{ sys.shared with st := sys.shared.st }, fun j => if j = tid then { sys.threads tid with pc := .releasing (.error .indexError) } else sys.threads j⟩ := by
          simp only [stepAt, LruConc.step, hpc, hgt, if_true, hk]
        rw [this]
        refine linInv_micro f size progs sys tid h _ _ hc rfl ?_
        rw [hpc]; simp only [complete, afterInsert, hk, evict, hgt, if_true]
        have e : sys.shared.st = ⟨sys.shared.st.dict, []⟩ := by
          calc sys.shared.st = ⟨sys.shared.st.dict, sys.shared.st.keys⟩ := rfl
            _ = ⟨sys.shared.st.dict, []⟩ := by rw [hk]
        rw [← e]
      | cons k0 ks =>
        have : stepAt (LruConc.step f size) sys tid =
            ⟨{ sys.shared with st := ⟨del sys.shared.st.dict k0, ks⟩ },
             fun j => if j = tid then { sys.threads tid with pc := .evicting k } else sys.threads j⟩ := by
          simp only [stepAt, LruConc.step, hpc, hgt, if_true, hk]
          congr 1
          funext j
          by_cases hj : j = tid
          · subst hj; simp only [if_true]; rw [← hpc]
          · simp only [hj, if_false]
        rw [this]
        refine linInv_micro f size progs sys tid h _ _ hc rfl ?_
        rw [hpc]; simp only [complete, afterInsert, hk, evict, hgt, if_true]
    · have : stepAt (LruConc.step f size) sys tid =
          ⟨{ sys.shared with st := sys.shared.st }, fun j => if j = tid then { sys.threads tid with pc := .fetch k } else sys.threads j⟩ := by
        simp only [stepAt, LruConc.step, hpc, hgt, if_false]
      rw [this]
      refine linInv_micro f size progs sys tid h _ _ hc rfl ?_
      rw [hpc]; simp only [complete, afterInsert]
      rw [evict_fits size _ _ (Nat.le_of_not_gt hgt)]
  | fetch k =>
    have hc : inCritL (sys.threads tid).pc = true := by rw [hpc]; rfl
    cases hf : find sys.shared.st.dict k with
    | some v =>
      have : stepAt (LruConc.step f size) sys tid =
          ⟨{ sys.shared with st := sys.shared.st }, fun j => if j = tid then { sys.threads tid with pc := .releasing (.ok v) } else sys.threads j⟩ := by
        simp only [stepAt, LruConc.step, hpc, hf]
      rw [this]
      refine linInv_micro f size progs sys tid h _ _ hc rfl ?_
      rw [hpc]; simp only [complete, fetchRes, hf]
    | none =>
      have : stepAt (LruConc.step f size) sys tid =
          ⟨{ sys.shared with st := sys.shared.st }, fun j => if j = tid then { sys.threads tid with pc := .releasing (.error .keyError) } else sys.threads j⟩ := by
        simp only [stepAt, LruConc.step, hpc, hf]
      rw [this]
      refine linInv_micro f size progs sys tid h _ _ hc rfl ?_
      rw [hpc]; simp only [complete, fetchRes, hf]
  | releasing r =>
    have hc : inCritL (sys.threads tid).pc = true := by rw [hpc]; rfl
    have hlock := h.mutex tid hc
    have others : ∀ j, j ≠ tid → inCritL (sys.threads j).pc = false := by
      intro j hj
      cases hcj : inCritL (sys.threads j).pc with
      | false => rfl
      | true => have := h.mutex j hcj; rw [hlock] at this; injection this with e; exact absurd e.symm hj
    obtain ⟨pre, k, hhist, hcomp⟩ := h.held tid hc
    rw [hpc] at hcomp
    simp only [complete, Prod.mk.injEq] at hcomp
    have : stepAt (LruConc.step f size) sys tid =
        ⟨{ sys.shared with lock := none },
         fun j => if j = tid then { sys.threads tid with pc := .start, out := r :: (sys.threads tid).out } else sys.threads j⟩ := by
      simp only [stepAt, LruConc.step, hpc]
    rw [this]
    constructor
    · intro i hi
      simp only at hi ⊢
      by_cases hit : i = tid
      · simp [hit, inCritL] at hi
      · simp only [hit, if_false] at hi; rw [others i hit] at hi; cases hi
    · intro _
      simp only
      rw [hhist, List.map_append, List.map_cons, List.map_nil, run_append]
      exact hcomp.1
    · intro i hi
      simp only at hi
      by_cases hit : i = tid
      · simp [hit, inCritL] at hi
      · simp only [hit, if_false] at hi; rw [others i hit] at hi; cases hi
    · intro i
      simp only
      have ho := h.outs i
      by_cases hit : i = tid
      · subst hit
        simp only [if_true, inCritL, Bool.false_eq_true, if_false, List.append_nil, List.reverse_cons]
        simp only [hpc, complete] at ho
        exact ho
      · simp only [hit, if_false]
        simp only [others i hit, Bool.false_eq_true, if_false] at ho ⊢
        exact ho
    · intro i
      simp only
      by_cases hit : i = tid
      · subst hit; simp only [if_true]; exact h.order i
      · simp only [hit, if_false]; exact h.order i

end LruConcSec

/-! ### format-info cache -/
section FmtSec
open Lru FormatInfo

theorem fmt_step_correct (cfg : FormatInfo.Cfg) (s : Lru.State) (k : Int) (hs : LruInv cfg.build cacheSize s) :
    LruInv cfg.build cacheSize (FormatInfo.step cfg s k).1 ∧ (FormatInfo.step cfg s k).2 = .ok (cfg.build k) := by
  unfold FormatInfo.step
  by_cases hk : k = cfg.invariantKey
  · simp only [hk, if_true]; exact ⟨hs, trivial⟩
  · simp only [hk, if_false]
    cases hr : cfg.readOnly k with
    | true =>
      simp only [if_true]
      exact step_correct_lru cfg.build cacheSize (by decide) s k hs
    | false => simp only [Bool.false_eq_true, if_false]; exact ⟨hs, trivial⟩

theorem fmt_run_correct (cfg : FormatInfo.Cfg) : ∀ (ks : List Int) (s : Lru.State), LruInv cfg.build cacheSize s →
    LruInv cfg.build cacheSize (FormatInfo.run cfg s ks).1 ∧
      (FormatInfo.run cfg s ks).2 = ks.map (fun k => .ok (cfg.build k)) := by
  intro ks
  induction ks with
  | nil => intro s hs; exact ⟨hs, rfl⟩
  | cons k rest ih =>
    intro s hs
    have h1 := fmt_step_correct cfg s k hs
    have h2 := ih _ h1.1
    simp only [FormatInfo.run, List.map_cons]
    exact ⟨h2.1, by rw [h1.2, h2.2]⟩

end FmtSec

end Pyoda.C13
