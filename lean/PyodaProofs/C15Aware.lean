/-
  C15 — datetimes that carry an arbitrary `tzinfo` (zoneinfo-like, custom subclasses, fold-dependent offsets).

  A conversion can observe of the tzinfo only `TzView` (PyodaModel.Bridge): no tzinfo, a tzinfo whose `utcoffset(dt)`
  is `None`, or the timedelta `utcoffset(dt)` returns for this `dt` (its fold included) — any size, microsecond
  resolution.  The theorems extend `inst_from_*` / `odt_from_*` of C15.lean from whole-second fixed offsets to that:
  the result denotes exactly local − utcoffset, or the conversion raises; it raises exactly when the target type
  cannot hold the value (Instant range; `Offset` = whole seconds within ±18 h) or the datetime has no utc offset.
-/
import PyodaModel.Bridge
import PyodaProofs.Basic
import PyodaProofs.C03
import PyodaProofs.C15Lemmas
import PyodaProofs.C15

namespace Pyoda.C15
open Pyoda Pyoda.C03 Pyoda.Bridge

local macro "unfold_consts" : tactic =>
  `(tactic| simp only [NPD, NPH, NPMin, NPS, NPMs, NPUs, NPT, TPD, TPS, TPH, SPD, UsPD, decBound,
      Duration.MIN_DAYS, Duration.MAX_DAYS, Instant.MIN_DAYS, Instant.MAX_DAYS,
      OffsetTime.NANO_BITS_POW, Offset.MIN_S, Offset.MAX_S, ORD_EPOCH, MAX_ORD, UsPS, UsPH, UsPMin, TD_MAX_DAYS,
      BCL_DAYS, TPMin, TPUs] at *)

/-- microseconds since ordinal 0 of the instant a datetime with utc offset `t` denotes (local − utcoffset) -/
def awareUsT (x : PyDateTime) (t : PyTimedelta) : Int := x.ord * UsPD + x.us - t.totalUs

theorem toTicksTd_eq (t : PyTimedelta) : toTicksTd t = t.totalUs * TPUs := by
  simp only [toTicksTd, PyTimedelta.totalUs]; unfold_consts; omega

/-! ### Instant.from_aware_datetime -/

/-- With a utc offset of any size and resolution the result is exactly local − utcoffset … -/
theorem inst_aware_exact (x : PyDateTime) (t : PyTimedelta) (i : Instant) (hx : PyDateTime.wf x)
    (h : instFromAware x (.offset t) = .ok i) :
    Norm i.dur ∧ IValid i ∧ val i.dur = (awareUsT x t - ORD_EPOCH * UsPD) * NPUs := by
  simp only [instFromAware, Instant.plusTicks, bind, Except.bind] at h
  rw [toTicksDt_eq x hx, toTicksTd_eq] at h
  cases hd : Duration.fromTicks (((x.ord - 1) * UsPD + x.us) * TPUs - t.totalUs * TPUs) with
  | error e => rw [hd] at h; cases h
  | ok d =>
    rw [hd] at h; simp only at h
    obtain ⟨hdn, _, hdv⟩ := fromTicks_exact _ d hd
    obtain ⟨h1, h2, h3⟩ := instant_plus_exact bclEpoch d i norm_bcl hdn h
    refine ⟨h1, h2, ?_⟩
    rw [h3, hdv]
    simp only [val, bclEpoch, awareUsT]
    unfold_consts; omega

/-- … and it raises exactly when that instant is outside the Instant range. -/
theorem inst_aware_raises_iff (x : PyDateTime) (t : PyTimedelta) (hx : PyDateTime.wf x) :
    (∃ e, instFromAware x (.offset t) = .error e) ↔ ¬ InstNsInRange ((awareUsT x t - ORD_EPOCH * UsPD) * NPUs) := by
  have hw := hx
  simp only [PyDateTime.wf] at hw
  simp only [instFromAware, Instant.plusTicks, bind, Except.bind]
  rw [toTicksDt_eq x hx, toTicksTd_eq]
  have hT : (((x.ord - 1) * UsPD + x.us) * TPUs - t.totalUs * TPUs) * NPT = (awareUsT x t - UsPD) * NPUs := by
    simp only [awareUsT]; unfold_consts; omega
  cases hd : Duration.fromTicks (((x.ord - 1) * UsPD + x.us) * TPUs - t.totalUs * TPUs) with
  | error e =>
    simp only []
    have := (fromTicks_raises_iff _).mp ⟨e, hd⟩
    rw [hT] at this
    constructor
    · intro _ hr
      apply this
      simp only [NsInRange, InstNsInRange, Duration.MIN_NANOS, Duration.MAX_NANOS] at *
      unfold_consts; omega
    · intro _; exact ⟨_, rfl⟩
  | ok d =>
    simp only []
    obtain ⟨hdn, _, hdv⟩ := fromTicks_exact _ d hd
    rw [instant_plus_raises_iff bclEpoch d norm_bcl hdn, hdv, hT]
    have e : val bclEpoch.dur + (awareUsT x t - UsPD) * NPUs = (awareUsT x t - ORD_EPOCH * UsPD) * NPUs := by
      simp only [val, bclEpoch]; unfold_consts; omega
    rw [e]

/-- `aware datetime → Instant → datetime (UTC)` gives the same instant expressed in UTC, for every utc offset, whenever
    that UTC value lies in `datetime.min … datetime.max`. -/
theorem inst_aware_to_id (x : PyDateTime) (t : PyTimedelta) (hx : PyDateTime.wf x)
    (hr : UsPD ≤ awareUsT x t ∧ awareUsT x t < (MAX_ORD + 1) * UsPD) :
    (instFromAware x (.offset t) >>= instToPy) = .ok ⟨awareUsT x t / UsPD, awareUsT x t % UsPD⟩ := by
  cases h : instFromAware x (.offset t) with
  | error e =>
    exfalso
    apply (inst_aware_raises_iff x t hx).mp ⟨e, h⟩
    simp only [InstNsInRange]; unfold_consts; omega
  | ok i =>
    obtain ⟨h1, h2, h3⟩ := inst_aware_exact x t i hx h
    simp only [bind, Except.bind]
    rw [instToPy_eq i h1 h2]
    simp only [Norm, IValid, val] at *
    unfold_consts
    have e : ¬ (i.dur.days < -719162) := by omega
    simp only [e, if_false, Except.ok.injEq, PyDateTime.mk.injEq]
    omega

/-- The whole-second fixed offsets of C15.lean are the special case `utcoffset = timedelta(seconds=off)`. -/
theorem inst_aware_fixed (x : PyDateTime) (off : Int) (t : PyTimedelta) (ht : PyTimedelta.ofUs (off * UsPS) = .ok t) :
    instFromAware x (.offset t) = instFromPy x off := by
  simp only [instFromAware, instFromPy, ht, bind, Except.bind]

/-- A datetime without a utc offset (no tzinfo, or `utcoffset()` is `None`) is never converted. -/
theorem aware_without_offset_raises (x : PyDateTime) :
    instFromAware x .naive = .error .valueError ∧ instFromAware x .noOffset = .error .typeError ∧
    odtFromAware x .naive = .error .valueError ∧ odtFromAware x .noOffset = .error .valueError :=
  ⟨rfl, rfl, rfl, rfl⟩

/-! ### OffsetDateTime.from_aware_datetime -/

/-- closed form on every datetime and every utc offset a tzinfo can return -/
theorem odtFromAware_eq (x : PyDateTime) (t : PyTimedelta) (hx : PyDateTime.wf x) (ht : t.wf) :
    odtFromAware x (.offset t) =
      if t.micros ≠ 0 then .error .valueError
      else if t.totalUs < -64800 * UsPS ∨ t.totalUs > 64800 * UsPS then .error .valueError
      else .ok (OffsetDateTime.ofLocal ⟨isoCal, x.ord - ORD_EPOCH⟩ (x.us * NPUs) ⟨Int.tdiv t.totalUs UsPS⟩) := by
  have hiso := iso_contains_stdlib x hx
  have e : ¬ (x.ord - ORD_EPOCH < isoCal.minDays ∨ x.ord - ORD_EPOCH > isoCal.maxDays) := by omega
  simp only [odtFromAware, ldt_from_exact x isoCal hx, Date.ofDays, checkRange, e, if_false, bind, Except.bind, Except.map]
  by_cases hm : t.micros ≠ 0
  · rw [if_pos hm, if_pos hm]
  · rw [if_neg hm, if_neg hm]
    rw [offFromPy_eq t ht]
    by_cases hr : t.totalUs < -64800 * UsPS ∨ t.totalUs > 64800 * UsPS
    · rw [if_pos hr, if_pos hr]
    · rw [if_neg hr, if_neg hr]

/-- It raises exactly when `Offset` cannot hold the utc offset — a fraction of a second, or beyond ±18 h — and then
    `ValueError`; nothing is truncated. -/
theorem odt_aware_raises_iff (x : PyDateTime) (t : PyTimedelta) (hx : PyDateTime.wf x) (ht : t.wf) :
    (∃ e, odtFromAware x (.offset t) = .error e) ↔ (t.micros ≠ 0 ∨ ¬ OffUsOK t.totalUs) := by
  rw [odtFromAware_eq x t hx ht]
  simp only [OffUsOK]
  by_cases hm : t.micros ≠ 0
  · rw [if_pos hm]; constructor
    · intro _; exact Or.inl hm
    · intro _; exact ⟨_, rfl⟩
  · rw [if_neg hm]
    by_cases hr : t.totalUs < -64800 * UsPS ∨ t.totalUs > 64800 * UsPS
    · rw [if_pos hr]; constructor
      · intro _; right; omega
      · intro _; exact ⟨_, rfl⟩
    · rw [if_neg hr]; constructor
      · rintro ⟨e, he⟩; cases he
      · rintro (h | h)
        · exact (hm h).elim
        · omega

theorem odt_aware_error_is_valueError (x : PyDateTime) (t : PyTimedelta) (hx : PyDateTime.wf x) (ht : t.wf) (e : PyExc)
    (h : odtFromAware x (.offset t) = .error e) : e = .valueError := by
  rw [odtFromAware_eq x t hx ht] at h
  split at h
  · cases h; rfl
  · split at h
    · cases h; rfl
    · cases h

/-- When it succeeds the local date and time are those of the datetime (microseconds × 1000, ISO calendar) and the
    offset is the utc offset exactly: `offset seconds × 10⁶ = utcoffset in µs`. -/
theorem odt_aware_exact (x : PyDateTime) (t : PyTimedelta) (o : OffsetDateTime) (hx : PyDateTime.wf x) (ht : t.wf)
    (h : odtFromAware x (.offset t) = .ok o) :
    o.date = ⟨isoCal, x.ord - ORD_EPOCH⟩ ∧ o.nanosecondOfDay = x.us * NPUs ∧ o.offsetSeconds * UsPS = t.totalUs ∧
    OffOK o.offsetSeconds := by
  rw [odtFromAware_eq x t hx ht] at h
  split at h
  · cases h
  · rename_i hm
    split at h
    · cases h
    · rename_i hr
      simp only [Except.ok.injEq] at h
      subst h
      have hw := hx
      simp only [PyDateTime.wf] at hw
      have hm' : t.micros = 0 := by
        by_cases hz : t.micros = 0
        · exact hz
        · exact (hm hz).elim
      have hsec : Int.tdiv t.totalUs UsPS * UsPS = t.totalUs := by
        simp only [PyTimedelta.totalUs, PyTimedelta.wf, hm'] at *
        unfold_consts
        simp (disch := decide) only [tdiv_pos]
        split <;> omega
      have hoff : OffOK (Int.tdiv t.totalUs UsPS) := by
        simp only [OffOK]
        revert hsec hr
        generalize Int.tdiv t.totalUs UsPS = q
        intro hr hsec
        unfold_consts; omega
      have hp : (OffsetDateTime.ofLocal ⟨isoCal, x.ord - ORD_EPOCH⟩ (x.us * NPUs) ⟨Int.tdiv t.totalUs UsPS⟩).nanosecondOfDay
            = x.us * NPUs ∧
          (OffsetDateTime.ofLocal ⟨isoCal, x.ord - ORD_EPOCH⟩ (x.us * NPUs) ⟨Int.tdiv t.totalUs UsPS⟩).offsetSeconds
            = Int.tdiv t.totalUs UsPS := by
        revert hoff
        generalize Int.tdiv t.totalUs UsPS = q
        intro hoff
        simp only [OffsetDateTime.ofLocal, OffsetDateTime.nanosecondOfDay, OffsetDateTime.offsetSeconds, OffsetTime.ofParts,
          OffsetTime.nanosecondOfDay, OffsetTime.offsetSeconds, shr47, OffOK] at *
        unfold_consts; omega
      refine ⟨rfl, hp.1, ?_, ?_⟩
      · rw [hp.2]; exact hsec
      · rw [hp.2]; exact hoff

/-- The two conversions of one aware datetime agree on the instant: the OffsetDateTime's local time minus its offset is
    the Instant `from_aware_datetime` gives (no mis-conversion through a rounded offset). -/
theorem odt_aware_same_instant (x : PyDateTime) (t : PyTimedelta) (o : OffsetDateTime) (i : Instant)
    (hx : PyDateTime.wf x) (ht : t.wf) (ho : odtFromAware x (.offset t) = .ok o) (hi : instFromAware x (.offset t) = .ok i) :
    val i.dur = o.date.days * NPD + o.nanosecondOfDay - o.offsetSeconds * NPS := by
  obtain ⟨h1, h2, h3, _⟩ := odt_aware_exact x t o hx ht ho
  obtain ⟨_, _, g3⟩ := inst_aware_exact x t i hx hi
  rw [g3, h1, h2]
  simp only [awareUsT]
  have : t.totalUs = o.offsetSeconds * UsPS := h3.symm
  rw [this]
  unfold_consts; omega

/-- whole-second offsets: the fixed-offset conversion of C15.lean -/
theorem odt_aware_fixed (x : PyDateTime) (off : Int) (t : PyTimedelta) (ht : PyTimedelta.ofUs (off * UsPS) = .ok t) :
    odtFromAware x (.offset t) = odtFromPy x off := by
  obtain ⟨h1, h2, _⟩ := ofUs_ok _ t ht
  have hm : t.micros = 0 := by
    simp only [PyTimedelta.totalUs, PyTimedelta.wf] at *
    unfold_consts; omega
  simp only [odtFromAware, odtFromPy, ht, hm, bind, Except.bind]
  cases ldtFromPy x isoCal with
  | error e => rfl
  | ok p => simp

/-- `aware datetime → OffsetDateTime → aware datetime` is the identity (date, time to the microsecond, utc offset) for
    every tzinfo whose utc offset for this datetime is a whole number of seconds within ±18 h. -/
theorem odt_aware_to_id (x : PyDateTime) (t : PyTimedelta) (hx : PyDateTime.wf x) (ht : t.wf) (hm : t.micros = 0)
    (hr : OffUsOK t.totalUs) :
    ∃ off, off * UsPS = t.totalUs ∧ (odtFromAware x (.offset t) >>= odtToPy) = .ok (x, off) := by
  refine ⟨t.totalUs / UsPS, ?_, ?_⟩
  · simp only [PyTimedelta.totalUs, PyTimedelta.wf, hm] at *
    unfold_consts; omega
  · have hmul : t.totalUs / UsPS * UsPS = t.totalUs := by
      simp only [PyTimedelta.totalUs, PyTimedelta.wf, hm] at *
      unfold_consts; omega
    have hof : PyTimedelta.ofUs (t.totalUs / UsPS * UsPS) = .ok t := by rw [hmul]; exact ofUs_totalUs t ht
    rw [odt_aware_fixed x _ t hof]
    apply odt_from_to_id x _ hx
    simp only [OffOK, OffUsOK] at *
    unfold_consts; omega

/-! ### LocalDateTime.from_naive_datetime and LocalTime.from_time -/

/-- `from_naive_datetime` refuses every datetime that carries a tzinfo and converts the others as before. -/
theorem ldt_any (x : PyDateTime) (tz : TzView) (c : Cal) :
    (tz = .naive → ldtFromAny x tz c = ldtFromPy x c) ∧ (tz ≠ .naive → ldtFromAny x tz c = .error .valueError) := by
  cases tz <;> simp [ldtFromAny]

/-- `from_time` keeps the wall time whatever tzinfo and fold the `datetime.time` carries; going back gives the naive
    wall time. -/
theorem time_any_from_to_id (us : Int) (tz : TzView) (fold : Int) (h : TimeOK us) :
    timeFromAny us tz fold = .ok (us * NPUs) ∧ (timeFromAny us tz fold >>= timeToPy) = .ok us :=
  ⟨time_from_exact us h, time_from_to_id us h⟩

/-! hypotheses are satisfiable, statements not vacuous -/
example : instFromAware ⟨737577, 43200123456⟩ (.offset ⟨0, 3600, 500000⟩) = .ok ⟨⟨18414, 39599623456000⟩⟩ := by decide
example : odtFromAware ⟨737577, 43200123456⟩ (.offset ⟨0, 3600, 500000⟩) = .error .valueError := by decide
example : odtFromAware ⟨737577, 43200123456⟩ (.offset ⟨-1, 82800, 0⟩) =
    .ok (OffsetDateTime.ofLocal ⟨isoCal, 18414⟩ 43200123456000 ⟨-3600⟩) := by decide
example : instFromAware ⟨1, 0⟩ (.offset ⟨-999999999, 0, 0⟩) = .error .overflowError := by decide
example : instFromAware ⟨3652059, 0⟩ (.offset ⟨1, 3600, 1⟩) = .ok ⟨⟨2932894, 82799999999000⟩⟩ := by decide
example : (⟨0, 64800, 0⟩ : PyTimedelta).wf ∧ OffUsOK (⟨0, 64800, 0⟩ : PyTimedelta).totalUs := by
  simp only [PyTimedelta.wf, OffUsOK, PyTimedelta.totalUs]; unfold_consts; omega

end Pyoda.C15
