/-
  C04 — walking a zone (`get_zone_intervals` / the model's `walk`): for a lookup described by a `ZoneSeq`, the walk
  from the minimum instant to past the maximum instant returns exactly the intervals of the sequence from the one
  containing the minimum instant to the last one: they abut, their union covers every valid instant, the last one
  ends at the after-max sentinel, and each is the interval the lookup returns for all its instants.
  Instances: tail-less zones passing `dataOK`, zones with a tail passing `zoneOK`, fixed zones.
-/
import PyodaProofs.C04Zone

namespace Pyoda.C04
open Pyoda Pyoda.Zone

section
variable {get : Int → R ZI} {V : Int → Int} {iv : Int → ZI} {B : Int} (h : ZoneSeq get V iv B)
include h

/-- the walk, started inside interval `k` (or at the end of time after the last interval), with enough fuel,
    appends the intervals `k … B` -/
theorem walk_from : ∀ (n : Nat) (k cur : Int) (acc : List ZI) (fuel : Nat), k + n = B + 1 → 0 ≤ k → n ≤ fuel →
    ((k ≤ B ∧ V k ≤ cur ∧ cur < V (k + 1) ∧ cur ≤ MAXI) ∨ (k = B + 1 ∧ cur = AMAX)) →
    walk get fuel cur (MAXI + 1) acc = .ok (acc.reverse ++ (List.range n).map (fun (j : Nat) => iv (k + (j : Int)))) := by
  intro n
  induction n with
  | zero =>
    intro k cur acc fuel hk _ _ hc
    have hcur : cur = AMAX := by
      rcases hc with ⟨c1, _⟩ | ⟨_, c2⟩
      · omega
      · exact c2
    have hno : ¬ (cur < MAXI + 1) := by rw [hcur]; decide
    cases fuel with
    | zero => simp [walk]
    | succ f => simp [walk, hno]
  | succ n ih =>
    intro k cur acc fuel hk k0 hf hc
    rcases hc with ⟨c1, c2, c3, c4⟩ | ⟨c1, _⟩
    · cases fuel with
      | zero => omega
      | succ f =>
        have hg := h.seq.get k cur k0 c1 c2 c3
        have he := h.seq.e k k0 c1
        have hlt : cur < MAXI + 1 := by omega
        simp only [walk, hlt, if_true, hg, bind, Except.bind, he]
        have hnext : (k + 1 ≤ B ∧ V (k + 1) ≤ V (k + 1) ∧ V (k + 1) < V (k + 1 + 1) ∧ V (k + 1) ≤ MAXI) ∨
            (k + 1 = B + 1 ∧ V (k + 1) = AMAX) := by
          by_cases hq : k + 1 ≤ B
          · left
            exact ⟨hq, Int.le_refl _, h.seq.mono (k + 1) (by omega) hq, (h.valid (k + 1) (by omega) hq).2⟩
          · right
            have : k = B := by omega
            subst this
            exact ⟨rfl, h.last⟩
        rw [ih (k + 1) (V (k + 1)) (iv k :: acc) f (by omega) (by omega) (by omega) hnext]
        simp only [List.reverse_cons, List.append_assoc, List.singleton_append, List.range_succ_eq_map, List.map_cons,
          List.map_map, Int.natCast_zero, Int.add_zero]
        congr 1
        congr 1
        congr 1
        apply List.map_congr_left
        intro j _
        simp only [Function.comp, Nat.succ_eq_add_one, Int.natCast_add, Int.natCast_one]
        congr 1
        omega
    · omega

/-- **walk partition**: the list produced by walking from the minimum instant to past the maximum instant -/
theorem walk_partition (fuel : Nat) (hf : B + 1 ≤ fuel) :
    ∃ (k0 : Int) (n : Nat), 0 ≤ k0 ∧ k0 + n = B + 1 ∧ 0 < n ∧
      walk get fuel MINI (MAXI + 1) [] = .ok ((List.range n).map (fun (j : Nat) => iv (k0 + (j : Int)))) ∧
      -- the first interval contains the minimum instant
      (iv k0).s ≤ MINI ∧ MINI < (iv k0).e ∧
      -- consecutive intervals abut: no gap, no overlap
      (∀ j : Nat, j + 1 < n → (iv (k0 + (j : Int))).e = (iv (k0 + ((j + 1 : Nat) : Int))).s) ∧
      -- the last one extends to the end of time
      (iv (k0 + ((n - 1 : Nat) : Int))).e = AMAX ∧
      -- every valid instant lies in one of them
      (∀ t, MINI ≤ t → t ≤ MAXI → ∃ j : Nat, j < n ∧ (iv (k0 + (j : Int))).s ≤ t ∧ t < (iv (k0 + (j : Int))).e) ∧
      -- each of them is the interval returned for every one of its instants, and is non-empty
      (∀ j : Nat, j < n → (iv (k0 + (j : Int))).s < (iv (k0 + (j : Int))).e ∧
        ∀ t, (iv (k0 + (j : Int))).s ≤ t → t < (iv (k0 + (j : Int))).e → get t = .ok (iv (k0 + (j : Int)))) := by
  have hmm : MINI ≤ MAXI := by decide
  obtain ⟨k0, k1, k2, k3, k4, _⟩ := h.index MINI (Int.le_refl _) hmm
  refine ⟨k0, (B + 1 - k0).toNat, k1, by omega, by omega, ?_, ?_, ?_, ?_, ?_, ?_, ?_⟩
  · have := walk_from h (B + 1 - k0).toNat k0 MINI [] fuel (by omega) k1 (by omega) (Or.inl ⟨k2, k3, k4, hmm⟩)
    simpa using this
  · rw [h.seq.s k0 k1 k2]; exact k3
  · rw [h.seq.e k0 k1 k2]; exact k4
  · intro j hj
    rw [h.seq.e _ (by omega) (by omega), h.seq.s _ (by omega) (by omega)]
    congr 1
    omega
  · have e : k0 + (((B + 1 - k0).toNat - 1 : Nat) : Int) = B := by omega
    rw [e, h.seq.e B h.hB (Int.le_refl _)]; exact h.last
  · intro t t1 t2
    obtain ⟨k, a1, a2, a3, a4, _⟩ := h.index t t1 t2
    have hk : k0 ≤ k := by
      by_cases hq : k0 ≤ k
      · exact hq
      · exfalso
        have := h.seq.mono_le (k + 1) k0 (by omega) (by omega) (by omega)
        omega
    refine ⟨(k - k0).toNat, by omega, ?_⟩
    have e : k0 + ((k - k0).toNat : Int) = k := by omega
    rw [e, h.seq.s k a1 a2, h.seq.e k a1 a2]; exact ⟨a3, a4⟩
  · intro j hj
    have b1 : 0 ≤ k0 + (j : Int) := by omega
    have b2 : k0 + (j : Int) ≤ B := by omega
    rw [h.seq.s _ b1 b2, h.seq.e _ b1 b2]
    exact ⟨h.seq.mono _ b1 b2, fun t t1 t2 => h.seq.get _ t b1 b2 t1 t2⟩

end

/-! ### instances -/

/-- a fixed zone with offset within ±18 h, as a transition sequence with a single interval -/
theorem fixed_zoneSeq (z : ZI) (hs : z.s = BMIN) (he : z.e = AMAX) (hw : -64800 ≤ z.wall ∧ z.wall ≤ 64800) :
    ZoneSeq (ZoneDef.fixed z).get (fun k => if k ≤ 0 then BMIN else AMAX) (fun _ => z) 0 := by
  refine ⟨⟨?_, ?_, ?_, ?_⟩, Int.le_refl _, by simp, by simp, ?_, fun _ _ _ => hw, ?_⟩
  · intro k k1 k2
    have : k = 0 := by omega
    subst this; simp only [Int.le_refl, if_true, show ¬ ((0 : Int) + 1 ≤ 0) by omega, if_false]; decide
  · intro k t _ _ _ _; rfl
  · intro k k1 k2; simp only [show k ≤ 0 by omega, if_true]; exact hs
  · intro k k1 k2; simp only [show ¬ (k + 1 ≤ 0) by omega, if_false]; exact he
  · intro k k1 k2; omega
  · intro k k1 k2; omega

/-- a tail-less precalculated zone passing the data check, as a transition sequence -/
theorem dataOK_zoneSeq (p : Precalc) (h : dataOK p = true) :
    ZoneSeq p.get (storedV p) (pAt p.periods) (p.periods.size - 1) := by
  have d := dataOK_sound p h
  have hne := d.wf.nonempty
  have S := stored_seq p d.wf
  have hs : ∀ k : Int, 0 ≤ k → k < p.periods.size → storedV p k = (pAt p.periods k).s := by
    intro k k1 k2; unfold storedV; rw [if_pos k2]
  refine ⟨S, by omega, ?_, ?_, ?_, ?_, ?_⟩
  · rw [hs 0 (by omega) (by omega)]
    have h0 := pAt_some p.periods 0 (by omega) (by omega)
    exact d.first _ h0
  · have e : (p.periods.size : Int) - 1 + 1 = p.periods.size := by omega
    simp only [e, storedV]; rw [if_neg (by omega)]; exact d.last
  · intro k k1 k2
    have := storedV_next p d.wf (k - 1) (by omega) (by omega)
    rw [show k - 1 + 1 = k by omega] at this
    rw [this]
    have ha := pAt_some p.periods (k - 1) (by omega) (by omega)
    have hb := pAt_some p.periods k (by omega) (by omega)
    have e : k.toNat = (k - 1).toNat + 1 := by omega
    rw [e] at hb
    exact d.inner _ _ _ ha hb
  · intro k k1 k2
    exact d.walls _ _ (pAt_some p.periods k k1 (by omega))
  · intro k k1 k2
    have hk := pAt_some p.periods k (by omega) (by omega)
    have e2 := storedV_next p d.wf k (by omega) (by omega)
    rw [e2, hs k (by omega) (by omega)]
    -- both ends are inner transitions, hence valid
    have v1 : MINI ≤ (pAt p.periods k).s := by
      have := storedV_next p d.wf (k - 1) (by omega) (by omega)
      rw [show k - 1 + 1 = k by omega, hs k (by omega) (by omega)] at this
      rw [this]
      have ha := pAt_some p.periods (k - 1) (by omega) (by omega)
      have e : k.toNat = (k - 1).toNat + 1 := by omega
      rw [e] at hk
      exact (d.inner _ _ _ ha hk).1
    have v2 : (pAt p.periods k).e ≤ MAXI := by
      have hb := pAt_some p.periods (k + 1) (by omega) (by omega)
      have e : (k + 1).toNat = k.toNat + 1 := by omega
      rw [e] at hb
      exact (d.inner _ _ _ hk hb).2
    exact d.minlen _ _ hk v1 v2

/-- **walk partition for the bundled zones with a recurring tail** (hypothesis: the evaluated check `zoneOK`) -/
theorem zoneOK_walk (p : Precalc) (h : zoneOK p = true) :
    ∃ (iv : Int → ZI) (B k0 : Int) (n : Nat), 0 ≤ k0 ∧ k0 + n = B + 1 ∧ 0 < n ∧
      (∀ fuel : Nat, B + 1 ≤ fuel →
        walk p.get fuel MINI (MAXI + 1) [] = .ok ((List.range n).map (fun (j : Nat) => iv (k0 + (j : Int))))) ∧
      (iv k0).s ≤ MINI ∧ MINI < (iv k0).e ∧
      (∀ j : Nat, j + 1 < n → (iv (k0 + (j : Int))).e = (iv (k0 + ((j + 1 : Nat) : Int))).s) ∧
      (iv (k0 + ((n - 1 : Nat) : Int))).e = AMAX ∧
      (∀ t, MINI ≤ t → t ≤ MAXI → ∃ j : Nat, j < n ∧ (iv (k0 + (j : Int))).s ≤ t ∧ t < (iv (k0 + (j : Int))).e) ∧
      (∀ j : Nat, j < n → (iv (k0 + (j : Int))).s < (iv (k0 + (j : Int))).e ∧
        ∀ t, (iv (k0 + (j : Int))).s ≤ t → t < (iv (k0 + (j : Int))).e → p.get t = .ok (iv (k0 + (j : Int)))) := by
  obtain ⟨V, iv, B, hz⟩ := zoneOK_sound p h
  obtain ⟨k0, n, a1, a2, a3, _, a5, a6, a7, a8, a9, a10⟩ := walk_partition hz (B + 1).toNat (by have := hz.hB; omega)
  refine ⟨iv, B, k0, n, a1, a2, a3, ?_, a5, a6, a7, a8, a9, a10⟩
  intro fuel hf
  obtain ⟨k0', n', b1, b2, _, b4, b5, b6, _⟩ := walk_partition hz fuel hf
  -- the same starting index: both contain the minimum instant
  have hk : k0' = k0 := by
    have hB := hz.hB
    exact hz.seq.index_unique MINI k0' k0 ⟨b1, by omega⟩ ⟨a1, by omega⟩
      (by rw [← hz.seq.s k0' b1 (by omega), ← hz.seq.e k0' b1 (by omega)]; exact ⟨b5, b6⟩)
      (by rw [← hz.seq.s k0 a1 (by omega), ← hz.seq.e k0 a1 (by omega)]; exact ⟨a5, a6⟩)
  subst hk
  have hn : n' = n := by omega
  subst hn
  exact b4

/-! ### adjacent intervals differ (maximality) -/

/-- for a lookup described by a `ZoneSeq` whose consecutive intervals differ: the interval found at the end of
    any interval starts exactly there and differs from it in name or offsets -/
theorem ZoneSeq.adjacent {get : Int → R ZI} {V : Int → Int} {iv : Int → ZI} {B : Int} (h : ZoneSeq get V iv B)
    (hd : ∀ k, 0 ≤ k → k < B → Differ (iv k) (iv (k + 1)))
    (t : Int) (t1 : MINI ≤ t) (t2 : t ≤ MAXI) (z : ZI) (hz : get t = .ok z) (he : z.e ≤ MAXI) :
    ∃ z', get z.e = .ok z' ∧ z'.s = z.e ∧ Differ z z' := by
  obtain ⟨k, k1, k2, _, _, k5⟩ := h.index t t1 t2
  rw [k5] at hz
  have ez : z = iv k := by injection hz with hz; exact hz.symm
  subst ez
  have hmm : MAXI < AMAX := by decide
  have hk : k < B := by
    by_cases hq : k < B
    · exact hq
    · exfalso
      have : k = B := by omega
      rw [this, h.seq.e B h.hB (Int.le_refl _), h.last] at he
      omega
  rw [h.seq.e k k1 k2]
  exact ⟨iv (k + 1), h.seq.get (k + 1) _ (by omega) (by omega) (Int.le_refl _) (h.seq.mono (k + 1) (by omega) (by omega)),
    h.seq.s (k + 1) (by omega) (by omega), hd k k1 hk⟩

/-- **adjacent intervals differ** — zones with a recurring tail, from the evaluated checks `zoneOK` and
    `zoneMaximal` (stored periods pairwise, the seam, the two tail rules) -/
theorem adjacent_differ (p : Precalc) (h : zoneOK p = true) (hmax : zoneMaximal p = true)
    (t : Int) (t1 : MINI ≤ t) (t2 : t ≤ MAXI) (z : ZI) (hz : p.get t = .ok z) (he : z.e ≤ MAXI) :
    ∃ z', p.get z.e = .ok z' ∧ z'.s = z.e ∧ Differ z z' := by
  obtain ⟨V, iv, B, hs, hd⟩ := zoneOK_sound_max p h
  exact hs.adjacent (hd hmax) t t1 t2 z hz he

/-- the same for tail-less zones, from the evaluated checks `dataOK` and `maximal` -/
theorem adjacent_differ_notail (p : Precalc) (h : dataOK p = true) (hmax : maximal p.periods = true)
    (t : Int) (t1 : MINI ≤ t) (t2 : t ≤ MAXI) (z : ZI) (hz : p.get t = .ok z) (he : z.e ≤ MAXI) :
    ∃ z', p.get z.e = .ok z' ∧ z'.s = z.e ∧ Differ z z' :=
  (dataOK_zoneSeq p h).adjacent (fun k k1 k2 => maximal_differ p.periods hmax k k1 (by omega)) t t1 t2 z hz he

/-- walk partition for tail-less zones (hypothesis: the evaluated check `dataOK`) -/
theorem dataOK_walk (p : Precalc) (h : dataOK p = true) (fuel : Nat) (hf : p.periods.size ≤ fuel) :
    ∃ (k0 : Int) (n : Nat), 0 ≤ k0 ∧ k0 + n = p.periods.size ∧ 0 < n ∧
      walk p.get fuel MINI (MAXI + 1) [] = .ok ((List.range n).map (fun (j : Nat) => pAt p.periods (k0 + (j : Int)))) ∧
      (pAt p.periods k0).s ≤ MINI ∧ MINI < (pAt p.periods k0).e ∧
      (∀ j : Nat, j + 1 < n → (pAt p.periods (k0 + (j : Int))).e = (pAt p.periods (k0 + ((j + 1 : Nat) : Int))).s) ∧
      (pAt p.periods (k0 + ((n - 1 : Nat) : Int))).e = AMAX := by
  obtain ⟨k0, n, a1, a2, a3, a4, a5, a6, a7, a8, _⟩ := walk_partition (dataOK_zoneSeq p h) fuel (by omega)
  exact ⟨k0, n, a1, by omega, a3, a4, a5, a6, a7, a8⟩

/-! ### non-vacuity: the walk of the toy zone of C04.lean is its three stored periods, which are maximal -/
example : walk (Precalc.get ⟨toyPeriods, none⟩) 5 MINI (MAXI + 1) [] = .ok toyPeriods.toList := by decide +kernel
example : maximal toyPeriods = true := by decide

end Pyoda.C04
