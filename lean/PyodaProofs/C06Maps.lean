/-
  C06 — the derived Windows maps of a source that passes `validate()`:
  `windows_to_tzdb_ids` has canonical ids as values, `tzdb_to_windows_ids` has ids of the source as keys, windows ids
  of the mapping as values, and agrees with the MapZone entries on every directly mapped id.
-/
import PyodaProofs.C06Validate

namespace Pyoda.C06
open Pyoda Pyoda.Codec

/-! ### sorting does not change the entries -/

theorem mem_insertByKey (x e : Str × Str) (l : Dict) : e ∈ insertByKey x l ↔ e = x ∨ e ∈ l := by
  induction l with
  | nil => simp [insertByKey]
  | cons y ys ih =>
    simp only [insertByKey]
    split
    · simp
    · simp only [List.mem_cons, ih]
      constructor
      · rintro (h | h | h) <;> simp [h]
      · rintro (h | h | h) <;> simp [h]

theorem mem_sortByKey (e : Str × Str) (l : Dict) : e ∈ sortByKey l ↔ e ∈ l := by
  induction l with
  | nil => simp [sortByKey]
  | cons x xs ih =>
    have : sortByKey (x :: xs) = insertByKey x (sortByKey xs) := rfl
    rw [this, mem_insertByKey, ih]; simp

theorem mem_aliasesOf (m : Dict) (e : Str × Str) : e ∈ aliasesOf m ↔ e ∈ m ∧ e.1 ≠ e.2 := by
  simp [aliasesOf, List.mem_filter]

/-- an invariant kept by every step is kept by the loop -/
theorem foldl_inv {α β} (P : α → Prop) (step : α → β → α) (l : List β) (d : α)
    (hstep : ∀ d e, e ∈ l → P d → P (step d e)) (h0 : P d) : P (l.foldl step d) := by
  induction l generalizing d with
  | nil => exact h0
  | cons x xs ih =>
    exact ih _ (fun d e he => hstep d e (List.mem_cons_of_mem _ he)) (hstep d x List.mem_cons_self h0)

/-! ### the direct assignments -/

theorem mem_directPairs (zs : List MapZone) (e : Str × Str) :
    e ∈ directPairs zs ↔ ∃ z ∈ zs, z.territory ≠ PRIMARY_TERRITORY ∧ e.1 ∈ z.tzdbIds ∧ e.2 = z.windowsId := by
  simp only [directPairs, List.mem_flatMap, List.mem_filter, List.mem_map, Bool.not_eq_true', MapZone.isPrimary,
    decide_eq_false_iff_not]
  constructor
  · rintro ⟨z, ⟨hz, hnp⟩, id, hid, rfl⟩; exact ⟨z, hz, hnp, hid, rfl⟩
  · rintro ⟨z, hz, hnp, hid, hw⟩; exact ⟨z, ⟨hz, hnp⟩, e.1, hid, by cases e; simp_all⟩

theorem directPairs_keys (zs : List MapZone) : (directPairs zs).map (·.1) = nonPrimaryIds zs := by
  simp only [directPairs, nonPrimaryIds, List.map_flatMap, List.map_map]
  congr 1
  funext z
  simp [Function.comp_def]

theorem truthyGet_some (d : Dict) (k w : Str) (h : truthyGet d k = some w) : (k, w) ∈ d := by
  unfold truthyGet at h
  cases hg : dictGet? d k with
  | none => simp [hg] at h
  | some w' =>
    simp only [hg] at h
    split at h
    · cases h
    · cases h; exact dictGet?_some_mem d k _ hg

/-! ### `windows_to_tzdb_ids` -/

theorem mapCanonical_spec (m l : Dict) (hk : ∀ e ∈ l, known m e.2 = true) :
    ∃ r, mapCanonical m l = .ok r ∧ r.map (·.1) = l.map (·.1) ∧
      ∀ e ∈ r, ∃ e0 ∈ l, e.1 = e0.1 ∧ dictGet? m e0.2 = some e.2 := by
  induction l with
  | nil => exact ⟨[], rfl, rfl, by simp⟩
  | cons x xs ih =>
    rcases ih (fun e he => hk e (List.mem_cons_of_mem _ he)) with ⟨r, hr, hkeys, hvals⟩
    have hx := hk x List.mem_cons_self
    unfold known at hx
    rcases Option.isSome_iff_exists.mp hx with ⟨c, hc⟩
    refine ⟨(x.1, c) :: r, ?_, ?_, ?_⟩
    · obtain ⟨k, v⟩ := x
      simp only [mapCanonical, hc, hr]
      rfl
    · simp [hkeys]
    · intro e he
      rcases List.mem_cons.mp he with rfl | he
      · exact ⟨x, List.mem_cons_self, rfl, hc⟩
      · rcases hvals e he with ⟨e0, he0, h1, h2⟩
        exact ⟨e0, List.mem_cons_of_mem _ he0, h1, h2⟩

/-- for a source that passes `validate()`: `windows_to_tzdb_ids` is built without a `KeyError`, has exactly the
    windows ids of the primary mapping as keys, and every value is a canonical id (an id that maps to itself) -/
theorem windowsToTzdb_canonical (s : SrcView) (h : sourceValid s = true) :
    ∃ r, windowsToTzdb s.idMap s.mapZones = .ok r ∧
      r.map (·.1) = (primaryMapping s.mapZones).map (·.1) ∧
      ∀ e ∈ r, dictGet? s.idMap e.2 = some e.2 := by
  have v := sourceValid_sound s h
  have hk : ∀ e ∈ primaryMapping s.mapZones, known s.idMap e.2 = true := by
    intro e he
    rcases mem_primaryMapping _ _ he with ⟨p, hp, hterr, rfl⟩
    rcases v.primaryOK p hp hterr with ⟨x, hx, -⟩
    simp only [hx, List.headD_cons]
    exact v.idsKnown p hp x (by simp [hx])
  rcases mapCanonical_spec s.idMap _ hk with ⟨r, hr, hkeys, hvals⟩
  refine ⟨r, hr, hkeys, ?_⟩
  intro e he
  rcases hvals e he with ⟨e0, -, -, hget⟩
  exact v.closed (e0.2, e.2) (dictGet?_some_mem _ _ _ hget)

/-! ### `tzdb_to_windows_ids` -/

theorem backfillStep_mem (d : Dict) (e x : Str × Str) (h : x ∈ backfillStep d e) :
    x ∈ d ∨ (x.1 = e.2 ∧ (e.1, x.2) ∈ d) := by
  unfold backfillStep at h
  split at h
  · exact .inl h
  · split at h
    · rename_i w hw
      rcases mem_dictInsert _ _ _ _ h with h | h
      · exact .inl h
      · right; rw [h]; exact ⟨rfl, truthyGet_some d _ _ hw⟩
    · exact .inl h

theorem forwardStep_mem (d : Dict) (e x : Str × Str) (h : x ∈ forwardStep d e) :
    x ∈ d ∨ (x.1 = e.1 ∧ (e.2, x.2) ∈ d) := by
  unfold forwardStep at h
  split at h
  · exact .inl h
  · split at h
    · rename_i w hw
      rcases mem_dictInsert _ _ _ _ h with h | h
      · exact .inl h
      · right; rw [h]; exact ⟨rfl, truthyGet_some d _ _ hw⟩
    · exact .inl h

theorem backfillStep_get (d : Dict) (e : Str × Str) (k w : Str) (h : dictGet? d k = some w) :
    dictGet? (backfillStep d e) k = some w := by
  unfold backfillStep
  split
  · exact h
  · rename_i hn
    split
    · rw [dictGet?_insert, if_neg]
      · exact h
      · intro hk; apply hn; unfold known; rw [← hk, h]; rfl
    · exact h

theorem forwardStep_get (d : Dict) (e : Str × Str) (k w : Str) (h : dictGet? d k = some w) :
    dictGet? (forwardStep d e) k = some w := by
  unfold forwardStep
  split
  · exact h
  · rename_i hn
    split
    · rw [dictGet?_insert, if_neg]
      · exact h
      · intro hk; apply hn; unfold known; rw [← hk, h]; rfl
    · exact h

/-- every key of `tzdb_to_windows_ids` is an id of the source and every value is the windows id of a MapZone entry -/
theorem tzdbToWindows_entries (s : SrcView) (h : sourceValid s = true) :
    ∀ e ∈ tzdbToWindows s.idMap s.mapZones,
      known s.idMap e.1 = true ∧ ∃ z ∈ s.mapZones, e.2 = z.windowsId := by
  have v := sourceValid_sound s h
  let P : Dict → Prop := fun d => ∀ e ∈ d, known s.idMap e.1 = true ∧ ∃ z ∈ s.mapZones, e.2 = z.windowsId
  show P (tzdbToWindows s.idMap s.mapZones)
  unfold tzdbToWindows
  apply foldl_inv P
  · intro d e he hP x hx
    rw [mem_aliasesOf] at he
    rcases forwardStep_mem d e x hx with hx | ⟨hx1, hx2⟩
    · exact hP x hx
    · refine ⟨?_, (hP _ hx2).2⟩
      rw [hx1]; exact known_of_mem _ _ he.1
  · apply foldl_inv P
    · intro d e he hP x hx
      rw [mem_sortByKey, mem_aliasesOf] at he
      rcases backfillStep_mem d e x hx with hx | ⟨hx1, hx2⟩
      · exact hP x hx
      · refine ⟨?_, (hP _ hx2).2⟩
        rw [hx1]
        unfold known; rw [v.closed e he.1]; rfl
    · intro e he
      rcases mem_insertAll _ _ _ he with he | he
      · cases he
      · rcases (mem_directPairs _ _).mp he with ⟨z, hz, -, hid, hw⟩
        exact ⟨v.idsKnown z hz _ hid, z, hz, hw⟩

/-- on every id that a non-primary MapZone entry lists, `tzdb_to_windows_ids` gives that entry's windows id
    (the alias back-filling never overrides a direct assignment) -/
theorem tzdbToWindows_direct (s : SrcView) (h : sourceValid s = true) :
    ∀ z ∈ s.mapZones, z.territory ≠ PRIMARY_TERRITORY → ∀ id ∈ z.tzdbIds,
      dictGet? (tzdbToWindows s.idMap s.mapZones) id = some z.windowsId := by
  have v := sourceValid_sound s h
  intro z hz hnp id hid
  unfold tzdbToWindows
  apply foldl_inv (fun d => dictGet? d id = some z.windowsId)
  · intro d e _ hd; exact forwardStep_get d e _ _ hd
  · apply foldl_inv (fun d => dictGet? d id = some z.windowsId)
    · intro d e _ hd; exact backfillStep_get d e _ _ hd
    · apply insertAll_get
      · rw [directPairs_keys]; exact v.unique
      · exact (mem_directPairs _ _).mpr ⟨z, hz, hnp, hid, rfl⟩

/-! ### the hypotheses are satisfiable; the maps on a small source with an alias -/

/-- ids `A` (canonical), `B` (alias of `A`), `C` (canonical); windows ids `V` and `W`; the MapZone of `V` lists the
    alias `B`, so the canonical id `A` is back-filled -/
def demo : SrcView :=
  let a : Str := [65]; let b : Str := [66]; let c : Str := [67]; let v : Str := [86]; let w : Str := [87]
  ⟨[(b, a), (a, a), (c, c)],
   [⟨v, PRIMARY_TERRITORY, [b]⟩, ⟨v, [90, 90], [b]⟩, ⟨w, PRIMARY_TERRITORY, [c]⟩, ⟨w, [70, 82], [c]⟩, ⟨w, [68, 69], []⟩],
   some [a, b], none⟩

example : sourceValid demo = true := by decide
example : firstFailure demo = 0 := by decide
example : tzdbToWindows demo.idMap demo.mapZones = [([66], [86]), ([67], [87]), ([65], [86])] := by decide
example : windowsToTzdb demo.idMap demo.mapZones = .ok [([86], [65]), ([87], [67])] := by decide
/-- damage of each kind is reported with its group number -/
example : firstFailure { demo with idMap := [([66], [65]), ([67], [67])] } = 1 := by decide
example : firstFailure { demo with mapZones := demo.mapZones.drop 1 } = 2 := by decide
example : firstFailure { demo with mapZones := demo.mapZones ++ [⟨[87], [71, 66], [[88]]⟩] } = 3 := by decide
example : firstFailure { demo with mapZones := demo.mapZones ++ [⟨[87], [70, 82], []⟩] } = 4 := by decide
example : firstFailure { demo with locIds := some [[88]] } = 5 := by decide
example : firstFailure { demo with loc70Ids := some [[88]] } = 6 := by decide

end Pyoda.C06
