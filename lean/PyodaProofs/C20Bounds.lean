/- C20: every proper prefix of a well-formed stream (`truncation_anywhere`) and the work bound of `loadAndUse`
   in bytes handed to decoders. Lemmas and theorems; restated in C20.lean. -/
import PyodaProofs.C20Lemmas

namespace Pyoda.C20
open Pyoda Pyoda.Codec

/-! ## a varint cut short -/

theorem readVarintAux_cut (f : Nat) : ∀ (v n acc shift : Nat), n < (writeVarintAux f v).length →
    readVarintAux ((writeVarintAux f v).take n) acc shift = .error .invalidData := by
  induction f with
  | zero =>
    intro v n acc shift hn
    simp only [writeVarintAux, List.length_cons, List.length_nil] at hn
    have : n = 0 := by omega
    subst this
    rfl
  | succ f ih =>
    intro v n acc shift hn
    unfold writeVarintAux at hn ⊢
    by_cases hv : v > 127
    · simp only [hv, if_true, List.length_cons] at hn ⊢
      cases n with
      | zero => rfl
      | succ n =>
        simp only [List.take_succ_cons, readVarintAux]
        have h1 : ¬ (v % 128 + 128 < 128) := by omega
        simp only [h1, if_false]
        exact ih _ n _ _ (by omega)
    · simp only [hv, if_false, List.length_cons, List.length_nil] at hn ⊢
      have : n = 0 := by omega
      subst this
      rfl

theorem readCount_cut (v n : Nat) (hn : n < (writeVarint v).length) :
    readCount ((writeVarint v).take n) = .error .invalidData := by
  unfold readCount readVarint writeVarint at *
  rw [readVarintAux_cut _ v n 0 0 hn]
  rfl

/-! ## prefixes of a sequence of complete fields -/

theorem encodeFields_cons (f : Nat × Bytes) (fs : List (Nat × Bytes)) :
    encodeFields (f :: fs) = encodeField f.1 f.2 ++ encodeFields fs := by
  simp [encodeFields, List.flatMap_cons]

/-- a non-empty proper prefix of one field makes the framing loop fail -/
theorem readFields_partial_field (id : Nat) (data : Bytes) (hl : (data.length : Int) ≤ INT_MAX) (n : Nat) (h0 : 0 < n)
    (hn : n < (encodeField id data).length) (fuel : Nat) (b : Builder) :
    ∃ e, readFields (fuel + 1) b ((encodeField id data).take n) = .error e := by
  unfold encodeField at hn ⊢
  cases n with
  | zero => omega
  | succ n =>
    simp only [List.take_succ_cons]
    by_cases hc : n < (writeVarint data.length).length
    · -- cut inside the length
      simp only [readFields]
      by_cases hid : id > 7
      · simp only [hid, if_true]; exact ⟨_, rfl⟩
      · simp only [hid, if_false]
        have : (writeVarint data.length ++ data).take n = (writeVarint data.length).take n := by
          rw [List.take_append_of_le_length (by omega)]
        rw [this, readCount_cut _ n hc]
        exact ⟨_, rfl⟩
    · -- cut inside the payload
      have e : (writeVarint data.length ++ data).take n = writeVarint data.length ++ data.take (n - (writeVarint data.length).length) := by
        rw [List.take_append]
        rw [List.take_of_length_le (by omega)]
      rw [e]
      apply readFields_truncated fuel b id data.length _ hl
      simp only [List.length_cons, List.length_append] at hn
      rw [List.length_take]
      omega

/-- cutting a sequence of complete fields: either exactly at a field boundary, or the framing loop fails -/
theorem encodeFields_cut : ∀ (fields : List (Nat × Bytes)), (∀ f ∈ fields, (f.2.length : Int) ≤ INT_MAX) →
    ∀ n, n < (encodeFields fields).length →
    (∃ k, k < fields.length ∧ (encodeFields fields).take n = encodeFields (fields.take k)) ∨
    (∀ fuel b, n ≤ fuel → ∃ e, readFields fuel b ((encodeFields fields).take n) = .error e) := by
  intro fields
  induction fields with
  | nil => intro _ n hn; simp [encodeFields] at hn
  | cons f fs ih =>
    intro hf n hn
    have hfs : ∀ g ∈ fs, (g.2.length : Int) ≤ INT_MAX := fun g hg => hf g (List.mem_cons_of_mem _ hg)
    rw [encodeFields_cons] at hn ⊢
    by_cases h0 : n = 0
    · left
      exact ⟨0, by simp, by subst h0; simp [encodeFields]⟩
    · by_cases hlt : n < (encodeField f.1 f.2).length
      · right
        intro fuel b hfuel
        rw [List.take_append_of_le_length (by omega)]
        cases fuel with
        | zero => omega
        | succ k => exact readFields_partial_field f.1 f.2 (hf f List.mem_cons_self) n (by omega) hlt k b
      · have hge : (encodeField f.1 f.2).length ≤ n := by omega
        have e : (encodeField f.1 f.2 ++ encodeFields fs).take n =
            encodeField f.1 f.2 ++ (encodeFields fs).take (n - (encodeField f.1 f.2).length) := by
          rw [List.take_append, List.take_of_length_le hge]
        rw [e]
        simp only [List.length_append] at hn
        rcases ih hfs (n - (encodeField f.1 f.2).length) (by omega) with ⟨k, hk, hk2⟩ | hr
        · left
          refine ⟨k + 1, by simp; omega, ?_⟩
          rw [hk2, List.take_succ_cons, encodeFields_cons]
        · right
          intro fuel b hfuel
          have hpos : 0 < (encodeField f.1 f.2).length := by simp [encodeField]
          cases fuel with
          | zero => omega
          | succ k =>
            by_cases hid : f.1 > 7
            · refine ⟨.valueError, ?_⟩
              simp only [encodeField, List.cons_append, readFields, hid, if_true]
            · rw [readFields_field k b f.1 f.2 _ hid (hf f List.mem_cons_self)]
              cases hh : handleField b f.1 f.2 with
              | error e => exact ⟨e, rfl⟩
              | ok b' =>
                simp only [bind, Except.bind]
                exact hr k b' (by omega)

/-! ## the zone fields of a loaded stream are framed payloads -/

theorem bind_ok {α β} (x : R α) (f : α → R β) (b : β) (h : (x >>= f) = .ok b) : ∃ a, x = .ok a ∧ f a = .ok b := by
  cases x with
  | error e => cases h
  | ok a => exact ⟨a, rfl, h⟩

theorem handleField_zoneFields (b : Builder) (id : Nat) (data : Bytes) (b' : Builder)
    (h : handleField b id data = .ok b') :
    b'.zoneFields = b.zoneFields ∨ ∃ zid, b'.zoneFields = b.zoneFields ++ [(zid, data)] := by
  unfold handleField at h
  split at h
  · -- 0
    obtain ⟨_, _, h⟩ := bind_ok _ _ _ h
    obtain ⟨_, _, h⟩ := bind_ok _ _ _ h
    obtain ⟨_, _, h⟩ := bind_ok _ _ _ h
    cases h; left; rfl
  · -- 1
    obtain ⟨_, _, h⟩ := bind_ok _ _ _ h
    obtain ⟨p, _, h⟩ := bind_ok _ _ _ h
    simp only at h
    split at h
    · cases h
    · cases h; right; exact ⟨p.1, rfl⟩
  · obtain ⟨_, _, h⟩ := bind_ok _ _ _ h
    obtain ⟨_, _, h⟩ := bind_ok _ _ _ h
    cases h; left; rfl
  · obtain ⟨_, _, h⟩ := bind_ok _ _ _ h
    obtain ⟨_, _, h⟩ := bind_ok _ _ _ h
    cases h; left; rfl
  · obtain ⟨_, _, h⟩ := bind_ok _ _ _ h
    obtain ⟨_, _, h⟩ := bind_ok _ _ _ h
    cases h; left; rfl
  · obtain ⟨_, _, h⟩ := bind_ok _ _ _ h
    obtain ⟨_, _, h⟩ := bind_ok _ _ _ h
    obtain ⟨_, _, h⟩ := bind_ok _ _ _ h
    obtain ⟨_, _, h⟩ := bind_ok _ _ _ h
    cases h; left; rfl
  · obtain ⟨_, _, h⟩ := bind_ok _ _ _ h
    obtain ⟨_, _, h⟩ := bind_ok _ _ _ h
    obtain ⟨_, _, h⟩ := bind_ok _ _ _ h
    obtain ⟨_, _, h⟩ := bind_ok _ _ _ h
    cases h; left; rfl
  · cases h; left; rfl

theorem takeExact_taken (n : Nat) : ∀ (bs t r : Bytes), takeExact n bs = some (t, r) → t.length = n := by
  induction n with
  | zero => intro bs t r h; simp only [takeExact] at h; cases h; rfl
  | succ n ih =>
    intro bs t r h
    cases bs with
    | nil => simp [takeExact] at h
    | cons b bs =>
      simp only [takeExact] at h
      cases ht : takeExact n bs with
      | none => rw [ht] at h; cases h
      | some p =>
        obtain ⟨t', r'⟩ := p
        rw [ht] at h
        cases h
        simp [ih bs t' r ht]

/-- framing only: the payloads `_read_fields` yields until the data runs out or the framing fails -/
def splitFields : Nat → Bytes → List Bytes
  | _, [] => []
  | 0, _ :: _ => []
  | fuel + 1, id :: r =>
    if id > 7 then [] else
    match readCount r with
    | .error _ => []
    | .ok (len, r) =>
      match takeExact len.toNat r with
      | none => []
      | some (data, r) => data :: splitFields fuel r

def payloadBytes (fs : List Bytes) : Nat := (fs.map List.length).sum

/-- the payloads are disjoint slices of the stream: together (with two framing bytes each) they fit in it -/
theorem payloadBytes_le (fuel : Nat) : ∀ bs : Bytes, payloadBytes (splitFields fuel bs) + 2 * (splitFields fuel bs).length ≤ bs.length := by
  induction fuel with
  | zero => intro bs; cases bs <;> simp [splitFields, payloadBytes]
  | succ fuel ih =>
    intro bs
    cases bs with
    | nil => simp [splitFields, payloadBytes]
    | cons id r =>
      simp only [splitFields]
      split
      · simp [payloadBytes]
      · cases hc : readCount r with
        | error e => simp [payloadBytes]
        | ok p =>
          obtain ⟨len, r1⟩ := p
          simp only
          cases ht : takeExact len.toNat r1 with
          | none => simp [payloadBytes]
          | some q =>
            obtain ⟨data, r2⟩ := q
            simp only
            have h1 := readCount_progress r len r1 hc
            have h2 := takeExact_length _ _ _ _ ht
            have h3 := ih r2
            have h4 : data.length = len.toNat := takeExact_taken _ _ _ _ ht
            simp only [payloadBytes, List.map_cons, List.sum_cons, List.length_cons] at h3 ⊢
            omega

theorem mem_le_payloadBytes (fs : List Bytes) (x : Bytes) (h : x ∈ fs) : x.length ≤ payloadBytes fs := by
  induction fs with
  | nil => cases h
  | cons f fs ih =>
    simp only [payloadBytes, List.map_cons, List.sum_cons]
    rcases List.mem_cons.mp h with rfl | h'
    · omega
    · have := ih h'
      simp only [payloadBytes] at this
      omega

/-- every zone field the builder ends up with is one of the framed payloads -/
theorem readFields_zoneFields (fuel : Nat) : ∀ (b : Builder) (bs : Bytes) (b' : Builder), readFields fuel b bs = .ok b' →
    ∀ z ∈ b'.zoneFields, z ∈ b.zoneFields ∨ z.2 ∈ splitFields fuel bs := by
  induction fuel with
  | zero =>
    intro b bs b' h z hz
    cases bs with
    | nil => simp only [readFields] at h; cases h; exact Or.inl hz
    | cons _ _ => simp only [readFields] at h; cases h
  | succ fuel ih =>
    intro b bs b' h z hz
    cases bs with
    | nil => simp only [readFields] at h; cases h; exact Or.inl hz
    | cons id r =>
      simp only [readFields] at h
      simp only [splitFields]
      split at h
      · cases h
      · rename_i hid
        simp only [hid, if_false]
        cases hc : readCount r with
        | error e => rw [hc] at h; cases h
        | ok p =>
          obtain ⟨len, r1⟩ := p
          rw [hc] at h
          simp only [bind, Except.bind] at h
          cases ht : takeExact len.toNat r1 with
          | none => rw [ht] at h; cases h
          | some q =>
            obtain ⟨data, r2⟩ := q
            rw [ht] at h
            simp only at h
            simp only [ht]
            cases hh : handleField b id data with
            | error e => rw [hh] at h; cases h
            | ok b1 =>
              rw [hh] at h
              simp only at h
              rcases ih b1 r2 b' h z hz with h1 | h2
              · rcases handleField_zoneFields b id data b1 hh with e | ⟨zid, e⟩
                · left; rw [← e]; exact h1
                · rw [e] at h1
                  rcases List.mem_append.mp h1 with h3 | h3
                  · left; exact h3
                  · right
                    simp only [List.mem_singleton] at h3
                    subst h3
                    exact List.mem_cons_self
              · right; exact List.mem_cons_of_mem _ h2

theorem zoneField_le_stream (bytes : Bytes) (d : StreamData) (h : fromStreamBody bytes = .ok d) :
    ∀ z ∈ d.zoneFields, z.2.length ≤ bytes.length := by
  intro z hz
  unfold fromStreamBody at h
  match bytes, h with
  | b0 :: b1 :: b2 :: b3 :: rest, h =>
    simp only at h
    split at h
    · cases h
    · obtain ⟨b, hb, h⟩ := bind_ok _ _ _ h
      have hzf : d.zoneFields = b.zoneFields := by
        unfold streamDataOfBuilder at h
        split at h
        · cases h; rfl
        · cases h
      rw [hzf] at hz
      rcases readFields_zoneFields _ _ _ _ hb z hz with h1 | h2
      · cases h1
      · have := mem_le_payloadBytes _ _ h2
        have := payloadBytes_le rest.length rest
        simp only [List.length_cons]
        omega

/-- length of the zone field `for_id(id)` decodes (0 when the id or its field is missing) -/
def fieldLength (d : StreamData) (id : Str) : Nat :=
  match dictGet? d.idMap id with
  | none => 0
  | some c => match d.zoneFields.find? (·.1 = c) with
    | none => 0
    | some (_, f) => f.length

theorem fieldLength_le (bytes : Bytes) (d : StreamData) (h : fromStreamBody bytes = .ok d) (id : Str) :
    fieldLength d id ≤ bytes.length := by
  unfold fieldLength
  split
  · omega
  · split
    · omega
    · rename_i hf
      have := List.mem_of_find?_eq_some hf
      exact zoneField_le_stream bytes d h _ this

/-- Bytes handed to decoders by load + list ids + fetch every zone: the framing pass over the stream, one handler
    pass over every field payload, one `create_zone` pass over the zone field of every listed id. Every decoder is a
    single left-to-right structural recursion over what it is handed (see `readNTicks_linear`, `readFields_fuel_irrelevant`). -/
def bytesHanded (bytes : Bytes) : Nat :=
  bytes.length + payloadBytes (splitFields (bytes.drop 4).length (bytes.drop 4)) +
  match fromStreamBody bytes with
  | .error _ => 0
  | .ok d => ((getIds d).map (fieldLength d)).sum

def idCount (bytes : Bytes) : Nat :=
  match fromStreamBody bytes with
  | .error _ => 0
  | .ok d => (getIds d).length

theorem sum_map_le (l : List Str) (f : Str → Nat) (c : Nat) (h : ∀ x, f x ≤ c) : (l.map f).sum ≤ l.length * c := by
  induction l with
  | nil => simp
  | cons a l ih =>
    simp only [List.map_cons, List.sum_cons, List.length_cons]
    have := h a
    rw [Nat.add_mul]
    omega

/-- the work bound with the alias factor: linear in the stream for loading, plus one pass over (at most) the stream per
    listed id — `k` aliases of one zone decode that zone `k` times, so there is no bound without the factor -/
theorem bytesHanded_bound (bytes : Bytes) : bytesHanded bytes ≤ bytes.length * (2 + idCount bytes) := by
  unfold bytesHanded idCount
  have hp := payloadBytes_le (bytes.drop 4).length (bytes.drop 4)
  have hd : (bytes.drop 4).length ≤ bytes.length := by simp
  cases h : fromStreamBody bytes with
  | error e =>
    simp only
    rw [Nat.mul_add]
    omega
  | ok d =>
    simp only
    have := sum_map_le (getIds d) (fieldLength d) bytes.length (fieldLength_le bytes d h)
    rw [Nat.mul_add, Nat.mul_comm bytes.length (getIds d).length]
    omega

/-! ## every proper prefix of a well-formed stream -/

/-- a well-formed stream: version 0 and complete fields -/
def wellFormed (fields : List (Nat × Bytes)) : Bytes := 0 :: 0 :: 0 :: 0 :: encodeFields fields

theorem fromStream_short (bs : Bytes) (h : bs.length < 4) : fromStream bs = .error .invalidData := by
  have e : fromStreamBody bs = .error .structError := by
    match bs, h with
    | [], _ => rfl
    | [_], _ => rfl
    | [_, _], _ => rfl
    | [_, _, _], _ => rfl
  unfold fromStream fromStreamRaw
  rw [e]
  rfl

/-- Cutting a well-formed stream anywhere short of its end gives either the documented error or exactly the
    well-formed stream of its first `k` fields (a cut on a field boundary): no other outcome, for every cut. -/
theorem truncation_anywhere_aux (fields : List (Nat × Bytes)) (hf : ∀ f ∈ fields, (f.2.length : Int) ≤ INT_MAX)
    (n : Nat) (hn : n < (wellFormed fields).length) :
    fromStream ((wellFormed fields).take n) = .error .invalidData ∨
    ∃ k, k < fields.length ∧ (wellFormed fields).take n = wellFormed (fields.take k) := by
  by_cases h4 : n < 4
  · left
    apply fromStream_short
    rw [List.length_take]
    omega
  · have e : (wellFormed fields).take n = 0 :: 0 :: 0 :: 0 :: (encodeFields fields).take (n - 4) := by
      unfold wellFormed
      obtain ⟨m, rfl⟩ : ∃ m, n = m + 4 := ⟨n - 4, by omega⟩
      simp [List.take_succ_cons]
    simp only [wellFormed, List.length_cons] at hn
    rcases encodeFields_cut fields hf (n - 4) (by omega) with ⟨k, hk, hk2⟩ | hr
    · right
      exact ⟨k, hk, by rw [e, hk2]; rfl⟩
    · left
      rw [e]
      obtain ⟨er, her⟩ := hr ((encodeFields fields).take (n - 4)).length {} (by rw [List.length_take]; omega)
      unfold fromStream fromStreamRaw fromStreamBody
      simp only [ne_eq, not_true_eq_false, or_self, if_false, her, bind, Except.bind]
      unfold translate
      simp only
      split <;> rfl

end Pyoda.C20
