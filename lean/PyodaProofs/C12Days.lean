/-
  C12 — ordering against day numbers, for every calendar.

  `PyodaProofs.C12` states `cmp_iff_timeline` for LocalDate / YearMonth / LocalDateTime against packed
  (year, month, day) keys.  Here the keys are lifted to *day numbers*: for any calendar description `c : Calc`
  (PyodaModel/Calendar) that is well formed (`WF c`, the hypothesis of property C01) and whose ordinal `ord` selects
  the comparison the code uses for it (`CalMatches ord c`), the comparison of the Compare model has the sign of the
  comparison of `daysOfYmd c` (the model of `LocalDate._days_since_epoch`).  The proof uses C01's
  `ymd_days_ymd` (dates ↔ days is a bijection) and `cmp_neg_of_days_lt` (earlier day ⇒ negative comparison).

  `hebrewScriptural_cmp_iff_days` closes the statement `hebrewScriptural_cmp_iff_daysStatement` of C12Hebrew.lean
  under the hypothesis `wfCheck (Heb.cal true) = true`, which is discharged by evaluating the executable checker on
  the compiled calendar driver (`cal.wf 5`; done in every run of the C12 and C01 checks, Lean compiler trusted).
-/
import PyodaModel.Compare
import PyodaModel.Calendar
import PyodaProofs.Basic
import PyodaProofs.C01
import PyodaProofs.C01WfCheck
import PyodaProofs.C12Lemmas
import PyodaProofs.C12
import PyodaProofs.C12Hebrew

namespace Pyoda.C12
open Pyoda

/-- the calendar ordinal `ord` selects, in `CalendarSystem._compare`, the comparison that the calendar description
    `c` declares: the Hebrew scriptural override (with the civil month as month key) exactly for ordinal 5 -/
def CalMatches (ord : Int) (c : Calendar.Calc) : Prop :=
  (c.ownCompare = true → ord = Compare.HEBREW_SCRIPTURAL ∧ ∀ y m, c.monthKey y m = Compare.scripturalToCivil y m) ∧
  (c.ownCompare = false → ord ≠ Compare.HEBREW_SCRIPTURAL)

theorem heb_matches : CalMatches Compare.HEBREW_SCRIPTURAL (Calendar.Heb.cal true) := by
  unfold CalMatches
  refine ⟨fun _ => ⟨rfl, fun y m => ?_⟩, fun h => (by cases h)⟩
  show Calendar.Heb.scripturalToCivil y m = Compare.scripturalToCivil y m
  simp only [Calendar.Heb.scripturalToCivil, Compare.scripturalToCivil, isLeap_eq]

/-- every calendar of the library matches its ordinal -/
theorem calMatches_of_ordinal (n : Nat) (c : Calendar.Calc) (hc : Calendar.calcOf n = some c) : CalMatches n c := by
  have hn : n < 19 := by
    by_cases h : n < 19
    · exact h
    · exfalso
      have : Calendar.calcOf n = none := by
        unfold Calendar.calcOf
        split <;> first | omega | rfl
      rw [this] at hc; cases hc
  by_cases h5 : n = 5
  · subst h5
    simp only [Calendar.calcOf, Option.some.injEq] at hc
    subst hc
    exact heb_matches
  · have hne : ((n : Nat) : Int) ≠ Compare.HEBREW_SCRIPTURAL := by
      simp only [Compare.HEBREW_SCRIPTURAL]; omega
    have hoc : c.ownCompare = false := by
      unfold Calendar.calcOf at hc
      split at hc <;> first
        | (simp only [Option.some.injEq] at hc; subst hc; rfl)
        | (exfalso; omega)
        | cases hc
    unfold CalMatches
    exact ⟨fun h => (by rw [hoc] at h; cases h), fun _ => hne⟩

variable {c : Calendar.Calc}

/-- valid fields fit the packed representation -/
theorem fieldsOK_of_valid (h : C01.WF c) {y m d : Int} (hv : Calendar.validate c y m d = .ok ()) :
    Compare.FieldsOK m d := by
  obtain ⟨hy, hy2, hm, hm2, hd, hd2⟩ := C01.validate_inv hv
  have pm := h.pack_month y hy hy2
  have pd := h.pack_day y m hy hy2 hm hm2
  exact ⟨hm, by omega, hd, by omega⟩

/-- on packed valid dates the comparison of the Compare model is the calendar's own comparison of the Calendar model -/
theorem calCompare_eq_cmpYmd (ord : Int) (hm : CalMatches ord c) (y1 m1 d1 y2 m2 d2 : Int)
    (f1 : Compare.FieldsOK m1 d1) (f2 : Compare.FieldsOK m2 d2) :
    Compare.calCompare ord (Compare.packYMD y1 m1 d1) (Compare.packYMD y2 m2 d2) =
      Calendar.cmpYmd c (y1, m1, d1) (y2, m2, d2) := by
  obtain ⟨u1y, u1m, u1d⟩ := unpack_pack' y1 m1 d1 f1
  obtain ⟨u2y, u2m, u2d⟩ := unpack_pack' y2 m2 d2 f2
  unfold Calendar.cmpYmd Compare.calCompare
  cases hoc : c.ownCompare
  · have := hm.2 hoc
    rw [if_neg this]
    simp only [Bool.false_eq_true, if_false]
    rfl
  · obtain ⟨ho, hk⟩ := hm.1 hoc
    rw [if_pos ho]
    simp only [if_true, u1y, u1m, u1d, u2y, u2m, u2d, hk]

/-- **generic**: for a well-formed calendar, the comparison of two valid dates has the sign of the comparison of
    their day numbers -/
theorem calCompare_iff_days (h : C01.WF c) (ord : Int) (hm : CalMatches ord c) (y1 m1 d1 y2 m2 d2 : Int)
    (v1 : Calendar.validate c y1 m1 d1 = .ok ()) (v2 : Calendar.validate c y2 m2 d2 = .ok ()) :
    ∃ n1 n2, Calendar.daysOfYmd c y1 m1 d1 = .ok n1 ∧ Calendar.daysOfYmd c y2 m2 d2 = .ok n2 ∧
      SameSign (Compare.calCompare ord (Compare.packYMD y1 m1 d1) (Compare.packYMD y2 m2 d2)) n1 n2 := by
  obtain ⟨n1, e1, lo1, hi1, b1⟩ := C01.ymd_days_ymd h y1 m1 d1 v1
  obtain ⟨n2, e2, lo2, hi2, b2⟩ := C01.ymd_days_ymd h y2 m2 d2 v2
  refine ⟨n1, n2, e1, e2, ?_⟩
  have f1 := fieldsOK_of_valid h v1
  have f2 := fieldsOK_of_valid h v2
  have sw := calCompare_swap ord (Compare.packYMD y1 m1 d1) (Compare.packYMD y2 m2 d2)
  have hlt : n1 < n2 → Compare.calCompare ord (Compare.packYMD y1 m1 d1) (Compare.packYMD y2 m2 d2) < 0 := by
    intro hl
    rw [calCompare_eq_cmpYmd ord hm _ _ _ _ _ _ f1 f2]
    exact C01.cmp_neg_of_days_lt h n1 n2 lo1 hl hi2 _ _ b1 b2
  have hgt : n2 < n1 → Compare.calCompare ord (Compare.packYMD y2 m2 d2) (Compare.packYMD y1 m1 d1) < 0 := by
    intro hl
    rw [calCompare_eq_cmpYmd ord hm _ _ _ _ _ _ f2 f1]
    exact C01.cmp_neg_of_days_lt h n2 n1 lo2 hl hi1 _ _ b2 b1
  have heq : n1 = n2 → Compare.calCompare ord (Compare.packYMD y1 m1 d1) (Compare.packYMD y2 m2 d2) = 0 := by
    intro he
    rw [he, b2] at b1
    simp only [Except.ok.injEq, Prod.mk.injEq] at b1
    obtain ⟨hy, hmm, hd⟩ := b1
    subst hy; subst hmm; subst hd
    have := calCompare_swap ord (Compare.packYMD y2 m2 d2) (Compare.packYMD y2 m2 d2)
    omega
  simp only [SameSign]
  refine ⟨⟨fun hc => ?_, hlt⟩, ⟨fun hc => ?_, heq⟩, ⟨fun hc => ?_, fun hl => by have := hgt hl; omega⟩⟩
  · by_cases a : n1 < n2
    · exact a
    · by_cases b : n1 = n2
      · have := heq b; omega
      · have := hgt (by omega); omega
  · by_cases a : n1 = n2
    · exact a
    · by_cases b : n1 < n2
      · have := hlt b; omega
      · have := hgt (by omega); omega
  · by_cases a : n1 > n2
    · exact a
    · by_cases b : n1 = n2
      · have := heq b; omega
      · have := hlt (by omega); omega

/-- two valid dates with the same day number are the same date -/
theorem days_inj (h : C01.WF c) (y1 m1 d1 y2 m2 d2 n : Int)
    (v1 : Calendar.validate c y1 m1 d1 = .ok ()) (v2 : Calendar.validate c y2 m2 d2 = .ok ())
    (e1 : Calendar.daysOfYmd c y1 m1 d1 = .ok n) (e2 : Calendar.daysOfYmd c y2 m2 d2 = .ok n) :
    y1 = y2 ∧ m1 = m2 ∧ d1 = d2 := by
  obtain ⟨n1, a1, _, _, b1⟩ := C01.ymd_days_ymd h y1 m1 d1 v1
  obtain ⟨n2, a2, _, _, b2⟩ := C01.ymd_days_ymd h y2 m2 d2 v2
  rw [e1] at a1; rw [e2] at a2
  cases a1; cases a2
  rw [b1] at b2
  simp only [Except.ok.injEq, Prod.mk.injEq] at b2
  exact b2

/-! ## LocalDate, YearMonth, LocalDateTime against day numbers -/

/-- `LocalDate.compare_to` of two valid dates of calendar `ord` answers with the sign of the comparison of their
    `_days_since_epoch` -/
theorem localDate_cmp_iff_days (h : C01.WF c) (ord : Int) (ho : Compare.OrdOK ord) (hm : CalMatches ord c)
    (y1 m1 d1 y2 m2 d2 : Int)
    (v1 : Calendar.validate c y1 m1 d1 = .ok ()) (v2 : Calendar.validate c y2 m2 d2 = .ok ()) :
    ∃ k n1 n2, Compare.LocalDate.compareTo (Compare.LocalDate.ofFields ord y1 m1 d1)
        (Compare.LocalDate.ofFields ord y2 m2 d2) = .ok k ∧
      Calendar.daysOfYmd c y1 m1 d1 = .ok n1 ∧ Calendar.daysOfYmd c y2 m2 d2 = .ok n2 ∧ SameSign k n1 n2 := by
  obtain ⟨n1, n2, e1, e2, s⟩ := calCompare_iff_days h ord hm y1 m1 d1 y2 m2 d2 v1 v2
  refine ⟨_, n1, n2, ?_, e1, e2, s⟩
  have p1 := packCal_fields ord y1 m1 d1 ho
  have p2 := packCal_fields ord y2 m2 d2 ho
  have g : (Compare.LocalDate.ofFields ord y1 m1 d1).ordinal = (Compare.LocalDate.ofFields ord y2 m2 d2).ordinal := by
    simp only [Compare.LocalDate.ordinal, Compare.LocalDate.ofFields, p1.1, p2.1]
  rw [ld_cmp_ok _ _ g]
  simp only [Compare.LocalDate.ordinal, Compare.LocalDate.ymd, Compare.LocalDate.ofFields, p1.1, p1.2, p2.2]

/-- all six operators and `compare_to` of LocalDate follow day numbers (with `localDate_ops_agree_with_cmp`) -/
theorem localDate_lt_iff_days (h : C01.WF c) (ord : Int) (ho : Compare.OrdOK ord) (hm : CalMatches ord c)
    (y1 m1 d1 y2 m2 d2 : Int)
    (v1 : Calendar.validate c y1 m1 d1 = .ok ()) (v2 : Calendar.validate c y2 m2 d2 = .ok ()) :
    ∃ n1 n2, Calendar.daysOfYmd c y1 m1 d1 = .ok n1 ∧ Calendar.daysOfYmd c y2 m2 d2 = .ok n2 ∧
      Compare.LocalDate.lt (Compare.LocalDate.ofFields ord y1 m1 d1) (Compare.LocalDate.ofFields ord y2 m2 d2)
        = .ok (decide (n1 < n2)) ∧
      Compare.LocalDate.le (Compare.LocalDate.ofFields ord y1 m1 d1) (Compare.LocalDate.ofFields ord y2 m2 d2)
        = .ok (decide (n1 ≤ n2)) ∧
      Compare.LocalDate.gt (Compare.LocalDate.ofFields ord y1 m1 d1) (Compare.LocalDate.ofFields ord y2 m2 d2)
        = .ok (decide (n1 > n2)) ∧
      Compare.LocalDate.ge (Compare.LocalDate.ofFields ord y1 m1 d1) (Compare.LocalDate.ofFields ord y2 m2 d2)
        = .ok (decide (n1 ≥ n2)) ∧
      (Compare.LocalDate.eq (Compare.LocalDate.ofFields ord y1 m1 d1) (Compare.LocalDate.ofFields ord y2 m2 d2)
        = true ↔ n1 = n2) := by
  obtain ⟨k, n1, n2, hk, e1, e2, s⟩ := localDate_cmp_iff_days h ord ho hm y1 m1 d1 y2 m2 d2 v1 v2
  obtain ⟨o1, o2, o3, o4⟩ := localDate_ops_agree_with_cmp.1 (Compare.LocalDate.ofFields ord y1 m1 d1)
    (Compare.LocalDate.ofFields ord y2 m2 d2)
  rw [hk] at o1 o2 o3 o4
  simp only [Except.map] at o1 o2 o3 o4
  simp only [SameSign] at s
  refine ⟨n1, n2, e1, e2, ?_, ?_, ?_, ?_, ?_⟩
  · rw [o1]; congr 1; rw [Bool.eq_iff_iff]; simp only [decide_eq_true_eq]; omega
  · rw [o2]; congr 1; rw [Bool.eq_iff_iff]; simp only [decide_eq_true_eq]; omega
  · rw [o3]; congr 1; rw [Bool.eq_iff_iff]; simp only [decide_eq_true_eq]; omega
  · rw [o4]; congr 1; rw [Bool.eq_iff_iff]; simp only [decide_eq_true_eq]; omega
  · -- equal packed values ⇔ equal fields ⇔ equal days
    have f1 := fieldsOK_of_valid h v1
    have f2 := fieldsOK_of_valid h v2
    rw [localDate_eq_iff_components ord y1 m1 d1 ord y2 m2 d2 f1 f2 ho ho]
    constructor
    · rintro ⟨_, hy, hmm, hd⟩
      subst hy; subst hmm; subst hd
      rw [e1] at e2; cases e2; rfl
    · intro he
      subst he
      exact ⟨rfl, days_inj h y1 m1 d1 y2 m2 d2 n1 v1 v2 e1 e2⟩

/-- `YearMonth.compare_to` follows the day number of the first day of the month -/
theorem yearMonth_cmp_iff_days (h : C01.WF c) (ord : Int) (ho : Compare.OrdOK ord) (hm : CalMatches ord c)
    (y1 m1 y2 m2 : Int)
    (v1 : Calendar.validate c y1 m1 1 = .ok ()) (v2 : Calendar.validate c y2 m2 1 = .ok ()) :
    ∃ k n1 n2, Compare.YearMonth.compareTo (Compare.YearMonth.ofFields ord y1 m1)
        (Compare.YearMonth.ofFields ord y2 m2) = .ok k ∧
      Calendar.daysOfYmd c y1 m1 1 = .ok n1 ∧ Calendar.daysOfYmd c y2 m2 1 = .ok n2 ∧ SameSign k n1 n2 := by
  obtain ⟨n1, n2, e1, e2, s⟩ := calCompare_iff_days h ord hm y1 m1 1 y2 m2 1 v1 v2
  refine ⟨_, n1, n2, ?_, e1, e2, s⟩
  have p1 := packCal_fields ord y1 m1 1 ho
  have p2 := packCal_fields ord y2 m2 1 ho
  have g : (Compare.YearMonth.ofFields ord y1 m1).ordinal = (Compare.YearMonth.ofFields ord y2 m2).ordinal := by
    simp only [Compare.YearMonth.ordinal, Compare.YearMonth.ofFields, p1.1, p2.1]
  rw [ym_cmp_ok _ _ g]
  simp only [Compare.YearMonth.ordinal, Compare.YearMonth.ymd, Compare.YearMonth.ofFields, p1.1, p1.2, p2.2]

/-- `LocalDateTime.compare_to` follows the local timeline: day number, then nanosecond of the day -/
theorem localDateTime_cmp_iff_days (h : C01.WF c) (ord : Int) (ho : Compare.OrdOK ord) (hm : CalMatches ord c)
    (y1 m1 d1 t1 y2 m2 d2 t2 : Int)
    (v1 : Calendar.validate c y1 m1 d1 = .ok ()) (v2 : Calendar.validate c y2 m2 d2 = .ok ())
    (ht1 : 0 ≤ t1 ∧ t1 < NPD) (ht2 : 0 ≤ t2 ∧ t2 < NPD) :
    ∃ k n1 n2, Compare.LocalDateTime.compareTo ⟨Compare.LocalDate.ofFields ord y1 m1 d1, ⟨t1⟩⟩
        ⟨Compare.LocalDate.ofFields ord y2 m2 d2, ⟨t2⟩⟩ = .ok k ∧
      Calendar.daysOfYmd c y1 m1 d1 = .ok n1 ∧ Calendar.daysOfYmd c y2 m2 d2 = .ok n2 ∧
      SameSign k (n1 * NPD + t1) (n2 * NPD + t2) := by
  obtain ⟨n1, n2, e1, e2, s⟩ := calCompare_iff_days h ord hm y1 m1 d1 y2 m2 d2 v1 v2
  refine ⟨ldtCmp ⟨Compare.LocalDate.ofFields ord y1 m1 d1, ⟨t1⟩⟩ ⟨Compare.LocalDate.ofFields ord y2 m2 d2, ⟨t2⟩⟩,
    n1, n2, ?_, e1, e2, ?_⟩
  · have p1 := packCal_fields ord y1 m1 d1 ho
    have p2 := packCal_fields ord y2 m2 d2 ho
    exact ldt_cmp_ok _ _ (by simp only [Compare.LocalDate.ordinal, Compare.LocalDate.ofFields, p1.1, p2.1])
  · have p1 := packCal_fields ord y1 m1 d1 ho
    have p2 := packCal_fields ord y2 m2 d2 ho
    simp only [ldtCmp, Compare.LocalDate.ordinal, Compare.LocalDate.ymd, Compare.LocalDate.ofFields, p1.1, p1.2, p2.2]
    simp only [SameSign, NPD] at *
    split <;> omega

/-! ## the Hebrew scriptural calendar -/

theorem heb_validate (h : C01.WF (Calendar.Heb.cal true)) (y m d : Int) (hy : 1 ≤ y) (hy2 : y ≤ 9999)
    (hd : HebDateOK y m d) : Calendar.validate (Calendar.Heb.cal true) y m d = .ok () := by
  obtain ⟨hm, hd1, hd2⟩ := hd
  refine C01.validate_ok (c := Calendar.Heb.cal true) h hy hy2 hm.1 ?_ hd1 hd2
  show m ≤ (if Calendar.Heb.isLeap y then 13 else 12)
  rw [isLeap_eq]; exact hm.2

theorem heb_days (h : C01.WF (Calendar.Heb.cal true)) (y m d : Int) (hy : 1 ≤ y) (hy2 : y ≤ 9999)
    (hd : HebDateOK y m d) :
    Calendar.daysOfYmd (Calendar.Heb.cal true) y m d = .ok (Calendar.Heb.start y + hebDayOfYear y m d - 1) := by
  unfold Calendar.daysOfYmd
  rw [heb_validate h y m d hy hy2 hd]
  show Calendar.daysOfYmdRaw (Calendar.Heb.cal true) y m d = _
  rw [C01.daysOfYmdRaw_eq h (c := Calendar.Heb.cal true) hy hy2]
  congr 1
  show Calendar.Heb.start y + Calendar.Heb.toMonthS y m + d - 1 = Calendar.Heb.start y + (Calendar.Heb.toMonthS y m + d) - 1
  omega

/-- **Full statement closed**: the scriptural comparison of two valid Hebrew dates has the sign of the comparison of
    their day numbers `start(year) + day-of-year - 1`.  The hypothesis is the evaluated well-formedness check of the
    Hebrew scriptural calendar description (all 9999 years), discharged on the compiled driver (`cal.wf 5`). -/
theorem hebrewScriptural_cmp_iff_days (hwf : Calendar.wfCheck (Calendar.Heb.cal true) = true) :
    hebrewScriptural_cmp_iff_daysStatement := by
  intro y1 m1 d1 y2 m2 d2 hy1 hy1' hy2 hy2' h1 h2
  have h := C01.wfCheck_sound _ hwf
  obtain ⟨n1, n2, e1, e2, s⟩ := calCompare_iff_days h Compare.HEBREW_SCRIPTURAL heb_matches y1 m1 d1 y2 m2 d2
    (heb_validate h y1 m1 d1 hy1 hy1' h1) (heb_validate h y2 m2 d2 hy2 hy2' h2)
  rw [heb_days h y1 m1 d1 hy1 hy1' h1] at e1
  rw [heb_days h y2 m2 d2 hy2 hy2' h2] at e2
  cases e1; cases e2
  exact s

/-- the same through the public operators: `LocalDate(y1, m1, d1, hebrew_scriptural) < LocalDate(y2, m2, d2, …)`
    exactly when the first day number is smaller -/
theorem hebrewScriptural_lt_iff_days (hwf : Calendar.wfCheck (Calendar.Heb.cal true) = true)
    (y1 m1 d1 y2 m2 d2 : Int) (hy1 : 1 ≤ y1) (hy1' : y1 ≤ 9999) (hy2 : 1 ≤ y2) (hy2' : y2 ≤ 9999)
    (h1 : HebDateOK y1 m1 d1) (h2 : HebDateOK y2 m2 d2) :
    Compare.LocalDate.lt (Compare.LocalDate.ofFields 5 y1 m1 d1) (Compare.LocalDate.ofFields 5 y2 m2 d2) =
      .ok (decide (Calendar.Heb.start y1 + hebDayOfYear y1 m1 d1 - 1 < Calendar.Heb.start y2 + hebDayOfYear y2 m2 d2 - 1)) := by
  have h := C01.wfCheck_sound _ hwf
  obtain ⟨n1, n2, e1, e2, l, _⟩ := localDate_lt_iff_days h 5 (by unfold Compare.OrdOK; omega) heb_matches y1 m1 d1 y2 m2 d2
    (heb_validate h y1 m1 d1 hy1 hy1' h1) (heb_validate h y2 m2 d2 hy2 hy2' h2)
  rw [heb_days h y1 m1 d1 hy1 hy1' h1] at e1
  rw [heb_days h y2 m2 d2 hy2 hy2' h2] at e2
  cases e1; cases e2
  exact l

/-! the hypotheses are satisfiable: ordinals match their descriptions; a concrete valid Gregorian date -/
example : CalMatches 0 Calendar.Greg.cal ∧ CalMatches 4 (Calendar.Heb.cal false) ∧ CalMatches 17 Calendar.UAQ.cal :=
  ⟨calMatches_of_ordinal 0 _ rfl, calMatches_of_ordinal 4 _ rfl, calMatches_of_ordinal 17 _ rfl⟩

example : Calendar.validate Calendar.Greg.cal (-5) 2 28 = .ok () ∧ Calendar.validate (Calendar.Heb.cal true) 5782 13 29 = .ok () := by
  decide

end Pyoda.C12
