/-
  C14 — the tz database binary codec is lossless and canonical.

  `read_write_X : dom v → ∃ bs, writeX v = .ok bs ∧ readX (bs ++ rest) = .ok (v, rest)` — the reader returns
  the value written and leaves exactly the bytes that follow it (`rest` is arbitrary).
  `write_dom_raises_X`: outside the domain the writer raises `ValueError`.
  `milliseconds_form`, `transition_form`: which compact form is emitted (canonicity).
  The model is the writer as repaired by 376f97f (30 ms) and 5927b21 (hours form).
-/
import Mathlib.Tactic.Ring
import PyodaModel.Codec
import PyodaProofs.Basic
import PyodaProofs.C14Lemmas
import PyodaProofs.C14Transition
import PyodaProofs.C14Composite
import PyodaProofs.C14Zone
import PyodaProofs.C14Pool
import PyodaProofs.C14Canonical

namespace Pyoda.C14
open Pyoda Pyoda.Codec

/-! ## bytes, varints, counts -/

theorem read_write_byte (v : Int) (h : 0 ≤ v ∧ v ≤ 255) (rest : Bytes) :
    ∃ bs, writeByte v = .ok bs ∧ readByte (bs ++ rest) = .ok (v.toNat, rest) := by
  refine ⟨[v.toNat], ?_, rfl⟩
  simp [writeByte, h]

theorem write_dom_raises_byte (v : Int) (h : ¬ (0 ≤ v ∧ v ≤ 255)) : writeByte v = .error .valueError := by
  simp [writeByte, h]

/-- LEB128: any natural number, any continuation. -/
theorem read_write_varint (v : Nat) (rest : Bytes) : readVarint (writeVarint v ++ rest) = .ok (v, rest) := by
  have := readVarintAux_writeVarintAux (v.log2 + 1) v 0 0 rest (lt_pow128_log2 v)
  simpa [readVarint, writeVarint] using this

theorem read_write_count (n : Int) (h : 0 ≤ n ∧ n ≤ INT_MAX) (rest : Bytes) :
    ∃ bs, writeCount n = .ok bs ∧ readCount (bs ++ rest) = .ok (n, rest) :=
  readCount_writeCount n h rest

theorem write_dom_raises_count (n : Int) (h : ¬ (0 ≤ n ∧ n ≤ INT_MAX)) : writeCount n = .error .valueError := by
  unfold writeCount checkRange
  have : n < 0 ∨ n > INT_MAX := by omega
  simp only [this, if_true]
  rfl

/-- zig-zag: every 32-bit signed value. -/
theorem read_write_signedCount (c : Int) (h : INT_MIN ≤ c ∧ c ≤ INT_MAX) (rest : Bytes) :
    ∃ bs, writeSignedCount c = .ok bs ∧ readSignedCount (bs ++ rest) = .ok (c, rest) :=
  readSignedCount_writeSignedCount c h rest

/-- the canonical zig-zag code: `2c` for `c ≥ 0`, `-2c-1` for `c < 0` -/
theorem signedCount_form (c : Int) (h : INT_MIN ≤ c ∧ c ≤ INT_MAX) :
    writeSignedCount c = .ok (writeVarint (if 0 ≤ c then 2 * c else -2 * c - 1).toNat) := by
  unfold writeSignedCount
  rw [zigzag_eq c h]
  split <;> simp <;> omega

/-! ## fixed-width integers -/

theorem read_write_int64 (v : Int) (h : -9223372036854775808 ≤ v ∧ v < 9223372036854775808) (rest : Bytes) :
    readInt64 (writeInt64 v ++ rest) = .ok (v, rest) :=
  readInt64_writeInt64 v h rest

/-! ## milliseconds and offsets -/

/-- every millisecond value strictly within one day either side of zero (all 172 799 999 of them). -/
theorem read_write_milliseconds (v : Int) (h : -MsPD < v ∧ v < MsPD) (rest : Bytes) :
    ∃ bs, writeMilliseconds v = .ok bs ∧ readMilliseconds (bs ++ rest) = .ok (v, rest) :=
  readMilliseconds_writeMilliseconds v h rest

theorem write_dom_raises_milliseconds (v : Int) (h : ¬ (-MsPD < v ∧ v < MsPD)) :
    writeMilliseconds v = .error .valueError := by
  unfold writeMilliseconds checkRange
  have : v < -MsPD + 1 ∨ v > MsPD - 1 := by omega
  simp only [this, if_true]
  rfl

/-- canonicity: 1 byte iff 30 min ∣ v + day, else 2 bytes iff 1 min ∣ …, else 3 bytes iff 1 s ∣ …, else 4. -/
theorem milliseconds_form (v : Int) (h : -MsPD < v ∧ v < MsPD) :
    ∃ bs, writeMilliseconds v = .ok bs ∧
      bs.length = (if (v + MsPD) % 1800000 = 0 then 1 else if (v + MsPD) % 60000 = 0 then 2
                   else if (v + MsPD) % 1000 = 0 then 3 else 4) :=
  writeMilliseconds_length v h

theorem read_write_offset (o : Offset) (h : Offset.MIN_S ≤ o.seconds ∧ o.seconds ≤ Offset.MAX_S) (rest : Bytes) :
    ∃ bs, writeOffset o = .ok bs ∧ readOffset (bs ++ rest) = .ok (o, rest) :=
  readOffset_writeOffset o h rest

/-! ## strings -/

/-- inline strings: any valid UTF-8 byte string shorter than 2^31 bytes -/
theorem read_write_string_inline (s : Str) (hv : validUtf8 s = true) (hl : (s.length : Int) ≤ INT_MAX) (rest : Bytes) :
    ∃ bs, writeStringInline s = .ok bs ∧ readString none (bs ++ rest) = .ok (s, rest) :=
  readString_inline s hv hl rest

/-- pooled strings: whatever the writer's pool was, the string is read back through any pool that extends the
    writer's pool after the call (in particular the final pool of a writing session) -/
theorem read_write_string_pooled (pool : List Str) (s : Str) (final : List Str) (bs : Bytes) (pool' : List Str)
    (hw : writeStringPooled pool s = .ok (bs, pool')) (hp : pool' <+: final) (rest : Bytes) :
    readString (some final) (bs ++ rest) = .ok (s, rest) :=
  readString_pooled pool s final bs pool' hw hp rest

/-! ## zone interval transitions -/

/-- every transition in the writer's domain (sentinels or whole-tick instants, not earlier than `previous`)
    is read back exactly, relative to the same `previous` -/
theorem read_write_transition (prev : Option Instant) (v : Instant) (hd : TransDom prev v) (rest : Bytes) :
    ∃ bs, writeTransition prev v = .ok bs ∧ readTransition prev (bs ++ rest) = .ok (v, rest) :=
  readTransition_writeTransition prev v hd rest

/-- canonicity: the form chosen is the documented one, stated in integer arithmetic on tick counts
    (`expectedForm`: marker, else hours since previous in [2^7, 2^21), else minutes since 1800 in (2^21, 2^31),
    else raw ticks), and the bytes are the varint of the payload (or marker 2 and eight big-endian bytes) -/
theorem transition_form (prev : Option Instant) (v : Instant) (hd : TransDom prev v) :
    transitionForm prev v = .ok (expectedForm prev v) ∧
    writeTransition prev v = .ok (formBytes (expectedForm prev v)) :=
  ⟨transitionForm_eq prev v hd, writeTransition_eq prev v hd⟩

/-- `value < previous` is rejected -/
theorem write_dom_raises_transition (p v : Instant) (h : Duration.ge v.dur p.dur = false) :
    writeTransition (some p) v = .error .valueError := by
  unfold writeTransition checkForward
  simp only [h]
  rfl

/-- known finding (DESIGN §7 row 20): an instant that is not a whole number of ticks is accepted and written
    as the instant truncated to its tick, so it does not read back as itself -/
theorem transition_subtick_truncates (v : Instant) (hn : C03.Norm v.dur) (hv : C03.IValid v) (rest : Bytes) :
    ∃ bs, writeTransition none v = .ok bs ∧ readTransition none (bs ++ rest) = .ok (truncTick v, rest) ∧
      (v.dur.nod % 100 ≠ 0 → truncTick v ≠ v) := by
  have ha := truncTick_aligned v hn hv
  obtain ⟨bs, h1, h2⟩ := readTransition_writeTransition none (truncTick v) ⟨Or.inr (Or.inr ha), trivial⟩ rest
  refine ⟨bs, by rw [writeTransition_none_trunc v hn hv]; exact h1, h2, ?_⟩
  intro hne heq
  have : (truncTick v).dur.nod = v.dur.nod := by rw [heq]
  simp only [truncTick] at this
  omega

/-! ## composite values (strings inline) -/

/-- every year offset `_ZoneYearOffset._ctor` accepts whose time of day is a whole number of milliseconds -/
theorem read_write_yearOffset (y : ZoneYearOffset) (h : YearOffsetDom y) (rest : Bytes) :
    ∃ bs, writeYearOffset y = .ok bs ∧ readYearOffset (bs ++ rest) = .ok (y, rest) :=
  readYearOffset_writeYearOffset y h rest

theorem read_write_alternatingMap (m : AlternatingMap) (h : MapDom m) (rest : Bytes) :
    ∃ bs, writeAlternatingMap none m = .ok (bs, none) ∧ readAlternatingMap none (bs ++ rest) = .ok (m, rest) :=
  readAlternatingMap_writeAlternatingMap m h rest

theorem read_write_recurrence (z : ZoneRecurrence) (h : RecurrenceDom z) (rest : Bytes) :
    ∃ bs, writeRecurrence none z = .ok (bs, none) ∧ readRecurrence none (bs ++ rest) = .ok (z, rest) :=
  readRecurrence_writeRecurrence z h rest

/-- a whole precalculated zone (any number of adjoining periods, optional tail map, strings inline): the decoder
    returns the zone that was written and consumes exactly its bytes -/
theorem read_write_precalculatedZone (z : PrecalculatedZone) (h : ZoneDom z) (rest : Bytes) :
    ∃ bs, writePrecalculated none z = .ok (bs, none) ∧ readPrecalculatedData none z.id (bs ++ rest) = .ok (z, rest) :=
  readPrecalculated_writePrecalculated z h rest

/-! ## with a string pool (`pool = none` is the inline case; `some p` needs every string to be a member of `p`) -/

theorem read_write_dictionary (pool : Pool) (d : List (Str × Str)) (h : DictDom pool d) (rest : Bytes) :
    ∃ bs, writeDictionary pool d = .ok (bs, pool) ∧ readDictionary pool (bs ++ rest) = .ok (d, rest) :=
  readDictionary_writeDictionary pool d h rest

theorem read_write_alternatingMap_pool (pool : Pool) (m : AlternatingMap) (h : MapDomP pool m) (rest : Bytes) :
    ∃ bs, writeAlternatingMap pool m = .ok (bs, pool) ∧ readAlternatingMap pool (bs ++ rest) = .ok (m, rest) :=
  readAlternatingMap_writeAlternatingMap_pool pool m h rest

theorem read_write_recurrence_pool (pool : Pool) (z : ZoneRecurrence) (h : RecurrenceDomP pool z) (rest : Bytes) :
    ∃ bs, writeRecurrence pool z = .ok (bs, pool) ∧ readRecurrence pool (bs ++ rest) = .ok (z, rest) :=
  readRecurrence_writeRecurrence_pool pool z h rest

theorem read_write_precalculatedZone_pool (pool : Pool) (z : PrecalculatedZone) (h : ZoneDomP pool z) (rest : Bytes) :
    ∃ bs, writePrecalculated pool z = .ok (bs, pool) ∧ readPrecalculatedData pool z.id (bs ++ rest) = .ok (z, rest) :=
  readPrecalculated_writePrecalculated_pool pool z h rest

/-- fixed zones: the long form (offset, name) and the short form (offset only, the name is the id) -/
theorem read_write_fixedZone (pool : Pool) (z : FixedZone) (ho : OffsetDom z.offset) (hn : StrOk pool z.name) (rest : Bytes) :
    (∃ bs, writeFixed pool z = .ok (bs, pool) ∧ readFixed pool z.id (bs ++ rest) = .ok (z, rest)) ∧
    (∃ bs, writeOffset z.offset = .ok bs ∧ readFixed pool z.id bs = .ok (⟨z.id, z.offset, z.id⟩, [])) :=
  ⟨readFixed_writeFixed pool z ho hn rest, readFixed_offset_only pool z.id z.offset ho⟩

/-! ## canonical bytes: decode, then encode, reproduces them

  `Canonical pool id bs` = the strict decoder (`readPrecalculatedDataS`: decodes like the reader and insists, for every
  primitive, that the primitive writer emits exactly the bytes consumed — i.e. the forms of `milliseconds_form`,
  `transition_form`, `signedCount_form`, minimal varints, first pool index) accepts `bs` to the last byte.
  The harness evaluates the same check (`canonicalZoneField`) on every zone field of both real files. -/

theorem write_read_canonical (pool : Pool) (id : Str) (bs : Bytes) (z : PrecalculatedZone)
    (hc : Canonical pool id bs) (hr : readPrecalculatedData pool id bs = .ok (z, [])) :
    writePrecalculated pool z = .ok (bs, pool) :=
  write_read_canonical_aux pool id bs z hc hr

/-- a strict decode is a decode, and the writer reproduces exactly the bytes it consumed (any continuation) -/
theorem canonical_decode_reencode (pool : Pool) (id : Str) (bs : Bytes) (z : PrecalculatedZone) (r : Bytes)
    (h : readPrecalculatedDataS pool id bs = .ok (z, r)) :
    readPrecalculatedData pool id bs = .ok (z, r) ∧ ∃ c, writePrecalculated pool z = .ok (c, pool) ∧ bs = c ++ r :=
  readPrecalculatedDataS_ok pool id bs z r h

theorem canonical_check_sound (pool : Pool) (field : Bytes) (h : canonicalZoneField pool field = .ok (some true)) :
    ∃ id r, readString pool field = .ok (id, 2 :: r) ∧ Canonical pool id r :=
  canonicalZoneField_sound pool field h

example : DictDom (some [[65], [], [66]]) [([65], [66]), ([], [65])] := by
  refine ⟨by decide, by decide, ?_⟩
  intro e he
  simp only [List.mem_cons, List.mem_nil_iff, or_false] at he
  rcases he with rfl | rfl <;> exact ⟨⟨by decide, by decide⟩, ⟨by decide, by decide⟩⟩

example : ZoneDom ⟨[85, 84, 67], [⟨[85, 84, 67], Instant.beforeMin, Instant.afterMax, ⟨0⟩, ⟨0⟩⟩], none⟩ := by
  refine ⟨by decide, ⟨_, _, rfl, ?_, Or.inl rfl, trivial⟩, trivial⟩
  exact ⟨rfl, ⟨by decide, by decide⟩, ⟨by decide, by decide⟩, ⟨by decide, by decide⟩,
    ⟨Or.inr (Or.inl rfl), Or.inl rfl, by decide⟩, by decide⟩

example : YearOffsetDom ⟨.wall, 3, -1, 7, false, 7200000000000, false⟩ := by
  refine ⟨by decide, Or.inr (by decide), by decide, by decide, by decide, by decide⟩

example : TransDom (some ⟨⟨0, 0⟩⟩) ⟨⟨5, 28800000000000⟩⟩ :=
  ⟨Or.inr (Or.inr ⟨⟨by decide, by decide⟩, ⟨by decide, by decide⟩, by decide⟩),
   Or.inr (Or.inr ⟨⟨by decide, by decide⟩, ⟨by decide, by decide⟩, by decide⟩), by decide⟩

end Pyoda.C14
