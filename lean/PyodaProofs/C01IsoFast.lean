/-
  The two 1900–2100 table paths of the ISO calendar agree with the general path:
  `_GregorianYearMonthDayCalculator._get_days_since_epoch` (month-start table) and
  `_get_gregorian_year_month_day_calendar_from_days_since_epoch` (year-start table + one correction step), and the
  overridden validator (`1 ≤ day ≤ 20` shortcut) means the same as the generic one.
-/
import PyodaModel.Calendar
import PyodaProofs.Basic
import PyodaProofs.C01Lemmas
import PyodaProofs.C01Instances
import PyodaProofs.C01

namespace Pyoda.C01
open Pyoda Pyoda.Calendar

theorem gj_monthStart_tbl : ∀ m : Nat, m < 13 → 1 ≤ m →
    (sumFrom (GJ.dim true) (m - 1) 1 = GJ.totalDays true m ∧ sumFrom (GJ.dim false) (m - 1) 1 = GJ.totalDays false m) := by
  decide +kernel

/-- month-start table path = general path, for every month 1 … 12 -/
theorem greg_daysOfYmdFast_eq (y m d : Int) (h1 : 1 ≤ m) (h2 : m ≤ 12) :
    Greg.daysOfYmdFast y m d = daysOfYmdRaw Greg.cal y m d := by
  unfold Greg.daysOfYmdFast
  by_cases hr : y < 1900 ∨ y > 2100
  · rw [if_pos hr]
  · rw [if_neg hr, daysOfYmdRaw_eq greg_wf (by show (-9998 : Int) ≤ y; omega) (by show y ≤ (9999 : Int); omega)]
    unfold Greg.monthStartDay
    show Except.ok (Greg.start y - 1 + sumFrom (fun k => GJ.dim (Greg.isLeap y) k) (m - 1).toNat 1 + d) =
      Except.ok (Greg.start y + GJ.totalDays (Greg.isLeap y) m + d - 1)
    obtain ⟨n, rfl⟩ := natOf (x := m) (by omega)
    have tb := gj_monthStart_tbl n (by omega) (by omega)
    have e : ((n : Int) - 1).toNat = n - 1 := by omega
    rw [e]
    cases Greg.isLeap y
    · rw [tb.2]; congr 1; omega
    · rw [tb.1]; congr 1; omega

theorem greg_fastSom_tbl : ∀ z : Nat, z < 366 →
    ((Int.tdiv (Greg.fastSom true z) 29 + 1, (z : Int) - Greg.fastSom true z) = GJ.split true ((z : Int) + 1) ∧
     (z < 365 → (Int.tdiv (Greg.fastSom false z) 29 + 1, (z : Int) - Greg.fastSom false z) = GJ.split false ((z : Int) + 1))) := by
  decide +kernel

theorem greg_fastSplit (L : Bool) (z : Int) (h0 : 0 ≤ z) (h1 : z < (if L then 366 else 365)) :
    (Int.tdiv (Greg.fastSom L z) 29 + 1, z - Greg.fastSom L z) = GJ.split L (z + 1) := by
  obtain ⟨n, rfl⟩ := natOf (x := z) h0
  cases L
  · simp only [Bool.false_eq_true, if_false] at h1
    exact (greg_fastSom_tbl n (by omega)).2 (by omega)
  · simp only [if_true] at h1
    exact (greg_fastSom_tbl n (by omega)).1

/-- year-start table path = general path on its whole range -/
theorem greg_ymdOfDaysFast_eq (d : Int) : Greg.ymdOfDaysFast d = fromDays Greg.cal d := by
  unfold Greg.ymdOfDaysFast
  by_cases hr : d < -25567 ∨ d > 47846
  · rw [if_pos hr]
  · rw [if_neg hr]
    simp only []
    have htd : Int.tdiv (d + 25567) 366 = (d + 25567) / 366 := Int.tdiv_eq_ediv_of_nonneg (by omega)
    rw [htd]
    generalize hyi : (d + 25567) / 366 = yi
    have hyi0 : 0 ≤ yi := by omega
    have hyi1 : yi ≤ 200 := by omega
    have hq : 366 * yi ≤ d + 25567 ∧ d + 25567 < 366 * yi + 366 := by omega
    have c0 := greg_start_closed (yi + 1900)
    have r0 := greg_recur (yi + 1900)
    have r1 := greg_recur (yi + 1900 + 1)
    have l0 : Greg.len (yi + 1900) = 365 ∨ Greg.len (yi + 1900) = 366 := by unfold Greg.len; split <;> simp
    have l1 : Greg.len (yi + 1900 + 1) = 365 ∨ Greg.len (yi + 1900 + 1) = 366 := by unfold Greg.len; split <;> simp
    -- exact position of the base year: only the closed form at `1900 + yi` is needed (the divisions by 100 and 400
    -- take three and two values on this range)
    have hbase : -25567 + 365 * yi ≤ Greg.start (yi + 1900) ∧ Greg.start (yi + 1900) ≤ -25567 + 366 * yi := by
      rw [c0]; omega
    clear c0
    have hlo : Greg.start (yi + 1900) ≤ d := by omega
    have hhi : d < Greg.start (yi + 1900 + 1 + 1) := by omega
    by_cases hge : d - Greg.start (yi + 1900) ≥ Greg.len (yi + 1900)
    · rw [if_pos hge, if_pos hge]
      have hs : Greg.cal.start (yi + 1900 + 1) ≤ d := by show Greg.start _ ≤ d; omega
      have he : d < Greg.cal.start (yi + 1900 + 1 + 1) := hhi
      rw [fromDays_in_year greg_wf d (yi + 1900 + 1) (by show (-9998 : Int) ≤ _; omega) (by show _ ≤ (9999 : Int); omega) hs he]
      have hz : d - Greg.start (yi + 1900) - Greg.len (yi + 1900) = d - Greg.start (yi + 1900 + 1) := by omega
      rw [hz]
      have hsp := greg_fastSplit (Greg.isLeap (yi + 1900 + 1)) (d - Greg.start (yi + 1900 + 1)) (by omega) (by
        have : Greg.len (yi + 1900 + 1) = (if Greg.isLeap (yi + 1900 + 1) then 366 else 365) := rfl
        rw [← this]; omega)
      show Except.ok (yi + 1900 + 1, _, _) = Except.ok (yi + 1900 + 1, (GJ.split _ _).1, (GJ.split _ _).2)
      have e : d - Greg.cal.start (yi + 1900 + 1) + 1 = d - Greg.start (yi + 1900 + 1) + 1 := rfl
      rw [e, ← hsp]
    · rw [if_neg hge, if_neg hge]
      have hs : Greg.cal.start (yi + 1900) ≤ d := hlo
      have he : d < Greg.cal.start (yi + 1900 + 1) := by show d < Greg.start _; omega
      rw [fromDays_in_year greg_wf d (yi + 1900) (by show (-9998 : Int) ≤ _; omega) (by show _ ≤ (9999 : Int); omega) hs he]
      have hsp := greg_fastSplit (Greg.isLeap (yi + 1900)) (d - Greg.start (yi + 1900)) (by omega) (by
        have : Greg.len (yi + 1900) = (if Greg.isLeap (yi + 1900) then 366 else 365) := rfl
        rw [← this]; omega)
      show Except.ok (yi + 1900, _, _) = Except.ok (yi + 1900, (GJ.split _ _).1, (GJ.split _ _).2)
      have e : d - Greg.cal.start (yi + 1900) + 1 = d - Greg.start (yi + 1900) + 1 := rfl
      rw [e, ← hsp]

theorem gj_dimTables : ∀ m : Nat, m < 13 → 1 ≤ m →
    (tableAt [0, 31, 29, 31, 30, 31, 30, 31, 31, 30, 31, 30, 31] m = GJ.dim true m ∧
     tableAt [0, 31, 28, 31, 30, 31, 30, 31, 31, 30, 31, 30, 31] m = GJ.dim false m ∧
     (m ≠ 2 → GJ.dim true m = GJ.dim false m) ∧ 28 ≤ GJ.dim false m ∧ 28 ≤ GJ.dim true m) := by decide +kernel

/-- the overridden Gregorian validator accepts and rejects exactly what the generic one does -/
theorem greg_validate_eq (y m d : Int) : Greg.validate y m d = validate Greg.cal y m d := by
  unfold Greg.validate validate
  show _ = (do checkRange y (-9998) 9999; checkRange m 1 12; checkRange d 1 (GJ.dim (Greg.isLeap y) m))
  by_cases hbad : y < -9998 ∨ y > 9999 ∨ m < 1 ∨ m > 12
  · rw [if_pos hbad]
    by_cases hy : y < -9998 ∨ y > 9999
    · rw [checkRange_err hy]; rfl
    · rw [checkRange_ok (show (-9998 : Int) ≤ y by omega) (show y ≤ (9999 : Int) by omega)]
      have hm : m < 1 ∨ m > 12 := by omega
      show (do checkRange m 1 12; (Except.error PyExc.valueError : R Unit)) =
        (do checkRange m 1 12; checkRange d 1 (GJ.dim (Greg.isLeap y) m))
      rw [checkRange_err hm]; rfl
  · rw [if_neg hbad, checkRange_ok (show (-9998 : Int) ≤ y by omega) (show y ≤ (9999 : Int) by omega)]
    show _ = (do checkRange m 1 12; checkRange d 1 (GJ.dim (Greg.isLeap y) m))
    rw [checkRange_ok (show (1 : Int) ≤ m by omega) (show m ≤ (12 : Int) by omega)]
    show _ = checkRange d 1 (GJ.dim (Greg.isLeap y) m)
    obtain ⟨n, rfl⟩ := natOf (x := m) (by omega)
    have tb := gj_dimTables n (by omega) (by omega)
    have hdim : (if (n : Int) = 2 ∧ Greg.isLeap y = true then tableAt [0, 31, 29, 31, 30, 31, 30, 31, 31, 30, 31, 30, 31] n
        else tableAt [0, 31, 28, 31, 30, 31, 30, 31, 31, 30, 31, 30, 31] n) = GJ.dim (Greg.isLeap y) n := by
      cases hl : Greg.isLeap y
      · simp only [Bool.false_eq_true, and_false, if_false]; exact tb.2.1
      · by_cases h2 : (n : Int) = 2
        · rw [if_pos ⟨h2, rfl⟩]; exact tb.1
        · rw [if_neg (by intro h; exact h2 h.1), tb.2.1]; exact (tb.2.2.1 (by omega)).symm
    have h28 : 28 ≤ GJ.dim (Greg.isLeap y) n := by
      cases Greg.isLeap y
      · exact tb.2.2.2.1
      · exact tb.2.2.2.2
    by_cases h20 : 1 ≤ d ∧ d ≤ 20
    · rw [if_pos h20, checkRange_ok h20.1 (by omega)]
    · rw [if_neg h20]
      simp only [hdim]
      by_cases hout : d < 1 ∨ d > GJ.dim (Greg.isLeap y) n
      · rw [if_pos hout]
      · rw [if_neg hout, checkRange_ok (by omega) (by omega)]

end Pyoda.C01
