/- Helper lemmas about the numeric text primitives (shared by C07, C08, C17). No property statements here. -/
import PyodaModel.Text
import PyodaProofs.Basic

namespace Pyoda.Text

/-! ### digit characters -/

theorem digit_facts : ∀ k, k < 10 →
    isDigit (Char.ofNat (48 + k)) = true ∧ digitVal (Char.ofNat (48 + k)) = k := by decide

theorem isDigit_digitChar (d : Nat) : isDigit (digitChar d) = true := by
  unfold digitChar; exact (digit_facts (d % 10) (Nat.mod_lt _ (by decide))).1

theorem digitVal_digitChar (d : Nat) : digitVal (digitChar d) = d % 10 := by
  unfold digitChar; exact (digit_facts (d % 10) (Nat.mod_lt _ (by decide))).2

/-- text does not start with a decimal digit (or is empty) -/
def NoDigitHead (l : Text) : Prop := ∀ c, l.head? = some c → isDigit c = false

theorem noDigitHead_nil : NoDigitHead [] := by intro c h; simp at h

theorem noDigitHead_cons {c : Char} {l : Text} (h : isDigit c = false) : NoDigitHead (c :: l) := by
  intro d hd; simp at hd; subst hd; exact h

/-! ### padN -/

theorem length_digitsLE (n v : Nat) : (digitsLE n v).length = n := by
  induction n generalizing v with
  | zero => simp [digitsLE]
  | succ n ih => simp [digitsLE, ih]

theorem length_padN (n v : Nat) : (padN n v).length = n := by
  simp [padN, length_digitsLE]

theorem digitsLE_isDigit (n v : Nat) : ∀ c ∈ digitsLE n v, isDigit c = true := by
  induction n generalizing v with
  | zero => intro c h; simp [digitsLE] at h
  | succ n ih =>
    intro c h
    simp only [digitsLE, List.mem_cons] at h
    rcases h with h | h
    · subst h; exact isDigit_digitChar _
    · exact ih _ c h

theorem padN_isDigit (n v : Nat) : ∀ c ∈ padN n v, isDigit c = true := by
  intro c h; simp only [padN, List.mem_reverse] at h; exact digitsLE_isDigit n v c h

theorem padN_succ (n v : Nat) : padN (n + 1) v = padN n (v / 10) ++ [digitChar (v % 10)] := by
  simp [padN, digitsLE]

theorem padN_zero (v : Nat) : padN 0 v = [] := by simp [padN, digitsLE]

/-- value of a digit string -/
def digitsValue (acc : Nat) (ds : Text) : Nat := ds.foldl (fun a c => a * 10 + digitVal c) acc

theorem digitsValue_padN (n : Nat) : ∀ v acc, v < 10 ^ n → digitsValue acc (padN n v) = acc * 10 ^ n + v := by
  induction n with
  | zero => intro v acc h; simp at h; simp [padN_zero, digitsValue, h]
  | succ n ih =>
    intro v acc h
    have hq : v / 10 < 10 ^ n := by
      have : 10 ^ (n + 1) = 10 * 10 ^ n := by rw [Nat.pow_succ]; omega
      rw [this] at h; exact Nat.div_lt_of_lt_mul h
    have h1 := ih (v / 10) acc hq
    unfold digitsValue at h1 ⊢
    rw [padN_succ, List.foldl_append, h1]
    simp only [List.foldl_cons, List.foldl_nil, digitVal_digitChar]
    have e : 10 ^ (n + 1) = 10 ^ n * 10 := by rw [Nat.pow_succ]
    rw [e, Nat.add_mul, Nat.mul_assoc]
    have := Nat.div_add_mod v 10
    have hm : v % 10 % 10 = v % 10 := Nat.mod_mod _ _
    omega

/-! ### scanning -/

theorem scanDigits_append (ds : Text) (hd : ∀ c ∈ ds, isDigit c = true) :
    ∀ (m acc cnt : Nat) (rest : Text), ds.length ≤ m →
      scanDigits m acc cnt (ds ++ rest) =
        scanDigits (m - ds.length) (digitsValue acc ds) (cnt + ds.length) rest := by
  induction ds with
  | nil => intro m acc cnt rest _; simp [digitsValue]
  | cons d ds ih =>
    intro m acc cnt rest hm
    have hdd : isDigit d = true := hd d (by simp)
    have hds : ∀ x ∈ ds, isDigit x = true := fun x hx => hd x (by simp [hx])
    cases m with
    | zero => simp at hm
    | succ m =>
      have hm' : ds.length ≤ m := by simpa using hm
      simp only [List.cons_append, scanDigits, hdd, if_true]
      rw [ih hds m _ _ rest hm']
      have e1 : m + 1 - (d :: ds).length = m - ds.length := by simp
      have e2 : cnt + 1 + ds.length = cnt + (d :: ds).length := by simp; omega
      rw [e1, e2]
      simp [digitsValue]

theorem scanDigits_stop (m acc cnt : Nat) (rest : Text) (h : m = 0 ∨ NoDigitHead rest) :
    scanDigits m acc cnt rest = (acc, cnt, rest) := by
  cases m with
  | zero => simp [scanDigits]
  | succ m =>
    rcases h with h | h
    · omega
    · cases rest with
      | nil => simp [scanDigits]
      | cons c l =>
        have : isDigit c = false := h c (by simp)
        simp [scanDigits, this]

/-- a fixed-width field followed by a non-digit (or filling the maximum width) is read back exactly -/
theorem scanDigits_padN (n v max : Nat) (rest : Text) (hv : v < 10 ^ n) (hmax : n ≤ max)
    (hrest : n = max ∨ NoDigitHead rest) :
    scanDigits max 0 0 (padN n v ++ rest) = (v, n, rest) := by
  rw [scanDigits_append (padN n v) (padN_isDigit n v) max 0 0 rest (by rw [length_padN]; exact hmax)]
  rw [digitsValue_padN n v 0 hv, length_padN]
  rw [scanDigits_stop]
  · simp
  · rcases hrest with h | h
    · left; omega
    · right; exact h

/-! ### number of digits -/

theorem numDigitsAux_pos (f n : Nat) : 1 ≤ numDigitsAux f n := by
  cases f with
  | zero => simp [numDigitsAux]
  | succ f => simp only [numDigitsAux]; split <;> omega

theorem numDigitsAux_le (f : Nat) : ∀ n k, 1 ≤ k → n < 10 ^ k → numDigitsAux f n ≤ k := by
  induction f with
  | zero => intro n k hk _; simp [numDigitsAux]; exact hk
  | succ f ih =>
    intro n k hk h
    simp only [numDigitsAux]
    split
    · exact hk
    · rename_i h10
      cases k with
      | zero => omega
      | succ k =>
        cases k with
        | zero => simp at h; omega
        | succ k =>
          have hq : n / 10 < 10 ^ (k + 1) := by
            have : 10 ^ (k + 1 + 1) = 10 * 10 ^ (k + 1) := by rw [Nat.pow_succ]; omega
            rw [this] at h; exact Nat.div_lt_of_lt_mul h
          have := ih (n / 10) (k + 1) (by omega) hq
          omega

theorem numDigitsAux_spec (f : Nat) : ∀ n, n ≤ f → n < 10 ^ numDigitsAux f n := by
  induction f with
  | zero => intro n h; have : n = 0 := by omega
            subst this; simp [numDigitsAux]
  | succ f ih =>
    intro n h
    simp only [numDigitsAux]
    split
    · simpa using ‹n < 10›
    · rename_i h10
      have hq : n / 10 ≤ f := by omega
      have := ih (n / 10) hq
      rw [Nat.pow_succ]
      have := Nat.div_add_mod n 10
      have : n % 10 < 10 := Nat.mod_lt _ (by decide)
      omega

theorem lt_pow_numDigits (n : Nat) : n < 10 ^ numDigits n := numDigitsAux_spec n n (Nat.le_refl _)

theorem numDigits_le (n k : Nat) (hk : 1 ≤ k) (h : n < 10 ^ k) : numDigits n ≤ k :=
  numDigitsAux_le n n k hk h

theorem leftPadNonNeg_eq_padN (v len : Nat) (hl : 1 ≤ len) (h : v < 10 ^ len) :
    leftPadNonNeg v len = padN len v := by
  unfold leftPadNonNeg
  have := numDigits_le v len hl h
  rw [Nat.max_eq_left this]

/-- `leftPadNonNeg` always writes all digits of the value: it is `padN w v` for a width that holds `v` -/
theorem leftPadNonNeg_spec (v len : Nat) :
    ∃ w, len ≤ w ∧ v < 10 ^ w ∧ leftPadNonNeg v len = padN w v ∧ (w = len ∨ w = numDigits v) := by
  refine ⟨max len (numDigits v), Nat.le_max_left _ _, ?_, rfl, ?_⟩
  · have h1 := lt_pow_numDigits v
    have h2 : 10 ^ numDigits v ≤ 10 ^ max len (numDigits v) :=
      Nat.pow_le_pow_right (by decide) (Nat.le_max_right _ _)
    omega
  · rcases Nat.le_total len (numDigits v) with h | h
    · right; exact Nat.max_eq_right h
    · left; exact Nat.max_eq_left h

/-! ### fractions -/

theorem iterTdiv10_nat (k n : Nat) : iterTdiv10 k (n : Int) = ((n / 10 ^ k : Nat) : Int) := by
  induction k generalizing n with
  | zero => simp [iterTdiv10]
  | succ k ih =>
    simp only [iterTdiv10]
    have : Int.tdiv (n : Int) 10 = ((n / 10 : Nat) : Int) := by
      rw [Int.tdiv_eq_ediv_of_nonneg (by omega)]; omega
    rw [this, ih, Nat.div_div_eq_div_mul, Nat.pow_succ, Nat.mul_comm]

theorem csharpMod_nat10 (r : Nat) : csharpMod (r : Int) 10 = ((r % 10 : Nat) : Int) := by
  rw [csharpMod_pos _ _ (by decide)]
  have : ¬ ((r : Int) < 0 ∧ 0 < (r : Int) % 10) := by omega
  simp only [this, if_false]; omega

theorem tdiv_nat10 (r : Nat) : Int.tdiv (r : Int) 10 = ((r / 10 : Nat) : Int) := by
  rw [Int.tdiv_eq_ediv_of_nonneg (by omega)]; omega

/-- what the trailing-zero loop returns on a non-negative value -/
theorem stripZeros_spec (n : Nat) : ∀ r : Nat, ∃ (r' k : Nat),
    stripZeros n (r : Int) = ((r' : Int), k) ∧ k ≤ n ∧ r = r' * 10 ^ (n - k) ∧
    (0 < k → r' % 10 ≠ 0) := by
  induction n with
  | zero => intro r; exact ⟨r, 0, by simp [stripZeros], Nat.le_refl _, by simp, by omega⟩
  | succ n ih =>
    intro r
    unfold stripZeros
    rw [csharpMod_nat10, tdiv_nat10]
    by_cases h : r % 10 = 0
    · have h' : ¬ (((r % 10 : Nat) : Int) ≠ 0) := by omega
      rw [if_neg h']
      obtain ⟨r', k, e, hk, hr, hz⟩ := ih (r / 10)
      refine ⟨r', k, e, by omega, ?_, hz⟩
      have e1 : n + 1 - k = (n - k) + 1 := by omega
      rw [e1, Nat.pow_succ, ← Nat.mul_assoc, ← hr]
      have := Nat.div_add_mod r 10
      omega
    · have h' : (((r % 10 : Nat) : Int) ≠ 0) := by omega
      rw [if_pos h']
      exact ⟨r, n + 1, rfl, Nat.le_refl _, by simp, fun _ => h⟩

theorem padSigned_nat (r n : Nat) : padSigned (r : Int) n = leftPadNonNeg r n := by
  unfold padSigned
  have : (r : Int) ≥ 0 := by omega
  simp [this]

theorem digitChar_ne_zero (d : Nat) (h : d % 10 ≠ 0) : digitChar d ≠ '0' := by
  unfold digitChar
  have hlt : d % 10 < 10 := Nat.mod_lt _ (by decide)
  have key : ∀ k, k < 10 → k ≠ 0 → Char.ofNat (48 + k) ≠ '0' := by decide
  exact key _ hlt h

theorem getLast?_padN_succ (n v : Nat) : (padN (n + 1) v).getLast? = some (digitChar (v % 10)) := by
  rw [padN_succ]; simp

/-- `_append_fraction` writes the leading `len` digits of a `scale`-digit fraction -/
theorem appendFraction_eq (v len scale : Nat) (h1 : 1 ≤ len) (h2 : len ≤ scale) (hv : v < 10 ^ scale) :
    appendFraction (v : Int) len scale = padN len (v / 10 ^ (scale - len)) := by
  unfold appendFraction
  rw [iterTdiv10_nat, padSigned_nat]
  apply leftPadNonNeg_eq_padN _ _ h1
  have e : 10 ^ scale = 10 ^ (scale - len) * 10 ^ len := by
    rw [← Nat.pow_add]; congr 1; omega
  rw [e] at hv
  exact Nat.div_lt_of_lt_mul hv

/-- `_append_fraction_truncate`: either nothing is written (and a trailing `.` of the buffer is removed), or
    the fraction's leading digits up to its last non-zero digit are appended. -/
theorem appendFractionTruncate_spec (v len scale r : Nat) (buf : Text) (h2 : len ≤ scale) (hv : v < 10 ^ scale)
    (hrdef : r = v / 10 ^ (scale - len)) :
    (r = 0 ∧ appendFractionTruncate (v : Int) len scale buf =
        (if buf.getLast? = some '.' then buf.dropLast else buf)) ∨
    (∃ r' k, 1 ≤ k ∧ k ≤ len ∧ r = r' * 10 ^ (len - k) ∧ r' % 10 ≠ 0 ∧ r' < 10 ^ k ∧
        appendFractionTruncate (v : Int) len scale buf = buf ++ padN k r') := by
  have hr : r < 10 ^ len := by
    have e : 10 ^ scale = 10 ^ (scale - len) * 10 ^ len := by
      rw [← Nat.pow_add]; congr 1; omega
    rw [e] at hv
    rw [hrdef]
    exact Nat.div_lt_of_lt_mul hv
  unfold appendFractionTruncate
  rw [iterTdiv10_nat, ← hrdef]
  obtain ⟨r', k, e, hk, hrr, hz⟩ := stripZeros_spec len r
  rw [e]
  by_cases hk0 : k = 0
  · left
    subst hk0
    have hr0 : r' = 0 := by
      have : r = r' * 10 ^ len := by simpa using hrr
      have hp : 0 < 10 ^ len := Nat.pow_pos (by decide)
      rcases Nat.eq_zero_or_pos r' with h | h
      · exact h
      · have : 10 ^ len ≤ r' * 10 ^ len := Nat.le_mul_of_pos_left _ h
        omega
    refine ⟨by rw [hrr, hr0]; simp, ?_⟩
    simp
  · right
    have hkpos : 0 < k := by omega
    have hlt : r' < 10 ^ k := by
      have hp : 0 < 10 ^ (len - k) := Nat.pow_pos (by decide)
      have e2 : 10 ^ len = 10 ^ k * 10 ^ (len - k) := by rw [← Nat.pow_add]; congr 1; omega
      rw [hrr, e2] at hr
      exact Nat.lt_of_mul_lt_mul_right hr
    refine ⟨r', k, hkpos, hk, hrr, hz hkpos, hlt, ?_⟩
    show (if k > 0 then buf ++ padSigned (r' : Int) k else _) = _
    rw [if_pos hkpos, padSigned_nat, leftPadNonNeg_eq_padN _ _ hkpos hlt]

end Pyoda.Text
