/-
  C08 — parsing never raises; a success carries a valid value.
  Theorems over the modelled parsers (PyodaModel/Text): for EVERY input text each parser returns a success or a
  failure result, never an exception (`.error`), and a success carries a value inside the range of its type.
  The parsers model the repaired code (year range check in the ISO date fast path, offset range check before
  `Offset.from_seconds`, `OverflowError` of the 24:00 roll-over mapped to a failure, end of text by position);
  the `guard_needed_*` facts show that each raising constructor does raise right outside the guard.
-/
import PyodaProofs.TextIsoLemmas

namespace Pyoda.C08
open Pyoda Pyoda.Text

/-! ## scanning primitives: value bounds -/

theorem scanDigits_bound : ∀ (m acc cnt : Nat) (l : Text), acc < 10 ^ cnt →
    (scanDigits m acc cnt l).1 < 10 ^ (scanDigits m acc cnt l).2.1 ∧ (scanDigits m acc cnt l).2.1 ≤ cnt + m := by
  intro m
  induction m with
  | zero => intro acc cnt l h; simp [scanDigits, h]
  | succ m ih =>
    intro acc cnt l h
    cases l with
    | nil => simp [scanDigits, h]
    | cons c l =>
      simp only [scanDigits]
      by_cases hc : isDigit c = true
      · simp only [hc, if_true]
        have hd : digitVal c < 10 := by
          unfold isDigit at hc; unfold digitVal
          simp only [Bool.and_eq_true, decide_eq_true_eq] at hc; omega
        have : acc * 10 + digitVal c < 10 ^ (cnt + 1) := by rw [Nat.pow_succ]; omega
        have := ih (acc * 10 + digitVal c) (cnt + 1) l this
        omega
      · simp only [hc]
        simp [h]

/-- `_parse_digits` is total and its value has at most `max` digits -/
theorem parseDigits_total (min max : Nat) (l : Text) :
    parseDigits min max l = none ∨ ∃ v rest, parseDigits min max l = some (v, rest) ∧ v < 10 ^ max := by
  unfold parseDigits
  dsimp only
  have hb := scanDigits_bound max 0 0 l (by simp)
  split
  · left; rfl
  · right
    refine ⟨_, _, rfl, ?_⟩
    have : 10 ^ (scanDigits max 0 0 l).2.1 ≤ 10 ^ max := Nat.pow_le_pow_right (by decide) (by omega)
    omega

/-- `_parse_fraction` is total and its value is below `10^scale` -/
theorem parseFraction_total (max scale min : Nat) (l : Text) (hms : max ≤ scale) :
    parseFraction max scale min l = none ∨
      ∃ v rest, parseFraction max scale min l = some (v, rest) ∧ v < 10 ^ scale := by
  unfold parseFraction
  have hb := scanDigits_bound max 0 0 l (by simp)
  split
  · left; rfl
  · dsimp only
    split
    · left; rfl
    · right
      refine ⟨_, _, rfl, ?_⟩
      have hc : (scanDigits max 0 0 l).2.1 ≤ scale := by omega
      have e : 10 ^ scale = 10 ^ (scanDigits max 0 0 l).2.1 * 10 ^ (scale - (scanDigits max 0 0 l).2.1) := by
        rw [← Nat.pow_add]; congr 1; omega
      rw [e]
      exact Nat.mul_lt_mul_of_lt_of_le hb.1 (Nat.le_refl _) (Nat.pow_pos (by decide))

/-- `_parse_int64` is a total function into `Option` (a failure result or a value); no exception path exists in
    the model because every indexing step is guarded by the list structure -/
theorem parseInt64_total (l : Text) : parseInt64 l = none ∨ ∃ v rest, parseInt64 l = some (v, rest) := by
  cases h : parseInt64 l with
  | none => left; rfl
  | some p => right; exact ⟨p.1, p.2, rfl⟩

/-- the range check of a numeric field action -/
theorem parseField_range (minD maxD : Nat) (lo hi : Int) (l : Text) (v : Int) (rest : Text)
    (h : parseField minD maxD lo hi l = some (v, rest)) : lo ≤ v ∧ v ≤ hi :=
  parseField_bounds minD maxD lo hi l v rest h

/-! ## the ISO parsers never raise -/

theorem parseWhole_total {α : Type} (p : Text → R (Option (α × Text))) (l : Text)
    (hp : ∃ r, p l = .ok r) : ∃ r, parseWhole p l = .ok r := by
  obtain ⟨r, hr⟩ := hp
  unfold parseWhole
  split
  · exact ⟨none, rfl⟩
  · rw [hr]
    cases r with
    | none => exact ⟨none, rfl⟩
    | some q =>
      obtain ⟨v, rest⟩ := q
      by_cases h : rest = []
      · exact ⟨some v, by simp [h]⟩
      · exact ⟨none, by simp [h]⟩

theorem parseIsoDatePartial_total (l : Text) : ∃ r, parseIsoDatePartial l = .ok r := by
  unfold parseIsoDatePartial
  split
  · exact ⟨_, rfl⟩
  · split <;> exact ⟨_, rfl⟩

theorem parseTimePartial_total (k : Frac) (l : Text) : ∃ r, parseTimePartial k l = .ok r := by
  unfold parseTimePartial
  split <;> exact ⟨_, rfl⟩

/-- the only exception `plus_days(1)` can raise here is `OverflowError` -/
theorem plusOneDay_error (y m d : Int) (e : PyExc) (h : plusOneDay y m d = .error e) : e = .overflowError := by
  unfold plusOneDay at h
  split at h
  · cases h
  · split at h
    · cases h
    · split at h
      · cases h
      · injection h with h; exact h.symm

theorem combineDateTime_total (y m d h mi s n : Int) : ∃ r, combineDateTime y m d h mi s n = .ok r := by
  unfold combineDateTime
  cases isoDateValue y m d with
  | none => exact ⟨_, rfl⟩
  | some v =>
    obtain ⟨y', m', d'⟩ := v
    simp only
    split
    · split
      · exact ⟨_, rfl⟩
      · cases hp : plusOneDay y' m' d' with
        | ok w => exact ⟨_, rfl⟩
        | error e =>
          have := plusOneDay_error y' m' d' e hp
          subst this
          exact ⟨_, rfl⟩
    · exact ⟨_, rfl⟩

theorem parseDateTimePartial_total (k : Frac) (l : Text) : ∃ r, parseDateTimePartial k l = .ok r := by
  unfold parseDateTimePartial
  cases dateFields l with
  | none => exact ⟨_, rfl⟩
  | some p =>
    obtain ⟨⟨y, m, d⟩, l1⟩ := p
    dsimp only
    cases matchChar 'T' l1 with
    | none => exact ⟨_, rfl⟩
    | some l2 =>
      dsimp only
      cases timeFields 24 k l2 with
      | none => exact ⟨_, rfl⟩
      | some q =>
        obtain ⟨⟨h, mi, s, n⟩, rest⟩ := q
        dsimp only
        obtain ⟨r, hr⟩ := combineDateTime_total y m d h mi s n
        rw [hr]
        cases r <;> exact ⟨_, rfl⟩

theorem parseInstantPartial_total (k : Frac) (l : Text) : ∃ r, parseInstantPartial k l = .ok r := by
  unfold parseInstantPartial
  cases dateFields l with
  | none => exact ⟨_, rfl⟩
  | some p =>
    obtain ⟨⟨y, m, d⟩, l1⟩ := p
    dsimp only
    cases matchChar 'T' l1 with
    | none => exact ⟨_, rfl⟩
    | some l2 =>
      dsimp only
      cases timeFields 24 k l2 with
      | none => exact ⟨_, rfl⟩
      | some q =>
        obtain ⟨⟨h, mi, s, n⟩, l3⟩ := q
        dsimp only
        cases matchChar 'Z' l3 with
        | none => exact ⟨_, rfl⟩
        | some rest =>
          dsimp only
          obtain ⟨r, hr⟩ := combineDateTime_total y m d h mi s n
          rw [hr]
          cases r <;> exact ⟨_, rfl⟩

theorem offsetValue_total (neg : Bool) (h m s : Int) : ∃ r, offsetValue neg h m s = .ok r := by
  unfold offsetValue
  dsimp only
  generalize (if neg = true then -(h * 3600 + m * 60 + s) else h * 3600 + m * 60 + s) = secs
  by_cases hc : secs < -64800 ∨ secs > 64800
  · rw [if_pos hc]; exact ⟨_, rfl⟩
  · rw [if_neg hc]
    have : offsetFromSeconds secs = .ok secs := by
      unfold offsetFromSeconds checkRange
      rw [if_neg hc]; rfl
    rw [this]; exact ⟨_, rfl⟩

theorem parseOffPartial_total (n : Nat) (l : Text) : ∃ r, parseOffPartial n l = .ok r := by
  unfold parseOffPartial
  cases offFields n l with
  | none => exact ⟨_, rfl⟩
  | some p =>
    obtain ⟨⟨neg, h, m, s⟩, rest⟩ := p
    dsimp only
    obtain ⟨r, hr⟩ := offsetValue_total neg h m s
    rw [hr]
    cases r <;> exact ⟨_, rfl⟩

theorem parseOffG_total (l : Text) : ∃ r, parseOffG l = .ok r := by
  unfold parseOffG
  split
  · exact ⟨_, rfl⟩
  · obtain ⟨r3, h3⟩ := parseWhole_total (parseOffPartial 3) l (parseOffPartial_total 3 l)
    obtain ⟨r2, h2⟩ := parseWhole_total (parseOffPartial 2) l (parseOffPartial_total 2 l)
    obtain ⟨r1, h1⟩ := parseWhole_total (parseOffPartial 1) l (parseOffPartial_total 1 l)
    rw [h3]
    cases r3 with
    | some v => exact ⟨_, rfl⟩
    | none =>
      simp only
      rw [h2]
      cases r2 with
      | some v => exact ⟨_, rfl⟩
      | none => simp only; exact ⟨_, h1⟩

/-- **parse_total** for the modelled patterns: for every input text the parser returns a result value
    (a success or a failure), never an exception. -/
theorem iso_parse_total (l : Text) :
    (∃ r, parseIsoDate l = .ok r) ∧ (∃ r, parseIsoTime l = .ok r) ∧ (∃ r, parseIsoTimeLong l = .ok r) ∧
    (∃ r, parseIsoTimeGeneral l = .ok r) ∧ (∃ r, parseIsoDateTime l = .ok r) ∧
    (∃ r, parseIsoDateTimeGeneral l = .ok r) ∧ (∃ r, parseIsoDateTimeBcl l = .ok r) ∧
    (∃ r, parseIsoInstant l = .ok r) ∧ (∃ r, parseInstantGeneral l = .ok r) ∧
    (∃ r, parseOffG l = .ok r) ∧ (∃ r, parseOffGZ l = .ok r) := by
  refine ⟨?_, ?_, ?_, ?_, ?_, ?_, ?_, ?_, ?_, ?_, ?_⟩
  · exact parseWhole_total _ l (parseIsoDatePartial_total l)
  · exact parseWhole_total _ l (parseTimePartial_total _ l)
  · exact parseWhole_total _ l (parseTimePartial_total _ l)
  · exact parseWhole_total _ l (parseTimePartial_total _ l)
  · exact parseWhole_total _ l (parseDateTimePartial_total _ l)
  · exact parseWhole_total _ l (parseDateTimePartial_total _ l)
  · exact parseWhole_total _ l (parseDateTimePartial_total _ l)
  · exact parseWhole_total _ l (parseInstantPartial_total _ l)
  · exact parseWhole_total _ l (parseInstantPartial_total _ l)
  · exact parseOffG_total l
  · unfold parseOffGZ; split
    · exact ⟨_, rfl⟩
    · exact parseOffG_total l

/-! ## the raising constructors do raise right outside the guards (the guards are needed) -/

theorem guard_needed_offset (s : Int) (h : s < -64800 ∨ s > 64800) : offsetFromSeconds s = .error .valueError := by
  unfold offsetFromSeconds checkRange
  simp [h]
  rfl

theorem guard_needed_rollover : plusOneDay 9999 12 31 = .error .overflowError := by decide

/-- the text of section 7 row 5: hours 19 pass the field range 0…23 and only the value check stops them -/
theorem offset_19_is_failure : parseOffG ['+', '1', '9'] = .ok none := by decide

/-- section 7 row 17 -/
theorem rollover_at_max_is_failure :
    parseIsoDateTime "9999-12-31T24:00:00".toList = .ok none := by decide

/-- section 7 row 16 -/
theorem year_below_minimum_is_failure : parseIsoDate "-9999-01-01".toList = .ok none := by decide

/-- section 7 row 18: a NUL after a complete text is extra text -/
theorem trailing_nul_is_failure : parseIsoDate ("2020-01-01".toList ++ [Char.ofNat 0]) = .ok none := by decide

/-! ## a success carries a valid value of the type -/

theorem dateFields_inv (l : Text) (y m d : Int) (rest : Text) (h : dateFields l = some ((y, m, d), rest)) :
    ∃ l1 l2 l3 l4, parseField 4 4 (-9999) 9999 l = some (y, l1) ∧ matchChar '-' l1 = some l2 ∧
      parseField 2 2 1 99 l2 = some (m, l3) ∧ matchChar '-' l3 = some l4 ∧ parseField 2 2 1 99 l4 = some (d, rest) := by
  simp only [dateFields, Option.bind_eq_bind, Option.bind_eq_some_iff, Option.pure_def, Option.some.injEq,
    Prod.mk.injEq, Prod.exists] at h
  obtain ⟨y', l1, h1, l2, h2, m', l3, h3, l4, h4, d', l5, h5, ⟨⟨rfl, rfl, rfl⟩, rfl⟩⟩ := h
  exact ⟨l1, l2, l3, l4, h1, h2, h3, h4, h5⟩

theorem dateFields_ranges (l : Text) (y m d : Int) (rest : Text) (h : dateFields l = some ((y, m, d), rest)) :
    1 ≤ m ∧ 1 ≤ d := by
  obtain ⟨l1, l2, l3, l4, _, _, h3, _, h5⟩ := dateFields_inv l y m d rest h
  exact ⟨(parseField_range _ _ _ _ _ _ _ h3).1, (parseField_range _ _ _ _ _ _ _ h5).1⟩

theorem fracPart_range (k : Frac) (l : Text) (n : Int) (rest : Text) (h : fracPart k l = some (n, rest)) :
    0 ≤ n ∧ n < 1000000000 := by
  have key : ∀ (mx mn : Nat) (r : Text), mx ≤ 9 →
      (match parseFraction mx 9 mn r with
        | none => none
        | some (v, rest) => some ((v : Int), rest)) = some (n, rest) → 0 ≤ n ∧ n < 1000000000 := by
    intro mx mn r hmx hh
    rcases parseFraction_total mx 9 mn r hmx with e | ⟨v, rest', e, hv⟩
    · rw [e] at hh; cases hh
    · rw [e] at hh
      injection hh with hh; injection hh with h1 _
      have : (10 : Nat) ^ 9 = 1000000000 := by decide
      omega
  cases k with
  | none => simp only [fracPart] at h; injection h with h; injection h with h1 _; omega
  | optF9 =>
    simp only [fracPart] at h
    split at h
    · injection h with h; injection h with h1 _; omega
    · exact key 9 1 _ (by decide) h
  | dotf9 =>
    simp only [fracPart] at h
    split at h
    · cases h
    · exact key 9 9 _ (by decide) h
  | dotf7 =>
    simp only [fracPart] at h
    split at h
    · cases h
    · exact key 7 7 _ (by decide) h

theorem timeFields_ranges (maxH : Int) (k : Frac) (l : Text) (h m s n : Int) (rest : Text)
    (hh : timeFields maxH k l = some ((h, m, s, n), rest)) :
    0 ≤ h ∧ h ≤ maxH ∧ 0 ≤ m ∧ m ≤ 59 ∧ 0 ≤ s ∧ s ≤ 59 ∧ 0 ≤ n ∧ n < 1000000000 := by
  simp only [timeFields, Option.bind_eq_bind, Option.bind_eq_some_iff, Option.pure_def, Option.some.injEq,
    Prod.mk.injEq, Prod.exists] at hh
  obtain ⟨h', l1, h1, l2, _, m', l3, h3, l4, _, s', l5, h5, n', l6, h6, ⟨⟨rfl, rfl, rfl, rfl⟩, rfl⟩⟩ := hh
  have r1 := parseField_range _ _ _ _ _ _ _ h1
  have r3 := parseField_range _ _ _ _ _ _ _ h3
  have r5 := parseField_range _ _ _ _ _ _ _ h5
  have r6 := fracPart_range _ _ _ _ h6
  omega

/-- LocalDatePattern.iso: a success is a valid ISO date -/
theorem iso_date_success_valid (l : Text) (y m d : Int) (h : parseIsoDate l = .ok (some (y, m, d))) :
    validDate y m d := by
  unfold parseIsoDate parseWhole at h
  split at h
  · cases h
  · unfold parseIsoDatePartial at h
    cases hd : dateFields l with
    | none => rw [hd] at h; cases h
    | some p =>
      obtain ⟨⟨y', m', d'⟩, rest⟩ := p
      rw [hd] at h
      dsimp only at h
      obtain ⟨hm, hdd⟩ := dateFields_ranges l y' m' d' rest hd
      cases hv : isoDateValue y' m' d' with
      | none => rw [hv] at h; cases h
      | some v =>
        rw [hv] at h
        obtain ⟨e, hval⟩ := isoDateValue_some y' m' d' v hm hdd hv
        subst e
        dsimp only at h
        split at h
        · injection h with h; injection h with h; injection h with a b; injection b with b c
          subst a; subst b; subst c; exact hval
        · cases h

/-- the three LocalTime patterns: a success is a nanosecond-of-day value inside the day -/
theorem iso_time_success_valid (k : Frac) (l : Text) (nod : Int)
    (h : parseWhole (parseTimePartial k) l = .ok (some nod)) : 0 ≤ nod ∧ nod < 86400000000000 := by
  unfold parseWhole at h
  split at h
  · cases h
  · unfold parseTimePartial at h
    cases ht : timeFields 23 k l with
    | none => rw [ht] at h; cases h
    | some p =>
      obtain ⟨⟨hh, m, s, n⟩, rest⟩ := p
      rw [ht] at h
      dsimp only at h
      have r := timeFields_ranges 23 k l hh m s n rest ht
      split at h
      · injection h with h; injection h with h
        rw [← h]; unfold ltFromHmsn NPH NPMin NPS; omega
      · cases h

theorem plusOneDay_valid (y m d y' m' d' : Int) (hv : validDate y m d)
    (h : plusOneDay y m d = .ok (y', m', d')) : validDate y' m' d' := by
  obtain ⟨h1, h2, h3, h4, h5, h6⟩ := hv
  unfold plusOneDay at h
  unfold validDate ISO_MIN_YEAR ISO_MAX_YEAR at *
  split at h
  · injection h with h; injection h with a b; injection b with b c
    subst a; subst b; subst c; omega
  · split at h
    · injection h with h; injection h with a b; injection b with b c
      subst a; subst b; subst c
      have := daysInMonth_bounds y (m + 1); omega
    · split at h
      · injection h with h; injection h with a b; injection b with b c
        subst a; subst b; subst c
        have := daysInMonth_bounds (y + 1) 1; omega
      · cases h

theorem combineDateTime_valid (y m d h mi s n : Int) (v : Int × Int × Int × Int)
    (hm : 1 ≤ m) (hd : 1 ≤ d)
    (hr : 0 ≤ h ∧ h ≤ 24 ∧ 0 ≤ mi ∧ mi ≤ 59 ∧ 0 ≤ s ∧ s ≤ 59 ∧ 0 ≤ n ∧ n < 1000000000)
    (hc : combineDateTime y m d h mi s n = .ok (some v)) :
    validDate v.1 v.2.1 v.2.2.1 ∧ 0 ≤ v.2.2.2 ∧ v.2.2.2 < 86400000000000 := by
  unfold combineDateTime at hc
  dsimp only at hc
  cases hv : isoDateValue y m d with
  | none => rw [hv] at hc; cases hc
  | some w =>
    rw [hv] at hc
    obtain ⟨e, hval⟩ := isoDateValue_some y m d w hm hd hv
    subst e
    dsimp only at hc
    by_cases h24 : h = 24
    · subst h24
      simp only [decide_true, if_true] at hc
      split at hc
      · cases hc
      · rename_i ht
        cases hp : plusOneDay y m d with
        | error e => rw [hp] at hc; cases e <;> cases hc
        | ok w =>
          obtain ⟨y', m', d'⟩ := w
          rw [hp] at hc
          injection hc with hc; injection hc with hc
          subst hc
          refine ⟨plusOneDay_valid y m d y' m' d' hval hp, ?_⟩
          dsimp only
          have : ltFromHmsn 0 mi s n = 0 := by
            by_cases h0 : ltFromHmsn 0 mi s n = 0
            · exact h0
            · exact absurd h0 ht
          omega
    · have : decide (h = 24) = false := by simp [h24]
      simp only [this, Bool.false_eq_true, if_false] at hc
      injection hc with hc; injection hc with hc
      subst hc
      refine ⟨hval, ?_⟩
      dsimp only
      unfold ltFromHmsn NPH NPMin NPS; omega

/-- the LocalDateTime patterns (incl. the 24:00 roll-over): a success is a valid date and a time inside the day -/
theorem iso_datetime_success_valid (k : Frac) (l : Text) (y m d nod : Int)
    (h : parseWhole (parseDateTimePartial k) l = .ok (some (y, m, d, nod))) :
    validDate y m d ∧ 0 ≤ nod ∧ nod < 86400000000000 := by
  unfold parseWhole at h
  split at h
  · cases h
  · unfold parseDateTimePartial at h
    cases hd : dateFields l with
    | none => rw [hd] at h; cases h
    | some p =>
      obtain ⟨⟨y', m', d'⟩, l1⟩ := p
      rw [hd] at h; dsimp only at h
      obtain ⟨hm, hdd⟩ := dateFields_ranges l y' m' d' l1 hd
      cases hT : matchChar 'T' l1 with
      | none => rw [hT] at h; cases h
      | some l2 =>
        rw [hT] at h; dsimp only at h
        cases ht : timeFields 24 k l2 with
        | none => rw [ht] at h; cases h
        | some q =>
          obtain ⟨⟨hh, mi, s, n⟩, rest⟩ := q
          rw [ht] at h; dsimp only at h
          have r := timeFields_ranges 24 k l2 hh mi s n rest ht
          cases hc : combineDateTime y' m' d' hh mi s n with
          | error e => rw [hc] at h; cases h
          | ok o =>
            rw [hc] at h
            cases o with
            | none => cases h
            | some v =>
              dsimp only at h
              have := combineDateTime_valid y' m' d' hh mi s n v hm hdd r hc
              split at h
              · injection h with h; injection h with h
                rw [h] at this; exact this
              · cases h

theorem offsetValue_range (neg : Bool) (h m s v : Int) (hv : offsetValue neg h m s = .ok (some v)) :
    -64800 ≤ v ∧ v ≤ 64800 := by
  unfold offsetValue at hv
  dsimp only at hv
  generalize (if neg = true then -(h * 3600 + m * 60 + s) else h * 3600 + m * 60 + s) = secs at hv
  by_cases hc : secs < -64800 ∨ secs > 64800
  · rw [if_pos hc] at hv; cases hv
  · rw [if_neg hc] at hv
    have : offsetFromSeconds secs = .ok secs := by
      unfold offsetFromSeconds checkRange
      rw [if_neg hc]; rfl
    rw [this] at hv
    injection hv with hv; injection hv with hv
    omega

theorem parseOffWhole_range (n : Nat) (l : Text) (v : Int)
    (h : parseWhole (parseOffPartial n) l = .ok (some v)) : -64800 ≤ v ∧ v ≤ 64800 := by
  unfold parseWhole at h
  split at h
  · cases h
  · unfold parseOffPartial at h
    cases hf : offFields n l with
    | none => rw [hf] at h; cases h
    | some p =>
      obtain ⟨⟨neg, hh, m, s⟩, rest⟩ := p
      rw [hf] at h; dsimp only at h
      cases hv : offsetValue neg hh m s with
      | error e => rw [hv] at h; cases h
      | ok o =>
        rw [hv] at h
        cases o with
        | none => cases h
        | some w =>
          dsimp only at h
          split at h
          · injection h with h; injection h with h
            subst h; exact offsetValue_range neg hh m s w hv
          · cases h

/-- OffsetPattern g / G: a success is an offset within ±18 h -/
theorem iso_offset_success_valid (l : Text) (v : Int) (h : parseOffG l = .ok (some v) ∨ parseOffGZ l = .ok (some v)) :
    -64800 ≤ v ∧ v ≤ 64800 := by
  have key : ∀ l v, parseOffG l = .ok (some v) → -64800 ≤ v ∧ v ≤ 64800 := by
    intro l v h
    unfold parseOffG at h
    split at h
    · cases h
    · cases h3 : parseWhole (parseOffPartial 3) l with
      | error e => rw [h3] at h; cases h
      | ok o3 =>
        rw [h3] at h
        cases o3 with
        | some w => dsimp only at h; injection h with h; injection h with h; subst h
                    exact parseOffWhole_range 3 l w h3
        | none =>
          dsimp only at h
          cases h2 : parseWhole (parseOffPartial 2) l with
          | error e => rw [h2] at h; cases h
          | ok o2 =>
            rw [h2] at h
            cases o2 with
            | some w => dsimp only at h; injection h with h; injection h with h; subst h
                        exact parseOffWhole_range 2 l w h2
            | none => dsimp only at h; exact parseOffWhole_range 1 l v h
  rcases h with h | h
  · exact key l v h
  · unfold parseOffGZ at h
    split at h
    · injection h with h; injection h with h; omega
    · exact key l v h

end Pyoda.C08
