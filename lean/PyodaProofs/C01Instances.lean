/-
  Well-formedness (`WF`, C01Lemmas.lean) of the closed-form solar calendars: ISO/Gregorian, Julian, Coptic.
  Year-start recurrences and estimate bounds are proved symbolically for all integer years (closed forms by
  `omega`); the month tables (12 or 13 rows, ≤ 366 days, two leap flags) are finite facts checked by `decide`.
-/
import PyodaModel.Calendar
import PyodaProofs.Basic
import PyodaProofs.C01Lemmas

namespace Pyoda.C01
open Pyoda Pyoda.Calendar

theorem shr2 (x : Int) : x >>> 2 = x / 4 := by rw [Int.shiftRight_eq_div_pow]; rfl

/-- what `tdiv` by a positive literal means, in the form `omega` can use -/
theorem tdiv_bounds (x k : Int) (hk : 0 < k) :
    (0 ≤ x → k * Int.tdiv x k ≤ x ∧ x < k * Int.tdiv x k + k) ∧
    (x < 0 → k * Int.tdiv x k - k < x ∧ x ≤ k * Int.tdiv x k) := by
  rw [tdiv_pos x k hk]
  constructor
  · intro h; rw [if_pos h]
    have := Int.mul_ediv_add_emod x k; have := Int.emod_nonneg x (by omega : k ≠ 0)
    have := Int.emod_lt_of_pos x hk
    omega
  · intro h; rw [if_neg (by omega)]
    have := Int.mul_ediv_add_emod (-x) k; have := Int.emod_nonneg (-x) (by omega : k ≠ 0)
    have := Int.emod_lt_of_pos (-x) hk
    have e : k * -(-x / k) = -(k * (-x / k)) := by rw [Int.mul_neg]
    omega

/-! ## month tables shared by Gregorian and Julian -/

theorem gj_split_leap : ∀ n : Nat, n < 367 → 1 ≤ n →
    (1 ≤ (GJ.split true n).1 ∧ (GJ.split true n).1 ≤ 12 ∧ 1 ≤ (GJ.split true n).2 ∧
      (GJ.split true n).2 ≤ GJ.dim true (GJ.split true n).1 ∧
      GJ.totalDays true (GJ.split true n).1 + (GJ.split true n).2 = n) := by decide +kernel

theorem gj_split_common : ∀ n : Nat, n < 366 → 1 ≤ n →
    (1 ≤ (GJ.split false n).1 ∧ (GJ.split false n).1 ≤ 12 ∧ 1 ≤ (GJ.split false n).2 ∧
      (GJ.split false n).2 ≤ GJ.dim false (GJ.split false n).1 ∧
      GJ.totalDays false (GJ.split false n).1 + (GJ.split false n).2 = n) := by decide +kernel

theorem gj_unsplit_leap : ∀ m : Nat, m < 13 → ∀ d : Nat, d < 32 → (1 ≤ m ∧ 1 ≤ d ∧ (d : Int) ≤ GJ.dim true m →
    (1 ≤ GJ.totalDays true m + d ∧ GJ.totalDays true m + d ≤ 366 ∧
      GJ.split true (GJ.totalDays true m + d) = ((m : Int), (d : Int)))) := by decide +kernel

theorem gj_unsplit_common : ∀ m : Nat, m < 13 → ∀ d : Nat, d < 32 → (1 ≤ m ∧ 1 ≤ d ∧ (d : Int) ≤ GJ.dim false m →
    (1 ≤ GJ.totalDays false m + d ∧ GJ.totalDays false m + d ≤ 365 ∧
      GJ.split false (GJ.totalDays false m + d) = ((m : Int), (d : Int)))) := by decide +kernel

theorem gj_dim_bounds : ∀ m : Nat, m < 13 → 1 ≤ m →
    (1 ≤ GJ.dim true m ∧ GJ.dim true m ≤ 31 ∧ 1 ≤ GJ.dim false m ∧ GJ.dim false m ≤ 31) := by decide +kernel

theorem gj_month_order : ∀ m1 : Nat, m1 < 13 → 1 ≤ m1 → ∀ m2 : Nat, m2 < 13 → m1 < m2 →
    (GJ.totalDays true m1 + GJ.dim true m1 ≤ GJ.totalDays true m2 ∧
      GJ.totalDays false m1 + GJ.dim false m1 ≤ GJ.totalDays false m2) := by decide +kernel

theorem natOf {x : Int} (h : 0 ≤ x) : ∃ n : Nat, x = (n : Int) := ⟨x.toNat, by omega⟩

/-- the month part of `WF` for a calendar with the Gregorian/Julian month table -/
theorem gj_months (leap : Bool) :
    (∀ doy : Int, 1 ≤ doy → doy ≤ (if leap then 366 else 365) →
        1 ≤ (GJ.split leap doy).1 ∧ (GJ.split leap doy).1 ≤ 12 ∧ 1 ≤ (GJ.split leap doy).2 ∧
        (GJ.split leap doy).2 ≤ GJ.dim leap (GJ.split leap doy).1 ∧
        GJ.totalDays leap (GJ.split leap doy).1 + (GJ.split leap doy).2 = doy) ∧
    (∀ m dd : Int, 1 ≤ m → m ≤ 12 → 1 ≤ dd → dd ≤ GJ.dim leap m →
        1 ≤ GJ.totalDays leap m + dd ∧ GJ.totalDays leap m + dd ≤ (if leap then 366 else 365) ∧
        GJ.split leap (GJ.totalDays leap m + dd) = (m, dd)) ∧
    (∀ m : Int, 1 ≤ m → m ≤ 12 → 1 ≤ GJ.dim leap m ∧ GJ.dim leap m ≤ 64) ∧
    (∀ m1 m2 : Int, 1 ≤ m1 → m1 ≤ 12 → 1 ≤ m2 → m2 ≤ 12 → m1 < m2 →
        GJ.totalDays leap m1 + GJ.dim leap m1 ≤ GJ.totalDays leap m2) := by
  refine ⟨?_, ?_, ?_, ?_⟩
  · intro doy h1 h2
    obtain ⟨n, rfl⟩ := natOf (x := doy) (by omega)
    cases leap
    · exact gj_split_common n (by simp at h2; omega) (by omega)
    · exact gj_split_leap n (by simp at h2; omega) (by omega)
  · intro m dd h1 h2 h3 h4
    obtain ⟨n, rfl⟩ := natOf (x := m) (by omega)
    obtain ⟨k, rfl⟩ := natOf (x := dd) (by omega)
    have hb := gj_dim_bounds n (by omega) (by omega)
    cases leap
    · exact gj_unsplit_common n (by omega) k (by omega) ⟨by omega, by omega, h4⟩
    · exact gj_unsplit_leap n (by omega) k (by omega) ⟨by omega, by omega, h4⟩
  · intro m h1 h2
    obtain ⟨n, rfl⟩ := natOf (x := m) (by omega)
    have hb := gj_dim_bounds n (by omega) (by omega)
    cases leap <;> omega
  · intro m1 m2 h1 h2 h3 h4 h5
    obtain ⟨n1, rfl⟩ := natOf (x := m1) (by omega)
    obtain ⟨n2, rfl⟩ := natOf (x := m2) (by omega)
    have hb := gj_month_order n1 (by omega) (by omega) n2 (by omega) (by omega)
    cases leap
    · exact hb.2
    · exact hb.1

/-! ## Gregorian / ISO -/

theorem greg_isLeap_iff (y : Int) :
    Greg.isLeap y = true ↔ (y % 4 = 0 ∧ (y % 100 ≠ 0 ∨ y % 400 = 0)) := by simp [Greg.isLeap]

/-- closed form of the Gregorian year start as the code computes it, for every integer year -/
theorem greg_start_closed (y : Int) :
    Greg.start y = 365 * (y - 1) + (y - 1) / 4 - (y - 1) / 100 + (y - 1) / 400 - 719162 := by
  unfold Greg.start
  simp (disch := decide) only [shr2, tdiv_pos]
  by_cases h1 : Greg.isLeap y = true
  · simp only [h1, if_true]
    rw [greg_isLeap_iff] at h1
    split <;> split <;> omega
  · simp only [h1, if_false, Bool.false_eq_true]
    rw [greg_isLeap_iff] at h1
    split <;> split <;> omega

theorem greg_recur (y : Int) : Greg.start (y + 1) = Greg.start y + Greg.len y ∧ 0 < Greg.len y := by
  rw [greg_start_closed, greg_start_closed]
  unfold Greg.len
  have e : y + 1 - 1 = y := by omega
  rw [e]
  by_cases h1 : Greg.isLeap y = true
  · simp only [h1, if_true]; rw [greg_isLeap_iff] at h1; omega
  · simp only [h1, if_false, Bool.false_eq_true]; rw [greg_isLeap_iff] at h1; omega

theorem greg_lin (k : Int) :
    146097 * k - 800 < 400 * (365 * k + k / 4 - k / 100 + k / 400) ∧
    400 * (365 * k + k / 4 - k / 100 + k / 400) < 146097 * k + 400 := by omega

theorem greg_est_core (y d q : Int) (hy : -9998 ≤ y) (hy2 : y ≤ 9999)
    (hs : 146097 * (y - 1) - 800 < 400 * (d + 719162))
    (he : 400 * (d + 719162) < 146097 * y + 400)
    (hq1 : 0 ≤ (d + 719162) * 10 → 3653 * q ≤ (d + 719162) * 10 ∧ (d + 719162) * 10 < 3653 * q + 3653)
    (hq2 : (d + 719162) * 10 < 0 → 3653 * q - 3653 < (d + 719162) * 10 ∧ (d + 719162) * 10 ≤ 3653 * q) :
    -9998 ≤ q + 1 ∧ q + 1 ≤ 9999 + 1 ∧ q + 1 ≤ y + 60 ∧ y ≤ q + 1 + 60 := by
  by_cases h0 : 0 ≤ (d + 719162) * 10
  · have := hq1 h0; omega
  · have := hq2 (by omega); omega

theorem greg_wf : WF Greg.cal where
  dom_lo := by decide
  search_lo := by decide
  recur_lo := fun y h1 h2 => by
    have a : (-9998 : Int) ≤ y := h1
    have b : y < (-9998 : Int) := h2
    omega
  dom_hi := by decide
  year_order := by decide
  recur := fun y _ _ => greg_recur y
  avg_ok := by decide
  small := by decide
  est := by
    intro y d hy hy2 hs he
    show -9998 ≤ Int.tdiv ((d - (-719162)) * 10) (3652 + 1) + 1 ∧ _
    have hy' : -9998 ≤ y := hy
    have hy2' : y ≤ 9999 := hy2
    have hs' : Greg.start y ≤ d := hs
    have he' : d < Greg.start (y + 1) := he
    rw [greg_start_closed] at hs' he'
    have e1 : y + 1 - 1 = y := by omega
    rw [e1] at he'
    have l1 := greg_lin (y - 1)
    have l2 := greg_lin y
    have e2 : (d - (-719162)) * 10 = (d + 719162) * 10 := by omega
    have e3 : (3652 : Int) + 1 = 3653 := by decide
    rw [e2, e3]
    have tb := tdiv_bounds ((d + 719162) * 10) 3653 (by decide)
    exact greg_est_core y d _ hy' hy2' (by omega) (by omega) tb.1 tb.2
  split_ok := by
    intro y doy _ _ h1 h2
    exact (gj_months (Greg.isLeap y)).1 doy h1 (by
      have : Greg.cal.len y = Greg.len y := rfl
      rw [this] at h2; unfold Greg.len at h2; exact h2)
  unsplit_ok := by
    intro y m dd _ _ h1 h2 h3 h4
    have := (gj_months (Greg.isLeap y)).2.1 m dd h1 h2 h3 h4
    show _ ∧ _ ≤ Greg.len y ∧ _
    unfold Greg.len; exact this
  pack_year := by decide
  pack_month := fun _ _ _ => by show (1 : Int) ≤ 12 ∧ (12 : Int) ≤ 32; decide
  pack_day := by
    intro y m _ _ h1 h2
    exact (gj_months (Greg.isLeap y)).2.2.1 m h1 h2
  month_order := by
    intro y m1 m2 _ _ h1 h2 h3 h4 h5
    exact (gj_months (Greg.isLeap y)).2.2.2 m1 m2 h1 h2 h3 h4 h5
  month_key_inj := fun _ _ _ _ _ _ _ _ _ h => h
  plain_key := fun _ _ _ _ _ _ _ => rfl

/-! ## Julian -/

theorem jul_isLeap_iff (y : Int) : Jul.isLeap y = true ↔ y % 4 = 0 := by simp [Jul.isLeap]

theorem jul_start_closed (y : Int) : Jul.start y = 365 * (y - 1) + (y - 1) / 4 - 719164 := by
  unfold Jul.start
  simp only [shr2]
  by_cases h1 : Jul.isLeap y = true
  · simp only [h1, if_true]; rw [jul_isLeap_iff] at h1; split <;> omega
  · simp only [h1, if_false, Bool.false_eq_true]; rw [jul_isLeap_iff] at h1; split <;> omega

theorem jul_recur (y : Int) : Jul.start (y + 1) = Jul.start y + Jul.len y ∧ 0 < Jul.len y := by
  rw [jul_start_closed, jul_start_closed]
  unfold Jul.len
  have e : y + 1 - 1 = y := by omega
  rw [e]
  by_cases h1 : Jul.isLeap y = true
  · simp only [h1, if_true]; rw [jul_isLeap_iff] at h1; omega
  · simp only [h1, if_false, Bool.false_eq_true]; rw [jul_isLeap_iff] at h1; omega

theorem jul_est_core (y d q : Int) (hy : -9997 ≤ y) (hy2 : y ≤ 9998)
    (hs : 1461 * (y - 1) - 3 ≤ 4 * (d + 719164))
    (he : 4 * (d + 719164) < 1461 * y + 4)
    (hq1 : 0 ≤ (d + 719164) * 10 → 3654 * q ≤ (d + 719164) * 10 ∧ (d + 719164) * 10 < 3654 * q + 3654)
    (hq2 : (d + 719164) * 10 < 0 → 3654 * q - 3654 < (d + 719164) * 10 ∧ (d + 719164) * 10 ≤ 3654 * q) :
    -9997 ≤ q + 1 ∧ q + 1 ≤ 9998 + 1 ∧ q + 1 ≤ y + 60 ∧ y ≤ q + 1 + 60 := by
  by_cases h0 : 0 ≤ (d + 719164) * 10
  · have := hq1 h0; omega
  · have := hq2 (by omega); omega

theorem jul_wf : WF Jul.cal where
  dom_lo := by decide
  search_lo := by decide
  recur_lo := fun y h1 h2 => by
    have a : (-9997 : Int) ≤ y := h1
    have b : y < (-9997 : Int) := h2
    omega
  dom_hi := by decide
  year_order := by decide
  recur := fun y _ _ => jul_recur y
  avg_ok := by decide
  small := by decide
  est := by
    intro y d hy hy2 hs he
    show -9997 ≤ Int.tdiv ((d - (-719164)) * 10) (3653 + 1) + 1 ∧ _
    have hy' : -9997 ≤ y := hy
    have hy2' : y ≤ 9998 := hy2
    have hs' : Jul.start y ≤ d := hs
    have he' : d < Jul.start (y + 1) := he
    rw [jul_start_closed] at hs' he'
    have e1 : y + 1 - 1 = y := by omega
    rw [e1] at he'
    have e2 : (d - (-719164)) * 10 = (d + 719164) * 10 := by omega
    have e3 : (3653 : Int) + 1 = 3654 := by decide
    rw [e2, e3]
    have tb := tdiv_bounds ((d + 719164) * 10) 3654 (by decide)
    exact jul_est_core y d _ hy' hy2' (by omega) (by omega) tb.1 tb.2
  split_ok := by
    intro y doy _ _ h1 h2
    exact (gj_months (Jul.isLeap y)).1 doy h1 (by
      have : Jul.cal.len y = Jul.len y := rfl
      rw [this] at h2; unfold Jul.len at h2; exact h2)
  unsplit_ok := by
    intro y m dd _ _ h1 h2 h3 h4
    have := (gj_months (Jul.isLeap y)).2.1 m dd h1 h2 h3 h4
    show _ ∧ _ ≤ Jul.len y ∧ _
    unfold Jul.len; exact this
  pack_year := by decide
  pack_month := fun _ _ _ => by show (1 : Int) ≤ 12 ∧ (12 : Int) ≤ 32; decide
  pack_day := by
    intro y m _ _ h1 h2
    exact (gj_months (Jul.isLeap y)).2.2.1 m h1 h2
  month_order := by
    intro y m1 m2 _ _ h1 h2 h3 h4 h5
    exact (gj_months (Jul.isLeap y)).2.2.2 m1 m2 h1 h2 h3 h4 h5
  month_key_inj := fun _ _ _ _ _ _ _ _ _ h => h
  plain_key := fun _ _ _ _ _ _ _ => rfl

/-! ## Coptic -/

theorem copt_isLeap_iff (y : Int) : Copt.isLeap y = true ↔ y % 4 = 3 := by simp [Copt.isLeap]

theorem copt_start_closed (y : Int) : Copt.start y = 365 * (y - 1) + y / 4 - 615558 := by
  unfold Copt.start
  simp only [shr2]
  by_cases h1 : Copt.isLeap y = true
  · simp only [h1, if_true]; rw [copt_isLeap_iff] at h1; split <;> omega
  · simp only [h1, if_false, Bool.false_eq_true]; rw [copt_isLeap_iff] at h1; split <;> omega

theorem copt_recur (y : Int) : Copt.start (y + 1) = Copt.start y + Copt.len y ∧ 0 < Copt.len y := by
  rw [copt_start_closed, copt_start_closed]
  unfold Copt.len
  have e : y + 1 - 1 = y := by omega
  rw [e]
  by_cases h1 : Copt.isLeap y = true
  · simp only [h1, if_true]; rw [copt_isLeap_iff] at h1; omega
  · simp only [h1, if_false, Bool.false_eq_true]; rw [copt_isLeap_iff] at h1; omega

theorem copt_est_core (y d q : Int) (hy : 1 ≤ y) (hy2 : y ≤ 9715)
    (hs : 1461 * (y - 1) - 3 ≤ 4 * (d + 615558))
    (he : 4 * (d + 615558) < 1461 * y + 4)
    (hq1 : 3654 * q ≤ (d + 615558) * 10 ∧ (d + 615558) * 10 < 3654 * q + 3654) :
    1 ≤ q + 1 ∧ q + 1 ≤ 9715 + 1 ∧ q + 1 ≤ y + 60 ∧ y ≤ q + 1 + 60 := by
  omega

theorem copt_months (leap : Bool) (doy : Int) (h1 : 1 ≤ doy) (h2 : doy ≤ (if leap then 366 else 365)) :
    1 ≤ Int.tdiv (doy - 1) 30 + 1 ∧ Int.tdiv (doy - 1) 30 + 1 ≤ 13 ∧ 1 ≤ Int.fmod (doy - 1) 30 + 1 ∧
    Int.fmod (doy - 1) 30 + 1 ≤ (if Int.tdiv (doy - 1) 30 + 1 ≠ 13 then 30 else if leap then 6 else 5) ∧
    (Int.tdiv (doy - 1) 30 + 1 - 1) * 30 + (Int.fmod (doy - 1) 30 + 1) = doy := by
  rw [tdiv_pos _ _ (by decide : (0 : Int) < 30), fmod_pos _ _ (by decide : (0 : Int) < 30), if_pos (by omega)]
  cases leap <;> simp only [if_true, if_false, Bool.false_eq_true] at h2 ⊢ <;> (split <;> omega)

theorem copt_unsplit (leap : Bool) (m dd : Int) (h1 : 1 ≤ m) (h2 : m ≤ 13) (h3 : 1 ≤ dd)
    (h4 : dd ≤ (if m ≠ 13 then 30 else if leap then 6 else 5)) :
    1 ≤ (m - 1) * 30 + dd ∧ (m - 1) * 30 + dd ≤ (if leap then 366 else 365) ∧
    (Int.tdiv ((m - 1) * 30 + dd - 1) 30 + 1, Int.fmod ((m - 1) * 30 + dd - 1) 30 + 1) = (m, dd) := by
  rw [tdiv_pos _ _ (by decide : (0 : Int) < 30), fmod_pos _ _ (by decide : (0 : Int) < 30),
    if_pos (show 0 ≤ (m - 1) * 30 + dd - 1 by omega)]
  have hL : (if leap then (366 : Int) else 365) = 360 + (if leap then 6 else 5) := by cases leap <;> rfl
  have h6 : (5 : Int) ≤ (if leap then 6 else 5) ∧ (if leap then (6 : Int) else 5) ≤ 6 := by cases leap <;> decide
  rw [hL]
  generalize (if leap then (6 : Int) else 5) = e at *
  have hdd : dd ≤ 30 ∧ (m = 13 → dd ≤ e) := by
    by_cases hm : m ≠ 13
    · rw [if_pos hm] at h4; exact ⟨h4, fun h => absurd h hm⟩
    · rw [if_neg hm] at h4; exact ⟨by omega, fun _ => h4⟩
  have a : ((m - 1) * 30 + dd - 1) / 30 = m - 1 := by omega
  have b : ((m - 1) * 30 + dd - 1) % 30 = dd - 1 := by omega
  rw [a, b]
  refine ⟨by omega, ?_, ?_⟩
  · by_cases hm : m = 13
    · have := hdd.2 hm; omega
    · omega
  · congr 1 <;> omega

theorem copt_wf : WF Copt.cal where
  dom_lo := by decide
  search_lo := by decide
  recur_lo := fun y h1 h2 => by
    have a : (1 : Int) ≤ y := h1
    have b : y < (1 : Int) := h2
    omega
  dom_hi := by decide
  year_order := by decide
  recur := fun y _ _ => copt_recur y
  avg_ok := by decide
  small := by decide
  est := by
    intro y d hy hy2 hs he
    show 1 ≤ Int.tdiv ((d - (-615558)) * 10) (3653 + 1) + 1 ∧ _
    have hy' : 1 ≤ y := hy
    have hy2' : y ≤ 9715 := hy2
    have hs' : Copt.start y ≤ d := hs
    have he' : d < Copt.start (y + 1) := he
    rw [copt_start_closed] at hs' he'
    have e1 : y + 1 - 1 = y := by omega
    rw [e1] at he'
    have e2 : (d - (-615558)) * 10 = (d + 615558) * 10 := by omega
    have e3 : (3653 : Int) + 1 = 3654 := by decide
    rw [e2, e3]
    have tb := tdiv_bounds ((d + 615558) * 10) 3654 (by decide)
    exact copt_est_core y d _ hy' hy2' (by omega) (by omega) (tb.1 (by omega))
  split_ok := by
    intro y doy _ _ h1 h2
    have h2' : doy ≤ (if Copt.isLeap y then 366 else 365) := h2
    exact copt_months (Copt.isLeap y) doy h1 h2'
  unsplit_ok := by
    intro y m dd _ _ h1 h2 h3 h4
    exact copt_unsplit (Copt.isLeap y) m dd h1 h2 h3 h4
  pack_year := by decide
  pack_month := fun _ _ _ => by show (1 : Int) ≤ 13 ∧ (13 : Int) ≤ 32; decide
  pack_day := by
    intro y m _ _ h1 h2
    show 1 ≤ (if m ≠ 13 then 30 else if Copt.isLeap y then 6 else 5) ∧
      (if m ≠ 13 then 30 else if Copt.isLeap y then 6 else 5) ≤ 64
    by_cases hm : m ≠ 13
    · rw [if_pos hm]; omega
    · rw [if_neg hm]; cases Copt.isLeap y <;> decide
  month_order := by
    intro y m1 m2 _ _ h1 h2 h3 h4 h5
    have h5' : m1 < m2 := h5
    have h4' : m2 ≤ 13 := h4
    show (m1 - 1) * 30 + (if m1 ≠ 13 then 30 else if Copt.isLeap y then 6 else 5) ≤ (m2 - 1) * 30
    rw [if_pos (by omega)]; omega
  month_key_inj := fun _ _ _ _ _ _ _ _ _ h => h
  plain_key := fun _ _ _ _ _ _ _ => rfl

end Pyoda.C01
