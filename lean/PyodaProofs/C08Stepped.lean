/-
  C08 (generic engine) — parsing with ANY stepped pattern of the modelled step language never raises:
  for every culture record, every list of modelled steps, every input text and every bucket the parse actions
  return a result value; the LocalTime / LocalDate / Offset pattern objects (stepped, `Z`-prefixed, composite)
  built on them return a success or a failure result for every text.  LocalTime and Offset patterns produced by
  `compile` only contain modelled steps (LocalDate patterns do unless they use the era `g` / calendar `c` fields).
-/
import PyodaModel.Text.Buckets
import PyodaModel.Text.WellFormed
import PyodaProofs.C08
import PyodaProofs.C08Create

namespace Pyoda.C08
open Pyoda Pyoda.Text

/-- steps whose parse action is modelled for every text (everything except the calendar field, whose model
    stops at texts naming a calendar other than ISO) -/
def stepModelled : Step → Bool
  | .calendar => false
  | _ => true

theorem parseStep_total (cu : Culture) (l : Text) (b : Bucket) (s : Step) (h : stepModelled s = true) :
    ∃ r, parseStep cu l b s = .ok r := by
  cases s <;> simp only [stepModelled] at h <;> simp only [parseStep] <;> (repeat' split) <;>
    first | exact ⟨_, rfl⟩ | cases h

/-- **parse_total**, generic: the parse actions of any list of modelled steps return a result value -/
theorem parseSteps_total (cu : Culture) : ∀ (steps : List Step) (l : Text) (b : Bucket),
    steps.all stepModelled = true → ∃ r, parseSteps cu steps l b = .ok r := by
  intro steps
  induction steps with
  | nil => intro l b _; exact ⟨_, rfl⟩
  | cons s ss ih =>
    intro l b h
    simp only [List.all_cons, Bool.and_eq_true] at h
    unfold parseSteps
    obtain ⟨r, hr⟩ := parseStep_total cu l b s h.1
    rw [hr]
    cases r with
    | none => exact ⟨_, rfl⟩
    | some p => obtain ⟨b', l'⟩ := p; exact ih l' b' h.2

/-- `_LocalDateTimeParseBucket._combine_buckets` never raises: the only raise inside (`plus_days(1)` on the last
    day of the calendar) is turned into a failure result -/
theorem dtValue_total (tm : Tmpl) (used : Nat) (b : Bucket) : ∃ r, dtValue tm used b = .ok r := by
  unfold dtValue
  dsimp only
  split
  · exact ⟨_, rfl⟩
  · split
    · exact ⟨_, rfl⟩
    · split
      · split
        · exact ⟨_, rfl⟩
        · split
          · exact ⟨_, rfl⟩
          · rename_i e hne he
            exact absurd (plusOneDay_error _ _ _ e he) hne
          · exact ⟨_, rfl⟩
      · exact ⟨_, rfl⟩

/-- `Duration.from_nanoseconds` does not raise inside the Duration range -/
theorem durFromNanos_ok (n : Int) (h0 : DUR_MIN_NANOS ≤ n) (h1 : n ≤ DUR_MAX_NANOS) :
    durFromNanos n = .ok (n / NPD, n % NPD) := by
  unfold DUR_MIN_NANOS NPD at h0
  unfold DUR_MAX_NANOS NPD at h1
  unfold durFromNanos
  have hc : checkRange n DUR_MIN_NANOS DUR_MAX_NANOS = .ok () := by
    unfold checkRange DUR_MIN_NANOS DUR_MAX_NANOS NPD
    rw [if_neg (by omega)]
  simp only [hc, bind, Except.bind]
  by_cases hn : n ≥ 0
  · rw [if_pos hn]
    simp only [pure, Except.pure, fdiv_pos n NPD (by decide), fmod_pos n NPD (by decide)]
  · rw [if_neg hn]
    have ht : pyTdiv (n + 1) NPD = .ok (Int.tdiv (n + 1) NPD) :=
      pyTdiv_ok (n + 1) NPD (by decide) (by unfold decBound; omega) (by unfold decBound; omega) (by decide) (by decide)
    rw [ht]
    simp only [pure, Except.pure]
    rw [tdiv_pos _ _ (by decide : (0 : Int) < NPD)]
    have : ¬ (0 ≤ n + 1) ∨ n = -1 := by omega
    unfold NPD
    congr 2
    · split <;> omega
    · split <;> omega

/-- `_DurationParseBucket.calculate_value` never raises: the total is range-checked before `from_nanoseconds` -/
theorem durationValue_total (b : Bucket) : ∃ r, durationValue b = .ok r := by
  unfold durationValue
  dsimp only
  generalize (if b .sign = 1 then -(b .dayOfMonth * NPD + b .hours24 * NPH + b .minutes * NPMin + b .seconds * NPS + b .fraction)
    else b .dayOfMonth * NPD + b .hours24 * NPH + b .minutes * NPMin + b .seconds * NPS + b .fraction) = n
  by_cases h : n < DUR_MIN_NANOS ∨ n > DUR_MAX_NANOS
  · rw [if_pos h]; exact ⟨_, rfl⟩
  · rw [if_neg h, durFromNanos_ok n (by omega) (by omega)]
    exact ⟨_, rfl⟩

/-- the pattern types of this file: LocalTime, LocalDate / LocalDateTime with an ISO template value, Offset, AnnualDate,
    Duration; template values of other calendars and the calendar field are the subject of `C08Calendar.lean` -/
def isoTy : PType → Bool
  | .dateC _ => false
  | .datetimeC _ => false
  | _ => true

theorem bucketValue_total (ty : PType) (hty : isoTy ty = true) (used : Nat) (b : Bucket) : ∃ r, bucketValue ty used b = .ok r := by
  unfold bucketValue
  cases ty with
  | dateC tc => simp [isoTy] at hty
  | datetimeC tc => simp [isoTy] at hty
  | time => exact ⟨_, rfl⟩
  | date => exact ⟨_, rfl⟩
  | offset =>
    dsimp only
    unfold offsetBucketValue
    obtain ⟨o, ho⟩ := offsetValue_total (decide (b .sign = 1)) (b .hours24) (b .minutes) (b .seconds)
    rw [ho]; exact ⟨_, rfl⟩
  | datetime tm =>
    dsimp only
    obtain ⟨o, ho⟩ := dtValue_total tm used b
    rw [ho]; exact ⟨_, rfl⟩
  | annual tm td => exact ⟨_, rfl⟩
  | duration =>
    dsimp only
    obtain ⟨o, ho⟩ := durationValue_total b
    rw [ho]; exact ⟨_, rfl⟩

/-- a stepped pattern of any of the modelled types: no exception for any text -/
theorem parseCompiled_total (ty : PType) (hty : isoTy ty = true) (c : Compiled) (l : Text) (h : c.steps.all stepModelled = true) :
    ∃ r, parseCompiled ty c l = .ok r := by
  unfold parseCompiled
  split
  · exact ⟨_, rfl⟩
  · obtain ⟨r, hr⟩ := parseSteps_total c.cu c.steps l (bucket0 ty) h
    rw [hr]
    cases r with
    | none => exact ⟨_, rfl⟩
    | some p =>
      obtain ⟨b, rest⟩ := p
      dsimp only
      obtain ⟨o, ho⟩ := bucketValue_total ty hty c.used b
      rw [ho]
      cases o with
      | none => exact ⟨_, rfl⟩
      | some v => dsimp only; split <;> exact ⟨_, rfl⟩

theorem hasCalendarStep_of_modelled (steps : List Step) (h : steps.all stepModelled = true) : hasCalendarStep steps = false := by
  unfold hasCalendarStep
  rw [Bool.eq_false_iff]
  intro hh
  rw [List.any_eq_true] at hh
  obtain ⟨s, hs, he⟩ := hh
  rw [List.all_eq_true] at h
  have := h s hs
  have e : s = .calendar := by simpa using he
  subst e
  simp [stepModelled] at this

/-- a pattern without the calendar step is evaluated by the bucket of its own type -/
theorem evalType_of_modelled (ty : PType) (steps : List Step) (h : steps.all stepModelled = true) : evalType ty steps = ty := by
  have hc := hasCalendarStep_of_modelled steps h
  unfold evalType
  cases ty <;> simp [hc]

/-- segments all of whose steps are modelled -/
def segOK : Seg → Bool
  | .plain ss => ss.all stepModelled
  | .date c => c.steps.all stepModelled
  | .time c => c.steps.all stepModelled

/-- segments without a calendar step are evaluated by the ISO-template path -/
theorem segsUseCalendar_of_segOK (segs : List Seg) (h : segs.all segOK = true) : segsUseCalendar segs = false := by
  unfold segsUseCalendar
  rw [Bool.eq_false_iff]
  intro hh
  rw [List.any_eq_true] at hh
  obtain ⟨sg, hm, he⟩ := hh
  rw [List.all_eq_true] at h
  have hs := h sg hm
  cases sg with
  | plain ss => simp only [segOK] at hs; dsimp only at he; rw [hasCalendarStep_of_modelled ss hs] at he; cases he
  | date c => simp only [segOK] at hs; dsimp only at he; rw [hasCalendarStep_of_modelled c.steps hs] at he; cases he
  | time c => cases he

theorem dtValueE_total (tm : Tmpl) (used : Nat) (b : Bucket) : ∃ r, dtValueE tm used b = .ok r := by
  unfold dtValueE
  dsimp only
  split
  · exact ⟨_, rfl⟩
  · split
    · exact ⟨_, rfl⟩
    · split
      · split
        · exact ⟨_, rfl⟩
        · split
          · exact ⟨_, rfl⟩
          · rename_i e hne he
            exact absurd (plusOneDay_error _ _ _ e he) hne
          · exact ⟨_, rfl⟩
      · exact ⟨_, rfl⟩

/-- the parse actions of a segmented LocalDateTime pattern (embedded patterns included) return a result value -/
theorem parseSegs_total (tm : Tmpl) (cu : Culture) : ∀ (segs : List Seg) (l : Text) (b : Bucket),
    segs.all segOK = true → ∃ r, parseSegs tm cu segs l b = .ok r := by
  intro segs
  induction segs with
  | nil => intro l b _; exact ⟨_, rfl⟩
  | cons sg segs ih =>
    intro l b h
    simp only [List.all_cons, Bool.and_eq_true] at h
    cases sg with
    | plain ss =>
      unfold parseSegs
      obtain ⟨r, hr⟩ := parseSteps_total cu ss l b h.1
      rw [hr]
      cases r with
      | none => exact ⟨_, rfl⟩
      | some p => obtain ⟨b', l'⟩ := p; exact ih l' b' h.2
    | date c =>
      unfold parseSegs
      obtain ⟨r, hr⟩ := parseSteps_total c.cu c.steps l dateBucket0 h.1
      rw [hr]
      cases r with
      | none => exact ⟨_, rfl⟩
      | some p =>
        obtain ⟨bi, l'⟩ := p
        dsimp only
        cases dateValueT tm.y tm.m tm.d c.used bi with
        | none => exact ⟨_, rfl⟩
        | some v => obtain ⟨y, m, d⟩ := v; exact ih _ _ h.2
    | time c =>
      unfold parseSegs
      obtain ⟨r, hr⟩ := parseSteps_total c.cu c.steps l (timeBucket0 tm.nod) h.1
      rw [hr]
      cases r with
      | none => exact ⟨_, rfl⟩
      | some p =>
        obtain ⟨bi, l'⟩ := p
        dsimp only
        cases timeValue tm.nod c.used bi with
        | none => exact ⟨_, rfl⟩
        | some t => exact ih _ _ h.2

theorem parseSegmented_total (tm : Tmpl) (cu : Culture) (used : Nat) (segs : List Seg) (l : Text)
    (h : segs.all segOK = true) : ∃ r, parseSegmented tm cu used segs l = .ok r := by
  unfold parseSegmented
  split
  · exact ⟨_, rfl⟩
  · obtain ⟨r, hr⟩ := parseSegs_total tm cu segs l (dtBucket0 tm) h
    rw [hr]
    cases r with
    | none => exact ⟨_, rfl⟩
    | some p =>
      obtain ⟨b, rest⟩ := p
      dsimp only
      obtain ⟨o, ho⟩ := dtValueE_total tm used b
      rw [ho]
      cases o with
      | none => exact ⟨_, rfl⟩
      | some v => dsimp only; split <;> exact ⟨_, rfl⟩

mutual
/-- pattern objects (stepped, `Z`-prefixed, composite) all of whose stepped parts consist of modelled steps; segmented
    LocalDateTime patterns have their own statement (`parseSegmented_total`) -/
def patOK : Pat → Bool
  | .stepped c => c.steps.all stepModelled
  | .zprefix p => patOK p
  | .composite ps => patsOK ps
  | .segmented _ _ _ => false
def patsOK : List Pat → Bool
  | [] => true
  | p :: ps => patOK p && patsOK ps
end

mutual
/-- **parse_total** for pattern objects (stepped, `Z`-prefixed, composite, nested arbitrarily): for every text a
    success or a failure result, never an exception -/
theorem parsePat_total (ty : PType) (hty : isoTy ty = true) (l : Text) : ∀ p : Pat, patOK p = true → ∃ r, parsePat ty l p = .ok r
  | .stepped c, h => by
      simp only [patOK] at h; simp only [parsePat]
      rw [evalType_of_modelled ty c.steps h]
      exact parseCompiled_total ty hty c l h
  | .zprefix p, h => by
      simp only [patOK] at h; rw [parsePat]
      split
      · exact ⟨_, rfl⟩
      · exact parsePat_total ty hty l p h
  | .composite ps, h => by
      simp only [patOK] at h; rw [parsePat]
      split
      · exact ⟨_, rfl⟩
      · exact parsePats_total ty hty l ps h
  | .segmented _ _ _, h => by simp [patOK] at h
theorem parsePats_total (ty : PType) (hty : isoTy ty = true) (l : Text) : ∀ ps : List Pat, patsOK ps = true → ∃ r, parsePats ty l ps = .ok r
  | [], _ => by rw [parsePats]; exact ⟨_, rfl⟩
  | p :: ps, h => by
      simp only [patsOK, Bool.and_eq_true] at h
      rw [parsePats]
      obtain ⟨r, hr⟩ := parsePat_total ty hty l p h.1
      rw [hr]
      cases r with
      | some v => exact ⟨_, rfl⟩
      | none => exact parsePats_total ty hty l ps h.2
end

/-! ## what `compile` builds is modelled (LocalTime and Offset: always) -/

/-- the handler kept the steps so far and added only modelled ones -/
def Grows (st st' : CSt) : Prop := ∃ added, st'.steps = st.steps ++ added ∧ added.all stepModelled = true

theorem grows_refl (st : CSt) : Grows st st := ⟨[], by simp, rfl⟩

theorem addField_steps (st st' : CSt) (bit : Nat) (h : addField st bit = .ok st') : st'.steps = st.steps := by
  unfold addField at h
  split at h
  · cases h
  · injection h with h; rw [← h]

theorem grows_addStep (st : CSt) (s : Step) (h : stepModelled s = true) : Grows st (addStep st s) :=
  ⟨[s], rfl, by simp [h]⟩

theorem grows_of_steps_eq (st st1 st' : CSt) (e : st1.steps = st.steps) (g : Grows st1 st') : Grows st st' := by
  obtain ⟨a, h1, h2⟩ := g; exact ⟨a, by rw [h1, e], h2⟩

theorem handlePadded_grows (c : Char) (rest : Text) (st : CSt) (maxCount bit : Nat) (minV maxV : Int) (slot : Slot)
    (st' : CSt) (k : Nat) (h : handlePadded c rest st maxCount bit minV maxV slot = .ok (st', k)) : Grows st st' := by
  unfold handlePadded at h
  cases h1 : repeatCount c rest maxCount with
  | error e => rw [h1] at h; cases h
  | ok n =>
    rw [h1] at h; dsimp only at h
    cases h2 : addField st bit with
    | error e => rw [h2] at h; cases h
    | ok st1 =>
      rw [h2] at h; injection h with h; injection h with h _
      rw [← h]
      exact grows_of_steps_eq st st1 _ (addField_steps st st1 bit h2) (grows_addStep st1 _ rfl)

theorem handleCounted_grows (c : Char) (rest : Text) (st : CSt) (maxCount bit : Nat) (mk : Nat → Step)
    (hmk : ∀ n, stepModelled (mk n) = true)
    (st' : CSt) (k : Nat) (h : handleCounted c rest st maxCount bit mk = .ok (st', k)) : Grows st st' := by
  unfold handleCounted at h
  cases h1 : repeatCount c rest maxCount with
  | error e => rw [h1] at h; cases h
  | ok n =>
    rw [h1] at h; dsimp only at h
    cases h2 : addField st bit with
    | error e => rw [h2] at h; cases h
    | ok st1 =>
      rw [h2] at h; injection h with h; injection h with h _
      rw [← h]
      exact grows_of_steps_eq st st1 _ (addField_steps st st1 bit h2) (grows_addStep st1 _ (hmk n))

theorem handleSingle_grows (st : CSt) (bit : Nat) (step : Step) (hs : stepModelled step = true)
    (st' : CSt) (k : Nat) (h : handleSingle st bit step = .ok (st', k)) : Grows st st' := by
  unfold handleSingle at h
  cases h2 : addField st bit with
  | error e => rw [h2] at h; cases h
  | ok st1 =>
    rw [h2] at h; injection h with h; injection h with h _
    rw [← h]
    exact grows_of_steps_eq st st1 _ (addField_steps st st1 bit h2) (grows_addStep st1 _ hs)

theorem handleDot_grows (comma : Bool) (rest : Text) (st st' : CSt) (k : Nat)
    (h : handleDot comma rest st = .ok (st', k)) : Grows st st' := by
  unfold handleDot at h
  split at h
  · rename_i r
    cases h1 : repeatCount 'F' r 9 with
    | error e => rw [h1] at h; cases h
    | ok n =>
      rw [h1] at h; dsimp only at h
      cases h2 : addField st F.fraction with
      | error e => rw [h2] at h; cases h
      | ok st1 =>
        rw [h2] at h; injection h with h; injection h with h _
        rw [← h]
        exact grows_of_steps_eq st st1 _ (addField_steps st st1 _ h2) (grows_addStep st1 _ rfl)
  · injection h with h; injection h with h _
    rw [← h]
    cases comma <;> exact grows_addStep st _ rfl

theorem handleFraction_grows (c : Char) (rest : Text) (st st' : CSt) (k : Nat)
    (h : handleFraction c rest st = .ok (st', k)) : Grows st st' := by
  unfold handleFraction at h
  cases h1 : repeatCount c rest 9 with
  | error e => rw [h1] at h; cases h
  | ok n =>
    rw [h1] at h; dsimp only at h
    cases h2 : addField st F.fraction with
    | error e => rw [h2] at h; cases h
    | ok st1 =>
      rw [h2] at h; injection h with h; injection h with h _
      rw [← h]
      exact grows_of_steps_eq st st1 _ (addField_steps st st1 _ h2) (grows_addStep st1 _ rfl)

theorem handleDefault_grows (c : Char) (st st' : CSt) (k : Nat) (h : handleDefault c st = .ok (st', k)) : Grows st st' := by
  unfold handleDefault at h
  split at h
  · cases h
  · injection h with h; injection h with h _; rw [← h]; exact grows_addStep st _ rfl

theorem handleCommon_grows (c : Char) (rest : Text) (st st' : CSt) (k : Nat)
    (h : handleCommon c rest st = some (.ok (st', k))) : Grows st st' := by
  unfold handleCommon at h
  split at h
  · injection h with h
    unfold handlePercent at h
    split at h
    · cases h
    · split at h
      · cases h
      · injection h with h; injection h with h _; rw [← h]; exact grows_refl st
  · split at h
    · injection h with h
      unfold handleQuote at h
      cases hq : quotedString c rest with
      | error e => rw [hq] at h; cases h
      | ok p => rw [hq] at h; injection h with h; injection h with h _; rw [← h]; exact grows_addStep st _ rfl
    · split at h
      · injection h with h
        unfold handleBackslash at h
        split at h
        · cases h
        · injection h with h; injection h with h _; rw [← h]; exact grows_addStep st _ rfl
      · cases h

set_option hygiene false in
macro "grows_cases" : tactic => `(tactic|
  repeat' (first
    | exact handleDot_grows _ _ _ _ _ h
    | exact handlePadded_grows _ _ _ _ _ _ _ _ _ _ h
    | exact handleFraction_grows _ _ _ _ _ h
    | exact handleCounted_grows _ _ _ _ _ _ (fun _ => rfl) _ _ h
    | exact handleSingle_grows _ _ _ rfl _ _ h
    | exact handleDefault_grows _ _ _ _ h
    | (injection h with h'; injection h' with h'' _; rw [← h'']; exact grows_addStep _ _ rfl)
    | cases h
    | split at h))

theorem handleTime_grows (cu : Culture) (c : Char) (rest : Text) (st st' : CSt) (k : Nat)
    (h : handleTime cu c rest st = .ok (st', k)) : Grows st st' := by
  unfold handleTime at h
  cases hc : handleCommon c rest st with
  | some r => rw [hc] at h; dsimp only at h; rw [h] at hc; exact handleCommon_grows c rest st st' k hc
  | none => rw [hc] at h; dsimp only at h; grows_cases

theorem handleOffset_grows (cu : Culture) (c : Char) (rest : Text) (st st' : CSt) (k : Nat)
    (h : handleOffset cu c rest st = .ok (st', k)) : Grows st st' := by
  unfold handleOffset at h
  cases hc : handleCommon c rest st with
  | some r => rw [hc] at h; dsimp only at h; rw [h] at hc; exact handleCommon_grows c rest st st' k hc
  | none => rw [hc] at h; dsimp only at h; grows_cases

/-- the types whose handler table has no calendar field -/
def noCalendarField : PType → Bool
  | .time => true
  | .offset => true
  | .annual _ _ => true
  | .duration => true
  | _ => false

theorem handleMonthOrDay_grows (month : Bool) (c : Char) (rest : Text) (st st' : CSt) (k : Nat)
    (h : handleMonthOrDay month c rest st = .ok (st', k)) : Grows st st' := by
  unfold handleMonthOrDay at h
  cases h1 : repeatCount c rest 4 with
  | error e => rw [h1] at h; cases h
  | ok n =>
    rw [h1] at h; dsimp only at h
    generalize hstep : (if decide (n ≤ 2) = true then if month = true then Step.num Slot.monthNum Slot.monthNum n 2 1 99
      else Step.num Slot.dayOfMonth Slot.dayOfMonth n 2 1 99 else if month = true then Step.monthText n else Step.dayText n) = step at h
    generalize hb : (if decide (n ≤ 2) = true then if month = true then F.monthNum else F.dayOfMonth
      else if month = true then F.monthText else F.dayOfWeek) = bit at h
    have hm : stepModelled step = true := by
      rw [← hstep]; split <;> split <;> rfl
    cases h2 : addField (addStep st step) bit with
    | error e => rw [h2] at h; cases h
    | ok st1 =>
      rw [h2] at h; injection h with h; injection h with h _
      rw [← h]
      obtain ⟨a, e1, e2⟩ := grows_addStep st step hm
      exact ⟨a, by rw [addField_steps _ st1 bit h2, e1], e2⟩

theorem handleAnnualDay_grows (c : Char) (rest : Text) (st st' : CSt) (k : Nat)
    (h : handleAnnualDay c rest st = .ok (st', k)) : Grows st st' := by
  unfold handleAnnualDay at h
  cases h1 : repeatCount c rest 2 with
  | error e => rw [h1] at h; cases h
  | ok n =>
    rw [h1] at h; dsimp only at h
    cases h2 : addField (addStep st (.num .dayOfMonth .dayOfMonth n 2 1 99)) F.dayOfMonth with
    | error e => rw [h2] at h; cases h
    | ok st1 =>
      rw [h2] at h; injection h with h; injection h with h _
      rw [← h]
      obtain ⟨a, e1, e2⟩ := grows_addStep st (.num .dayOfMonth .dayOfMonth n 2 1 99) rfl
      exact ⟨a, by rw [addField_steps _ st1 _ h2, e1], e2⟩

theorem handleTotal_grows (c : Char) (rest : Text) (st : CSt) (maxCount bit : Nat) (maxV : Int) (g s : Slot)
    (st' : CSt) (k : Nat) (h : handleTotal c rest st maxCount bit maxV g s = .ok (st', k)) : Grows st st' := by
  unfold handleTotal at h
  cases h1 : repeatCount c rest maxCount with
  | error e => rw [h1] at h; cases h
  | ok n =>
    rw [h1] at h; dsimp only at h
    split at h
    · cases h
    · cases h2 : addField st bit with
      | error e => rw [h2] at h; cases h
      | ok st1 =>
        rw [h2] at h; dsimp only at h
        cases h3 : addField st1 F.totalDuration with
        | error e => rw [h3] at h; cases h
        | ok st2 =>
          rw [h3] at h; injection h with h; injection h with h _
          rw [← h]
          have e : st2.steps = st.steps := by rw [addField_steps st1 st2 _ h3, addField_steps st st1 _ h2]
          exact grows_of_steps_eq st st2 _ e (grows_addStep st2 _ rfl)

theorem handleAnnual_grows (cu : Culture) (c : Char) (rest : Text) (st st' : CSt) (k : Nat)
    (h : handleAnnual cu c rest st = .ok (st', k)) : Grows st st' := by
  unfold handleAnnual at h
  cases hc : handleCommon c rest st with
  | some r => rw [hc] at h; dsimp only at h; rw [h] at hc; exact handleCommon_grows c rest st st' k hc
  | none =>
    rw [hc] at h; dsimp only at h
    repeat' (first
      | exact handleMonthOrDay_grows _ _ _ _ _ _ h
      | exact handleAnnualDay_grows _ _ _ _ _ h
      | exact handleDefault_grows _ _ _ _ h
      | (injection h with h'; injection h' with h'' _; rw [← h'']; exact grows_addStep _ _ rfl)
      | cases h
      | split at h)

theorem handleDuration_grows (cu : Culture) (c : Char) (rest : Text) (st st' : CSt) (k : Nat)
    (h : handleDuration cu c rest st = .ok (st', k)) : Grows st st' := by
  unfold handleDuration at h
  cases hc : handleCommon c rest st with
  | some r => rw [hc] at h; dsimp only at h; rw [h] at hc; exact handleCommon_grows c rest st st' k hc
  | none =>
    rw [hc] at h; dsimp only at h
    by_cases c0 : c = '.'
    · rw [if_pos c0] at h; exact handleDot_grows _ _ _ _ _ h
    rw [if_neg c0] at h
    by_cases c1 : c = ':'
    · rw [if_pos c1] at h; injection h with h'; injection h' with h'' _; rw [← h'']; exact grows_addStep _ _ rfl
    rw [if_neg c1] at h
    by_cases c2 : c = 'D'
    · rw [if_pos c2] at h; exact handleTotal_grows _ _ _ _ _ _ _ _ _ _ h
    rw [if_neg c2] at h
    by_cases c3 : c = 'H'
    · rw [if_pos c3] at h; exact handleTotal_grows _ _ _ _ _ _ _ _ _ _ h
    rw [if_neg c3] at h
    by_cases c4 : c = 'h'
    · rw [if_pos c4] at h; exact handlePadded_grows _ _ _ _ _ _ _ _ _ _ h
    rw [if_neg c4] at h
    by_cases c5 : c = 'M'
    · rw [if_pos c5] at h; exact handleTotal_grows _ _ _ _ _ _ _ _ _ _ h
    rw [if_neg c5] at h
    by_cases c6 : c = 'm'
    · rw [if_pos c6] at h; exact handlePadded_grows _ _ _ _ _ _ _ _ _ _ h
    rw [if_neg c6] at h
    by_cases c7 : c = 'S'
    · rw [if_pos c7] at h; exact handleTotal_grows _ _ _ _ _ _ _ _ _ _ h
    rw [if_neg c7] at h
    by_cases c8 : c = 's'
    · rw [if_pos c8] at h; exact handlePadded_grows _ _ _ _ _ _ _ _ _ _ h
    rw [if_neg c8] at h
    by_cases c9 : c = 'f' ∨ c = 'F'
    · rw [if_pos c9] at h; exact handleFraction_grows _ _ _ _ _ h
    rw [if_neg c9] at h
    by_cases c10 : c = '+'
    · rw [if_pos c10] at h; exact handleSingle_grows _ _ _ rfl _ _ h
    rw [if_neg c10] at h
    by_cases c11 : c = '-'
    · rw [if_pos c11] at h; exact handleSingle_grows _ _ _ rfl _ _ h
    rw [if_neg c11] at h
    exact handleDefault_grows _ _ _ _ h

theorem compileLoop_modelled (ty : PType) (hty : noCalendarField ty = true) (cu : Culture) : ∀ (fuel : Nat) (text : Text) (st st' : CSt),
    compileLoop ty cu fuel text st = .ok st' → st.steps.all stepModelled = true → st'.steps.all stepModelled = true := by
  intro fuel
  induction fuel with
  | zero =>
    intro text st st' h hs
    cases text with
    | nil => unfold compileLoop at h; injection h with h; rw [← h]; exact hs
    | cons c r => unfold compileLoop at h; cases h
  | succ f ih =>
    intro text st st' h hs
    cases text with
    | nil => unfold compileLoop at h; injection h with h; rw [← h]; exact hs
    | cons c rest =>
      unfold compileLoop at h
      cases hh : handleChar ty cu c rest st with
      | error e => rw [hh] at h; cases h
      | ok p =>
        obtain ⟨st1, k⟩ := p
        rw [hh] at h; dsimp only at h
        have g : Grows st st1 := by
          unfold handleChar at hh
          cases ty with
          | time => exact handleTime_grows cu c rest st st1 k hh
          | date => cases hty
          | offset => exact handleOffset_grows cu c rest st st1 k hh
          | datetime tm => cases hty
          | annual tm td => exact handleAnnual_grows cu c rest st st1 k hh
          | duration => exact handleDuration_grows cu c rest st st1 k hh
          | dateC tc => cases hty
          | datetimeC tc => cases hty
        obtain ⟨added, e1, e2⟩ := g
        exact ih _ st1 st' h (by rw [e1, List.all_append, hs, e2]; rfl)

/-- every LocalTime / Offset stepped pattern that `compileCustom` builds consists of modelled steps -/
theorem compileCustom_modelled (ty : PType) (hty : noCalendarField ty = true) (cu : Culture) (text : Text) (c : Compiled)
    (h : compileCustom ty cu text = .ok c) : c.steps.all stepModelled = true := by
  unfold compileCustom at h
  cases h1 : compileLoop ty cu text.length text ⟨0, []⟩ with
  | error e => rw [h1] at h; cases h
  | ok st =>
    rw [h1] at h; dsimp only at h
    split at h
    · cases h
    · injection h with h; rw [← h]
      exact compileLoop_modelled ty hty cu _ _ _ _ h1 rfl

theorem steppedOf_patOK (ty : PType) (hty : noCalendarField ty = true) (cu : Culture) (t : Text) (p : Pat)
    (h : steppedOf (compileCustom ty cu t) = .ok p) : patOK p = true := by
  unfold steppedOf at h
  cases hc : compileCustom ty cu t with
  | error e => rw [hc] at h; cases h
  | ok c =>
    rw [hc] at h; injection h with h; rw [← h]
    simp only [patOK]
    exact compileCustom_modelled ty hty cu t c hc

theorem compileTime_patOK (cu : Culture) (ptext : Text) (p : Pat) (h : compileTime cu ptext = .ok p) : patOK p = true := by
  unfold compileTime at h
  split at h
  · cases h
  · repeat' (first | exact steppedOf_patOK .time rfl _ _ p h | cases h | split at h)
  · exact steppedOf_patOK .time rfl _ _ p h

theorem compileOffsetText_patOK (cu : Culture) (t : Text) (p : Pat) (h : compileOffsetText cu t = .ok p) : patOK p = true := by
  unfold compileOffsetText at h
  split at h
  · cases h
  · split at h
    · rename_i rest _
      cases hc : compileCustom .offset cu rest with
      | error e => rw [hc] at h; cases h
      | ok c =>
        rw [hc] at h; injection h with h; rw [← h]
        simp only [patOK]
        exact compileCustom_modelled .offset rfl cu rest c hc
    · exact steppedOf_patOK .offset rfl _ _ p h

theorem sequenceR_patsOK (l : List (R Pat)) (hl : ∀ r ∈ l, ∀ p, r = .ok p → patOK p = true) (ps : List Pat)
    (h : sequenceR l = .ok ps) : patsOK ps = true := by
  induction l generalizing ps with
  | nil => unfold sequenceR at h; injection h with h; rw [← h]; rfl
  | cons r rs ih =>
    unfold sequenceR at h
    cases hr : r with
    | error e => rw [hr] at h; cases h
    | ok a =>
      rw [hr] at h; dsimp only at h
      cases hs : sequenceR rs with
      | error e => rw [hs] at h; cases h
      | ok as =>
        rw [hs] at h; injection h with h; rw [← h]
        simp only [patsOK, Bool.and_eq_true]
        exact ⟨hl r (by simp) a hr, ih (fun x hx => hl x (by simp [hx])) as hs⟩

theorem mapR_ok {α β : Type} (f : α → β) (r : R α) (b : β) (h : mapR f r = .ok b) : ∃ a, r = .ok a ∧ b = f a := by
  unfold mapR at h
  cases r with
  | error e => cases h
  | ok a => injection h with h; exact ⟨a, rfl, h.symm⟩

theorem compileOffsetAux_patOK (cu : Culture) : ∀ (d : Nat) (t : Text) (p : Pat),
    compileOffsetAux cu d t = .ok p → patOK p = true := by
  intro d
  induction d with
  | zero => intro t p h; unfold compileOffsetAux at h; cases h
  | succ d ih =>
    intro t p h
    unfold compileOffsetAux at h
    have comp : ∀ a b c : Text, ∀ q, mapR Pat.composite (sequenceR [compileOffsetAux cu d a, compileOffsetAux cu d b, compileOffsetAux cu d c]) = .ok q →
        patOK q = true := by
      intro a b c q hq
      obtain ⟨ps, hs, rfl⟩ := mapR_ok _ _ _ hq
      simp only [patOK]
      apply sequenceR_patsOK _ _ ps hs
      intro r hr p' hp'
      simp only [List.mem_cons, List.mem_nil_iff, or_false] at hr
      rcases hr with rfl | rfl | rfl <;> exact ih _ _ hp'
    have zp : ∀ t' q, mapR Pat.zprefix (compileOffsetAux cu d t') = .ok q → patOK q = true := by
      intro t' q hq
      obtain ⟨p', hs, rfl⟩ := mapR_ok _ _ _ hq
      simp only [patOK]; exact ih _ _ hs
    split at h
    · cases h
    · repeat' (first
        | exact comp _ _ _ p h
        | exact zp _ p h
        | exact compileOffsetText_patOK cu _ p h
        | cases h
        | split at h)
    · exact compileOffsetText_patOK cu _ p h

/-- **parse_total** for LocalTime and Offset patterns: whatever pattern text was accepted, in whatever culture
    record, parsing any text returns a result value (a success or a failure), never an exception -/
theorem time_parse_total (cu : Culture) (ptext : Text) (p : Pat) (h : compileTime cu ptext = .ok p) (l : Text) :
    ∃ r, parsePat .time l p = .ok r :=
  parsePat_total .time rfl l p (compileTime_patOK cu ptext p h)

theorem offset_parse_total (cu : Culture) (ptext : Text) (p : Pat) (h : compileOffset cu ptext = .ok p) (l : Text) :
    ∃ r, parsePat .offset l p = .ok r :=
  parsePat_total .offset rfl l p (compileOffsetAux_patOK cu 3 ptext p h)

/-- LocalDate patterns: the same for every compiled pattern that does not use the era / calendar fields -/
theorem date_parse_total (p : Pat) (hp : patOK p = true) (l : Text) : ∃ r, parsePat .date l p = .ok r :=
  parsePat_total .date rfl l p hp

/-! ## a success carries a valid value (Offset: every pattern object, whatever its steps) -/

theorem parseCompiled_offset_valid (c : Compiled) (l : Text) (v : List Int)
    (h : parseCompiled .offset c l = .ok (some v)) : ∃ s, v = [s] ∧ -64800 ≤ s ∧ s ≤ 64800 := by
  unfold parseCompiled at h
  split at h
  · cases h
  · cases hp : parseSteps c.cu c.steps l (bucket0 .offset) with
    | error e => rw [hp] at h; cases h
    | ok o =>
      rw [hp] at h
      cases o with
      | none => cases h
      | some q =>
        obtain ⟨b, rest⟩ := q
        dsimp only at h
        unfold bucketValue offsetBucketValue at h
        dsimp only at h
        cases hv : offsetValue (decide (b .sign = 1)) (b .hours24) (b .minutes) (b .seconds) with
        | error e => rw [hv] at h; cases h
        | ok ov =>
          rw [hv] at h
          cases ov with
          | none => cases h
          | some s =>
            simp only [mapR, Option.map] at h
            split at h
            · injection h with h; injection h with h
              exact ⟨s, h.symm, offsetValue_range _ _ _ _ s hv⟩
            · cases h

mutual
/-- Offset pattern objects of any shape: a success is an offset within ±18 h -/
theorem parsePat_offset_valid (l : Text) : ∀ (p : Pat) (v : List Int), parsePat .offset l p = .ok (some v) →
    ∃ s, v = [s] ∧ -64800 ≤ s ∧ s ≤ 64800
  | .stepped c, v, h => by simp only [parsePat] at h; exact parseCompiled_offset_valid c l v h
  | .zprefix p, v, h => by
      rw [parsePat] at h
      split at h
      · injection h with h; injection h with h; exact ⟨0, h.symm, by decide, by decide⟩
      · exact parsePat_offset_valid l p v h
  | .composite ps, v, h => by
      rw [parsePat] at h
      split at h
      · cases h
      · exact parsePats_offset_valid l ps v h
  | .segmented _ _ _, v, h => by simp only [parsePat] at h; cases h
theorem parsePats_offset_valid (l : Text) : ∀ (ps : List Pat) (v : List Int), parsePats .offset l ps = .ok (some v) →
    ∃ s, v = [s] ∧ -64800 ≤ s ∧ s ≤ 64800
  | [], v, h => by rw [parsePats] at h; cases h
  | p :: ps, v, h => by
      rw [parsePats] at h
      cases hp : parsePat .offset l p with
      | error e => rw [hp] at h; cases h
      | ok o =>
        rw [hp] at h
        cases o with
        | some w => dsimp only at h; injection h with h; injection h with h; subst h; exact parsePat_offset_valid l p w hp
        | none => exact parsePats_offset_valid l ps v h
end

/-! ## a success carries a valid value (LocalTime: every list of well-formed time steps) -/

/-- field values a LocalTime bucket can hold -/
structure TimeBucketOK (b : Bucket) : Prop where
  h24 : 0 ≤ b .hours24 ∧ b .hours24 ≤ 23
  h12 : 0 ≤ b .hours12 ∧ b .hours12 ≤ 12
  mi : 0 ≤ b .minutes ∧ b .minutes ≤ 59
  se : 0 ≤ b .seconds ∧ b .seconds ≤ 59
  fr : 0 ≤ b .fraction ∧ b .fraction < 1000000000
  ap : b .amPm = 0 ∨ b .amPm = 1 ∨ b .amPm = 2

theorem timeBucket0_ok : TimeBucketOK (bucket0 .time) := by
  refine ⟨?_, ?_, ?_, ?_, ?_, ?_⟩ <;> simp only [bucket0, timeBucket0] <;> decide

theorem parseAmPm_range (cu : Culture) (count : Nat) (l : Text) (v : Int) (r : Text)
    (h : parseAmPm cu count l = some (v, r)) : v = 0 ∨ v = 1 ∨ v = 2 := by
  unfold parseAmPm at h
  split at h
  · injection h with h; injection h with h _; omega
  · split at h
    · dsimp only at h
      split at h <;> (injection h with h; injection h with h _; split at h <;> omega)
    · split at h
      · split at h
        · injection h with h; injection h with h _; omega
        · split at h
          · injection h with h; injection h with h _; omega
          · cases h
      · dsimp only at h
        split at h
        · injection h with h; injection h with h _; split at h <;> omega
        · split at h
          · injection h with h; injection h with h _; split at h <;> omega
          · cases h

theorem parseStep_time_ok (cu : Culture) (l : Text) (b b' : Bucket) (r : Text) (s : Step)
    (hw : timeStepWF s = true) (hb : TimeBucketOK b) (h : parseStep cu l b s = .ok (some (b', r))) : TimeBucketOK b' := by
  cases s with
  | lit t =>
    simp only [parseStep] at h
    split at h
    · injection h with h; injection h with h; injection h with h _; rw [← h]; exact hb
    · cases h
  | semi =>
    simp only [parseStep] at h
    split at h
    · injection h with h; injection h with h; injection h with h _; rw [← h]; exact hb
    · cases h
  | amPm count =>
    simp only [parseStep] at h
    cases hp : parseAmPm cu count l with
    | none => rw [hp] at h; cases h
    | some q =>
      obtain ⟨v, r'⟩ := q
      rw [hp] at h; injection h with h; injection h with h; injection h with h _
      have hv := parseAmPm_range cu count l v r' hp
      rw [← h]
      obtain ⟨a1, a2, a3, a4, a5, a6⟩ := hb
      exact ⟨by simpa [Bucket.set] using a1, by simpa [Bucket.set] using a2, by simpa [Bucket.set] using a3,
        by simpa [Bucket.set] using a4, by simpa [Bucket.set] using a5, by simpa [Bucket.set] using hv⟩
  | frac count scale fixed =>
    simp only [timeStepWF, Bool.and_eq_true, decide_eq_true_eq] at hw
    obtain ⟨hc, rfl⟩ := hw
    simp only [parseStep] at h
    rcases parseFraction_total count 9 (if fixed = true then count else 0) l hc with e | ⟨v, r', e, hv⟩
    · rw [e] at h; cases h
    · rw [e] at h; injection h with h; injection h with h; injection h with h _
      rw [← h]
      obtain ⟨a1, a2, a3, a4, a5, a6⟩ := hb
      have : (10 : Nat) ^ 9 = 1000000000 := by decide
      exact ⟨by simpa [Bucket.set] using a1, by simpa [Bucket.set] using a2, by simpa [Bucket.set] using a3,
        by simpa [Bucket.set] using a4, by simp only [Bucket.set, if_true]; omega, by simpa [Bucket.set] using a6⟩
  | dotFrac count scale comma =>
    simp only [timeStepWF, Bool.and_eq_true, decide_eq_true_eq] at hw
    obtain ⟨hc, rfl⟩ := hw
    simp only [parseStep] at h
    split at h
    · injection h with h; injection h with h; injection h with h _; rw [← h]; exact hb
    · rename_i r0 _
      rcases parseFraction_total count 9 1 r0 hc with e | ⟨v, r', e, hv⟩
      · rw [e] at h; cases h
      · rw [e] at h; injection h with h; injection h with h; injection h with h _
        rw [← h]
        obtain ⟨a1, a2, a3, a4, a5, a6⟩ := hb
        have : (10 : Nat) ^ 9 = 1000000000 := by decide
        exact ⟨by simpa [Bucket.set] using a1, by simpa [Bucket.set] using a2, by simpa [Bucket.set] using a3,
          by simpa [Bucket.set] using a4, by simp only [Bucket.set, if_true]; omega, by simpa [Bucket.set] using a6⟩
  | num g st count maxCount minV maxV =>
    simp only [parseStep] at h
    cases hp : parseField count maxCount minV maxV l with
    | none => rw [hp] at h; cases h
    | some q =>
      obtain ⟨v, r'⟩ := q
      rw [hp] at h; injection h with h; injection h with h; injection h with h _
      have hr := parseField_range count maxCount minV maxV l v r' hp
      rw [← h]
      obtain ⟨a1, a2, a3, a4, a5, a6⟩ := hb
      simp only [timeStepWF, Bool.or_eq_true, Bool.and_eq_true, decide_eq_true_eq] at hw
      rcases hw with ((⟨⟨rfl, rfl⟩, rfl⟩ | ⟨⟨rfl, rfl⟩, rfl⟩) | ⟨⟨rfl, rfl⟩, rfl⟩) | ⟨⟨rfl, rfl⟩, rfl⟩
      · exact ⟨by simpa [Bucket.set] using a1, by simp only [Bucket.set, if_true]; omega, by simpa [Bucket.set] using a3,
          by simpa [Bucket.set] using a4, by simpa [Bucket.set] using a5, by simpa [Bucket.set] using a6⟩
      · exact ⟨by simp only [Bucket.set, if_true]; omega, by simpa [Bucket.set] using a2, by simpa [Bucket.set] using a3,
          by simpa [Bucket.set] using a4, by simpa [Bucket.set] using a5, by simpa [Bucket.set] using a6⟩
      · exact ⟨by simpa [Bucket.set] using a1, by simpa [Bucket.set] using a2, by simp only [Bucket.set, if_true]; omega,
          by simpa [Bucket.set] using a4, by simpa [Bucket.set] using a5, by simpa [Bucket.set] using a6⟩
      · exact ⟨by simpa [Bucket.set] using a1, by simpa [Bucket.set] using a2, by simpa [Bucket.set] using a3,
          by simp only [Bucket.set, if_true]; omega, by simpa [Bucket.set] using a5, by simpa [Bucket.set] using a6⟩
  | signRequired => simp [timeStepWF] at hw
  | signNegativeOnly => simp [timeStepWF] at hw
  | monthText _ => simp [timeStepWF] at hw
  | dayText _ => simp [timeStepWF] at hw
  | era => simp [timeStepWF] at hw
  | eraC _ => simp [timeStepWF] at hw
  | calendar => simp [timeStepWF] at hw

theorem parseSteps_time_ok (cu : Culture) : ∀ (ss : List Step) (l : Text) (b b' : Bucket) (r : Text),
    ss.all timeStepWF = true → TimeBucketOK b → parseSteps cu ss l b = .ok (some (b', r)) → TimeBucketOK b' := by
  intro ss
  induction ss with
  | nil =>
    intro l b b' r _ hb h
    simp only [parseSteps] at h; injection h with h; injection h with h; injection h with h _; rw [← h]; exact hb
  | cons s ss ih =>
    intro l b b' r hw hb h
    simp only [List.all_cons, Bool.and_eq_true] at hw
    simp only [parseSteps] at h
    cases hp : parseStep cu l b s with
    | error e => rw [hp] at h; cases h
    | ok o =>
      rw [hp] at h
      cases o with
      | none => cases h
      | some q =>
        obtain ⟨b1, l1⟩ := q
        exact ih l1 b1 b' r hw.2 (parseStep_time_ok cu l b b1 l1 s hw.1 hb hp) h

theorem csharpMod12_range (x : Int) (h0 : 0 ≤ x) : 0 ≤ csharpMod x 12 ∧ csharpMod x 12 ≤ 11 := by
  rw [csharpMod_pos x 12 (by decide)]
  have : ¬ (x < 0 ∧ 0 < x % 12) := by omega
  rw [if_neg this]; omega

/-- `_LocalTimeParseBucket.calculate_value` on an in-range bucket yields a nanosecond-of-day inside the day -/
theorem timeValue_valid (used : Nat) (b : Bucket) (hb : TimeBucketOK b) (nod : Int) (h : timeValue 0 used b = some nod) :
    0 ≤ nod ∧ nod < 86400000000000 := by
  obtain ⟨a1, a2, a3, a4, a5, a6⟩ := hb
  have hm := csharpMod12_range (b .hours12) a2.1
  have t0 : ltHour 0 = 0 := by decide
  have fin : ∀ hour : Int, 0 ≤ hour → hour ≤ 23 →
      ltFromHmsn hour (b .minutes) (b .seconds) (b .fraction) = nod → 0 ≤ nod ∧ nod < 86400000000000 := by
    intro hour h0 h1 e; rw [← e]; unfold ltFromHmsn NPH NPMin NPS; omega
  unfold timeValue at h
  rw [t0] at h
  have td : Int.tdiv 0 12 = 0 := by decide
  have cm : csharpMod 0 12 = 0 := by decide
  simp only [td, cm] at h
  split at h
  · injection h with h; exact fin _ a1.1 a1.2 h
  · generalize hap : (if b .amPm = 2 then (0 : Int) else b .amPm) = ap at h
    have hap' : ap = 0 ∨ ap = 1 := by
      rw [← hap]; split
      · left; rfl
      · rcases a6 with e | e | e
        · left; exact e
        · right; exact e
        · rename_i hne; exact absurd e hne
    split at h
    · split at h
      · cases h
      · split at h
        · cases h
        · injection h with h; exact fin _ a1.1 a1.2 h
    · split at h
      · injection h with h; refine fin _ ?_ ?_ h <;> rcases hap' with e | e <;> rw [e] <;> omega
      · split at h
        · injection h with h; refine fin _ ?_ ?_ h <;> omega
        · split at h
          · injection h with h; refine fin _ ?_ ?_ h <;> rcases hap' with e | e <;> rw [e] <;> omega
          · injection h with h; exact fin _ (by omega) (by omega) h

/-- **success_value_valid** for LocalTime patterns of any well-formed steps: a success is a time inside the day -/
theorem parseCompiled_time_valid (c : Compiled) (l : Text) (v : List Int) (hw : c.steps.all timeStepWF = true)
    (h : parseCompiled .time c l = .ok (some v)) : ∃ nod, v = [nod] ∧ 0 ≤ nod ∧ nod < 86400000000000 := by
  unfold parseCompiled at h
  split at h
  · cases h
  · cases hp : parseSteps c.cu c.steps l (bucket0 .time) with
    | error e => rw [hp] at h; cases h
    | ok o =>
      rw [hp] at h
      cases o with
      | none => cases h
      | some q =>
        obtain ⟨b, rest⟩ := q
        dsimp only at h
        have hb := parseSteps_time_ok c.cu c.steps l _ b rest hw timeBucket0_ok hp
        unfold bucketValue at h
        dsimp only at h
        cases hv : timeValue 0 c.used b with
        | none => rw [hv] at h; cases h
        | some nod =>
          rw [hv] at h
          simp only [Option.map] at h
          split at h
          · injection h with h; injection h with h
            exact ⟨nod, h.symm, timeValue_valid c.used b hb nod hv⟩
          · cases h

end Pyoda.C08
