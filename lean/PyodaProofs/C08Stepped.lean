/-
  C08 (generic engine) — parsing with ANY stepped pattern of the modelled step language never raises:
  for every culture record, every list of modelled steps, every input text and every bucket the parse actions
  return a result value; the LocalTime / LocalDate / Offset pattern objects (stepped, `Z`-prefixed, composite)
  built on them return a success or a failure result for every text.  LocalTime and Offset patterns produced by
  `compile` only contain modelled steps (LocalDate patterns do unless they use the era `g` / calendar `c` fields).
-/
import PyodaModel.Text.Buckets
import PyodaProofs.C08
import PyodaProofs.C08Create

namespace Pyoda.C08
open Pyoda Pyoda.Text

/-- steps whose format/parse actions are modelled (everything except the era and calendar fields) -/
def stepModelled : Step → Bool
  | .era => false
  | .calendar => false
  | _ => true

theorem parseStep_total (cu : Culture) (l : Text) (b : Bucket) (s : Step) (h : stepModelled s = true) :
    ∃ r, parseStep cu l b s = .ok r := by
  cases s <;> simp only [stepModelled] at h <;> simp only [parseStep] <;> (repeat' split) <;>
    first | exact ⟨_, rfl⟩ | cases h

/-- **parse_total**, generic: the parse actions of any list of modelled steps return a result value -/
theorem parseSteps_total (cu : Culture) : ∀ (steps : List Step) (l : Text) (b : Bucket),
    steps.all stepModelled = true → ∃ r, parseSteps cu steps l b = .ok r := by
  intro steps
  induction steps with
  | nil => intro l b _; exact ⟨_, rfl⟩
  | cons s ss ih =>
    intro l b h
    simp only [List.all_cons, Bool.and_eq_true] at h
    unfold parseSteps
    obtain ⟨r, hr⟩ := parseStep_total cu l b s h.1
    rw [hr]
    cases r with
    | none => exact ⟨_, rfl⟩
    | some p => obtain ⟨b', l'⟩ := p; exact ih l' b' h.2

theorem bucketValue_total (ty : PType) (used : Nat) (b : Bucket) : ∃ r, bucketValue ty used b = .ok r := by
  unfold bucketValue
  cases ty with
  | time => exact ⟨_, rfl⟩
  | date => exact ⟨_, rfl⟩
  | offset =>
    dsimp only
    unfold offsetBucketValue
    obtain ⟨o, ho⟩ := offsetValue_total (decide (b .sign = 1)) (b .hours24) (b .minutes) (b .seconds)
    rw [ho]; exact ⟨_, rfl⟩

/-- a stepped pattern of any of the three types: no exception for any text -/
theorem parseCompiled_total (ty : PType) (c : Compiled) (l : Text) (h : c.steps.all stepModelled = true) :
    ∃ r, parseCompiled ty c l = .ok r := by
  unfold parseCompiled
  split
  · exact ⟨_, rfl⟩
  · obtain ⟨r, hr⟩ := parseSteps_total c.cu c.steps l (bucket0 ty) h
    rw [hr]
    cases r with
    | none => exact ⟨_, rfl⟩
    | some p =>
      obtain ⟨b, rest⟩ := p
      dsimp only
      obtain ⟨o, ho⟩ := bucketValue_total ty c.used b
      rw [ho]
      cases o with
      | none => exact ⟨_, rfl⟩
      | some v => dsimp only; split <;> exact ⟨_, rfl⟩

/-- pattern objects all of whose stepped parts are modelled -/
def patModelled : Pat → Bool
  | .stepped c => c.steps.all stepModelled
  | .zprefix (.stepped c) => c.steps.all stepModelled
  | .zprefix (.composite [.stepped a, .stepped b, .stepped c]) =>
    a.steps.all stepModelled && b.steps.all stepModelled && c.steps.all stepModelled
  | .composite [.stepped a, .stepped b, .stepped c] =>
    a.steps.all stepModelled && b.steps.all stepModelled && c.steps.all stepModelled
  | _ => false

theorem parseComposite3_total (ty : PType) (l : Text) (a b c : Compiled)
    (ha : a.steps.all stepModelled = true) (hb : b.steps.all stepModelled = true) (hc : c.steps.all stepModelled = true) :
    ∃ r, parsePat ty l (.composite [.stepped a, .stepped b, .stepped c]) = .ok r := by
  obtain ⟨ra, ea⟩ := parseCompiled_total ty a l ha
  obtain ⟨rb, eb⟩ := parseCompiled_total ty b l hb
  obtain ⟨rc, ec⟩ := parseCompiled_total ty c l hc
  simp only [parsePat, parsePats, ea, eb, ec]
  split
  · exact ⟨_, rfl⟩
  · cases ra with
    | some v => exact ⟨_, rfl⟩
    | none =>
      cases rb with
      | some v => exact ⟨_, rfl⟩
      | none => cases rc <;> exact ⟨_, rfl⟩

/-- **parse_total** for pattern objects of the shapes `compile` builds (stepped, `Z`-prefixed, composite) -/
theorem parsePat_total (ty : PType) (l : Text) (p : Pat) (h : patModelled p = true) :
    ∃ r, parsePat ty l p = .ok r := by
  match p, h with
  | .stepped c, h => simp only [patModelled] at h; simp only [parsePat]; exact parseCompiled_total ty c l h
  | .zprefix (.stepped c), h =>
    simp only [patModelled] at h; simp only [parsePat]
    split
    · exact ⟨_, rfl⟩
    · exact parseCompiled_total ty c l h
  | .zprefix (.composite [.stepped a, .stepped b, .stepped c]), h =>
    simp only [patModelled, Bool.and_eq_true] at h
    rw [parsePat]
    split
    · exact ⟨_, rfl⟩
    · exact parseComposite3_total ty l a b c h.1.1 h.1.2 h.2
  | .composite [.stepped a, .stepped b, .stepped c], h =>
    simp only [patModelled, Bool.and_eq_true] at h
    exact parseComposite3_total ty l a b c h.1.1 h.1.2 h.2

end Pyoda.C08
