/-
  C07 (AnnualDate and Duration) — instances of the generic round-trip theorem:
  AnnualDatePattern.iso (`MM'-'dd`) for every annual date; DurationPattern.roundtrip (`-D:hh:mm:ss.FFFFFFFFF`) and
  DurationPattern.json_roundtrip (`-H:mm:ss.FFFFFFFFF`) for EVERY Duration from `Duration.min_value` to
  `Duration.max_value` (both included).  `Delimited` custom patterns of both types are covered by
  `stepped_roundtrip` / `pattern_roundtrip`, which are stated for every pattern type.
-/
import PyodaProofs.C07Stepped
import PyodaProofs.C08Stepped

namespace Pyoda.C07
open Pyoda Pyoda.Text

/-! ## AnnualDatePattern.iso -/

def annualIsoSteps : List Step :=
  [.num .monthNum .monthNum 2 2 1 99, .lit ['-'], .num .dayOfMonth .dayOfMonth 2 2 1 99]

theorem annualIso_compiles :
    compiledSteps (compileCustom (.annual 1 1) invariantCulture "MM'-'dd".toList) = some (5120, annualIsoSteps) := by
  decide +kernel

theorem annualIso_delimited : Delimited invariantCulture 5120 true annualIsoSteps = true := by decide

/-- AnnualDatePattern.iso: every month–day pair that exists in a leap year, whatever the template value -/
theorem annualIso_generic_roundtrip (tm td m d : Int) (h1 : 1 ≤ m) (h2 : m ≤ 12) (h3 : 1 ≤ d) (h4 : d ≤ daysInMonth 2000 m) :
    parseCompiled (.annual tm td) ⟨invariantCulture, 5120, annualIsoSteps⟩
      (outSteps invariantCulture 5120 (annualGetter m d) annualIsoSteps) = .ok (some [m, d]) := by
  have hb := daysInMonth_bounds 2000 m
  have hval : ∀ s ∈ annualIsoSteps, ValOK (annualGetter m d) s := by
    intro s hs
    simp only [annualIsoSteps, List.mem_cons, List.mem_nil_iff, or_false] at hs
    rcases hs with rfl | rfl | rfl
    · exact ⟨by simp only [annualGetter]; omega, by simp only [annualGetter]; omega, by decide, by decide, by decide,
        by simp only [annualGetter]; omega⟩
    · trivial
    · exact ⟨by simp only [annualGetter]; omega, by simp only [annualGetter]; omega, by decide, by decide, by decide,
        by simp only [annualGetter]; omega⟩
  have hr : Representable (.annual tm td) ⟨invariantCulture, 5120, annualIsoSteps⟩ (annualGetter m d) [m, d] := by
    unfold Representable bucketValue
    have u1 : (5120 : Nat) &&& (F.monthNum ||| F.monthText) = F.monthNum := by decide
    have u2 : hasAny 5120 F.dayOfMonth = true := by decide
    have hm12 : ¬ (m > 12) := by omega
    have hdim : ¬ (d > daysInMonth 2000 m) := by omega
    simp only [annualValue, determineMonth, u1, if_true, u2, annualIsoSteps, setSteps, setStep, Bucket.set, annualGetter]
    simp (config := { decide := true }) only [if_false, hm12, hdim, Option.map]
  have hne : outSteps invariantCulture 5120 (annualGetter m d) annualIsoSteps ≠ [] := by
    simp only [annualIsoSteps, outSteps, outStep]
    obtain ⟨_, _, hne⟩ := numOut_last 2 (annualGetter m d .monthNum)
    intro h
    exact hne (List.append_eq_nil_iff.mp h).1
  exact (pattern_roundtrip (.annual tm td) ⟨invariantCulture, 5120, annualIsoSteps⟩ (annualGetter m d) [m, d]
    annualIso_delimited hval hr hne).2

/-! ## Duration -/

def durRoundtripSteps : List Step :=
  [.signNegativeOnly, .num .dayOfMonth .dayOfMonth 1 10 0 1073741824, .lit [':'], .num .hours24 .hours24 2 2 0 23, .lit [':'],
   .num .minutes .minutes 2 2 0 59, .lit [':'], .num .seconds .seconds 2 2 0 59, .dotFrac 9 9 false]

def durJsonSteps : List Step :=
  [.signNegativeOnly, .num .totalHours .hours24 1 14 0 25769803776, .lit [':'], .num .minutes .minutes 2 2 0 59, .lit [':'],
   .num .seconds .seconds 2 2 0 59, .dotFrac 9 9 false]

theorem durRoundtrip_compiles :
    compiledSteps (compileCustom .duration invariantCulture "-D:hh:mm:ss.FFFFFFFFF".toList) = some (528445, durRoundtripSteps) := by
  decide +kernel

theorem durJson_compiles :
    compiledSteps (compileCustom .duration invariantCulture "-H:mm:ss.FFFFFFFFF".toList) = some (524349, durJsonSteps) := by
  decide +kernel

theorem durRoundtrip_delimited : Delimited invariantCulture 528445 true durRoundtripSteps = true := by decide
theorem durJson_delimited : Delimited invariantCulture 524349 true durJsonSteps = true := by decide

/-- a Duration value: floor days and nanosecond of the floor day, anywhere in the type's range -/
structure DurOK (fd n : Int) : Prop where
  d0 : -1073741824 ≤ fd
  d1 : fd ≤ 1073741823
  n0 : 0 ≤ n
  n1 : n < 86400000000000

/-- the magnitude of `Duration.nanosecond_of_day` -/
def durAbs (fd n : Int) : Int := if fd ≥ 0 then n else if n = 0 then 0 else 86400000000000 - n

theorem durAbs_eq (fd n : Int) (h : DurOK fd n) : ((durNanoOfDay fd n).natAbs : Int) = durAbs fd n := by
  obtain ⟨_, _, n0, n1⟩ := h
  unfold durNanoOfDay durAbs NPD
  split
  · omega
  · split <;> omega

theorem durAbs_range (fd n : Int) (h : DurOK fd n) : 0 ≤ durAbs fd n ∧ durAbs fd n < 86400000000000 := by
  obtain ⟨_, _, n0, n1⟩ := h
  unfold durAbs
  split
  · omega
  · split <;> omega

/-- the partial fields of a magnitude `A` inside the day -/
theorem dur_fields (A : Int) (h0 : 0 ≤ A) (h1 : A < 86400000000000) :
    csharpMod (Int.tdiv A NPH) 24 = A / 3600000000000 ∧ csharpMod (Int.tdiv A NPMin) 60 = A / 60000000000 % 60 ∧
    csharpMod (Int.tdiv A NPS) 60 = A / 1000000000 % 60 ∧ csharpMod A NPS = A % 1000000000 := by
  unfold NPH NPMin NPS
  simp (disch := decide) only [tdiv_pos, csharpMod_pos]
  simp only [h0, if_true]
  refine ⟨?_, ?_, ?_, ?_⟩
  · have : ¬ (A / 3600000000000 < 0 ∧ 0 < A / 3600000000000 % 24) := by omega
    rw [if_neg this]; omega
  · have : ¬ (A / 60000000000 < 0 ∧ 0 < A / 60000000000 % 60) := by omega
    rw [if_neg this]
  · have : ¬ (A / 1000000000 < 0 ∧ 0 < A / 1000000000 % 60) := by omega
    rw [if_neg this]
  · have : ¬ (A < 0 ∧ 0 < A % 1000000000) := by omega
    rw [if_neg this]

theorem dur_getters (fd n : Int) (h : DurOK fd n) :
    durationGetter fd n .hours24 = durAbs fd n / 3600000000000 ∧
    durationGetter fd n .minutes = durAbs fd n / 60000000000 % 60 ∧
    durationGetter fd n .seconds = durAbs fd n / 1000000000 % 60 ∧
    durationGetter fd n .fraction = durAbs fd n % 1000000000 := by
  obtain ⟨a0, a1⟩ := durAbs_range fd n h
  simp only [durationGetter, durAbs_eq fd n h]
  exact dur_fields (durAbs fd n) a0 a1

theorem dur_sign (fd n : Int) : durationGetter fd n .sign = 0 ∨ durationGetter fd n .sign = 1 := by
  simp only [durationGetter]; split <;> simp

/-- the fraction slot after the `.FFFFFFFFF` step: the value's fraction (the bucket's initial 0 when none was written) -/
theorem dur_fraction_slot (get : Getter) (b : Bucket) (hb : b .fraction = 0) (hf : FracOK 9 9 (get .fraction)) :
    (if truncOut (get .fraction) 9 9 = [] then b else b.set .fraction (get .fraction)) .fraction = get .fraction := by
  split
  · rename_i hz
    rcases truncOut_cases 9 9 (get .fraction) hf [] noDigitHead_nil with ⟨z, _⟩ | ⟨_, ne, _⟩
    · rw [z, hb]
    · exact absurd hz ne
  · simp [Bucket.set]

theorem dur_recompose (D A : Int) (_h0 : 0 ≤ A) (_h1 : A < 86400000000000) :
    D * NPD + A / 3600000000000 * NPH + A / 60000000000 % 60 * NPMin + A / 1000000000 % 60 * NPS + A % 1000000000 =
      D * 86400000000000 + A := by
  unfold NPD NPH NPMin NPS; omega

/-- days and magnitude of the day part, negated for a negative duration, give the duration back -/
theorem dur_value (fd n : Int) (h : DurOK fd n) :
    (let nanos := durationGetter fd n .dayOfMonth * 86400000000000 + durAbs fd n
     let nanos := if durationGetter fd n .sign = 1 then -nanos else nanos
     if nanos < DUR_MIN_NANOS ∨ nanos > DUR_MAX_NANOS then (.ok none : R (Option (Int × Int)))
     else match durFromNanos nanos with
       | .error e => .error e
       | .ok v => .ok (some v)) = .ok (some (fd, n)) := by
  obtain ⟨d0, d1, n0, n1⟩ := h
  have total : (if durationGetter fd n .sign = 1 then -(durationGetter fd n .dayOfMonth * 86400000000000 + durAbs fd n)
      else durationGetter fd n .dayOfMonth * 86400000000000 + durAbs fd n) = fd * 86400000000000 + n := by
    simp only [durationGetter, durAbs]
    by_cases hfd : fd ≥ 0
    · have e01 : ¬ ((0 : Int) = 1) := by decide
      simp only [hfd, if_true, e01, if_false]
    · simp only [hfd, if_false, if_true]
      by_cases hn : n = 0
      · simp only [hn, if_true]; omega
      · simp only [hn, if_false]; omega
  dsimp only
  rw [total]
  have r0 : DUR_MIN_NANOS ≤ fd * 86400000000000 + n := by unfold DUR_MIN_NANOS NPD; omega
  have r1 : fd * 86400000000000 + n ≤ DUR_MAX_NANOS := by unfold DUR_MAX_NANOS NPD; omega
  rw [if_neg (by omega), C08.durFromNanos_ok _ r0 r1]
  have e1 : (fd * 86400000000000 + n) / NPD = fd := by unfold NPD; omega
  have e2 : (fd * 86400000000000 + n) % NPD = n := by unfold NPD; omega
  rw [e1, e2]

/-- **DurationPattern.roundtrip** (`-D:hh:mm:ss.FFFFFFFFF`): EVERY Duration, `min_value` and `max_value` included -/
theorem durRoundtrip_generic_roundtrip (fd n : Int) (h : DurOK fd n) :
    parseCompiled .duration ⟨invariantCulture, 528445, durRoundtripSteps⟩
      (outSteps invariantCulture 528445 (durationGetter fd n) durRoundtripSteps) = .ok (some [fd, n]) := by
  obtain ⟨gh, gm, gs, gf⟩ := dur_getters fd n h
  obtain ⟨a0, a1⟩ := durAbs_range fd n h
  obtain ⟨d0, d1, n0, n1⟩ := h
  have gD : durationGetter fd n .dayOfMonth = if fd ≥ 0 then fd else if n = 0 then -fd else -(fd + 1) := rfl
  have hD : 0 ≤ durationGetter fd n .dayOfMonth ∧ durationGetter fd n .dayOfMonth ≤ 1073741824 := by
    rw [gD]; split
    · omega
    · split <;> omega
  have hfr : FracOK 9 9 (durationGetter fd n .fraction) :=
    ⟨by rw [gf]; omega, by rw [gf]; omega, by decide, by decide, by rw [gf]; exact Nat.mod_one _⟩
  have hval : ∀ s ∈ durRoundtripSteps, ValOK (durationGetter fd n) s := by
    intro s hs
    simp only [durRoundtripSteps, List.mem_cons, List.mem_nil_iff, or_false] at hs
    rcases hs with rfl | rfl | rfl | rfl | rfl | rfl | rfl | rfl | rfl
    · exact dur_sign fd n
    · exact ⟨hD.1, hD.2, by decide, by decide, by decide, by omega⟩
    · trivial
    · exact ⟨by rw [gh]; omega, by rw [gh]; omega, by decide, by decide, by decide, by rw [gh]; omega⟩
    · trivial
    · exact ⟨by rw [gm]; omega, by rw [gm]; omega, by decide, by decide, by decide, by rw [gm]; omega⟩
    · trivial
    · exact ⟨by rw [gs]; omega, by rw [gs]; omega, by decide, by decide, by decide, by rw [gs]; omega⟩
    · exact hfr
  have hr : Representable .duration ⟨invariantCulture, 528445, durRoundtripSteps⟩ (durationGetter fd n) [fd, n] := by
    unfold Representable bucketValue
    generalize hb' : setSteps invariantCulture (durationGetter fd n) (bucket0 .duration) durRoundtripSteps = b'
    have bSg : b' .sign = durationGetter fd n .sign := by
      rw [← hb']; simp only [durRoundtripSteps, setSteps, setStep]; split <;> simp [Bucket.set]
    have bD : b' .dayOfMonth = durationGetter fd n .dayOfMonth := by
      rw [← hb']; simp only [durRoundtripSteps, setSteps, setStep]; split <;> simp [Bucket.set]
    have bH : b' .hours24 = durationGetter fd n .hours24 := by
      rw [← hb']; simp only [durRoundtripSteps, setSteps, setStep]; split <;> simp [Bucket.set]
    have bM : b' .minutes = durationGetter fd n .minutes := by
      rw [← hb']; simp only [durRoundtripSteps, setSteps, setStep]; split <;> simp [Bucket.set]
    have bS : b' .seconds = durationGetter fd n .seconds := by
      rw [← hb']; simp only [durRoundtripSteps, setSteps, setStep]; split <;> simp [Bucket.set]
    have bF : b' .fraction = durationGetter fd n .fraction := by
      rw [← hb']; simp only [durRoundtripSteps, setSteps, setStep]
      exact dur_fraction_slot _ _ (by simp [Bucket.set, bucket0, offsetBucket0]) hfr
    have key : durationValue b' = .ok (some (fd, n)) := by
      unfold durationValue
      dsimp only
      rw [bSg, bD, bH, bM, bS, bF, gh, gm, gs, gf]
      have hsum := dur_recompose (durationGetter fd n .dayOfMonth) (durAbs fd n) a0 a1
      rw [hsum]
      exact dur_value fd n ⟨d0, d1, n0, n1⟩
    rw [key]; rfl
  have hne : outSteps invariantCulture 528445 (durationGetter fd n) durRoundtripSteps ≠ [] := by
    simp only [durRoundtripSteps, outSteps, outStep]
    obtain ⟨_, _, hne⟩ := numOut_last 1 (durationGetter fd n .dayOfMonth)
    intro hh
    have h1 := List.append_eq_nil_iff.mp hh
    exact hne (List.append_eq_nil_iff.mp h1.2).1
  exact (pattern_roundtrip .duration ⟨invariantCulture, 528445, durRoundtripSteps⟩ (durationGetter fd n) [fd, n]
    durRoundtrip_delimited hval hr hne).2

theorem intNeg_eq (x : Int) : Int.neg x = -x := rfl

/-- total hours = 24 × whole days + hours of the day part -/
theorem dur_totalHours (fd n : Int) (h : DurOK fd n) :
    durationGetter fd n .totalHours = durationGetter fd n .dayOfMonth * 24 + durAbs fd n / 3600000000000 := by
  obtain ⟨d0, d1, n0, n1⟩ := h
  simp only [durationGetter, durTotalUnits, durNanoOfDay, durAbs, intNeg_eq]
  unfold NPH NPD
  by_cases hfd : fd ≥ 0
  · simp only [hfd, if_true]
    rw [tdiv_pos _ _ (by decide), if_pos n0]
  · simp only [hfd, if_false]
    by_cases hn : n = 0
    · simp only [hn, if_true]; omega
    · simp only [hn, if_false]
      have hne : ¬ (n - 86400000000000 = 0) := by omega
      rw [if_neg hne, tdiv_pos _ _ (by decide), if_neg (by omega)]
      omega

theorem dur_recompose_hours (D A : Int) (_h0 : 0 ≤ A) (_h1 : A < 86400000000000) :
    (D * 24 + A / 3600000000000) * NPH + A / 60000000000 % 60 * NPMin + A / 1000000000 % 60 * NPS + A % 1000000000 =
      D * 86400000000000 + A := by
  unfold NPH NPMin NPS; omega

/-- **DurationPattern.json_roundtrip** (`-H:mm:ss.FFFFFFFFF`): EVERY Duration, `min_value` and `max_value` included -/
theorem durJson_generic_roundtrip (fd n : Int) (h : DurOK fd n) :
    parseCompiled .duration ⟨invariantCulture, 524349, durJsonSteps⟩
      (outSteps invariantCulture 524349 (durationGetter fd n) durJsonSteps) = .ok (some [fd, n]) := by
  obtain ⟨_, gm, gs, gf⟩ := dur_getters fd n h
  have gH := dur_totalHours fd n h
  obtain ⟨a0, a1⟩ := durAbs_range fd n h
  have hh := h
  obtain ⟨d0, d1, n0, n1⟩ := h
  have gD : durationGetter fd n .dayOfMonth = if fd ≥ 0 then fd else if n = 0 then -fd else -(fd + 1) := rfl
  have hD : 0 ≤ durationGetter fd n .dayOfMonth ∧ durationGetter fd n .dayOfMonth ≤ 1073741824 := by
    rw [gD]; split
    · omega
    · split <;> omega
  -- at 2^30 days the day part is zero
  have hDmax : durationGetter fd n .dayOfMonth = 1073741824 → durAbs fd n = 0 := by
    rw [gD]; unfold durAbs
    split
    · omega
    · split <;> omega
  have hHr : 0 ≤ durationGetter fd n .totalHours ∧ durationGetter fd n .totalHours ≤ 25769803776 := by
    rw [gH]
    by_cases hm : durationGetter fd n .dayOfMonth = 1073741824
    · rw [hDmax hm, hm]; omega
    · omega
  have hfr : FracOK 9 9 (durationGetter fd n .fraction) :=
    ⟨by rw [gf]; omega, by rw [gf]; omega, by decide, by decide, by rw [gf]; exact Nat.mod_one _⟩
  have hval : ∀ s ∈ durJsonSteps, ValOK (durationGetter fd n) s := by
    intro s hs
    simp only [durJsonSteps, List.mem_cons, List.mem_nil_iff, or_false] at hs
    rcases hs with rfl | rfl | rfl | rfl | rfl | rfl | rfl
    · exact dur_sign fd n
    · exact ⟨hHr.1, hHr.2, by decide, by decide, by decide, by omega⟩
    · trivial
    · exact ⟨by rw [gm]; omega, by rw [gm]; omega, by decide, by decide, by decide, by rw [gm]; omega⟩
    · trivial
    · exact ⟨by rw [gs]; omega, by rw [gs]; omega, by decide, by decide, by decide, by rw [gs]; omega⟩
    · exact hfr
  have hr : Representable .duration ⟨invariantCulture, 524349, durJsonSteps⟩ (durationGetter fd n) [fd, n] := by
    unfold Representable bucketValue
    generalize hb' : setSteps invariantCulture (durationGetter fd n) (bucket0 .duration) durJsonSteps = b'
    have bSg : b' .sign = durationGetter fd n .sign := by
      rw [← hb']; simp only [durJsonSteps, setSteps, setStep]; split <;> simp [Bucket.set]
    have bD : b' .dayOfMonth = 0 := by
      rw [← hb']; simp only [durJsonSteps, setSteps, setStep]; split <;> simp [Bucket.set, bucket0, offsetBucket0]
    have bH : b' .hours24 = durationGetter fd n .totalHours := by
      rw [← hb']; simp only [durJsonSteps, setSteps, setStep]; split <;> simp [Bucket.set]
    have bM : b' .minutes = durationGetter fd n .minutes := by
      rw [← hb']; simp only [durJsonSteps, setSteps, setStep]; split <;> simp [Bucket.set]
    have bS : b' .seconds = durationGetter fd n .seconds := by
      rw [← hb']; simp only [durJsonSteps, setSteps, setStep]; split <;> simp [Bucket.set]
    have bF : b' .fraction = durationGetter fd n .fraction := by
      rw [← hb']; simp only [durJsonSteps, setSteps, setStep]
      exact dur_fraction_slot _ _ (by simp [Bucket.set, bucket0, offsetBucket0]) hfr
    have key : durationValue b' = .ok (some (fd, n)) := by
      unfold durationValue
      dsimp only
      rw [bSg, bD, bH, bM, bS, bF, gH, gm, gs, gf]
      have hsum := dur_recompose_hours (durationGetter fd n .dayOfMonth) (durAbs fd n) a0 a1
      have z : (0 : Int) * NPD = 0 := by decide
      rw [z, Int.zero_add, hsum]
      exact dur_value fd n hh
    rw [key]; rfl
  have hne : outSteps invariantCulture 524349 (durationGetter fd n) durJsonSteps ≠ [] := by
    simp only [durJsonSteps, outSteps, outStep]
    obtain ⟨_, _, hne⟩ := numOut_last 1 (durationGetter fd n .totalHours)
    intro hx
    have h1 := List.append_eq_nil_iff.mp hx
    exact hne (List.append_eq_nil_iff.mp h1.2).1
  exact (pattern_roundtrip .duration ⟨invariantCulture, 524349, durJsonSteps⟩ (durationGetter fd n) [fd, n]
    durJson_delimited hval hr hne).2

/-- the extremes, evaluated: `Duration.min_value` and `Duration.max_value` through both patterns -/
example : fmtCompiled ⟨invariantCulture, 528445, durRoundtripSteps⟩ (durationGetter (-1073741824) 0) [] =
    .ok "-1073741824:00:00:00".toList := by decide +kernel
example : fmtCompiled ⟨invariantCulture, 528445, durRoundtripSteps⟩ (durationGetter 1073741823 86399999999999) [] =
    .ok "1073741823:23:59:59.999999999".toList := by decide +kernel
example : fmtCompiled ⟨invariantCulture, 524349, durJsonSteps⟩ (durationGetter (-1073741824) 0) [] =
    .ok "-25769803776:00:00".toList := by decide +kernel
example : parseCompiled .duration ⟨invariantCulture, 528445, durRoundtripSteps⟩ "-1073741824:00:00:00.000000001".toList = .ok none := by
  decide +kernel
example : parseCompiled .duration ⟨invariantCulture, 528445, durRoundtripSteps⟩ "1073741824:00:00:00".toList = .ok none := by
  decide +kernel

end Pyoda.C07
