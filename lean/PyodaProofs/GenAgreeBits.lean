/-
  GenAgreeBits — two's-complement facts about Python's `&` and `|` on unbounded integers (`Gen.pyAnd`, `Gen.pyOr` of
  PyodaGen/Support.lean) that the agreement proofs of the generated definitions use.  No generated file is imported here.
-/
import PyodaGen.Support
import PyodaProofs.Basic

namespace Pyoda.GenAgree.Bits
open Pyoda

/-- low bits all set: `(2^k·m + (2^k − 1)) & n = n` for `n < 2^k` -/
theorem nat_ones_and (k m n : Nat) (hn : n < 2 ^ k) : (2 ^ k * m + (2 ^ k - 1)) &&& n = n := by
  have hp : 0 < 2 ^ k := Nat.two_pow_pos k
  have hd : ((2 ^ k * m + (2 ^ k - 1)) &&& n) / 2 ^ k = 0 := by
    rw [Nat.and_div_two_pow, Nat.div_eq_of_lt hn, Nat.and_zero]
  have hm : ((2 ^ k * m + (2 ^ k - 1)) &&& n) % 2 ^ k = n := by
    rw [Nat.and_mod_two_pow, Nat.mul_add_mod, Nat.mod_eq_of_lt (by omega : 2 ^ k - 1 < 2 ^ k), Nat.mod_eq_of_lt hn,
      Nat.and_comm, Nat.and_two_pow_sub_one_eq_mod, Nat.mod_eq_of_lt hn]
  have e := Nat.div_add_mod ((2 ^ k * m + (2 ^ k - 1)) &&& n) (2 ^ k)
  rw [hd, hm] at e
  omega

theorem pyOr_comm (a b : Int) : Gen.pyOr a b = Gen.pyOr b a := by
  cases a <;> cases b
  · show Int.ofNat (_ ||| _) = Int.ofNat (_ ||| _); rw [Nat.or_comm]
  · rfl
  · rfl
  · show Int.negSucc (_ &&& _) = Int.negSucc (_ &&& _); rw [Nat.and_comm]

theorem pyOr_zero (x : Int) : Gen.pyOr x 0 = x := by
  cases x with
  | ofNat m => show ((m ||| 0 : Nat) : Int) = _; rw [Nat.or_zero]; rfl
  | negSucc m => show Int.negSucc (m - (m &&& 0)) = _; rw [Nat.and_zero]; rfl

theorem pyOr_low2 (d r : Int) (h0 : 0 ≤ r) (h1 : r < 4) : Gen.pyOr (d * 2 ^ 2) r = d * 4 + r := by
  obtain ⟨n, rfl⟩ := Int.eq_ofNat_of_zero_le h0
  have hn : n < 2 ^ 2 := by omega
  cases d with
  | ofNat m =>
    have e : (Int.ofNat m * 2 ^ 2 : Int) = Int.ofNat (2 ^ 2 * m) := by
      show ((m : Int) * 2 ^ 2) = ((2 ^ 2 * m : Nat) : Int); omega
    rw [e]
    show ((2 ^ 2 * m ||| n : Nat) : Int) = _
    rw [← Nat.two_pow_add_eq_or_of_lt hn m]
    show ((2 ^ 2 * m + n : Nat) : Int) = (m : Int) * 4 + n
    omega
  | negSucc m =>
    have e : (Int.negSucc m * 2 ^ 2 : Int) = Int.negSucc (2 ^ 2 * m + (2 ^ 2 - 1)) := by
      rw [Int.negSucc_eq, Int.negSucc_eq]; omega
    rw [e]
    show Int.negSucc ((2 ^ 2 * m + (2 ^ 2 - 1)) - ((2 ^ 2 * m + (2 ^ 2 - 1)) &&& n)) = _
    rw [nat_ones_and 2 m n hn, Int.negSucc_eq, Int.negSucc_eq]
    omega

theorem pyOr_low7 (d r : Int) (h0 : 0 ≤ r) (h1 : r < 128) : Gen.pyOr (d * 2 ^ 7) r = d * 128 + r := by
  obtain ⟨n, rfl⟩ := Int.eq_ofNat_of_zero_le h0
  have hn : n < 2 ^ 7 := by omega
  cases d with
  | ofNat m =>
    have e : (Int.ofNat m * 2 ^ 7 : Int) = Int.ofNat (2 ^ 7 * m) := by
      show ((m : Int) * 2 ^ 7) = ((2 ^ 7 * m : Nat) : Int); omega
    rw [e]
    show ((2 ^ 7 * m ||| n : Nat) : Int) = _
    rw [← Nat.two_pow_add_eq_or_of_lt hn m]
    show ((2 ^ 7 * m + n : Nat) : Int) = (m : Int) * 128 + n
    omega
  | negSucc m =>
    have e : (Int.negSucc m * 2 ^ 7 : Int) = Int.negSucc (2 ^ 7 * m + (2 ^ 7 - 1)) := by
      rw [Int.negSucc_eq, Int.negSucc_eq]; omega
    rw [e]
    show Int.negSucc ((2 ^ 7 * m + (2 ^ 7 - 1)) - ((2 ^ 7 * m + (2 ^ 7 - 1)) &&& n)) = _
    rw [nat_ones_and 7 m n hn, Int.negSucc_eq, Int.negSucc_eq]
    omega

theorem pyOr_low47 (d r : Int) (h0 : 0 ≤ r) (h1 : r < 140737488355328) : Gen.pyOr (d * 2 ^ 47) r = d * 140737488355328 + r := by
  obtain ⟨n, rfl⟩ := Int.eq_ofNat_of_zero_le h0
  have hn : n < 2 ^ 47 := by omega
  cases d with
  | ofNat m =>
    have e : (Int.ofNat m * 2 ^ 47 : Int) = Int.ofNat (2 ^ 47 * m) := by
      show ((m : Int) * 2 ^ 47) = ((2 ^ 47 * m : Nat) : Int); omega
    rw [e]
    show ((2 ^ 47 * m ||| n : Nat) : Int) = _
    rw [← Nat.two_pow_add_eq_or_of_lt hn m]
    show ((2 ^ 47 * m + n : Nat) : Int) = (m : Int) * 140737488355328 + n
    omega
  | negSucc m =>
    have e : (Int.negSucc m * 2 ^ 47 : Int) = Int.negSucc (2 ^ 47 * m + (2 ^ 47 - 1)) := by
      rw [Int.negSucc_eq, Int.negSucc_eq]; omega
    rw [e]
    show Int.negSucc ((2 ^ 47 * m + (2 ^ 47 - 1)) - ((2 ^ 47 * m + (2 ^ 47 - 1)) &&& n)) = _
    rw [nat_ones_and 47 m n hn, Int.negSucc_eq, Int.negSucc_eq]
    omega

end Pyoda.GenAgree.Bits
