/-
  C10 — helper lemmas for `Period` arithmetic with the date part inside the model (PyodaModel/TimeOfDay/Full.lean):
  the chain `plus_years → plus_months → plus_weeks → plus_days` over any of the 19 calendars, built on C09's
  `plusYears_valid_all`, `plusMonths_valid_all` and `plusDays_exact_all`.  Property statements: PyodaProofs.C10Full.
-/
import PyodaModel.TimeOfDay.Full
import PyodaProofs.C10
import PyodaProofs.C09All

namespace Pyoda.C10
open Pyoda Pyoda.Calendar Pyoda.DateArith Pyoda.PeriodOps

/-- a day number inside the calendar -/
def InCal (c : Calc) (x : Int) : Prop := C09.loDay c ≤ x ∧ x ≤ C09.hiDay c

theorem bind_err_inv {α β} (x : R α) (f : α → R β) (e : PyExc) (h : (x >>= f) = .error e) :
    x = .error e ∨ ∃ a, x = .ok a ∧ f a = .error e := by
  cases x with
  | error e' => left; cases h; rfl
  | ok a => right; exact ⟨a, rfl, h⟩

theorem exactAt_ok_inv {c : Calc} {r : R Ymd} {target : Int} {q : Ymd} (hx : C09.ExactAt c r target) (hr : r = .ok q) :
    InCal c target ∧ C09.Valid c q ∧ C09.dayNo c q = target := by
  by_cases hin : C09.loDay c ≤ target ∧ target ≤ C09.hiDay c
  · obtain ⟨q', h1, h2, h3, _⟩ := hx.1 hin
    rw [hr] at h1
    cases h1
    exact ⟨hin, h2, h3⟩
  · obtain ⟨e, he⟩ := hx.2 hin
    rw [hr] at he
    cases he

theorem exactAt_err_inv {c : Calc} {r : R Ymd} {target : Int} {e : PyExc} (hx : C09.ExactAt c r target)
    (hr : r = .error e) : ¬ InCal c target := by
  intro hin
  obtain ⟨q', h1, _⟩ := hx.1 hin
  rw [hr] at h1
  cases h1

theorem exactAt_of_inCal {c : Calc} {r : R Ymd} {target : Int} (hx : C09.ExactAt c r target) (hin : InCal c target) :
    ∃ q, r = .ok q ∧ C09.Valid c q ∧ C09.dayNo c q = target := by
  obtain ⟨q, h1, h2, h3, _⟩ := hx.1 hin
  exact ⟨q, h1, h2, h3⟩

theorem exactAt_of_not_inCal {c : Calc} {r : R Ymd} {target : Int} (hx : C09.ExactAt c r target) (hin : ¬ InCal c target) :
    ∃ e, r = .error e := hx.2 hin

theorem valid_inCal {c : Calc} (h : C01.WF c) (p : Ymd) (hv : C09.Valid c p) : InCal c (C09.dayNo c p) := by
  have := C09.valid_range h p hv
  exact ⟨this.1, this.2.1⟩

/-- Years, months, weeks, days applied first to last: the call succeeds exactly when the years step and the months
    step (on its result) succeed, the day reached after the weeks is inside the calendar, and so is the final day;
    the result is the valid date `7·w + d` days after the date the months step returned. -/
theorem dateSteps_spec (H : C09.Evaluated) (n : Nat) (k : Cal) (hk : Cal.ofOrd n = some k) (s : Ymd)
    (hs : C09.Valid k.c s) (y m w d : Int) (r : Ymd) :
    LocalDate.dateSteps k s y m w d = .ok r ↔
      ∃ a b, addYears k s y = .ok a ∧ addMonths k a m = .ok b ∧ C09.Valid k.c a ∧ C09.Valid k.c b ∧
        InCal k.c (C09.dayNo k.c b + 7 * w) ∧
        C09.Valid k.c r ∧ C09.dayNo k.c r = C09.dayNo k.c b + 7 * w + d := by
  have L := C09.dateLaws_all H n k hk
  constructor
  · intro h
    unfold LocalDate.dateSteps at h
    obtain ⟨a, ha, h⟩ := bind_ok_inv _ _ _ h
    obtain ⟨b, hb, h⟩ := bind_ok_inv _ _ _ h
    obtain ⟨c, hc, h⟩ := bind_ok_inv _ _ _ h
    have va := (C09.plusYears_valid_all H n k hk s hs y a ha).1
    have vb := C09.plusMonths_valid_all H n k hk a va m b hb
    obtain ⟨iw, vc, dc⟩ := exactAt_ok_inv (C09.plusDays_exact_all H n k hk 7 b vb w) hc
    obtain ⟨_, vr, dr⟩ := exactAt_ok_inv (C09.plusDays_exact_all H n k hk 1 c vc d) h
    refine ⟨a, b, ha, hb, va, vb, ?_, vr, by omega⟩
    unfold InCal at *; omega
  · rintro ⟨a, b, ha, hb, _, vb, iw, vr, dr⟩
    have iw' : InCal k.c (C09.dayNo k.c b + w * 7) := by unfold InCal at *; omega
    obtain ⟨c, hc, vc, dc⟩ := exactAt_of_inCal (C09.plusDays_exact_all H n k hk 7 b vb w) iw'
    have ir : InCal k.c (C09.dayNo k.c c + d * 1) := by
      have := valid_inCal L.wf r vr
      unfold InCal at *; omega
    obtain ⟨q, hq, vq, dq⟩ := exactAt_of_inCal (C09.plusDays_exact_all H n k hk 1 c vc d) ir
    have e : q = r := C09.valid_inj L.wf q r vq vr (by omega)
    subst e
    unfold LocalDate.dateSteps
    rw [ha]; show (addMonths k a m >>= _) = _
    rw [hb]; show (addFixed k.c 7 b w >>= _) = _
    rw [hc]; exact hq

/-- the chain raises exactly when one of its four steps does: the years step, the months step on its result, the
    weeks (day after them outside the calendar) or the days (final day outside the calendar) -/
theorem dateSteps_raises_iff (H : C09.Evaluated) (n : Nat) (k : Cal) (hk : Cal.ofOrd n = some k) (s : Ymd)
    (hs : C09.Valid k.c s) (y m w d : Int) :
    (∃ e, LocalDate.dateSteps k s y m w d = .error e) ↔
      (∃ e, addYears k s y = .error e) ∨
      (∃ a e, addYears k s y = .ok a ∧ addMonths k a m = .error e) ∨
      (∃ a b, addYears k s y = .ok a ∧ addMonths k a m = .ok b ∧
        (¬ InCal k.c (C09.dayNo k.c b + 7 * w) ∨ ¬ InCal k.c (C09.dayNo k.c b + 7 * w + d))) := by
  constructor
  · rintro ⟨e, h⟩
    unfold LocalDate.dateSteps at h
    rcases bind_err_inv _ _ _ h with h | ⟨a, ha, h⟩
    · exact Or.inl ⟨e, h⟩
    rcases bind_err_inv _ _ _ h with h | ⟨b, hb, h⟩
    · exact Or.inr (Or.inl ⟨a, e, ha, h⟩)
    have va := (C09.plusYears_valid_all H n k hk s hs y a ha).1
    have vb := C09.plusMonths_valid_all H n k hk a va m b hb
    refine Or.inr (Or.inr ⟨a, b, ha, hb, ?_⟩)
    rcases bind_err_inv _ _ _ h with h | ⟨c, hc, h⟩
    · left
      have := exactAt_err_inv (C09.plusDays_exact_all H n k hk 7 b vb w) h
      unfold InCal at *; omega
    · right
      obtain ⟨_, vc, dc⟩ := exactAt_ok_inv (C09.plusDays_exact_all H n k hk 7 b vb w) hc
      have := exactAt_err_inv (C09.plusDays_exact_all H n k hk 1 c vc d) h
      unfold InCal at *; omega
  · intro h
    cases hres : LocalDate.dateSteps k s y m w d with
    | error e => exact ⟨e, rfl⟩
    | ok r =>
      exfalso
      obtain ⟨a, b, ha, hb, _, _, iw, vr, dr⟩ := (dateSteps_spec H n k hk s hs y m w d r).1 hres
      have L := C09.dateLaws_all H n k hk
      have ir := valid_inCal L.wf r vr
      rcases h with ⟨e, he⟩ | ⟨a', e, ha', he⟩ | ⟨a', b', ha', hb', hn⟩
      · rw [ha] at he; cases he
      · rw [ha] at ha'; cases ha'; rw [hb] at he; cases he
      · rw [ha] at ha'; cases ha'; rw [hb] at hb'; cases hb'
        rcases hn with hn | hn
        · exact hn iw
        · rw [dr] at ir; exact hn ir

/-- `_YearsPeriodField.add` raises exactly when a non-zero amount takes the year outside the calendar (ValueError) -/
theorem addYears_raises_iff (n : Nat) (k : Cal) (hk : Cal.ofOrd n = some k) (s : Ymd) (y : Int) :
    ((∃ e, addYears k s y = .error e) ↔ y ≠ 0 ∧ ¬ (k.c.minYear ≤ s.1 + y ∧ s.1 + y ≤ k.c.maxYear)) ∧
    (∀ e, addYears k s y = .error e → e = .valueError) := by
  by_cases h0 : y = 0
  · subst h0
    have : addYears k s 0 = .ok s := by unfold addYears; rw [if_pos rfl]
    rw [this]
    exact ⟨⟨fun ⟨e, he⟩ => (by cases he), fun h => absurd rfl h.1⟩, fun e he => (by cases he)⟩
  · obtain ⟨hin, hout⟩ := C09.addYears_spec k s y h0
    by_cases hr : k.c.minYear ≤ s.1 + y ∧ s.1 + y ≤ k.c.maxYear
    · -- in range: the years unit succeeds (it is a unit of `Period.between`: `FieldLaw`)
      have hok : ∃ r, addYears k s y = .ok r := by
        -- `_set_year` is total on the year range in every family (Badi: its own range check 1..1000)
        rw [hin hr]
        unfold setYear
        cases hf : k.fam with
        | regular => exact ⟨_, rfl⟩
        | hebrew scr => exact ⟨_, rfl⟩
        | badi =>
          have hb : k = C09.badiCal := by
            unfold Cal.ofOrd at hk
            have h19 : n < 19 ∨ 19 ≤ n := by omega
            rcases h19 with h19 | h19
            · have cases19 : n = 0 ∨ n = 1 ∨ n = 2 ∨ n = 3 ∨ n = 4 ∨ n = 5 ∨ n = 6 ∨ n = 7 ∨ n = 8 ∨ n = 9 ∨ n = 10 ∨
                  n = 11 ∨ n = 12 ∨ n = 13 ∨ n = 14 ∨ n = 15 ∨ n = 16 ∨ n = 17 ∨ n = 18 := by omega
              rcases cases19 with rfl | rfl | rfl | rfl | rfl | rfl | rfl | rfl | rfl | rfl | rfl | rfl | rfl | rfl | rfl |
                rfl | rfl | rfl | rfl <;>
                (have hk' := (Option.some.inj hk).symm; subst hk'; first | rfl | (exfalso; revert hf; decide))
            · have : calcOf n = none := by
                unfold calcOf
                split <;> first | rfl | omega
              rw [this] at hk; cases hk
          subst hb
          have hy : (1 : Int) ≤ s.1 + y ∧ s.1 + y ≤ 1000 := by
            have h1 : C09.badiCal.c.minYear = 1 := rfl
            have h2 : C09.badiCal.c.maxYear = 999 := rfl
            rw [h1, h2] at hr; omega
          show ∃ r, BadiArith.setYear Badi.cal s (s.1 + y) = .ok r
          unfold BadiArith.setYear checkRange
          rw [if_neg (by omega)]
          dsimp only
          split <;> exact ⟨_, rfl⟩
      obtain ⟨r, hr'⟩ := hok
      rw [hr']
      exact ⟨⟨fun ⟨e, he⟩ => (by cases he), fun h => absurd hr h.2⟩, fun e he => (by cases he)⟩
    · rw [hout hr]
      exact ⟨⟨fun _ => ⟨h0, hr⟩, fun _ => ⟨_, rfl⟩⟩, fun e he => by cases he; rfl⟩

/-- `calculator._add_months` on a valid date, amounts inside the exact range of the Decimal-based division: whenever it
    raises, it raises `OverflowError` (regular family, Hebrew, Badi: C09's `addMonths_regular_spec`,
    `heb_addMonths_spec`, `addMonths_badi_spec` — the target year of the month index is outside the calendar) -/
theorem addMonths_raises_overflow (H : C09.Evaluated) (n : Nat) (k : Cal) (hk : Cal.ofOrd n = some k) (s : Ymd)
    (hs : C09.Valid k.c s) (m : Int) (hb : -decBound + 20 < m ∧ m < decBound - 20) (e : PyExc)
    (he : addMonths k s m = .error e) : e = .overflowError := by
  obtain ⟨i1, i2, i3, i4, i5, i6, i7, i8⟩ := C09.regular_islamic_all
  have hn : n < 19 := by
    by_cases h : n < 19
    · exact h
    · have : calcOf n = none := by
        unfold calcOf
        split <;> first | rfl | omega
      unfold Cal.ofOrd at hk; rw [this] at hk; cases hk
  have reg : ∀ (k : Cal) (M : Int), C09.RegularCal k M → ∀ s, C09.Valid k.c s → addMonths k s m = .error e →
      e = .overflowError := by
    intro k M hR s hs he
    have he' : addMonthsRegular k.c M s m = .error e := by
      unfold addMonths at he
      rw [hR.fam] at he
      simp only at he
      rw [hR.months] at he
      exact he
    by_cases h0 : m = 0
    · subst h0; rw [C09.addMonths_regular_zero] at he'; cases he'
    · obtain ⟨_, _, m1, m2, _, _⟩ := C01.validate_inv hs
      rw [hR.months] at m2
      obtain ⟨Y, Mo, _, _, _, hin, hout⟩ := C09.addMonths_regular_spec k.c M hR.mM s.1 s.2.1 s.2.2 m h0
        (by rcases hR.mM with rfl | rfl <;> (unfold decBound at *; omega))
      have es : s = (s.1, s.2.1, s.2.2) := rfl
      rw [es] at he'
      by_cases hr : k.c.minYear ≤ Y ∧ Y ≤ k.c.maxYear
      · rw [hin hr] at he'; cases he'
      · rw [hout hr] at he'; cases he'; rfl
  have heb : ∀ (scr : Bool), C01.WF (Heb.cal scr) → ∀ s, C09.Valid (Heb.cal scr) s →
      Hebrew.addMonths scr (Heb.cal scr) s m = .error e → e = .overflowError := by
    intro scr hw s hs he
    by_cases h0 : m = 0
    · subst h0; unfold Hebrew.addMonths at he; rw [if_pos rfl] at he; cases he
    · obtain ⟨Y, _, _, hin, hout⟩ := C09.heb_addMonths_spec scr hw s hs m h0 (by unfold decBound at *; omega)
      by_cases hr : 1 ≤ Y ∧ Y ≤ 9999
      · obtain ⟨r, hr', _⟩ := hin hr; rw [hr'] at he; cases he
      · rw [hout hr] at he; cases he; rfl
  have cases19 : n = 0 ∨ n = 1 ∨ n = 2 ∨ n = 3 ∨ n = 4 ∨ n = 5 ∨ n = 6 ∨ n = 7 ∨ n = 8 ∨ n = 9 ∨ n = 10 ∨ n = 11 ∨
      n = 12 ∨ n = 13 ∨ n = 14 ∨ n = 15 ∨ n = 16 ∨ n = 17 ∨ n = 18 := by omega
  rcases cases19 with rfl | rfl | rfl | rfl | rfl | rfl | rfl | rfl | rfl | rfl | rfl | rfl | rfl | rfl | rfl | rfl | rfl | rfl | rfl <;>
    (have hk' := (Option.some.inj hk).symm; subst hk')
  · exact reg _ 12 C09.regular_gregorian s hs he
  · exact reg _ 12 ⟨rfl, C01.greg_wf, Or.inl rfl, fun _ => rfl, rfl⟩ s hs he
  · exact reg _ 12 C09.regular_julian s hs he
  · exact reg _ 13 C09.regular_coptic s hs he
  · exact heb false (C01.wfCheck_sound _ H.wf_hebrewCivil) s hs he
  · exact heb true (C01.wfCheck_sound _ H.wf_hebrewScriptural) s hs he
  · exact reg _ 12 C09.regular_persianSimple s hs he
  · exact reg _ 12 C09.regular_persianArithmetic s hs he
  · exact reg _ 12 (C09.regular_persianAstronomical H.wf_persianAstronomical) s hs he
  · exact reg _ 12 i1 s hs he
  · exact reg _ 12 i2 s hs he
  · exact reg _ 12 i3 s hs he
  · exact reg _ 12 i4 s hs he
  · exact reg _ 12 i5 s hs he
  · exact reg _ 12 i6 s hs he
  · exact reg _ 12 i7 s hs he
  · exact reg _ 12 i8 s hs he
  · exact reg _ 12 (C09.regular_umAlQura H.wf_umAlQura) s hs he
  · by_cases h0 : m = 0
    · subst h0
      have he' : BadiArith.addMonths Badi.cal s 0 = .error e := he
      unfold BadiArith.addMonths at he'; rw [if_pos rfl] at he'; cases he'
    · have he' : BadiArith.addMonths Badi.cal (s.1, s.2.1, s.2.2) m = .error e := he
      obtain ⟨Y, Mo, _, _, _, hin, hout⟩ := C09.addMonths_badi_spec Badi.cal s.1 s.2.1 s.2.2 m h0 _ rfl
      by_cases hr : Badi.cal.minYear ≤ Y ∧ Y ≤ Badi.cal.maxYear
      · rw [hin hr] at he'; cases he'
      · rw [hout hr] at he'; cases he'; rfl

end Pyoda.C10
