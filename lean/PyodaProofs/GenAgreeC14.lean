/-
  GenAgreeC14 — agreement between the codec GENERATED from pyoda_time's Python source (`PyodaGen/C14.lean`:
  `_DateTimeZoneReader`, translated method by method into state-passing functions over the object state
  `Gen.Codec.RS` = stream + one-byte look-ahead buffer + string pool) and the reader STATE MACHINE of the model
  (`PyodaModel/Codec/Session.lean`: `readByteM`, `hasMoreDataM`, `readVarintM`, … over `RState`).

  `ofM pol m` is the model state `m` as the generated code's object state, reading from a stream whose `read(n)`
  follows the policy `pol` (how many bytes a call hands out).  Every theorem holds for EVERY policy that keeps the
  contract of `io.RawIOBase.read` (`PolicyOk`: at least one byte unless at the end, never more than asked) — so the
  short-read loop of `read_string` is covered — and for every model state whose bytes are bytes (`WF`: < 256; the
  model's `Bytes` are lists of naturals).  `gen_X_eq : Gen.X (ofM pol m) = liftG pol conv (XM m)`: same value, same
  exception, and the object is left in the state the model says.  `*_pres` say that `WF` is kept.
-/
import PyodaGen.C14
import PyodaModel.Codec.Session
import PyodaProofs.Basic
import PyodaProofs.GenAgreeBits
import PyodaProofs.C14SessionRefine

namespace Pyoda.GenAgree.C14
open Pyoda Pyoda.Codec Pyoda.Codec.Session Pyoda.Gen.Codec

/-- a model reader state as the generated code's object state -/
def ofM (pol : Nat → Nat → Nat) (m : RState) : RS :=
  ⟨⟨m.input, pol⟩, m.buffered.map (fun b => (b : Int)), m.pool⟩

/-- a result of the model's state machine as a result of the generated code -/
def liftG {α β} (pol : Nat → Nat → Nat) (c : α → β) (r : R (α × RState)) : R (β × RS) :=
  match r with
  | .ok (a, m) => .ok (c a, ofM pol m)
  | .error e => .error e

@[simp] theorem liftG_ok {α β} (pol) (c : α → β) (a : α) (m : RState) : liftG pol c (.ok (a, m)) = .ok (c a, ofM pol m) := rfl
@[simp] theorem liftG_error {α β} (pol) (c : α → β) (e : PyExc) : (liftG pol c (.error e : R (α × RState))) = .error e := rfl

/-- the bytes at hand are bytes -/
def WF (m : RState) : Prop := (∀ b ∈ m.input, b < 256) ∧ (∀ b, m.buffered = some b → b < 256)

/-- a state machine step keeps `WF` -/
def Pres {α} (x : RM α) : Prop := ∀ m v m', WF m → x m = .ok (v, m') → WF m'

theorem Pres.pure {α} (a : α) : Pres (pure a : RM α) := by
  intro m v m' h e
  have : m' = m := by
    have e' : (Except.ok (a, m) : R (α × RState)) = .ok (v, m') := e
    injection e' with e'; injection e' with _ e2; exact e2.symm
  rw [this]; exact h

theorem Pres.throw {α} (e : PyExc) : Pres (throw e : RM α) := by
  intro m v m' _ h
  have h' : (Except.error e : R (α × RState)) = .ok (v, m') := h
  cases h'

theorem Pres.bind {α β} {x : RM α} {k : α → RM β} (hx : Pres x) (hk : ∀ a, Pres (k a)) : Pres (x >>= k) := by
  intro m v m' h e
  have e1 : (x >>= k) m = (x m >>= fun p => k p.1 p.2) := rfl
  rw [e1] at e
  cases hxe : x m with
  | error er => rw [hxe] at e; cases e
  | ok p =>
    obtain ⟨a, m1⟩ := p
    rw [hxe] at e
    exact hk a m1 v m' (hx m a m1 h hxe) e

theorem Pres.ite {α} {c : Prop} [Decidable c] {x y : RM α} (hx : Pres x) (hy : Pres y) : Pres (if c then x else y) := by
  by_cases h : c
  · simp only [h, if_true]; exact hx
  · simp only [h, if_false]; exact hy

theorem Pres.liftR {α} (x : R α) : Pres (monadLift x : RM α) := by
  intro m v m' h e
  cases x with
  | error er => cases e
  | ok a =>
    have e' : (Except.ok (a, m) : R (α × RState)) = .ok (v, m') := e
    injection e' with e'; injection e' with _ e2; rw [← e2]; exact h

theorem readByteM_pres : Pres readByteM := by
  intro m v m' h e
  obtain ⟨i, b, p⟩ := m
  cases b with
  | some x =>
    have e' : (Except.ok (x, (⟨i, none, p⟩ : RState)) : R (Nat × RState)) = .ok (v, m') := e
    injection e' with e'; injection e' with _ e2; rw [← e2]
    exact ⟨h.1, by intro b hb; cases hb⟩
  | none =>
    cases i with
    | nil => cases e
    | cons y r =>
      have e' : (Except.ok (y, (⟨r, none, p⟩ : RState)) : R (Nat × RState)) = .ok (v, m') := e
      injection e' with e'; injection e' with _ e2; rw [← e2]
      exact ⟨fun b hb => h.1 b (List.mem_cons_of_mem _ hb), by intro b hb; cases hb⟩

/-- the value `read_byte` returns is a byte -/
theorem readByteM_lt (m : RState) (v : Nat) (m' : RState) (h : WF m) (e : readByteM m = .ok (v, m')) : v < 256 := by
  obtain ⟨i, b, p⟩ := m
  cases b with
  | some x =>
    have e' : (Except.ok (x, (⟨i, none, p⟩ : RState)) : R (Nat × RState)) = .ok (v, m') := e
    injection e' with e'; injection e' with e1 _; rw [← e1]; exact h.2 x rfl
  | none =>
    cases i with
    | nil => cases e
    | cons y r =>
      have e' : (Except.ok (y, (⟨r, none, p⟩ : RState)) : R (Nat × RState)) = .ok (v, m') := e
      injection e' with e'; injection e' with e1 _; rw [← e1]; exact h.1 y (List.mem_cons_self ..)

/-! ## `_ctor`, `read_byte`, `has_more_data` -/

theorem gen_Reader_ctor_eq (pol) (bs : Bytes) (pool : Pool) :
    Gen.C14.Reader.ctor ⟨bs, pol⟩ pool = ofM pol ⟨bs, none, pool⟩ := rfl

theorem gen_Reader_readByte_eq (pol) (hp : PolicyOk pol) (m : RState) :
    Gen.C14.Reader.readByte (ofM pol m) = liftG pol (fun b : Nat => (b : Int)) (readByteM m) := by
  obtain ⟨i, b, p⟩ := m
  cases b with
  | some x => rfl
  | none =>
    cases i with
    | nil => rfl
    | cons y r =>
      have hk := hp 1 (r.length + 1) (by decide) (by omega)
      have hk1 : pol 1 (r.length + 1) = 1 := by omega
      simp only [Gen.C14.Reader.readByte, ofM, Option.map, RS.read, InStream.read, readByteM, liftG]
      simp [hk1, Gen.pyBytesIndex, bind, Except.bind]

theorem gen_Reader_hasMoreData_eq (pol) (hp : PolicyOk pol) (m : RState) :
    Gen.C14.Reader.hasMoreData (ofM pol m) = liftG pol id (hasMoreDataM m) := by
  obtain ⟨i, b, p⟩ := m
  cases b with
  | some x => rfl
  | none =>
    cases i with
    | nil => rfl
    | cons y r =>
      have hk := hp 1 (r.length + 1) (by decide) (by omega)
      have hk1 : pol 1 (r.length + 1) = 1 := by omega
      simp only [Gen.C14.Reader.hasMoreData, ofM, Option.map, RS.read, InStream.read, hasMoreDataM, liftG]
      simp [hk1, Gen.pyBytesIndex, bind, Except.bind]

/-! ## combinators: the generated function does what the state machine does -/

/-- what a step guarantees about the value it returns on a well-formed state -/
def Post {α} (x : RM α) (Q : α → Prop) : Prop := ∀ m v m', WF m → x m = .ok (v, m') → Q v

/-- the generated function `g` does what the state machine `x` does (values related by `c`) -/
def Ag {α β} (pol : Nat → Nat → Nat) (g : RS → R (β × RS)) (c : α → β) (x : RM α) : Prop :=
  ∀ m, WF m → g (ofM pol m) = liftG pol c (x m)

theorem Ag.bind {α β α' β'} {pol} {g : RS → R (β × RS)} {c : α → β} {x : RM α}
    {kg : β → RS → R (β' × RS)} {c' : α' → β'} {k : α → RM α'} (Q : α → Prop)
    (h : Ag pol g c x) (hx : Pres x) (hq : Post x Q) (hk : ∀ a, Q a → Ag pol (kg (c a)) c' (k a)) :
    Ag pol (fun st => g st >>= fun p => match p with | (a, s) => kg a s) c' (x >>= k) := by
  intro m hm
  have e1 : (x >>= k) m = (x m >>= fun p => k p.1 p.2) := rfl
  show (g (ofM pol m) >>= fun p => match p with | (a, s) => kg a s) = _
  rw [h m hm, e1]
  cases hxe : x m with
  | error er => rfl
  | ok p =>
    obtain ⟨a, m1⟩ := p
    exact hk a (hq m a m1 hm hxe) m1 (hx m a m1 hm hxe)

theorem Ag.pure {α β} {pol} (c : α → β) (a : α) (b : β) (h : b = c a) :
    Ag pol (fun st => .ok (b, st)) c (pure a : RM α) := by
  intro m _; rw [h]; rfl

theorem Ag.throw {α β} {pol} (c : α → β) (e : PyExc) :
    Ag pol (fun _ => (.error e : R (β × RS))) c (throw e : RM α) := by
  intro m _; rfl

theorem Post.true {α} (x : RM α) : Post x (fun _ => True) := fun _ _ _ _ _ => trivial

theorem readByteM_post : Post readByteM (fun v => v < 256) := fun m v m' h e => readByteM_lt m v m' h e

theorem readByte_ag (pol) (hp : PolicyOk pol) : Ag pol Gen.C14.Reader.readByte (fun b : Nat => (b : Int)) readByteM :=
  fun m _ => gen_Reader_readByte_eq pol hp m

/-! ## fixed-width integers -/

theorem stM_bind {α β} (x : RM α) (k : α → RM β) (m : RState) : (x >>= k) m = (x m >>= fun p => k p.1 p.2) := rfl
theorem stM_pure {α} (a : α) (m : RState) : (pure a : RM α) m = .ok (a, m) := rfl
theorem stM_throw {α} (e : PyExc) (m : RState) : (throw e : RM α) m = .error e := rfl
theorem ok_bind {α β} (a : α) (f : α → R β) : ((.ok a : R α) >>= f) = f a := rfl
theorem err_bind {α β} (e : PyExc) (f : α → R β) : ((.error e : R α) >>= f) = .error e := rfl

/-- one step of a state-passing chain: rewrite the generated call by its agreement theorem `e`, split on what the state
    machine `t` returns (an exception ends both sides), name the value, the next state and the equation -/
syntax "gstep " term " on " term " as " ident ident ident : tactic
macro_rules
  | `(tactic| gstep $e on $t as $a $m1 $h) =>
    `(tactic| (rw [$e:term, stM_bind]; rcases $h:ident : $t with _ | ⟨$a:ident, $m1:ident⟩; · rfl
               simp only [liftG_ok, ok_bind]))

/-! ## two's-complement facts used below (all operands are non-negative here) -/

/-- `(a << k) | r = a·2^k + r` for `r < 2^k` -/
theorem pyOr_shl_nat (k a r : Nat) (hr : r < 2 ^ k) : Gen.pyOr ((a : Int) * 2 ^ k) (r : Int) = ((a * 2 ^ k + r : Nat) : Int) := by
  have e : ((a : Int) * 2 ^ k) = ((2 ^ k * a : Nat) : Int) := by
    rw [Nat.mul_comm]; push_cast; rfl
  rw [e]
  show ((2 ^ k * a ||| r : Nat) : Int) = _
  rw [← Nat.two_pow_add_eq_or_of_lt hr a, Nat.mul_comm]

theorem pyOr_shl (k : Nat) (a r : Int) (ha : 0 ≤ a) (h0 : 0 ≤ r) (h1 : r < 2 ^ k) : Gen.pyOr (a * 2 ^ k) r = a * 2 ^ k + r := by
  obtain ⟨n, rfl⟩ := Int.eq_ofNat_of_zero_le ha
  obtain ⟨j, rfl⟩ := Int.eq_ofNat_of_zero_le h0
  have hj : j < 2 ^ k := by exact_mod_cast h1
  rw [pyOr_shl_nat k n j hj]; push_cast; rfl

/-- the masks of `read_milliseconds` on a byte -/
theorem and128_byte : ∀ n, n < 256 → Gen.pyAnd (Int.ofNat n) 128 = if n < 128 then 0 else 128 := by decide +kernel
theorem and224_byte : ∀ n, n < 256 → Gen.pyAnd (Int.ofNat n) 224 = Int.ofNat (n / 32 * 32) := by decide +kernel

theorem and128 (n : Nat) (h : n < 256) : Gen.pyAnd (n : Int) 128 = if n < 128 then 0 else 128 := and128_byte n h
theorem and224 (n : Nat) (h : n < 256) : Gen.pyAnd (n : Int) 224 = ((n / 32 * 32 : Nat) : Int) := and224_byte n h

/-- zig-zag decoding: `(v >> 1) ^ -(v & 1)` -/
theorem unzigzag_eq (u : Nat) : Gen.pyXor ((u : Int) >>> 1) (-(Int.fmod (u : Int) 2)) = unzigzag u := by
  rw [fmod_pos _ _ (by decide)]
  have hs : ((u : Int) >>> 1) = ((u / 2 : Nat) : Int) := by
    rw [Int.shiftRight_eq_div_pow]; push_cast; rfl
  rw [hs]
  unfold unzigzag
  by_cases h : u % 2 = 0
  · have : ((u : Int) % 2) = 0 := by omega
    rw [this, if_pos h]
    show (((u / 2) ^^^ 0 : Nat) : Int) = _
    rw [Nat.xor_zero]
  · have : ((u : Int) % 2) = 1 := by omega
    rw [this, if_neg h]
    show Int.negSucc ((u / 2) ^^^ 0) = _
    rw [Nat.xor_zero, Int.negSucc_eq]; omega

/-! ## fixed-width integers -/

theorem readByteM_abs (m : RState) (b : Nat) (m1 : RState) (e : readByteM m = .ok (b, m1)) :
    m.abs = b :: m1.abs ∧ m1.buffered = none ∧ m1.pool = m.pool := by
  obtain ⟨i, bf, p⟩ := m
  cases bf with
  | some x =>
    have e' : (Except.ok (x, (⟨i, none, p⟩ : RState)) : R (Nat × RState)) = .ok (b, m1) := e
    injection e' with e'; injection e' with e1 e2; subst e1 e2; exact ⟨rfl, rfl, rfl⟩
  | none =>
    cases i with
    | nil => cases e
    | cons y r =>
      have e' : (Except.ok (y, (⟨r, none, p⟩ : RState)) : R (Nat × RState)) = .ok (b, m1) := e
      injection e' with e'; injection e' with e1 e2; subst e1 e2; exact ⟨rfl, rfl, rfl⟩

theorem readInt16M_pres : Pres readInt16M := by
  unfold readInt16M
  exact Pres.bind readByteM_pres (fun _ => Pres.bind readByteM_pres (fun _ => Pres.pure _))

theorem gen_Reader_readInt16_eq (pol) (hp : PolicyOk pol) (m : RState) (hm : WF m) :
    Gen.C14.Reader.readInt16 (ofM pol m) = liftG pol (fun b : Nat => (b : Int)) (readInt16M m) := by
  unfold Gen.C14.Reader.readInt16 readInt16M
  gstep (gen_Reader_readByte_eq pol hp m) on (readByteM m) as h m1 h1
  have w1 := readByteM_pres m h m1 hm h1
  gstep (gen_Reader_readByte_eq pol hp m1) on (readByteM m1) as l m2 h2
  have b2 := readByteM_lt m1 l m2 w1 h2
  rw [stM_pure, liftG_ok, pyOr_shl_nat 8 h l (by omega)]

theorem readInt32M_pres : Pres readInt32M := by
  unfold readInt32M
  exact Pres.bind readInt16M_pres (fun _ => Pres.bind readInt16M_pres (fun _ => Pres.pure _))

theorem gen_Reader_readInt32_eq (pol) (hp : PolicyOk pol) (m : RState) (hm : WF m) :
    Gen.C14.Reader.readInt32 (ofM pol m) = liftG pol (fun b : Nat => (b : Int)) (readInt32M m) := by
  unfold Gen.C14.Reader.readInt32 readInt32M
  gstep (gen_Reader_readInt16_eq pol hp m hm) on (readInt16M m) as h m1 h1
  have w1 := readInt16M_pres m h m1 hm h1
  gstep (gen_Reader_readInt16_eq pol hp m1 w1) on (readInt16M m1) as l m2 h2
  rw [stM_pure, liftG_ok, fmod_pos _ _ (by decide), fmod_pos _ _ (by decide)]
  have e1 : ((h : Int) % 65536) = ((h % 65536 : Nat) : Int) := by omega
  have e2 : ((l : Int) % 65536) = ((l % 65536 : Nat) : Int) := by omega
  rw [e1, e2, pyOr_shl_nat 16 _ _ (Nat.mod_lt _ (by decide))]

theorem readInt64M_pres : Pres readInt64M := by
  unfold readInt64M
  exact Pres.bind readInt32M_pres (fun _ => Pres.bind readInt32M_pres (fun _ => Pres.pure _))

theorem pyOr_shl32 (a r : Nat) (hr : r < 4294967296) : Gen.pyOr ((a : Int) * 2 ^ 32) (r : Int) = ((a * 4294967296 + r : Nat) : Int) := by
  have p32 : (2 : Nat) ^ 32 = 4294967296 := by decide
  have := pyOr_shl_nat 32 a r (by rw [p32]; exact hr)
  rw [p32] at this
  exact this

theorem gen_Reader_readInt64_eq (pol) (hp : PolicyOk pol) (m : RState) (hm : WF m) :
    Gen.C14.Reader.readInt64 (ofM pol m) = liftG pol id (readInt64M m) := by
  unfold Gen.C14.Reader.readInt64 readInt64M
  gstep (gen_Reader_readInt32_eq pol hp m hm) on (readInt32M m) as h m1 h1
  have w1 := readInt32M_pres m h m1 hm h1
  gstep (gen_Reader_readInt32_eq pol hp m1 w1) on (readInt32M m1) as l m2 h2
  rw [stM_pure, liftG_ok, fmod_pos _ _ (by decide), fmod_pos _ _ (by decide)]
  have e1 : ((h : Int) % 4294967296) = ((h % 4294967296 : Nat) : Int) := by omega
  have e2 : ((l : Int) % 4294967296) = ((l % 4294967296 : Nat) : Int) := by omega
  rw [e1, e2, pyOr_shl32 _ _ (Nat.mod_lt _ (by decide))]
  rw [id_eq]

/-! ## varints, counts -/

theorem pyShl_nat (a s : Nat) : Gen.pyShl (a : Int) (s : Int) = .ok (((a * 2 ^ s : Nat)) : Int) := by
  unfold Gen.pyShl
  rw [if_neg (by omega)]
  congr 1

/-- the loop of `__read_varint`, round for round -/
theorem gen_Reader_readVarint_loop1_eq (pol) (hp : PolicyOk pol) : ∀ (fuel acc shift : Nat) (m : RState), m.abs.length < fuel →
    match readVarintLoopM fuel acc shift m with
    | .ok (v, m') => ∃ sh : Int, Gen.C14.Reader.readVarint.loop1 fuel (acc : Int) (shift : Int) (ofM pol m) =
        .ok (some (v : Int), ((v : Int), sh, ofM pol m'))
    | .error e => Gen.C14.Reader.readVarint.loop1 fuel (acc : Int) (shift : Int) (ofM pol m) = .error e := by
  intro fuel
  induction fuel with
  | zero => intro _ _ m h; omega
  | succ fuel ih =>
    intro acc shift m hlen
    have e1 : readVarintLoopM (fuel + 1) acc shift m =
        (readByteM m >>= fun p => (if p.1 < 128 then (pure (acc + (p.1 % 128) * 2 ^ shift) : RM Nat)
          else readVarintLoopM fuel (acc + (p.1 % 128) * 2 ^ shift) (shift + 7)) p.2) := rfl
    rw [e1]
    unfold Gen.C14.Reader.readVarint.loop1
    rw [gen_Reader_readByte_eq pol hp m]
    rcases h1 : readByteM m with e | ⟨b, m1⟩
    · simp only [liftG_error, err_bind]
    · simp only [liftG_ok, ok_bind]
      have hb : Int.fmod (b : Int) 128 = ((b % 128 : Nat) : Int) := by
        rw [fmod_pos _ _ (by decide)]; omega
      rw [hb, pyShl_nat]
      simp only [ok_bind]
      have habs := readByteM_abs m b m1 h1
      by_cases hlt : b < 128
      · have hlt' : (b : Int) < 128 := by omega
        rw [if_pos hlt, if_pos hlt', stM_pure]
        refine ⟨(shift : Int) + 7, ?_⟩
        congr 3 <;> push_cast <;> rfl
      · have hlt' : ¬ (b : Int) < 128 := by omega
        rw [if_neg hlt, if_neg hlt']
        have hl : m1.abs.length < fuel := by
          rw [habs.1] at hlen; simp only [List.length_cons] at hlen; omega
        have := ih (acc + (b % 128) * 2 ^ shift) (shift + 7) m1 hl
        have ec : ((acc : Int) + ((b % 128 * 2 ^ shift : Nat) : Int)) = ((acc + (b % 128) * 2 ^ shift : Nat) : Int) := by push_cast; rfl
        have es : ((shift : Int) + 7) = ((shift + 7 : Nat) : Int) := by push_cast; rfl
        rw [ec, es]
        exact this

theorem fuel_ofM (pol) (m : RState) : RS.fuel (ofM pol m) = m.abs.length + 1 := by
  obtain ⟨i, b, p⟩ := m
  cases b <;> simp [RS.fuel, ofM, RState.abs]

theorem readVarintLoopM_pres : ∀ (fuel acc shift : Nat), Pres (readVarintLoopM fuel acc shift) := by
  intro fuel
  induction fuel with
  | zero => intro _ _; exact Pres.throw _
  | succ fuel ih =>
    intro acc shift
    unfold readVarintLoopM
    exact Pres.bind readByteM_pres (fun b => Pres.ite (Pres.pure _) (ih _ _))

theorem readVarintM_pres : Pres readVarintM := fun m v m' h e => readVarintLoopM_pres _ 0 0 m v m' h e

theorem gen_Reader_readVarint_eq (pol) (hp : PolicyOk pol) (m : RState) :
    Gen.C14.Reader.readVarint (ofM pol m) = liftG pol (fun b : Nat => (b : Int)) (readVarintM m) := by
  unfold Gen.C14.Reader.readVarint
  rw [fuel_ofM]
  have h := gen_Reader_readVarint_loop1_eq pol hp (m.abs.length + 1) 0 0 m (Nat.lt_succ_self _)
  have e : readVarintM m = readVarintLoopM (m.abs.length + 1) 0 0 m := rfl
  rw [e]
  show (Gen.C14.Reader.readVarint.loop1 (m.abs.length + 1) 0 0 (ofM pol m) >>= _) = _
  rcases h1 : readVarintLoopM (m.abs.length + 1) 0 0 m with er | ⟨v, m'⟩
  · rw [h1] at h
    have h' : Gen.C14.Reader.readVarint.loop1 (m.abs.length + 1) 0 0 (ofM pol m) = .error er := h
    rw [h']; rfl
  · rw [h1] at h
    obtain ⟨sh, h'⟩ := h
    have h'' : Gen.C14.Reader.readVarint.loop1 (m.abs.length + 1) 0 0 (ofM pol m) = .ok (some (v : Int), ((v : Int), sh, ofM pol m')) := h'
    rw [h'']; rfl

theorem readCountM_pres : Pres readCountM := by
  unfold readCountM
  exact Pres.bind readVarintM_pres (fun _ => Pres.ite (Pres.throw _) (Pres.pure _))

theorem gen_Reader_readCount_eq (pol) (hp : PolicyOk pol) (m : RState) :
    Gen.C14.Reader.readCount (ofM pol m) = liftG pol id (readCountM m) := by
  unfold Gen.C14.Reader.readCount readCountM
  gstep (gen_Reader_readVarint_eq pol hp m) on (readVarintM m) as u m1 h1
  by_cases h : (u : Int) > INT_MAX
  · have h' : (u : Int) > 2147483647 := h
    rw [if_pos h, if_pos h']; rfl
  · have h' : ¬ (u : Int) > 2147483647 := h
    rw [if_neg h, if_neg h']; rfl

theorem readCountM_nonneg : Post readCountM (fun v => 0 ≤ v) := by
  intro m v m' _ e
  unfold readCountM at e
  rw [stM_bind] at e
  rcases h1 : readVarintM m with er | ⟨u, m1⟩
  · rw [h1] at e; cases e
  · rw [h1] at e
    simp only [ok_bind] at e
    by_cases h : (u : Int) > INT_MAX
    · rw [if_pos h] at e; cases e
    · rw [if_neg h] at e
      have e' : (Except.ok ((u : Int), m1) : R (Int × RState)) = .ok (v, m') := e
      injection e' with e'; injection e' with e1 _; rw [← e1]; omega

theorem readSignedCountM_pres : Pres readSignedCountM := by
  unfold readSignedCountM
  exact Pres.bind readVarintM_pres (fun _ => Pres.pure _)

theorem gen_Reader_readSignedCount_eq (pol) (hp : PolicyOk pol) (m : RState) :
    Gen.C14.Reader.readSignedCount (ofM pol m) = liftG pol id (readSignedCountM m) := by
  unfold Gen.C14.Reader.readSignedCount readSignedCountM
  gstep (gen_Reader_readVarint_eq pol hp m) on (readVarintM m) as u m1 h1
  rw [stM_pure, liftG_ok, unzigzag_eq]
  rfl

/-! ## milliseconds, offsets -/

theorem readMillisecondsM_pres : Pres readMillisecondsM := by
  unfold readMillisecondsM
  refine Pres.bind readByteM_pres (fun first => Pres.ite (Pres.pure _) ?_)
  refine Pres.ite (Pres.bind readByteM_pres (fun _ => Pres.pure _)) ?_
  refine Pres.ite (Pres.bind readInt16M_pres (fun _ => Pres.pure _)) ?_
  exact Pres.ite (Pres.bind readByteM_pres (fun _ => Pres.bind readInt16M_pres (fun _ => Pres.pure _))) (Pres.throw _)

theorem gen_Reader_readMilliseconds_eq (pol) (hp : PolicyOk pol) (m : RState) (hm : WF m) :
    Gen.C14.Reader.readMilliseconds (ofM pol m) = liftG pol id (readMillisecondsM m) := by
  unfold Gen.C14.Reader.readMilliseconds readMillisecondsM
  gstep (gen_Reader_readByte_eq pol hp m) on (readByteM m) as first m1 h1
  have w1 := readByteM_pres m first m1 hm h1
  have bf := readByteM_lt m first m1 hm h1
  rw [and128 first bf, and224 first bf, fmod_pos _ _ (by decide)]
  have efd : ((first : Int) % 32) = ((first % 32 : Nat) : Int) := by omega
  rw [efd]
  by_cases hlt : first < 128
  · rw [if_pos hlt, if_pos hlt, if_pos rfl, stM_pure, liftG_ok, id_eq]
    congr 2
  · rw [if_neg hlt, if_neg hlt, if_neg (by decide)]
    by_cases h4 : first / 32 = 4
    · have h4' : ((first / 32 * 32 : Nat) : Int) = 128 := by omega
      rw [if_pos h4, if_pos h4']
      gstep (gen_Reader_readByte_eq pol hp m1) on (readByteM m1) as b m2 h2
      rw [stM_pure, liftG_ok, id_eq]
      congr 2
    · have h4' : ¬ ((first / 32 * 32 : Nat) : Int) = 128 := by omega
      rw [if_neg h4, if_neg h4']
      by_cases h5 : first / 32 = 5
      · have h5' : ((first / 32 * 32 : Nat) : Int) = 160 := by omega
        rw [if_pos h5, if_pos h5']
        gstep (gen_Reader_readInt16_eq pol hp m1 w1) on (readInt16M m1) as w m2 h2
        rw [stM_pure, liftG_ok, id_eq, fmod_pos _ _ (by decide)]
        congr 2
      · have h5' : ¬ ((first / 32 * 32 : Nat) : Int) = 160 := by omega
        rw [if_neg h5, if_neg h5']
        by_cases h6 : first / 32 = 6
        · have h6' : ((first / 32 * 32 : Nat) : Int) = 192 := by omega
          rw [if_pos h6, if_pos h6']
          gstep (gen_Reader_readByte_eq pol hp m1) on (readByteM m1) as b m2 h2
          have w2 := readByteM_pres m1 b m2 w1 h2
          gstep (gen_Reader_readInt16_eq pol hp m2 w2) on (readInt16M m2) as w m3 h3
          rw [stM_pure, liftG_ok, id_eq, fmod_pos _ _ (by decide)]
          congr 2
        · have h6' : ¬ ((first / 32 * 32 : Nat) : Int) = 192 := by omega
          rw [if_neg h6, if_neg h6']
          rfl

theorem readOffsetM_pres : Pres readOffsetM := by
  unfold readOffsetM
  exact Pres.bind readMillisecondsM_pres (fun _ => Pres.liftR _)

theorem stM_liftR {α} (x : R α) (m : RState) : (monadLift x : RM α) m = (x >>= fun a => .ok (a, m)) := by
  cases x <;> rfl

theorem gen_Reader_readOffset_eq (pol) (hp : PolicyOk pol) (m : RState) (hm : WF m) :
    Gen.C14.Reader.readOffset (ofM pol m) = liftG pol id (readOffsetM m) := by
  unfold Gen.C14.Reader.readOffset readOffsetM
  gstep (gen_Reader_readMilliseconds_eq pol hp m hm) on (readMillisecondsM m) as ms m1 h1
  rw [id_eq]
  show _ = liftG pol id ((monadLift (Offset.fromMilliseconds ms) : RM Offset) m1)
  rw [stM_liftR]
  rcases h2 : Offset.fromMilliseconds ms with e | o
  · rfl
  · rfl

/-! ## zone interval transitions -/

theorem tail_liftR {α} (pol) (x : R α) (m1 : RState) :
    (x >>= fun r => (.ok (r, ofM pol m1) : R (α × RS))) = liftG pol id ((monadLift x : RM α) m1) := by
  cases x <;> rfl

theorem readTransitionM_pres (previous : Option Instant) : Pres (readTransitionM previous) := by
  unfold readTransitionM
  refine Pres.bind readCountM_pres (fun value => Pres.ite ?_ (Pres.ite ?_ ?_))
  · exact Pres.ite (Pres.pure _) (Pres.ite (Pres.pure _) (Pres.ite (Pres.bind readInt64M_pres (fun _ => Pres.liftR _)) (Pres.throw _)))
  · cases previous with
    | none => exact Pres.throw _
    | some p => exact Pres.bind (Pres.liftR _) (fun _ => Pres.liftR _)
  · exact Pres.bind (Pres.liftR _) (fun _ => Pres.liftR _)

/-- the part of `read_zone_interval_transition` that does not depend on `previous` -/
theorem transition_common (pol) (hp : PolicyOk pol) (value : Int) (m1 : RState) (w1 : WF m1) :
    (if value = 0 then (.ok (Instant.beforeMin, ofM pol m1) : R (Instant × RS))
      else if value = 1 then .ok (Instant.afterMax, ofM pol m1)
      else if value = 2 then do
        let (t'2, st) ← Gen.C14.Reader.readInt64 (ofM pol m1)
        let r'3 ← Instant.fromUnixTicks t'2
        .ok (r'3, st)
      else .error .invalidData) =
    liftG pol id ((if value = MARKER_MIN then (pure Instant.beforeMin : RM Instant)
      else if value = MARKER_MAX then pure Instant.afterMax
      else if value = MARKER_RAW then (readInt64M >>= fun t => (monadLift (Instant.fromUnixTicks t) : RM Instant))
      else throw .invalidData) m1) := by
  by_cases h0 : value = 0
  · have h0' : value = MARKER_MIN := h0
    rw [if_pos h0, if_pos h0']; rfl
  · have h0' : ¬ value = MARKER_MIN := h0
    rw [if_neg h0, if_neg h0']
    by_cases h1 : value = 1
    · have h1' : value = MARKER_MAX := h1
      rw [if_pos h1, if_pos h1']; rfl
    · have h1' : ¬ value = MARKER_MAX := h1
      rw [if_neg h1, if_neg h1']
      by_cases h2 : value = 2
      · have h2' : value = MARKER_RAW := h2
        rw [if_pos h2, if_pos h2']
        gstep (gen_Reader_readInt64_eq pol hp m1 w1) on (readInt64M m1) as t m2 h3
        rw [id_eq]
        exact tail_liftR pol _ m2
      · have h2' : ¬ value = MARKER_RAW := h2
        rw [if_neg h2, if_neg h2']; rfl

theorem two_liftR {α β} (pol) (x : R α) (k : α → R β) (m1 : RState) :
    (x >>= fun a => k a >>= fun r => (.ok (r, ofM pol m1) : R (β × RS))) =
      liftG pol id (((monadLift x : RM α) >>= fun a => (monadLift (k a) : RM β)) m1) := by
  rw [stM_bind, stM_liftR]
  cases x with
  | error e => rfl
  | ok a =>
    show (k a >>= fun r => (.ok (r, ofM pol m1) : R (β × RS))) = liftG pol id ((monadLift (k a) : RM β) m1)
    exact tail_liftR pol _ m1

theorem gen_Reader_readTransitionNone_eq (pol) (hp : PolicyOk pol) (m : RState) (hm : WF m) :
    Gen.C14.Reader.readTransitionNone (ofM pol m) = liftG pol id (readTransitionM none m) := by
  unfold Gen.C14.Reader.readTransitionNone readTransitionM
  gstep (gen_Reader_readCount_eq pol hp m) on (readCountM m) as value m1 h1
  have w1 := readCountM_pres m value m1 hm h1
  rw [id_eq]
  by_cases hv : value < 128
  · have hv' : value < MIN_HOURS := hv
    rw [if_pos hv, if_pos hv']
    exact transition_common pol hp value m1 w1
  · have hv' : ¬ value < MIN_HOURS := hv
    rw [if_neg hv, if_neg hv']
    by_cases hm2 : value < 2097152
    · have hm2' : value < MIN_MINUTES := hm2
      rw [if_pos hm2, if_pos hm2']; rfl
    · have hm2' : ¬ value < MIN_MINUTES := hm2
      rw [if_neg hm2, if_neg hm2']
      exact two_liftR pol (Duration.fromMinutes value) (fun d => EPOCH1800.plus d) m1

theorem gen_Reader_readTransitionSome_eq (pol) (hp : PolicyOk pol) (m : RState) (hm : WF m) (previous : Instant) :
    Gen.C14.Reader.readTransitionSome (ofM pol m) previous = liftG pol id (readTransitionM (some previous) m) := by
  unfold Gen.C14.Reader.readTransitionSome readTransitionM
  gstep (gen_Reader_readCount_eq pol hp m) on (readCountM m) as value m1 h1
  have w1 := readCountM_pres m value m1 hm h1
  rw [id_eq]
  by_cases hv : value < 128
  · have hv' : value < MIN_HOURS := hv
    rw [if_pos hv, if_pos hv']
    exact transition_common pol hp value m1 w1
  · have hv' : ¬ value < MIN_HOURS := hv
    rw [if_neg hv, if_neg hv']
    by_cases hm2 : value < 2097152
    · have hm2' : value < MIN_MINUTES := hm2
      rw [if_pos hm2, if_pos hm2']
      exact two_liftR pol (Duration.fromHours value) (fun d => previous.plus d) m1
    · have hm2' : ¬ value < MIN_MINUTES := hm2
      rw [if_neg hm2, if_neg hm2']
      exact two_liftR pol (Duration.fromMinutes value) (fun d => EPOCH1800.plus d) m1

/-! ## strings: the short-read loop of `read_string`, the pool lookup -/

theorem takeExact_eq : ∀ (n : Nat) (l : Bytes), takeExact n l = if n ≤ l.length then some (l.take n, l.drop n) else none := by
  intro n
  induction n with
  | zero => intro l; simp [takeExact]
  | succ n ih =>
    intro l
    cases l with
    | nil => simp [takeExact]
    | cons b t =>
      simp only [takeExact, ih t, List.length_cons, Nat.add_le_add_iff_right]
      by_cases h : n ≤ t.length
      · simp [h]
      · simp [h]

/-- a step keeps the string pool -/
def PoolPres {α} (x : RM α) : Prop := ∀ m v m', x m = .ok (v, m') → m'.pool = m.pool

theorem PoolPres.bind {α β} {x : RM α} {k : α → RM β} (hx : PoolPres x) (hk : ∀ a, PoolPres (k a)) : PoolPres (x >>= k) := by
  intro m v m' e
  rw [stM_bind] at e
  cases hxe : x m with
  | error er => rw [hxe] at e; cases e
  | ok p =>
    obtain ⟨a, m1⟩ := p
    rw [hxe] at e
    rw [hk a m1 v m' e, hx m a m1 hxe]

theorem PoolPres.pure {α} (a : α) : PoolPres (pure a : RM α) := by
  intro m v m' e
  have e' : (Except.ok (a, m) : R (α × RState)) = .ok (v, m') := e
  injection e' with e'; injection e' with _ e2; rw [e2]

theorem PoolPres.throw {α} (e : PyExc) : PoolPres (throw e : RM α) := by
  intro m v m' h
  have h' : (Except.error e : R (α × RState)) = .ok (v, m') := h
  cases h'

theorem PoolPres.ite {α} {c : Prop} [Decidable c] {x y : RM α} (hx : PoolPres x) (hy : PoolPres y) : PoolPres (if c then x else y) := by
  by_cases h : c
  · simp only [h, if_true]; exact hx
  · simp only [h, if_false]; exact hy

theorem readByteM_pool : PoolPres readByteM := fun m v m' e => (readByteM_abs m v m' e).2.2

theorem readVarintLoopM_pool : ∀ (fuel acc shift : Nat), PoolPres (readVarintLoopM fuel acc shift) := by
  intro fuel
  induction fuel with
  | zero => intro _ _; exact PoolPres.throw _
  | succ fuel ih =>
    intro acc shift
    unfold readVarintLoopM
    exact PoolPres.bind readByteM_pool (fun b => PoolPres.ite (PoolPres.pure _) (ih _ _))

theorem readCountM_pool : PoolPres readCountM := by
  unfold readCountM
  exact PoolPres.bind (fun m v m' e => readVarintLoopM_pool _ 0 0 m v m' e) (fun _ => PoolPres.ite (PoolPres.throw _) (PoolPres.pure _))

theorem read_nil (pol) (n : Nat) (bf : Option Int) (pool : Pool) :
    RS.read ⟨⟨[], pol⟩, bf, pool⟩ (n : Int) = ([], ⟨⟨[], pol⟩, bf, pool⟩) := by
  simp [RS.read, InStream.read]

theorem read_cons (pol) (n : Nat) (hn : 0 < n) (b : Nat) (t : Bytes) (bf : Option Int) (pool : Pool) :
    RS.read ⟨⟨b :: t, pol⟩, bf, pool⟩ (n : Int) =
      (List.take (pol n (t.length + 1)) (b :: t), ⟨⟨List.drop (pol n (t.length + 1)) (b :: t), pol⟩, bf, pool⟩) := by
  simp only [RS.read, InStream.read]
  rw [if_neg (by omega), if_neg (by simp; omega)]
  simp only [Int.toNat_natCast, List.length_cons]

/-- the loop `while len(data) < length: chunk = input.read(length - len(data)); …` collects exactly the `need` bytes that are
    still missing, whatever the sizes of the chunks the stream hands out, or fails at the end of the stream -/
theorem gen_Reader_readString_loop1_eq (pol) (hp : PolicyOk pol) : ∀ (fuel need : Nat) (data rest : Bytes) (bf : Option Int) (pool : Pool), need < fuel →
    Gen.C14.Reader.readString.loop1 ((data.length + need : Nat) : Int) fuel data ⟨⟨rest, pol⟩, bf, pool⟩ =
      (match takeExact need rest with
       | some (t, r) => .ok (data ++ t, ⟨⟨r, pol⟩, bf, pool⟩)
       | none => .error .invalidData) := by
  intro fuel
  induction fuel with
  | zero => intro _ _ _ _ _ h; omega
  | succ fuel ih =>
    intro need data rest bf pool hlt
    unfold Gen.C14.Reader.readString.loop1
    by_cases h0 : need = 0
    · subst h0
      have hc : ¬ (Gen.pyLenList data < ((data.length + 0 : Nat) : Int)) := by unfold Gen.pyLenList; omega
      rw [if_neg hc]
      simp [takeExact]
    · have hc : Gen.pyLenList data < ((data.length + need : Nat) : Int) := by unfold Gen.pyLenList; omega
      rw [if_pos hc]
      have hrem : (((data.length + need : Nat) : Int) - Gen.pyLenList data) = (need : Int) := by unfold Gen.pyLenList; omega
      rw [hrem]
      dsimp only
      cases rest with
      | nil =>
        have : takeExact need [] = none := by
          cases need with
          | zero => omega
          | succ k => rfl
        rw [this, read_nil]
        simp
      | cons b t =>
        have hk := hp need (t.length + 1) (by omega) (by omega)
        rw [read_cons pol need (by omega)]
        generalize hkd : pol need (t.length + 1) = k at hk
        have hne : List.take k (b :: t) ≠ [] := by
          cases k with
          | zero => omega
          | succ j => simp
        dsimp only
        rw [if_neg (fun h => h hne)]
        simp only [Gen.pyBytesExtend]
        have hlen : (data ++ List.take k (b :: t)).length + (need - k) = data.length + need := by
          simp only [List.length_append, List.length_take, List.length_cons]; omega
        have := ih (need - k) (data ++ List.take k (b :: t)) (List.drop k (b :: t)) bf pool (by omega)
        rw [hlen] at this
        rw [this, takeExact_eq, takeExact_eq]
        simp only [List.length_drop, List.length_cons]
        by_cases hle : need ≤ t.length + 1
        · have hc2 : need - k ≤ t.length + 1 - k := by omega
          rw [if_pos hc2, if_pos hle]
          simp only [List.append_assoc, List.drop_drop]
          have e1 : List.take k (b :: t) ++ List.take (need - k) (List.drop k (b :: t)) = List.take need (b :: t) := by
            have := List.take_add (l := b :: t) (i := k) (j := need - k)
            rw [show k + (need - k) = need by omega] at this
            exact this.symm
          have e2 : k + (need - k) = need := by omega
          rw [e1, e2]
        · have hc2 : ¬ need - k ≤ t.length + 1 - k := by omega
          rw [if_neg hc2, if_neg hle]

theorem stM_get (m : RState) : (get : RM RState) m = .ok (m, m) := rfl
theorem stM_set (s m : RState) : (set s : RM Unit) m = .ok ((), s) := rfl

theorem readStringM_pres : Pres readStringM := by
  intro m v m' hm e
  unfold readStringM at e
  rw [stM_bind] at e
  rcases h1 : readCountM m with er | ⟨n, m1⟩
  · rw [h1] at e; cases e
  · rw [h1] at e
    have w1 := readCountM_pres m n m1 hm h1
    simp only [ok_bind] at e
    rw [stM_bind, stM_get] at e
    simp only [ok_bind] at e
    cases hpool : m1.pool with
    | some p =>
      rw [hpool] at e
      simp only at e
      cases hp : p[n.toNat]? with
      | none => rw [hp] at e; cases e
      | some x =>
        rw [hp] at e
        have e' : (Except.ok (x, m1) : R (Str × RState)) = .ok (v, m') := e
        injection e' with e'; injection e' with _ e2; rw [← e2]; exact w1
    | none =>
      rw [hpool] at e
      simp only at e
      rw [takeExact_eq] at e
      by_cases hle : n.toNat ≤ m1.input.length
      · rw [if_pos hle] at e
        simp only at e
        rw [stM_bind, stM_set] at e
        simp only [ok_bind] at e
        by_cases hv : validUtf8 (List.take n.toNat m1.input) = true
        · rw [if_pos hv, stM_pure] at e
          injection e with e; injection e with _ e2; rw [← e2]
          exact ⟨fun b hb => w1.1 b (List.mem_of_mem_drop hb), w1.2⟩
        · rw [if_neg hv] at e; cases e
      · rw [if_neg hle] at e; cases e

theorem pyLen_idx (p : List Str) (n : Int) (h0 : 0 ≤ n) :
    (if n ≥ Gen.pyLenList p ∨ n < 0 then (.error .invalidData : R Str) else Gen.pyStrListIndex p n) =
      (match p[n.toNat]? with | some s => .ok s | none => .error .invalidData) := by
  unfold Gen.pyLenList Gen.pyStrListIndex
  by_cases h : n ≥ (p.length : Int)
  · rw [if_pos (Or.inl h)]
    have : p[n.toNat]? = none := by
      apply List.getElem?_eq_none; omega
    rw [this]
  · rw [if_neg (by omega)]
    have hj : (if n < 0 then n + (p.length : Int) else n) = n := if_neg (by omega)
    simp only [hj]
    rw [if_pos ⟨h0, by omega⟩]
    have : n.toNat < p.length := by omega
    rw [List.getElem?_eq_getElem this]

theorem gen_Reader_readString_eq (pol) (hp : PolicyOk pol) (m : RState) (hm : WF m) :
    Gen.C14.Reader.readString (ofM pol m) = liftG pol id (readStringM m) := by
  unfold Gen.C14.Reader.readString readStringM
  cases hpool : m.pool with
  | some p =>
    have e0 : (ofM pol m).pool = some p := by simp [ofM, hpool]
    simp only [e0]
    gstep (gen_Reader_readCount_eq pol hp m) on (readCountM m) as n m1 h1
    have hp1 : m1.pool = some p := by rw [readCountM_pool m n m1 h1, hpool]
    have hn := readCountM_nonneg m n m1 hm h1
    rw [stM_bind, stM_get]
    simp only [ok_bind, hp1, id_eq]
    have := pyLen_idx p n hn
    by_cases hc : n ≥ Gen.pyLenList p ∨ n < 0
    · rw [if_pos hc] at this
      rw [if_pos hc]
      cases hx : p[n.toNat]? with
      | none => rfl
      | some x => rw [hx] at this; cases this
    · rw [if_neg hc] at this
      rw [if_neg hc, this]
      cases hx : p[n.toNat]? with
      | none => rfl
      | some x => rfl
  | none =>
    have e0 : (ofM pol m).pool = none := by simp [ofM, hpool]
    simp only [e0]
    gstep (gen_Reader_readCount_eq pol hp m) on (readCountM m) as n m1 h1
    have hp1 : m1.pool = none := by rw [readCountM_pool m n m1 h1, hpool]
    have hn := readCountM_nonneg m n m1 hm h1
    rw [stM_bind, stM_get]
    simp only [ok_bind, hp1, id_eq]
    have hl := gen_Reader_readString_loop1_eq pol hp (n.toNat + 1) n.toNat [] m1.input (ofM pol m1).buffered m1.pool (Nat.lt_succ_self _)
    have hnn : (((([] : Bytes).length + n.toNat : Nat)) : Int) = n := by simp; omega
    rw [hnn] at hl
    have eo : ofM pol m1 = ⟨⟨m1.input, pol⟩, (ofM pol m1).buffered, m1.pool⟩ := rfl
    rw [eo, hl, takeExact_eq]
    by_cases hle : n.toNat ≤ m1.input.length
    · rw [if_pos hle]
      simp only [ok_bind, List.nil_append, Gen.Codec.decodeUtf8]
      rw [stM_bind, stM_set]
      simp only [ok_bind]
      by_cases hv : validUtf8 (List.take n.toNat m1.input) = true
      · rw [if_pos hv, if_pos hv, stM_pure, liftG_ok, ok_bind]
        simp only [ofM, hp1, id_eq]
      · rw [if_neg hv, if_neg hv]; rfl
    · rw [if_neg hle]; rfl

/-! ## dictionaries -/

theorem readPairM_pres : Pres readPairM := by
  unfold readPairM
  exact Pres.bind readStringM_pres (fun _ => Pres.bind readStringM_pres (fun _ => Pres.pure _))

theorem readNM_pres {α} (f : RM α) (hf : Pres f) : ∀ n, Pres (readNM f n) := by
  intro n
  induction n with
  | zero => exact Pres.pure _
  | succ n ih =>
    unfold readNM
    exact Pres.bind hf (fun _ => Pres.bind ih (fun _ => Pres.pure _))

theorem readDictionaryM_pres : Pres readDictionaryM := by
  unfold readDictionaryM
  exact Pres.bind readCountM_pres (fun _ => Pres.bind (readNM_pres _ readPairM_pres _) (fun _ => Pres.pure _))

/-- the loop `for _ in range(count): key = read_string(); value = read_string(); results[key] = value` -/
theorem gen_Reader_readDictionary_loop1_eq (pol) (hp : PolicyOk pol) : ∀ (fuel k i : Nat) (acc : List (Str × Str)) (m : RState), WF m → k < fuel →
    Gen.C14.Reader.readDictionary.loop1 ((i + k : Nat) : Int) fuel (i : Int) acc (ofM pol m) =
      (match readNM readPairM k m with
       | .ok (es, m') => .ok (((i + k : Nat) : Int), es.foldl (fun d e => dictInsert d e.1 e.2) acc, ofM pol m')
       | .error e => .error e) := by
  intro fuel
  induction fuel with
  | zero => intro _ _ _ _ _ h; omega
  | succ fuel ih =>
    intro k i acc m hm hlt
    unfold Gen.C14.Reader.readDictionary.loop1
    cases k with
    | zero =>
      rw [if_neg (by omega)]
      rfl
    | succ k =>
      rw [if_pos (by omega)]
      have e1 : readNM readPairM (k + 1) m = (readPairM m >>= fun p => (readNM readPairM k >>= fun tl => (pure (p.1 :: tl) : RM _)) p.2) := rfl
      have e2 : readPairM m = (readStringM m >>= fun p => (readStringM >>= fun v => (pure (p.1, v) : RM _)) p.2) := rfl
      rw [e1, e2, gen_Reader_readString_eq pol hp m hm]
      rcases h1 : readStringM m with er | ⟨key, m1⟩
      · rfl
      · have w1 := readStringM_pres m key m1 hm h1
        simp only [liftG_ok, ok_bind, id_eq]
        rw [stM_bind, gen_Reader_readString_eq pol hp m1 w1]
        rcases h2 : readStringM m1 with er | ⟨value, m2⟩
        · rfl
        · have w2 := readStringM_pres m1 value m2 w1 h2
          simp only [liftG_ok, ok_bind, id_eq, stM_pure]
          have hi : ((i : Int) + 1) = ((i + 1 : Nat) : Int) := by omega
          have hk : i + (k + 1) = (i + 1) + k := by omega
          rw [hi, hk, ih k (i + 1) (dictInsert acc key value) m2 w2 (by omega), stM_bind]
          rcases h3 : readNM readPairM k m2 with er | ⟨es, m3⟩
          · rfl
          · rfl

theorem gen_Reader_readDictionary_eq (pol) (hp : PolicyOk pol) (m : RState) (hm : WF m) :
    Gen.C14.Reader.readDictionary (ofM pol m) = liftG pol id (readDictionaryM m) := by
  unfold Gen.C14.Reader.readDictionary readDictionaryM
  dsimp only
  gstep (gen_Reader_readCount_eq pol hp m) on (readCountM m) as n m1 h1
  have w1 := readCountM_pres m n m1 hm h1
  have hn := readCountM_nonneg m n m1 hm h1
  rw [id_eq]
  have hl := gen_Reader_readDictionary_loop1_eq pol hp (n.toNat + 1) n.toNat 0 [] m1 w1 (Nat.lt_succ_self _)
  have hnn : ((0 + n.toNat : Nat) : Int) = n := by omega
  rw [hnn] at hl
  have h0 : ((0 : Nat) : Int) = 0 := rfl
  rw [h0] at hl
  rw [hl, stM_bind]
  rcases h3 : readNM readPairM n.toNat m1 with er | ⟨es, m3⟩
  · rfl
  · rfl

/-! ## the zone pieces that read themselves from a reader: year offsets, recurrences, map zones, zone locations -/

theorem flag_bit1 : ∀ n, n < 256 → decide (Gen.pyAnd (Int.ofNat n) 2 ≠ 0) = (n / 2 % 2 == 1) := by decide +kernel

theorem readYearOffsetM_pres : Pres readYearOffsetM := by
  unfold readYearOffsetM
  refine Pres.bind readByteM_pres (fun flags => ?_)
  cases TransitionMode.ofNat? (flags / 32) with
  | none => exact Pres.throw _
  | some mode =>
    exact Pres.bind readCountM_pres (fun _ => Pres.bind readSignedCountM_pres (fun _ => Pres.bind readMillisecondsM_pres
      (fun _ => Pres.bind (Pres.liftR _) (fun _ => Pres.liftR _))))

theorem gen_YearOffset_read_eq (pol) (hp : PolicyOk pol) (m : RState) (hm : WF m) :
    Gen.C14.YearOffset.read (ofM pol m) = liftG pol id (readYearOffsetM m) := by
  unfold Gen.C14.YearOffset.read readYearOffsetM
  gstep (gen_Reader_readByte_eq pol hp m) on (readByteM m) as flags m1 h1
  have w1 := readByteM_pres m flags m1 hm h1
  have bf := readByteM_lt m flags m1 hm h1
  have e5 : ((flags : Int) >>> 5) = ((flags / 32 : Nat) : Int) := by rw [Int.shiftRight_eq_div_pow]; omega
  have e2 : Int.fmod ((flags : Int) >>> 2) 8 = ((flags / 4 % 8 : Nat) : Int) := by
    rw [Int.shiftRight_eq_div_pow, fmod_pos _ _ (by decide)]; omega
  have ea : decide (Gen.pyAnd (flags : Int) 2 ≠ 0) = (flags / 2 % 2 == 1) := flag_bit1 flags bf
  have ed : decide (Int.fmod (flags : Int) 2 ≠ 0) = (flags % 2 == 1) := by
    rw [fmod_pos _ _ (by decide)]
    have : (flags : Int) % 2 = ((flags % 2 : Nat) : Int) := by omega
    rw [this]
    rcases Nat.mod_two_eq_zero_or_one flags with h | h <;> simp [h]
  rw [e5, e2, ea, ed]
  have hk : flags / 32 = 0 ∨ flags / 32 = 1 ∨ flags / 32 = 2 ∨ ∃ j, flags / 32 = j + 3 := by
    rcases Nat.lt_or_ge (flags / 32) 3 with h | h
    · omega
    · right; right; right; exact ⟨flags / 32 - 3, by omega⟩
  have tail : ∀ (mode : TransitionMode) (mi : Int), TransitionMode.ofNat? mi.toNat = some mode →
      (do let (t'2, st) ← Gen.C14.Reader.readCount (ofM pol m1)
          let (t'3, st) ← Gen.C14.Reader.readSignedCount st
          let (t'4, st) ← Gen.C14.Reader.readMilliseconds st
          let time_of_day ← localTimeFromMillis t'4
          let r'5 ← yearOffsetCtorI mi t'2 t'3 ((flags / 4 % 8 : Nat) : Int) (flags / 2 % 2 == 1) time_of_day (flags % 2 == 1)
          (.ok (r'5, st) : R (ZoneYearOffset × RS))) =
      liftG pol id ((readCountM >>= fun month => readSignedCountM >>= fun dom => readMillisecondsM >>= fun ms =>
        (monadLift (localTimeFromMillis ms) : RM Int) >>= fun tod =>
          (monadLift (yearOffsetCtor mode month dom ((flags / 4 % 8 : Nat) : Int) (flags / 2 % 2 == 1) tod (flags % 2 == 1)) : RM ZoneYearOffset)) m1) := by
    intro mode mi hmi
    gstep (gen_Reader_readCount_eq pol hp m1) on (readCountM m1) as month m2 h2
    have w2 := readCountM_pres m1 month m2 w1 h2
    gstep (gen_Reader_readSignedCount_eq pol hp m2) on (readSignedCountM m2) as dom m3 h3
    have w3 := readSignedCountM_pres m2 dom m3 w2 h3
    gstep (gen_Reader_readMilliseconds_eq pol hp m3 w3) on (readMillisecondsM m3) as ms m4 h4
    simp only [id_eq]
    have hc : ∀ tod, yearOffsetCtorI mi month dom ((flags / 4 % 8 : Nat) : Int) (flags / 2 % 2 == 1) tod (flags % 2 == 1) =
        yearOffsetCtor mode month dom ((flags / 4 % 8 : Nat) : Int) (flags / 2 % 2 == 1) tod (flags % 2 == 1) := by
      intro tod; unfold yearOffsetCtorI; rw [hmi]
    simp only [hc]
    exact two_liftR pol (localTimeFromMillis ms) (fun tod => yearOffsetCtor mode month dom _ _ tod _) m4
  rcases hk with h | h | h | ⟨j, h⟩
  · rw [h]
    have : Gen.pyEnumLookup [0, 1, 2] ((0 : Nat) : Int) = .ok 0 := by decide
    rw [this]; simp only [ok_bind]
    exact tail .utc 0 rfl
  · rw [h]
    have : Gen.pyEnumLookup [0, 1, 2] ((1 : Nat) : Int) = .ok 1 := by decide
    rw [this]; simp only [ok_bind]
    exact tail .wall 1 rfl
  · rw [h]
    have : Gen.pyEnumLookup [0, 1, 2] ((2 : Nat) : Int) = .ok 2 := by decide
    rw [this]; simp only [ok_bind]
    exact tail .standard 2 rfl
  · rw [h]
    have : Gen.pyEnumLookup [0, 1, 2] ((j + 3 : Nat) : Int) = .error .valueError := by
      unfold Gen.pyEnumLookup
      rw [if_neg]
      simp; omega
    rw [this]
    rfl

theorem readRecurrenceM_pres : Pres readRecurrenceM := by
  unfold readRecurrenceM
  exact Pres.bind readStringM_pres (fun _ => Pres.bind readOffsetM_pres (fun _ => Pres.bind readYearOffsetM_pres (fun _ =>
    Pres.bind readCountM_pres (fun _ => Pres.bind readCountM_pres (fun _ => Pres.liftR _)))))

theorem gen_Recurrence_read_eq (pol) (hp : PolicyOk pol) (m : RState) (hm : WF m) :
    Gen.C14.Recurrence.read (ofM pol m) = liftG pol id (readRecurrenceM m) := by
  unfold Gen.C14.Recurrence.read readRecurrenceM
  gstep (gen_Reader_readString_eq pol hp m hm) on (readStringM m) as name m1 h1
  have w1 := readStringM_pres m name m1 hm h1
  gstep (gen_Reader_readOffset_eq pol hp m1 w1) on (readOffsetM m1) as savings m2 h2
  have w2 := readOffsetM_pres m1 savings m2 w1 h2
  gstep (gen_YearOffset_read_eq pol hp m2 w2) on (readYearOffsetM m2) as yo m3 h3
  have w3 := readYearOffsetM_pres m2 yo m3 w2 h3
  gstep (gen_Reader_readCount_eq pol hp m3) on (readCountM m3) as fy m4 h4
  simp only [id_eq]
  by_cases h0 : fy = 0
  · rw [if_pos h0]
    gstep (gen_Reader_readCount_eq pol hp m4) on (readCountM m4) as ty m5 h5
    simp only [id_eq, if_pos h0]
    exact tail_liftR pol _ m5
  · rw [if_neg h0]
    gstep (gen_Reader_readCount_eq pol hp m4) on (readCountM m4) as ty m5 h5
    simp only [id_eq, if_neg h0]
    exact tail_liftR pol _ m5

/-! ### readers whose model is a pure function of the remaining bytes (`MapZone._read`, `TzdbZoneLocation._read`) -/

/-- the state a pure reader leaves: the rest in the stream, nothing buffered -/
def rest (m : RState) (r : Bytes) : RState := ⟨r, none, m.pool⟩

theorem rest_abs (m : RState) (r : Bytes) : (rest m r).abs = r := rfl
theorem rest_pool (m : RState) (r : Bytes) : (rest m r).pool = m.pool := rfl
theorem rest_rest (m : RState) (r r2 : Bytes) : rest (rest m r) r2 = rest m r2 := rfl

theorem rs_eq (pol : Nat → Nat → Nat) (hp : PolicyOk pol) (m : RState) (hm : WF m) :
    Gen.C14.Reader.readString (ofM pol m) = (match readString m.pool m.abs with
      | .ok (v, r) => .ok (v, ofM pol (rest m r))
      | .error e => .error e) := by
  rw [gen_Reader_readString_eq pol hp m hm, C14.readStringM_refines m.pool m rfl]
  simp only [C14.lift]
  rcases h : readString m.pool m.abs with er | ⟨v, r⟩ <;> rfl

theorem rs_wf (m : RState) (hm : WF m) (v : Str) (r : Bytes) (h : readString m.pool m.abs = .ok (v, r)) : WF (rest m r) :=
  readStringM_pres m v (rest m r) hm (by rw [C14.readStringM_refines m.pool m rfl]; simp only [C14.lift, h]; rfl)

theorem rc_eq (pol : Nat → Nat → Nat) (hp : PolicyOk pol) (m : RState) :
    Gen.C14.Reader.readCount (ofM pol m) = (match readCount m.abs with
      | .ok (v, r) => .ok (v, ofM pol (rest m r))
      | .error e => .error e) := by
  rw [gen_Reader_readCount_eq pol hp m, C14.readCountM_refines m.pool m rfl]
  simp only [C14.lift]
  rcases h : readCount m.abs with er | ⟨v, r⟩ <;> rfl

theorem rc_wf (m : RState) (hm : WF m) (v : Int) (r : Bytes) (h : readCount m.abs = .ok (v, r)) : WF (rest m r) ∧ 0 ≤ v := by
  have e : readCountM m = .ok (v, rest m r) := by
    rw [C14.readCountM_refines m.pool m rfl]; simp only [C14.lift, h]; rfl
  exact ⟨readCountM_pres m v (rest m r) hm e, readCountM_nonneg m v (rest m r) hm e⟩

theorem rsc_eq (pol : Nat → Nat → Nat) (hp : PolicyOk pol) (m : RState) :
    Gen.C14.Reader.readSignedCount (ofM pol m) = (match readSignedCount m.abs with
      | .ok (v, r) => .ok (v, ofM pol (rest m r))
      | .error e => .error e) := by
  rw [gen_Reader_readSignedCount_eq pol hp m, C14.readSignedCountM_refines m.pool m rfl]
  simp only [C14.lift]
  rcases h : readSignedCount m.abs with er | ⟨v, r⟩ <;> rfl

theorem rsc_wf (m : RState) (hm : WF m) (v : Int) (r : Bytes) (h : readSignedCount m.abs = .ok (v, r)) : WF (rest m r) :=
  readSignedCountM_pres m v (rest m r) hm (by rw [C14.readSignedCountM_refines m.pool m rfl]; simp only [C14.lift, h]; rfl)

theorem gen_MapZone_ctor_eq (w t : Str) (ids : List Str) : Gen.C14.MapZone.ctor w t ids = ⟨w, t, ids⟩ := rfl

/-- the loop `tuple(reader.read_string() for _ in range(count))` -/
theorem gen_MapZone_read_loop1_eq (pol : Nat → Nat → Nat) (hp : PolicyOk pol) : ∀ (fuel k i : Nat) (acc : List Str) (m : RState) (r0 : Bytes), WF (rest m r0) → k < fuel →
    Gen.C14.MapZone.read.loop1 ((i + k : Nat) : Int) fuel acc (i : Int) (ofM pol (rest m r0)) =
      (match readN (readString m.pool) k r0 with
       | .ok (ids, r) => .ok (acc ++ ids, ((i + k : Nat) : Int), ofM pol (rest m r))
       | .error e => .error e) := by
  intro fuel
  induction fuel with
  | zero => intro _ _ _ _ _ _ h; omega
  | succ fuel ih =>
    intro k i acc m r0 hw hlt
    unfold Gen.C14.MapZone.read.loop1
    cases k with
    | zero =>
      rw [if_neg (by omega)]
      simp [readN]
    | succ k =>
      rw [if_pos (by omega), rs_eq pol hp (rest m r0) hw, rest_abs, rest_pool]
      simp only [readN]
      rcases h1 : readString m.pool r0 with er | ⟨s1, r1⟩
      · rfl
      · simp only [ok_bind, rest_rest, Gen.pyListAppend]
        have hw1 := rs_wf (rest m r0) hw s1 r1 (by rw [rest_abs, rest_pool]; exact h1)
        rw [rest_rest] at hw1
        have hi : ((i : Int) + 1) = ((i + 1 : Nat) : Int) := by omega
        have hik : i + (k + 1) = (i + 1) + k := by omega
        rw [hi, hik, ih k (i + 1) (acc ++ [s1]) m r1 hw1 (by omega)]
        rcases h2 : readN (readString m.pool) k r1 with er | ⟨ids, r2⟩
        · rfl
        · simp [ok_bind]

/-- `MapZone._read(reader)` is the model's `readMapZoneX` on the bytes at hand -/
theorem gen_MapZone_read_eq (pol : Nat → Nat → Nat) (hp : PolicyOk pol) (m : RState) (hm : WF m) :
    Gen.C14.MapZone.read (ofM pol m) = (match readMapZoneX m.pool m.abs with
      | .ok (v, r) => .ok (v, ofM pol (rest m r))
      | .error e => .error e) := by
  unfold Gen.C14.MapZone.read readMapZoneX
  rw [rs_eq pol hp m hm]
  rcases h1 : readString m.pool m.abs with er | ⟨w, r1⟩
  · rfl
  · have w1 := rs_wf m hm w r1 h1
    simp only [ok_bind]
    rw [rs_eq pol hp (rest m r1) w1, rest_abs, rest_pool]
    rcases h2 : readString m.pool r1 with er | ⟨t, r2⟩
    · rfl
    · have w2 := rs_wf (rest m r1) w1 t r2 (by rw [rest_abs, rest_pool]; exact h2)
      rw [rest_rest] at w2
      simp only [ok_bind, rest_rest]
      rw [rc_eq pol hp (rest m r2), rest_abs]
      rcases h3 : readCount r2 with er | ⟨n, r3⟩
      · rfl
      · have w3 := rc_wf (rest m r2) w2 n r3 (by rw [rest_abs]; exact h3)
        rw [rest_rest] at w3
        simp only [ok_bind, rest_rest]
        have hl := gen_MapZone_read_loop1_eq pol hp (n.toNat + 1) n.toNat 0 [] m r3 w3.1 (Nat.lt_succ_self _)
        have hnn : ((0 + n.toNat : Nat) : Int) = n := by have := w3.2; omega
        have h0 : ((0 : Nat) : Int) = 0 := rfl
        rw [hnn, h0] at hl
        rw [hl]
        rcases h4 : readN (readString m.pool) n.toNat r3 with er | ⟨ids, r4⟩
        · rfl
        · simp [ok_bind, gen_MapZone_ctor_eq]

/-- the constructor of `TzdbZoneLocation` under `try … except ValueError → InvalidPyodaDataError` -/
theorem location_ctor (lat long : Int) (cn cc zid cm : Str) (st : RS) :
    Gen.pyTry [([PyExc.valueError, PyExc.unicodeError], some PyExc.invalidData)]
      (mkZoneLocation lat long cn cc zid cm >>= fun r => (.ok (r, st) : R (ZoneLocation × RS))) =
    (if ¬ latLongOk lat long then .error .invalidData
     else if strLen cn = 0 ∨ strLen cc ≠ 2 then .error .invalidData
     else .ok (⟨lat, long, cn, cc, zid, cm⟩, st)) := by
  unfold mkZoneLocation latLongOk checkRange
  by_cases h1 : lat < -90 * 3600 ∨ lat > 90 * 3600
  · rw [if_pos h1]
    have : ¬ (decide (-90 * 3600 ≤ lat) && decide (lat ≤ 90 * 3600) && decide (-180 * 3600 ≤ long) && decide (long ≤ 180 * 3600)) = true := by
      simp; omega
    rw [if_pos this]; rfl
  · rw [if_neg h1]
    by_cases h2 : long < -180 * 3600 ∨ long > 180 * 3600
    · simp only [ok_bind, if_pos h2]
      have : ¬ (decide (-90 * 3600 ≤ lat) && decide (lat ≤ 90 * 3600) && decide (-180 * 3600 ≤ long) && decide (long ≤ 180 * 3600)) = true := by
        simp; omega
      rw [if_pos this]; rfl
    · simp only [ok_bind, if_neg h2]
      have : ¬ ¬ (decide (-90 * 3600 ≤ lat) && decide (lat ≤ 90 * 3600) && decide (-180 * 3600 ≤ long) && decide (long ≤ 180 * 3600)) = true := by
        simp; omega
      rw [if_neg this]
      by_cases h3 : strLen cn > 0
      · rw [if_neg (by omega)]
        by_cases h4 : strLen cc = 2
        · rw [if_neg (by omega), if_neg (by omega)]; rfl
        · rw [if_pos h4, if_pos (Or.inr h4)]; rfl
      · rw [if_pos h3, if_pos (Or.inl (by omega))]; rfl

/-- `TzdbZoneLocation._read(reader)` is the model's `readZoneLocationX` on the bytes at hand -/
theorem gen_ZoneLocation_read_eq (pol : Nat → Nat → Nat) (hp : PolicyOk pol) (m : RState) (hm : WF m) :
    Gen.C14.ZoneLocation.read (ofM pol m) = (match readZoneLocationX m.pool m.abs with
      | .ok (v, r) => .ok (v, ofM pol (rest m r))
      | .error e => .error e) := by
  unfold Gen.C14.ZoneLocation.read readZoneLocationX
  rw [rsc_eq pol hp m]
  rcases h1 : readSignedCount m.abs with er | ⟨lat, r1⟩
  · rfl
  · have w1 := rsc_wf m hm lat r1 h1
    simp only [ok_bind]
    rw [rsc_eq pol hp (rest m r1), rest_abs]
    rcases h2 : readSignedCount r1 with er | ⟨long, r2⟩
    · rfl
    · have w2 := rsc_wf (rest m r1) w1 long r2 (by rw [rest_abs]; exact h2)
      rw [rest_rest] at w2
      simp only [ok_bind, rest_rest]
      rw [rs_eq pol hp (rest m r2) w2, rest_abs, rest_pool]
      rcases h3 : readString m.pool r2 with er | ⟨cn, r3⟩
      · rfl
      · have w3 := rs_wf (rest m r2) w2 cn r3 (by rw [rest_abs, rest_pool]; exact h3)
        rw [rest_rest] at w3
        simp only [ok_bind, rest_rest]
        rw [rs_eq pol hp (rest m r3) w3, rest_abs, rest_pool]
        rcases h4 : readString m.pool r3 with er | ⟨cc, r4⟩
        · rfl
        · have w4 := rs_wf (rest m r3) w3 cc r4 (by rw [rest_abs, rest_pool]; exact h4)
          rw [rest_rest] at w4
          simp only [ok_bind, rest_rest]
          rw [rs_eq pol hp (rest m r4) w4, rest_abs, rest_pool]
          rcases h5 : readString m.pool r4 with er | ⟨zid, r5⟩
          · rfl
          · have w5 := rs_wf (rest m r4) w4 zid r5 (by rw [rest_abs, rest_pool]; exact h5)
            rw [rest_rest] at w5
            simp only [ok_bind, rest_rest]
            rw [rs_eq pol hp (rest m r5) w5, rest_abs, rest_pool]
            rcases h6 : readString m.pool r5 with er | ⟨cm, r6⟩
            · rfl
            · simp only [ok_bind, rest_rest]
              have := location_ctor lat long cn cc zid cm (ofM pol (rest m r6))
              simp only [bind] at this ⊢
              rw [this]
              by_cases g1 : ¬ latLongOk lat long = true
              · simp only [if_pos g1]
              · simp only [if_neg g1]
                by_cases g2 : strLen cn = 0 ∨ strLen cc ≠ 2
                · simp only [if_pos g2]
                · simp only [if_neg g2]

/-! ### `WindowsZones._read`, `TzdbZone1970Location._read`: loops over payload readers -/

/-- bytes are bytes -/
def BOK (bs : Bytes) : Prop := ∀ b ∈ bs, b < 256

theorem wf_rest (m : RState) (r : Bytes) : WF (rest m r) ↔ BOK r := by
  unfold WF rest BOK
  constructor
  · intro h; exact h.1
  · intro h; exact ⟨h, by intro b hb; cases hb⟩

theorem readString_bok (pool : Pool) (bs : Bytes) (v : Str) (r : Bytes) (h : readString pool bs = .ok (v, r)) (hb : BOK bs) : BOK r := by
  have := rs_wf ⟨bs, none, pool⟩ ((wf_rest ⟨bs, none, pool⟩ bs).2 hb) v r h
  exact (wf_rest _ r).1 this

theorem readCount_bok (bs : Bytes) (v : Int) (r : Bytes) (h : readCount bs = .ok (v, r)) (hb : BOK bs) : BOK r ∧ 0 ≤ v := by
  have := rc_wf ⟨bs, none, none⟩ ((wf_rest ⟨bs, none, none⟩ bs).2 hb) v r h
  exact ⟨(wf_rest _ r).1 this.1, this.2⟩

theorem readSignedCount_bok (bs : Bytes) (v : Int) (r : Bytes) (h : readSignedCount bs = .ok (v, r)) (hb : BOK bs) : BOK r := by
  have := rsc_wf ⟨bs, none, none⟩ ((wf_rest ⟨bs, none, none⟩ bs).2 hb) v r h
  exact (wf_rest _ r).1 this

theorem readN_bok {α} (f : Bytes → R (α × Bytes)) (hf : ∀ bs v r, f bs = .ok (v, r) → BOK bs → BOK r) :
    ∀ (k : Nat) (bs : Bytes) (vs : List α) (r : Bytes), readN f k bs = .ok (vs, r) → BOK bs → BOK r := by
  intro k
  induction k with
  | zero =>
    intro bs vs r h hb
    simp only [readN] at h
    injection h with h; injection h with _ h; rw [← h]; exact hb
  | succ k ih =>
    intro bs vs r h hb
    simp only [readN] at h
    rcases h1 : f bs with er | ⟨a, r1⟩
    · rw [h1] at h; cases h
    · rw [h1] at h
      simp only [ok_bind] at h
      rcases h2 : readN f k r1 with er | ⟨tl, r2⟩
      · rw [h2] at h; cases h
      · rw [h2] at h
        simp only [ok_bind] at h
        injection h with h; injection h with _ h
        rw [← h]
        exact ih r1 tl r2 h2 (hf bs a r1 h1 hb)

theorem readMapZoneX_bok (pool : Pool) (bs : Bytes) (v : MapZone) (r : Bytes) (h : readMapZoneX pool bs = .ok (v, r)) (hb : BOK bs) : BOK r := by
  unfold readMapZoneX at h
  rcases h1 : readString pool bs with er | ⟨w, r1⟩
  · rw [h1] at h; cases h
  · rw [h1] at h; simp only [ok_bind] at h
    rcases h2 : readString pool r1 with er | ⟨t, r2⟩
    · rw [h2] at h; cases h
    · rw [h2] at h; simp only [ok_bind] at h
      rcases h3 : readCount r2 with er | ⟨n, r3⟩
      · rw [h3] at h; cases h
      · rw [h3] at h; simp only [ok_bind] at h
        rcases h4 : readN (readString pool) n.toNat r3 with er | ⟨ids, r4⟩
        · rw [h4] at h; cases h
        · rw [h4] at h; simp only [ok_bind] at h
          injection h with h; injection h with _ h
          rw [← h]
          have b1 := readString_bok pool bs w r1 h1 hb
          have b2 := readString_bok pool r1 t r2 h2 b1
          have b3 := (readCount_bok r2 n r3 h3 b2).1
          exact readN_bok (readString pool) (fun bs v r => readString_bok pool bs v r) n.toNat r3 ids r4 h4 b3

/-- the loop `tuple(MapZone._read(reader) for _ in range(count))` -/
theorem gen_WindowsZones_read_loop1_eq (pol : Nat → Nat → Nat) (hp : PolicyOk pol) : ∀ (fuel k i : Nat) (acc : List MapZone) (m : RState) (r0 : Bytes), BOK r0 → k < fuel →
    Gen.C14.WindowsZones.read.loop1 ((i + k : Nat) : Int) fuel acc (i : Int) (ofM pol (rest m r0)) =
      (match readN (readMapZoneX m.pool) k r0 with
       | .ok (zs, r) => .ok (acc ++ zs, ((i + k : Nat) : Int), ofM pol (rest m r))
       | .error e => .error e) := by
  intro fuel
  induction fuel with
  | zero => intro _ _ _ _ _ _ h; omega
  | succ fuel ih =>
    intro k i acc m r0 hb hlt
    unfold Gen.C14.WindowsZones.read.loop1
    cases k with
    | zero =>
      rw [if_neg (by omega)]
      simp [readN]
    | succ k =>
      rw [if_pos (by omega), gen_MapZone_read_eq pol hp (rest m r0) ((wf_rest m r0).2 hb), rest_abs, rest_pool]
      simp only [readN]
      rcases h1 : readMapZoneX m.pool r0 with er | ⟨z1, r1⟩
      · rfl
      · simp only [ok_bind, rest_rest, Gen.pyListAppend]
        have hb1 := readMapZoneX_bok m.pool r0 z1 r1 h1 hb
        have hi : ((i : Int) + 1) = ((i + 1 : Nat) : Int) := by omega
        have hik : i + (k + 1) = (i + 1) + k := by omega
        rw [hi, hik, ih k (i + 1) (acc ++ [z1]) m r1 hb1 (by omega)]
        rcases h2 : readN (readMapZoneX m.pool) k r1 with er | ⟨zs, r2⟩
        · rfl
        · simp [ok_bind]

/-- `WindowsZones._read(reader)` is the model's `readWindowsZonesX` on the bytes at hand -/
theorem gen_WindowsZones_read_eq (pol : Nat → Nat → Nat) (hp : PolicyOk pol) (m : RState) (hm : WF m) :
    Gen.C14.WindowsZones.read (ofM pol m) = (match readWindowsZonesX m.pool m.abs with
      | .ok (v, r) => .ok (v, ofM pol (rest m r))
      | .error e => .error e) := by
  unfold Gen.C14.WindowsZones.read readWindowsZonesX
  rw [rs_eq pol hp m hm]
  rcases h1 : readString m.pool m.abs with er | ⟨v, r1⟩
  · rfl
  · have w1 := rs_wf m hm v r1 h1
    simp only [ok_bind]
    rw [rs_eq pol hp (rest m r1) w1, rest_abs, rest_pool]
    rcases h2 : readString m.pool r1 with er | ⟨tv, r2⟩
    · rfl
    · have w2 := rs_wf (rest m r1) w1 tv r2 (by rw [rest_abs, rest_pool]; exact h2)
      rw [rest_rest] at w2
      simp only [ok_bind, rest_rest]
      rw [rs_eq pol hp (rest m r2) w2, rest_abs, rest_pool]
      rcases h3 : readString m.pool r2 with er | ⟨wv, r3⟩
      · rfl
      · have w3 := rs_wf (rest m r2) w2 wv r3 (by rw [rest_abs, rest_pool]; exact h3)
        rw [rest_rest] at w3
        simp only [ok_bind, rest_rest]
        rw [rc_eq pol hp (rest m r3), rest_abs]
        rcases h4 : readCount r3 with er | ⟨n, r4⟩
        · rfl
        · have w4 := rc_wf (rest m r3) w3 n r4 (by rw [rest_abs]; exact h4)
          rw [rest_rest] at w4
          simp only [ok_bind, rest_rest]
          have hl := gen_WindowsZones_read_loop1_eq pol hp (n.toNat + 1) n.toNat 0 [] m r4 ((wf_rest m r4).1 w4.1) (Nat.lt_succ_self _)
          have hnn : ((0 + n.toNat : Nat) : Int) = n := by have := w4.2; omega
          have h0 : ((0 : Nat) : Int) = 0 := rfl
          rw [hnn, h0] at hl
          rw [hl]
          rcases h5 : readN (readMapZoneX m.pool) n.toNat r4 with er | ⟨zs, r5⟩
          · rfl
          · simp only [ok_bind, List.nil_append, mkWindowsZones]
            by_cases hz : (zs.any fun z => z.isPrimary && z.tzdbIds.isEmpty) = true
            · simp [hz]; rfl
            · simp [hz]; rfl

theorem readCountryX_bok (pool : Pool) (bs : Bytes) (v : Country) (r : Bytes) (h : readCountryX pool bs = .ok (v, r)) (hb : BOK bs) : BOK r := by
  unfold readCountryX at h
  rcases h1 : readString pool bs with er | ⟨a, r1⟩
  · rw [h1] at h; cases h
  · rw [h1] at h; simp only [ok_bind] at h
    rcases h2 : readString pool r1 with er | ⟨c, r2⟩
    · rw [h2] at h; cases h
    · rw [h2] at h; simp only [ok_bind] at h
      by_cases hc : strLen a = 0 ∨ strLen c ≠ 2
      · rw [if_pos hc] at h; cases h
      · rw [if_neg hc] at h
        injection h with h; injection h with _ h
        rw [← h]
        exact readString_bok pool r1 c r2 h2 (readString_bok pool bs a r1 h1 hb)

theorem mkCountry_eq (a c : Str) : mkCountry a c = (if strLen a = 0 ∨ strLen c ≠ 2 then .error .valueError else .ok ⟨a, c⟩) := by
  unfold mkCountry
  by_cases h1 : strLen a > 0
  · rw [if_neg (by omega)]
    by_cases h2 : strLen c = 2
    · rw [if_neg (by omega), if_neg (by omega)]
    · rw [if_pos h2, if_pos (Or.inr h2)]
  · rw [if_pos h1, if_pos (Or.inl (by omega))]

/-- the loop `[Country(reader.read_string(), code=reader.read_string()) for _ in range(country_count)]` -/
theorem gen_Zone1970Location_read_loop1_eq (pol : Nat → Nat → Nat) (hp : PolicyOk pol) : ∀ (fuel k i : Nat) (acc : List Country) (m : RState) (r0 : Bytes), BOK r0 → k < fuel →
    Gen.C14.Zone1970Location.read.loop1 ((i + k : Nat) : Int) fuel acc (i : Int) (ofM pol (rest m r0)) =
      (match readN (readCountryX m.pool) k r0 with
       | .ok (cs, r) => .ok (acc ++ cs, ((i + k : Nat) : Int), ofM pol (rest m r))
       | .error e => .error e) := by
  intro fuel
  induction fuel with
  | zero => intro _ _ _ _ _ _ h; omega
  | succ fuel ih =>
    intro k i acc m r0 hb hlt
    unfold Gen.C14.Zone1970Location.read.loop1
    cases k with
    | zero =>
      rw [if_neg (by omega)]
      simp [readN]
    | succ k =>
      rw [if_pos (by omega), rs_eq pol hp (rest m r0) ((wf_rest m r0).2 hb), rest_abs, rest_pool]
      simp only [readN, readCountryX]
      rcases h1 : readString m.pool r0 with er | ⟨a, r1⟩
      · rfl
      · have hb1 := readString_bok m.pool r0 a r1 h1 hb
        simp only [ok_bind, rest_rest]
        rw [rs_eq pol hp (rest m r1) ((wf_rest m r1).2 hb1), rest_abs, rest_pool]
        rcases h2 : readString m.pool r1 with er | ⟨c, r2⟩
        · rfl
        · have hb2 := readString_bok m.pool r1 c r2 h2 hb1
          simp only [ok_bind, rest_rest, mkCountry_eq, Gen.pyListAppend]
          by_cases hc : strLen a = 0 ∨ strLen c ≠ 2
          · simp only [if_pos hc]; rfl
          · simp only [if_neg hc, ok_bind]
            have hi : ((i : Int) + 1) = ((i + 1 : Nat) : Int) := by omega
            have hik : i + (k + 1) = (i + 1) + k := by omega
            rw [hi, hik, ih k (i + 1) (acc ++ [(⟨a, c⟩ : Country)]) m r2 hb2 (by omega)]
            have e : readN (fun bs => readCountryX m.pool bs) k r2 = readN (readCountryX m.pool) k r2 := rfl
            rcases h3 : readN (readCountryX m.pool) k r2 with er | ⟨cs, r3⟩
            · rfl
            · simp [bind, Except.bind]

/-- the constructor of `TzdbZone1970Location` under `try … except ValueError → InvalidPyodaDataError` -/
theorem location70_ctor (lat long : Int) (cs : List Country) (zid cm : Str) (st : RS) :
    Gen.pyTry [([PyExc.valueError, PyExc.unicodeError], some PyExc.invalidData)]
      (mkZone1970Location lat long cs zid cm >>= fun r => (.ok (r, st) : R (Zone1970Location × RS))) =
    (if ¬ latLongOk lat long then .error .invalidData
     else if cs.isEmpty then .error .invalidData
     else .ok (⟨lat, long, cs, zid, cm⟩, st)) := by
  unfold mkZone1970Location latLongOk checkRange
  by_cases h1 : lat < -90 * 3600 ∨ lat > 90 * 3600
  · rw [if_pos h1]
    have : ¬ (decide (-90 * 3600 ≤ lat) && decide (lat ≤ 90 * 3600) && decide (-180 * 3600 ≤ long) && decide (long ≤ 180 * 3600)) = true := by
      simp; omega
    rw [if_pos this]; rfl
  · rw [if_neg h1]
    by_cases h2 : long < -180 * 3600 ∨ long > 180 * 3600
    · simp only [ok_bind, if_pos h2]
      have : ¬ (decide (-90 * 3600 ≤ lat) && decide (lat ≤ 90 * 3600) && decide (-180 * 3600 ≤ long) && decide (long ≤ 180 * 3600)) = true := by
        simp; omega
      rw [if_pos this]; rfl
    · simp only [ok_bind, if_neg h2]
      have : ¬ ¬ (decide (-90 * 3600 ≤ lat) && decide (lat ≤ 90 * 3600) && decide (-180 * 3600 ≤ long) && decide (long ≤ 180 * 3600)) = true := by
        simp; omega
      rw [if_neg this]
      cases cs with
      | nil => rfl
      | cons c rest => rfl

/-- `TzdbZone1970Location._read(reader)` is the model's `readZone1970LocationX` on the bytes at hand -/
theorem gen_Zone1970Location_read_eq (pol : Nat → Nat → Nat) (hp : PolicyOk pol) (m : RState) (hm : WF m) :
    Gen.C14.Zone1970Location.read (ofM pol m) = (match readZone1970LocationX m.pool m.abs with
      | .ok (v, r) => .ok (v, ofM pol (rest m r))
      | .error e => .error e) := by
  unfold Gen.C14.Zone1970Location.read readZone1970LocationX
  rw [rsc_eq pol hp m]
  rcases h1 : readSignedCount m.abs with er | ⟨lat, r1⟩
  · rfl
  · have w1 := rsc_wf m hm lat r1 h1
    simp only [ok_bind]
    rw [rsc_eq pol hp (rest m r1), rest_abs]
    rcases h2 : readSignedCount r1 with er | ⟨long, r2⟩
    · rfl
    · have w2 := rsc_wf (rest m r1) w1 long r2 (by rw [rest_abs]; exact h2)
      rw [rest_rest] at w2
      simp only [ok_bind, rest_rest]
      rw [rc_eq pol hp (rest m r2), rest_abs]
      rcases h3 : readCount r2 with er | ⟨n, r3⟩
      · rfl
      · have w3 := rc_wf (rest m r2) w2 n r3 (by rw [rest_abs]; exact h3)
        rw [rest_rest] at w3
        simp only [ok_bind, rest_rest]
        have hb3 := (wf_rest m r3).1 w3.1
        have hl := gen_Zone1970Location_read_loop1_eq pol hp (n.toNat + 1) n.toNat 0 [] m r3 hb3 (Nat.lt_succ_self _)
        have hnn : ((0 + n.toNat : Nat) : Int) = n := by have := w3.2; omega
        have h0 : ((0 : Nat) : Int) = 0 := rfl
        rw [hnn, h0] at hl
        rw [hl]
        rcases h4 : readN (readCountryX m.pool) n.toNat r3 with er | ⟨cs, r4⟩
        · rfl
        · have hb4 := readN_bok (readCountryX m.pool) (fun bs v r => readCountryX_bok m.pool bs v r) n.toNat r3 cs r4 h4 hb3
          simp only [ok_bind, List.nil_append]
          rw [rs_eq pol hp (rest m r4) ((wf_rest m r4).2 hb4), rest_abs, rest_pool]
          rcases h5 : readString m.pool r4 with er | ⟨zid, r5⟩
          · rfl
          · have hb5 := readString_bok m.pool r4 zid r5 h5 hb4
            simp only [ok_bind, rest_rest]
            rw [rs_eq pol hp (rest m r5) ((wf_rest m r5).2 hb5), rest_abs, rest_pool]
            rcases h6 : readString m.pool r5 with er | ⟨cm, r6⟩
            · rfl
            · simp only [ok_bind, rest_rest]
              have := location70_ctor lat long cs zid cm (ofM pol (rest m r6))
              simp only [bind] at this ⊢
              rw [this]
              by_cases g1 : ¬ latLongOk lat long = true
              · simp only [if_pos g1]
              · simp only [if_neg g1]
                by_cases g2 : cs.isEmpty = true
                · simp only [if_pos g2]
                · simp only [if_neg g2]

/-! ### the zones: `_FixedDateTimeZone.read`, `_StandardDaylightAlternatingMap._read`, `_PrecalculatedDateTimeZone._read` -/

theorem pure_wf {α} (fM : RM α) (f : Bytes → R (α × Bytes)) (hP : Pres fM) (m : RState) (hm : WF m) (hr : fM m = C14.lift f m)
    (v : α) (r : Bytes) (h : f m.abs = .ok (v, r)) : BOK r :=
  (wf_rest m r).1 (hP m v (rest m r) hm (by rw [hr]; simp only [C14.lift, h]; rfl))

theorem pure_bok {α} (fM : RM α) (f : Bytes → R (α × Bytes)) (hP : Pres fM) (hr : C14.Ref none fM f)
    (bs : Bytes) (v : α) (r : Bytes) (h : f bs = .ok (v, r)) (hb : BOK bs) : BOK r :=
  pure_wf fM f hP ⟨bs, none, none⟩ ((wf_rest ⟨bs, none, none⟩ bs).2 hb) (hr ⟨bs, none, none⟩ rfl) v r h

theorem ro_eq (pol : Nat → Nat → Nat) (hp : PolicyOk pol) (m : RState) (hm : WF m) :
    Gen.C14.Reader.readOffset (ofM pol m) = (match readOffset m.abs with
      | .ok (v, r) => .ok (v, ofM pol (rest m r))
      | .error e => .error e) := by
  rw [gen_Reader_readOffset_eq pol hp m hm, C14.readOffsetM_refines m.pool m rfl]
  simp only [C14.lift]
  rcases h : readOffset m.abs with er | ⟨v, r⟩ <;> rfl

theorem readOffset_bok (bs : Bytes) (v : Offset) (r : Bytes) (h : readOffset bs = .ok (v, r)) (hb : BOK bs) : BOK r :=
  pure_bok readOffsetM readOffset readOffsetM_pres (C14.readOffsetM_refines none) bs v r h hb

theorem rb_eq (pol : Nat → Nat → Nat) (hp : PolicyOk pol) (m : RState) :
    Gen.C14.Reader.readByte (ofM pol m) = (match readByte m.abs with
      | .ok (v, r) => .ok ((v : Int), ofM pol (rest m r))
      | .error e => .error e) := by
  rw [gen_Reader_readByte_eq pol hp m, C14.readByteM_refines m.pool m rfl]
  simp only [C14.lift]
  rcases h : readByte m.abs with er | ⟨v, r⟩ <;> rfl

theorem readByte_bok (bs : Bytes) (v : Nat) (r : Bytes) (h : readByte bs = .ok (v, r)) (hb : BOK bs) : BOK r :=
  pure_bok readByteM readByte readByteM_pres (C14.readByteM_refines none) bs v r h hb

theorem rtn_eq (pol : Nat → Nat → Nat) (hp : PolicyOk pol) (m : RState) (hm : WF m) :
    Gen.C14.Reader.readTransitionNone (ofM pol m) = (match readTransition none m.abs with
      | .ok (v, r) => .ok (v, ofM pol (rest m r))
      | .error e => .error e) := by
  rw [gen_Reader_readTransitionNone_eq pol hp m hm, C14.readTransitionM_refines m.pool none m rfl]
  simp only [C14.lift]
  rcases h : readTransition none m.abs with er | ⟨v, r⟩ <;> rfl

theorem rts_eq (pol : Nat → Nat → Nat) (hp : PolicyOk pol) (m : RState) (hm : WF m) (previous : Instant) :
    Gen.C14.Reader.readTransitionSome (ofM pol m) previous = (match readTransition (some previous) m.abs with
      | .ok (v, r) => .ok (v, ofM pol (rest m r))
      | .error e => .error e) := by
  rw [gen_Reader_readTransitionSome_eq pol hp m hm previous, C14.readTransitionM_refines m.pool (some previous) m rfl]
  simp only [C14.lift]
  rcases h : readTransition (some previous) m.abs with er | ⟨v, r⟩ <;> rfl

theorem readTransition_bok (previous : Option Instant) (bs : Bytes) (v : Instant) (r : Bytes)
    (h : readTransition previous bs = .ok (v, r)) (hb : BOK bs) : BOK r :=
  pure_bok (readTransitionM previous) (readTransition previous) (readTransitionM_pres previous)
    (C14.readTransitionM_refines none previous) bs v r h hb

theorem ryo_eq (pol : Nat → Nat → Nat) (hp : PolicyOk pol) (m : RState) (hm : WF m) :
    Gen.C14.YearOffset.read (ofM pol m) = (match readYearOffset m.abs with
      | .ok (v, r) => .ok (v, ofM pol (rest m r))
      | .error e => .error e) := by
  rw [gen_YearOffset_read_eq pol hp m hm, C14.readYearOffsetM_refines m.pool m rfl]
  simp only [C14.lift]
  rcases h : readYearOffset m.abs with er | ⟨v, r⟩ <;> rfl

theorem readYearOffset_bok (bs : Bytes) (v : ZoneYearOffset) (r : Bytes) (h : readYearOffset bs = .ok (v, r)) (hb : BOK bs) : BOK r :=
  pure_bok readYearOffsetM readYearOffset readYearOffsetM_pres (C14.readYearOffsetM_refines none) bs v r h hb

/-- `has_more_data` at the end of the data: false, nothing changes -/
theorem hm_nil (pol : Nat → Nat → Nat) (hp : PolicyOk pol) (m : RState) :
    Gen.C14.Reader.hasMoreData (ofM pol (rest m [])) = .ok (false, ofM pol (rest m [])) := by
  rw [gen_Reader_hasMoreData_eq pol hp (rest m [])]; rfl

/-- `has_more_data` with data left: true, and one byte has moved from the stream into the look-ahead buffer -/
theorem hm_cons (pol : Nat → Nat → Nat) (hp : PolicyOk pol) (m : RState) (b : Nat) (r : Bytes) :
    Gen.C14.Reader.hasMoreData (ofM pol (rest m (b :: r))) = .ok (true, ofM pol ⟨r, some b, m.pool⟩) := by
  rw [gen_Reader_hasMoreData_eq pol hp (rest m (b :: r))]; rfl

theorem wf_buffered (m : RState) (b : Nat) (r : Bytes) (hb : BOK (b :: r)) : WF ⟨r, some b, m.pool⟩ := by
  unfold WF
  constructor
  · intro x hx; exact hb x (List.mem_cons_of_mem _ hx)
  · intro x hx
    cases hx
    exact hb b (by simp)

/-- `_FixedDateTimeZone.read(reader, id_)` is the model's `readFixed` on the bytes at hand -/
theorem gen_FixedZone_read_eq (pol : Nat → Nat → Nat) (hp : PolicyOk pol) (m : RState) (hm : WF m) (id : Str) :
    Gen.C14.FixedZone.read (ofM pol m) id = (match readFixed m.pool id m.abs with
      | .ok (v, r) => .ok (v, ofM pol (rest m r))
      | .error e => .error e) := by
  unfold Gen.C14.FixedZone.read readFixed
  rw [ro_eq pol hp m hm]
  rcases h1 : readOffset m.abs with er | ⟨o, r1⟩
  · rfl
  · have b1 := pure_wf readOffsetM readOffset readOffsetM_pres m hm (C14.readOffsetM_refines m.pool m rfl) o r1 h1
    simp only [ok_bind]
    cases r1 with
    | nil =>
      rw [hm_nil pol hp m]
      rfl
    | cons b r =>
      rw [hm_cons pol hp m b r]
      simp only [ok_bind]
      have hh : hasMoreData (b :: r) = true := rfl
      simp only [if_true, if_pos hh]
      rw [rs_eq pol hp ⟨r, some b, m.pool⟩ (wf_buffered m b r b1)]
      show (match readString m.pool (b :: r) with
        | .ok (v, r2) => (.ok (v, ofM pol (rest m r2)) : R (Str × RS))
        | .error e => .error e) >>= _ = _
      rcases h2 : readString m.pool (b :: r) with er | ⟨nm, r2⟩
      · rfl
      · rfl

/-- a recurrence with both year bounds infinite: the constructor evaluates no yearly occurrence -/
theorem mkRecurrence_inf (n : Str) (s : Offset) (y : ZoneYearOffset) :
    mkRecurrence n s y (-2147483648) 2147483647 = .ok ⟨n, s, y, INT_MIN, INT_MAX⟩ := by
  rfl

/-- `_StandardDaylightAlternatingMap._read(reader)` is the model's `readAlternatingMap` on the bytes at hand -/
theorem gen_AltMap_read_eq (pol : Nat → Nat → Nat) (hp : PolicyOk pol) (m : RState) (hm : WF m) :
    Gen.C14.AltMap.read (ofM pol m) = (match readAlternatingMap m.pool m.abs with
      | .ok (v, r) => .ok (v, ofM pol (rest m r))
      | .error e => .error e) := by
  unfold Gen.C14.AltMap.read readAlternatingMap
  rw [ro_eq pol hp m hm]
  rcases h1 : readOffset m.abs with er | ⟨so, r1⟩
  · rfl
  · have b1 := pure_wf readOffsetM readOffset readOffsetM_pres m hm (C14.readOffsetM_refines m.pool m rfl) so r1 h1
    simp only [ok_bind]
    rw [rs_eq pol hp (rest m r1) ((wf_rest m r1).2 b1), rest_abs, rest_pool]
    rcases h2 : readString m.pool r1 with er | ⟨sn, r2⟩
    · rfl
    · have b2 := readString_bok m.pool r1 sn r2 h2 b1
      simp only [ok_bind, rest_rest]
      rw [ryo_eq pol hp (rest m r2) ((wf_rest m r2).2 b2), rest_abs]
      rcases h3 : readYearOffset r2 with er | ⟨sy, r3⟩
      · rfl
      · have b3 := readYearOffset_bok r2 sy r3 h3 b2
        simp only [ok_bind, rest_rest]
        rw [rs_eq pol hp (rest m r3) ((wf_rest m r3).2 b3), rest_abs, rest_pool]
        rcases h4 : readString m.pool r3 with er | ⟨dn, r4⟩
        · rfl
        · have b4 := readString_bok m.pool r3 dn r4 h4 b3
          simp only [ok_bind, rest_rest]
          rw [ryo_eq pol hp (rest m r4) ((wf_rest m r4).2 b4), rest_abs]
          rcases h5 : readYearOffset r4 with er | ⟨dy, r5⟩
          · rfl
          · have b5 := readYearOffset_bok r4 dy r5 h5 b4
            simp only [ok_bind, rest_rest]
            rw [ro_eq pol hp (rest m r5) ((wf_rest m r5).2 b5), rest_abs]
            rcases h6 : readOffset r5 with er | ⟨sv, r6⟩
            · rfl
            · simp only [ok_bind, rest_rest, mkRecurrence_inf]
              show (alternatingMapCtor so ⟨sn, ⟨0⟩, sy, INT_MIN, INT_MAX⟩ ⟨dn, sv, dy, INT_MIN, INT_MAX⟩ >>= fun r =>
                (.ok (r, ofM pol (rest m r6)) : R (AlternatingMap × RS))) = _
              cases alternatingMapCtor so ⟨sn, ⟨0⟩, sy, INT_MIN, INT_MAX⟩ ⟨dn, sv, dy, INT_MIN, INT_MAX⟩ <;> rfl

theorem readAlternatingMap_bok (pool : Pool) (bs : Bytes) (v : AlternatingMap) (r : Bytes)
    (h : readAlternatingMap pool bs = .ok (v, r)) (hb : BOK bs) : BOK r := by
  unfold readAlternatingMap at h
  rcases h1 : readOffset bs with er | ⟨so, r1⟩
  · rw [h1] at h; cases h
  · have b1 := readOffset_bok bs so r1 h1 hb
    rw [h1] at h; simp only [ok_bind] at h
    rcases h2 : readString pool r1 with er | ⟨sn, r2⟩
    · rw [h2] at h; cases h
    · have b2 := readString_bok pool r1 sn r2 h2 b1
      rw [h2] at h; simp only [ok_bind] at h
      rcases h3 : readYearOffset r2 with er | ⟨sy, r3⟩
      · rw [h3] at h; cases h
      · have b3 := readYearOffset_bok r2 sy r3 h3 b2
        rw [h3] at h; simp only [ok_bind] at h
        rcases h4 : readString pool r3 with er | ⟨dn, r4⟩
        · rw [h4] at h; cases h
        · have b4 := readString_bok pool r3 dn r4 h4 b3
          rw [h4] at h; simp only [ok_bind] at h
          rcases h5 : readYearOffset r4 with er | ⟨dy, r5⟩
          · rw [h5] at h; cases h
          · have b5 := readYearOffset_bok r4 dy r5 h5 b4
            rw [h5] at h; simp only [ok_bind] at h
            rcases h6 : readOffset r5 with er | ⟨sv, r6⟩
            · rw [h6] at h; cases h
            · have b6 := readOffset_bok r5 sv r6 h6 b5
              rw [h6] at h; simp only [ok_bind] at h
              rcases h7 : alternatingMapCtor so ⟨sn, ⟨0⟩, sy, INT_MIN, INT_MAX⟩ ⟨dn, sv, dy, INT_MIN, INT_MAX⟩ with er | am
              · rw [h7] at h; cases h
              · rw [h7] at h; simp only [ok_bind] at h
                cases h; exact b6

/-- `start` after the period loop: the end of the last period read -/
def endOf (start : Instant) : List ZoneInterval → Instant
  | [] => start
  | p :: ps => endOf p.rawEnd ps

/-- the period loop of `_PrecalculatedDateTimeZone._read` -/
theorem gen_PrecalcZone_read_loop1_eq (pol : Nat → Nat → Nat) (hp : PolicyOk pol) : ∀ (fuel k i : Nat) (acc : List ZoneInterval) (start : Instant)
    (m : RState) (r0 : Bytes), BOK r0 → k < fuel →
    Gen.C14.PrecalcZone.read.loop1 ((i + k : Nat) : Int) fuel (i : Int) acc start (ofM pol (rest m r0)) =
      (match readPeriods m.pool k start r0 with
       | .ok (ps, r) => .ok (((i + k : Nat) : Int), acc ++ ps, endOf start ps, ofM pol (rest m r))
       | .error e => .error e) := by
  intro fuel
  induction fuel with
  | zero => intro _ _ _ _ _ _ _ h; omega
  | succ fuel ih =>
    intro k i acc start m r0 hb hlt
    unfold Gen.C14.PrecalcZone.read.loop1
    cases k with
    | zero =>
      rw [if_neg (by omega)]
      simp [readPeriods, endOf]
    | succ k =>
      rw [if_pos (by omega), rs_eq pol hp (rest m r0) ((wf_rest m r0).2 hb), rest_abs, rest_pool]
      simp only [readPeriods]
      rcases h1 : readString m.pool r0 with er | ⟨nm, r1⟩
      · rfl
      · have b1 := readString_bok m.pool r0 nm r1 h1 hb
        simp only [ok_bind, rest_rest]
        rw [ro_eq pol hp (rest m r1) ((wf_rest m r1).2 b1), rest_abs]
        rcases h2 : readOffset r1 with er | ⟨wall, r2⟩
        · rfl
        · have b2 := readOffset_bok r1 wall r2 h2 b1
          simp only [ok_bind, rest_rest]
          rw [ro_eq pol hp (rest m r2) ((wf_rest m r2).2 b2), rest_abs]
          rcases h3 : readOffset r2 with er | ⟨sav, r3⟩
          · rfl
          · have b3 := readOffset_bok r2 sav r3 h3 b2
            simp only [ok_bind, rest_rest]
            rw [rts_eq pol hp (rest m r3) ((wf_rest m r3).2 b3) start, rest_abs]
            rcases h4 : readTransition (some start) r3 with er | ⟨next, r4⟩
            · rfl
            · have b4 := readTransition_bok (some start) r3 next r4 h4 b3
              simp only [ok_bind, rest_rest]
              unfold zoneIntervalCtor
              by_cases hge : Duration.ge start.dur next.dur = true
              · simp only [if_pos hge, err_bind]
              · simp only [if_neg hge, ok_bind, Gen.pyListAppend]
                have hi : ((i : Int) + 1) = ((i + 1 : Nat) : Int) := by omega
                have hik : i + (k + 1) = (i + 1) + k := by omega
                rw [hi, hik, ih k (i + 1) (acc ++ [(⟨nm, start, next, wall, sav⟩ : ZoneInterval)]) next m r4 b4 (by omega)]
                rcases h5 : readPeriods m.pool k next r4 with er | ⟨ps, r5⟩
                · rfl
                · simp [ok_bind, endOf]

theorem readPeriods_bok (pool : Pool) : ∀ (k : Nat) (start : Instant) (bs : Bytes) (ps : List ZoneInterval) (r : Bytes),
    readPeriods pool k start bs = .ok (ps, r) → BOK bs → BOK r := by
  intro k
  induction k with
  | zero =>
    intro start bs ps r h hb
    simp only [readPeriods] at h
    cases h; exact hb
  | succ k ih =>
    intro start bs ps r h hb
    simp only [readPeriods] at h
    rcases h1 : readString pool bs with er | ⟨nm, r1⟩
    · rw [h1] at h; cases h
    · have b1 := readString_bok pool bs nm r1 h1 hb
      rw [h1] at h; simp only [ok_bind] at h
      rcases h2 : readOffset r1 with er | ⟨wall, r2⟩
      · rw [h2] at h; cases h
      · have b2 := readOffset_bok r1 wall r2 h2 b1
        rw [h2] at h; simp only [ok_bind] at h
        rcases h3 : readOffset r2 with er | ⟨sav, r3⟩
        · rw [h3] at h; cases h
        · have b3 := readOffset_bok r2 sav r3 h3 b2
          rw [h3] at h; simp only [ok_bind] at h
          rcases h4 : readTransition (some start) r3 with er | ⟨next, r4⟩
          · rw [h4] at h; cases h
          · have b4 := readTransition_bok (some start) r3 next r4 h4 b3
            rw [h4] at h; simp only [ok_bind] at h
            rcases h5 : zoneIntervalCtor nm start next wall sav with er | p
            · rw [h5] at h; cases h
            · rw [h5] at h; simp only [ok_bind] at h
              rcases h6 : readPeriods pool k next r4 with er | ⟨qs, r5⟩
              · rw [h6] at h; cases h
              · rw [h6] at h; simp only [ok_bind] at h
                cases h
                exact ih next r4 qs r h6 b4

/-- `_PrecalculatedDateTimeZone._read(reader, id_)` is the model's `readPrecalculated` (decoding, then the checks of the
    constructor) on the bytes at hand -/
theorem gen_PrecalcZone_read_eq (pol : Nat → Nat → Nat) (hp : PolicyOk pol) (m : RState) (hm : WF m) (id : Str) :
    Gen.C14.PrecalcZone.read (ofM pol m) id = (match readPrecalculated m.pool id m.abs with
      | .ok (v, r) => .ok (v, ofM pol (rest m r))
      | .error e => .error e) := by
  unfold Gen.C14.PrecalcZone.read readPrecalculated readPrecalculatedData
  rw [rc_eq pol hp m]
  rcases h1 : readCount m.abs with er | ⟨size, r1⟩
  · rfl
  · have w1 := rc_wf m hm size r1 h1
    have b1 := (wf_rest m r1).1 w1.1
    simp only [ok_bind]
    rw [rtn_eq pol hp (rest m r1) w1.1, rest_abs]
    rcases h2 : readTransition none r1 with er | ⟨start, r2⟩
    · rfl
    · have b2 := readTransition_bok none r1 start r2 h2 b1
      simp only [ok_bind, rest_rest]
      have hl := gen_PrecalcZone_read_loop1_eq pol hp (size.toNat + 1) size.toNat 0 [] start m r2 b2 (Nat.lt_succ_self _)
      have hnn : ((0 + size.toNat : Nat) : Int) = size := by have := w1.2; omega
      have h0 : ((0 : Nat) : Int) = 0 := rfl
      rw [hnn, h0] at hl
      rw [hl]
      rcases h3 : readPeriods m.pool size.toNat start r2 with er | ⟨ps, r3⟩
      · rfl
      · have b3 := readPeriods_bok m.pool size.toNat start r2 ps r3 h3 b2
        simp only [ok_bind, List.nil_append]
        rw [rb_eq pol hp (rest m r3), rest_abs]
        rcases h4 : readByte r3 with er | ⟨flag, r4⟩
        · rfl
        · have b4 := readByte_bok r3 flag r4 h4 b3
          simp only [ok_bind, rest_rest]
          by_cases hf : flag = 1
          · have hf' : (flag : Int) = 1 := by omega
            rw [if_pos hf', if_pos hf]
            rw [gen_AltMap_read_eq pol hp (rest m r4) ((wf_rest m r4).2 b4), rest_abs, rest_pool]
            rcases h5 : readAlternatingMap m.pool r4 with er | ⟨am, r5⟩
            · rfl
            · simp only [ok_bind, rest_rest, mkPrecalculated]
              cases precalculatedCtor ⟨id, ps, some am⟩ <;> rfl
          · have hf' : ¬ (flag : Int) = 1 := by omega
            rw [if_neg hf', if_neg hf]
            simp only [ok_bind, mkPrecalculated]
            cases precalculatedCtor ⟨id, ps, none⟩ <;> rfl

end Pyoda.GenAgree.C14
