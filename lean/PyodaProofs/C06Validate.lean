/-
  C06 — `validate()` as the decidable check `sourceValid`: what acceptance means, clause by clause.
-/
import PyodaProofs.C06Dict

namespace Pyoda.C06
open Pyoda Pyoda.Codec

/-! ### small list facts -/

theorem nodupB_iff (l : List Str) : nodupB l = true ↔ l.Nodup := by
  induction l with
  | nil => simp [nodupB]
  | cons x xs ih => simp [nodupB, ih]

theorem mem_dedup (zs : List MapZone) (z : MapZone) : z ∈ dedup zs ↔ z ∈ zs := by
  induction zs with
  | nil => simp [dedup]
  | cons a zs ih =>
    simp only [dedup, List.mem_cons, List.mem_filter, ih, decide_eq_true_eq]
    by_cases h : z = a <;> simp [h]

theorem dedup_nodup (zs : List MapZone) : (dedup zs).Nodup := by
  induction zs with
  | nil => simp [dedup]
  | cons a zs ih =>
    simp only [dedup, List.nodup_cons, List.mem_filter, decide_eq_true_eq, ne_eq, not_true_eq_false, and_false,
      not_false_eq_true, true_and]
    exact ih.sublist List.filter_sublist

theorem dedup_of_nodup (zs : List MapZone) (h : zs.Nodup) : dedup zs = zs := by
  induction zs with
  | nil => rfl
  | cons a zs ih =>
    rw [List.nodup_cons] at h
    simp only [dedup, ih h.2]
    congr 1
    apply List.filter_eq_self.mpr
    intro y hy
    simp only [decide_eq_true_eq]
    intro hya; exact h.1 (hya ▸ hy)

theorem mem_zonesOf (zs : List MapZone) (wid : Str) (z : MapZone) : z ∈ zonesOf zs wid ↔ z ∈ zs ∧ z.windowsId = wid := by
  simp [zonesOf, List.mem_filter]

/-- distinct images: equal images come from equal elements -/
theorem eq_of_nodup_map {α β} (f : α → β) (l : List α) (h : (l.map f).Nodup) (a b : α) (ha : a ∈ l) (hb : b ∈ l)
    (hf : f a = f b) : a = b := by
  induction l with
  | nil => cases ha
  | cons x xs ih =>
    simp only [List.map_cons, List.nodup_cons, List.mem_map, not_exists, not_and] at h
    rcases List.mem_cons.mp ha with ha' | ha' <;> rcases List.mem_cons.mp hb with hb' | hb'
    · rw [ha', hb']
    · exact absurd (ha' ▸ hf).symm (h.1 b hb')
    · exact absurd (hb' ▸ hf) (h.1 a ha')
    · exact ih h.2 ha' hb'

theorem isPrimary_iff (z : MapZone) : z.isPrimary = true ↔ z.territory = PRIMARY_TERRITORY := by
  simp [MapZone.isPrimary]

/-! ### the primary mapping -/

theorem primaryMapping_eq (zs : List MapZone) :
    primaryMapping zs = insertAll [] ((zs.filter (·.isPrimary)).map (fun z => (z.windowsId, z.tzdbIds.headD []))) := by
  simp [primaryMapping, insertAll, List.foldl_map]

/-- every entry of `primary_mapping` comes from a primary MapZone: its windows id and its first tzdb id -/
theorem mem_primaryMapping (zs : List MapZone) (e : Str × Str) (h : e ∈ primaryMapping zs) :
    ∃ p ∈ zs, p.territory = PRIMARY_TERRITORY ∧ e = (p.windowsId, p.tzdbIds.headD []) := by
  rw [primaryMapping_eq] at h
  rcases mem_insertAll _ _ _ h with h | h
  · cases h
  · rcases List.mem_map.mp h with ⟨p, hp, rfl⟩
    rw [List.mem_filter] at hp
    exact ⟨p, hp.1, (isPrimary_iff p).mp hp.2, rfl⟩

/-! ### what `validate()` accepting means -/

/-- the tests of `validate()`, as propositions about the decoded source -/
structure Valid (s : SrcView) : Prop where
  /-- every entry of the id map points at an id that maps to itself -/
  closed : ∀ e ∈ s.idMap, dictGet? s.idMap e.2 = some e.2
  /-- every windows id that occurs has an entry for the primary territory "001" -/
  hasPrimary : ∀ z ∈ s.mapZones, ∃ p ∈ s.mapZones, p.territory = PRIMARY_TERRITORY ∧ p.windowsId = z.windowsId
  /-- every tzdb id used by the Windows mapping is an id of the source -/
  idsKnown : ∀ z ∈ s.mapZones, ∀ id ∈ z.tzdbIds, known s.idMap id = true
  /-- outside the primary entries no tzdb id is listed twice -/
  unique : (nonPrimaryIds s.mapZones).Nodup
  /-- per windows id the territories are distinct — up to entries that are equal in all components (the code groups
      the entries through a dict keyed by `MapZone`) -/
  territories : ∀ a ∈ s.mapZones, ∀ b ∈ s.mapZones, a.windowsId = b.windowsId → a.territory = b.territory → a = b
  /-- a primary entry has exactly one tzdb id, and a non-primary entry of the same windows id lists it -/
  primaryOK : ∀ p ∈ s.mapZones, p.territory = PRIMARY_TERRITORY →
    ∃ x, p.tzdbIds = [x] ∧ ∃ z ∈ s.mapZones, z.windowsId = p.windowsId ∧ z.territory ≠ PRIMARY_TERRITORY ∧ x ∈ z.tzdbIds
  /-- zone ids of the locations are ids of the source -/
  locs : ∀ l, s.locIds = some l → ∀ id ∈ l, known s.idMap id = true
  locs70 : ∀ l, s.loc70Ids = some l → ∀ id ∈ l, known s.idMap id = true

theorem hasPrimary_sound (zs : List MapZone) (h : hasPrimary zs = true) :
    ∀ z ∈ zs, ∃ p ∈ zs, p.territory = PRIMARY_TERRITORY ∧ p.windowsId = z.windowsId := by
  intro z hz
  simp only [hasPrimary, List.all_eq_true] at h
  rcases (known_iff_exists _ _).mp (h z hz) with ⟨v, hv⟩
  rcases mem_primaryMapping zs _ hv with ⟨p, hp, hterr, he⟩
  refine ⟨p, hp, hterr, ?_⟩
  have := congrArg Prod.fst he
  exact this.symm

theorem territories_sound (zs : List MapZone) (h : groupsOK zs = true) :
    ∀ a ∈ zs, ∀ b ∈ zs, a.windowsId = b.windowsId → a.territory = b.territory → a = b := by
  intro a ha b hb hw ht
  simp only [groupsOK, groupsOKOn, List.all_eq_true] at h
  have hg := h a ((mem_dedup zs a).mpr ha)
  simp only [groupOK, Bool.and_eq_true] at hg
  have hnd := (nodupB_iff _).mp hg.1
  exact eq_of_nodup_map (·.territory) _ hnd a b
    ((mem_zonesOf _ _ _).mpr ⟨(mem_dedup zs a).mpr ha, rfl⟩)
    ((mem_zonesOf _ _ _).mpr ⟨(mem_dedup zs b).mpr hb, hw.symm⟩) ht

theorem primaryOK_sound (zs : List MapZone) (h : groupsOK zs = true) :
    ∀ p ∈ zs, p.territory = PRIMARY_TERRITORY →
      ∃ x, p.tzdbIds = [x] ∧ ∃ z ∈ zs, z.windowsId = p.windowsId ∧ z.territory ≠ PRIMARY_TERRITORY ∧ x ∈ z.tzdbIds := by
  intro p hp hterr
  have hinj := territories_sound zs h
  simp only [groupsOK, groupsOKOn, List.all_eq_true] at h
  have hg := h p ((mem_dedup zs p).mpr hp)
  simp only [groupOK, Bool.and_eq_true] at hg
  have hg2 := hg.2
  split at hg2
  · cases hg2
  · rename_i p' hfind
    have hp'mem := List.mem_of_find?_eq_some hfind
    have hp'prim := List.find?_some hfind
    rw [mem_zonesOf, mem_dedup] at hp'mem
    have : p' = p := hinj p' hp'mem.1 p hp hp'mem.2 (((isPrimary_iff p').mp hp'prim).trans hterr.symm)
    subst this
    split at hg2
    · rename_i x hx
      refine ⟨x, hx, ?_⟩
      rcases List.any_eq_true.mp hg2 with ⟨z, hz, hzc⟩
      rw [mem_zonesOf, mem_dedup] at hz
      simp only [Bool.and_eq_true, Bool.not_eq_true', decide_eq_true_eq] at hzc
      refine ⟨z, hz.1, hz.2, ?_, hzc.2⟩
      intro hzt
      have := (isPrimary_iff z).mpr hzt
      rw [this] at hzc; exact absurd hzc.1 (by decide)
    · cases hg2

theorem locsOK_sound (m : Dict) (o : Option (List Str)) (h : locsOK m o = true) :
    ∀ l, o = some l → ∀ id ∈ l, known m id = true := by
  intro l hl id hid
  subst hl
  simp only [locsOK, List.all_eq_true] at h
  exact h id hid

/-- `validate()` returning normally gives every clause -/
theorem sourceValid_sound (s : SrcView) (h : sourceValid s = true) : Valid s := by
  simp only [sourceValid, Bool.and_eq_true] at h
  obtain ⟨⟨⟨⟨⟨h1, h2⟩, h3⟩, h4⟩, h5⟩, h6⟩ := h
  simp only [idsOK, Bool.and_eq_true] at h3
  refine ⟨?_, hasPrimary_sound _ h2, ?_, (nodupB_iff _).mp h3.2, territories_sound _ h4, primaryOK_sound _ h4,
    locsOK_sound _ _ h5, locsOK_sound _ _ h6⟩
  · intro e he
    simp only [canonClosed, List.all_eq_true, decide_eq_true_eq] at h1
    exact h1 e he
  · intro z hz id hid
    have := h3.1
    simp only [List.all_eq_true] at this
    exact this z hz id hid

/-! ### the converse: the clauses are all that `validate()` tests -/

theorem nodup_map_of_inj_on {α β} (f : α → β) (l : List α) (hn : l.Nodup)
    (hf : ∀ a ∈ l, ∀ b ∈ l, f a = f b → a = b) : (l.map f).Nodup := by
  induction l with
  | nil => simp
  | cons x xs ih =>
    rw [List.nodup_cons] at hn
    simp only [List.map_cons, List.nodup_cons, List.mem_map, not_exists, not_and]
    refine ⟨?_, ih hn.2 (fun a ha b hb => hf a (List.mem_cons_of_mem _ ha) b (List.mem_cons_of_mem _ hb))⟩
    intro y hy hxy
    have := hf y (List.mem_cons_of_mem _ hy) x List.mem_cons_self hxy
    exact hn.1 (this ▸ hy)

theorem hasPrimary_complete (zs : List MapZone)
    (h : ∀ z ∈ zs, ∃ p ∈ zs, p.territory = PRIMARY_TERRITORY ∧ p.windowsId = z.windowsId) : hasPrimary zs = true := by
  simp only [hasPrimary, List.all_eq_true]
  intro z hz
  rcases h z hz with ⟨p, hp, hterr, hw⟩
  rw [primaryMapping_eq, known_insertAll]
  simp only [Bool.or_eq_true, decide_eq_true_eq]
  right
  simp only [List.map_map, List.mem_map, List.mem_filter]
  exact ⟨p, ⟨hp, (isPrimary_iff p).mpr hterr⟩, hw⟩

theorem groupsOK_complete (zs : List MapZone)
    (hprim : ∀ z ∈ zs, ∃ p ∈ zs, p.territory = PRIMARY_TERRITORY ∧ p.windowsId = z.windowsId)
    (hinj : ∀ a ∈ zs, ∀ b ∈ zs, a.windowsId = b.windowsId → a.territory = b.territory → a = b)
    (hok : ∀ p ∈ zs, p.territory = PRIMARY_TERRITORY →
      ∃ x, p.tzdbIds = [x] ∧ ∃ z ∈ zs, z.windowsId = p.windowsId ∧ z.territory ≠ PRIMARY_TERRITORY ∧ x ∈ z.tzdbIds) :
    groupsOK zs = true := by
  simp only [groupsOK, groupsOKOn, List.all_eq_true]
  intro z hz
  rw [mem_dedup] at hz
  simp only [groupOK, Bool.and_eq_true]
  constructor
  · rw [nodupB_iff]
    apply nodup_map_of_inj_on
    · exact (dedup_nodup zs).sublist List.filter_sublist
    · intro a ha b hb hab
      rw [mem_zonesOf, mem_dedup] at ha hb
      exact hinj a ha.1 b hb.1 (ha.2.trans hb.2.symm) hab
  · rcases hprim z hz with ⟨p, hp, hterr, hw⟩
    have hpg : p ∈ zonesOf (dedup zs) z.windowsId := (mem_zonesOf _ _ _).mpr ⟨(mem_dedup zs p).mpr hp, hw⟩
    split
    · rename_i hnone
      rw [List.find?_eq_none] at hnone
      exact absurd ((isPrimary_iff p).mpr hterr) (hnone p hpg)
    · rename_i p' hfind
      have hp'mem := List.mem_of_find?_eq_some hfind
      have hp'prim := (isPrimary_iff p').mp (List.find?_some hfind)
      rw [mem_zonesOf, mem_dedup] at hp'mem
      rcases hok p' hp'mem.1 hp'prim with ⟨x, hx, z', hz', hw', hnp, hxin⟩
      rw [hx]
      simp only [List.any_eq_true, Bool.and_eq_true, Bool.not_eq_true', decide_eq_true_eq]
      refine ⟨z', (mem_zonesOf _ _ _).mpr ⟨(mem_dedup zs z').mpr hz', hw'.trans hp'mem.2⟩, ?_, hxin⟩
      cases hzp : z'.isPrimary
      · rfl
      · exact absurd ((isPrimary_iff z').mp hzp) hnp

theorem locsOK_complete (m : Dict) (o : Option (List Str)) (h : ∀ l, o = some l → ∀ id ∈ l, known m id = true) :
    locsOK m o = true := by
  cases o with
  | none => rfl
  | some l => simp only [locsOK, List.all_eq_true]; exact h l rfl

theorem sourceValid_complete (s : SrcView) (h : Valid s) : sourceValid s = true := by
  simp only [sourceValid, Bool.and_eq_true, idsOK]
  refine ⟨⟨⟨⟨⟨?_, hasPrimary_complete _ h.hasPrimary⟩, ?_, (nodupB_iff _).mpr h.unique⟩,
    groupsOK_complete _ h.hasPrimary h.territories h.primaryOK⟩, locsOK_complete _ _ h.locs⟩, locsOK_complete _ _ h.locs70⟩
  · simp only [canonClosed, List.all_eq_true, decide_eq_true_eq]; exact h.closed
  · simp only [List.all_eq_true]; exact h.idsKnown

/-- `validate()` returns normally exactly when the clauses hold -/
theorem sourceValid_iff (s : SrcView) : sourceValid s = true ↔ Valid s :=
  ⟨sourceValid_sound s, sourceValid_complete s⟩

/-- the group number reported for the first failing test is 0 exactly for a valid source -/
theorem firstFailure_zero_iff (s : SrcView) : firstFailure s = 0 ↔ sourceValid s = true := by
  simp only [firstFailure, sourceValid, Bool.and_eq_true]
  cases canonClosed s.idMap <;> cases hasPrimary s.mapZones <;> cases idsOK s.idMap s.mapZones <;>
    cases groupsOK s.mapZones <;> cases locsOK s.idMap s.locIds <;> cases locsOK s.idMap s.loc70Ids <;> simp

/-! ### entries that are equal in all components: where the code departs from a test over the listed entries -/

/-- without repeated entries the test over the set of entries is the test over the entries as listed -/
theorem sourceValid_eq_strict (s : SrcView) (h : s.mapZones.Nodup) : sourceValid s = sourceValidStrict s := by
  simp only [sourceValid, sourceValidStrict, groupsOK, dedup_of_nodup _ h]

theorem nodup_of_groups {α β γ} [DecidableEq γ] (f : α → β) (g : α → γ) (l : List α)
    (h : ∀ z ∈ l, ((l.filter (fun y => decide (g y = g z))).map f).Nodup) : l.Nodup := by
  induction l with
  | nil => simp
  | cons x xs ih =>
    rw [List.nodup_cons]
    constructor
    · intro hx
      have := h x List.mem_cons_self
      simp only [List.filter_cons, decide_true, if_true, List.map_cons, List.nodup_cons, List.mem_map, not_exists,
        not_and] at this
      exact this.1 x (List.mem_filter.mpr ⟨hx, by simp⟩) rfl
    · apply ih
      intro z hz
      have := h z (List.mem_cons_of_mem _ hz)
      exact this.sublist ((List.Sublist.filter _ (List.sublist_cons_self x xs)).map f)

/-- a source that passes the test over the listed entries passes `validate()` -/
theorem strict_imp_valid (s : SrcView) (h : sourceValidStrict s = true) : sourceValid s = true := by
  have hn : s.mapZones.Nodup := by
    simp only [sourceValidStrict, Bool.and_eq_true] at h
    have hg := h.1.1.2
    simp only [groupsOKOn, List.all_eq_true, groupOK, Bool.and_eq_true] at hg
    apply nodup_of_groups (·.territory) (·.windowsId)
    intro z hz
    exact (nodupB_iff _).mp (hg z hz).1
  rw [sourceValid_eq_strict s hn]; exact h

/-- the observation recorded: two entries equal in all three components (here a repeated primary entry) pass
    `validate()`, although the territory "001" is listed twice for the windows id; the test over the listed
    entries (Noda Time's) rejects the same data -/
def dupExample : SrcView :=
  let w : Str := [87]; let t : Str := [90, 90]; let id : Str := [85, 84, 67]
  ⟨[(id, id)], [⟨w, PRIMARY_TERRITORY, [id]⟩, ⟨w, t, [id]⟩, ⟨w, PRIMARY_TERRITORY, [id]⟩], none, none⟩

theorem exact_duplicate_accepted : sourceValid dupExample = true ∧ sourceValidStrict dupExample = false := by
  decide

end Pyoda.C06
